(* C18 — executable model of the tracing and vector-clock plumbing of the distsys runtime.
   Model only (Definitions/Fixpoints, no proofs).

   Transcribed from
     distsys/trace/state.go          EventState: BeginEvent / RecordRead / RecordWrite / CommitEvent
     distsys/trace/vclock_sink.go    VClockSink: InitCriticalSection (Inc), WitnessVClock (Merge), GetVClock
     distsys/tla/vclock.go           VClock: Inc, Merge, Get
     distsys/tla/value.go            WrapCausal / StripVClock / GetVClock
     distsys/archetypeinterface.go   Read, Write (old-value-hint side channel), Goto
     distsys/archetyperesource.go    LocalArchetypeResource and its indexed sub-resource (clock handling)
     distsys/mpcalctx.go             Run loop, commit, abort
     distsys/resources/localshared.go, channels.go, tcpmailboxes.go (+ incmap.go dirty elements)
   with tracing and vector clocks enabled (PGO_TRACE_DIR set at process start).

   Conventions
   * archetype instances (MPCalContexts) are numbered; the vector-clock key (archetype name, self) of
     instance a is the number a.  A VClock (immutable.Map from key to int) is the dense vector of its entries.
   * TLA+ values are integers; a local or shared variable may also hold a function from integers to integers
     (accessed as x[i]), which is what reaches localArchetypeSubResource.  The ghost writer tag of such a
     variable names the attempt that last wrote any of its cells.
   * a program is, per archetype, a list of labels; a label is a list of tries (ops, forced abort): the n-th
     attempt of the label runs try min(n, last).  A label that commits goes to the next one; after the last
     label the archetype reaches Done.  This is the scripted body of the harness; the theorems hold for every
     such program.
   * interleaving: one scheduler event `step st (a, tmo)` lets archetype a perform its next op; when the ops of
     the attempt are exhausted the step finishes the attempt (forced abort, or Goto + commit) and the Run loop
     begins the next attempt (BeginEvent, InitCriticalSection, Read .pc).  A failing op aborts the attempt at once.
   * what the environment decides: where nothing is available (a lock held by another instance, an empty
     channel/mailbox) the op aborts - the harness is the only driver, so a busy lock stays busy and an empty
     queue stays empty for the whole timeout.  Where the implementation selects against a timer or talks to the
     network although the resource is available (the timeout may win; a dial or a PreCommit may fail), its
     observed choice is the flag tmo of the event.  The theorems hold for every flag sequence.
   * fields marked ghost have no counterpart in the Go code; they only name things the theorems talk about
     (which attempt wrote a value, what the body did, the attempt number). *)
From Coq Require Export List ZArith Bool Arith.
Export ListNotations.

(* ------------------------------------------------------------------ vector clocks (tla/vclock.go) *)

Definition vclock := list nat.

Definition vget (k : nat) (c : vclock) : nat := nth k c 0.

Fixpoint vset (k n : nat) (c : vclock) : vclock :=
  match k, c with
  | O, [] => [n]
  | O, _ :: r => n :: r
  | S k', [] => 0 :: vset k' n []
  | S k', x :: r => x :: vset k' n r
  end.

(* VClock.Inc *)
Definition vinc (k : nat) (c : vclock) : vclock := vset k (S (vget k c)) c.

(* the loop of VClock.Merge: for every entry (i, v) of `other`: if v > acc[i] then acc = acc.Set(i, v) *)
Fixpoint vmerge_loop (i : nat) (other acc : vclock) : vclock :=
  match other with
  | [] => acc
  | v :: r => vmerge_loop (S i) r (if Nat.ltb (vget i acc) v then vset i v acc else acc)
  end.

(* VClock.Merge: nil maps are returned as they are; iterate over the smaller one *)
Definition vmerge (a b : vclock) : vclock :=
  match a, b with
  | [], _ => b
  | _, [] => a
  | _, _ => if Nat.ltb (List.length a) (List.length b) then vmerge_loop 0 a b else vmerge_loop 0 b a
  end.

Definition vle (a b : vclock) : Prop := forall k, vget k a <= vget k b.
Definition vleb (n : nat) (a b : vclock) : bool := forallb (fun k => vget k a <=? vget k b) (seq 0 n).
Definition vvec (n : nat) (c : vclock) : list nat := map (fun k => vget k c) (seq 0 n).

(* ------------------------------------------------------------------ values *)

Inductive val := VInt (z : Z) | VMap (m : list (Z * Z)).

Fixpoint mget (k : Z) (m : list (Z * Z)) : option Z :=
  match m with
  | [] => None
  | (k', v) :: r => if Z.eqb k k' then Some v else mget k r
  end.

Fixpoint mset (k v : Z) (m : list (Z * Z)) : list (Z * Z) :=
  match m with
  | [] => []
  | (k', v') :: r => if Z.eqb k k' then (k, v) :: r else (k', v') :: mset k v r
  end.

(* value at an index path; None = the Go code panics (ApplyFunction on a non-function / missing key) *)
Definition cell_get (idx : list Z) (v : val) : option val :=
  match idx, v with
  | [], _ => Some v
  | [i], VMap m => option_map VInt (mget i m)
  | _, _ => None
  end.

(* FunctionSubstitution along an index path *)
Definition cell_set (idx : list Z) (z : Z) (v : val) : option val :=
  match idx, v with
  | [], _ => Some (VInt z)
  | [i], VMap m => match mget i m with Some _ => Some (VMap (mset i z m)) | None => None end
  | _, _ => None
  end.

Definition tag := (nat * nat)%type.                 (* ghost: (archetype, attempt number) that wrote a value *)

(* a causally wrapped value (tla.valueCausalWrapped) *)
Record cval := mkCV { cv_val : Z; cv_clk : vclock; cv_tag : tag (* ghost *) }.

Inductive skind := KLoc | KShr | KChan | KBox.      (* ghost: kind of resource a value was read from *)

(* resources: the apparent names recorded in trace elements; scripted ops name every one but .pc *)
Inductive rname := NPc | NLoc (k : nat) | NShr (j : nat) | NIn (c : nat) | NOut (c : nat) | NBox (m : nat).

Definition rname_eqb (x y : rname) : bool :=
  match x, y with
  | NPc, NPc => true
  | NLoc a, NLoc b | NShr a, NShr b | NIn a, NIn b | NOut a, NOut b | NBox a, NBox b => Nat.eqb a b
  | _, _ => false
  end.

(* trace.ReadElement / trace.WriteElement (for NBox m the logged index list is m :: idx) *)
Inductive element :=
  | ERead (n : rname) (idx : list Z) (v : val)
  | EWrite (n : rname) (idx : list Z) (v : val) (hint : option val).

(* trace.Event as handed to the Recorder *)
Record event := mkEvent {
  e_elems : list element; e_clock : vclock; e_abort : bool;
  e_no : nat;                         (* ghost: attempt number *)
  e_srcs : list (skind * tag)         (* ghost: for every read of the attempt, whose value it returned *)
}.

Inductive expr := EConst (z : Z) | ELast (d : Z).   (* value written: a constant, or the last value read + d *)
Inductive op := ORead (r : rname) (idx : list Z) | OWrite (r : rname) (idx : list Z) (e : expr).

(* ghost: what the body (and the Run loop for .pc) performed, from the caller's side:
   Read returned v / Write of z was accepted and overwrote `old` *)
Inductive perf := PRead (n : rname) (idx : list Z) (v : val) | PWrite (n : rname) (idx : list Z) (z : Z) (old : option val).

Definition elem_of (p : perf) : element :=
  match p with
  | PRead n idx v => ERead n idx v
  | PWrite n idx z old => EWrite n idx (VInt z) old
  end.

Record hentry := mkH { h_no : nat; h_abort : bool; h_perf : list perf; h_clock : vclock }.   (* ghost *)

(* ------------------------------------------------------------------ LocalArchetypeResource *)

Record lres := mkL { l_val : val; l_old : val; l_clk : vclock; l_tag : tag; l_otag : tag (* tags ghost *) }.

(* ReadValue: res.clock = res.clock.Merge(sink); return WrapCausal(value at the index path, res.clock).
   Returns the resource and the value (its wrapper clock is the new l_clk); None = panic *)
Definition lres_read (idx : list Z) (sink : vclock) (r : lres) : option (lres * val) :=
  match cell_get idx (l_val r) with
  | None => None
  | Some v => Some (mkL (l_val r) (l_old r) (vmerge (l_clk r) sink) (l_tag r) (l_otag r), v)
  end.

(* WriteValue(value wrapped with wclk): old-value hint := the current value at the path; the sink witnesses
   res.clock (the caller merges the returned clock into the sink); res.clock merges the value's clock; store.
   Returns the resource, the clock to be witnessed and the hint; None = panic *)
Definition lres_write (idx : list Z) (z : Z) (wclk : vclock) (t : tag) (r : lres)
  : option (lres * vclock * val) :=
  match cell_get idx (l_val r), cell_set idx z (l_val r) with
  | Some old, Some nv => Some (mkL nv (l_old r) (vmerge (l_clk r) wclk) t (l_otag r), l_clk r, old)
  | _, _ => None
  end.

(* Commit (repaired code: the committing section's clock is merged into the resource) / Abort *)
Definition lres_commit (sink : vclock) (r : lres) : lres :=
  mkL (l_val r) (l_val r) (vmerge (l_clk r) sink) (l_tag r) (l_tag r).
Definition lres_abort (r : lres) : lres :=
  mkL (l_old r) (l_old r) (l_clk r) (l_otag r) (l_otag r).

(* ------------------------------------------------------------------ state *)

(* per-archetype resource-instance buffers *)
Inductive bufid :=
  | BInBuf (c : nat) | BInBack (c : nat)       (* InputChan.buffer / backlogBuffer *)
  | BOut (c : nat)                             (* OutputChan.buffer *)
  | BPend (m : nat)                            (* values sent on the connection of tcpMailboxesRemote since Begin *)
  | BBack (m : nat) | BProg (m : nat).         (* tcpMailboxesLocal.readBacklog / readsInProgress *)

Definition bufid_eqb (x y : bufid) : bool :=
  match x, y with
  | BInBuf a, BInBuf b | BInBack a, BInBack b | BOut a, BOut b
  | BPend a, BPend b | BBack a, BBack b | BProg a, BProg b => Nat.eqb a b
  | _, _ => false
  end.

Definition try := (list op * bool)%type.

Record arch := mkArch {
  a_prog : list (list try);
  a_tries : nat -> nat;            (* attempts made so far per label (the script's own counter) *)
  a_rest : list op;                (* ops of the running attempt still to do *)
  a_forced : bool;                 (* the running attempt ends with ErrCriticalSectionAborted *)
  a_status : nat;                  (* 0 running, 1 Run returned at Done, 2 Run returned with an error/panic *)
  a_last : Z;                      (* last number read (for ELast) *)
  a_sink : vclock;                 (* VClockSink.clock *)
  a_elems : list element;          (* EventState.elements *)
  a_pc : lres;
  a_loc : nat -> lres;
  a_dirty : list rname;            (* dirtyResourceHandles; NBox m = element m of the IncMap's dirtyElems *)
  a_buf : bufid -> list cval;
  a_att : nat;                     (* ghost: attempts begun *)
  a_srcs : list (skind * tag);     (* ghost *)
  a_perf : list perf;              (* ghost *)
  a_hist : list hentry;            (* ghost: finished attempts as the Run loop went through them *)
  a_log : list event               (* events received by the Recorder, in order *)
}.

Definition set_tries (A : arch) x : arch := mkArch (a_prog A) x (a_rest A) (a_forced A) (a_status A) (a_last A) (a_sink A) (a_elems A) (a_pc A) (a_loc A) (a_dirty A) (a_buf A) (a_att A) (a_srcs A) (a_perf A) (a_hist A) (a_log A).
Definition set_rest (A : arch) x : arch := mkArch (a_prog A) (a_tries A) x (a_forced A) (a_status A) (a_last A) (a_sink A) (a_elems A) (a_pc A) (a_loc A) (a_dirty A) (a_buf A) (a_att A) (a_srcs A) (a_perf A) (a_hist A) (a_log A).
Definition set_forced (A : arch) x : arch := mkArch (a_prog A) (a_tries A) (a_rest A) x (a_status A) (a_last A) (a_sink A) (a_elems A) (a_pc A) (a_loc A) (a_dirty A) (a_buf A) (a_att A) (a_srcs A) (a_perf A) (a_hist A) (a_log A).
Definition set_status (A : arch) x : arch := mkArch (a_prog A) (a_tries A) (a_rest A) (a_forced A) x (a_last A) (a_sink A) (a_elems A) (a_pc A) (a_loc A) (a_dirty A) (a_buf A) (a_att A) (a_srcs A) (a_perf A) (a_hist A) (a_log A).
Definition set_last (A : arch) x : arch := mkArch (a_prog A) (a_tries A) (a_rest A) (a_forced A) (a_status A) x (a_sink A) (a_elems A) (a_pc A) (a_loc A) (a_dirty A) (a_buf A) (a_att A) (a_srcs A) (a_perf A) (a_hist A) (a_log A).
Definition set_sink (A : arch) x : arch := mkArch (a_prog A) (a_tries A) (a_rest A) (a_forced A) (a_status A) (a_last A) x (a_elems A) (a_pc A) (a_loc A) (a_dirty A) (a_buf A) (a_att A) (a_srcs A) (a_perf A) (a_hist A) (a_log A).
Definition set_elems (A : arch) x : arch := mkArch (a_prog A) (a_tries A) (a_rest A) (a_forced A) (a_status A) (a_last A) (a_sink A) x (a_pc A) (a_loc A) (a_dirty A) (a_buf A) (a_att A) (a_srcs A) (a_perf A) (a_hist A) (a_log A).
Definition set_pc (A : arch) x : arch := mkArch (a_prog A) (a_tries A) (a_rest A) (a_forced A) (a_status A) (a_last A) (a_sink A) (a_elems A) x (a_loc A) (a_dirty A) (a_buf A) (a_att A) (a_srcs A) (a_perf A) (a_hist A) (a_log A).
Definition set_loc (A : arch) x : arch := mkArch (a_prog A) (a_tries A) (a_rest A) (a_forced A) (a_status A) (a_last A) (a_sink A) (a_elems A) (a_pc A) x (a_dirty A) (a_buf A) (a_att A) (a_srcs A) (a_perf A) (a_hist A) (a_log A).
Definition set_dirty (A : arch) x : arch := mkArch (a_prog A) (a_tries A) (a_rest A) (a_forced A) (a_status A) (a_last A) (a_sink A) (a_elems A) (a_pc A) (a_loc A) x (a_buf A) (a_att A) (a_srcs A) (a_perf A) (a_hist A) (a_log A).
Definition set_buf (A : arch) x : arch := mkArch (a_prog A) (a_tries A) (a_rest A) (a_forced A) (a_status A) (a_last A) (a_sink A) (a_elems A) (a_pc A) (a_loc A) (a_dirty A) x (a_att A) (a_srcs A) (a_perf A) (a_hist A) (a_log A).
Definition set_att (A : arch) x : arch := mkArch (a_prog A) (a_tries A) (a_rest A) (a_forced A) (a_status A) (a_last A) (a_sink A) (a_elems A) (a_pc A) (a_loc A) (a_dirty A) (a_buf A) x (a_srcs A) (a_perf A) (a_hist A) (a_log A).
Definition set_srcs (A : arch) x : arch := mkArch (a_prog A) (a_tries A) (a_rest A) (a_forced A) (a_status A) (a_last A) (a_sink A) (a_elems A) (a_pc A) (a_loc A) (a_dirty A) (a_buf A) (a_att A) x (a_perf A) (a_hist A) (a_log A).
Definition set_perf (A : arch) x : arch := mkArch (a_prog A) (a_tries A) (a_rest A) (a_forced A) (a_status A) (a_last A) (a_sink A) (a_elems A) (a_pc A) (a_loc A) (a_dirty A) (a_buf A) (a_att A) (a_srcs A) x (a_hist A) (a_log A).
Definition set_hist (A : arch) x : arch := mkArch (a_prog A) (a_tries A) (a_rest A) (a_forced A) (a_status A) (a_last A) (a_sink A) (a_elems A) (a_pc A) (a_loc A) (a_dirty A) (a_buf A) (a_att A) (a_srcs A) (a_perf A) x (a_log A).
Definition set_log (A : arch) x : arch := mkArch (a_prog A) (a_tries A) (a_rest A) (a_forced A) (a_status A) (a_last A) (a_sink A) (a_elems A) (a_pc A) (a_loc A) (a_dirty A) (a_buf A) (a_att A) (a_srcs A) (a_perf A) (a_hist A) x.

(* LocalSharedManager: the shared LocalArchetypeResource and who holds its lock
   (lockCh + the hasLock flag of the holder's localShared instance) *)
Record shr := mkShr { s_res : lres; s_holder : option nat }.

Record state := mkState {
  g_arch : nat -> arch;
  g_shr : nat -> shr;
  g_chan : nat -> list cval;              (* the Go channel between OutputChans and InputChans *)
  g_box : nat -> list (list cval);        (* tcpMailboxesLocal.msgChannel: committed records *)
  g_own : nat -> nat;                     (* which archetype owns (listens on) mailbox m *)
  g_n : nat                               (* number of archetype instances of the case *)
}.

Definition upd {X} (f : nat -> X) (k : nat) (x : X) : nat -> X := fun j => if Nat.eqb j k then x else f j.
Definition updb (f : bufid -> list cval) (b : bufid) (x : list cval) : bufid -> list cval :=
  fun j => if bufid_eqb j b then x else f j.

Definition set_arch (st : state) (a : nat) (A : arch) : state :=
  mkState (upd (g_arch st) a A) (g_shr st) (g_chan st) (g_box st) (g_own st) (g_n st).
Definition set_shr (st : state) (j : nat) (s : shr) : state :=
  mkState (g_arch st) (upd (g_shr st) j s) (g_chan st) (g_box st) (g_own st) (g_n st).
Definition set_chan (st : state) (c : nat) (q : list cval) : state :=
  mkState (g_arch st) (g_shr st) (upd (g_chan st) c q) (g_box st) (g_own st) (g_n st).
Definition set_box (st : state) (m : nat) (q : list (list cval)) : state :=
  mkState (g_arch st) (g_shr st) (g_chan st) (upd (g_box st) m q) (g_own st) (g_n st).

Definition set_abuf (A : arch) (b : bufid) (x : list cval) : arch := set_buf A (updb (a_buf A) b x).

(* ensureCriticalSectionWith (and IncMap.Index for mailboxes) *)
Definition mark_dirty (n : rname) (A : arch) : arch :=
  if existsb (rname_eqb n) (a_dirty A) then A else set_dirty A (a_dirty A ++ [n]).

(* EventState.RecordRead / RecordWrite (+ ghost source) *)
Definition rec_read (A : arch) (n : rname) (idx : list Z) (v : val) (k : skind) (t : tag) : arch :=
  set_srcs (set_elems A (a_elems A ++ [ERead n idx v])) (a_srcs A ++ [(k, t)]).
Definition rec_write (A : arch) (n : rname) (idx : list Z) (z : Z) (hint : option val) : arch :=
  set_elems A (a_elems A ++ [EWrite n idx (VInt z) hint]).

Definition note_last (A : arch) (v : val) : arch :=
  match v with VInt z => set_last A z | VMap _ => A end.

(* ------------------------------------------------------------------ ArchetypeInterface.Read *)

(* the resource's part of a read (Index* + ReadValue) on behalf of archetype a: the value, the clock of its
   causal wrapper, and (ghost) what kind of resource it came from and who wrote it *)
Inductive rdres :=
  | RdOk (st : state) (v : val) (clk : vclock) (k : skind) (t : tag)
  | RdAbort (st : state) | RdCrash (st : state).

Definition lock_busy (S : shr) (a : nat) : bool :=
  match s_holder S with Some h => negb (Nat.eqb h a) | None => false end.

(* acquireWithTimeout selects between the lock and time.After: when the lock is free the timeout may still
   win (tmo = the implementation's observed choice); an instance that already holds the lock does not select *)
Definition lock_tmo (S : shr) (tmo : bool) : bool :=
  match s_holder S with Some _ => false | None => tmo end.

Definition res_read (st : state) (a : nat) (r : rname) (idx : list Z) (tmo : bool) : rdres :=
  let A := g_arch st a in
  match r with
  | NPc =>
      match lres_read idx (a_sink A) (a_pc A) with
      | None => RdCrash st
      | Some (r', v) => RdOk (set_arch st a (set_pc A r')) v (l_clk r') KLoc (l_tag r')
      end
  | NLoc k =>
      match lres_read idx (a_sink A) (a_loc A k) with
      | None => RdCrash st
      | Some (r', v) => RdOk (set_arch st a (set_loc A (upd (a_loc A) k r'))) v (l_clk r') KLoc (l_tag r')
      end
  | NShr j =>
      let S := g_shr st j in
      if lock_busy S a || lock_tmo S tmo then RdAbort st  (* tryEnsureLock: timeout *)
      else
        match lres_read idx (a_sink A) (s_res S) with
        | None => RdCrash (set_shr st j (mkShr (s_res S) (Some a)))
        | Some (r', v) => RdOk (set_shr st j (mkShr r' (Some a))) v (l_clk r') KShr (l_tag r')
        end
  | NIn c =>
      match idx with
      | _ :: _ => RdCrash st                               (* ArchetypeResourceLeafMixin.Index: error *)
      | [] =>
          match a_buf A (BInBuf c) with
          | v :: rest =>
              RdOk (set_arch st a (set_abuf (set_abuf A (BInBuf c) rest) (BInBack c) (a_buf A (BInBack c) ++ [v])))
                   (VInt (cv_val v)) (cv_clk v) KChan (cv_tag v)
          | [] =>
              if tmo then RdAbort st else                  (* the timeout fired first *)
              match g_chan st c with
              | v :: rest =>
                  RdOk (set_chan (set_arch st a (set_abuf A (BInBack c) (a_buf A (BInBack c) ++ [v]))) c rest)
                       (VInt (cv_val v)) (cv_clk v) KChan (cv_tag v)
              | [] => RdAbort st                           (* read timeout *)
              end
          end
      end
  | NOut c => RdCrash st                                   (* panic: read from an output channel *)
  | NBox m =>
      if negb (Nat.eqb (g_own st m) a) then RdCrash st     (* panic: read from a remote mailbox *)
      else
      match idx with
      | _ :: _ => RdCrash st
      | [] =>
          match a_buf A (BBack m) with
          | v :: rest =>
              RdOk (set_arch st a (set_abuf (set_abuf A (BBack m) rest) (BProg m) (a_buf A (BProg m) ++ [v])))
                   (VInt (cv_val v)) (cv_clk v) KBox (cv_tag v)
          | [] =>
              if tmo then RdAbort st else                  (* the timeout fired first *)
              match g_box st m with
              | (v :: more) :: recs =>
                  RdOk (set_box (set_arch st a (set_abuf (set_abuf A (BBack m) more) (BProg m) (a_buf A (BProg m) ++ [v]))) m recs)
                       (VInt (cv_val v)) (cv_clk v) KBox (cv_tag v)
              | [] :: recs => RdCrash (set_box st m recs)  (* record.values[0] of an empty record: never enqueued *)
              | [] => RdAbort st                           (* read timeout *)
              end
          end
      end
  end.

(* after a successful ReadValue: witness the wrapper's clock, RecordRead, strip *)
Definition fin_read (A : arch) (n : rname) (idx : list Z) (v : val) (clk : vclock) (k : skind) (t : tag) : arch :=
  note_last (rec_read (set_sink A (vmerge (a_sink A) clk)) n idx v k t) v.

Inductive rres := RROk (st : state) (v : val) | RRAbort (st : state) | RRCrash (st : state).

Definition do_read (st : state) (a : nat) (r : rname) (idx : list Z) (tmo : bool) : rres :=
  let st0 := set_arch st a (mark_dirty r (g_arch st a)) in
  match res_read st0 a r idx tmo with
  | RdOk st1 v clk k t => RROk (set_arch st1 a (fin_read (g_arch st1 a) r idx v clk k t)) v
  | RdAbort st1 => RRAbort st1
  | RdCrash st1 => RRCrash st1
  end.

(* ------------------------------------------------------------------ ArchetypeInterface.Write *)

(* the resource's part of a write (Index* + WriteValue of the value wrapped with wclk) *)
Inductive wrres := WrOk (st : state) (hint : option val) | WrAbort (st : state) | WrCrash (st : state).

Definition res_write (st : state) (a : nat) (r : rname) (idx : list Z) (z : Z) (wclk : vclock) (t : tag) (tmo : bool) : wrres :=
  let A := g_arch st a in
  match r with
  | NPc =>
      match lres_write idx z wclk t (a_pc A) with
      | None => WrCrash st
      | Some (r', w, old) => WrOk (set_arch st a (set_sink (set_pc A r') (vmerge (a_sink A) w))) (Some old)
      end
  | NLoc k =>
      match lres_write idx z wclk t (a_loc A k) with
      | None => WrCrash st
      | Some (r', w, old) => WrOk (set_arch st a (set_sink (set_loc A (upd (a_loc A) k r')) (vmerge (a_sink A) w))) (Some old)
      end
  | NShr j =>
      let S := g_shr st j in
      if lock_busy S a || lock_tmo S tmo then WrAbort st
      else
        match lres_write idx z wclk t (s_res S) with
        | None => WrCrash (set_shr st j (mkShr (s_res S) (Some a)))
        | Some (r', w, old) => WrOk (set_shr (set_arch st a (set_sink A (vmerge (a_sink A) w))) j (mkShr r' (Some a))) (Some old)
        end
  | NIn c => WrCrash st                                    (* panic: write to an input channel *)
  | NOut c =>
      match idx with
      | _ :: _ => WrCrash st
      | [] => WrOk (set_arch st a (set_abuf A (BOut c) (a_buf A (BOut c) ++ [mkCV z wclk t]))) None
      end
  | NBox m =>
      if Nat.eqb (g_own st m) a then WrCrash st            (* panic: write to a local mailbox *)
      else
      match idx with
      | _ :: _ => WrCrash st
      | [] => (* Begin (first write of the section) + Value record carrying the value as wrapped now;
                 a dial/network error (tmo) aborts the section *)
          if tmo then WrAbort st else
          WrOk (set_arch st a (set_abuf A (BPend m) (a_buf A (BPend m) ++ [mkCV z wclk t]))) None
      end
  end.

Inductive wres := WROk (st : state) | WRAbort (st : state) | WRCrash (st : state).

(* Write: mark dirty, arm the hint receiver, WriteValue(WrapCausal(value, sink)), RecordWrite with the hint if one came *)
Definition do_write (st : state) (a : nat) (r : rname) (idx : list Z) (z : Z) (tmo : bool) : wres :=
  let st0 := set_arch st a (mark_dirty r (g_arch st a)) in
  let A := g_arch st0 a in
  match res_write st0 a r idx z (a_sink A) (a, a_att A) tmo with
  | WrOk st1 hint => WROk (set_arch st1 a (rec_write (g_arch st1 a) r idx z hint))
  | WrAbort st1 => WRAbort st1
  | WrCrash st1 => WRCrash st1
  end.

(* the value a write overwrites, seen from outside the resource (ghost, for elements_faithful) *)
Definition overwritten (st : state) (a : nat) (r : rname) (idx : list Z) : option val :=
  match r with
  | NPc => cell_get idx (l_val (a_pc (g_arch st a)))
  | NLoc k => cell_get idx (l_val (a_loc (g_arch st a) k))
  | NShr j => cell_get idx (l_val (s_res (g_shr st j)))
  | _ => None
  end.

Definition eval_expr (A : arch) (e : expr) : Z :=
  match e with EConst z => z | ELast d => (a_last A + d)%Z end.

Inductive opres := OpOk (st : state) (p : perf) | OpAbort (st : state) | OpCrash (st : state).

Definition is_pc (r : rname) : bool := match r with NPc => true | _ => false end.

Definition do_op (st : state) (a : nat) (o : op) (tmo : bool) : opres :=
  match o with
  | ORead r idx =>
      if is_pc r then OpCrash st else                      (* scripts have no name for .pc *)
      match do_read st a r idx tmo with
      | RROk st' v => OpOk st' (PRead r idx v)
      | RRAbort st' => OpAbort st'
      | RRCrash st' => OpCrash st'
      end
  | OWrite r idx e =>
      if is_pc r then OpCrash st else
      let z := eval_expr (g_arch st a) e in
      match do_write st a r idx z tmo with
      | WROk st' => OpOk st' (PWrite r idx z (overwritten st a r idx))
      | WRAbort st' => OpAbort st'
      | WRCrash st' => OpCrash st'
      end
  end.

(* ------------------------------------------------------------------ commit / abort (mpcalctx.go) *)

Definition rewrap (sink : vclock) (v : cval) : cval := mkCV (cv_val v) sink (cv_tag v).        (* WrapCausal(StripVClock v, sink) *)
Definition addwrap (sink : vclock) (v : cval) : cval := mkCV (cv_val v) (vmerge sink (cv_clk v)) (cv_tag v).  (* WrapCausal(v, sink) *)

Definition commit_res (a : nat) (st : state) (n : rname) : state :=
  let A := g_arch st a in
  match n with
  | NPc => set_arch st a (set_pc A (lres_commit (a_sink A) (a_pc A)))
  | NLoc k => set_arch st a (set_loc A (upd (a_loc A) k (lres_commit (a_sink A) (a_loc A k))))
  | NShr j =>
      let S := g_shr st j in
      match s_holder S with
      | Some h => if Nat.eqb h a then set_shr st j (mkShr (lres_commit (a_sink A) (s_res S)) None) else st
      | None => st
      end
  | NIn c => set_arch st a (set_abuf A (BInBack c) [])
  | NOut c =>
      set_chan (set_arch st a (set_abuf A (BOut c) [])) c (g_chan st c ++ map (rewrap (a_sink A)) (a_buf A (BOut c)))
  | NBox m =>
      if Nat.eqb (g_own st m) a then set_arch st a (set_abuf A (BProg m) [])
      else
        match a_buf A (BPend m) with
        | [] => st
        | vs => set_box (set_arch st a (set_abuf A (BPend m) [])) m (g_box st m ++ [vs])
        end
  end.

Definition abort_res (a : nat) (st : state) (n : rname) : state :=
  let A := g_arch st a in
  match n with
  | NPc => set_arch st a (set_pc A (lres_abort (a_pc A)))
  | NLoc k => set_arch st a (set_loc A (upd (a_loc A) k (lres_abort (a_loc A k))))
  | NShr j =>
      let S := g_shr st j in
      match s_holder S with
      | Some h => if Nat.eqb h a then set_shr st j (mkShr (lres_abort (s_res S)) None) else st
      | None => st
      end
  | NIn c => set_arch st a (set_abuf (set_abuf A (BInBuf c) (a_buf A (BInBack c) ++ a_buf A (BInBuf c))) (BInBack c) [])
  | NOut c => set_arch st a (set_abuf A (BOut c) [])
  | NBox m =>
      if Nat.eqb (g_own st m) a
      then set_arch st a (set_abuf (set_abuf A (BBack m) (map (addwrap (a_sink A)) (a_buf A (BProg m)) ++ a_buf A (BBack m))) (BProg m) [])
      else set_arch st a (set_abuf A (BPend m) [])
  end.

(* EventState.CommitEvent(clock, isAbort) + clearing of the dirty set; ghost history entry *)
Definition commit_event (st : state) (a : nat) (ab : bool) : state :=
  let A := g_arch st a in
  let ev := mkEvent (a_elems A) (a_sink A) ab (a_att A) (a_srcs A) in
  let A1 := set_log (set_elems A []) (a_log A ++ [ev]) in
  let A2 := set_hist A1 (a_hist A ++ [mkH (a_att A) ab (a_perf A) (a_sink A)]) in
  set_arch st a (set_dirty (set_srcs (set_perf A2 []) []) []).

Definition do_commit (st : state) (a : nat) : state :=
  commit_event (fold_left (commit_res a) (a_dirty (g_arch st a)) st) a false.

Definition do_abort (st : state) (a : nat) : state :=
  commit_event (fold_left (abort_res a) (a_dirty (g_arch st a)) st) a true.

(* ------------------------------------------------------------------ the Run loop *)

Definition pc_label (v : val) : nat := match v with VInt z => Z.to_nat z | VMap _ => 0 end.

(* top of the loop: BeginEvent, InitCriticalSection, Read(.pc), look the label up, enter the body *)
Definition begin_attempt (st : state) (a : nat) : state :=
  let A0 := g_arch st a in
  match a_elems A0 with
  | _ :: _ => set_arch st a (set_status A0 2)          (* BeginEvent panics: trace accumulator corrupted *)
  | [] =>
    let st1 := set_arch st a (set_att (set_sink A0 (vinc a (a_sink A0))) (S (a_att A0))) in
    match do_read st1 a NPc [] false with
    | RROk st2 v =>
        let A := set_perf (set_last (g_arch st2 a) (a_last A0)) [PRead NPc [] v] in   (* a_last belongs to the script *)
        let lbl := pc_label v in
        match nth_error (a_prog A) lbl with
        | None => set_arch st2 a (set_status A 1)      (* Done: the body returns ErrDone, Run returns, nothing is logged *)
        | Some tries =>
            let n := a_tries A lbl in
            let t := nth (Nat.min n (List.length tries - 1)) tries ([], false) in
            set_arch st2 a (set_forced (set_rest (set_tries A (upd (a_tries A) lbl (S n))) (fst t)) (snd t))
        end
    | RRAbort st2 | RRCrash st2 => set_arch st2 a (set_status (g_arch st2 a) 2)
    end
  end.

(* Goto(next): Write(.pc, nil, next) *)
Definition goto_next (st : state) (a : nat) : state :=
  let A := g_arch st a in
  let next := (match l_val (a_pc A) with VInt z => z | VMap _ => 0 end + 1)%Z in
  match do_write st a NPc [] next false with
  | WROk st1 =>
      let A1 := g_arch st1 a in
      set_arch st1 a (set_perf A1 (a_perf A1 ++ [PWrite NPc [] next (overwritten st a NPc [])]))
  | WRAbort st1 | WRCrash st1 => set_arch st1 a (set_status (g_arch st1 a) 2)
  end.

(* one scheduler event: archetype a performs its next op (or finishes the attempt); tmo = the outcome the
   implementation chose where it selects against a timer or talks to the network: a timeout may fire although
   the lock/message is available, a dial or PreCommit may fail.  Where nothing is available the op aborts anyway. *)
Definition step (st : state) (ev : nat * bool) : state :=
  let '(a, tmo) := ev in
  let A := g_arch st a in
  if negb (Nat.ltb a (g_n st)) then st else
  if negb (Nat.eqb (a_status A) 0) then st else
  match a_rest A with
  | [] =>
      if a_forced A then begin_attempt (do_abort st a) a
      else if tmo then begin_attempt (do_abort (goto_next st a) a) a      (* a PreCommit failed: abort *)
      else begin_attempt (do_commit (goto_next st a) a) a
  | o :: rest =>
      match do_op st a o tmo with
      | OpOk st' p =>
          let A' := g_arch st' a in
          set_arch st' a (set_perf (set_rest A' rest) (a_perf A' ++ [p]))
      | OpAbort st' => begin_attempt (do_abort st' a) a
      | OpCrash st' => set_arch st' a (set_status (g_arch st' a) 2)
      end
  end.

Definition run_from (st : state) (sched : list (nat * bool)) : state := fold_left step sched st.

(* ------------------------------------------------------------------ configurations *)

Definition lres_init (v : val) (a : nat) : lres := mkL v v [] (a, 0) (a, 0).

Record acfg := mkACfg { c_prog : list (list try); c_locals : list val }.

Definition arch_init (a : nat) (c : acfg) : arch :=
  mkArch (c_prog c) (fun _ => 0) [] false 0 0%Z [] [] (lres_init (VInt 0) a)
         (fun k => lres_init (nth k (c_locals c) (VInt 0)) a) [] (fun _ => []) 0 [] [] [] [].

Record cfg := mkCfg { cf_archs : list acfg; cf_shared : list val; cf_owner : list nat }.

Definition no_arch : acfg := mkACfg [] [].

(* every context is created, then every Run starts and goes up to its first scripted op *)
Definition init (c : cfg) : state :=
  let st0 := mkState (fun a => arch_init a (nth a (cf_archs c) no_arch))
                     (fun j => mkShr (lres_init (nth j (cf_shared c) (VInt 0%Z)) (List.length (cf_archs c))) None)
                     (fun _ => []) (fun _ => [])
                     (fun m => nth m (cf_owner c) 0) (List.length (cf_archs c)) in
  fold_left begin_attempt (seq 0 (List.length (cf_archs c))) st0.

Definition run (c : cfg) (sched : list (nat * bool)) : state := run_from (init c) sched.

(* ------------------------------------------------------------------ replay of a log (TraceLink's reading) *)

Fixpoint zz_eqb (m n : list (Z * Z)) : bool :=
  match m, n with
  | [], [] => true
  | (a, b) :: m', (c, d) :: n' => Z.eqb a c && Z.eqb b d && zz_eqb m' n'
  | _, _ => false
  end.

Definition val_eqb (x y : val) : bool :=
  match x, y with
  | VInt a, VInt b => Z.eqb a b
  | VMap m, VMap n => zz_eqb m n
  | _, _ => false
  end.

Definition oval_eqb (x : option val) (y : val) : bool :=
  match x with Some v => val_eqb v y | None => false end.

(* store of archetype-local state: .pc and the local variables *)
Definition rstore := (val * (nat -> val))%type.

(* one element against the store: a read of local state must show the stored value; a write of local state
   must carry the overwritten value as its hint, and updates the store.  Other resources are skipped. *)
Definition replay_elem (s : rstore * bool) (e : element) : rstore * bool :=
  let '((pc, loc), ok) := s in
  match e with
  | ERead NPc idx v => ((pc, loc), ok && oval_eqb (cell_get idx pc) v)
  | ERead (NLoc k) idx v => ((pc, loc), ok && oval_eqb (cell_get idx (loc k)) v)
  | EWrite NPc idx (VInt z) (Some h) =>
      match cell_set idx z pc with
      | Some pc' => ((pc', loc), ok && oval_eqb (cell_get idx pc) h)
      | None => ((pc, loc), false)
      end
  | EWrite (NLoc k) idx (VInt z) (Some h) =>
      match cell_set idx z (loc k) with
      | Some v' => ((pc, upd loc k v'), ok && oval_eqb (cell_get idx (loc k)) h)
      | None => ((pc, loc), false)
      end
  | EWrite NPc _ _ _ | EWrite (NLoc _) _ _ _ => ((pc, loc), false)
  | _ => s
  end.

(* an event: its elements run against a tentative copy; the copy is kept only if the attempt committed *)
Definition replay_event (s : rstore * bool) (e : event) : rstore * bool :=
  let '(st, ok) := s in
  let '(st', ok') := fold_left replay_elem (e_elems e) (st, true) in
  (if e_abort e then st else st', ok && ok').

Definition replay_log (s0 : rstore) (log : list event) : rstore * bool :=
  fold_left replay_event log (s0, true).

Definition init_store (a : nat) (c : acfg) : rstore := (VInt 0, fun k => nth k (c_locals c) (VInt 0)).

(* ------------------------------------------------------------------ comparison with the implementation *)

Fixpoint list_eqb {X} (eqb : X -> X -> bool) (l1 l2 : list X) : bool :=
  match l1, l2 with
  | [], [] => true
  | x :: r1, y :: r2 => eqb x y && list_eqb eqb r1 r2
  | _, _ => false
  end.

Definition ohint_eqb (x y : option val) : bool :=
  match x, y with Some a, Some b => val_eqb a b | None, None => true | _, _ => false end.

Definition element_eqb (x y : element) : bool :=
  match x, y with
  | ERead n i v, ERead n' i' v' => rname_eqb n n' && list_eqb Z.eqb i i' && val_eqb v v'
  | EWrite n i v h, EWrite n' i' v' h' => rname_eqb n n' && list_eqb Z.eqb i i' && val_eqb v v' && ohint_eqb h h'
  | _, _ => false
  end.

(* observed event: isAbort, clock as a vector over the case's archetypes, elements *)
Definition oev := (bool * list nat * list element)%type.

Definition oev_of (n : nat) (e : event) : oev := (e_abort e, vvec n (e_clock e), e_elems e).

Definition oev_eqb (x y : oev) : bool :=
  let '(a, c, es) := x in let '(a', c', es') := y in
  Bool.eqb a a' && list_eqb Nat.eqb c c' && list_eqb element_eqb es es'.

(* one case: configuration, schedule, and per archetype (observed events, observed status) *)
Definition obs_case := (cfg * list (nat * bool) * list (list oev * nat))%type.

Definition model_obs (c : cfg) (sched : list (nat * bool)) : list (list oev * nat) :=
  let st := run c sched in
  let n := List.length (cf_archs c) in
  map (fun a => (map (oev_of n) (a_log (g_arch st a)), a_status (g_arch st a))) (seq 0 n).

Definition arch_obs_eqb (x y : list oev * nat) : bool :=
  list_eqb oev_eqb (fst x) (fst y) && Nat.eqb (snd x) (snd y).

Definition case_ok (k : obs_case) : bool :=
  let '(c, sched, obs) := k in list_eqb arch_obs_eqb (model_obs c sched) obs.

Fixpoint mismatches_from (i : nat) (cases : list obs_case) : list nat :=
  match cases with
  | [] => []
  | k :: rest => let m := mismatches_from (S i) rest in if case_ok k then m else i :: m
  end.

(* diagnosis of a mismatch: per archetype, the position of the first event that differs, with both events *)
Fixpoint first_diff (i : nat) (l1 l2 : list oev) : option (nat * option oev * option oev) :=
  match l1, l2 with
  | [], [] => None
  | x :: r1, y :: r2 => if oev_eqb x y then first_diff (S i) r1 r2 else Some (i, Some x, Some y)
  | x :: _, [] => Some (i, Some x, None)
  | [], y :: _ => Some (i, None, Some y)
  end.

Definition diagnose (k : obs_case) : list (option (nat * option oev * option oev) * nat * nat) :=
  let '(c, sched, obs) := k in
  map (fun p => (first_diff 0 (fst (fst p)) (fst (snd p)), snd (fst p), snd (snd p))) (combine (model_obs c sched) obs).
