(* C18 — reader dominates writer for local variables, shared variables and channels
   (with the repaired LocalArchetypeResource.Commit); TCP mailboxes are the refuted part. *)
From PGV Require Import C18.Model C18.ProofsClock C18.ProofsFrame C18.ProofsLog C18.ProofsCausal.
From Coq Require Import Lia.

Definition fin (st : state) (w : nat) : nat := List.length (a_log (g_arch st w)).
Definition finished (st : state) (t : tag) : Prop := snd t <= fin st (fst t).
(* clock c covers the event of attempt t, if that attempt has been logged *)
Definition P (st : state) (t : tag) (c : vclock) : Prop :=
  forall e, In e (a_log (g_arch st (fst t))) -> e_no e = snd t -> vle (e_clock e) c.

(* mid = Some a: archetype a is between the commit of its resources and its CommitEvent; values it has just
   published carry its (final) sink clock and the number of the attempt about to be logged *)
Definition ok_tag (mid : option nat) (st : state) (t : tag) (c : vclock) : Prop :=
  (finished st t /\ P st t c) \/
  (mid = Some (fst t) /\ snd t = S (fin st (fst t)) /\ vle (a_sink (g_arch st (fst t))) c).

Definition chanish (st : state) (v : cval) : Prop :=
  (exists c, In v (g_chan st c)) \/ (exists b c, In v (a_buf (g_arch st b) (BInBuf c))) \/
  (exists b c, In v (a_buf (g_arch st b) (BInBack c))).

Definition shr_ok (mid : option nat) (st : state) (j : nat) : Prop :=
  ok_tag mid st (l_otag (s_res (g_shr st j))) (l_clk (s_res (g_shr st j))) /\
  match s_holder (g_shr st j) with
  | None => l_tag (s_res (g_shr st j)) = l_otag (s_res (g_shr st j))
  | Some h => (l_tag (s_res (g_shr st j)) = l_otag (s_res (g_shr st j)) \/ l_tag (s_res (g_shr st j)) = (h, S (fin st h))) /\
              In (NShr j) (a_dirty (g_arch st h))
  end.

Definition src_ok (st : state) (r : nat) (sink : vclock) (kt : skind * tag) : Prop :=
  fst kt <> KBox -> (finished st (snd kt) /\ P st (snd kt) sink) \/ snd kt = (r, S (fin st r)).

Definition loc_ok (st : state) (a : nat) (L : lres) : Prop :=
  fst (l_tag L) = a /\ snd (l_tag L) <= S (fin st a) /\ fst (l_otag L) = a /\ snd (l_otag L) <= S (fin st a).

Definition esrc_ok (st : state) (er : event) (kt : skind * tag) : Prop :=
  fst kt <> KBox -> finished st (snd kt) /\ P st (snd kt) (e_clock er).

Record CInv (mid : option nat) (st : state) : Prop := mkCInv {
  ci_chan : forall v, chanish st v -> ok_tag mid st (cv_tag v) (cv_clk v);
  ci_out : forall a c v, In v (a_buf (g_arch st a) (BOut c)) ->
           cv_tag v = (a, S (fin st a)) /\ In (NOut c) (a_dirty (g_arch st a));
  ci_shr : forall j, shr_ok mid st j;
  ci_src : forall r kt, In kt (a_srcs (g_arch st r)) -> src_ok st r (a_sink (g_arch st r)) kt;
  ci_loc : forall a, loc_ok st a (a_pc (g_arch st a)) /\ forall k, loc_ok st a (a_loc (g_arch st a) k);
  ci_log : forall r er kt, In er (a_log (g_arch st r)) -> In kt (e_srcs er) -> esrc_ok st er kt;
  ci_no : forall w e, In e (a_log (g_arch st w)) -> e_no e <= fin st w }.

(* ---------------------------------------------------------------- monotonicity, extensionality *)

Lemma P_mono : forall st t c c', vle c c' -> P st t c -> P st t c'.
Proof. intros st t c c' H HP e He Hn. eapply vle_trans; [apply HP; assumption|exact H]. Qed.

Lemma ok_tag_mono : forall mid st t c c', vle c c' -> ok_tag mid st t c -> ok_tag mid st t c'.
Proof.
  intros mid st t c c' H [[F HP]|(M1 & M2 & M3)]; [left; split; [assumption|eapply P_mono; eassumption]|].
  right. repeat split; try assumption. eapply vle_trans; eassumption.
Qed.

Lemma ok_tag_weaken : forall mid st t c, ok_tag None st t c -> ok_tag mid st t c.
Proof. intros mid st t c [H|(M & _)]; [left; exact H|discriminate]. Qed.

Section SameLogs.
  Variables st st' : state.
  Hypothesis Hlog : forall w, a_log (g_arch st' w) = a_log (g_arch st w).

  Lemma fin_same : forall w, fin st' w = fin st w.
  Proof. intros w. unfold fin. rewrite Hlog. reflexivity. Qed.

  Lemma finished_same : forall t, finished st t -> finished st' t.
  Proof. intros t. unfold finished. rewrite fin_same. auto. Qed.

  Lemma P_same : forall t c, P st t c -> P st' t c.
  Proof. intros t c H e He. rewrite Hlog in He. apply H. exact He. Qed.

  Lemma ok_tag_same : forall mid t c,
    (forall a, mid = Some a -> vle (a_sink (g_arch st' a)) (a_sink (g_arch st a))) ->
    ok_tag mid st t c -> ok_tag mid st' t c.
  Proof.
    intros mid t c Hs [[F HP]|(M1 & M2 & M3)]; [left; split; [apply finished_same|apply P_same]; assumption|].
    right. rewrite fin_same. repeat split; try assumption. eapply vle_trans; [apply Hs; exact M1|exact M3].
  Qed.
  Lemma src_ok_same : forall r sink kt, src_ok st r sink kt -> src_ok st' r sink kt.
  Proof.
    intros r sink kt H Hk. destruct (H Hk) as [[F HP]|E]; [left; split; [apply finished_same|apply P_same]; assumption|].
    right. rewrite fin_same. exact E.
  Qed.

  Lemma loc_ok_same : forall a L, loc_ok st a L -> loc_ok st' a L.
  Proof. intros a L (L1 & L2 & L3 & L4). unfold loc_ok. rewrite fin_same. repeat split; assumption. Qed.

  Lemma esrc_ok_same : forall er kt, esrc_ok st er kt -> esrc_ok st' er kt.
  Proof. intros er kt H Hk. destruct (H Hk) as [F HP]. split; [apply finished_same|apply P_same]; assumption. Qed.
End SameLogs.

Lemma CInv_set_arch : forall mid st a A',
  CInv mid st ->
  a_log A' = a_log (g_arch st a) ->
  (mid = Some a -> a_sink A' = a_sink (g_arch st a)) ->
  (forall c v, In v (a_buf A' (BInBuf c)) \/ In v (a_buf A' (BInBack c)) -> ok_tag mid st (cv_tag v) (cv_clk v)) ->
  (forall c v, In v (a_buf A' (BOut c)) -> cv_tag v = (a, S (fin st a)) /\ In (NOut c) (a_dirty A')) ->
  (forall j, s_holder (g_shr st j) = Some a -> In (NShr j) (a_dirty A')) ->
  (forall kt, In kt (a_srcs A') -> src_ok st a (a_sink A') kt) ->
  loc_ok st a (a_pc A') -> (forall k, loc_ok st a (a_loc A' k)) ->
  CInv mid (set_arch st a A').
Proof.
  intros mid st a A' [C1 C2 C3 C4 C5 C6 C7] Hlg Hsk Hin Hout Hdirty Hsrc Hpc Hloc.
  set (st' := set_arch st a A').
  assert (Hlog : forall w, a_log (g_arch st' w) = a_log (g_arch st w)).
  { intros w. unfold st'. cbn. unfold upd. destruct (Nat.eqb_spec w a); [subst; assumption|reflexivity]. }
  assert (Hs : forall b, mid = Some b -> vle (a_sink (g_arch st' b)) (a_sink (g_arch st b))).
  { intros b Hb. unfold st'. cbn. unfold upd. destruct (Nat.eqb_spec b a) as [E|E]; [subst b; rewrite (Hsk Hb)|]; apply vle_refl. }
  assert (Ho : forall b, b <> a -> g_arch st' b = g_arch st b) by (intros; unfold st'; apply g_arch_set_other; assumption).
  assert (Ea : g_arch st' a = A') by (unfold st'; apply g_arch_set_same).
  constructor.
  - intros v [(c & H)|[(b & c & H)|(b & c & H)]].
    + eapply ok_tag_same; [exact Hlog|exact Hs|]. apply C1. left. eauto.
    + eapply ok_tag_same; [exact Hlog|exact Hs|]. destruct (Nat.eq_dec b a) as [->|Hne].
      * rewrite Ea in H. eapply Hin. left. exact H.
      * rewrite Ho in H by assumption. apply C1. right. left. eauto.
    + eapply ok_tag_same; [exact Hlog|exact Hs|]. destruct (Nat.eq_dec b a) as [->|Hne].
      * rewrite Ea in H. eapply Hin. right. exact H.
      * rewrite Ho in H by assumption. apply C1. right. right. eauto.
  - intros b c v H. rewrite (fin_same st st' Hlog). destruct (Nat.eq_dec b a) as [->|Hne].
    + rewrite Ea in *. apply Hout. exact H.
    + rewrite Ho in * by assumption. apply C2. exact H.
  - intros j. destruct (C3 j) as (S1 & S2). split.
    + eapply ok_tag_same; [exact Hlog|exact Hs|exact S1].
    + change (g_shr st' j) with (g_shr st j). destruct (s_holder (g_shr st j)) as [h|] eqn:Eh; [|exact S2].
      rewrite (fin_same st st' Hlog). destruct S2 as (S2 & S3). split; [exact S2|].
      destruct (Nat.eq_dec h a) as [->|Hne]; [rewrite Ea; apply Hdirty; exact Eh|rewrite Ho by assumption; exact S3].
  - intros r kt H. apply (src_ok_same st st' Hlog). destruct (Nat.eq_dec r a) as [->|Hne].
    + rewrite Ea in *. apply Hsrc. exact H.
    + rewrite Ho in * by assumption. apply C4. exact H.
  - intros b. destruct (Nat.eq_dec b a) as [->|Hne].
    + rewrite Ea. split; [|intros k]; apply (loc_ok_same st st' Hlog); [exact Hpc|apply Hloc].
    + rewrite Ho by assumption. destruct (C5 b) as (L1 & L2). split; [|intros k]; apply (loc_ok_same st st' Hlog); [exact L1|apply L2].
  - intros r er kt He Hk. rewrite Hlog in He. apply (esrc_ok_same st st' Hlog). eapply C6; eassumption.
  - intros w e He. rewrite Hlog in He. rewrite (fin_same st st' Hlog). apply C7. exact He.
Qed.

(* archetype a replaced by a state that agrees on everything tracked (dirty set may grow) *)
Lemma CInv_same : forall mid st a A',
  CInv mid st ->
  a_log A' = a_log (g_arch st a) -> a_sink A' = a_sink (g_arch st a) -> a_srcs A' = a_srcs (g_arch st a) ->
  (forall n, In n (a_dirty (g_arch st a)) -> In n (a_dirty A')) ->
  loc_ok st a (a_pc A') -> (forall k, loc_ok st a (a_loc A' k)) ->
  (forall c, a_buf A' (BInBuf c) = a_buf (g_arch st a) (BInBuf c)) ->
  (forall c, a_buf A' (BInBack c) = a_buf (g_arch st a) (BInBack c)) ->
  (forall c, a_buf A' (BOut c) = a_buf (g_arch st a) (BOut c)) ->
  CInv mid (set_arch st a A').
Proof.
  intros mid st a A' C H1 H2 H3 H4 H5 H6 H7 H8 H9.
  pose proof C as [C1 C2 C3 C4 C5 C6 C7].
  apply CInv_set_arch; try assumption.
  - intros _. exact H2.
  - intros c v [H|H]; [rewrite H7 in H|rewrite H8 in H]; apply C1; [right; left|right; right]; eauto.
  - intros c v H. rewrite H9 in H. destruct (C2 a c v H) as (E1 & E2). split; [exact E1|apply H4; exact E2].
  - intros j Hj. destruct (C3 j) as (_ & S2). rewrite Hj in S2. apply H4. apply S2.
  - intros kt H. rewrite H3 in H. rewrite H2. apply C4. exact H.
Qed.

Lemma CInv_set_chan : forall mid st c q,
  CInv mid st -> (forall v, In v q -> ok_tag mid st (cv_tag v) (cv_clk v)) -> CInv mid (set_chan st c q).
Proof.
  intros mid st c q [C1 C2 C3 C4 C5 C6 C7] Hq. constructor; try assumption.
  intros v [(c0 & H)|[H|H]].
  - cbn in H. unfold upd in H. destruct (Nat.eqb c0 c); [apply Hq; exact H|apply C1; left; eauto].
  - apply C1. right. left. exact H.
  - apply C1. right. right. exact H.
Qed.

Lemma CInv_set_box : forall mid st m q, CInv mid st -> CInv mid (set_box st m q).
Proof. intros mid st m q [C1 C2 C3 C4 C5 C6 C7]. constructor; assumption. Qed.

Lemma CInv_set_shr : forall mid st j s,
  CInv mid st ->
  ok_tag mid st (l_otag (s_res s)) (l_clk (s_res s)) ->
  match s_holder s with
  | None => l_tag (s_res s) = l_otag (s_res s)
  | Some h => (l_tag (s_res s) = l_otag (s_res s) \/ l_tag (s_res s) = (h, S (fin st h))) /\ In (NShr j) (a_dirty (g_arch st h))
  end ->
  CInv mid (set_shr st j s).
Proof.
  intros mid st j s [C1 C2 C3 C4 C5 C6 C7] H1 H2. constructor; try assumption.
  intros j0. unfold shr_ok. cbn [g_shr set_shr]. unfold upd. destruct (Nat.eqb_spec j0 j) as [->|Hne].
  - split; assumption.
  - apply C3.
Qed.

(* ---------------------------------------------------------------- reads *)

(* facts about archetype a needed by the causal part: the attempt number in flight and its own log *)
Definition arch_facts (st : state) (a : nat) : Prop :=
  a_att (g_arch st a) = S (fin st a) /\
  forall e, In e (a_log (g_arch st a)) -> vle (e_clock e) (a_sink (g_arch st a)).

Lemma tag_eta : forall t : tag, t = (fst t, snd t).
Proof. intros [x y]. reflexivity. Qed.

(* the tag of a local resource of a, against any clock that includes a's sink *)
Lemma loc_src : forall st a L clk,
  arch_facts st a -> loc_ok st a L -> vle (a_sink (g_arch st a)) clk ->
  (finished st (l_tag L) /\ P st (l_tag L) clk) \/ l_tag L = (a, S (fin st a)).
Proof.
  intros st a L clk (_ & Hm) (L1 & L2 & _ & _) Hc.
  destruct (Nat.eq_dec (snd (l_tag L)) (S (fin st a))) as [E|E].
  - right. rewrite (tag_eta (l_tag L)), L1, E. reflexivity.
  - left. split; [unfold finished; rewrite L1; lia|].
    intros e He _. rewrite L1 in He. eapply vle_trans; [apply Hm; exact He|exact Hc].
Qed.

Lemma loc_ok_tags : forall st a L L', l_tag L' = l_tag L -> l_otag L' = l_otag L -> loc_ok st a L -> loc_ok st a L'.
Proof. intros st a L L' H1 H2 H. unfold loc_ok in *. rewrite H1, H2. exact H. Qed.

Lemma CInv_res_read : forall st a r idx tmo,
  CInv None st -> arch_facts st a -> In r (a_dirty (g_arch st a)) ->
  match res_read st a r idx tmo with
  | RdOk st1 v clk k t => CInv None st1 /\ (k <> KBox -> (finished st t /\ P st t clk) \/ t = (a, S (fin st a)))
  | RdAbort st1 | RdCrash st1 => CInv None st1
  end.
Proof.
  intros st a r idx tmo C F Hd.
  pose proof C as [C1 C2 C3 C4 C5 C6 C7].
  destruct (C5 a) as (Lpc & Lloc).
  unfold res_read. destruct r.
  - (* .pc *)
    destruct (lres_read idx (a_sink (g_arch st a)) (a_pc (g_arch st a))) as [[r' v]|] eqn:E; [|exact C].
    lres_inv. split.
    + apply CInv_same; try assumption; try reflexivity; try (intros; assumption).
    + intros _. cbn [l_clk l_tag]. apply loc_src; [exact F|exact Lpc|apply vle_merge_r].
  - (* local *)
    destruct (lres_read idx (a_sink (g_arch st a)) (a_loc (g_arch st a) k)) as [[r' v]|] eqn:E; [|exact C].
    lres_inv. split.
    + apply CInv_same; try assumption; try reflexivity; try (intros; assumption).
      all: intros k0; cbn; unfold upd; destruct (Nat.eqb k0 k); [eapply loc_ok_tags; [| |apply Lloc]; reflexivity|apply Lloc].
    + intros _. cbn [l_clk l_tag]. apply loc_src; [exact F|apply Lloc|apply vle_merge_r].
  - (* shared *)
    destruct (lock_busy (g_shr st j) a || lock_tmo (g_shr st j) tmo) eqn:Eb; [exact C|].
    apply Bool.orb_false_iff in Eb. destruct Eb as (Eb & _).
    destruct (C3 j) as (S1 & S2).
    assert (Hh : (l_tag (s_res (g_shr st j)) = l_otag (s_res (g_shr st j)) \/ l_tag (s_res (g_shr st j)) = (a, S (fin st a)))).
    { unfold lock_busy in Eb. destruct (s_holder (g_shr st j)) as [h|]; [|left; exact S2].
      apply Bool.negb_false_iff in Eb. apply Nat.eqb_eq in Eb. subst h. apply S2. }
    destruct (lres_read idx (a_sink (g_arch st a)) (s_res (g_shr st j))) as [[r' v]|] eqn:E.
    + lres_inv. split.
      * apply CInv_set_shr; [exact C| |].
        -- cbn. eapply ok_tag_mono; [apply vle_merge_l|exact S1].
        -- cbn. split; [exact Hh|exact Hd].
      * intros _. cbn [l_clk l_tag]. destruct Hh as [Hh|Hh]; [|right; exact Hh].
        left. rewrite Hh. destruct S1 as [[S1 S1']|(M & _)]; [|discriminate]. split; [exact S1|eapply P_mono; [apply vle_merge_l|exact S1']].
    + apply CInv_set_shr; [exact C|exact S1|]. cbn. split; [exact Hh|exact Hd].
  - (* input channel *)
    destruct idx; [|exact C].
    destruct (a_buf (g_arch st a) (BInBuf c)) as [|v rest] eqn:Eb.
    + destruct tmo; [exact C|].
      destruct (g_chan st c) as [|v rest] eqn:Ec; [exact C|].
      assert (Cv : ok_tag None st (cv_tag v) (cv_clk v)) by (apply C1; left; exists c; rewrite Ec; left; reflexivity).
      split; [|intros _; destruct Cv as [Cv|(M & _)]; [left; exact Cv|discriminate]].
      apply CInv_set_chan.
      * apply CInv_set_arch; try assumption; try reflexivity.
        -- intros c0 v0 [H|H].
           ++ rewrite a_buf_set_abuf in H. cbn [bufid_eqb] in H. apply C1. right. left. eauto.
           ++ rewrite a_buf_set_abuf in H. cbn [bufid_eqb] in H. destruct (Nat.eqb c0 c).
              ** apply in_app_iff in H. destruct H as [H|[<-|[]]]; [apply C1; right; right; eauto|exact Cv].
              ** apply C1. right. right. eauto.
        -- intros c0 v0 H. rewrite a_buf_set_abuf in H. cbn [bufid_eqb] in H. apply C2. exact H.
        -- intros j Hj. destruct (C3 j) as (_ & S2). rewrite Hj in S2. apply S2.
        -- intros kt H. apply C4. exact H.
      * intros v0 Hv. eapply ok_tag_same; [| |apply C1; left; exists c; rewrite Ec; right; exact Hv].
        -- intros w. cbn. unfold upd. destruct (Nat.eqb w a) eqn:Ew; [apply Nat.eqb_eq in Ew; subst; reflexivity|reflexivity].
        -- intros b Hb. discriminate.
    + assert (Cv : ok_tag None st (cv_tag v) (cv_clk v)) by (apply C1; right; left; exists a, c; rewrite Eb; left; reflexivity).
      split; [|intros _; destruct Cv as [Cv|(M & _)]; [left; exact Cv|discriminate]].
      apply CInv_set_arch; try assumption; try reflexivity.
      * intros c0 v0 [H|H].
        -- rewrite !a_buf_set_abuf in H. cbn [bufid_eqb] in H. destruct (Nat.eqb c0 c) eqn:Ec.
           ++ apply Nat.eqb_eq in Ec. subst c0. apply C1. right. left. exists a, c. rewrite Eb. right. exact H.
           ++ apply C1. right. left. eauto.
        -- rewrite !a_buf_set_abuf in H. cbn [bufid_eqb] in H. destruct (Nat.eqb c0 c).
           ++ apply in_app_iff in H. destruct H as [H|[<-|[]]]; [apply C1; right; right; eauto|exact Cv].
           ++ apply C1. right. right. eauto.
      * intros c0 v0 H. rewrite !a_buf_set_abuf in H. cbn [bufid_eqb] in H. apply C2. exact H.
      * intros j Hj. destruct (C3 j) as (_ & S2). rewrite Hj in S2. apply S2.
      * intros kt H. apply C4. exact H.
  - exact C.
  - (* mailbox: nothing tracked *)
    destruct (negb (g_own st m =? a)); [exact C|].
    destruct idx; [|exact C].
    destruct (a_buf (g_arch st a) (BBack m)) as [|v rest] eqn:Eb.
    + destruct tmo; [exact C|].
      destruct (g_box st m) as [|[|v more] recs] eqn:Ec; [exact C|apply CInv_set_box; exact C|].
      split; [|intros H; exfalso; apply H; reflexivity].
      apply CInv_set_box. apply CInv_same; try assumption; try reflexivity; try (intros; assumption).
    + split; [|intros H; exfalso; apply H; reflexivity].
      apply CInv_same; try assumption; try reflexivity; try (intros; assumption).
Qed.

Lemma src_ok_mono : forall st r s s' kt, vle s s' -> src_ok st r s kt -> src_ok st r s' kt.
Proof.
  intros st r s s' kt H Hs Hk. destruct (Hs Hk) as [[F HP]|E]; [left; split; [exact F|eapply P_mono; eassumption]|right; exact E].
Qed.

Lemma CInv_mark_dirty : forall mid st a r, CInv mid st -> CInv mid (set_arch st a (mark_dirty r (g_arch st a))).
Proof.
  intros mid st a r C. destruct (mark_dirty_trc r (g_arch st a)) as (Mc & _ & _ & Ms & Mk & Mp & Ml & Mb).
  apply ctl_split in Mc. destruct Mc as (_ & _ & _ & _ & _ & _ & _ & _ & Mlog).
  pose proof C as [C1 C2 C3 C4 C5 C6 C7].
  apply CInv_same; try assumption.
  - intros n Hn. apply mark_dirty_in. right. exact Hn.
  - rewrite Mp. apply C5.
  - intros k. rewrite Ml. apply C5.
  - intros c. rewrite Mb. reflexivity.
  - intros c. rewrite Mb. reflexivity.
  - intros c. rewrite Mb. reflexivity.
Qed.

Lemma fin_read_fields : forall A r idx v clk k t,
  a_sink (fin_read A r idx v clk k t) = vmerge (a_sink A) clk /\
  a_srcs (fin_read A r idx v clk k t) = a_srcs A ++ [(k, t)] /\
  a_buf (fin_read A r idx v clk k t) = a_buf A /\ a_log (fin_read A r idx v clk k t) = a_log A /\
  a_att (fin_read A r idx v clk k t) = a_att A /\ a_pc (fin_read A r idx v clk k t) = a_pc A /\
  a_loc (fin_read A r idx v clk k t) = a_loc A /\ a_dirty (fin_read A r idx v clk k t) = a_dirty A.
Proof. intros. unfold fin_read, note_last, rec_read. destruct v; cbn; repeat split; reflexivity. Qed.

Lemma CInv_fin_read : forall st a r idx v clk k t,
  CInv None st ->
  (k <> KBox -> (finished st t /\ P st t clk) \/ t = (a, S (fin st a))) ->
  CInv None (set_arch st a (fin_read (g_arch st a) r idx v clk k t)).
Proof.
  intros st a r idx v clk k t C Hs.
  pose proof C as [C1 C2 C3 C4 C5 C6 C7].
  destruct (fin_read_fields (g_arch st a) r idx v clk k t) as (E1 & E2 & E3 & E4 & E5 & E6 & E7 & E8).
  apply CInv_set_arch; try assumption.
  - intros H. discriminate.
  - intros c v0 [H|H]; rewrite E3 in H; apply C1; [right; left|right; right]; eauto.
  - intros c v0 H. rewrite E3 in H. rewrite E8. apply C2. exact H.
  - intros j Hj. rewrite E8. destruct (C3 j) as (_ & S2). rewrite Hj in S2. apply S2.
  - intros kt H. rewrite E2 in H. rewrite E1. apply in_app_iff in H. destruct H as [H|[<-|[]]].
    + eapply src_ok_mono; [apply vle_merge_l|apply C4; exact H].
    + intros Hk. cbn in Hk. destruct (Hs Hk) as [[F HP]|E]; [left; split; [exact F|eapply P_mono; [apply vle_merge_r|exact HP]]|right; exact E].
  - rewrite E6. apply C5.
  - intros k0. rewrite E7. apply C5.
Qed.

Lemma arch_facts_same : forall st st' a,
  (forall w, a_log (g_arch st' w) = a_log (g_arch st w)) -> a_att (g_arch st' a) = a_att (g_arch st a) ->
  vle (a_sink (g_arch st a)) (a_sink (g_arch st' a)) -> arch_facts st a -> arch_facts st' a.
Proof.
  intros st st' a Hl Ha Hs (F1 & F2). split.
  - rewrite Ha, (fin_same st st' Hl). exact F1.
  - intros e He. rewrite Hl in He. eapply vle_trans; [apply F2; exact He|exact Hs].
Qed.

Lemma logs_frame : forall st st1 a,
  trc (g_arch st1 a) = trc (g_arch st a) -> (forall b, b <> a -> g_arch st1 b = g_arch st b) ->
  forall w, a_log (g_arch st1 w) = a_log (g_arch st w).
Proof.
  intros st st1 a Ht Ho w. destruct (Nat.eq_dec w a) as [->|Hne].
  - apply trc_split in Ht. destruct Ht as (Hc & _). apply ctl_split in Hc. tauto.
  - rewrite Ho by assumption. reflexivity.
Qed.

Lemma CInv_do_read : forall st a r idx tmo,
  CInv None st -> arch_facts st a -> CInv None (rr_state (do_read st a r idx tmo)).
Proof.
  intros st a r idx tmo C F.
  pose proof (do_read_inv st a r idx tmo) as H. cbn zeta in H.
  set (st0 := set_arch st a (mark_dirty r (g_arch st a))) in *.
  assert (C0 : CInv None st0) by (apply CInv_mark_dirty; exact C).
  destruct (mark_dirty_trc r (g_arch st a)) as (Mc & _ & _ & _ & Mk & _).
  apply ctl_split in Mc. destruct Mc as (_ & _ & _ & _ & _ & Matt & _ & _ & Mlog).
  assert (Hl0 : forall w, a_log (g_arch st0 w) = a_log (g_arch st w)).
  { intros w. unfold st0. cbn. unfold upd. destruct (Nat.eqb_spec w a); [subst; exact Mlog|reflexivity]. }
  assert (F0 : arch_facts st0 a).
  { eapply arch_facts_same; [exact Hl0| | |exact F]; unfold st0; rewrite g_arch_set_same; [exact Matt|rewrite Mk; apply vle_refl]. }
  assert (D0 : In r (a_dirty (g_arch st0 a))) by (unfold st0; rewrite g_arch_set_same; apply mark_dirty_in; left; reflexivity).
  pose proof (CInv_res_read st0 a r idx tmo C0 F0 D0) as R.
  pose proof (res_read_frame st0 a r idx tmo) as Fr. cbn zeta in Fr. destruct Fr as (Ft & _ & Fo & _).
  pose proof (logs_frame _ _ _ Ft Fo) as Hl1.
  destruct (do_read st a r idx tmo) as [st' v|st'|st']; cbn [rr_state].
  - destruct H as (st1 & clk & k & t & E & ->). rewrite E in *. cbn [rd_state] in *. destruct R as (C1 & Hs).
    apply CInv_fin_read; [exact C1|]. intros Hk. destruct (Hs Hk) as [[Fi HP]|Et].
    + left. split; [apply (finished_same st0 st1 Hl1); exact Fi|apply (P_same st0 st1 Hl1); exact HP].
    + right. rewrite (fin_same st0 st1 Hl1). exact Et.
  - rewrite H in R. exact R.
  - rewrite H in R. exact R.
Qed.

(* ---------------------------------------------------------------- writes *)

Lemma CInv_sink_grow : forall st a c,
  CInv None st -> CInv None (set_arch st a (set_sink (g_arch st a) (vmerge (a_sink (g_arch st a)) c))).
Proof.
  intros st a c C. pose proof C as [C1 C2 C3 C4 C5 C6 C7].
  apply CInv_set_arch; [exact C|reflexivity| | | | | | |].
  - intros H. discriminate.
  - intros c0 v [H|H]; cbn in H; apply C1; [right; left|right; right]; eauto.
  - intros c0 v H. cbn in H. cbn. apply C2. exact H.
  - intros j Hj. cbn. destruct (C3 j) as (_ & S2). rewrite Hj in S2. apply S2.
  - intros kt H. cbn in H. cbn. eapply src_ok_mono; [apply vle_merge_l|apply C4; exact H].
  - cbn. apply C5.
  - intros k. cbn. apply C5.
Qed.

Lemma CInv_res_write : forall st a r idx z w tmo,
  CInv None st -> In r (a_dirty (g_arch st a)) ->
  CInv None (wr_state (res_write st a r idx z w (a, S (fin st a)) tmo)).
Proof.
  intros st a r idx z w tmo C Hd.
  pose proof C as [C1 C2 C3 C4 C5 C6 C7].
  destruct (C5 a) as (Lpc & Lloc).
  unfold res_write. destruct r.
  - destruct (lres_write idx z w (a, S (fin st a)) (a_pc (g_arch st a))) as [[[r' w'] old]|] eqn:E; [|exact C].
    lres_inv. cbn [wr_state].
    apply CInv_set_arch; [exact C|reflexivity| | | | | | |].
    + intros H. discriminate.
    + intros c0 v [H|H]; cbn in H; apply C1; [right; left|right; right]; eauto.
    + intros c0 v H. cbn in H. cbn. apply C2. exact H.
    + intros j Hj. cbn. destruct (C3 j) as (_ & S2). rewrite Hj in S2. apply S2.
    + intros kt H. cbn in H. cbn. eapply src_ok_mono; [apply vle_merge_l|apply C4; exact H].
    + cbn. destruct Lpc as (L1 & L2 & L3 & L4). unfold loc_ok. cbn. repeat split; try assumption; lia.
    + intros k. cbn. apply Lloc.
  - destruct (lres_write idx z w (a, S (fin st a)) (a_loc (g_arch st a) k)) as [[[r' w'] old]|] eqn:E; [|exact C].
    lres_inv. cbn [wr_state].
    apply CInv_set_arch; [exact C|reflexivity| | | | | | |].
    + intros H. discriminate.
    + intros c0 v [H|H]; cbn in H; apply C1; [right; left|right; right]; eauto.
    + intros c0 v H. cbn in H. cbn. apply C2. exact H.
    + intros j Hj. cbn. destruct (C3 j) as (_ & S2). rewrite Hj in S2. apply S2.
    + intros kt H. cbn in H. cbn. eapply src_ok_mono; [apply vle_merge_l|apply C4; exact H].
    + cbn. exact Lpc.
    + intros k0. cbn. unfold upd. destruct (Nat.eqb k0 k); [|apply Lloc].
      destruct (Lloc k) as (L1 & L2 & L3 & L4). unfold loc_ok. cbn. repeat split; try assumption; lia.
  - destruct (lock_busy (g_shr st j) a || lock_tmo (g_shr st j) tmo) eqn:Eb; [exact C|].
    apply Bool.orb_false_iff in Eb. destruct Eb as (Eb & _).
    destruct (C3 j) as (S1 & S2).
    assert (Hh : (l_tag (s_res (g_shr st j)) = l_otag (s_res (g_shr st j)) \/ l_tag (s_res (g_shr st j)) = (a, S (fin st a)))).
    { unfold lock_busy in Eb. destruct (s_holder (g_shr st j)) as [h|]; [|left; exact S2].
      apply Bool.negb_false_iff in Eb. apply Nat.eqb_eq in Eb. subst h. apply S2. }
    destruct (lres_write idx z w (a, S (fin st a)) (s_res (g_shr st j))) as [[[r' w'] old]|] eqn:E.
    + lres_inv. cbn [wr_state].
      apply CInv_set_shr; [apply CInv_sink_grow; exact C| |].
      * cbn [s_res l_otag l_clk]. eapply ok_tag_same; [| |eapply ok_tag_mono; [apply vle_merge_l|exact S1]].
        -- intros w0. cbn. unfold upd. destruct (Nat.eqb w0 a) eqn:Ew; [apply Nat.eqb_eq in Ew; subst; reflexivity|reflexivity].
        -- intros b Hb. discriminate.
      * cbn [s_holder s_res l_tag l_otag]. split.
        -- right. f_equal. f_equal. unfold fin. cbn. rewrite upd_same. reflexivity.
        -- cbn. rewrite upd_same. cbn. exact Hd.
    + cbn [wr_state]. apply CInv_set_shr; [exact C|exact S1|]. cbn. split; [exact Hh|exact Hd].
  - exact C.
  - destruct idx; [|exact C]. cbn [wr_state].
    apply CInv_set_arch; [exact C|reflexivity|reflexivity| | | | |exact Lpc|exact Lloc].
    + intros c0 v [H|H]; rewrite a_buf_set_abuf in H; cbn [bufid_eqb] in H; apply C1; [right; left|right; right]; eauto.
    + intros c0 v H. rewrite a_buf_set_abuf in H. cbn [bufid_eqb] in H. destruct (Nat.eqb c0 c) eqn:Ec.
      * apply Nat.eqb_eq in Ec. subst c0. apply in_app_iff in H. destruct H as [H|[<-|[]]].
        -- apply C2. exact H.
        -- split; [reflexivity|exact Hd].
      * apply C2. exact H.
    + intros j Hj. destruct (C3 j) as (_ & S2). rewrite Hj in S2. apply S2.
    + intros kt H. apply C4. exact H.
  - destruct (g_own st m =? a); [exact C|].
    destruct idx; [|exact C]. destruct tmo; [exact C|]. cbn [wr_state].
    apply CInv_same; try assumption; try reflexivity; try (intros; assumption).
Qed.

Lemma rec_write_fields : forall A r idx z h,
  a_sink (rec_write A r idx z h) = a_sink A /\ a_srcs (rec_write A r idx z h) = a_srcs A /\
  a_buf (rec_write A r idx z h) = a_buf A /\ a_log (rec_write A r idx z h) = a_log A /\
  a_pc (rec_write A r idx z h) = a_pc A /\ a_loc (rec_write A r idx z h) = a_loc A /\
  a_dirty (rec_write A r idx z h) = a_dirty A.
Proof. intros. unfold rec_write. cbn. repeat split; reflexivity. Qed.

Lemma CInv_do_write : forall st a r idx z tmo,
  CInv None st -> arch_facts st a -> CInv None (wr2_state (do_write st a r idx z tmo)).
Proof.
  intros st a r idx z tmo C F.
  pose proof (do_write_inv st a r idx z tmo) as H. cbn zeta in H.
  set (st0 := set_arch st a (mark_dirty r (g_arch st a))) in *.
  assert (C0 : CInv None st0) by (apply CInv_mark_dirty; exact C).
  destruct (mark_dirty_trc r (g_arch st a)) as (Mc & _ & _ & _ & Mk & _).
  apply ctl_split in Mc. destruct Mc as (_ & _ & _ & _ & _ & Matt & _ & _ & Mlog).
  assert (Hl0 : forall w, a_log (g_arch st0 w) = a_log (g_arch st w)).
  { intros w. unfold st0. cbn. unfold upd. destruct (Nat.eqb_spec w a); [subst; exact Mlog|reflexivity]. }
  assert (Ea : a_att (g_arch st0 a) = S (fin st0 a)).
  { destruct F as (F1 & _). rewrite (fin_same st st0 Hl0). unfold st0 at 1. rewrite g_arch_set_same, Matt. exact F1. }
  assert (D0 : In r (a_dirty (g_arch st0 a))) by (unfold st0; rewrite g_arch_set_same; apply mark_dirty_in; left; reflexivity).
  pose proof (CInv_res_write st0 a r idx z (a_sink (g_arch st0 a)) tmo C0 D0) as R.
  rewrite <- Ea in R.
  destruct (do_write st a r idx z tmo) as [st'|st'|st']; cbn [wr2_state].
  - destruct H as (st1 & h & E & ->). rewrite E in R. cbn [wr_state] in R.
    destruct (rec_write_fields (g_arch st1 a) r idx z h) as (E1 & E2 & E3 & E4 & E5 & E6 & E7).
    pose proof R as [R1 R2 R3 R4 R5 R6 R7].
    apply CInv_same; try assumption.
    + intros n Hn. rewrite E7. exact Hn.
    + rewrite E5. apply R5.
    + intros k. rewrite E6. apply R5.
    + intros c. rewrite E3. reflexivity.
    + intros c. rewrite E3. reflexivity.
    + intros c. rewrite E3. reflexivity.
  - rewrite H in R. exact R.
  - rewrite H in R. exact R.
Qed.

(* ---------------------------------------------------------------- abort / commit of one dirty resource *)

Lemma CInv_abort_res : forall a st n, CInv None st -> CInv None (abort_res a st n).
Proof.
  intros a st n C. pose proof C as [C1 C2 C3 C4 C5 C6 C7].
  destruct (C5 a) as (Lpc & Lloc).
  assert (Hd : forall j, s_holder (g_shr st j) = Some a -> In (NShr j) (a_dirty (g_arch st a))).
  { intros j Hj. destruct (C3 j) as (_ & S2). rewrite Hj in S2. apply S2. }
  unfold abort_res. destruct n.
  - apply CInv_same; try assumption; try reflexivity; try (intros; assumption).
    cbn. destruct Lpc as (L1 & L2 & L3 & L4). unfold loc_ok, lres_abort. cbn. repeat split; assumption.
  - apply CInv_same; try assumption; try reflexivity; try (intros; assumption).
    intros k0. cbn. unfold upd. destruct (Nat.eqb k0 k); [|apply Lloc].
    destruct (Lloc k) as (L1 & L2 & L3 & L4). unfold loc_ok, lres_abort. cbn. repeat split; assumption.
  - destruct (s_holder (g_shr st j)) as [h|] eqn:Eh; [|exact C].
    destruct (h =? a); [|exact C].
    destruct (C3 j) as (S1 & _).
    apply CInv_set_shr; [exact C|exact S1|reflexivity].
  - apply CInv_set_arch; [exact C|reflexivity|reflexivity| | |exact Hd|apply C4|exact Lpc|exact Lloc].
    + intros c0 v [H|H]; rewrite !a_buf_set_abuf in H; cbn [bufid_eqb] in H.
      * destruct (Nat.eqb c0 c); [|apply C1; right; left; eauto].
        apply in_app_iff in H. destruct H as [H|H]; apply C1; [right; right|right; left]; eauto.
      * destruct (Nat.eqb c0 c); [destruct H|apply C1; right; right; eauto].
    + intros c0 v H. rewrite !a_buf_set_abuf in H. cbn [bufid_eqb] in H. apply C2. exact H.
  - apply CInv_set_arch; [exact C|reflexivity|reflexivity| | |exact Hd|apply C4|exact Lpc|exact Lloc].
    + intros c0 v [H|H]; rewrite a_buf_set_abuf in H; cbn [bufid_eqb] in H; apply C1; [right; left|right; right]; eauto.
    + intros c0 v H. rewrite a_buf_set_abuf in H. cbn [bufid_eqb] in H. destruct (Nat.eqb c0 c); [destruct H|apply C2; exact H].
  - destruct (g_own st m =? a); apply CInv_same; try assumption; try reflexivity; try (intros; assumption).
Qed.

Lemma CInv_commit_res : forall a st n, CInv (Some a) st -> CInv (Some a) (commit_res a st n).
Proof.
  intros a st n C. pose proof C as [C1 C2 C3 C4 C5 C6 C7].
  destruct (C5 a) as (Lpc & Lloc).
  assert (Hd : forall j, s_holder (g_shr st j) = Some a -> In (NShr j) (a_dirty (g_arch st a))).
  { intros j Hj. destruct (C3 j) as (_ & S2). rewrite Hj in S2. apply S2. }
  unfold commit_res. destruct n.
  - apply CInv_same; try assumption; try reflexivity; try (intros; assumption).
    cbn. destruct Lpc as (L1 & L2 & L3 & L4). unfold loc_ok, lres_commit. cbn. repeat split; assumption.
  - apply CInv_same; try assumption; try reflexivity; try (intros; assumption).
    intros k0. cbn. unfold upd. destruct (Nat.eqb k0 k); [|apply Lloc].
    destruct (Lloc k) as (L1 & L2 & L3 & L4). unfold loc_ok, lres_commit. cbn. repeat split; assumption.
  - destruct (s_holder (g_shr st j)) as [h|] eqn:Eh; [|exact C].
    destruct (Nat.eqb_spec h a) as [->|Hne]; [|exact C].
    destruct (C3 j) as (S1 & S2). rewrite Eh in S2. destruct S2 as (S2 & _).
    apply CInv_set_shr; [exact C| |reflexivity].
    cbn. destruct S2 as [S2|S2].
    + rewrite S2. eapply ok_tag_mono; [apply vle_merge_l|exact S1].
    + rewrite S2. right. cbn. repeat split. apply vle_merge_r.
  - apply CInv_set_arch; [exact C|reflexivity|reflexivity| | |exact Hd|apply C4|exact Lpc|exact Lloc].
    + intros c0 v [H|H]; rewrite a_buf_set_abuf in H; cbn [bufid_eqb] in H.
      * apply C1. right. left. eauto.
      * destruct (Nat.eqb c0 c); [destruct H|apply C1; right; right; eauto].
    + intros c0 v H. rewrite a_buf_set_abuf in H. cbn [bufid_eqb] in H. apply C2. exact H.
  - apply CInv_set_chan.
    + apply CInv_set_arch; [exact C|reflexivity|reflexivity| | |exact Hd|apply C4|exact Lpc|exact Lloc].
      * intros c0 v [H|H]; rewrite a_buf_set_abuf in H; cbn [bufid_eqb] in H; apply C1; [right; left|right; right]; eauto.
      * intros c0 v H. rewrite a_buf_set_abuf in H. cbn [bufid_eqb] in H. destruct (Nat.eqb c0 c); [destruct H|apply C2; exact H].
    + intros v Hv.
      assert (Hl : forall w, a_log (g_arch (set_arch st a (set_abuf (g_arch st a) (BOut c) [])) w) = a_log (g_arch st w)).
      { intros w. cbn. unfold upd. destruct (Nat.eqb w a) eqn:Ew; [apply Nat.eqb_eq in Ew; subst; reflexivity|reflexivity]. }
      eapply ok_tag_same; [exact Hl| |].
      * intros b Hb. cbn. unfold upd. destruct (Nat.eqb b a) eqn:Ew; [apply Nat.eqb_eq in Ew; subst|]; apply vle_refl.
      * apply in_app_iff in Hv. destruct Hv as [Hv|Hv]; [apply C1; left; eauto|].
        apply in_map_iff in Hv. destruct Hv as (v1 & <- & Hv1). destruct (C2 a c v1 Hv1) as (Et & _).
        cbn. rewrite Et. right. cbn. repeat split. apply vle_refl.
  - destruct (g_own st m =? a).
    + apply CInv_same; try assumption; try reflexivity; try (intros; assumption).
    + destruct (a_buf (g_arch st a) (BPend m)); [exact C|].
      apply CInv_set_box. apply CInv_same; try assumption; try reflexivity; try (intros; assumption).
Qed.

Lemma CInv_weaken : forall mid st, CInv None st -> CInv mid st.
Proof.
  intros mid st [C1 C2 C3 C4 C5 C6 C7]. constructor; try assumption.
  - intros v H. apply ok_tag_weaken. apply C1. exact H.
  - intros j. destruct (C3 j) as (S1 & S2). split; [apply ok_tag_weaken; exact S1|exact S2].
Qed.

Lemma CInv_fold : forall mid (f : nat -> state -> rname -> state) a,
  (forall st n, CInv mid st -> CInv mid (f a st n)) -> forall l st, CInv mid st -> CInv mid (fold_left (f a) l st).
Proof. intros mid f a Hf. induction l as [|n l IH]; intros st G; cbn; [exact G|]. apply IH. apply Hf. exact G. Qed.

(* ---------------------------------------------------------------- after the fold nothing of a's is left pending *)

Definition clean (st : state) (a : nat) (l : list rname) : Prop :=
  (forall j, s_holder (g_shr st j) = Some a -> In (NShr j) l) /\
  (forall c v, In v (a_buf (g_arch st a) (BOut c)) -> In (NOut c) l).

(* what commit_res / abort_res do to the lock holders and to a's output buffers *)
Lemma commit_res_pending : forall a st n,
  (forall j, s_holder (g_shr (commit_res a st n) j) = Some a -> s_holder (g_shr st j) = Some a /\ n <> NShr j) /\
  (forall c v, In v (a_buf (g_arch (commit_res a st n) a) (BOut c)) -> In v (a_buf (g_arch st a) (BOut c)) /\ n <> NOut c).
Proof.
  intros a st n. unfold commit_res. destruct n.
  - split; [intros j H|intros c1 v H]; cbn -[upd] in H; try rewrite upd_same in H; (split; [exact H|discriminate]).
  - split; [intros j H|intros c1 v H]; cbn -[upd] in H; try rewrite upd_same in H; (split; [exact H|discriminate]).
  - destruct (s_holder (g_shr st j)) as [h|] eqn:Eh.
    + destruct (Nat.eqb_spec h a) as [->|Hne].
      * split; [intros j0 H|intros c1 v H; split; [exact H|discriminate]].
        cbn -[upd] in H. unfold upd in H. destruct (Nat.eqb_spec j0 j) as [E0|Hj]; [discriminate|].
        split; [exact H|intros E; inversion E; congruence].
      * split; [intros j0 H|intros c1 v H; split; [exact H|discriminate]].
        split; [exact H|]. intros E. inversion E. subst j0. rewrite Eh in H. inversion H. congruence.
    + split; [intros j0 H|intros c1 v H; split; [exact H|discriminate]].
      split; [exact H|]. intros E. inversion E. subst j0. rewrite Eh in H. discriminate.
  - split; [intros j H|intros c1 v H]; cbn -[upd] in H; try rewrite upd_same in H; (split; [exact H|discriminate]).
  - split; [intros j H|intros c1 v H].
    + split; [exact H|discriminate].
    + cbn -[upd] in H. rewrite upd_same in H. rewrite a_buf_set_abuf in H. cbn [bufid_eqb] in H.
      destruct (Nat.eqb_spec c1 c) as [E0|Hc]; [subst c1; destruct H|]. split; [exact H|intros E; inversion E; congruence].
  - destruct (g_own st m =? a).
    + split; [intros j H|intros c1 v H]; cbn -[upd] in H; try rewrite upd_same in H; (split; [exact H|discriminate]).
    + destruct (a_buf (g_arch st a) (BPend m)).
      * split; [intros j H|intros c1 v H]; (split; [exact H|discriminate]).
      * split; [intros j H|intros c1 v H]; cbn -[upd] in H; try rewrite upd_same in H; (split; [exact H|discriminate]).
Qed.

Lemma abort_res_pending : forall a st n,
  (forall j, s_holder (g_shr (abort_res a st n) j) = Some a -> s_holder (g_shr st j) = Some a /\ n <> NShr j) /\
  (forall c v, In v (a_buf (g_arch (abort_res a st n) a) (BOut c)) -> In v (a_buf (g_arch st a) (BOut c)) /\ n <> NOut c).
Proof.
  intros a st n. unfold abort_res. destruct n.
  - split; [intros j H|intros c1 v H]; cbn -[upd] in H; try rewrite upd_same in H; (split; [exact H|discriminate]).
  - split; [intros j H|intros c1 v H]; cbn -[upd] in H; try rewrite upd_same in H; (split; [exact H|discriminate]).
  - destruct (s_holder (g_shr st j)) as [h|] eqn:Eh.
    + destruct (Nat.eqb_spec h a) as [->|Hne].
      * split; [intros j0 H|intros c1 v H; split; [exact H|discriminate]].
        cbn -[upd] in H. unfold upd in H. destruct (Nat.eqb_spec j0 j) as [E0|Hj]; [discriminate|].
        split; [exact H|intros E; inversion E; congruence].
      * split; [intros j0 H|intros c1 v H; split; [exact H|discriminate]].
        split; [exact H|]. intros E. inversion E. subst j0. rewrite Eh in H. inversion H. congruence.
    + split; [intros j0 H|intros c1 v H; split; [exact H|discriminate]].
      split; [exact H|]. intros E. inversion E. subst j0. rewrite Eh in H. discriminate.
  - split; [intros j H|intros c1 v H]; cbn -[upd] in H; try rewrite upd_same in H; [split; [exact H|discriminate]|].
    rewrite !a_buf_set_abuf in H. cbn [bufid_eqb] in H. split; [exact H|discriminate].
  - split; [intros j H|intros c1 v H].
    + split; [exact H|discriminate].
    + cbn -[upd] in H. rewrite upd_same in H. rewrite a_buf_set_abuf in H. cbn [bufid_eqb] in H.
      destruct (Nat.eqb_spec c1 c) as [E0|Hc]; [subst c1; destruct H|]. split; [exact H|intros E; inversion E; congruence].
  - destruct (g_own st m =? a).
    + split; [intros j H|intros c1 v H]; cbn -[upd] in H; try rewrite upd_same in H; [split; [exact H|discriminate]|].
      rewrite !a_buf_set_abuf in H. cbn [bufid_eqb] in H. split; [exact H|discriminate].
    + split; [intros j H|intros c1 v H]; cbn -[upd] in H; try rewrite upd_same in H; [split; [exact H|discriminate]|].
      rewrite a_buf_set_abuf in H. cbn [bufid_eqb] in H. split; [exact H|discriminate].
Qed.

Lemma clean_fold : forall (f : nat -> state -> rname -> state) a,
  (forall st n,
     (forall j, s_holder (g_shr (f a st n) j) = Some a -> s_holder (g_shr st j) = Some a /\ n <> NShr j) /\
     (forall c v, In v (a_buf (g_arch (f a st n) a) (BOut c)) -> In v (a_buf (g_arch st a) (BOut c)) /\ n <> NOut c)) ->
  forall l st, clean st a l -> clean (fold_left (f a) l st) a [].
Proof.
  intros f a Hf. induction l as [|n l IH]; intros st K; cbn; [exact K|].
  apply IH. destruct K as (K1 & K2). destruct (Hf st n) as (F1 & F2). split.
  - intros j H. destruct (F1 j H) as (H1 & H2). destruct (K1 j H1) as [E|E]; [congruence|exact E].
  - intros c v H. destruct (F2 c v H) as (H1 & H2). destruct (K2 c v H1) as [E|E]; [congruence|exact E].
Qed.

Lemma clean_of_CInv : forall mid st a, CInv mid st -> clean st a (a_dirty (g_arch st a)).
Proof.
  intros mid st a [C1 C2 C3 C4 C5 C6 C7]. split.
  - intros j Hj. destruct (C3 j) as (_ & S2). rewrite Hj in S2. apply S2.
  - intros c v H. apply (C2 a c v H).
Qed.

(* ---------------------------------------------------------------- CommitEvent *)

Lemma CInv_commit_event : forall mid st a ab,
  (mid = None \/ mid = Some a) ->
  CInv mid st -> clean st a [] -> arch_facts st a ->
  CInv None (commit_event st a ab).
Proof.
  intros mid st a ab Hmid [C1 C2 C3 C4 C5 C6 C7] (K1 & K2) (F1 & F2).
  set (A := g_arch st a) in *.
  set (e := mkEvent (a_elems A) (a_sink A) ab (a_att A) (a_srcs A)).
  set (st' := commit_event st a ab).
  assert (Ea : g_arch st' a = set_dirty (set_srcs (set_perf (set_hist (set_log (set_elems A []) (a_log A ++ [e]))
                 (a_hist A ++ [mkH (a_att A) ab (a_perf A) (a_sink A)])) []) []) []).
  { unfold st', commit_event. rewrite g_arch_set_same. reflexivity. }
  assert (Eo : forall b, b <> a -> g_arch st' b = g_arch st b) by (intros; unfold st', commit_event; apply g_arch_set_other; assumption).
  assert (Elog : a_log (g_arch st' a) = a_log A ++ [e]) by (rewrite Ea; reflexivity).
  assert (Efa : fin st' a = S (fin st a)) by (unfold fin; rewrite Elog, app_length; cbn; fold A; lia).
  assert (Efo : forall b, b <> a -> fin st' b = fin st b) by (intros b Hb; unfold fin; rewrite Eo by assumption; reflexivity).
  assert (Efm : forall b, fin st b <= fin st' b).
  { intros b. destruct (Nat.eq_dec b a) as [->|Hb]; [rewrite Efa; lia|rewrite Efo by assumption; lia]. }
  assert (Eno : e_no e = S (fin st a)) by (cbn; exact F1).
  (* finished tags stay covered *)
  assert (PF : forall t c, finished st t -> P st t c -> finished st' t /\ P st' t c).
  { intros t c Hf HP. split; [unfold finished in *; specialize (Efm (fst t)); lia|].
    intros e0 He0 Hn. destruct (Nat.eq_dec (fst t) a) as [Et|Et].
    - rewrite Et, Elog in He0. apply in_app_iff in He0. destruct He0 as [He0|[<-|[]]].
      + apply HP; [rewrite Et; exact He0|exact Hn].
      + unfold finished in Hf. rewrite Et in Hf. rewrite Eno in Hn. lia.
    - rewrite Eo in He0 by assumption. apply HP; assumption. }
  assert (OK : forall t c, ok_tag mid st t c -> ok_tag None st' t c).
  { intros t c [[Hf HP]|(M1 & M2 & M3)]; [left; apply PF; assumption|].
    assert (Et : fst t = a) by (destruct Hmid as [Hm|Hm]; rewrite Hm in M1; [discriminate|inversion M1; reflexivity]).
    left. split; [unfold finished; rewrite Et, Efa; rewrite Et in M2; lia|].
    intros e0 He0 Hn. rewrite Et, Elog in He0. apply in_app_iff in He0. destruct He0 as [He0|[<-|[]]].
    - apply C7 in He0. rewrite Et in M2. fold A in He0. lia.
    - cbn [e_clock e]. rewrite Et in M3. exact M3. }
  assert (Buf : forall b, a_buf (g_arch st' b) = a_buf (g_arch st b)).
  { intros b. destruct (Nat.eq_dec b a) as [->|Hb]; [rewrite Ea; reflexivity|rewrite Eo by assumption; reflexivity]. }
  constructor.
  - intros v Hv. apply OK. apply C1. destruct Hv as [H|[(b & c & H)|(b & c & H)]]; [left; exact H| |]; rewrite Buf in H; [right; left|right; right]; eauto.
  - intros b c v H. rewrite Buf in H. destruct (Nat.eq_dec b a) as [->|Hb].
    + exfalso. apply (K2 c v H).
    + rewrite Efo, Eo by assumption. apply C2. exact H.
  - intros j. destruct (C3 j) as (S1 & S2). split; [apply OK; exact S1|].
    change (g_shr st' j) with (g_shr st j). destruct (s_holder (g_shr st j)) as [h|] eqn:Eh; [|exact S2].
    assert (Hh : h <> a) by (intros ->; apply (K1 j Eh)).
    rewrite Efo, Eo by assumption. exact S2.
  - intros r kt H. destruct (Nat.eq_dec r a) as [->|Hr]; [rewrite Ea in H; destruct H|].
    rewrite Eo in * by assumption. intros Hk. destruct (C4 r kt H Hk) as [[Hf HP]|E0]; [left; apply PF; assumption|].
    right. rewrite Efo by assumption. exact E0.
  - intros b. assert (L : forall Lr, loc_ok st b Lr -> loc_ok st' b Lr).
    { intros Lr (L1 & L2 & L3 & L4). specialize (Efm b). unfold loc_ok. repeat split; try assumption; lia. }
    destruct (C5 b) as (L1 & L2). destruct (Nat.eq_dec b a) as [->|Hb].
    + rewrite Ea. cbn. split; [apply L; exact L1|intros k; apply L; apply L2].
    + rewrite Eo by assumption. split; [apply L; exact L1|intros k; apply L; apply L2].
  - intros r er kt He Hk Hkb.
    assert (Old : In er (a_log (g_arch st r)) -> finished st' (snd kt) /\ P st' (snd kt) (e_clock er)).
    { intros Ho. destruct (C6 r er kt Ho Hk Hkb) as (Hf & HP). apply PF; assumption. }
    destruct (Nat.eq_dec r a) as [->|Hr]; [|rewrite Eo in He by assumption; apply Old; exact He].
    rewrite Elog in He. apply in_app_iff in He. destruct He as [He|[<-|[]]]; [apply Old; exact He|].
    cbn [e_srcs e e_clock] in *. destruct (C4 a kt Hk Hkb) as [[Hf HP]|E0]; [apply PF; assumption|].
    rewrite E0. split; [unfold finished; cbn; rewrite Efa; lia|].
    intros e0 He0 Hn. cbn [fst snd] in *. rewrite Elog in He0. apply in_app_iff in He0. destruct He0 as [He0|[<-|[]]].
    + apply C7 in He0. fold A in He0. lia.
    + apply vle_refl.
  - intros w e0 He0. destruct (Nat.eq_dec w a) as [->|Hw].
    + rewrite Elog in He0. rewrite Efa. apply in_app_iff in He0. destruct He0 as [He0|[<-|[]]]; [apply C7 in He0; fold A in He0; lia|rewrite Eno; lia].
    + rewrite Eo in He0 by assumption. rewrite Efo by assumption. apply C7. exact He0.
Qed.

(* ---------------------------------------------------------------- the Run loop *)

Definition pre_facts (st : state) (a : nat) : Prop :=
  a_att (g_arch st a) = fin st a /\
  forall e, In e (a_log (g_arch st a)) -> vle (e_clock e) (a_sink (g_arch st a)).

Lemma pre_facts_commit_event : forall st a ab, arch_facts st a -> pre_facts (commit_event st a ab) a.
Proof.
  intros st a ab (F1 & F2). unfold pre_facts, fin, commit_event. rewrite g_arch_set_same. cbn.
  split; [rewrite app_length; cbn; unfold fin in F1; lia|].
  intros e He. apply in_app_iff in He. destruct He as [He|[<-|[]]]; [apply F2; exact He|apply vle_refl].
Qed.

Lemma arch_facts_frame : forall st st1 a,
  trc (g_arch st1 a) = trc (g_arch st a) -> a_sink (g_arch st1 a) = a_sink (g_arch st a) ->
  (forall b, b <> a -> g_arch st1 b = g_arch st b) -> arch_facts st a -> arch_facts st1 a.
Proof.
  intros st st1 a Ht Hs Ho F. eapply arch_facts_same; [apply (logs_frame _ _ _ Ht Ho)| | |exact F].
  - apply trc_split in Ht. destruct Ht as (Hc & _). apply ctl_split in Hc. tauto.
  - rewrite Hs. apply vle_refl.
Qed.

Lemma CInv_do_abort : forall st a, CInv None st -> arch_facts st a ->
  CInv None (do_abort st a) /\ pre_facts (do_abort st a) a.
Proof.
  intros st a C F. unfold do_abort.
  set (st1 := fold_left (abort_res a) (a_dirty (g_arch st a)) st).
  assert (C1 : CInv None st1) by (apply (CInv_fold None abort_res); [intros; apply CInv_abort_res; assumption|exact C]).
  assert (K : clean st1 a []) by (apply (clean_fold abort_res); [intros; apply abort_res_pending|eapply clean_of_CInv; exact C]).
  destruct (abort_fold_frame a (a_dirty (g_arch st a)) st) as (Ft & Fs & Fo & _).
  assert (F1 : arch_facts st1 a) by (eapply arch_facts_frame; eassumption).
  split; [eapply CInv_commit_event; [left; reflexivity|exact C1|exact K|exact F1]|apply pre_facts_commit_event; exact F1].
Qed.

Lemma CInv_do_commit : forall st a, CInv None st -> arch_facts st a ->
  CInv None (do_commit st a) /\ pre_facts (do_commit st a) a.
Proof.
  intros st a C F. unfold do_commit.
  set (st1 := fold_left (commit_res a) (a_dirty (g_arch st a)) st).
  assert (C1 : CInv (Some a) st1).
  { apply (CInv_fold (Some a) commit_res); [intros; apply CInv_commit_res; assumption|apply CInv_weaken; exact C]. }
  assert (K : clean st1 a []) by (apply (clean_fold commit_res); [intros; apply commit_res_pending|eapply clean_of_CInv; exact C]).
  destruct (commit_fold_frame a (a_dirty (g_arch st a)) st) as (Ft & Fs & Fo & _).
  assert (F1 : arch_facts st1 a) by (eapply arch_facts_frame; eassumption).
  split; [eapply CInv_commit_event; [right; reflexivity|exact C1|exact K|exact F1]|apply pre_facts_commit_event; exact F1].
Qed.

Lemma CInv_begin : forall st a, CInv None st -> pre_facts st a -> CInv None (begin_attempt st a).
Proof.
  intros st a C (Q1 & Q2). unfold begin_attempt.
  pose proof C as [C1 C2 C3 C4 C5 C6 C7].
  destruct (a_elems (g_arch st a)).
  2:{ apply CInv_same; try assumption; try reflexivity; try (intros; assumption); apply C5. }
  set (st1 := set_arch st a _).
  assert (G1 : CInv None st1).
  { unfold st1. apply CInv_set_arch; [exact C|reflexivity| | | | | | |].
    - intros H. discriminate.
    - intros c0 v [H|H]; cbn in H; apply C1; [right; left|right; right]; eauto.
    - intros c0 v H. cbn in H. cbn. apply C2. exact H.
    - intros j Hj. cbn. destruct (C3 j) as (_ & S2). rewrite Hj in S2. apply S2.
    - intros kt H. cbn in H. cbn. eapply src_ok_mono; [apply vle_vinc|apply C4; exact H].
    - cbn. apply C5.
    - intros k. cbn. apply C5. }
  assert (F1 : arch_facts st1 a).
  { unfold arch_facts, st1, fin. rewrite g_arch_set_same. cbn. split; [unfold fin in Q1; lia|].
    intros e He. eapply vle_trans; [apply Q2; exact He|apply vle_vinc]. }
  pose proof (CInv_do_read st1 a NPc [] false G1 F1) as R.
  destruct (do_read st1 a NPc [] false) as [st2 v|st2|st2]; cbn [rr_state] in R; pose proof R as [R1 R2 R3 R4 R5 R6 R7].
  - destruct (nth_error _ _); (apply CInv_same; try assumption; try reflexivity; try (intros; assumption); apply R5).
  - apply CInv_same; try assumption; try reflexivity; try (intros; assumption); apply R5.
  - apply CInv_same; try assumption; try reflexivity; try (intros; assumption); apply R5.
Qed.

Lemma CInv_goto : forall st a, CInv None st -> arch_facts st a -> CInv None (goto_next st a).
Proof.
  intros st a C F. unfold goto_next. set (z := (_ + 1)%Z).
  pose proof (CInv_do_write st a NPc [] z false C F) as R.
  destruct (do_write st a NPc [] z false); cbn [wr2_state] in R; pose proof R as [R1 R2 R3 R4 R5 R6 R7];
    (apply CInv_same; try assumption; try reflexivity; try (intros; assumption); apply R5).
Qed.

Lemma CInv_do_op : forall st a o tmo, CInv None st -> arch_facts st a -> CInv None (op_state (do_op st a o tmo)).
Proof.
  intros st a o tmo C F. unfold do_op. destruct o as [r idx|r idx e].
  - destruct (is_pc r); [exact C|].
    pose proof (CInv_do_read st a r idx tmo C F) as R. destruct (do_read st a r idx tmo); exact R.
  - destruct (is_pc r); [exact C|].
    pose proof (CInv_do_write st a r idx (eval_expr (g_arch st a) e) tmo C F) as R.
    destruct (do_write st a r idx (eval_expr (g_arch st a) e) tmo); exact R.
Qed.

(* arch_facts from the two invariants already proved *)
Lemma arch_facts_of : forall st a, GInv st -> LInv (g_arch st a) -> arch_facts st a.
Proof.
  intros st a G [_ _ _ I4]. split; [exact I4|].
  intros e He. destruct (gi_ar st G a) as (_ & _ & _ & _ & A5). apply A5 in He. apply He.
Qed.

Record Big (st : state) : Prop := mkBig {
  big_g : GInv st;
  big_l : forall a, a < g_n st -> LInv (g_arch st a);
  big_c : CInv None st }.

Lemma arch_facts_do_op : forall st a o tmo, arch_facts st a -> GInv (op_state (do_op st a o tmo)) ->
  arch_facts (op_state (do_op st a o tmo)) a.
Proof.
  intros st a o tmo (F1 & F2) G.
  pose proof (do_op_trace st a o tmo) as T. cbn zeta in T.
  assert (Hc : ctl (g_arch (op_state (do_op st a o tmo)) a) = ctl (g_arch st a)) by (destruct (do_op st a o tmo); apply T).
  apply ctl_split in Hc. destruct Hc as (_ & _ & _ & _ & _ & Hatt & _ & _ & Hlog).
  split; [unfold fin; rewrite Hatt, Hlog; exact F1|].
  intros e He. destruct (gi_ar _ G a) as (_ & _ & _ & _ & A5). apply A5 in He. apply He.
Qed.

Lemma arch_facts_goto : forall st a, arch_facts st a -> GInv (goto_next st a) -> arch_facts (goto_next st a) a.
Proof.
  intros st a (F1 & F2) G. unfold goto_next in *. set (z := (_ + 1)%Z) in *.
  pose proof (do_write_trace st a NPc [] z false) as T. cbn zeta in T.
  assert (Hc : a_att (g_arch (goto_next st a) a) = a_att (g_arch st a) /\ a_log (g_arch (goto_next st a) a) = a_log (g_arch st a)).
  { unfold goto_next. fold z. destruct (do_write st a NPc [] z false); destruct T as (Tc & _); rewrite g_arch_set_same;
      apply ctl_split in Tc; destruct Tc as (_ & _ & _ & _ & _ & Hatt & _ & _ & Hlog); cbn; split; assumption. }
  destruct Hc as (Hatt & Hlog). unfold goto_next in Hatt, Hlog. fold z in Hatt, Hlog.
  split; [unfold fin; rewrite Hatt, Hlog; exact F1|].
  intros e He. destruct (gi_ar _ G a) as (_ & _ & _ & _ & A5). apply A5 in He. apply He.
Qed.

Lemma CInv_step : forall st ev, Big st -> CInv None (step st ev).
Proof.
  intros st [a tmo] [G L C]. unfold step.
  destruct (a <? g_n st) eqn:En; [|exact C]. apply Nat.ltb_lt in En. cbn [negb].
  destruct (negb (a_status (g_arch st a) =? 0)); [exact C|].
  pose proof (arch_facts_of st a G (L a En)) as F.
  destruct (a_rest (g_arch st a)) as [|o rest].
  - destruct (a_forced (g_arch st a)); [|destruct tmo].
    + destruct (CInv_do_abort st a C F) as (C1 & Q1). apply CInv_begin; assumption.
    + pose proof (CInv_goto st a C F) as C0.
      pose proof (arch_facts_goto st a F (GInv_goto st a G)) as F0.
      destruct (CInv_do_abort _ a C0 F0) as (C1 & Q1). apply CInv_begin; assumption.
    + pose proof (CInv_goto st a C F) as C0.
      pose proof (arch_facts_goto st a F (GInv_goto st a G)) as F0.
      destruct (CInv_do_commit _ a C0 F0) as (C1 & Q1). apply CInv_begin; assumption.
  - pose proof (CInv_do_op st a o tmo C F) as C0.
    pose proof (arch_facts_do_op st a o tmo F (GInv_do_op st a o tmo G)) as F0.
    destruct (do_op st a o tmo) as [st' p|st'|st']; cbn [op_state] in *; pose proof C0 as [R1 R2 R3 R4 R5 R6 R7].
    + apply CInv_same; try assumption; try reflexivity; try (intros; assumption); apply R5.
    + destruct (CInv_do_abort st' a C0 F0) as (C1 & Q1). apply CInv_begin; assumption.
    + apply CInv_same; try assumption; try reflexivity; try (intros; assumption); apply R5.
Qed.

Lemma Big_step : forall st ev, Big st -> Big (step st ev).
Proof.
  intros st ev B. pose proof B as [G L C]. constructor.
  - apply GInv_step. exact G.
  - intros b Hb. destruct ev as [a tmo]. destruct (step_others st a tmo) as (_ & Hn & _). rewrite Hn in Hb.
    apply LInv_step_any. apply L. exact Hb.
  - apply CInv_step. exact B.
Qed.

(* ---------------------------------------------------------------- from the initial state *)

Lemma pre_facts_other : forall st x y, x <> y -> pre_facts st x -> pre_facts (begin_attempt st y) x.
Proof.
  intros st x y Hne Hp. destruct (begin_attempt_others st y) as (O & _).
  unfold pre_facts, fin in *. rewrite O by assumption. exact Hp.
Qed.

Lemma CInv_fold_begin : forall l st,
  NoDup l -> CInv None st -> (forall x, In x l -> pre_facts st x) -> CInv None (fold_left begin_attempt l st).
Proof.
  induction l as [|y l IH]; intros st Hnd C Hp; cbn; [exact C|].
  inversion Hnd as [|? ? Hy Hnd']; subst.
  apply IH; [exact Hnd'|apply CInv_begin; [exact C|apply Hp; left; reflexivity]|].
  intros x Hx. apply pre_facts_other; [intros ->; contradiction|apply Hp; right; exact Hx].
Qed.

Lemma CInv_init0 : forall c,
  CInv None (mkState (fun a => arch_init a (nth a (cf_archs c) no_arch))
                (fun j => mkShr (lres_init (nth j (cf_shared c) (VInt 0%Z)) (List.length (cf_archs c))) None)
                (fun _ => []) (fun _ => []) (fun m => nth m (cf_owner c) 0) (List.length (cf_archs c))).
Proof.
  intros c. constructor.
  - intros v [(c0 & [])|[(b & c0 & [])|(b & c0 & [])]].
  - intros a c0 v [].
  - intros j. split; [|reflexivity]. left. split; [unfold finished; cbn; lia|intros e []].
  - intros r kt [].
  - intros a. split; [|intros k]; unfold loc_ok; cbn; repeat split; lia.
  - intros r er kt [].
  - intros w e [].
Qed.

Lemma Big_init : forall c, Big (init c).
Proof.
  intros c. constructor.
  - apply (GInv_run c []).
  - intros a Ha. apply (LInv_run c [] a). unfold init in Ha. destruct (fold_begin_n (seq 0 (List.length (cf_archs c)))
      (mkState (fun a => arch_init a (nth a (cf_archs c) no_arch))
                (fun j => mkShr (lres_init (nth j (cf_shared c) (VInt 0%Z)) (List.length (cf_archs c))) None)
                (fun _ => []) (fun _ => []) (fun m => nth m (cf_owner c) 0) (List.length (cf_archs c)))) as (Hn & _).
    rewrite Hn in Ha. exact Ha.
  - unfold init. apply CInv_fold_begin; [apply seq_NoDup|apply CInv_init0|].
    intros x _. unfold pre_facts, fin. cbn. split; [reflexivity|intros e []].
Qed.

Lemma Big_run : forall c sched, Big (run c sched).
Proof.
  intros c sched. unfold run, run_from. generalize (Big_init c). generalize (init c).
  induction sched as [|ev sched IH]; intros st B; cbn; [exact B|]. apply IH. apply Big_step. exact B.
Qed.

(* the theorem: for local variables, shared variables and channels the reader's event clock dominates the
   event clock of the attempt that wrote the value *)
Lemma reader_dominates_writer_lemma : forall c sched r er k w i ew,
  In er (a_log (g_arch (run c sched) r)) -> In (k, (w, i)) (e_srcs er) -> k <> KBox ->
  In ew (a_log (g_arch (run c sched) w)) -> e_no ew = i ->
  vle (e_clock ew) (e_clock er).
Proof.
  intros c sched r er k w i ew He Hs Hk Hw Hn.
  destruct (Big_run c sched) as [_ _ C].
  destruct (ci_log _ _ C r er (k, (w, i)) He Hs Hk) as (_ & HP).
  apply HP; assumption.
Qed.
