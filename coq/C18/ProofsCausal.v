(* C18 — vector clocks: bounded components, own component = number of attempts, and the clock a reader
   ends up with covers the writer's own component (for every resource kind, mailboxes included) *)
From PGV Require Import C18.Model C18.ProofsClock C18.ProofsFrame C18.ProofsLog.
From Coq Require Import Lia.

(* every causally wrapped value stored anywhere / every LocalArchetypeResource *)
Definition cv_in (st : state) (v : cval) : Prop :=
  (exists c, In v (g_chan st c)) \/ (exists m r, In r (g_box st m) /\ In v r) \/ (exists a b, In v (a_buf (g_arch st a) b)).

Definition lr_in (st : state) (r : lres) : Prop :=
  (exists a, r = a_pc (g_arch st a)) \/ (exists a k, r = a_loc (g_arch st a) k) \/ (exists j, r = s_res (g_shr st j)).

(* ---------------------------------------------------------------- inversion under the setters *)

Lemma bufid_eqb_eq : forall x y, bufid_eqb x y = true <-> x = y.
Proof.
  intros x y; destruct x, y; cbn; split; intros H; try discriminate; try reflexivity;
    try (apply Nat.eqb_eq in H; subst; reflexivity); try (inversion H; subst; apply Nat.eqb_refl).
Qed.

Lemma a_buf_set_abuf : forall A b x b', a_buf (set_abuf A b x) b' = if bufid_eqb b' b then x else a_buf A b'.
Proof. reflexivity. Qed.

Lemma in_set_abuf : forall A b x b' v, In v (a_buf (set_abuf A b x) b') -> In v x \/ In v (a_buf A b').
Proof. intros A b x b' v. rewrite a_buf_set_abuf. destruct (bufid_eqb b' b); auto. Qed.

Lemma cv_in_set_arch : forall st a A' v,
  cv_in (set_arch st a A') v -> (exists b, In v (a_buf A' b)) \/ cv_in st v.
Proof.
  intros st a A' v [H|[H|(a0 & b & H)]].
  - right. left. exact H.
  - right. right. left. exact H.
  - cbn in H. unfold upd in H. destruct (Nat.eqb a0 a); [left; eauto|right; right; right; eauto].
Qed.

Lemma cv_in_set_chan : forall st c q v, cv_in (set_chan st c q) v -> In v q \/ cv_in st v.
Proof.
  intros st c q v [(c0 & H)|[H|H]].
  - cbn in H. unfold upd in H. destruct (Nat.eqb c0 c); [left; assumption|right; left; eauto].
  - right. right. left. exact H.
  - right. right. right. exact H.
Qed.

Lemma cv_in_set_box : forall st m q v, cv_in (set_box st m q) v -> (exists r, In r q /\ In v r) \/ cv_in st v.
Proof.
  intros st m q v [H|[(m0 & r & H1 & H2)|H]].
  - right. left. exact H.
  - cbn in H1. unfold upd in H1. destruct (Nat.eqb m0 m); [left; eauto|right; right; left; eauto].
  - right. right. right. exact H.
Qed.

Lemma cv_in_set_shr : forall st j s v, cv_in (set_shr st j s) v -> cv_in st v.
Proof. intros st j s v H. exact H. Qed.

Lemma lr_in_set_arch : forall st a A' r,
  lr_in (set_arch st a A') r -> r = a_pc A' \/ (exists k, r = a_loc A' k) \/ lr_in st r.
Proof.
  intros st a A' r [(a0 & H)|[(a0 & k & H)|H]].
  - cbn in H. unfold upd in H. destruct (Nat.eqb a0 a); [left; assumption|right; right; left; eauto].
  - cbn in H. unfold upd in H. destruct (Nat.eqb a0 a); [right; left; eauto|right; right; right; left; eauto].
  - right. right. right. right. exact H.
Qed.

Lemma lr_in_set_shr : forall st j s r, lr_in (set_shr st j s) r -> r = s_res s \/ lr_in st r.
Proof.
  intros st j s r [H|[H|(j0 & H)]].
  - right. left. exact H.
  - right. right. left. exact H.
  - cbn in H. unfold upd in H. destruct (Nat.eqb j0 j); [left; assumption|right; right; right; eauto].
Qed.

Lemma lr_in_set_chan : forall st c q r, lr_in (set_chan st c q) r -> lr_in st r.
Proof. intros st c q r H. exact H. Qed.

Lemma lr_in_set_box : forall st m q r, lr_in (set_box st m q) r -> lr_in st r.
Proof. intros st m q r H. exact H. Qed.

Lemma cv_in_buf : forall st a b v, In v (a_buf (g_arch st a) b) -> cv_in st v.
Proof. intros. right. right. eauto. Qed.
Lemma cv_in_chan : forall st c v, In v (g_chan st c) -> cv_in st v.
Proof. intros. left. eauto. Qed.
Lemma cv_in_box : forall st m r v, In r (g_box st m) -> In v r -> cv_in st v.
Proof. intros. right. left. eauto. Qed.
Lemma lr_in_pc : forall st a, lr_in st (a_pc (g_arch st a)).
Proof. intros. left. eauto. Qed.
Lemma lr_in_loc : forall st a k, lr_in st (a_loc (g_arch st a) k).
Proof. intros. right. left. eauto. Qed.
Lemma lr_in_shr : forall st j, lr_in st (s_res (g_shr st j)).
Proof. intros. right. right. eauto. Qed.

(* ---------------------------------------------------------------- the invariant *)

Definition attf (st : state) : nat -> nat := fun b => a_att (g_arch st b).
Definition bounded (f : nat -> nat) (c : vclock) : Prop := forall b, vget b c <= f b.
(* the clock knows the tagged attempt in the writer's own component *)
Definition oc (t : tag) (c : vclock) : Prop := snd t <= vget (fst t) c.

Definition cv_ok (f : nat -> nat) (v : cval) : Prop := bounded f (cv_clk v) /\ oc (cv_tag v) (cv_clk v).
Definition lr_ok (f : nat -> nat) (r : lres) : Prop :=
  bounded f (l_clk r) /\ oc (l_tag r) (l_clk r) /\ oc (l_otag r) (l_clk r).
Definition ev_ok (a : nat) (sink : vclock) (e : event) : Prop :=
  vget a (e_clock e) = e_no e /\ vle (e_clock e) sink /\ forall k t, In (k, t) (e_srcs e) -> oc t (e_clock e).
Definition ar_ok (f : nat -> nat) (a : nat) (A : arch) : Prop :=
  bounded f (a_sink A) /\ vget a (a_sink A) = f a /\
  (forall k t, In (k, t) (a_srcs A) -> oc t (a_sink A)) /\
  (forall c v, In v (a_buf A (BOut c)) -> vle (cv_clk v) (a_sink A)) /\
  (forall e, In e (a_log A) -> ev_ok a (a_sink A) e).

Record GInv (st : state) : Prop := mkGInv {
  gi_cv : forall v, cv_in st v -> cv_ok (attf st) v;
  gi_lr : forall r, lr_in st r -> lr_ok (attf st) r;
  gi_ar : forall a, ar_ok (attf st) a (g_arch st a) }.

Lemma bounded_merge : forall f a b, bounded f a -> bounded f b -> bounded f (vmerge a b).
Proof. intros f a b H1 H2 k. rewrite vget_vmerge. specialize (H1 k). specialize (H2 k). lia. Qed.

Lemma bounded_mono : forall (f g : nat -> nat) c, (forall b, f b <= g b) -> bounded f c -> bounded g c.
Proof. intros f g c H1 H2 b. specialize (H1 b). specialize (H2 b). lia. Qed.

Lemma bounded_le : forall f a b, vle a b -> bounded f b -> bounded f a.
Proof. intros f a b H1 H2 k. specialize (H1 k). specialize (H2 k). lia. Qed.

Lemma oc_mono : forall t a b, vle a b -> oc t a -> oc t b.
Proof. unfold oc. intros t a b H1 H2. specialize (H1 (fst t)). lia. Qed.

Lemma oc_merge_l : forall t a b, oc t a -> oc t (vmerge a b).
Proof. intros. eapply oc_mono; [apply vle_merge_l|assumption]. Qed.

Lemma oc_merge_r : forall t a b, oc t b -> oc t (vmerge a b).
Proof. intros. eapply oc_mono; [apply vle_merge_r|assumption]. Qed.

Lemma ev_ok_mono : forall a s s' e, vle s s' -> ev_ok a s e -> ev_ok a s' e.
Proof. intros a s s' e H (E1 & E2 & E3). repeat split; try assumption. eapply vle_trans; eassumption. Qed.

(* the sink grows by a bounded clock: everything about the archetype survives *)
Lemma ar_ok_grow : forall f a A c,
  bounded f c -> ar_ok f a A ->
  bounded f (vmerge (a_sink A) c) /\ vget a (vmerge (a_sink A) c) = f a /\
  (forall k t, In (k, t) (a_srcs A) -> oc t (vmerge (a_sink A) c)) /\
  (forall c0 v, In v (a_buf A (BOut c0)) -> vle (cv_clk v) (vmerge (a_sink A) c)) /\
  (forall e, In e (a_log A) -> ev_ok a (vmerge (a_sink A) c) e).
Proof.
  intros f a A c Hc (A1 & A2 & A3 & A4 & A5). split; [|split; [|split; [|split]]].
  - apply bounded_merge; assumption.
  - rewrite vget_vmerge, A2. specialize (Hc a). lia.
  - intros k t H. apply oc_merge_l. eapply A3. eassumption.
  - intros c0 v H. apply vle_merge_mono_l. eapply A4. eassumption.
  - intros e0 H. eapply ev_ok_mono; [apply vle_merge_l|apply A5; assumption].
Qed.

(* replacing the state of archetype a by one that agrees on everything the invariant looks at *)
Lemma GInv_same : forall st a A',
  a_sink A' = a_sink (g_arch st a) -> a_srcs A' = a_srcs (g_arch st a) -> a_buf A' = a_buf (g_arch st a) ->
  a_log A' = a_log (g_arch st a) -> a_att A' = a_att (g_arch st a) -> a_pc A' = a_pc (g_arch st a) ->
  a_loc A' = a_loc (g_arch st a) ->
  GInv st -> GInv (set_arch st a A').
Proof.
  intros st a A' H1 H2 H3 H4 H5 H6 H7 [G1 G2 G3].
  assert (Ef : forall b, attf (set_arch st a A') b = attf st b).
  { intros b. unfold attf. cbn. unfold upd. destruct (Nat.eqb_spec b a); [subst; assumption|reflexivity]. }
  assert (Eb : forall c, bounded (attf (set_arch st a A')) c <-> bounded (attf st) c).
  { intros c. unfold bounded. split; intros H b; specialize (H b); rewrite Ef in *; assumption. }
  constructor.
  - intros v Hv. apply cv_in_set_arch in Hv. destruct Hv as [(b & Hv)|Hv].
    + rewrite H3 in Hv. apply cv_in_buf in Hv. destruct (G1 v Hv). split; [apply Eb|]; assumption.
    + destruct (G1 v Hv). split; [apply Eb|]; assumption.
  - intros r Hr. apply lr_in_set_arch in Hr. destruct Hr as [->|[(k & ->)|Hr]].
    + rewrite H6. destruct (G2 _ (lr_in_pc st a)) as (L1 & L2 & L3). repeat split; [apply Eb| |]; assumption.
    + rewrite H7. destruct (G2 _ (lr_in_loc st a k)) as (L1 & L2 & L3). repeat split; [apply Eb| |]; assumption.
    + destruct (G2 r Hr) as (L1 & L2 & L3). repeat split; [apply Eb| |]; assumption.
  - intros b. cbn. unfold upd. destruct (Nat.eqb_spec b a) as [->|Hne].
    + destruct (G3 a) as (A1 & A2 & A3 & A4 & A5). unfold ar_ok. rewrite H1, H2, H3, H4, Ef. split; [apply Eb; assumption|]. split; [assumption|]. split; [assumption|]. split; assumption.
    + destruct (G3 b) as (A1 & A2 & A3 & A4 & A5). unfold ar_ok. rewrite Ef. split; [apply Eb; assumption|]. split; [assumption|]. split; [assumption|]. split; assumption.
Qed.

Lemma attf_set_arch : forall st a A', a_att A' = a_att (g_arch st a) -> forall b, attf (set_arch st a A') b = attf st b.
Proof. intros st a A' H b. unfold attf. cbn. unfold upd. destruct (Nat.eqb_spec b a); [subst; assumption|reflexivity]. Qed.

Lemma bounded_ext : forall f g c, (forall b, f b = g b) -> bounded f c -> bounded g c.
Proof. intros f g c H1 H2 b. rewrite <- H1. apply H2. Qed.

Lemma cv_ok_ext : forall f g v, (forall b, f b = g b) -> cv_ok f v -> cv_ok g v.
Proof. intros f g v H (C1 & C2). split; [eapply bounded_ext; eassumption|assumption]. Qed.

Lemma lr_ok_ext : forall f g r, (forall b, f b = g b) -> lr_ok f r -> lr_ok g r.
Proof. intros f g r H (C1 & C2 & C3). split; [eapply bounded_ext; eassumption|split; assumption]. Qed.

Lemma ar_ok_ext : forall f g a A, (forall b, f b = g b) -> ar_ok f a A -> ar_ok g a A.
Proof.
  intros f g a A H (A1 & A2 & A3 & A4 & A5).
  split; [eapply bounded_ext; eassumption|]. split; [rewrite <- H; assumption|]. split; [assumption|]. split; assumption.
Qed.

(* rebuilding the invariant after archetype a's state was replaced *)
Lemma GInv_set_arch : forall st a A',
  GInv st ->
  a_att A' = a_att (g_arch st a) ->
  (forall b v, In v (a_buf A' b) -> cv_ok (attf st) v) ->
  lr_ok (attf st) (a_pc A') -> (forall k, lr_ok (attf st) (a_loc A' k)) ->
  ar_ok (attf st) a A' ->
  GInv (set_arch st a A').
Proof.
  intros st a A' [G1 G2 G3] Hatt Hb Hpc Hloc Har.
  pose proof (attf_set_arch st a A' Hatt) as Ef.
  assert (Ef' : forall b, attf st b = attf (set_arch st a A') b) by (intros; symmetry; apply Ef).
  constructor.
  - intros v Hv. apply cv_in_set_arch in Hv. destruct Hv as [(b & Hv)|Hv]; (eapply cv_ok_ext; [exact Ef'|]); eauto.
  - intros r Hr. apply lr_in_set_arch in Hr. destruct Hr as [->|[(k & ->)|Hr]]; (eapply lr_ok_ext; [exact Ef'|]); eauto.
  - intros b. cbn. unfold upd. destruct (Nat.eqb_spec b a) as [->|Hne]; (eapply ar_ok_ext; [exact Ef'|]); eauto.
Qed.

Lemma GInv_set_chan : forall st c q,
  GInv st -> (forall v, In v q -> cv_ok (attf st) v) -> GInv (set_chan st c q).
Proof.
  intros st c q [G1 G2 G3] Hq. constructor.
  - intros v Hv. apply cv_in_set_chan in Hv. destruct Hv as [Hv|Hv]; [apply Hq|apply G1]; assumption.
  - intros r Hr. apply G2. exact Hr.
  - intros b. apply G3.
Qed.

Lemma GInv_set_box : forall st m q,
  GInv st -> (forall r v, In r q -> In v r -> cv_ok (attf st) v) -> GInv (set_box st m q).
Proof.
  intros st m q [G1 G2 G3] Hq. constructor.
  - intros v Hv. apply cv_in_set_box in Hv. destruct Hv as [(r & Hr & Hv)|Hv]; [eapply Hq; eassumption|apply G1; assumption].
  - intros r Hr. apply G2. exact Hr.
  - intros b. apply G3.
Qed.

Lemma GInv_set_shr : forall st j s,
  GInv st -> lr_ok (attf st) (s_res s) -> GInv (set_shr st j s).
Proof.
  intros st j s [G1 G2 G3] Hs. constructor.
  - intros v Hv. apply G1. exact Hv.
  - intros r Hr. apply lr_in_set_shr in Hr. destruct Hr as [->|Hr]; [exact Hs|apply G2; exact Hr].
  - intros b. apply G3.
Qed.

Lemma cv_ok_set_arch : forall st a A' v, a_att A' = a_att (g_arch st a) -> cv_ok (attf st) v -> cv_ok (attf (set_arch st a A')) v.
Proof. intros st a A' v H C. eapply cv_ok_ext; [|exact C]. intros b. symmetry. apply attf_set_arch. exact H. Qed.

Lemma lr_ok_set_arch : forall st a A' r, a_att A' = a_att (g_arch st a) -> lr_ok (attf st) r -> lr_ok (attf (set_arch st a A')) r.
Proof. intros st a A' r H C. eapply lr_ok_ext; [|exact C]. intros b. symmetry. apply attf_set_arch. exact H. Qed.

(* facts the invariant gives about archetype a's own things *)
Lemma GInv_buf : forall st a b v, GInv st -> In v (a_buf (g_arch st a) b) -> cv_ok (attf st) v.
Proof. intros st a b v G H. apply (gi_cv st G). eapply cv_in_buf. eassumption. Qed.
Lemma GInv_pc : forall st a, GInv st -> lr_ok (attf st) (a_pc (g_arch st a)).
Proof. intros st a G. apply (gi_lr st G). apply lr_in_pc. Qed.
Lemma GInv_loc : forall st a k, GInv st -> lr_ok (attf st) (a_loc (g_arch st a) k).
Proof. intros st a k G. apply (gi_lr st G). apply lr_in_loc. Qed.
Lemma GInv_shr : forall st j, GInv st -> lr_ok (attf st) (s_res (g_shr st j)).
Proof. intros st j G. apply (gi_lr st G). apply lr_in_shr. Qed.

(* ---------------------------------------------------------------- res_read *)

(* ar_ok only looks at sink, srcs, the Out buffers, the log *)
Lemma ar_ok_fields : forall f a A A',
  a_sink A' = a_sink A -> a_srcs A' = a_srcs A -> (forall c, a_buf A' (BOut c) = a_buf A (BOut c)) -> a_log A' = a_log A ->
  ar_ok f a A -> ar_ok f a A'.
Proof.
  intros f a A A' H1 H2 H3 H4 (A1 & A2 & A3 & A4 & A5). unfold ar_ok. rewrite H1, H2, H4.
  split; [assumption|]. split; [assumption|]. split; [assumption|]. split; [|assumption].
  intros c v Hv. rewrite H3 in Hv. eapply A4. eassumption.
Qed.

Lemma lres_read_ok : forall f sink r, bounded f sink -> lr_ok f r ->
  lr_ok f (mkL (l_val r) (l_old r) (vmerge (l_clk r) sink) (l_tag r) (l_otag r)).
Proof.
  intros f sink r Hs (L1 & L2 & L3). split; [apply bounded_merge; assumption|]. cbn. split; apply oc_merge_l; assumption.
Qed.

Lemma GInv_res_read : forall st a r idx tmo,
  GInv st ->
  match res_read st a r idx tmo with
  | RdOk st1 v clk k t => GInv st1 /\ bounded (attf st) clk /\ oc t clk
  | RdAbort st1 | RdCrash st1 => GInv st1
  end.
Proof.
  intros st a r idx tmo G.
  pose proof (gi_ar st G a) as Ha. pose proof Ha as (A1 & A2 & A3 & A4 & A5).
  assert (Hbuf : forall b v0, In v0 (a_buf (g_arch st a) b) -> cv_ok (attf st) v0) by (intros; eapply GInv_buf; eassumption).
  pose proof (GInv_pc st a G) as Hpc. pose proof (fun k => GInv_loc st a k G) as Hloc.
  unfold res_read. destruct r.
  - (* .pc *)
    destruct (lres_read idx (a_sink (g_arch st a)) (a_pc (g_arch st a))) as [[r' v]|] eqn:E; [|exact G].
    lres_inv. pose proof (lres_read_ok _ _ _ A1 Hpc) as L.
    split; [|split; [apply L|apply L]].
    apply GInv_set_arch; [exact G|reflexivity|exact Hbuf|exact L|exact Hloc|].
    eapply ar_ok_fields; [| | | |exact Ha]; reflexivity.
  - (* local *)
    destruct (lres_read idx (a_sink (g_arch st a)) (a_loc (g_arch st a) k)) as [[r' v]|] eqn:E; [|exact G].
    lres_inv. pose proof (lres_read_ok _ _ _ A1 (Hloc k)) as L.
    split; [|split; [apply L|apply L]].
    apply GInv_set_arch; [exact G|reflexivity|exact Hbuf|exact Hpc| |].
    + intros k0. cbn. unfold upd. destruct (Nat.eqb k0 k); [exact L|apply Hloc].
    + eapply ar_ok_fields; [| | | |exact Ha]; reflexivity.
  - (* shared *)
    destruct (lock_busy (g_shr st j) a || lock_tmo (g_shr st j) tmo); [exact G|].
    destruct (lres_read idx (a_sink (g_arch st a)) (s_res (g_shr st j))) as [[r' v]|] eqn:E.
    + lres_inv. pose proof (lres_read_ok _ _ _ A1 (GInv_shr st j G)) as L.
      split; [|split; [apply L|apply L]]. apply GInv_set_shr; assumption.
    + apply GInv_set_shr; [assumption|]. apply GInv_shr. assumption.
  - (* input channel *)
    destruct idx; [|exact G].
    destruct (a_buf (g_arch st a) (BInBuf c)) as [|v rest] eqn:Eb.
    + destruct tmo; [exact G|].
      destruct (g_chan st c) as [|v rest] eqn:Ec; [exact G|].
      assert (Cv : cv_ok (attf st) v) by (apply (gi_cv st G); eapply cv_in_chan; rewrite Ec; left; reflexivity).
      split; [|exact Cv].
      apply GInv_set_chan.
      * apply GInv_set_arch; [exact G|reflexivity| |exact Hpc|exact Hloc|].
        -- intros b v0 Hv. apply in_set_abuf in Hv. destruct Hv as [Hv|Hv]; [|apply Hbuf in Hv; exact Hv].
           apply in_app_iff in Hv. destruct Hv as [Hv|[<-|[]]]; [apply Hbuf in Hv; exact Hv|exact Cv].
        -- eapply ar_ok_fields; [| | | |exact Ha]; reflexivity.
      * intros v0 Hv. apply cv_ok_set_arch; [reflexivity|]. apply (gi_cv st G). eapply cv_in_chan. rewrite Ec. right. exact Hv.
    + assert (Cv : cv_ok (attf st) v) by (apply (Hbuf (BInBuf c)); rewrite Eb; left; reflexivity).
      split; [|exact Cv].
      apply GInv_set_arch; [exact G|reflexivity| |exact Hpc|exact Hloc|].
      * intros b v0 Hv. apply in_set_abuf in Hv. destruct Hv as [Hv|Hv].
        -- apply in_app_iff in Hv. destruct Hv as [Hv|[<-|[]]]; [apply Hbuf in Hv; exact Hv|exact Cv].
        -- apply in_set_abuf in Hv. destruct Hv as [Hv|Hv]; [|apply Hbuf in Hv; exact Hv].
           apply (Hbuf (BInBuf c)). rewrite Eb. right. exact Hv.
      * eapply ar_ok_fields; [| | | |exact Ha]; reflexivity.
  - exact G.
  - (* mailbox *)
    destruct (negb (g_own st m =? a)); [exact G|].
    destruct idx; [|exact G].
    destruct (a_buf (g_arch st a) (BBack m)) as [|v rest] eqn:Eb.
    + destruct tmo; [exact G|].
      destruct (g_box st m) as [|[|v more] recs] eqn:Ec; [exact G| |].
      * apply GInv_set_box; [assumption|]. intros r v Hr Hv. apply (gi_cv st G). eapply cv_in_box; [rewrite Ec; right; exact Hr|exact Hv].
      * assert (Cm : forall v0, In v0 (v :: more) -> cv_ok (attf st) v0).
        { intros v0 Hv. apply (gi_cv st G). eapply cv_in_box; [rewrite Ec; left; reflexivity|exact Hv]. }
        split; [|apply Cm; left; reflexivity].
        apply GInv_set_box.
        -- apply GInv_set_arch; [exact G|reflexivity| |exact Hpc|exact Hloc|].
           ++ intros b v0 Hv. apply in_set_abuf in Hv. destruct Hv as [Hv|Hv].
              ** apply in_app_iff in Hv. destruct Hv as [Hv|[<-|[]]]; [apply Hbuf in Hv; exact Hv|apply Cm; left; reflexivity].
              ** apply in_set_abuf in Hv. destruct Hv as [Hv|Hv]; [apply Cm; right; exact Hv|apply Hbuf in Hv; exact Hv].
           ++ eapply ar_ok_fields; [| | | |exact Ha]; reflexivity.
        -- intros r v0 Hr Hv. apply cv_ok_set_arch; [reflexivity|]. apply (gi_cv st G). eapply cv_in_box; [rewrite Ec; right; exact Hr|exact Hv].
    + assert (Cv : cv_ok (attf st) v) by (apply (Hbuf (BBack m)); rewrite Eb; left; reflexivity).
      split; [|exact Cv].
      apply GInv_set_arch; [exact G|reflexivity| |exact Hpc|exact Hloc|].
      * intros b v0 Hv. apply in_set_abuf in Hv. destruct Hv as [Hv|Hv].
        -- apply in_app_iff in Hv. destruct Hv as [Hv|[<-|[]]]; [apply Hbuf in Hv; exact Hv|exact Cv].
        -- apply in_set_abuf in Hv. destruct Hv as [Hv|Hv]; [|apply Hbuf in Hv; exact Hv].
           apply (Hbuf (BBack m)). rewrite Eb. right. exact Hv.
      * eapply ar_ok_fields; [| | | |exact Ha]; reflexivity.
Qed.

Lemma attf_frame : forall st st1 a,
  trc (g_arch st1 a) = trc (g_arch st a) -> (forall b, b <> a -> g_arch st1 b = g_arch st b) ->
  forall b, attf st1 b = attf st b.
Proof.
  intros st st1 a Ht Ho b. unfold attf. destruct (Nat.eq_dec b a) as [->|Hne].
  - apply trc_split in Ht. destruct Ht as (Hc & _). apply ctl_split in Hc. tauto.
  - rewrite Ho by assumption. reflexivity.
Qed.

Lemma GInv_mark_dirty : forall st a r, GInv st -> GInv (set_arch st a (mark_dirty r (g_arch st a))).
Proof.
  intros st a r G. destruct (mark_dirty_trc r (g_arch st a)) as (Mc & _ & _ & Ms & Mk & Mp & Ml & Mb).
  apply ctl_split in Mc. destruct Mc as (_ & _ & _ & _ & _ & Matt & _ & _ & Mlog).
  apply GInv_same; assumption.
Qed.

(* the witness + RecordRead *)
Lemma GInv_fin_read : forall st a r idx v clk k t,
  GInv st -> bounded (attf st) clk -> oc t clk ->
  GInv (set_arch st a (fin_read (g_arch st a) r idx v clk k t)).
Proof.
  intros st a r idx v clk k t G Hc Ho.
  pose proof (gi_ar st G a) as Ha.
  destruct (ar_ok_grow _ _ _ _ Hc Ha) as (B1 & B2 & B3 & B4 & B5).
  assert (E : forall A, a_sink (fin_read A r idx v clk k t) = vmerge (a_sink A) clk /\
                        a_srcs (fin_read A r idx v clk k t) = a_srcs A ++ [(k, t)] /\
                        a_buf (fin_read A r idx v clk k t) = a_buf A /\ a_log (fin_read A r idx v clk k t) = a_log A /\
                        a_att (fin_read A r idx v clk k t) = a_att A /\ a_pc (fin_read A r idx v clk k t) = a_pc A /\
                        a_loc (fin_read A r idx v clk k t) = a_loc A).
  { intros A. unfold fin_read, note_last, rec_read. destruct v; cbn; repeat split; reflexivity. }
  destruct (E (g_arch st a)) as (E1 & E2 & E3 & E4 & E5 & E6 & E7).
  apply GInv_set_arch; [exact G|exact E5| | | |].
  - intros b v0 Hv. rewrite E3 in Hv. eapply GInv_buf; eassumption.
  - rewrite E6. apply GInv_pc. assumption.
  - intros k0. rewrite E7. apply GInv_loc. assumption.
  - unfold ar_ok. rewrite E1, E2, E3, E4. split; [assumption|]. split; [assumption|]. split; [|split; assumption].
    intros k0 t0 Hin. apply in_app_iff in Hin. destruct Hin as [Hin|[Heq|[]]].
    + eapply B3. eassumption.
    + inversion Heq; subst. apply oc_merge_r. assumption.
Qed.

Lemma GInv_do_read : forall st a r idx tmo, GInv st -> GInv (rr_state (do_read st a r idx tmo)).
Proof.
  intros st a r idx tmo G.
  pose proof (do_read_inv st a r idx tmo) as H. cbn zeta in H.
  set (st0 := set_arch st a (mark_dirty r (g_arch st a))) in *.
  assert (G0 : GInv st0) by (apply GInv_mark_dirty; assumption).
  pose proof (GInv_res_read st0 a r idx tmo G0) as R.
  pose proof (res_read_frame st0 a r idx tmo) as F. cbn zeta in F. destruct F as (Ft & _ & Fo & _).
  pose proof (attf_frame _ _ _ Ft Fo) as Ef.
  destruct (do_read st a r idx tmo) as [st' v|st'|st']; cbn [rr_state].
  - destruct H as (st1 & clk & k & t & E & ->). rewrite E in *. cbn [rd_state] in *. destruct R as (G1 & Hb & Ho).
    apply GInv_fin_read; try assumption. eapply bounded_ext; [|exact Hb]. intros b. symmetry. apply Ef.
  - rewrite H in R. exact R.
  - rewrite H in R. exact R.
Qed.

(* ---------------------------------------------------------------- res_write *)

Lemma lres_write_ok : forall f a sink r nv,
  bounded f sink -> vget a sink = f a -> lr_ok f r ->
  lr_ok f (mkL nv (l_old r) (vmerge (l_clk r) sink) (a, f a) (l_otag r)).
Proof.
  intros f a sink r nv Hs Ho (L1 & L2 & L3). split; [apply bounded_merge; assumption|]. cbn. split.
  - unfold oc. cbn [fst snd]. rewrite vget_vmerge, Ho. lia.
  - apply oc_merge_l. assumption.
Qed.

Lemma ar_ok_sink : forall f a A c, bounded f c -> ar_ok f a A -> ar_ok f a (set_sink A (vmerge (a_sink A) c)).
Proof.
  intros f a A c Hc Ha. destruct (ar_ok_grow _ _ _ _ Hc Ha) as (B1 & B2 & B3 & B4 & B5).
  unfold ar_ok. cbn. split; [assumption|]. split; [assumption|]. split; [assumption|]. split; assumption.
Qed.

Lemma GInv_res_write : forall st a r idx z tmo,
  GInv st ->
  GInv (wr_state (res_write st a r idx z (a_sink (g_arch st a)) (a, a_att (g_arch st a)) tmo)).
Proof.
  intros st a r idx z tmo G.
  pose proof (gi_ar st G a) as Ha. pose proof Ha as (A1 & A2 & A3 & A4 & A5).
  assert (Hbuf : forall b v0, In v0 (a_buf (g_arch st a) b) -> cv_ok (attf st) v0) by (intros; eapply GInv_buf; eassumption).
  pose proof (GInv_pc st a G) as Hpc. pose proof (fun k => GInv_loc st a k G) as Hloc.
  change (a_att (g_arch st a)) with (attf st a).
  assert (Cnew : cv_ok (attf st) (mkCV z (a_sink (g_arch st a)) (a, attf st a))).
  { split; [exact A1|]. unfold oc. cbn [fst snd cv_tag cv_clk]. rewrite A2. lia. }
  unfold res_write. destruct r.
  - destruct (lres_write idx z (a_sink (g_arch st a)) (a, attf st a) (a_pc (g_arch st a))) as [[[r' w] old]|] eqn:E; [|exact G].
    lres_inv. cbn [wr_state].
    apply GInv_set_arch; [exact G|reflexivity|exact Hbuf| |exact Hloc|].
    + cbn. apply lres_write_ok; assumption.
    + apply (ar_ok_fields _ _ (set_sink (g_arch st a) (vmerge (a_sink (g_arch st a)) (l_clk (a_pc (g_arch st a)))))); try reflexivity.
      apply ar_ok_sink; [apply Hpc|exact Ha].
  - destruct (lres_write idx z (a_sink (g_arch st a)) (a, attf st a) (a_loc (g_arch st a) k)) as [[[r' w] old]|] eqn:E; [|exact G].
    lres_inv. cbn [wr_state].
    apply GInv_set_arch; [exact G|reflexivity|exact Hbuf|exact Hpc| |].
    + intros k0. cbn. unfold upd. destruct (Nat.eqb k0 k); [apply lres_write_ok; try assumption; apply Hloc|apply Hloc].
    + apply (ar_ok_fields _ _ (set_sink (g_arch st a) (vmerge (a_sink (g_arch st a)) (l_clk (a_loc (g_arch st a) k))))); try reflexivity.
      apply ar_ok_sink; [apply Hloc|exact Ha].
  - destruct (lock_busy (g_shr st j) a || lock_tmo (g_shr st j) tmo); [exact G|].
    pose proof (GInv_shr st j G) as Hs.
    destruct (lres_write idx z (a_sink (g_arch st a)) (a, attf st a) (s_res (g_shr st j))) as [[[r' w] old]|] eqn:E.
    + lres_inv. cbn [wr_state]. apply GInv_set_shr.
      * apply GInv_set_arch; [exact G|reflexivity|exact Hbuf|exact Hpc|exact Hloc|].
        apply ar_ok_sink; [apply Hs|exact Ha].
      * cbn. apply lr_ok_set_arch; [reflexivity|]. apply lres_write_ok; assumption.
    + cbn [wr_state]. apply GInv_set_shr; assumption.
  - exact G.
  - destruct idx; [|exact G]. cbn [wr_state].
    apply GInv_set_arch; [exact G|reflexivity| |exact Hpc|exact Hloc|].
    + intros b v0 Hv. apply in_set_abuf in Hv. destruct Hv as [Hv|Hv]; [|apply Hbuf in Hv; exact Hv].
      apply in_app_iff in Hv. destruct Hv as [Hv|[<-|[]]]; [apply Hbuf in Hv; exact Hv|exact Cnew].
    + unfold ar_ok. cbn -[updb]. split; [assumption|]. split; [assumption|]. split; [assumption|]. split; [|assumption].
      intros c0 v0 Hv. unfold updb in Hv. cbn in Hv. destruct (Nat.eqb c0 c) eqn:Ec.
      * apply Nat.eqb_eq in Ec. subst c0. apply in_app_iff in Hv. destruct Hv as [Hv|[<-|[]]]; [eapply A4; eassumption|apply vle_refl].
      * eapply A4. eassumption.
  - destruct (g_own st m =? a); [exact G|].
    destruct idx; [|exact G]. destruct tmo; [exact G|]. cbn [wr_state].
    apply GInv_set_arch; [exact G|reflexivity| |exact Hpc|exact Hloc|].
    + intros b v0 Hv. apply in_set_abuf in Hv. destruct Hv as [Hv|Hv]; [|apply Hbuf in Hv; exact Hv].
      apply in_app_iff in Hv. destruct Hv as [Hv|[<-|[]]]; [apply Hbuf in Hv; exact Hv|exact Cnew].
    + eapply ar_ok_fields; [| | | |exact Ha]; reflexivity.
Qed.

Lemma GInv_do_write : forall st a r idx z tmo, GInv st -> GInv (wr2_state (do_write st a r idx z tmo)).
Proof.
  intros st a r idx z tmo G.
  pose proof (do_write_inv st a r idx z tmo) as H. cbn zeta in H.
  set (st0 := set_arch st a (mark_dirty r (g_arch st a))) in *.
  assert (G0 : GInv st0) by (apply GInv_mark_dirty; assumption).
  pose proof (GInv_res_write st0 a r idx z tmo G0) as R.
  destruct (do_write st a r idx z tmo) as [st'|st'|st']; cbn [wr2_state].
  - destruct H as (st1 & h & E & ->). rewrite E in R. cbn [wr_state] in R.
    apply GInv_same; try reflexivity. exact R.
  - rewrite H in R. exact R.
  - rewrite H in R. exact R.
Qed.

(* ---------------------------------------------------------------- commit / abort of one dirty resource *)

Lemma lres_commit_ok : forall f sink r, bounded f sink -> lr_ok f r -> lr_ok f (lres_commit sink r).
Proof.
  intros f sink r Hs (L1 & L2 & L3). unfold lres_commit. split; [apply bounded_merge; assumption|]. cbn.
  split; apply oc_merge_l; assumption.
Qed.

Lemma lres_abort_ok : forall f r, lr_ok f r -> lr_ok f (lres_abort r).
Proof. intros f r (L1 & L2 & L3). unfold lres_abort. split; [assumption|]. cbn. split; assumption. Qed.

Lemma GInv_commit_res : forall a st n, GInv st -> GInv (commit_res a st n).
Proof.
  intros a st n G.
  pose proof (gi_ar st G a) as Ha. pose proof Ha as (A1 & A2 & A3 & A4 & A5).
  assert (Hbuf : forall b v0, In v0 (a_buf (g_arch st a) b) -> cv_ok (attf st) v0) by (intros; eapply GInv_buf; eassumption).
  pose proof (GInv_pc st a G) as Hpc. pose proof (fun k => GInv_loc st a k G) as Hloc.
  unfold commit_res. destruct n.
  - apply GInv_set_arch; [exact G|reflexivity|exact Hbuf| |exact Hloc|].
    + cbn. apply lres_commit_ok; assumption.
    + eapply ar_ok_fields; [| | | |exact Ha]; reflexivity.
  - apply GInv_set_arch; [exact G|reflexivity|exact Hbuf|exact Hpc| |].
    + intros k0. cbn. unfold upd. destruct (Nat.eqb k0 k); [apply lres_commit_ok; try assumption; apply Hloc|apply Hloc].
    + eapply ar_ok_fields; [| | | |exact Ha]; reflexivity.
  - destruct (s_holder (g_shr st j)) as [h|]; [|exact G].
    destruct (h =? a); [|exact G].
    apply GInv_set_shr; [exact G|]. cbn. apply lres_commit_ok; [assumption|apply GInv_shr; assumption].
  - apply GInv_set_arch; [exact G|reflexivity| |exact Hpc|exact Hloc|].
    + intros b v0 Hv. apply in_set_abuf in Hv. destruct Hv as [[]|Hv]. apply Hbuf in Hv. exact Hv.
    + eapply ar_ok_fields; [| | | |exact Ha]; reflexivity.
  - apply GInv_set_chan.
    + apply GInv_set_arch; [exact G|reflexivity| |exact Hpc|exact Hloc|].
      * intros b v0 Hv. apply in_set_abuf in Hv. destruct Hv as [[]|Hv]. apply Hbuf in Hv. exact Hv.
      * unfold ar_ok. cbn -[updb]. split; [assumption|]. split; [assumption|]. split; [assumption|]. split; [|assumption].
        intros c0 v0 Hv. unfold updb in Hv. cbn in Hv. destruct (Nat.eqb c0 c); [destruct Hv|eapply A4; eassumption].
    + intros v0 Hv. apply cv_ok_set_arch; [reflexivity|].
      apply in_app_iff in Hv. destruct Hv as [Hv|Hv]; [apply (gi_cv st G); eapply cv_in_chan; eassumption|].
      apply in_map_iff in Hv. destruct Hv as (v1 & <- & Hv1).
      destruct (Hbuf _ _ Hv1) as (C1 & C2). split; [exact A1|]. cbn.
      eapply oc_mono; [eapply A4; eassumption|exact C2].
  - destruct (g_own st m =? a).
    + apply GInv_set_arch; [exact G|reflexivity| |exact Hpc|exact Hloc|].
      * intros b v0 Hv. apply in_set_abuf in Hv. destruct Hv as [[]|Hv]. apply Hbuf in Hv. exact Hv.
      * eapply ar_ok_fields; [| | | |exact Ha]; reflexivity.
    + destruct (a_buf (g_arch st a) (BPend m)) as [|v0 vs] eqn:Ep; [exact G|].
      apply GInv_set_box.
      * apply GInv_set_arch; [exact G|reflexivity| |exact Hpc|exact Hloc|].
        -- intros b v1 Hv. apply in_set_abuf in Hv. destruct Hv as [[]|Hv]. apply Hbuf in Hv. exact Hv.
        -- eapply ar_ok_fields; [| | | |exact Ha]; reflexivity.
      * intros r v1 Hr Hv. apply cv_ok_set_arch; [reflexivity|].
        apply in_app_iff in Hr. destruct Hr as [Hr|[<-|[]]].
        -- apply (gi_cv st G). eapply cv_in_box; eassumption.
        -- apply (Hbuf (BPend m)). rewrite Ep. exact Hv.
Qed.

Lemma GInv_abort_res : forall a st n, GInv st -> GInv (abort_res a st n).
Proof.
  intros a st n G.
  pose proof (gi_ar st G a) as Ha. pose proof Ha as (A1 & A2 & A3 & A4 & A5).
  assert (Hbuf : forall b v0, In v0 (a_buf (g_arch st a) b) -> cv_ok (attf st) v0) by (intros; eapply GInv_buf; eassumption).
  pose proof (GInv_pc st a G) as Hpc. pose proof (fun k => GInv_loc st a k G) as Hloc.
  unfold abort_res. destruct n.
  - apply GInv_set_arch; [exact G|reflexivity|exact Hbuf| |exact Hloc|].
    + cbn. apply lres_abort_ok; assumption.
    + eapply ar_ok_fields; [| | | |exact Ha]; reflexivity.
  - apply GInv_set_arch; [exact G|reflexivity|exact Hbuf|exact Hpc| |].
    + intros k0. cbn. unfold upd. destruct (Nat.eqb k0 k); [apply lres_abort_ok; apply Hloc|apply Hloc].
    + eapply ar_ok_fields; [| | | |exact Ha]; reflexivity.
  - destruct (s_holder (g_shr st j)) as [h|]; [|exact G].
    destruct (h =? a); [|exact G].
    apply GInv_set_shr; [exact G|]. cbn. apply lres_abort_ok. apply GInv_shr; assumption.
  - apply GInv_set_arch; [exact G|reflexivity| |exact Hpc|exact Hloc|].
    + intros b v0 Hv. apply in_set_abuf in Hv. destruct Hv as [[]|Hv].
      apply in_set_abuf in Hv. destruct Hv as [Hv|Hv]; [|apply Hbuf in Hv; exact Hv].
      apply in_app_iff in Hv. destruct Hv as [Hv|Hv]; apply Hbuf in Hv; exact Hv.
    + eapply ar_ok_fields; [| | | |exact Ha]; reflexivity.
  - apply GInv_set_arch; [exact G|reflexivity| |exact Hpc|exact Hloc|].
    + intros b v0 Hv. apply in_set_abuf in Hv. destruct Hv as [[]|Hv]. apply Hbuf in Hv. exact Hv.
    + unfold ar_ok. cbn -[updb]. split; [assumption|]. split; [assumption|]. split; [assumption|]. split; [|assumption].
      intros c0 v0 Hv. unfold updb in Hv. cbn in Hv. destruct (Nat.eqb c0 c); [destruct Hv|eapply A4; eassumption].
  - destruct (g_own st m =? a).
    + apply GInv_set_arch; [exact G|reflexivity| |exact Hpc|exact Hloc|].
      * intros b v0 Hv. apply in_set_abuf in Hv. destruct Hv as [[]|Hv].
        apply in_set_abuf in Hv. destruct Hv as [Hv|Hv]; [|apply Hbuf in Hv; exact Hv].
        apply in_app_iff in Hv. destruct Hv as [Hv|Hv]; [|apply Hbuf in Hv; exact Hv].
        apply in_map_iff in Hv. destruct Hv as (v1 & <- & Hv1). destruct (Hbuf _ _ Hv1) as (C1 & C2).
        split; cbn; [apply bounded_merge; assumption|apply oc_merge_r; assumption].
      * eapply ar_ok_fields; [| | | |exact Ha]; reflexivity.
    + apply GInv_set_arch; [exact G|reflexivity| |exact Hpc|exact Hloc|].
      * intros b v0 Hv. apply in_set_abuf in Hv. destruct Hv as [[]|Hv]. apply Hbuf in Hv. exact Hv.
      * eapply ar_ok_fields; [| | | |exact Ha]; reflexivity.
Qed.

Lemma GInv_fold : forall (f : nat -> state -> rname -> state) a,
  (forall st n, GInv st -> GInv (f a st n)) -> forall l st, GInv st -> GInv (fold_left (f a) l st).
Proof. intros f a Hf. induction l as [|n l IH]; intros st G; cbn; [exact G|]. apply IH. apply Hf. exact G. Qed.

(* CommitEvent *)
Lemma GInv_commit_event : forall st a ab, GInv st -> GInv (commit_event st a ab).
Proof.
  intros st a ab G. unfold commit_event.
  pose proof (gi_ar st G a) as (A1 & A2 & A3 & A4 & A5).
  apply GInv_set_arch; [exact G|reflexivity| | | |].
  - intros b v Hv. cbn in Hv. eapply GInv_buf; eassumption.
  - cbn. apply GInv_pc. assumption.
  - intros k. cbn. apply GInv_loc. assumption.
  - unfold ar_ok. cbn. split; [assumption|]. split; [assumption|]. split; [intros k t []|]. split; [assumption|].
    intros e He. apply in_app_iff in He. destruct He as [He|[<-|[]]]; [apply A5; assumption|].
    unfold ev_ok. cbn. split; [exact A2|]. split; [apply vle_refl|exact A3].
Qed.

Lemma GInv_do_commit : forall st a, GInv st -> GInv (do_commit st a).
Proof. intros st a G. unfold do_commit. apply GInv_commit_event. apply (GInv_fold commit_res); [intros; apply GInv_commit_res; assumption|exact G]. Qed.

Lemma GInv_do_abort : forall st a, GInv st -> GInv (do_abort st a).
Proof. intros st a G. unfold do_abort. apply GInv_commit_event. apply (GInv_fold abort_res); [intros; apply GInv_abort_res; assumption|exact G]. Qed.

(* ---------------------------------------------------------------- InitCriticalSection *)

Lemma GInv_inc : forall st a,
  GInv st ->
  GInv (set_arch st a (set_att (set_sink (g_arch st a) (vinc a (a_sink (g_arch st a)))) (S (a_att (g_arch st a))))).
Proof.
  intros st a [G1 G2 G3].
  set (A' := set_att _ _).
  assert (Ef : forall b, attf (set_arch st a A') b = if Nat.eqb b a then S (attf st a) else attf st b).
  { intros b. unfold attf. cbn. unfold upd. destruct (Nat.eqb b a); reflexivity. }
  assert (Em : forall b, attf st b <= attf (set_arch st a A') b).
  { intros b. rewrite Ef. destruct (Nat.eqb_spec b a); subst; lia. }
  constructor.
  - intros v Hv. apply cv_in_set_arch in Hv.
    assert (Hv' : cv_in st v) by (destruct Hv as [(b & Hv)|Hv]; [cbn in Hv; eapply cv_in_buf; eassumption|assumption]).
    destruct (G1 v Hv') as (C1 & C2). split; [eapply bounded_mono; eassumption|assumption].
  - intros r Hr. apply lr_in_set_arch in Hr.
    assert (Hr' : lr_in st r) by (destruct Hr as [->|[(k & ->)|Hr]]; [apply lr_in_pc|apply lr_in_loc|assumption]).
    destruct (G2 r Hr') as (L1 & L2 & L3). split; [eapply bounded_mono; eassumption|split; assumption].
  - intros b. cbn. unfold upd. destruct (Nat.eqb_spec b a) as [->|Hne].
    + destruct (G3 a) as (A1 & A2 & A3 & A4 & A5). unfold ar_ok, A'. cbn [a_sink a_srcs a_buf a_log set_att set_sink].
      split; [|split; [|split; [|split]]].
      * intros b. rewrite vget_vinc, Ef. destruct (Nat.eqb_spec b a); [subst; rewrite A2; lia|apply A1].
      * rewrite vget_vinc, Nat.eqb_refl, Ef, Nat.eqb_refl, A2. reflexivity.
      * intros k t H. eapply oc_mono; [apply vle_vinc|eapply A3; eassumption].
      * intros c v H. eapply vle_trans; [eapply A4; eassumption|apply vle_vinc].
      * intros e H. eapply ev_ok_mono; [apply vle_vinc|apply A5; assumption].
    + destruct (G3 b) as (A1 & A2 & A3 & A4 & A5). unfold ar_ok.
      split; [eapply bounded_mono; eassumption|]. split; [rewrite Ef; destruct (Nat.eqb_spec b a); [contradiction|assumption]|].
      split; [assumption|]. split; assumption.
Qed.

Lemma GInv_begin : forall st a, GInv st -> GInv (begin_attempt st a).
Proof.
  intros st a G. unfold begin_attempt.
  destruct (a_elems (g_arch st a)); [|apply GInv_same; try reflexivity; exact G].
  set (st1 := set_arch st a _).
  assert (G1 : GInv st1) by (apply GInv_inc; exact G).
  pose proof (GInv_do_read st1 a NPc [] false G1) as R.
  destruct (do_read st1 a NPc [] false) as [st2 v|st2|st2]; cbn [rr_state] in R.
  - destruct (nth_error _ _); apply GInv_same; try reflexivity; exact R.
  - apply GInv_same; try reflexivity; exact R.
  - apply GInv_same; try reflexivity; exact R.
Qed.

Lemma GInv_goto : forall st a, GInv st -> GInv (goto_next st a).
Proof.
  intros st a G. unfold goto_next. set (z := (_ + 1)%Z).
  pose proof (GInv_do_write st a NPc [] z false G) as R.
  destruct (do_write st a NPc [] z false); cbn [wr2_state] in R; apply GInv_same; try reflexivity; exact R.
Qed.

Lemma GInv_do_op : forall st a o tmo, GInv st -> GInv (op_state (do_op st a o tmo)).
Proof.
  intros st a o tmo G. unfold do_op. destruct o as [r idx|r idx e].
  - destruct (is_pc r); [exact G|].
    pose proof (GInv_do_read st a r idx tmo G) as R. destruct (do_read st a r idx tmo); exact R.
  - destruct (is_pc r); [exact G|].
    pose proof (GInv_do_write st a r idx (eval_expr (g_arch st a) e) tmo G) as R.
    destruct (do_write st a r idx (eval_expr (g_arch st a) e) tmo); exact R.
Qed.

Lemma GInv_step : forall st ev, GInv st -> GInv (step st ev).
Proof.
  intros st [a tmo] G. unfold step.
  destruct (negb (a <? g_n st)); [exact G|].
  destruct (negb (a_status (g_arch st a) =? 0)); [exact G|].
  destruct (a_rest (g_arch st a)) as [|o rest].
  - destruct (a_forced (g_arch st a)); [|destruct tmo].
    + apply GInv_begin. apply GInv_do_abort. exact G.
    + apply GInv_begin. apply GInv_do_abort. apply GInv_goto. exact G.
    + apply GInv_begin. apply GInv_do_commit. apply GInv_goto. exact G.
  - pose proof (GInv_do_op st a o tmo G) as R.
    destruct (do_op st a o tmo) as [st' p|st'|st']; cbn [op_state] in R.
    + apply GInv_same; try reflexivity. exact R.
    + apply GInv_begin. apply GInv_do_abort. exact R.
    + apply GInv_same; try reflexivity. exact R.
Qed.

Lemma GInv_init0 : forall c,
  GInv (mkState (fun a => arch_init a (nth a (cf_archs c) no_arch))
                (fun j => mkShr (lres_init (nth j (cf_shared c) (VInt 0%Z)) (List.length (cf_archs c))) None)
                (fun _ => []) (fun _ => []) (fun m => nth m (cf_owner c) 0) (List.length (cf_archs c))).
Proof.
  intros c. constructor.
  - intros v [(c0 & [])|[(m & r & [] & _)|(a & b & [])]].
  - intros r [(a & ->)|[(a & k & ->)|(j & ->)]]; cbn [g_arch g_shr arch_init a_pc a_loc s_res lres_init]; (split; [intros b; cbn [l_clk]; rewrite vget_nil; lia|split; unfold oc; cbn; lia]).
  - intros a. unfold ar_ok. cbn [g_arch arch_init a_sink a_srcs a_buf a_log]. split; [intros b; rewrite vget_nil; lia|]. split; [rewrite vget_nil; reflexivity|].
    split; [intros k t []|]. split; [intros c0 v []|intros e []].
Qed.

Lemma GInv_run : forall c sched, GInv (run c sched).
Proof.
  intros c sched. unfold run, run_from, init.
  assert (G0 : GInv (fold_left begin_attempt (seq 0 (List.length (cf_archs c)))
             (mkState (fun a => arch_init a (nth a (cf_archs c) no_arch))
                (fun j => mkShr (lres_init (nth j (cf_shared c) (VInt 0%Z)) (List.length (cf_archs c))) None)
                (fun _ => []) (fun _ => []) (fun m => nth m (cf_owner c) 0) (List.length (cf_archs c))))).
  { generalize (GInv_init0 c). generalize (seq 0 (List.length (cf_archs c))).
    intros l. generalize (mkState (fun a => arch_init a (nth a (cf_archs c) no_arch))
                (fun j => mkShr (lres_init (nth j (cf_shared c) (VInt 0%Z)) (List.length (cf_archs c))) None)
                (fun _ => []) (fun _ => []) (fun m => nth m (cf_owner c) 0) (List.length (cf_archs c))).
    induction l as [|x l IH]; intros st G; cbn; [exact G|]. apply IH. apply GInv_begin. exact G. }
  revert G0. generalize (fold_left begin_attempt (seq 0 (List.length (cf_archs c)))
             (mkState (fun a => arch_init a (nth a (cf_archs c) no_arch))
                (fun j => mkShr (lres_init (nth j (cf_shared c) (VInt 0%Z)) (List.length (cf_archs c))) None)
                (fun _ => []) (fun _ => []) (fun m => nth m (cf_owner c) 0) (List.length (cf_archs c)))).
  induction sched as [|ev sched IH]; intros st G; cbn; [exact G|]. apply IH. apply GInv_step. exact G.
Qed.

(* ---------------------------------------------------------------- the theorems about clocks *)

(* own component of the k-th logged event = k *)
Lemma own_component_lemma : forall c sched a e,
  In e (a_log (g_arch (run c sched) a)) -> vget a (e_clock e) = e_no e.
Proof.
  intros c sched a e He. destruct (gi_ar _ (GInv_run c sched) a) as (_ & _ & _ & _ & A5). apply A5 in He. apply He.
Qed.

(* the events of one archetype carry growing clocks *)
Lemma reader_covers_writer_component_lemma : forall c sched r er k w i,
  In er (a_log (g_arch (run c sched) r)) -> In (k, (w, i)) (e_srcs er) -> i <= vget w (e_clock er).
Proof.
  intros c sched r er k w i He Hs. destruct (gi_ar _ (GInv_run c sched) r) as (_ & _ & _ & _ & A5).
  apply A5 in He. destruct He as (_ & _ & E3). apply E3 in Hs. exact Hs.
Qed.

(* along the log the own component is 1, 2, 3, ... *)
Lemma own_component_seq_lemma : forall c sched a k e,
  a < List.length (cf_archs c) ->
  nth_error (a_log (g_arch (run c sched) a)) k = Some e -> vget a (e_clock e) = S k.
Proof.
  intros c sched a k e Ha Hn.
  rewrite (own_component_lemma c sched a e) by (eapply nth_error_In; eassumption).
  destruct (LInv_run c sched a Ha) as [_ _ I3 _].
  pose proof (map_nth_error e_no k _ Hn) as H. rewrite I3 in H.
  assert (Hk : k < List.length (a_log (g_arch (run c sched) a))) by (apply nth_error_Some; congruence).
  rewrite (nth_error_nth' _ 0) in H by (rewrite seq_length; exact Hk).
  rewrite seq_nth in H by exact Hk. inversion H. reflexivity.
Qed.
