(* C18 — the log of every archetype is, event by event, what its Run loop went through:
   one event per attempt that ended by commit or abort, in order, with the elements of exactly the
   performed reads and writes (logged_exactly_once_in_order, elements_faithful) *)
From PGV Require Import C18.Model C18.ProofsFrame.
From Coq Require Import Lia.

Definition evp (e : event) := (e_elems e, e_clock e, e_abort e, e_no e).
Definition hvp (h : hentry) := (map elem_of (h_perf h), h_clock h, h_abort h, h_no h).

Record LInv (A : arch) : Prop := mkLInv {
  li_elems : a_elems A = map elem_of (a_perf A);
  li_log : map evp (a_log A) = map hvp (a_hist A);
  li_no : map e_no (a_log A) = seq 1 (List.length (a_log A));
  li_att : a_att A = S (List.length (a_log A)) }.

Lemma LInv_trc : forall A B, trc A = trc B -> LInv A -> LInv B.
Proof.
  intros A B H [I1 I2 I3 I4]. apply trc_split in H. destruct H as (Hc & _ & He & _ & _).
  apply ctl_split in Hc. destruct Hc as (_ & _ & _ & _ & _ & Hatt & Hperf & Hhist & Hlog).
  constructor; congruence.
Qed.

Lemma LInv_ctl : forall A B, ctl A = ctl B -> a_elems A = a_elems B -> LInv A -> LInv B.
Proof.
  intros A B Hc He [I1 I2 I3 I4].
  apply ctl_split in Hc. destruct Hc as (_ & _ & _ & _ & _ & Hatt & Hperf & Hhist & Hlog).
  constructor; congruence.
Qed.

(* a performed op: the element recorded is the element of what the body performed *)
Lemma LInv_op : forall A A' p rest,
  ctl A' = ctl A -> a_elems A' = a_elems A ++ [elem_of p] -> LInv A ->
  LInv (set_perf (set_rest A' rest) (a_perf A' ++ [p])).
Proof.
  intros A A' p rest Hc He [I1 I2 I3 I4].
  apply ctl_split in Hc. destruct Hc as (_ & _ & _ & _ & _ & Hatt & Hperf & Hhist & Hlog).
  constructor; cbn.
  - rewrite He, I1, Hperf, map_app. reflexivity.
  - congruence.
  - congruence.
  - congruence.
Qed.

Lemma LInv_status : forall A s, LInv A -> LInv (set_status A s).
Proof. intros A s [I1 I2 I3 I4]. constructor; cbn; assumption. Qed.

(* CommitEvent followed by the top of the Run loop *)
Lemma LInv_finish_begin : forall st a ab,
  LInv (g_arch st a) -> LInv (g_arch (begin_attempt (commit_event st a ab) a) a).
Proof.
  intros st a ab [I1 I2 I3 I4].
  unfold begin_attempt.
  set (stc := commit_event st a ab).
  assert (EC : g_arch stc a =
               set_dirty (set_srcs (set_perf (set_hist (set_log (set_elems (g_arch st a) []) (a_log (g_arch st a) ++
                 [mkEvent (a_elems (g_arch st a)) (a_sink (g_arch st a)) ab (a_att (g_arch st a)) (a_srcs (g_arch st a))]))
                 (a_hist (g_arch st a) ++ [mkH (a_att (g_arch st a)) ab (a_perf (g_arch st a)) (a_sink (g_arch st a))])) []) []) []).
  { unfold stc, commit_event. rewrite g_arch_set_same. reflexivity. }
  set (C := g_arch stc a) in *.
  assert (Ce : a_elems C = []) by (rewrite EC; reflexivity).
  rewrite Ce.
  set (st1 := set_arch stc a _).
  assert (LC : a_elems (g_arch st1 a) = [] /\ a_perf (g_arch st1 a) = [] /\
               map evp (a_log (g_arch st1 a)) = map hvp (a_hist (g_arch st1 a)) /\
               map e_no (a_log (g_arch st1 a)) = seq 1 (List.length (a_log (g_arch st1 a))) /\
               a_att (g_arch st1 a) = S (List.length (a_log (g_arch st1 a)))).
  { unfold st1. rewrite g_arch_set_same. rewrite EC. cbn. repeat split.
    - rewrite !map_app, I2. cbn. unfold evp, hvp. cbn. rewrite I1. reflexivity.
    - rewrite map_app, I3, app_length, seq_app. cbn. rewrite I4. reflexivity.
    - rewrite app_length. cbn. rewrite I4. lia. }
  destruct LC as (L1 & L2 & L3 & L4 & L5).
  pose proof (do_read_trace st1 a NPc [] false) as T. cbn zeta in T.
  destruct (do_read st1 a NPc [] false) as [st2 v|st2|st2].
  - destruct T as (Tc & Te & _ & _).
    apply ctl_split in Tc. destruct Tc as (_ & _ & _ & _ & _ & Hatt & Hperf & Hhist & Hlog).
    assert (G : LInv (set_perf (set_last (g_arch st2 a) (a_last (g_arch stc a))) [PRead NPc [] v])).
    { constructor; cbn.
      - rewrite Te, L1. reflexivity.
      - congruence.
      - congruence.
      - congruence. }
    destruct (nth_error _ _).
    + rewrite g_arch_set_same. destruct G as [G1 G2 G3 G4]. constructor; cbn in *; assumption.
    + rewrite g_arch_set_same. apply LInv_status. exact G.
  - destruct T as (Tc & Te & _).
    apply ctl_split in Tc. destruct Tc as (_ & _ & _ & _ & _ & Hatt & Hperf & Hhist & Hlog).
    rewrite g_arch_set_same. apply LInv_status. constructor; try congruence. rewrite Te, L1, Hperf, L2. reflexivity.
  - destruct T as (Tc & Te & _).
    apply ctl_split in Tc. destruct Tc as (_ & _ & _ & _ & _ & Hatt & Hperf & Hhist & Hlog).
    rewrite g_arch_set_same. apply LInv_status. constructor; try congruence. rewrite Te, L1, Hperf, L2. reflexivity.
Qed.

Lemma LInv_goto : forall st a, LInv (g_arch st a) -> LInv (g_arch (goto_next st a) a).
Proof.
  intros st a I. unfold goto_next.
  set (z := (_ + 1)%Z).
  pose proof (do_write_trace st a NPc [] z false) as T. cbn zeta in T.
  destruct (do_write st a NPc [] z false) as [st1|st1|st1]; rewrite g_arch_set_same.
  - destruct T as (Tc & Te & _).
    destruct I as [I1 I2 I3 I4].
    apply ctl_split in Tc. destruct Tc as (_ & _ & _ & _ & _ & Hatt & Hperf & Hhist & Hlog).
    constructor; cbn; try congruence.
    rewrite Te, I1, Hperf, map_app. reflexivity.
  - destruct T as (Tc & Te & _). apply LInv_status. eapply LInv_ctl; [symmetry; exact Tc|symmetry; exact Te|exact I].
  - destruct T as (Tc & Te & _). apply LInv_status. eapply LInv_ctl; [symmetry; exact Tc|symmetry; exact Te|exact I].
Qed.

Lemma LInv_do_commit_begin : forall st a,
  LInv (g_arch st a) -> LInv (g_arch (begin_attempt (do_commit st a) a) a).
Proof.
  intros st a I. unfold do_commit. apply LInv_finish_begin.
  destruct (commit_fold_frame a (a_dirty (g_arch st a)) st) as (F & _).
  eapply LInv_trc; [symmetry; exact F|exact I].
Qed.

Lemma LInv_do_abort_begin : forall st a,
  LInv (g_arch st a) -> LInv (g_arch (begin_attempt (do_abort st a) a) a).
Proof.
  intros st a I. unfold do_abort. apply LInv_finish_begin.
  destruct (abort_fold_frame a (a_dirty (g_arch st a)) st) as (F & _).
  eapply LInv_trc; [symmetry; exact F|exact I].
Qed.

(* the trace-side effect of a scripted op *)
Lemma do_op_trace : forall st a o tmo,
  let A := g_arch st a in
  match do_op st a o tmo with
  | OpOk st' p => ctl (g_arch st' a) = ctl A /\ a_elems (g_arch st' a) = a_elems A ++ [elem_of p]
  | OpAbort st' | OpCrash st' => ctl (g_arch st' a) = ctl A /\ a_elems (g_arch st' a) = a_elems A
  end.
Proof.
  intros st a o tmo A. unfold do_op. destruct o as [r idx|r idx e].
  - destruct (is_pc r); [split; reflexivity|].
    pose proof (do_read_trace st a r idx tmo) as T. cbn zeta in T.
    destruct (do_read st a r idx tmo); [destruct T as (T1 & T2 & _)|destruct T as (T1 & T2 & _)|destruct T as (T1 & T2 & _)]; split; assumption.
  - destruct (is_pc r); [split; reflexivity|].
    pose proof (do_write_trace st a r idx (eval_expr (g_arch st a) e) tmo) as T. cbn zeta in T.
    destruct (do_write st a r idx (eval_expr (g_arch st a) e) tmo); [destruct T as (T1 & T2 & _)|destruct T as (T1 & T2 & _)|destruct T as (T1 & T2 & _)]; split; assumption.
Qed.

Lemma LInv_step : forall st a tmo, LInv (g_arch st a) -> LInv (g_arch (step st (a, tmo)) a).
Proof.
  intros st a tmo I. unfold step.
  destruct (negb (a <? g_n st)); [exact I|].
  destruct (negb (a_status (g_arch st a) =? 0)); [exact I|].
  destruct (a_rest (g_arch st a)) as [|o rest].
  - destruct (a_forced (g_arch st a)); [|destruct tmo].
    + apply LInv_do_abort_begin. exact I.
    + apply LInv_do_abort_begin. apply LInv_goto. exact I.
    + apply LInv_do_commit_begin. apply LInv_goto. exact I.
  - pose proof (do_op_trace st a o tmo) as T. cbn zeta in T.
    destruct (do_op st a o tmo) as [st' p|st'|st'].
    + destruct T as (Tc & Te). rewrite g_arch_set_same. eapply LInv_op; eassumption.
    + destruct T as (Tc & Te). apply LInv_do_abort_begin. eapply LInv_ctl; [symmetry; exact Tc|symmetry; exact Te|exact I].
    + destruct T as (Tc & Te). rewrite g_arch_set_same. apply LInv_status. eapply LInv_ctl; [symmetry; exact Tc|symmetry; exact Te|exact I].
Qed.

Lemma LInv_step_any : forall st ev b, LInv (g_arch st b) -> LInv (g_arch (step st ev) b).
Proof.
  intros st [a tmo] b I. destruct (Nat.eq_dec b a) as [->|Hne].
  - apply LInv_step. exact I.
  - destruct (step_others st a tmo) as (O & _). rewrite O by assumption. exact I.
Qed.

(* ---------------------------------------------------------------- from the initial state *)

Record LPre (A : arch) : Prop := mkLPre {
  lp_elems : a_elems A = [];
  lp_perf : a_perf A = [];
  lp_log : map evp (a_log A) = map hvp (a_hist A);
  lp_no : map e_no (a_log A) = seq 1 (List.length (a_log A));
  lp_att : a_att A = List.length (a_log A) }.

Lemma LInv_begin : forall st a, LPre (g_arch st a) -> LInv (g_arch (begin_attempt st a) a).
Proof.
  intros st a [P1 P2 P3 P4 P5]. unfold begin_attempt. rewrite P1.
  set (st1 := set_arch st a _).
  assert (LC : a_elems (g_arch st1 a) = [] /\ a_perf (g_arch st1 a) = [] /\
               map evp (a_log (g_arch st1 a)) = map hvp (a_hist (g_arch st1 a)) /\
               map e_no (a_log (g_arch st1 a)) = seq 1 (List.length (a_log (g_arch st1 a))) /\
               a_att (g_arch st1 a) = S (List.length (a_log (g_arch st1 a)))).
  { unfold st1. rewrite g_arch_set_same. cbn. repeat split; try assumption. rewrite P5. reflexivity. }
  destruct LC as (L1 & L2 & L3 & L4 & L5).
  pose proof (do_read_trace st1 a NPc [] false) as T. cbn zeta in T.
  destruct (do_read st1 a NPc [] false) as [st2 v|st2|st2].
  - destruct T as (Tc & Te & _ & _).
    apply ctl_split in Tc. destruct Tc as (_ & _ & _ & _ & _ & Hatt & Hperf & Hhist & Hlog).
    assert (G : LInv (set_perf (set_last (g_arch st2 a) (a_last (g_arch st a))) [PRead NPc [] v])).
    { constructor; cbn.
      - rewrite Te, L1. reflexivity.
      - congruence.
      - congruence.
      - congruence. }
    destruct (nth_error _ _).
    + rewrite g_arch_set_same. destruct G as [G1 G2 G3 G4]. constructor; cbn in *; assumption.
    + rewrite g_arch_set_same. apply LInv_status. exact G.
  - destruct T as (Tc & Te & _).
    apply ctl_split in Tc. destruct Tc as (_ & _ & _ & _ & _ & Hatt & Hperf & Hhist & Hlog).
    rewrite g_arch_set_same. apply LInv_status. constructor; try congruence. rewrite Te, L1, Hperf, L2. reflexivity.
  - destruct T as (Tc & Te & _).
    apply ctl_split in Tc. destruct Tc as (_ & _ & _ & _ & _ & Hatt & Hperf & Hhist & Hlog).
    rewrite g_arch_set_same. apply LInv_status. constructor; try congruence. rewrite Te, L1, Hperf, L2. reflexivity.
Qed.

Lemma fold_begin_other : forall l st x, ~ In x l -> g_arch (fold_left begin_attempt l st) x = g_arch st x.
Proof.
  induction l as [|y l IH]; intros st x Hx; cbn; [reflexivity|].
  rewrite IH by (intros H; apply Hx; right; assumption).
  destruct (begin_attempt_others st y) as (O & _). apply O. intros ->. apply Hx. left. reflexivity.
Qed.

Lemma fold_begin_n : forall l st, g_n (fold_left begin_attempt l st) = g_n st /\ g_own (fold_left begin_attempt l st) = g_own st.
Proof.
  induction l as [|y l IH]; intros st; cbn; [split; reflexivity|].
  destruct (IH (begin_attempt st y)) as (I1 & I2). destruct (begin_attempt_others st y) as (_ & O1 & O2). split; congruence.
Qed.

(* a property of single archetypes that every step keeps, and that the start of Run establishes from a
   property of freshly created contexts, holds in every reachable state *)
Section Reach.
  Variable P0 : nat -> arch -> Prop.       (* at creation *)
  Variable P : nat -> arch -> Prop.        (* from the first attempt on *)
  Hypothesis Hbegin : forall st a, P0 a (g_arch st a) -> P a (g_arch (begin_attempt st a) a).
  Hypothesis Hstep : forall st a tmo, P a (g_arch st a) -> P a (g_arch (step st (a, tmo)) a).

  Lemma fold_begin_reach : forall l st,
    NoDup l ->
    (forall a, In a l -> P0 a (g_arch st a)) ->
    forall a, In a l -> P a (g_arch (fold_left begin_attempt l st) a).
  Proof.
    induction l as [|x l IH]; intros st Hnd H0 a Ha; cbn; [destruct Ha|].
    inversion Hnd as [|? ? Hx Hnd']; subst.
    destruct (begin_attempt_others st x) as (O & _).
    destruct (in_dec Nat.eq_dec a l) as [Hin|Hnin].
    - apply IH; try assumption.
      intros b Hb. rewrite O by (intros ->; contradiction). apply H0. right. assumption.
    - destruct Ha as [->|Hin]; [|contradiction].
      rewrite fold_begin_other by assumption. apply Hbegin. apply H0. left. reflexivity.
  Qed.

  Lemma run_from_reach : forall sched st a, P a (g_arch st a) -> P a (g_arch (run_from st sched) a).
  Proof.
    unfold run_from. induction sched as [|[x tmo] sched IH]; intros st a H; cbn; [exact H|].
    apply IH. destruct (Nat.eq_dec a x) as [->|Hne].
    - apply Hstep. exact H.
    - destruct (step_others st x tmo) as (O & _). rewrite O by assumption. exact H.
  Qed.

  Lemma run_reach : forall c sched a,
    a < List.length (cf_archs c) ->
    (forall b, b < List.length (cf_archs c) -> P0 b (arch_init b (nth b (cf_archs c) no_arch))) ->
    P a (g_arch (run c sched) a).
  Proof.
    intros c sched a Ha H0. unfold run. apply run_from_reach. unfold init.
    apply fold_begin_reach.
    - apply seq_NoDup.
    - intros b Hb. apply in_seq in Hb. cbn. apply H0. lia.
    - apply in_seq. lia.
  Qed.
End Reach.

Lemma LPre_init : forall a c, LPre (arch_init a c).
Proof. intros. constructor; reflexivity. Qed.

(* every archetype of every configuration, after every schedule *)
Lemma LInv_run : forall c sched a, a < List.length (cf_archs c) -> LInv (g_arch (run c sched) a).
Proof.
  intros c sched a Ha.
  apply (run_reach (fun _ => LPre) (fun _ => LInv)); try assumption.
  - intros. apply LInv_begin. assumption.
  - intros. apply LInv_step. assumption.
  - intros. apply LPre_init.
Qed.

(* ---------------------------------------------------------------- the statements used in Properties/C18.v *)

Lemma logged_once_lemma : forall c sched a,
  a < List.length (cf_archs c) ->
  let A := g_arch (run c sched) a in
  map e_no (a_log A) = seq 1 (List.length (a_log A)) /\
  a_att A = S (List.length (a_log A)) /\
  map (fun e => (e_no e, e_abort e)) (a_log A) = map (fun h => (h_no h, h_abort h)) (a_hist A).
Proof.
  intros c sched a Ha A. destruct (LInv_run c sched a Ha) as [I1 I2 I3 I4]. fold A in I1, I2, I3, I4.
  split; [exact I3|]. split; [exact I4|].
  pose proof (f_equal (map (fun p : list element * vclock * bool * nat => (snd p, snd (fst p)))) I2) as H.
  rewrite !map_map in H. exact H.
Qed.

Lemma elements_faithful_lemma : forall c sched a,
  a < List.length (cf_archs c) ->
  let A := g_arch (run c sched) a in
  map e_elems (a_log A) = map (fun h => map elem_of (h_perf h)) (a_hist A) /\
  map e_clock (a_log A) = map h_clock (a_hist A) /\
  a_elems A = map elem_of (a_perf A).
Proof.
  intros c sched a Ha A. destruct (LInv_run c sched a Ha) as [I1 I2 I3 I4]. fold A in I1, I2, I3, I4.
  split; [|split; [|exact I1]].
  - pose proof (f_equal (map (fun p : list element * vclock * bool * nat => fst (fst (fst p)))) I2) as H.
    rewrite !map_map in H. exact H.
  - pose proof (f_equal (map (fun p : list element * vclock * bool * nat => snd (fst (fst p)))) I2) as H.
    rewrite !map_map in H. exact H.
Qed.
