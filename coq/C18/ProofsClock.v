(* C18 — lemmas about the vector-clock operations of Model.v *)
From PGV Require Import C18.Model.
From Coq Require Import Lia.

Lemma vget_nil : forall k, vget k [] = 0.
Proof. intros [|k]; reflexivity. Qed.

Lemma vget_vset_same : forall k n c, vget k (vset k n c) = n.
Proof.
  unfold vget. induction k as [|k IH]; intros n [|x r]; cbn; auto.
Qed.

Lemma vget_vset_other : forall k j n c, k <> j -> vget j (vset k n c) = vget j c.
Proof.
  unfold vget. induction k as [|k IH]; intros [|j] n [|x r] Hne; cbn; try congruence; auto.
  - destruct j; reflexivity.
  - rewrite IH by congruence. destruct j; reflexivity.
Qed.

Lemma vget_vset : forall k j n c, vget j (vset k n c) = if Nat.eqb j k then n else vget j c.
Proof.
  intros. destruct (Nat.eqb_spec j k) as [->|Hne].
  - apply vget_vset_same.
  - apply vget_vset_other. congruence.
Qed.

Lemma vget_vinc : forall k j c, vget j (vinc k c) = if Nat.eqb j k then S (vget k c) else vget j c.
Proof. intros. unfold vinc. apply vget_vset. Qed.

Lemma vget_cons_S : forall k x r, vget (S k) (x :: r) = vget k r.
Proof. reflexivity. Qed.

Lemma vget_vmerge_loop : forall other i acc k,
  vget k (vmerge_loop i other acc) = if Nat.leb i k then Nat.max (vget k acc) (vget (k - i) other) else vget k acc.
Proof.
  induction other as [|v r IH]; intros i acc k; cbn [vmerge_loop].
  - rewrite vget_nil. destruct (Nat.leb i k); lia.
  - rewrite IH.
    destruct (Nat.leb_spec (S i) k) as [H1|H1].
    + destruct (Nat.leb_spec i k) as [H2|H2]; [|lia].
      replace (k - i) with (S (k - S i)) by lia. rewrite vget_cons_S.
      destruct (Nat.ltb_spec (vget i acc) v); [|reflexivity].
      rewrite vget_vset_other by lia. reflexivity.
    + destruct (Nat.leb_spec i k) as [H2|H2].
      * assert (k = i) by lia. subst k. replace (i - i) with 0 by lia.
        change (vget 0 (v :: r)) with v.
        destruct (Nat.ltb_spec (vget i acc) v).
        -- rewrite vget_vset_same. lia.
        -- lia.
      * destruct (Nat.ltb_spec (vget i acc) v); [|reflexivity].
        rewrite vget_vset_other by lia. reflexivity.
Qed.

Lemma vget_vmerge : forall a b k, vget k (vmerge a b) = Nat.max (vget k a) (vget k b).
Proof.
  intros a b k. unfold vmerge.
  destruct a as [|x a']; [rewrite vget_nil; reflexivity|].
  destruct b as [|y b']; [rewrite vget_nil; lia|].
  destruct (Nat.ltb (List.length (x :: a')) (List.length (y :: b'))); rewrite vget_vmerge_loop; cbn [Nat.leb];
    rewrite Nat.sub_0_r; lia.
Qed.

Lemma vle_refl : forall c, vle c c.
Proof. intros c k. lia. Qed.

Lemma vle_trans : forall a b c, vle a b -> vle b c -> vle a c.
Proof. intros a b c H1 H2 k. specialize (H1 k). specialize (H2 k). lia. Qed.

Lemma vle_merge_l : forall a b, vle a (vmerge a b).
Proof. intros a b k. rewrite vget_vmerge. lia. Qed.

Lemma vle_merge_r : forall a b, vle b (vmerge a b).
Proof. intros a b k. rewrite vget_vmerge. lia. Qed.

Lemma vle_merge_lub : forall a b c, vle a c -> vle b c -> vle (vmerge a b) c.
Proof. intros a b c H1 H2 k. rewrite vget_vmerge. specialize (H1 k). specialize (H2 k). lia. Qed.

Lemma vle_merge_mono_l : forall a b c, vle a b -> vle a (vmerge b c).
Proof. intros. eapply vle_trans; [eassumption|apply vle_merge_l]. Qed.

Lemma vle_merge_mono_r : forall a b c, vle a c -> vle a (vmerge b c).
Proof. intros. eapply vle_trans; [eassumption|apply vle_merge_r]. Qed.

Lemma vle_vinc : forall k c, vle c (vinc k c).
Proof. intros k c j. rewrite vget_vinc. destruct (Nat.eqb_spec j k); subst; lia. Qed.

Lemma vle_nil : forall c, vle [] c.
Proof. intros c k. rewrite vget_nil. lia. Qed.

Lemma vleb_vle : forall n a b, vle a b -> vleb n a b = true.
Proof.
  intros n a b H. unfold vleb. apply forallb_forall. intros k _. apply Nat.leb_le. apply H.
Qed.
