(* C18 — replaying the committed writes of a log reproduces every logged read of archetype-local state,
   and every logged write of local state carries the value it overwrote as its hint *)
From PGV Require Import C18.Model C18.ProofsFrame C18.ProofsLog.
From Coq Require Import Lia.

(* stores are compared pointwise *)
Definition seq_ (s t : rstore) : Prop := fst s = fst t /\ forall k, snd s k = snd t k.
Definition req (x y : rstore * bool) : Prop := seq_ (fst x) (fst y) /\ snd x = snd y.

Lemma seq_refl : forall s, seq_ s s. Proof. intros; split; auto. Qed.
Lemma seq_sym : forall s t, seq_ s t -> seq_ t s. Proof. intros s t [H1 H2]; split; auto. Qed.
Lemma seq_trans : forall s t u, seq_ s t -> seq_ t u -> seq_ s u.
Proof. intros s t u [H1 H2] [H3 H4]; split; [congruence|intros; rewrite H2; apply H4]. Qed.
Lemma req_refl : forall x, req x x. Proof. intros; split; [apply seq_refl|reflexivity]. Qed.
Lemma req_sym : forall x y, req x y -> req y x. Proof. intros x y [H1 H2]; split; [apply seq_sym; assumption|auto]. Qed.
Lemma req_trans : forall x y z, req x y -> req y z -> req x z.
Proof. intros x y z [H1 H2] [H3 H4]; split; [eapply seq_trans; eassumption|congruence]. Qed.

Lemma replay_elem_req : forall x y e, req x y -> req (replay_elem x e) (replay_elem y e).
Proof.
  intros [[pc loc] ok] [[pc' loc'] ok'] e [[H1 H2] H3]. cbn in H1, H2, H3. subst pc' ok'.
  unfold replay_elem.
  destruct e as [n idx v|n idx v h]; destruct n; try (repeat split; cbn; auto; fail).
  - rewrite <- H2. repeat split; cbn; auto.
  - destruct v; [|repeat split; cbn; auto].
    destruct h; [|repeat split; cbn; auto].
    destruct (cell_set idx z pc); repeat split; cbn; auto.
  - destruct v; [|repeat split; cbn; auto].
    destruct h; [|repeat split; cbn; auto].
    rewrite <- H2. destruct (cell_set idx z (loc k)); repeat split; cbn; auto.
    intros j. unfold upd. destruct (Nat.eqb j k); auto.
Qed.

Lemma fold_replay_elem_req : forall es x y, req x y -> req (fold_left replay_elem es x) (fold_left replay_elem es y).
Proof.
  induction es as [|e es IH]; intros x y H; cbn; [exact H|]. apply IH. apply replay_elem_req. exact H.
Qed.

Lemma replay_event_req : forall x y e, req x y -> req (replay_event x e) (replay_event y e).
Proof.
  intros [s ok] [s' ok'] e [H1 H2]. cbn in H1, H2. subst ok'. unfold replay_event.
  pose proof (fold_replay_elem_req (e_elems e) (s, true) (s', true)) as F.
  destruct (fold_left replay_elem (e_elems e) (s, true)) as [t b].
  destruct (fold_left replay_elem (e_elems e) (s', true)) as [t' b'].
  destruct F as [F1 F2]; [split; [exact H1|reflexivity]|]. cbn in F1, F2. subst b'.
  destruct (e_abort e); split; cbn; auto.
Qed.

Lemma fold_replay_event_req : forall es x y, req x y -> req (fold_left replay_event es x) (fold_left replay_event es y).
Proof.
  induction es as [|e es IH]; intros x y H; cbn; [exact H|]. apply IH. apply replay_event_req. exact H.
Qed.

Lemma zz_eqb_refl : forall m, zz_eqb m m = true.
Proof. induction m as [|[a b] m IH]; cbn; [reflexivity|]. rewrite !Z.eqb_refl, IH. reflexivity. Qed.

Lemma val_eqb_refl : forall v, val_eqb v v = true.
Proof. destruct v; cbn; [apply Z.eqb_refl|apply zz_eqb_refl]. Qed.

(* committed and current local state of an archetype *)
Definition committed (A : arch) : rstore := (l_old (a_pc A), fun k => l_old (a_loc A k)).
Definition current (A : arch) : rstore := (l_val (a_pc A), fun k => l_val (a_loc A k)).

Record RInv (s0 : rstore) (A : arch) : Prop := mkRInv {
  ri_log : req (replay_log s0 (a_log A)) (committed A, true);
  ri_cur : req (fold_left replay_elem (a_elems A) (committed A, true)) (current A, true);
  ri_pc : ~ In NPc (a_dirty A) -> l_val (a_pc A) = l_old (a_pc A);
  ri_loc : forall k, ~ In (NLoc k) (a_dirty A) -> l_val (a_loc A k) = l_old (a_loc A k) }.

(* sameness of the local values of two archetype states *)
Definition same_vals (A B : arch) : Prop :=
  l_val (a_pc A) = l_val (a_pc B) /\ l_old (a_pc A) = l_old (a_pc B) /\
  forall k, l_val (a_loc A k) = l_val (a_loc B k) /\ l_old (a_loc A k) = l_old (a_loc B k).

Lemma same_vals_refl : forall A, same_vals A A.
Proof. intros; repeat split; reflexivity. Qed.

Lemma same_vals_trans : forall A B C, same_vals A B -> same_vals B C -> same_vals A C.
Proof.
  intros A B C (H1 & H2 & H3) (G1 & G2 & G3). repeat split; try congruence.
  - destruct (H3 k), (G3 k); congruence.
  - destruct (H3 k), (G3 k); congruence.
Qed.

Lemma same_vals_committed : forall A B, same_vals A B -> seq_ (committed A) (committed B).
Proof. intros A B (H1 & H2 & H3). split; cbn; [assumption|intros k; apply H3]. Qed.

Lemma same_vals_current : forall A B, same_vals A B -> seq_ (current A) (current B).
Proof. intros A B (H1 & H2 & H3). split; cbn; [assumption|intros k; apply H3]. Qed.

(* ---------------------------------------------------------------- effect of the primitives on local values *)

Lemma same_vals_fields : forall A B, a_pc A = a_pc B -> a_loc A = a_loc B -> same_vals A B.
Proof. intros A B H1 H2. unfold same_vals. rewrite H1, H2. repeat split; reflexivity. Qed.

Lemma mark_dirty_vals : forall r A, same_vals (mark_dirty r A) A.
Proof. intros. destruct (mark_dirty_trc r A) as (_ & _ & _ & _ & _ & P1 & P2 & _). apply same_vals_fields; assumption. Qed.

Lemma res_read_vals : forall st a r idx tmo, same_vals (g_arch (rd_state (res_read st a r idx tmo)) a) (g_arch st a).
Proof. intros. destruct (res_read_local st a r idx tmo) as (H1 & H2 & H3). repeat split; try assumption; apply H3. Qed.

Lemma do_read_vals : forall st a r idx tmo, same_vals (g_arch (rr_state (do_read st a r idx tmo)) a) (g_arch st a).
Proof.
  intros st a r idx tmo.
  pose proof (do_read_inv st a r idx tmo) as H. cbn zeta in H.
  set (st0 := set_arch st a (mark_dirty r (g_arch st a))) in *.
  pose proof (res_read_vals st0 a r idx tmo) as V.
  assert (V0 : same_vals (g_arch st0 a) (g_arch st a)) by (unfold st0; rewrite g_arch_set_same; apply mark_dirty_vals).
  destruct (do_read st a r idx tmo) as [st' v|st'|st']; cbn [rr_state].
  - destruct H as (st1 & clk & k & t & E & ->). rewrite E in V. cbn [rd_state] in V. rewrite g_arch_set_same.
    eapply same_vals_trans; [|eapply same_vals_trans; [exact V|exact V0]].
    unfold fin_read, note_last, rec_read. destruct v; apply same_vals_fields; reflexivity.
  - rewrite H in V. eapply same_vals_trans; [exact V|exact V0].
  - rewrite H in V. eapply same_vals_trans; [exact V|exact V0].
Qed.

Lemma do_read_value : forall st a r idx tmo st' v,
  do_read st a r idx tmo = RROk st' v ->
  match r with
  | NPc => cell_get idx (l_val (a_pc (g_arch st a))) = Some v
  | NLoc j => cell_get idx (l_val (a_loc (g_arch st a) j)) = Some v
  | _ => True
  end.
Proof.
  intros st a r idx tmo st' v E.
  pose proof (do_read_inv st a r idx tmo) as H. cbn zeta in H. rewrite E in H.
  destruct H as (st1 & clk & k & t & E1 & _).
  destruct (mark_dirty_trc r (g_arch st a)) as (_ & _ & _ & _ & _ & P1 & P2 & _).
  destruct r; try exact I.
  - apply res_read_pc_value in E1. rewrite g_arch_set_same in E1. rewrite P1 in E1. exact E1.
  - apply res_read_loc_value in E1. rewrite g_arch_set_same in E1. rewrite P2 in E1. exact E1.
Qed.

(* a write through the interface, seen on the local values *)
Definition write_vals (r : rname) (idx : list Z) (z : Z) (A A' : arch) : Prop :=
  match r with
  | NPc => l_old (a_pc A') = l_old (a_pc A) /\ cell_set idx z (l_val (a_pc A)) = Some (l_val (a_pc A')) /\
           (exists old, cell_get idx (l_val (a_pc A)) = Some old) /\
           forall k, l_val (a_loc A' k) = l_val (a_loc A k) /\ l_old (a_loc A' k) = l_old (a_loc A k)
  | NLoc j => l_val (a_pc A') = l_val (a_pc A) /\ l_old (a_pc A') = l_old (a_pc A) /\
              l_old (a_loc A' j) = l_old (a_loc A j) /\ cell_set idx z (l_val (a_loc A j)) = Some (l_val (a_loc A' j)) /\
              (exists old, cell_get idx (l_val (a_loc A j)) = Some old) /\
              forall k, k <> j -> l_val (a_loc A' k) = l_val (a_loc A k) /\ l_old (a_loc A' k) = l_old (a_loc A k)
  | _ => same_vals A' A
  end.

Lemma res_write_vals : forall st a r idx z w t tmo,
  match res_write st a r idx z w t tmo with
  | WrOk st1 _ => write_vals r idx z (g_arch st a) (g_arch st1 a)
  | WrAbort st1 | WrCrash st1 => same_vals (g_arch st1 a) (g_arch st a)
  end.
Proof.
  intros st a r idx z w t tmo. unfold res_write.
  destruct r; des; lres_inv; cbn -[upd]; try rewrite upd_same; try apply same_vals_refl;
    try (apply same_vals_fields; reflexivity).
  - repeat split; cbn; eauto.
  - cbn. rewrite upd_same. cbn. repeat split; eauto; rewrite upd_other by assumption; reflexivity.
Qed.

Lemma write_vals_pre : forall r idx z A B A', same_vals A B -> write_vals r idx z A A' -> write_vals r idx z B A'.
Proof.
  intros r idx z A B A' (S1 & S2 & S3) W. destruct r; cbn in *.
  - destruct W as (W1 & W2 & W3 & W4). rewrite <- S1, <- S2. repeat split; try assumption; destruct (W4 k), (S3 k); congruence.
  - destruct W as (W1 & W2 & W3 & W4 & W5 & W6). destruct (S3 k) as (Sa & Sb). rewrite <- S1, <- S2, <- Sa, <- Sb.
    repeat split; try assumption; destruct (W6 k0 H), (S3 k0); congruence.
  - eapply same_vals_trans; [exact W|repeat split; try assumption; apply S3].
  - eapply same_vals_trans; [exact W|repeat split; try assumption; apply S3].
  - eapply same_vals_trans; [exact W|repeat split; try assumption; apply S3].
  - eapply same_vals_trans; [exact W|repeat split; try assumption; apply S3].
Qed.

Lemma write_vals_post : forall r idx z A A' B', a_pc B' = a_pc A' -> a_loc B' = a_loc A' -> write_vals r idx z A A' -> write_vals r idx z A B'.
Proof. intros r idx z A A' B' H1 H2 W. unfold write_vals in *. rewrite H1, H2. exact W. Qed.

Lemma do_write_vals : forall st a r idx z tmo,
  match do_write st a r idx z tmo with
  | WROk st' => write_vals r idx z (g_arch st a) (g_arch st' a)
  | WRAbort st' | WRCrash st' => same_vals (g_arch st' a) (g_arch st a)
  end.
Proof.
  intros st a r idx z tmo.
  pose proof (do_write_inv st a r idx z tmo) as H. cbn zeta in H.
  set (st0 := set_arch st a (mark_dirty r (g_arch st a))) in *.
  pose proof (res_write_vals st0 a r idx z (a_sink (g_arch st0 a)) (a, a_att (g_arch st0 a)) tmo) as V.
  assert (V0 : same_vals (g_arch st0 a) (g_arch st a)) by (unfold st0; rewrite g_arch_set_same; apply mark_dirty_vals).
  destruct (do_write st a r idx z tmo) as [st'|st'|st'].
  - destruct H as (st1 & h & E & ->). rewrite E in V. rewrite g_arch_set_same.
    eapply write_vals_post; [| |eapply write_vals_pre; [exact V0|exact V]]; reflexivity.
  - rewrite H in V. eapply same_vals_trans; [exact V|exact V0].
  - rewrite H in V. eapply same_vals_trans; [exact V|exact V0].
Qed.
