(* C18 — replaying the committed writes of a log reproduces every logged read of archetype-local state,
   and every logged write of local state carries the value it overwrote as its hint *)
From PGV Require Import C18.Model C18.ProofsFrame C18.ProofsLog.
From Coq Require Import Lia.

(* stores are compared pointwise *)
Definition seq_ (s t : rstore) : Prop := fst s = fst t /\ forall k, snd s k = snd t k.
Definition req (x y : rstore * bool) : Prop := seq_ (fst x) (fst y) /\ snd x = snd y.

Lemma seq_refl : forall s, seq_ s s. Proof. intros; split; auto. Qed.
Lemma seq_sym : forall s t, seq_ s t -> seq_ t s. Proof. intros s t [H1 H2]; split; auto. Qed.
Lemma seq_trans : forall s t u, seq_ s t -> seq_ t u -> seq_ s u.
Proof. intros s t u [H1 H2] [H3 H4]; split; [congruence|intros; rewrite H2; apply H4]. Qed.
Lemma req_refl : forall x, req x x. Proof. intros; split; [apply seq_refl|reflexivity]. Qed.
Lemma req_sym : forall x y, req x y -> req y x. Proof. intros x y [H1 H2]; split; [apply seq_sym; assumption|auto]. Qed.
Lemma req_trans : forall x y z, req x y -> req y z -> req x z.
Proof. intros x y z [H1 H2] [H3 H4]; split; [eapply seq_trans; eassumption|congruence]. Qed.

Lemma replay_elem_req : forall x y e, req x y -> req (replay_elem x e) (replay_elem y e).
Proof.
  intros [[pc loc] ok] [[pc' loc'] ok'] e [[H1 H2] H3]. cbn in H1, H2, H3. subst pc' ok'.
  unfold replay_elem.
  destruct e as [n idx v|n idx v h]; destruct n; try (repeat split; cbn; auto; fail).
  - rewrite <- H2. repeat split; cbn; auto.
  - destruct v; [|repeat split; cbn; auto].
    destruct h; [|repeat split; cbn; auto].
    destruct (cell_set idx z pc); repeat split; cbn; auto.
  - destruct v; [|repeat split; cbn; auto].
    destruct h; [|repeat split; cbn; auto].
    rewrite <- H2. destruct (cell_set idx z (loc k)); repeat split; cbn; auto.
    intros j. unfold upd. destruct (Nat.eqb j k); auto.
Qed.

Lemma fold_replay_elem_req : forall es x y, req x y -> req (fold_left replay_elem es x) (fold_left replay_elem es y).
Proof.
  induction es as [|e es IH]; intros x y H; cbn; [exact H|]. apply IH. apply replay_elem_req. exact H.
Qed.

Lemma replay_event_req : forall x y e, req x y -> req (replay_event x e) (replay_event y e).
Proof.
  intros [s ok] [s' ok'] e [H1 H2]. cbn in H1, H2. subst ok'. unfold replay_event.
  pose proof (fold_replay_elem_req (e_elems e) (s, true) (s', true)) as F.
  destruct (fold_left replay_elem (e_elems e) (s, true)) as [t b].
  destruct (fold_left replay_elem (e_elems e) (s', true)) as [t' b'].
  destruct F as [F1 F2]; [split; [exact H1|reflexivity]|]. cbn in F1, F2. subst b'.
  destruct (e_abort e); split; cbn; auto.
Qed.

Lemma fold_replay_event_req : forall es x y, req x y -> req (fold_left replay_event es x) (fold_left replay_event es y).
Proof.
  induction es as [|e es IH]; intros x y H; cbn; [exact H|]. apply IH. apply replay_event_req. exact H.
Qed.

Lemma zz_eqb_refl : forall m, zz_eqb m m = true.
Proof. induction m as [|[a b] m IH]; cbn; [reflexivity|]. rewrite !Z.eqb_refl, IH. reflexivity. Qed.

Lemma val_eqb_refl : forall v, val_eqb v v = true.
Proof. destruct v; cbn; [apply Z.eqb_refl|apply zz_eqb_refl]. Qed.

(* committed and current local state of an archetype *)
Definition committed (A : arch) : rstore := (l_old (a_pc A), fun k => l_old (a_loc A k)).
Definition current (A : arch) : rstore := (l_val (a_pc A), fun k => l_val (a_loc A k)).

Record RInv (s0 : rstore) (A : arch) : Prop := mkRInv {
  ri_log : req (replay_log s0 (a_log A)) (committed A, true);
  ri_cur : req (fold_left replay_elem (a_elems A) (committed A, true)) (current A, true);
  ri_pc : ~ In NPc (a_dirty A) -> l_val (a_pc A) = l_old (a_pc A);
  ri_loc : forall k, ~ In (NLoc k) (a_dirty A) -> l_val (a_loc A k) = l_old (a_loc A k) }.

(* sameness of the local values of two archetype states *)
Definition same_vals (A B : arch) : Prop :=
  l_val (a_pc A) = l_val (a_pc B) /\ l_old (a_pc A) = l_old (a_pc B) /\
  forall k, l_val (a_loc A k) = l_val (a_loc B k) /\ l_old (a_loc A k) = l_old (a_loc B k).

Lemma same_vals_refl : forall A, same_vals A A.
Proof. intros; repeat split; reflexivity. Qed.

Lemma same_vals_trans : forall A B C, same_vals A B -> same_vals B C -> same_vals A C.
Proof.
  intros A B C (H1 & H2 & H3) (G1 & G2 & G3). repeat split; try congruence.
  - destruct (H3 k), (G3 k); congruence.
  - destruct (H3 k), (G3 k); congruence.
Qed.

Lemma same_vals_committed : forall A B, same_vals A B -> seq_ (committed A) (committed B).
Proof. intros A B (H1 & H2 & H3). split; cbn; [assumption|intros k; apply H3]. Qed.

Lemma same_vals_current : forall A B, same_vals A B -> seq_ (current A) (current B).
Proof. intros A B (H1 & H2 & H3). split; cbn; [assumption|intros k; apply H3]. Qed.

(* ---------------------------------------------------------------- effect of the primitives on local values *)

Lemma same_vals_fields : forall A B, a_pc A = a_pc B -> a_loc A = a_loc B -> same_vals A B.
Proof. intros A B H1 H2. unfold same_vals. rewrite H1, H2. repeat split; reflexivity. Qed.

Lemma mark_dirty_vals : forall r A, same_vals (mark_dirty r A) A.
Proof. intros. destruct (mark_dirty_trc r A) as (_ & _ & _ & _ & _ & P1 & P2 & _). apply same_vals_fields; assumption. Qed.

Lemma res_read_vals : forall st a r idx tmo, same_vals (g_arch (rd_state (res_read st a r idx tmo)) a) (g_arch st a).
Proof. intros. destruct (res_read_local st a r idx tmo) as (H1 & H2 & H3). repeat split; try assumption; apply H3. Qed.

Lemma do_read_vals : forall st a r idx tmo, same_vals (g_arch (rr_state (do_read st a r idx tmo)) a) (g_arch st a).
Proof.
  intros st a r idx tmo.
  pose proof (do_read_inv st a r idx tmo) as H. cbn zeta in H.
  set (st0 := set_arch st a (mark_dirty r (g_arch st a))) in *.
  pose proof (res_read_vals st0 a r idx tmo) as V.
  assert (V0 : same_vals (g_arch st0 a) (g_arch st a)) by (unfold st0; rewrite g_arch_set_same; apply mark_dirty_vals).
  destruct (do_read st a r idx tmo) as [st' v|st'|st']; cbn [rr_state].
  - destruct H as (st1 & clk & k & t & E & ->). rewrite E in V. cbn [rd_state] in V. rewrite g_arch_set_same.
    eapply same_vals_trans; [|eapply same_vals_trans; [exact V|exact V0]].
    unfold fin_read, note_last, rec_read. destruct v; apply same_vals_fields; reflexivity.
  - rewrite H in V. eapply same_vals_trans; [exact V|exact V0].
  - rewrite H in V. eapply same_vals_trans; [exact V|exact V0].
Qed.

Lemma do_read_value : forall st a r idx tmo st' v,
  do_read st a r idx tmo = RROk st' v ->
  match r with
  | NPc => cell_get idx (l_val (a_pc (g_arch st a))) = Some v
  | NLoc j => cell_get idx (l_val (a_loc (g_arch st a) j)) = Some v
  | _ => True
  end.
Proof.
  intros st a r idx tmo st' v E.
  pose proof (do_read_inv st a r idx tmo) as H. cbn zeta in H. rewrite E in H.
  destruct H as (st1 & clk & k & t & E1 & _).
  destruct (mark_dirty_trc r (g_arch st a)) as (_ & _ & _ & _ & _ & P1 & P2 & _).
  destruct r; try exact I.
  - apply res_read_pc_value in E1. rewrite g_arch_set_same in E1. rewrite P1 in E1. exact E1.
  - apply res_read_loc_value in E1. rewrite g_arch_set_same in E1. rewrite P2 in E1. exact E1.
Qed.

(* a write through the interface, seen on the local values *)
Definition write_vals (r : rname) (idx : list Z) (z : Z) (A A' : arch) : Prop :=
  match r with
  | NPc => l_old (a_pc A') = l_old (a_pc A) /\ cell_set idx z (l_val (a_pc A)) = Some (l_val (a_pc A')) /\
           (exists old, cell_get idx (l_val (a_pc A)) = Some old) /\
           forall k, l_val (a_loc A' k) = l_val (a_loc A k) /\ l_old (a_loc A' k) = l_old (a_loc A k)
  | NLoc j => l_val (a_pc A') = l_val (a_pc A) /\ l_old (a_pc A') = l_old (a_pc A) /\
              l_old (a_loc A' j) = l_old (a_loc A j) /\ cell_set idx z (l_val (a_loc A j)) = Some (l_val (a_loc A' j)) /\
              (exists old, cell_get idx (l_val (a_loc A j)) = Some old) /\
              forall k, k <> j -> l_val (a_loc A' k) = l_val (a_loc A k) /\ l_old (a_loc A' k) = l_old (a_loc A k)
  | _ => same_vals A' A
  end.

Lemma res_write_vals : forall st a r idx z w t tmo,
  match res_write st a r idx z w t tmo with
  | WrOk st1 _ => write_vals r idx z (g_arch st a) (g_arch st1 a)
  | WrAbort st1 | WrCrash st1 => same_vals (g_arch st1 a) (g_arch st a)
  end.
Proof.
  intros st a r idx z w t tmo. unfold res_write.
  destruct r.
  - destruct (lres_write idx z w t (a_pc (g_arch st a))) as [[[r' w'] old]|] eqn:E; [|apply same_vals_refl].
    lres_inv. cbn -[upd]. rewrite upd_same. cbn. repeat split; eauto.
  - destruct (lres_write idx z w t (a_loc (g_arch st a) k)) as [[[r' w'] old]|] eqn:E; [|apply same_vals_refl].
    lres_inv. cbn -[upd]. rewrite upd_same. cbn -[upd]. rewrite upd_same. cbn -[upd].
    repeat split; eauto; rewrite upd_other by assumption; reflexivity.
  - destruct (lock_busy (g_shr st j) a || lock_tmo (g_shr st j) tmo); [apply same_vals_refl|].
    destruct (lres_write idx z w t (s_res (g_shr st j))) as [[[r' w'] old]|]; cbn -[upd]; try rewrite upd_same;
      apply same_vals_fields; reflexivity.
  - apply same_vals_refl.
  - destruct idx; cbn -[upd]; try rewrite upd_same; try apply same_vals_refl; apply same_vals_fields; reflexivity.
  - destruct (g_own st m =? a); [apply same_vals_refl|].
    destruct idx; [destruct tmo|]; cbn -[upd]; try rewrite upd_same; try apply same_vals_refl; apply same_vals_fields; reflexivity.
Qed.

Lemma write_vals_pre : forall r idx z A B A', same_vals A B -> write_vals r idx z A A' -> write_vals r idx z B A'.
Proof.
  intros r idx z A B A' (S1 & S2 & S3) W. destruct r; cbn in *.
  - destruct W as (W1 & W2 & W3 & W4). rewrite <- S1, <- S2. repeat split; try assumption; destruct (W4 k), (S3 k); congruence.
  - destruct W as (W1 & W2 & W3 & W4 & W5 & W6). destruct (S3 k) as (Sa & Sb). rewrite <- S1, <- S2, <- Sa, <- Sb.
    repeat split; try assumption; destruct (W6 k0 H), (S3 k0); congruence.
  - eapply same_vals_trans; [exact W|repeat split; try assumption; apply S3].
  - eapply same_vals_trans; [exact W|repeat split; try assumption; apply S3].
  - eapply same_vals_trans; [exact W|repeat split; try assumption; apply S3].
  - eapply same_vals_trans; [exact W|repeat split; try assumption; apply S3].
Qed.

Lemma write_vals_post : forall r idx z A A' B', a_pc B' = a_pc A' -> a_loc B' = a_loc A' -> write_vals r idx z A A' -> write_vals r idx z A B'.
Proof. intros r idx z A A' B' H1 H2 W. unfold write_vals, same_vals in *. rewrite H1, H2. exact W. Qed.

Lemma do_write_vals : forall st a r idx z tmo,
  match do_write st a r idx z tmo with
  | WROk st' => write_vals r idx z (g_arch st a) (g_arch st' a)
  | WRAbort st' | WRCrash st' => same_vals (g_arch st' a) (g_arch st a)
  end.
Proof.
  intros st a r idx z tmo.
  pose proof (do_write_inv st a r idx z tmo) as H. cbn zeta in H.
  set (st0 := set_arch st a (mark_dirty r (g_arch st a))) in *.
  pose proof (res_write_vals st0 a r idx z (a_sink (g_arch st0 a)) (a, a_att (g_arch st0 a)) tmo) as V.
  assert (V0 : same_vals (g_arch st0 a) (g_arch st a)) by (unfold st0; rewrite g_arch_set_same; apply mark_dirty_vals).
  destruct (do_write st a r idx z tmo) as [st'|st'|st'].
  - destruct H as (st1 & h & E & ->). rewrite E in V. rewrite g_arch_set_same.
    eapply write_vals_post; [| |eapply write_vals_pre; [exact V0|exact V]]; reflexivity.
  - rewrite H in V. eapply same_vals_trans; [exact V|exact V0].
  - rewrite H in V. eapply same_vals_trans; [exact V|exact V0].
Qed.

(* ---------------------------------------------------------------- commit / abort of the dirty resources *)

Lemma commit_res_vals : forall a st n,
  let A := g_arch st a in let A' := g_arch (commit_res a st n) a in
  l_val (a_pc A') = l_val (a_pc A) /\ l_old (a_pc A') = (if rname_eqb n NPc then l_val (a_pc A) else l_old (a_pc A)) /\
  forall k, l_val (a_loc A' k) = l_val (a_loc A k) /\
            l_old (a_loc A' k) = (if rname_eqb n (NLoc k) then l_val (a_loc A k) else l_old (a_loc A k)).
Proof.
  intros a st n. unfold commit_res.
  destruct n; cbn [rname_eqb]; des; cbn -[upd]; try rewrite upd_same; cbn -[upd]; repeat split; try reflexivity;
    try (apply Nat.eqb_eq in Heqb; subst; rewrite upd_same; reflexivity);
    try (apply Nat.eqb_neq in Heqb; rewrite upd_other by congruence; reflexivity);
    try (unfold upd; destruct (Nat.eqb_spec k0 k); subst; reflexivity);
    try (unfold upd; destruct (Nat.eqb_spec k0 k); subst; [rewrite Nat.eqb_refl; reflexivity|
         destruct (Nat.eqb_spec k k0); [congruence|reflexivity]]).
Qed.

Lemma abort_res_vals : forall a st n,
  let A := g_arch st a in let A' := g_arch (abort_res a st n) a in
  l_old (a_pc A') = l_old (a_pc A) /\ l_val (a_pc A') = (if rname_eqb n NPc then l_old (a_pc A) else l_val (a_pc A)) /\
  forall k, l_old (a_loc A' k) = l_old (a_loc A k) /\
            l_val (a_loc A' k) = (if rname_eqb n (NLoc k) then l_old (a_loc A k) else l_val (a_loc A k)).
Proof.
  intros a st n. unfold abort_res.
  destruct n; cbn [rname_eqb]; des; cbn -[upd]; try rewrite upd_same; cbn -[upd]; repeat split; try reflexivity;
    try (apply Nat.eqb_eq in Heqb; subst; rewrite upd_same; reflexivity);
    try (apply Nat.eqb_neq in Heqb; rewrite upd_other by congruence; reflexivity);
    try (unfold upd; destruct (Nat.eqb_spec k0 k); subst; reflexivity);
    try (unfold upd; destruct (Nat.eqb_spec k0 k); subst; [rewrite Nat.eqb_refl; reflexivity|
         destruct (Nat.eqb_spec k k0); [congruence|reflexivity]]).
Qed.

Lemma rname_eqb_false : forall x y, rname_eqb x y = false <-> x <> y.
Proof.
  intros x y. split.
  - intros H E. apply rname_eqb_eq in E. congruence.
  - intros H. destruct (rname_eqb x y) eqn:E; [apply rname_eqb_eq in E; contradiction|reflexivity].
Qed.

Lemma rname_eq_dec : forall x y : rname, {x = y} + {x <> y}.
Proof. decide equality; apply Nat.eq_dec. Qed.

Lemma commit_fold_vals : forall a l st,
  let A := g_arch st a in let A' := g_arch (fold_left (commit_res a) l st) a in
  l_val (a_pc A') = l_val (a_pc A) /\
  (In NPc l -> l_old (a_pc A') = l_val (a_pc A)) /\ (~ In NPc l -> l_old (a_pc A') = l_old (a_pc A)) /\
  forall k, l_val (a_loc A' k) = l_val (a_loc A k) /\
            (In (NLoc k) l -> l_old (a_loc A' k) = l_val (a_loc A k)) /\ (~ In (NLoc k) l -> l_old (a_loc A' k) = l_old (a_loc A k)).
Proof.
  intros a. induction l as [|n l IH]; intros st; cbn -[commit_res].
  - repeat split; try reflexivity; intros []. 
  - specialize (IH (commit_res a st n)). cbn zeta in IH. destruct IH as (I1 & I2 & I3 & I4).
    destruct (commit_res_vals a st n) as (C1 & C2 & C3).
    split; [congruence|]. split; [|split].
    + intros [->|Hin].
      * destruct (in_dec rname_eq_dec NPc l) as [Hi|Hn].
        -- rewrite I2 by assumption. assumption.
        -- rewrite I3 by assumption. rewrite C2. cbn. reflexivity.
      * rewrite I2 by assumption. assumption.
    + intros Hn. rewrite I3 by (intros H; apply Hn; right; assumption). rewrite C2.
      destruct (rname_eqb n NPc) eqn:E; [apply rname_eqb_eq in E; subst; exfalso; apply Hn; left; reflexivity|reflexivity].
    + intros k. destruct (I4 k) as (J1 & J2 & J3). destruct (C3 k) as (D1 & D2).
      split; [congruence|]. split.
      * intros [->|Hin].
        -- destruct (in_dec rname_eq_dec (NLoc k) l) as [Hi|Hn].
           ++ rewrite J2 by assumption. assumption.
           ++ rewrite J3 by assumption. rewrite D2. cbn. rewrite Nat.eqb_refl. reflexivity.
        -- rewrite J2 by assumption. assumption.
      * intros Hn. rewrite J3 by (intros H; apply Hn; right; assumption). rewrite D2.
        destruct (rname_eqb n (NLoc k)) eqn:E; [apply rname_eqb_eq in E; subst; exfalso; apply Hn; left; reflexivity|reflexivity].
Qed.

Lemma abort_fold_vals : forall a l st,
  let A := g_arch st a in let A' := g_arch (fold_left (abort_res a) l st) a in
  l_old (a_pc A') = l_old (a_pc A) /\
  (In NPc l -> l_val (a_pc A') = l_old (a_pc A)) /\ (~ In NPc l -> l_val (a_pc A') = l_val (a_pc A)) /\
  forall k, l_old (a_loc A' k) = l_old (a_loc A k) /\
            (In (NLoc k) l -> l_val (a_loc A' k) = l_old (a_loc A k)) /\ (~ In (NLoc k) l -> l_val (a_loc A' k) = l_val (a_loc A k)).
Proof.
  intros a. induction l as [|n l IH]; intros st; cbn -[abort_res].
  - repeat split; try reflexivity; intros [].
  - specialize (IH (abort_res a st n)). cbn zeta in IH. destruct IH as (I1 & I2 & I3 & I4).
    destruct (abort_res_vals a st n) as (C1 & C2 & C3).
    split; [congruence|]. split; [|split].
    + intros [->|Hin].
      * destruct (in_dec rname_eq_dec NPc l) as [Hi|Hn].
        -- rewrite I2 by assumption. assumption.
        -- rewrite I3 by assumption. rewrite C2. cbn. reflexivity.
      * rewrite I2 by assumption. assumption.
    + intros Hn. rewrite I3 by (intros H; apply Hn; right; assumption). rewrite C2.
      destruct (rname_eqb n NPc) eqn:E; [apply rname_eqb_eq in E; subst; exfalso; apply Hn; left; reflexivity|reflexivity].
    + intros k. destruct (I4 k) as (J1 & J2 & J3). destruct (C3 k) as (D1 & D2).
      split; [congruence|]. split.
      * intros [->|Hin].
        -- destruct (in_dec rname_eq_dec (NLoc k) l) as [Hi|Hn].
           ++ rewrite J2 by assumption. assumption.
           ++ rewrite J3 by assumption. rewrite D2. cbn. rewrite Nat.eqb_refl. reflexivity.
        -- rewrite J2 by assumption. assumption.
      * intros Hn. rewrite J3 by (intros H; apply Hn; right; assumption). rewrite D2.
        destruct (rname_eqb n (NLoc k)) eqn:E; [apply rname_eqb_eq in E; subst; exfalso; apply Hn; left; reflexivity|reflexivity].
Qed.

(* ---------------------------------------------------------------- RInv is kept *)

Lemma fold_left_snoc : forall X Y (f : X -> Y -> X) l y x, fold_left f (l ++ [y]) x = f (fold_left f l x) y.
Proof. intros. rewrite fold_left_app. reflexivity. Qed.

Lemma RInv_ext : forall s0 A B,
  a_log B = a_log A -> a_elems B = a_elems A -> a_dirty B = a_dirty A -> a_pc B = a_pc A -> a_loc B = a_loc A ->
  RInv s0 A -> RInv s0 B.
Proof.
  intros s0 A B H1 H2 H3 H4 H5 [I1 I2 I3 I4].
  constructor; unfold committed, current in *; rewrite ?H1, ?H2, ?H3, ?H4, ?H5; assumption.
Qed.

Lemma cur_fold : forall A A' es,
  seq_ (committed A') (committed A) ->
  req (fold_left replay_elem es (committed A, true)) (current A, true) ->
  req (fold_left replay_elem es (committed A', true)) (current A, true).
Proof.
  intros A A' es H1 H2. eapply req_trans; [|exact H2]. apply fold_replay_elem_req. split; [exact H1|reflexivity].
Qed.

(* a read *)
Lemma RInv_read : forall s0 st a r idx tmo,
  RInv s0 (g_arch st a) -> RInv s0 (g_arch (rr_state (do_read st a r idx tmo)) a).
Proof.
  intros s0 st a r idx tmo [I1 I2 I3 I4].
  pose proof (do_read_trace st a r idx tmo) as T. cbn zeta in T.
  pose proof (do_read_vals st a r idx tmo) as V.
  pose proof (do_read_value st a r idx tmo) as W.
  set (A := g_arch st a) in *.
  assert (Dm : forall n, ~ In n (a_dirty (mark_dirty r A)) -> ~ In n (a_dirty A)).
  { intros n Hn Hin. apply Hn. apply mark_dirty_in. right. assumption. }
  destruct (do_read st a r idx tmo) as [st' v|st'|st']; cbn [rr_state] in *.
  - destruct T as (Tc & Te & Td & _). specialize (W st' v eq_refl).
    apply ctl_split in Tc. destruct Tc as (_ & _ & _ & _ & _ & _ & _ & _ & Hlog).
    pose proof V as (V1 & V2 & V3).
    constructor.
    + rewrite Hlog. eapply req_trans; [exact I1|]. split; [apply seq_sym; apply same_vals_committed; exact V|reflexivity].
    + rewrite Te, fold_left_snoc.
      eapply req_trans; [apply replay_elem_req; apply (cur_fold _ _ _ (same_vals_committed _ _ V) I2)|].
      assert (G : req (replay_elem (current A, true) (ERead r idx v)) (current A, true)).
      { unfold replay_elem, current. destruct r; try apply req_refl.
        - rewrite W. cbn. rewrite val_eqb_refl. apply req_refl.
        - rewrite W. cbn. rewrite val_eqb_refl. apply req_refl. }
      eapply req_trans; [exact G|]. split; [apply seq_sym; apply same_vals_current; exact V|reflexivity].
    + rewrite Td. intros Hn. rewrite V1, V2. apply I3. apply Dm. assumption.
    + rewrite Td. intros k Hn. destruct (V3 k) as (Va & Vb). rewrite Va, Vb. apply I4. apply Dm. assumption.
  - destruct T as (Tc & Te & Td & _).
    apply ctl_split in Tc. destruct Tc as (_ & _ & _ & _ & _ & _ & _ & _ & Hlog).
    pose proof V as (V1 & V2 & V3).
    constructor.
    + rewrite Hlog. eapply req_trans; [exact I1|]. split; [apply seq_sym; apply same_vals_committed; exact V|reflexivity].
    + rewrite Te. eapply req_trans; [apply (cur_fold _ _ _ (same_vals_committed _ _ V) I2)|]. split; [apply seq_sym; apply same_vals_current; exact V|reflexivity].
    + rewrite Td. intros Hn. rewrite V1, V2. apply I3. apply Dm. assumption.
    + rewrite Td. intros k Hn. destruct (V3 k) as (Va & Vb). rewrite Va, Vb. apply I4. apply Dm. assumption.
  - destruct T as (Tc & Te & Td & _).
    apply ctl_split in Tc. destruct Tc as (_ & _ & _ & _ & _ & _ & _ & _ & Hlog).
    pose proof V as (V1 & V2 & V3).
    constructor.
    + rewrite Hlog. eapply req_trans; [exact I1|]. split; [apply seq_sym; apply same_vals_committed; exact V|reflexivity].
    + rewrite Te. eapply req_trans; [apply (cur_fold _ _ _ (same_vals_committed _ _ V) I2)|]. split; [apply seq_sym; apply same_vals_current; exact V|reflexivity].
    + rewrite Td. intros Hn. rewrite V1, V2. apply I3. apply Dm. assumption.
    + rewrite Td. intros k Hn. destruct (V3 k) as (Va & Vb). rewrite Va, Vb. apply I4. apply Dm. assumption.
Qed.

(* a write *)
Lemma RInv_write : forall s0 st a r idx z tmo,
  RInv s0 (g_arch st a) -> RInv s0 (g_arch (wr2_state (do_write st a r idx z tmo)) a).
Proof.
  intros s0 st a r idx z tmo [I1 I2 I3 I4].
  pose proof (do_write_trace st a r idx z tmo) as T. cbn zeta in T.
  pose proof (do_write_vals st a r idx z tmo) as V.
  set (A := g_arch st a) in *.
  assert (Dm : forall n, ~ In n (a_dirty (mark_dirty r A)) -> n <> r /\ ~ In n (a_dirty A)).
  { intros n Hn. split; [intros ->|intros Hin]; apply Hn; apply mark_dirty_in; [left; reflexivity|right; assumption]. }
  destruct (do_write st a r idx z tmo) as [st'|st'|st']; cbn [wr2_state] in *.
  - destruct T as (Tc & Te & Td & _).
    apply ctl_split in Tc. destruct Tc as (_ & _ & _ & _ & _ & _ & _ & _ & Hlog).
    set (A' := g_arch st' a) in *.
    destruct r; cbn [write_vals] in V.
    + (* .pc *)
      destruct V as (W1 & W2 & (old & W3) & W4).
      constructor.
      * rewrite Hlog. eapply req_trans; [exact I1|]. split; [|reflexivity]. split; cbn; [congruence|intros k; destruct (W4 k); congruence].
      * rewrite Te, fold_left_snoc.
        assert (Ec : req (fold_left replay_elem (a_elems A) (committed A', true)) (current A, true)).
        { apply cur_fold; [|exact I2]. split; cbn; [congruence|intros k; destruct (W4 k); congruence]. }
        eapply req_trans; [apply replay_elem_req; exact Ec|].
        unfold replay_elem, current, overwritten. fold A. rewrite W3, W2. cbn. rewrite val_eqb_refl.
        split; [|reflexivity]. split; cbn; [reflexivity|intros k; destruct (W4 k); congruence].
      * rewrite Td. intros Hn. exfalso. apply Hn. apply mark_dirty_in. left. reflexivity.
      * rewrite Td. intros k Hn. destruct (Dm _ Hn) as (_ & Hk). destruct (W4 k) as (Wa & Wb). rewrite Wa, Wb. apply I4. assumption.
    + (* a local variable *)
      destruct V as (W1 & W2 & W3 & W4 & (old & W5) & W6).
      assert (Cm : seq_ (committed A) (committed A')).
      { split; cbn; [congruence|]. intros j. destruct (Nat.eq_dec j k) as [->|Hne]; [congruence|]. destruct (W6 j Hne); congruence. }
      constructor.
      * rewrite Hlog. eapply req_trans; [exact I1|]. split; [exact Cm|reflexivity].
      * rewrite Te, fold_left_snoc.
        assert (Ec : req (fold_left replay_elem (a_elems A) (committed A', true)) (current A, true)).
        { apply cur_fold; [apply seq_sym; exact Cm|exact I2]. }
        eapply req_trans; [apply replay_elem_req; exact Ec|].
        unfold replay_elem, current, overwritten. fold A. rewrite W5, W4. cbn. rewrite val_eqb_refl.
        split; [|reflexivity]. split; cbn; [congruence|].
        intros j. unfold upd. destruct (Nat.eqb_spec j k) as [->|Hne]; [reflexivity|]. destruct (W6 j Hne); congruence.
      * rewrite Td. intros Hn. destruct (Dm _ Hn) as (_ & Hk). rewrite W1, W2. apply I3. assumption.
      * rewrite Td. intros j Hn. destruct (Dm _ Hn) as (Hj & Hk).
        assert (j <> k) by congruence. destruct (W6 j H) as (Wa & Wb). rewrite Wa, Wb. apply I4. assumption.
    + pose proof V as (V1 & V2 & V3). constructor.
      * rewrite Hlog. eapply req_trans; [exact I1|]. split; [apply seq_sym; apply same_vals_committed; exact V|reflexivity].
      * rewrite Te, fold_left_snoc. cbn [replay_elem].
        eapply req_trans; [apply replay_elem_req; apply (cur_fold _ _ _ (same_vals_committed _ _ V) I2)|].
        unfold replay_elem, current. split; [apply seq_sym; apply same_vals_current; exact V|reflexivity].
      * rewrite Td. intros Hn. destruct (Dm _ Hn) as (_ & Hk). rewrite V1, V2. apply I3. assumption.
      * rewrite Td. intros k Hn. destruct (Dm _ Hn) as (_ & Hk). destruct (V3 k) as (Va & Vb). rewrite Va, Vb. apply I4. assumption.
    + pose proof V as (V1 & V2 & V3). constructor.
      * rewrite Hlog. eapply req_trans; [exact I1|]. split; [apply seq_sym; apply same_vals_committed; exact V|reflexivity].
      * rewrite Te, fold_left_snoc. cbn [replay_elem].
        eapply req_trans; [apply replay_elem_req; apply (cur_fold _ _ _ (same_vals_committed _ _ V) I2)|].
        unfold replay_elem, current. split; [apply seq_sym; apply same_vals_current; exact V|reflexivity].
      * rewrite Td. intros Hn. destruct (Dm _ Hn) as (_ & Hk). rewrite V1, V2. apply I3. assumption.
      * rewrite Td. intros k Hn. destruct (Dm _ Hn) as (_ & Hk). destruct (V3 k) as (Va & Vb). rewrite Va, Vb. apply I4. assumption.
    + pose proof V as (V1 & V2 & V3). constructor.
      * rewrite Hlog. eapply req_trans; [exact I1|]. split; [apply seq_sym; apply same_vals_committed; exact V|reflexivity].
      * rewrite Te, fold_left_snoc. cbn [replay_elem].
        eapply req_trans; [apply replay_elem_req; apply (cur_fold _ _ _ (same_vals_committed _ _ V) I2)|].
        unfold replay_elem, current. split; [apply seq_sym; apply same_vals_current; exact V|reflexivity].
      * rewrite Td. intros Hn. destruct (Dm _ Hn) as (_ & Hk). rewrite V1, V2. apply I3. assumption.
      * rewrite Td. intros k Hn. destruct (Dm _ Hn) as (_ & Hk). destruct (V3 k) as (Va & Vb). rewrite Va, Vb. apply I4. assumption.
    + pose proof V as (V1 & V2 & V3). constructor.
      * rewrite Hlog. eapply req_trans; [exact I1|]. split; [apply seq_sym; apply same_vals_committed; exact V|reflexivity].
      * rewrite Te, fold_left_snoc. cbn [replay_elem].
        eapply req_trans; [apply replay_elem_req; apply (cur_fold _ _ _ (same_vals_committed _ _ V) I2)|].
        unfold replay_elem, current. split; [apply seq_sym; apply same_vals_current; exact V|reflexivity].
      * rewrite Td. intros Hn. destruct (Dm _ Hn) as (_ & Hk). rewrite V1, V2. apply I3. assumption.
      * rewrite Td. intros k Hn. destruct (Dm _ Hn) as (_ & Hk). destruct (V3 k) as (Va & Vb). rewrite Va, Vb. apply I4. assumption.
  - destruct T as (Tc & Te & Td & _).
    apply ctl_split in Tc. destruct Tc as (_ & _ & _ & _ & _ & _ & _ & _ & Hlog).
    pose proof V as (V1 & V2 & V3).
    constructor.
    + rewrite Hlog. eapply req_trans; [exact I1|]. split; [apply seq_sym; apply same_vals_committed; exact V|reflexivity].
    + rewrite Te. eapply req_trans; [apply (cur_fold _ _ _ (same_vals_committed _ _ V) I2)|]. split; [apply seq_sym; apply same_vals_current; exact V|reflexivity].
    + rewrite Td. intros Hn. destruct (Dm _ Hn) as (_ & Hk). rewrite V1, V2. apply I3. assumption.
    + rewrite Td. intros k Hn. destruct (Dm _ Hn) as (_ & Hk). destruct (V3 k) as (Va & Vb). rewrite Va, Vb. apply I4. assumption.
  - destruct T as (Tc & Te & Td & _).
    apply ctl_split in Tc. destruct Tc as (_ & _ & _ & _ & _ & _ & _ & _ & Hlog).
    pose proof V as (V1 & V2 & V3).
    constructor.
    + rewrite Hlog. eapply req_trans; [exact I1|]. split; [apply seq_sym; apply same_vals_committed; exact V|reflexivity].
    + rewrite Te. eapply req_trans; [apply (cur_fold _ _ _ (same_vals_committed _ _ V) I2)|]. split; [apply seq_sym; apply same_vals_current; exact V|reflexivity].
    + rewrite Td. intros Hn. destruct (Dm _ Hn) as (_ & Hk). rewrite V1, V2. apply I3. assumption.
    + rewrite Td. intros k Hn. destruct (Dm _ Hn) as (_ & Hk). destruct (V3 k) as (Va & Vb). rewrite Va, Vb. apply I4. assumption.
Qed.

(* between attempts: everything committed, nothing pending *)
Record RPre (s0 : rstore) (A : arch) : Prop := mkRPre {
  rp_log : req (replay_log s0 (a_log A)) (committed A, true);
  rp_elems : a_elems A = [];
  rp_dirty : a_dirty A = [];
  rp_pc : l_val (a_pc A) = l_old (a_pc A);
  rp_loc : forall k, l_val (a_loc A k) = l_old (a_loc A k) }.

Lemma replay_log_snoc : forall s0 log e, replay_log s0 (log ++ [e]) = replay_event (replay_log s0 log) e.
Proof. intros. unfold replay_log. apply fold_left_snoc. Qed.

Lemma RPre_commit : forall s0 st a,
  RInv s0 (g_arch st a) -> RPre s0 (g_arch (do_commit st a) a).
Proof.
  intros s0 st a [I1 I2 I3 I4]. unfold do_commit.
  set (A := g_arch st a) in *.
  destruct (commit_fold_frame a (a_dirty A) st) as (F & _).
  destruct (commit_fold_vals a (a_dirty A) st) as (C1 & C2 & C3 & C4). fold A in C1, C2, C3, C4.
  set (st1 := fold_left (commit_res a) (a_dirty A) st) in *.
  set (A1 := g_arch st1 a) in *.
  apply trc_split in F. destruct F as (Fc & _ & Fe & Fd & _).
  apply ctl_split in Fc. destruct Fc as (_ & _ & _ & _ & _ & _ & _ & _ & Flog).
  assert (Cm : seq_ (current A) (committed A1)).
  { split; cbn.
    - destruct (in_dec rname_eq_dec NPc (a_dirty A)) as [Hi|Hn]; [rewrite C2 by assumption; reflexivity|].
      rewrite C3 by assumption. apply I3. assumption.
    - intros k. destruct (C4 k) as (D1 & D2 & D3).
      destruct (in_dec rname_eq_dec (NLoc k) (a_dirty A)) as [Hi|Hn]; [rewrite D2 by assumption; reflexivity|].
      rewrite D3 by assumption. apply I4. assumption. }
  unfold commit_event. rewrite g_arch_set_same. fold A1.
  constructor; cbn.
  - rewrite fold_left_snoc. fold (replay_log s0 (a_log A1)). rewrite Flog. fold A.
    eapply req_trans; [apply replay_event_req; exact I1|].
    unfold replay_event. cbn [e_elems e_abort]. rewrite Fe. fold A.
    destruct (fold_left replay_elem (a_elems A) (committed A, true)) as [t b] eqn:E.
    destruct I2 as [J1 J2]. cbn in J1, J2. subst b. split; [|reflexivity]. cbn.
    eapply seq_trans; [exact J1|exact Cm].
  - reflexivity.
  - reflexivity.
  - destruct Cm as (M1 & M2). cbn in M1. congruence.
  - intros k. destruct Cm as (M1 & M2). cbn in M2. destruct (C4 k) as (D1 & _). rewrite D1. apply M2.
Qed.

Lemma RPre_abort : forall s0 st a,
  RInv s0 (g_arch st a) -> RPre s0 (g_arch (do_abort st a) a).
Proof.
  intros s0 st a [I1 I2 I3 I4]. unfold do_abort.
  set (A := g_arch st a) in *.
  destruct (abort_fold_frame a (a_dirty A) st) as (F & _).
  destruct (abort_fold_vals a (a_dirty A) st) as (C1 & C2 & C3 & C4). fold A in C1, C2, C3, C4.
  set (st1 := fold_left (abort_res a) (a_dirty A) st) in *.
  set (A1 := g_arch st1 a) in *.
  apply trc_split in F. destruct F as (Fc & _ & Fe & Fd & _).
  apply ctl_split in Fc. destruct Fc as (_ & _ & _ & _ & _ & _ & _ & _ & Flog).
  assert (Cm : seq_ (committed A) (committed A1)).
  { split; cbn; [congruence|]. intros k. destruct (C4 k) as (D1 & _). congruence. }
  unfold commit_event. rewrite g_arch_set_same. fold A1.
  constructor; cbn.
  - rewrite fold_left_snoc. fold (replay_log s0 (a_log A1)). rewrite Flog. fold A.
    eapply req_trans; [apply replay_event_req; exact I1|].
    unfold replay_event. cbn [e_elems e_abort]. rewrite Fe. fold A.
    destruct (fold_left replay_elem (a_elems A) (committed A, true)) as [t b] eqn:E.
    destruct I2 as [J1 J2]. cbn in J1, J2. subst b. split; [exact Cm|reflexivity].
  - reflexivity.
  - reflexivity.
  - destruct (in_dec rname_eq_dec NPc (a_dirty A)) as [Hi|Hn]; [rewrite C2 by assumption; congruence|].
    rewrite C3 by assumption. rewrite C1. apply I3. assumption.
  - intros k. destruct (C4 k) as (D1 & D2 & D3).
    destruct (in_dec rname_eq_dec (NLoc k) (a_dirty A)) as [Hi|Hn]; [rewrite D2 by assumption; congruence|].
    rewrite D3 by assumption. rewrite D1. apply I4. assumption.
Qed.

Lemma RInv_of_RPre : forall s0 A, RPre s0 A -> RInv s0 A.
Proof.
  intros s0 A [P1 P2 P3 P4 P5]. constructor; try assumption.
  - rewrite P2. cbn. split; [|reflexivity]. split; cbn; [congruence|intros k; symmetry; apply P5].
  - intros _. assumption.
  - intros k _. apply P5.
Qed.

Lemma RInv_begin : forall s0 st a, RPre s0 (g_arch st a) -> RInv s0 (g_arch (begin_attempt st a) a).
Proof.
  intros s0 st a P. unfold begin_attempt.
  destruct P as [P1 P2 P3 P4 P5]. rewrite P2.
  set (st1 := set_arch st a _).
  assert (R1 : RInv s0 (g_arch st1 a)).
  { unfold st1. rewrite g_arch_set_same. eapply RInv_ext; [| | | | |apply RInv_of_RPre; constructor; eassumption]; reflexivity. }
  pose proof (RInv_read s0 st1 a NPc [] false R1) as R2.
  destruct (do_read st1 a NPc [] false) as [st2 v|st2|st2]; cbn [rr_state] in R2.
  - destruct (nth_error _ _); rewrite g_arch_set_same; (eapply RInv_ext; [| | | | |exact R2]; reflexivity).
  - rewrite g_arch_set_same. eapply RInv_ext; [| | | | |exact R2]; reflexivity.
  - rewrite g_arch_set_same. eapply RInv_ext; [| | | | |exact R2]; reflexivity.
Qed.

Lemma RInv_goto : forall s0 st a, RInv s0 (g_arch st a) -> RInv s0 (g_arch (goto_next st a) a).
Proof.
  intros s0 st a I. unfold goto_next.
  set (z := (_ + 1)%Z).
  pose proof (RInv_write s0 st a NPc [] z false I) as R.
  destruct (do_write st a NPc [] z false) as [st1|st1|st1]; cbn [wr2_state] in R; rewrite g_arch_set_same;
    (eapply RInv_ext; [| | | | |exact R]; reflexivity).
Qed.

Lemma RInv_op : forall s0 st a o tmo, RInv s0 (g_arch st a) -> RInv s0 (g_arch (op_state (do_op st a o tmo)) a).
Proof.
  intros s0 st a o tmo I. unfold do_op. destruct o as [r idx|r idx e].
  - destruct (is_pc r); [exact I|].
    pose proof (RInv_read s0 st a r idx tmo I) as R. destruct (do_read st a r idx tmo); exact R.
  - destruct (is_pc r); [exact I|].
    pose proof (RInv_write s0 st a r idx (eval_expr (g_arch st a) e) tmo I) as R.
    destruct (do_write st a r idx (eval_expr (g_arch st a) e) tmo); exact R.
Qed.

Lemma RInv_step : forall s0 st a tmo, RInv s0 (g_arch st a) -> RInv s0 (g_arch (step st (a, tmo)) a).
Proof.
  intros s0 st a tmo I. unfold step.
  destruct (negb (a <? g_n st)); [exact I|].
  destruct (negb (a_status (g_arch st a) =? 0)); [exact I|].
  destruct (a_rest (g_arch st a)) as [|o rest].
  - destruct (a_forced (g_arch st a)); [|destruct tmo].
    + apply RInv_begin. apply RPre_abort. exact I.
    + apply RInv_begin. apply RPre_abort. apply RInv_goto. exact I.
    + apply RInv_begin. apply RPre_commit. apply RInv_goto. exact I.
  - pose proof (RInv_op s0 st a o tmo I) as R.
    destruct (do_op st a o tmo) as [st' p|st'|st']; cbn [op_state] in R.
    + rewrite g_arch_set_same. eapply RInv_ext; [| | | | |exact R]; reflexivity.
    + apply RInv_begin. apply RPre_abort. exact R.
    + rewrite g_arch_set_same. eapply RInv_ext; [| | | | |exact R]; reflexivity.
Qed.

Lemma RPre_init : forall a c, RPre (init_store a c) (arch_init a c).
Proof.
  intros a c. constructor; cbn; try reflexivity.
  split; [|reflexivity]. split; cbn; reflexivity.
Qed.

Lemma RInv_run : forall c sched a,
  a < List.length (cf_archs c) ->
  RInv (init_store a (nth a (cf_archs c) no_arch)) (g_arch (run c sched) a).
Proof.
  intros c sched a Ha.
  apply (run_reach (fun b A => RPre (init_store b (nth b (cf_archs c) no_arch)) A)
                   (fun b A => RInv (init_store b (nth b (cf_archs c) no_arch)) A)); try assumption.
  - intros. apply RInv_begin. assumption.
  - intros. apply RInv_step. assumption.
  - intros. apply RPre_init.
Qed.

(* the theorem: the replay of the whole log succeeds *)
Lemma replay_ok_lemma : forall c sched a,
  a < List.length (cf_archs c) ->
  snd (replay_log (init_store a (nth a (cf_archs c) no_arch)) (a_log (g_arch (run c sched) a))) = true.
Proof.
  intros c sched a Ha. destruct (RInv_run c sched a Ha) as [[_ H] _ _ _]. exact H.
Qed.
