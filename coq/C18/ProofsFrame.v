(* C18 — frame lemmas: which fields each primitive of Model.v touches *)
From PGV Require Import C18.Model.
From Coq Require Import Lia.

(* the fields of an archetype that only the Run loop / EventState / the script driver touch *)
Definition ctl (A : arch) :=
  (a_prog A, a_tries A, a_rest A, a_forced A, a_status A, a_att A, a_perf A, a_hist A, a_log A).

(* everything of an archetype but its resources (pc, locals, buffers) and its sink *)
Definition trc (A : arch) :=
  (ctl A, a_last A, a_elems A, a_dirty A, a_srcs A).

(* the archetype-local state *)
Definition lcl (A : arch) := (a_pc A, a_loc A).

Lemma trc_split : forall A B, trc A = trc B ->
  ctl A = ctl B /\ a_last A = a_last B /\ a_elems A = a_elems B /\ a_dirty A = a_dirty B /\ a_srcs A = a_srcs B.
Proof. unfold trc. intros A B H. injection H. intros. repeat split; try assumption. unfold ctl. congruence. Qed.

Lemma ctl_split : forall A B, ctl A = ctl B ->
  a_prog A = a_prog B /\ a_tries A = a_tries B /\ a_rest A = a_rest B /\ a_forced A = a_forced B /\ a_status A = a_status B /\
  a_att A = a_att B /\ a_perf A = a_perf B /\ a_hist A = a_hist B /\ a_log A = a_log B.
Proof. unfold ctl. intros A B H. injection H. intros. repeat split; assumption. Qed.

Lemma upd_same : forall X (f : nat -> X) k x, upd f k x k = x.
Proof. intros. unfold upd. rewrite Nat.eqb_refl. reflexivity. Qed.

Lemma upd_other : forall X (f : nat -> X) k x j, j <> k -> upd f k x j = f j.
Proof. intros. unfold upd. destruct (Nat.eqb_spec j k); congruence. Qed.

Lemma g_arch_set_same : forall st a A, g_arch (set_arch st a A) a = A.
Proof. intros. cbn. apply upd_same. Qed.

Lemma g_arch_set_other : forall st a A b, b <> a -> g_arch (set_arch st a A) b = g_arch st b.
Proof. intros. cbn. apply upd_other. assumption. Qed.

Ltac des :=
  repeat match goal with
         | |- context [match ?x with _ => _ end] => destruct x eqn:?
         | |- context [if ?x then _ else _] => destruct x eqn:?
         end.

Ltac frame_tac a :=
  intros; cbn -[upd]; repeat split; intros;
  try rewrite upd_same; try (rewrite upd_other by assumption); try reflexivity.

(* ---------------------------------------------------------------- LocalArchetypeResource *)

Lemma lres_read_spec : forall idx s r r' v,
  lres_read idx s r = Some (r', v) ->
  r' = mkL (l_val r) (l_old r) (vmerge (l_clk r) s) (l_tag r) (l_otag r) /\ cell_get idx (l_val r) = Some v.
Proof.
  intros idx s r r' v. unfold lres_read. destruct (cell_get idx (l_val r)); intros H; inversion H; subst. split; reflexivity.
Qed.

Lemma lres_write_spec : forall idx z w t r r' c old,
  lres_write idx z w t r = Some (r', c, old) ->
  exists nv, r' = mkL nv (l_old r) (vmerge (l_clk r) w) t (l_otag r) /\ c = l_clk r /\
             cell_get idx (l_val r) = Some old /\ cell_set idx z (l_val r) = Some nv.
Proof.
  intros idx z w t r r' c old. unfold lres_write.
  destruct (cell_get idx (l_val r)) eqn:E1; [|intros H; inversion H].
  destruct (cell_set idx z (l_val r)) eqn:E2; intros H; inversion H; subst.
  eexists. repeat split; reflexivity.
Qed.

Ltac lres_inv :=
  repeat match goal with
         | H : lres_read _ _ _ = Some (_, _) |- _ => apply lres_read_spec in H; destruct H as [? ?]; subst
         | H : lres_write _ _ _ _ _ = Some (_, _, _) |- _ => apply lres_write_spec in H; destruct H as (? & ? & ? & ? & ?); subst
         end.

(* ---------------------------------------------------------------- res_read *)

Definition rd_state (r : rdres) : state :=
  match r with RdOk s _ _ _ _ | RdAbort s | RdCrash s => s end.

Lemma res_read_frame : forall st a r idx tmo,
  let st1 := rd_state (res_read st a r idx tmo) in
  trc (g_arch st1 a) = trc (g_arch st a) /\ a_sink (g_arch st1 a) = a_sink (g_arch st a) /\
  (forall b, b <> a -> g_arch st1 b = g_arch st b) /\ g_n st1 = g_n st /\ g_own st1 = g_own st.
Proof.
  intros st a r idx tmo. unfold res_read.
  destruct r; des; cbn -[upd]; repeat split; intros;
    try rewrite upd_same; try (rewrite upd_other by assumption); reflexivity.
Qed.

(* the local state after a read: values untouched (only clocks move) *)
Lemma res_read_local : forall st a r idx tmo,
  let st1 := rd_state (res_read st a r idx tmo) in
  l_val (a_pc (g_arch st1 a)) = l_val (a_pc (g_arch st a)) /\ l_old (a_pc (g_arch st1 a)) = l_old (a_pc (g_arch st a)) /\
  (forall k, l_val (a_loc (g_arch st1 a) k) = l_val (a_loc (g_arch st a) k) /\ l_old (a_loc (g_arch st1 a) k) = l_old (a_loc (g_arch st a) k)).
Proof.
  intros st a r idx tmo. unfold res_read.
  destruct r; des; lres_inv; cbn -[upd]; repeat split; intros; try rewrite upd_same; try reflexivity;
    try (cbn; unfold upd; destruct (Nat.eqb_spec k0 k); subst; reflexivity).
Qed.

(* what a successful read of archetype-local state returns *)
Lemma res_read_pc_value : forall st a idx tmo st1 v clk k t,
  res_read st a NPc idx tmo = RdOk st1 v clk k t -> cell_get idx (l_val (a_pc (g_arch st a))) = Some v.
Proof.
  intros st a idx tmo st1 v clk k t. unfold res_read.
  destruct (lres_read idx (a_sink (g_arch st a)) (a_pc (g_arch st a))) as [[r' v']|] eqn:E; intros H; inversion H; subst.
  lres_inv. assumption.
Qed.

Lemma res_read_loc_value : forall st a j idx tmo st1 v clk k t,
  res_read st a (NLoc j) idx tmo = RdOk st1 v clk k t -> cell_get idx (l_val (a_loc (g_arch st a) j)) = Some v.
Proof.
  intros st a j idx tmo st1 v clk k t. unfold res_read.
  destruct (lres_read idx (a_sink (g_arch st a)) (a_loc (g_arch st a) j)) as [[r' v']|] eqn:E; intros H; inversion H; subst.
  lres_inv. assumption.
Qed.

(* ---------------------------------------------------------------- res_write *)

Definition wr_state (r : wrres) : state :=
  match r with WrOk s _ | WrAbort s | WrCrash s => s end.

Lemma res_write_frame : forall st a r idx z w t tmo,
  let st1 := wr_state (res_write st a r idx z w t tmo) in
  trc (g_arch st1 a) = trc (g_arch st a) /\
  (forall b, b <> a -> g_arch st1 b = g_arch st b) /\ g_n st1 = g_n st /\ g_own st1 = g_own st.
Proof.
  intros st a r idx z w t tmo. unfold res_write.
  destruct r; des; cbn -[upd]; repeat split; intros;
    try rewrite upd_same; try (rewrite upd_other by assumption); reflexivity.
Qed.

Lemma res_write_hint : forall st a r idx z w t tmo st1 h,
  res_write st a r idx z w t tmo = WrOk st1 h -> h = overwritten st a r idx.
Proof.
  intros st a r idx z w t tmo st1 h. unfold res_write, overwritten.
  destruct r; des; intros H; inversion H; subst; lres_inv; try reflexivity; try congruence.
Qed.

(* ---------------------------------------------------------------- do_read / do_write *)

Lemma mark_dirty_trc : forall r A,
  ctl (mark_dirty r A) = ctl A /\ a_last (mark_dirty r A) = a_last A /\ a_elems (mark_dirty r A) = a_elems A /\
  a_srcs (mark_dirty r A) = a_srcs A /\ a_sink (mark_dirty r A) = a_sink A /\
  a_pc (mark_dirty r A) = a_pc A /\ a_loc (mark_dirty r A) = a_loc A /\ a_buf (mark_dirty r A) = a_buf A.
Proof. intros. unfold mark_dirty. destruct (existsb (rname_eqb r) (a_dirty A)); repeat split; reflexivity. Qed.

Lemma rname_eqb_eq : forall x y, rname_eqb x y = true <-> x = y.
Proof.
  intros x y; destruct x, y; cbn; split; intros H; try discriminate; try reflexivity;
    try (apply Nat.eqb_eq in H; subst; reflexivity); try (inversion H; subst; apply Nat.eqb_refl).
Qed.

Lemma mark_dirty_in : forall r A n, In n (a_dirty (mark_dirty r A)) <-> n = r \/ In n (a_dirty A).
Proof.
  intros r A n. unfold mark_dirty. destruct (existsb (rname_eqb r) (a_dirty A)) eqn:E.
  - split; [tauto|]. intros [->|H]; [|assumption].
    apply existsb_exists in E. destruct E as (x & Hin & Hx). apply rname_eqb_eq in Hx. subst. assumption.
  - cbn. rewrite in_app_iff. cbn. split; intros H; intuition.
Qed.

Lemma do_read_inv : forall st a r idx tmo,
  let st0 := set_arch st a (mark_dirty r (g_arch st a)) in
  match do_read st a r idx tmo with
  | RROk st' v => exists st1 clk k t, res_read st0 a r idx tmo = RdOk st1 v clk k t /\
                                   st' = set_arch st1 a (fin_read (g_arch st1 a) r idx v clk k t)
  | RRAbort st' => res_read st0 a r idx tmo = RdAbort st'
  | RRCrash st' => res_read st0 a r idx tmo = RdCrash st'
  end.
Proof.
  intros. unfold do_read. fold st0. destruct (res_read st0 a r idx tmo); eauto 10.
Qed.

Lemma do_write_inv : forall st a r idx z tmo,
  let st0 := set_arch st a (mark_dirty r (g_arch st a)) in
  let A0 := g_arch st0 a in
  match do_write st a r idx z tmo with
  | WROk st' => exists st1 h, res_write st0 a r idx z (a_sink A0) (a, a_att A0) tmo = WrOk st1 h /\
                              st' = set_arch st1 a (rec_write (g_arch st1 a) r idx z h)
  | WRAbort st' => res_write st0 a r idx z (a_sink A0) (a, a_att A0) tmo = WrAbort st'
  | WRCrash st' => res_write st0 a r idx z (a_sink A0) (a, a_att A0) tmo = WrCrash st'
  end.
Proof.
  intros. unfold do_write. fold st0. fold A0. destruct (res_write st0 a r idx z (a_sink A0) (a, a_att A0) tmo); eauto 10.
Qed.

Definition rr_state (r : rres) : state := match r with RROk s _ | RRAbort s | RRCrash s => s end.
Definition wr2_state (r : wres) : state := match r with WROk s | WRAbort s | WRCrash s => s end.
Definition op_state (r : opres) : state := match r with OpOk s _ | OpAbort s | OpCrash s => s end.

(* other archetypes, the number of archetypes and the ownership of mailboxes are never touched *)
Lemma do_read_others : forall st a r idx tmo,
  let st' := rr_state (do_read st a r idx tmo) in
  (forall b, b <> a -> g_arch st' b = g_arch st b) /\ g_n st' = g_n st /\ g_own st' = g_own st.
Proof.
  intros st a r idx tmo.
  pose proof (do_read_inv st a r idx tmo) as H. cbn zeta in H.
  pose proof (res_read_frame (set_arch st a (mark_dirty r (g_arch st a))) a r idx tmo) as F. cbn zeta in F.
  destruct F as (_ & _ & Fo & Fn & Fw).
  destruct (do_read st a r idx tmo) as [st' v|st'|st']; cbn.
  - destruct H as (st1 & clk & k & t & E & ->). rewrite E in *. cbn in *.
    repeat split; [intros b Hb; rewrite upd_other by assumption; rewrite Fo by assumption; apply upd_other; assumption|assumption|assumption].
  - rewrite H in *. cbn in *. repeat split; [intros b Hb; rewrite Fo by assumption; apply upd_other; assumption|assumption|assumption].
  - rewrite H in *. cbn in *. repeat split; [intros b Hb; rewrite Fo by assumption; apply upd_other; assumption|assumption|assumption].
Qed.

Lemma do_write_others : forall st a r idx z tmo,
  let st' := wr2_state (do_write st a r idx z tmo) in
  (forall b, b <> a -> g_arch st' b = g_arch st b) /\ g_n st' = g_n st /\ g_own st' = g_own st.
Proof.
  intros st a r idx z tmo.
  pose proof (do_write_inv st a r idx z tmo) as H. cbn zeta in H.
  set (st0 := set_arch st a (mark_dirty r (g_arch st a))) in *.
  pose proof (res_write_frame st0 a r idx z (a_sink (g_arch st0 a)) (a, a_att (g_arch st0 a)) tmo) as F. cbn zeta in F.
  destruct F as (_ & Fo & Fn & Fw).
  destruct (do_write st a r idx z tmo) as [st'|st'|st']; cbn.
  - destruct H as (st1 & h & E & ->). rewrite E in *. cbn in *.
    repeat split; [intros b Hb; rewrite upd_other by assumption; rewrite Fo by assumption; apply upd_other; assumption|assumption|assumption].
  - rewrite H in *. cbn in *. repeat split; [intros b Hb; rewrite Fo by assumption; apply upd_other; assumption|assumption|assumption].
  - rewrite H in *. cbn in *. repeat split; [intros b Hb; rewrite Fo by assumption; apply upd_other; assumption|assumption|assumption].
Qed.

(* the trace-side effect of a read on the reading archetype *)
Lemma do_read_trace : forall st a r idx tmo,
  let A := g_arch st a in
  match do_read st a r idx tmo with
  | RROk st' v =>
      let A' := g_arch st' a in
      ctl A' = ctl A /\ a_elems A' = a_elems A ++ [ERead r idx v] /\ a_dirty A' = a_dirty (mark_dirty r A) /\
      exists k t, a_srcs A' = a_srcs A ++ [(k, t)]
  | RRAbort st' | RRCrash st' =>
      let A' := g_arch st' a in
      ctl A' = ctl A /\ a_elems A' = a_elems A /\ a_dirty A' = a_dirty (mark_dirty r A) /\ a_srcs A' = a_srcs A /\ a_last A' = a_last A
  end.
Proof.
  intros st a r idx tmo A.
  pose proof (do_read_inv st a r idx tmo) as H. cbn zeta in H.
  pose proof (res_read_frame (set_arch st a (mark_dirty r (g_arch st a))) a r idx tmo) as F. cbn zeta in F.
  destruct F as (Ft & _).
  rewrite g_arch_set_same in Ft.
  pose proof (mark_dirty_trc r A) as (M1 & M2 & M3 & M4 & _).
  destruct (do_read st a r idx tmo) as [st' v|st'|st'].
  - destruct H as (st1 & clk & k & t & E & ->). rewrite E in Ft. cbn [rd_state] in Ft.
    rewrite g_arch_set_same. apply trc_split in Ft. destruct Ft as (Hc & Hl & He & Hd & Hs). fold A in Hc, Hl, He, Hd, Hs.
    rewrite M1 in Hc. rewrite M3 in He. rewrite M4 in Hs.
    unfold fin_read, note_last, rec_read.
    destruct v; cbn; (repeat split; [exact Hc|rewrite He; reflexivity|exact Hd|eexists; eexists; rewrite Hs; reflexivity]).
  - rewrite H in Ft. cbn [rd_state] in Ft. apply trc_split in Ft. destruct Ft as (Hc & Hl & He & Hd & Hs). fold A in Hc, Hl, He, Hd, Hs.
    repeat split; congruence.
  - rewrite H in Ft. cbn [rd_state] in Ft. apply trc_split in Ft. destruct Ft as (Hc & Hl & He & Hd & Hs). fold A in Hc, Hl, He, Hd, Hs.
    repeat split; congruence.
Qed.

Lemma do_write_trace : forall st a r idx z tmo,
  let A := g_arch st a in
  match do_write st a r idx z tmo with
  | WROk st' =>
      let A' := g_arch st' a in
      ctl A' = ctl A /\ a_elems A' = a_elems A ++ [EWrite r idx (VInt z) (overwritten st a r idx)] /\
      a_dirty A' = a_dirty (mark_dirty r A) /\ a_srcs A' = a_srcs A /\ a_last A' = a_last A
  | WRAbort st' | WRCrash st' =>
      let A' := g_arch st' a in
      ctl A' = ctl A /\ a_elems A' = a_elems A /\ a_dirty A' = a_dirty (mark_dirty r A) /\ a_srcs A' = a_srcs A /\ a_last A' = a_last A
  end.
Proof.
  intros st a r idx z tmo A.
  pose proof (do_write_inv st a r idx z tmo) as H. cbn zeta in H.
  set (st0 := set_arch st a (mark_dirty r (g_arch st a))) in *.
  pose proof (res_write_frame st0 a r idx z (a_sink (g_arch st0 a)) (a, a_att (g_arch st0 a)) tmo) as F. cbn zeta in F.
  destruct F as (Ft & _).
  assert (E0 : g_arch st0 a = mark_dirty r A) by (unfold st0; apply g_arch_set_same).
  rewrite E0 in Ft. rewrite E0 in H.
  pose proof (mark_dirty_trc r A) as (M1 & M2 & M3 & M4 & _).
  destruct (do_write st a r idx z tmo) as [st'|st'|st'].
  - destruct H as (st1 & h & E & ->). rewrite E in Ft. cbn [wr_state] in Ft.
    apply res_write_hint in E. 
    assert (Eo : overwritten st0 a r idx = overwritten st a r idx).
    { unfold overwritten. rewrite E0. pose proof (mark_dirty_trc r A) as (_ & _ & _ & _ & _ & P1 & P2 & _).
      fold A. rewrite P1, P2. destruct r; reflexivity. }
    rewrite g_arch_set_same. apply trc_split in Ft. destruct Ft as (Hc & Hl & He & Hd & Hs).
    rewrite M1 in Hc. rewrite M2 in Hl. rewrite M3 in He. rewrite M4 in Hs.
    unfold rec_write. cbn. repeat split; try assumption. rewrite He, E, Eo. reflexivity.
  - rewrite H in Ft. cbn [wr_state] in Ft. apply trc_split in Ft. destruct Ft as (Hc & Hl & He & Hd & Hs). repeat split; congruence.
  - rewrite H in Ft. cbn [wr_state] in Ft. apply trc_split in Ft. destruct Ft as (Hc & Hl & He & Hd & Hs). repeat split; congruence.
Qed.

(* ---------------------------------------------------------------- commit / abort of the dirty resources *)

Lemma commit_res_frame : forall a st n,
  let st1 := commit_res a st n in
  trc (g_arch st1 a) = trc (g_arch st a) /\ a_sink (g_arch st1 a) = a_sink (g_arch st a) /\
  (forall b, b <> a -> g_arch st1 b = g_arch st b) /\ g_n st1 = g_n st /\ g_own st1 = g_own st.
Proof.
  intros a st n. unfold commit_res.
  destruct n; des; cbn -[upd]; repeat split; intros;
    try rewrite upd_same; try (rewrite upd_other by assumption); reflexivity.
Qed.

Lemma abort_res_frame : forall a st n,
  let st1 := abort_res a st n in
  trc (g_arch st1 a) = trc (g_arch st a) /\ a_sink (g_arch st1 a) = a_sink (g_arch st a) /\
  (forall b, b <> a -> g_arch st1 b = g_arch st b) /\ g_n st1 = g_n st /\ g_own st1 = g_own st.
Proof.
  intros a st n. unfold abort_res.
  destruct n; des; cbn -[upd]; repeat split; intros;
    try rewrite upd_same; try (rewrite upd_other by assumption); reflexivity.
Qed.

Lemma fold_frame : forall (f : nat -> state -> rname -> state) a,
  (forall st n, trc (g_arch (f a st n) a) = trc (g_arch st a) /\ a_sink (g_arch (f a st n) a) = a_sink (g_arch st a) /\
                (forall b, b <> a -> g_arch (f a st n) b = g_arch st b) /\ g_n (f a st n) = g_n st /\ g_own (f a st n) = g_own st) ->
  forall l st,
  let st1 := fold_left (f a) l st in
  trc (g_arch st1 a) = trc (g_arch st a) /\ a_sink (g_arch st1 a) = a_sink (g_arch st a) /\
  (forall b, b <> a -> g_arch st1 b = g_arch st b) /\ g_n st1 = g_n st /\ g_own st1 = g_own st.
Proof.
  intros f a Hf. induction l as [|n l IH]; intros st; cbn.
  - repeat split; reflexivity.
  - specialize (IH (f a st n)). cbn zeta in IH. destruct IH as (I1 & I2 & I3 & I4 & I5).
    destruct (Hf st n) as (F1 & F2 & F3 & F4 & F5).
    repeat split; try congruence. intros b Hb. rewrite I3 by assumption. apply F3. assumption.
Qed.

Lemma commit_fold_frame : forall a l st,
  let st1 := fold_left (commit_res a) l st in
  trc (g_arch st1 a) = trc (g_arch st a) /\ a_sink (g_arch st1 a) = a_sink (g_arch st a) /\
  (forall b, b <> a -> g_arch st1 b = g_arch st b) /\ g_n st1 = g_n st /\ g_own st1 = g_own st.
Proof. intros a. apply (fold_frame commit_res a). intros. apply commit_res_frame. Qed.

Lemma abort_fold_frame : forall a l st,
  let st1 := fold_left (abort_res a) l st in
  trc (g_arch st1 a) = trc (g_arch st a) /\ a_sink (g_arch st1 a) = a_sink (g_arch st a) /\
  (forall b, b <> a -> g_arch st1 b = g_arch st b) /\ g_n st1 = g_n st /\ g_own st1 = g_own st.
Proof. intros a. apply (fold_frame abort_res a). intros. apply abort_res_frame. Qed.

(* ---------------------------------------------------------------- the whole step leaves the others alone *)

Lemma commit_event_others : forall st a ab,
  (forall b, b <> a -> g_arch (commit_event st a ab) b = g_arch st b) /\
  g_n (commit_event st a ab) = g_n st /\ g_own (commit_event st a ab) = g_own st.
Proof. intros. unfold commit_event. cbn -[upd]. repeat split. intros. apply upd_other. assumption. Qed.

Lemma do_commit_others : forall st a,
  (forall b, b <> a -> g_arch (do_commit st a) b = g_arch st b) /\ g_n (do_commit st a) = g_n st /\ g_own (do_commit st a) = g_own st.
Proof.
  intros. unfold do_commit.
  destruct (commit_event_others (fold_left (commit_res a) (a_dirty (g_arch st a)) st) a false) as (C1 & C2 & C3).
  destruct (commit_fold_frame a (a_dirty (g_arch st a)) st) as (_ & _ & F1 & F2 & F3).
  repeat split; try congruence. intros b Hb. rewrite C1 by assumption. apply F1. assumption.
Qed.

Lemma do_abort_others : forall st a,
  (forall b, b <> a -> g_arch (do_abort st a) b = g_arch st b) /\ g_n (do_abort st a) = g_n st /\ g_own (do_abort st a) = g_own st.
Proof.
  intros. unfold do_abort.
  destruct (commit_event_others (fold_left (abort_res a) (a_dirty (g_arch st a)) st) a true) as (C1 & C2 & C3).
  destruct (abort_fold_frame a (a_dirty (g_arch st a)) st) as (_ & _ & F1 & F2 & F3).
  repeat split; try congruence. intros b Hb. rewrite C1 by assumption. apply F1. assumption.
Qed.

Lemma begin_attempt_others : forall st a,
  (forall b, b <> a -> g_arch (begin_attempt st a) b = g_arch st b) /\ g_n (begin_attempt st a) = g_n st /\ g_own (begin_attempt st a) = g_own st.
Proof.
  intros st a. unfold begin_attempt.
  destruct (a_elems (g_arch st a)).
  2:{ cbn -[upd]. repeat split. intros. apply upd_other. assumption. }
  set (st1 := set_arch st a _).
  pose proof (do_read_others st1 a NPc [] false) as (R1 & R2 & R3). cbn zeta in *.
  assert (S1 : forall b, b <> a -> g_arch st1 b = g_arch st b) by (intros; unfold st1; apply g_arch_set_other; assumption).
  destruct (do_read st1 a NPc [] false) as [st2 v|st2|st2]; cbn [rr_state] in *.
  - destruct (nth_error _ _); cbn -[upd]; (repeat split; [intros b Hb; rewrite upd_other by assumption; rewrite R1 by assumption; apply S1; assumption|rewrite R2; reflexivity|rewrite R3; reflexivity]).
  - cbn -[upd]. repeat split; [intros b Hb; rewrite upd_other by assumption; rewrite R1 by assumption; apply S1; assumption|rewrite R2; reflexivity|rewrite R3; reflexivity].
  - cbn -[upd]. repeat split; [intros b Hb; rewrite upd_other by assumption; rewrite R1 by assumption; apply S1; assumption|rewrite R2; reflexivity|rewrite R3; reflexivity].
Qed.

Lemma goto_next_others : forall st a,
  (forall b, b <> a -> g_arch (goto_next st a) b = g_arch st b) /\ g_n (goto_next st a) = g_n st /\ g_own (goto_next st a) = g_own st.
Proof.
  intros st a. unfold goto_next.
  set (z := (_ + 1)%Z).
  pose proof (do_write_others st a NPc [] z false) as (R1 & R2 & R3). cbn zeta in *.
  destruct (do_write st a NPc [] z false) as [st1|st1|st1]; cbn [wr2_state] in *; cbn -[upd];
    (repeat split; [intros b Hb; rewrite upd_other by assumption; apply R1; assumption|assumption|assumption]).
Qed.

Lemma do_op_others : forall st a o tmo,
  let st' := op_state (do_op st a o tmo) in
  (forall b, b <> a -> g_arch st' b = g_arch st b) /\ g_n st' = g_n st /\ g_own st' = g_own st.
Proof.
  intros st a o tmo. unfold do_op. destruct o as [r idx|r idx e].
  - destruct (is_pc r); [cbn; repeat split; reflexivity|].
    pose proof (do_read_others st a r idx tmo) as R. cbn zeta in R.
    destruct (do_read st a r idx tmo); exact R.
  - destruct (is_pc r); [cbn; repeat split; reflexivity|].
    pose proof (do_write_others st a r idx (eval_expr (g_arch st a) e) tmo) as R. cbn zeta in R.
    destruct (do_write st a r idx (eval_expr (g_arch st a) e) tmo); exact R.
Qed.

Lemma step_others : forall st a tmo,
  (forall b, b <> a -> g_arch (step st (a, tmo)) b = g_arch st b) /\ g_n (step st (a, tmo)) = g_n st /\ g_own (step st (a, tmo)) = g_own st.
Proof.
  intros st a tmo. unfold step.
  destruct (negb (a <? g_n st)); [repeat split; reflexivity|].
  destruct (negb (a_status (g_arch st a) =? 0)); [repeat split; reflexivity|].
  destruct (a_rest (g_arch st a)) as [|o rest].
  - destruct (a_forced (g_arch st a)); [|destruct tmo].
    + destruct (begin_attempt_others (do_abort st a) a) as (B1 & B2 & B3).
      destruct (do_abort_others st a) as (A1 & A2 & A3).
      repeat split; try congruence. intros b Hb. rewrite B1 by assumption. apply A1. assumption.
    + destruct (begin_attempt_others (do_abort (goto_next st a) a) a) as (B1 & B2 & B3).
      destruct (do_abort_others (goto_next st a) a) as (A1 & A2 & A3).
      destruct (goto_next_others st a) as (G1 & G2 & G3).
      repeat split; try congruence. intros b Hb. rewrite B1 by assumption. rewrite A1 by assumption. apply G1. assumption.
    + destruct (begin_attempt_others (do_commit (goto_next st a) a) a) as (B1 & B2 & B3).
      destruct (do_commit_others (goto_next st a) a) as (A1 & A2 & A3).
      destruct (goto_next_others st a) as (G1 & G2 & G3).
      repeat split; try congruence. intros b Hb. rewrite B1 by assumption. rewrite A1 by assumption. apply G1. assumption.
  - pose proof (do_op_others st a o tmo) as (O1 & O2 & O3). cbn zeta in *.
    destruct (do_op st a o tmo) as [st' p|st'|st']; cbn [op_state] in *.
    + cbn -[upd]. repeat split; try assumption. intros b Hb. rewrite upd_other by assumption. apply O1. assumption.
    + destruct (begin_attempt_others (do_abort st' a) a) as (B1 & B2 & B3).
      destruct (do_abort_others st' a) as (A1 & A2 & A3).
      repeat split; try congruence. intros b Hb. rewrite B1 by assumption. rewrite A1 by assumption. apply O1. assumption.
    + cbn -[upd]. repeat split; try assumption. intros b Hb. rewrite upd_other by assumption. apply O1. assumption.
Qed.
