(* C17 — lemmas about C17/Model.v (repaired variant unless stated otherwise) *)
From PGV Require Import C17.Model.
From Coq Require Import Lia Permutation.

Lemma exec_app : forall v cfg l1 l2 s,
  exec v cfg s (l1 ++ l2) = match exec v cfg s l1 with Some s' => exec v cfg s' l2 | None => None end.
Proof.
  induction l1 as [|l r IH]; intros l2 s; cbn [exec app]; [reflexivity|].
  destruct (step v cfg s l); [apply IH|reflexivity].
Qed.

(* ------------------------------------------------------------------ sets of runner program points *)
Definition r_holds (r : rpc) : bool := match r with RCloseAwait | RNilReq | RUnl1 => true | _ => false end.
Definition r_open (r : rpc) : bool :=
  match r with RPre | RPoll | RBody | RClean | RLock1 | RCloseAwait | RNilReq => true | _ => false end.
Definition r_after (r : rpc) : bool := match r with RNilReq | RUnl1 | RRet => true | _ => false end.
Definition r_none (r : rpc) : bool := match r with RNone => true | _ => false end.
Definition r_loop (r : rpc) : bool := match r with RPre | RPoll | RBody => true | _ => false end.

Definition holders (s : state) : nat :=
  cnt s SHold + cnt s SSet1a + cnt s SSend + cnt s SSet2a + cnt s SSel + cnt s SUnl
  + cnt s RHold + cnt s RUnlRefuse + cnt s RUnlNil + cnt s RUnlGo + b2n (r_holds (runner s)).

(* ------------------------------------------------------------------ the protocol invariant *)
Record Inv1 (s : state) : Prop := mkInv1 {
  iL  : b2n (lock s) = holders s;
  iS0 : started s = false -> runner s = RNone /\ cnt s RUnlGo = 0 /\ entered s = 0;
  iS1 : started s = true -> entered s = 1 /\ cnt s RUnlGo + b2n (negb (r_none (runner s))) = 1;
  iQ1 : b2n (is_some (req s)) = cnt s RUnlGo + b2n (r_open (runner s));
  iQ2 : forall n, req s = Some n -> n <= 1 /\ (n = 1 -> exitReq s = true);
  iX1 : 0 < cnt s SSet1a -> req s = Some 0 /\ exitReq s = false;
  iX2 : 0 < cnt s SSend -> req s = Some 0 /\ exitReq s = true;
  iX3 : 0 < cnt s SSet2a -> req s = None /\ exitReq s = false;
  iX4 : 0 < cnt s SSel -> req s = None /\ exitReq s = true;
  iA1 : awaitc s <= 1;
  iA2 : awaitc s = 1 -> r_after (runner s) = true \/ (started s = false /\ exitReq s = true);
  iA3 : r_after (runner s) = true -> awaitc s = 1;
  iE  : exitReq s = true -> awaitc s = 0 -> is_some (req s) = true \/ 0 < cnt s SSel;
  iW  : 0 < cnt s SUnl + cnt s SWait + cnt s SRet -> exitReq s = true;
  iK  : exitReq s = true -> 0 < cnt s RUnlGo + b2n (r_loop (runner s)) -> req s = Some 1 \/ 0 < cnt s SSend;
  iV  : 0 < cnt s SSend -> cnt s SUnl + cnt s SWait + cnt s SRet = 0;
  iB  : 0 < cnt s SRet -> awaitc s = 1
}.

Lemma inv1_init : forall n m, Inv1 (init n m).
Proof.
  intros n m. constructor; cbn; intros; try lia; try discriminate; auto.
Qed.

Ltac inv_some :=
  match goal with
  | H : Some _ = Some _ |- _ => injection H as H; subst
  | H : None = Some _ |- _ => discriminate H
  end.

(* open up one step of a caller *)
Ltac open_cstep H :=
  unfold cstep in H;
  match type of H with
  | (if ?c =? 0 then _ else _) = _ => let E := fresh "Hpos" in destruct (c =? 0) eqn:E; [discriminate H|apply Nat.eqb_neq in E]
  end.

(* ------------------------------------------------------------------ proof automation *)
Ltac fin := solve [ intuition (try lia; try congruence; try discriminate) ].
Ltac spec_q :=
  repeat match goal with
         | Q : forall n, Some ?m = Some n -> _ |- _ => specialize (Q m eq_refl)
         | Q : forall n, None = Some n -> _ |- _ => clear Q
         end.
Ltac fwd :=
  repeat match goal with
  | H : (_ =? _) = true |- _ => apply Nat.eqb_eq in H
  | H : (_ =? _) = false |- _ => apply Nat.eqb_neq in H
  | H : Some _ = Some _ |- _ => injection H as H; try subst
  | H : _ /\ _ |- _ => destruct H
  | H : ?P -> _ |- _ =>
      match type of P with
      | Prop => let HP := fresh in assert (HP : P) by (lia || congruence || reflexivity); specialize (H HP); clear HP
      end
  end.
Ltac heavy :=
  destruct (req _) as [[|[|?]]|] eqn:?; cbn in *; spec_q; try fin;
  destruct (exitReq _) eqn:?; cbn in *; try fin;
  destruct (started _) eqn:?; cbn in *; try fin;
  destruct (runner _) eqn:?; cbn in *; try fin;
  destruct (lock _) eqn:?; cbn in *; try fin;
  fwd; try fin.
Ltac solve_clause :=
  cbn in *; intros;
  repeat match goal with
         | H : _ /\ _ |- _ => destruct H
         end;
  try fin;
  try (match goal with Q : forall n, req _ = Some n -> _, H : req _ = Some ?m |- _ => specialize (Q m H) end; fin);
  try heavy.

Ltac split_step H :=
  repeat match type of H with
         | context [if ?b then _ else _] => let E := fresh "E" in destruct b eqn:E
         | context [match ?x with _ => _ end] => let E := fresh "E" in destruct x eqn:E
         end; try discriminate H.


Lemma inv1_cstep : forall s p s', Inv1 s -> cstep repaired s p = Some s' -> Inv1 s'.
Proof.
  intros s p s' [L S0 S1 Q1 Q2 X1 X2 X3 X4 A1 A2 A3 E W K V B] H.
  open_cstep H. unfold holders in *.
  destruct p; cbn in H; split_step H; try inv_some.
  all: constructor; solve_clause.
Qed.

Lemma inv1_rstep : forall cfg s s', Inv1 s -> rstep cfg s = Some s' -> Inv1 s'.
Proof.
  intros cfg s s' [L S0 S1 Q1 Q2 X1 X2 X3 X4 A1 A2 A3 E W K V B] H.
  unfold rstep, enter_clean in H. unfold holders in *.
  destruct (runner s) eqn:R; cbn in H; split_step H; try inv_some.
  all: constructor; solve_clause.
Qed.

Lemma inv1_step : forall cfg s l s', Inv1 s -> step repaired cfg s l = Some s' -> Inv1 s'.
Proof.
  intros cfg s [p|] s' I H; cbn in H; [eapply inv1_cstep|eapply inv1_rstep]; eauto.
Qed.

Lemma exec_invariant : forall (P : state -> Prop) v cfg,
  (forall s l s', P s -> step v cfg s l = Some s' -> P s') ->
  forall ls s s', P s -> exec v cfg s ls = Some s' -> P s'.
Proof.
  intros P v cfg Hstep. induction ls as [|l r IH]; intros s s' Hs H; cbn in H.
  - injection H as <-. exact Hs.
  - destruct (step v cfg s l) as [s1|] eqn:E; [|discriminate]. eapply IH; [|exact H]. eapply Hstep; eauto.
Qed.

Lemma inv1_reachable : forall cfg n m s, reachable repaired cfg n m s -> Inv1 s.
Proof.
  intros cfg n m s [ls H]. eapply (exec_invariant Inv1); [|apply inv1_init|exact H].
  intros; eapply inv1_step; eauto.
Qed.

