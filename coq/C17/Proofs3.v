(* C17 — what gets closed: each closable thing exactly once; results of a run *)
From PGV Require Import C17.Model C17.Proofs.
From Coq Require Import Lia Permutation.

Lemma NoDup_snoc : forall (A : Type) (l : list A) x, NoDup l -> ~ In x l -> NoDup (l ++ [x]).
Proof.
  induction l as [|a l IH]; intros x Hn Hx; cbn.
  - constructor; [intros []|constructor].
  - inversion Hn as [|a' l' Ha Hl]; subst. constructor.
    + rewrite in_app_iff. intros [H|[H|[]]]; [contradiction|subst; apply Hx; left; reflexivity].
    + apply IH; [exact Hl|]. intro H. apply Hx. right. exact H.
Qed.

Lemma realise1_nodup : forall r k, NoDup r -> NoDup (realise1 r k).
Proof.
  intros r k H. unfold realise1. destruct (existsb (Nat.eqb k) r) eqn:E; [exact H|].
  apply NoDup_snoc; [exact H|].
  intro Hin. assert (existsb (Nat.eqb k) r = true); [|congruence].
  apply existsb_exists. exists k. split; [exact Hin|apply Nat.eqb_refl].
Qed.

Lemma realise_nodup : forall ks r, NoDup r -> NoDup (realise ks r).
Proof.
  unfold realise. induction ks as [|k ks IH]; intros r H; cbn; [exact H|].
  apply IH. apply realise1_nodup. exact H.
Qed.

(* IncMap.Index never forgets an element *)
Lemma realise1_incl : forall r k x, In x r -> In x (realise1 r k).
Proof.
  intros r k x H. unfold realise1. destruct (existsb (Nat.eqb k) r); [exact H|].
  apply in_app_iff. left. exact H.
Qed.

Lemma NoDup_map_inj : forall (A B : Type) (f : A -> B) l,
  (forall x y, f x = f y -> x = y) -> NoDup l -> NoDup (map f l).
Proof.
  intros A B f l Hinj. induction 1 as [|x l Hx Hl IH]; cbn; constructor; [|exact IH].
  intro H. apply in_map_iff in H as (y & Hy & Hin). apply Hinj in Hy. subst. contradiction.
Qed.

Lemma NoDup_app_disj : forall (A : Type) (l1 l2 : list A),
  NoDup l1 -> NoDup l2 -> (forall x, In x l1 -> In x l2 -> False) -> NoDup (l1 ++ l2).
Proof.
  induction l1 as [|a l1 IH]; intros l2 H1 H2 Hd; cbn; [exact H2|].
  inversion H1 as [|a' l' Ha Hl]; subst. constructor.
  - rewrite in_app_iff. intros [H|H]; [contradiction|]. eapply Hd; [left; reflexivity|exact H].
  - apply IH; [exact Hl|exact H2|]. intros x Hx1 Hx2. eapply Hd; [right; exact Hx1|exact Hx2].
Qed.

Lemma instances_nodup : forall cfg r, NoDup r -> NoDup (instances cfg r).
Proof.
  intros cfg r Hr. unfold instances.
  assert (HL : NoDup (map ILeaf (seq 0 (List.length (c_leaves cfg)))))
    by (apply NoDup_map_inj; [intros x y H; injection H; auto|apply seq_NoDup]).
  assert (HH : NoDup (map IHash (seq 0 (c_hash cfg))))
    by (apply NoDup_map_inj; [intros x y H; injection H; auto|apply seq_NoDup]).
  assert (HI : NoDup (if c_incmap cfg then map IInc r else []))
    by (destruct (c_incmap cfg); [apply NoDup_map_inj; [intros x y H; injection H; auto|exact Hr]|constructor]).
  assert (HN : NoDup (map INest (seq 0 (c_nested cfg))))
    by (apply NoDup_map_inj; [intros x y H; injection H; auto|apply seq_NoDup]).
  repeat apply NoDup_app_disj; auto.
  all: intros x H1 H2; repeat (rewrite in_app_iff in * );
    repeat match goal with
           | H : _ \/ _ |- _ => destruct H
           | H : In _ (map _ _) |- _ => apply in_map_iff in H as (? & ? & ?)
           | H : In _ (if ?b then _ else _) |- _ => destruct b
           | H : In _ [] |- _ => destruct H
           end; congruence.
Qed.

Definition tw (t : list (inst * nat)) : nat := fold_right (fun p a => S (snd p) + a) 0 t.
Definition cw (cfg : config) (r : list nat) : nat := fold_right (fun x a => S (c_cdur cfg x) + a) 0 (instances cfg r).

Lemma tw_closables : forall cfg r, tw (closables cfg r) = cw cfg r.
Proof.
  intros cfg r. unfold closables, cw, tw. induction (instances cfg r) as [|x l IH]; cbn; [reflexivity|].
  f_equal. f_equal. exact IH.
Qed.

Lemma map_fst_closables : forall cfg r, map fst (closables cfg r) = instances cfg r.
Proof.
  intros cfg r. unfold closables. rewrite map_map. cbn. apply map_id.
Qed.

(* ------------------------------------------------------------------ second invariant: lists *)
Record Inv2 (cfg : config) (s : state) : Prop := mkInv2 {
  jN : NoDup (realised s);
  jR : runner s = RNone -> realised s = [] /\ commits s = 0;
  jC : match runner s with
       | RNone | RPre | RPoll | RBody => closed s = [] /\ todo s = []
       | RClean => rev (closed s) ++ map fst (todo s) = instances cfg (realised s)
       | _ => todo s = [] /\ rev (closed s) = instances cfg (realised s)
       end;
  jS : match runner s with
       | RRet => results s = [mkRes (endw s) (close_err cfg (closed s))]
       | _ => results s = []
       end;
  jE : match runner s with
       | RClean | RLock1 | RCloseAwait | RNilReq | RUnl1 | RRet => endw s <> None
       | _ => True
       end
}.

Lemma inv2_init : forall cfg n m, Inv2 cfg (init n m).
Proof. intros. constructor; cbn; auto. constructor. Qed.

Lemma inv2_cstep : forall cfg s p s', Inv1 s -> Inv2 cfg s -> cstep repaired s p = Some s' -> Inv2 cfg s'.
Proof.
  intros cfg s p s' I1 [N R C S E] H.
  open_cstep H.
  destruct p; cbn in H; split_step H; try inv_some.
  all: try solve [constructor; cbn; assumption].
  (* RUnlGo: the caller becomes the runner *)
  assert (Hr : runner s = RNone).
  { destruct (started s) eqn:Es.
    - destruct (iS1 s I1 Es) as [_ H1]. destruct (runner s); cbn in H1; try lia; reflexivity.
    - apply (iS0 s I1 Es). }
  rewrite Hr in *. destruct (R eq_refl) as [R1 R2]. destruct C as [C1 C2].
  constructor; cbn; auto.
Qed.

Lemma inv2_rstep : forall cfg s s', Inv1 s -> Inv2 cfg s -> rstep cfg s = Some s' -> Inv2 cfg s'.
Proof.
  intros cfg s s' I1 [N R C S E] H.
  unfold rstep, enter_clean in H.
  destruct (runner s) eqn:Er; cbn in H; split_step H; try inv_some.
  all: constructor; cbn; rewrite ?Er; auto; try discriminate; try congruence.
  all: try (match type of C with _ /\ _ => destruct C as [C1 C2]; rewrite ?C1, ?C2; cbn; rewrite ?map_fst_closables; auto end).
  all: try (apply realise_nodup; assumption).
  all: try (rewrite E0 in C; cbn in C).
  all: try (split; auto; rewrite ?app_nil_r in *; cbn in *; congruence).
  all: try (rewrite <- app_assoc; cbn; assumption).
  all: try (rewrite S; reflexivity).
Qed.

Lemma inv2_step : forall cfg s l s', Inv1 s -> Inv2 cfg s -> step repaired cfg s l = Some s' -> Inv2 cfg s'.
Proof.
  intros cfg s [p|] s' I1 I2 H; cbn in H; [eapply inv2_cstep|eapply inv2_rstep]; eauto.
Qed.

Definition Inv (cfg : config) (s : state) : Prop := Inv1 s /\ Inv2 cfg s.

Lemma inv_reachable : forall cfg n m s, reachable repaired cfg n m s -> Inv cfg s.
Proof.
  intros cfg n m s [ls H]. eapply (exec_invariant (Inv cfg)); [| |exact H].
  - intros s0 l s1 [I1 I2] Hs. split; [eapply inv1_step|eapply inv2_step]; eauto.
  - split; [apply inv1_init|apply inv2_init].
Qed.
