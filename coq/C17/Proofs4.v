(* C17 — termination measure, the point of no return, nothing commits after a Stop has returned *)
From PGV Require Import C17.Model C17.Proofs C17.Proofs3.
From Coq Require Import Lia.

Definition wsum (s : state) : nat :=
  7 * cnt s SIdle + 6 * cnt s SLock + 5 * cnt s SHold + 4 * cnt s SSet1a + 3 * cnt s SSend
  + 4 * cnt s SSet2a + 3 * cnt s SSel + 2 * cnt s SUnl + cnt s SWait
  + 4 * cnt s RIdle + 3 * cnt s RLock + 2 * cnt s RHold + cnt s RUnlRefuse + cnt s RUnlNil + cnt s RUnlGo.

(* the elements the IncMap will hold when the current attempt has finished *)
Definition touched (cfg : config) (s : state) : list nat :=
  if c_incmap cfg then realise (a_touch (c_plan cfg (att s))) (realised s) else realised s.

(* what the runner still has to do if the next poll finds a request *)
Definition rmeasure (cfg : config) (s : state) : nat :=
  match runner s with
  | RNone => if started s then 7 + cw cfg [] else 8 + cw cfg []
  | RPre => 7 + cw cfg (realised s)
  | RPoll => 6 + cw cfg (realised s)
  | RBody => 7 + dur s + cw cfg (touched cfg s)
  | RClean => 5 + tw (todo s)
  | RLock1 => 4 | RCloseAwait => 3 | RNilReq => 2 | RUnl1 => 1 | RRet => 0
  end.

Definition mu (cfg : config) (s : state) : nat := wsum s + rmeasure cfg s.

(* the only step that does not decrease mu: the loop-head poll finding no request *)
Definition poll_miss (s : state) (l : label) : Prop :=
  l = LR /\ runner s = RPoll /\ req s <> Some 1.

Lemma mu_cstep : forall cfg s p s',
  Inv cfg s -> cstep repaired s p = Some s' -> mu cfg s' < mu cfg s.
Proof.
  intros cfg s p s' [[L S0 S1 Q1 Q2 X1 X2 X3 X4 A1 A2 A3 E W K V B] [N R C S Ee]] H.
  open_cstep H. unfold mu, wsum, rmeasure, touched.
  destruct p; cbn in H; split_step H; try inv_some; cbn [cnt set_cnt set_lock set_exitReq set_awaitc set_req set_started
     set_entered set_runner set_endw set_todo mv dec move decr pc_beq runner started realised dur todo att].
  all: try (destruct (runner s) eqn:Er; destruct (started s) eqn:Es; cbn in *; lia).
  (* RUnlGo: the caller becomes the runner; nothing has been realised yet *)
  assert (Hr : runner s = RNone).
  { destruct (started s) eqn:Es.
    - destruct (S1 eq_refl) as [_ H1]. destruct (runner s); cbn in H1; try lia; reflexivity.
    - apply (S0 eq_refl). }
  destruct (R Hr) as [-> _]. rewrite Hr.
  destruct (started s) eqn:Es; [|destruct (S0 eq_refl) as (_ & ? & _); lia].
  generalize (cw cfg []). intros k. lia.
Qed.

Lemma mu_rstep : forall cfg s s',
  Inv cfg s -> rstep cfg s = Some s' -> (runner s = RPoll /\ req s <> Some 1) \/ mu cfg s' < mu cfg s.
Proof.
  intros cfg s s' [[L S0 S1 Q1 Q2 X1 X2 X3 X4 A1 A2 A3 E W K V B] [N R C S Ee]] H.
  unfold rstep, enter_clean in H. unfold mu, wsum, rmeasure, touched.
  destruct (runner s) eqn:Er; cbn in H; split_step H; try inv_some.
  all: try (left; split; [reflexivity|congruence]).
  all: right; cbn; rewrite ?Er; cbn; rewrite ?tw_closables; unfold touched; rewrite ?E0, ?E1, ?E2; cbn; try lia.
Qed.

Lemma mu_step : forall cfg s l s',
  Inv cfg s -> step repaired cfg s l = Some s' -> poll_miss s l \/ mu cfg s' < mu cfg s.
Proof.
  intros cfg s [p|] s' I H; cbn in H.
  - right. eapply mu_cstep; eauto.
  - destruct (mu_rstep cfg s s' I H) as [[H1 H2]|H1]; [left; repeat split; assumption|right; exact H1].
Qed.

(* ------------------------------------------------------------------ the point of no return *)
(* an exit request is in force: the flag is set and the item is in the channel (or was consumed), or the started run
   has left its loop *)
Definition leaving (s : state) : Prop :=
  (exitReq s = true /\ cnt s SSend = 0) \/ (started s = true /\ cnt s RUnlGo = 0 /\ r_loop (runner s) = false).

Lemma leaving_no_miss : forall s l, Inv1 s -> leaving s -> ~ poll_miss s l.
Proof.
  intros s l I [[He Hs]|(Hst & Hg & Hl)] (Hl1 & Hr & Hq).
  - destruct (iK s I He) as [H|H]; [rewrite Hr; cbn; lia|congruence|lia].
  - rewrite Hr in Hl. discriminate.
Qed.

Lemma leaving_cstep : forall s p s', Inv1 s -> leaving s -> cstep repaired s p = Some s' -> leaving s'.
Proof.
  intros s p s' [L S0 S1 Q1 Q2 X1 X2 X3 X4 A1 A2 A3 E W K V B] Hlv H.
  open_cstep H. unfold leaving, holders in *.
  destruct p; cbn in H; split_step H; try inv_some; cbn.
  all: try solve [ destruct Hlv as [[? ?]|(? & ? & ?)]; [left|right]; repeat split; cbn; fwd; try lia; try congruence ].
  all: try solve [ exfalso; apply Bool.orb_false_iff in E0; destruct E0; destruct Hlv as [[? ?]|(? & ? & ?)]; cbn in *; congruence ].
Qed.

Lemma leaving_rstep : forall cfg s s', Inv1 s -> leaving s -> rstep cfg s = Some s' -> leaving s'.
Proof.
  intros cfg s s' [L S0 S1 Q1 Q2 X1 X2 X3 X4 A1 A2 A3 E W K V B] Hlv H.
  unfold rstep, enter_clean in H. unfold leaving, holders in *.
  destruct (runner s) eqn:Er; cbn in H; split_step H; try inv_some; cbn; rewrite ?Er.
  all: try solve [ destruct Hlv as [[? ?]|(? & ? & ?)]; [left|right]; repeat split; cbn in *; fwd; try lia; try congruence ].
Qed.

Lemma leaving_step : forall cfg s l s', Inv1 s -> leaving s -> step repaired cfg s l = Some s' -> leaving s'.
Proof.
  intros cfg s [p|] s' I Hl H; cbn in H; [eapply leaving_cstep|eapply leaving_rstep]; eauto.
Qed.

(* once an exit request is in force, every execution — whatever the scheduler does, whoever else calls Stop or Run —
   is at most mu steps long *)
Lemma leaving_bounded : forall cfg ls s s',
  Inv cfg s -> leaving s -> exec repaired cfg s ls = Some s' ->
  List.length ls + mu cfg s' <= mu cfg s /\ leaving s' /\ Inv cfg s'.
Proof.
  intros cfg. induction ls as [|l r IH]; intros s s' I Hl H; cbn in H.
  - injection H as <-. split; [cbn [List.length]; lia|split; assumption].
  - destruct (step repaired cfg s l) as [s1|] eqn:Es; [|discriminate].
    assert (I1 : Inv cfg s1) by (destruct I as [Ia Ib]; split; [eapply inv1_step|eapply inv2_step]; eauto).
    assert (Hl1 : leaving s1) by (eapply leaving_step; [apply I|exact Hl|exact Es]).
    destruct (IH s1 s' I1 Hl1 H) as (Hb & Hl' & I').
    destruct (mu_step cfg s l s1 I Es) as [Hm|Hm].
    + exfalso. eapply leaving_no_miss; [apply I|exact Hl|exact Hm].
    + split; [cbn [List.length]; lia|split; assumption].
Qed.

(* a Stop call that has got past its request (it is unlocking, waiting or has returned) has put the request in force *)
Lemma past_request_leaving : forall s,
  Inv1 s -> 0 < cnt s SUnl + cnt s SWait + cnt s SRet -> leaving s.
Proof.
  intros s I H. left. split; [apply (iW s I H)|].
  destruct (Nat.eq_dec (cnt s SSend) 0) as [e|e]; [exact e|]. assert (Hs : 0 < cnt s SSend) by lia.
  pose proof (iV s I Hs). lia.
Qed.

