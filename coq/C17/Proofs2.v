(* C17 — progress: no deadlock, termination measure *)
From PGV Require Import C17.Model C17.Proofs.
From Coq Require Import Lia.

(* ------------------------------------------------------------------ no deadlock *)
Lemma enabled_intro : forall v cfg s l,
  In l labels_nocall -> step v cfg s l <> None -> can_step v cfg s = true.
Proof.
  intros v cfg s l Hin Hs. unfold can_step. apply existsb_exists. exists l. split; [exact Hin|].
  destruct (step v cfg s l); [reflexivity|congruence].
Qed.

Ltac use_label lab := apply (fun v cfg s => @enabled_intro v cfg s lab); [cbn; tauto|].
Ltac caller_enabled s P t :=
  let z := fresh "z" in
  destruct (Nat.eq_dec (cnt s P) 0) as [z|z];
  [| use_label (LC P); cbn [step]; unfold cstep; rewrite (proj2 (Nat.eqb_neq _ _) z); cbn; solve [t] ].

Lemma deadlock_free_lemma : forall cfg s,
  Inv1 s -> inflight s = true -> can_step repaired cfg s = true.
Proof.
  intros cfg s [L S0 S1 Q1 Q2 X1 X2 X3 X4 A1 A2 A3 E W K V B] Hin. unfold holders in *.
  caller_enabled s SHold ltac:(destruct (exitReq s), (is_some (req s)); discriminate).
  caller_enabled s SSet1a ltac:(discriminate).
  caller_enabled s SSend ltac:(destruct X2 as [-> _]; [lia|discriminate]).
  caller_enabled s SSet2a ltac:(discriminate).
  caller_enabled s SSel ltac:(discriminate).
  caller_enabled s SUnl ltac:(discriminate).
  caller_enabled s RHold ltac:(cbn; destruct (is_some (req s) || started s), (exitReq s); discriminate).
  caller_enabled s RUnlRefuse ltac:(discriminate).
  caller_enabled s RUnlNil ltac:(discriminate).
  caller_enabled s RUnlGo ltac:(discriminate).
  (* the runner, wherever it can move without the mutex *)
  destruct (runner s) eqn:R; cbn in *.
  all: try solve [ use_label LR; cbn [step]; unfold rstep; rewrite R;
                   first [ destruct (c_pre_panics cfg); discriminate
                         | destruct (req s) as [[|?]|]; discriminate
                         | destruct (dur s); [destruct (a_what (c_plan cfg (att s)))|]; discriminate
                         | destruct (todo s) as [|[x [|d]] rest]; discriminate
                         | destruct (awaitc s =? 0); discriminate
                         | discriminate ] ].
  - (* RNone *)
    assert (Hl : lock s = false) by (destruct (lock s); [cbn in L; lia|reflexivity]).
    caller_enabled s SLock ltac:(rewrite Hl; discriminate).
    caller_enabled s RLock ltac:(rewrite Hl; discriminate).
    assert (Haw : awaitc s = 0 -> cnt s SWait = 0).
    { intros Ea. destruct (Nat.eq_dec (cnt s SWait) 0) as [e|e]; [exact e|exfalso].
      assert (He : exitReq s = true) by (apply W; lia).
      destruct (E He Ea) as [Hq|Hq]; [|lia].
      destruct (req s); cbn in *; [lia|discriminate]. }
    caller_enabled s SWait ltac:(destruct (awaitc s =? 0) eqn:Ea; [apply Nat.eqb_eq in Ea; specialize (Haw Ea); lia|discriminate]).
    unfold inflight, runner_active, sum_cnt, inflight_pcs in Hin. rewrite R in Hin. cbn in Hin.
    rewrite z, z0, z1, z2, z3, z4, z5, z6, z7, z8, z9, z10, z11 in Hin. cbn in Hin. discriminate.
  - (* RLock1 *)
    assert (Hl : lock s = false) by (destruct (lock s); [cbn in L; lia|reflexivity]).
    use_label LR; cbn [step]; unfold rstep; rewrite R, Hl. discriminate.
  - (* RRet *)
    assert (Hl : lock s = false) by (destruct (lock s); [cbn in L; lia|reflexivity]).
    caller_enabled s SLock ltac:(rewrite Hl; discriminate).
    caller_enabled s RLock ltac:(rewrite Hl; discriminate).
    caller_enabled s SWait ltac:(rewrite A3 by reflexivity; discriminate).
    unfold inflight, runner_active, sum_cnt, inflight_pcs in Hin. rewrite R in Hin. cbn in Hin.
    rewrite z, z0, z1, z2, z3, z4, z5, z6, z7, z8, z9, z10, z11 in Hin. cbn in Hin. discriminate.
Qed.

(* ------------------------------------------------------------------ the mutex is never held by a blocked goroutine *)
Definition holding_pcs : list pc := [SHold; SSet1a; SSend; SSet2a; SSel; SUnl; RHold; RUnlRefuse; RUnlNil; RUnlGo].
Definition holder_can_step (v : variant) (cfg : config) (s : state) : bool :=
  existsb (fun p => negb (cnt s p =? 0) && is_some (cstep v s p)) holding_pcs
  || (r_holds (runner s) && is_some (rstep cfg s)).

Lemma holder_intro : forall v cfg s p,
  In p holding_pcs -> cnt s p <> 0 -> cstep v s p <> None -> holder_can_step v cfg s = true.
Proof.
  intros v cfg s p Hin Hc Hs. unfold holder_can_step. apply Bool.orb_true_iff. left.
  apply existsb_exists. exists p. split; [exact Hin|].
  apply Bool.andb_true_iff. split.
  - apply Bool.negb_true_iff. apply Nat.eqb_neq. exact Hc.
  - destruct (cstep v s p); [reflexivity|congruence].
Qed.

Ltac holder_case s P t :=
  let z := fresh "z" in
  destruct (Nat.eq_dec (cnt s P) 0) as [z|z];
  [| apply (fun v cfg => @holder_intro v cfg s P); [cbn; tauto|exact z|];
     unfold cstep; rewrite (proj2 (Nat.eqb_neq _ _) z); cbn; solve [t] ].

Lemma lock_holder_lemma : forall cfg s,
  Inv1 s -> lock s = true -> holder_can_step repaired cfg s = true.
Proof.
  intros cfg s [L S0 S1 Q1 Q2 X1 X2 X3 X4 A1 A2 A3 E W K V B] Hl. unfold holders in *. rewrite Hl in L. cbn in L.
  holder_case s SHold ltac:(destruct (exitReq s), (is_some (req s)); discriminate).
  holder_case s SSet1a ltac:(discriminate).
  holder_case s SSend ltac:(destruct X2 as [-> _]; [lia|discriminate]).
  holder_case s SSet2a ltac:(discriminate).
  holder_case s SSel ltac:(discriminate).
  holder_case s SUnl ltac:(discriminate).
  holder_case s RHold ltac:(cbn; destruct (is_some (req s) || started s), (exitReq s); discriminate).
  holder_case s RUnlRefuse ltac:(discriminate).
  holder_case s RUnlNil ltac:(discriminate).
  holder_case s RUnlGo ltac:(discriminate).
  unfold holder_can_step. apply Bool.orb_true_iff. right.
  destruct (runner s) eqn:R; cbn in L; try lia; unfold rstep; rewrite R; cbn.
  - destruct (awaitc s =? 0); reflexivity.
  - reflexivity.
  - reflexivity.
Qed.
