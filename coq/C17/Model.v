(* C17 -- executable model of the Run/Stop/Close lifecycle of distsys.MPCalContext
   (distsys/mpcalctx.go: Run, Stop, cleanupResources; resources/incmap.go, hashmap.go, nestedarch.go Close).
   Model only: no proofs here.

   Threads: ANY number of goroutines calling Stop and ANY number calling Run.  They are anonymous, so the
   state records HOW MANY callers sit at each program point (`cnt : pc -> nat`, counting abstraction); the one
   caller of Run that got past the start-up check ("the runner") has its own program counter `runner` and its
   local variables (attempt number, remaining body time, err, the resources still to close).
   A step is "some caller at program point p executes its next statement" (label `LC p`) or "the runner executes
   its next statement" (`LR`).  `step` returns None when that statement cannot execute now (no caller there, mutex
   held by someone else, send on a full channel, receive on an open channel).  Every interleaving of the real
   goroutines is a list of labels; theorems quantify over all lists.

   Statement-by-statement correspondence (mpcalctx.go):
     Stop:  SIdle  (not yet called)            -> SLock   call; requireRunnable
            SLock  runStateLock.Lock()         -> SHold
            SHold  if requestExit != nil {if !exitRequested -> SSet1a else -> SUnl (case 1b)}
                   else {if !exitRequested -> SSet2a else -> SUnl (case 2b)}
            SSet1a exitRequested = true        -> SSend   (the repaired line; absent when fix_1a = false)
            SSend  requestExit <- struct{}{}   -> SUnl    (buffered, capacity 1: BLOCKS while an item is in it)
            SSet2a exitRequested = true        -> SSel
            SSel   select {case <-awaitExit: default: close(awaitExit)} -> SUnl
            SUnl   deferred Unlock()           -> SWait
            SWait  <-awaitExit                 -> SRet    (blocks until closed)
     Run:   RIdle -> RLock (call) -> RHold (Lock) ->
            RHold  if requestExit != nil || runStarted -> RUnlRefuse (panic "already been run"; deferred Unlock)
                   else if exitRequested -> RUnlNil (return nil without running)
                   else requestExit = make(chan,1); runStarted = true -> RUnlGo
            RUnlGo Unlock -> becomes the runner at RPre
     runner: RPre (preRun, may panic) -> RPoll (loop head: select on requestExit) -> RBody (one attempt: body, then
            commit / abort / return) -> RPoll ... -> RClean (deferred cleanupResources: Close of every resource, each
            of arbitrary duration) -> RLock1 (Lock) -> RCloseAwait (close(awaitExit)) -> RNilReq (requestExit = nil)
            -> RUnl1 (Unlock; Run returns) -> RRet.
   The loop body is abstracted to the plan `c_plan : nat -> attempt`: attempt i takes `a_dur` steps, indexes the
   IncMap keys `a_touch`, and then commits, aborts, or ends the run in one of the ways a run can end.  Commit
   events therefore happen only between a loop-head poll and the next one. *)
From Coq Require Export List Arith Bool PeanoNat.
Export ListNotations.

Record variant := mkVar { fix_1a : bool; fix_rerun : bool }.
Definition repaired : variant := mkVar true true.   (* the tree after the two fix: commits *)
Definition pinned : variant := mkVar false false.   (* the tree as pinned *)

Inductive pc :=
  | SIdle | SLock | SHold | SSet1a | SSend | SSet2a | SSel | SUnl | SWait | SRet
  | RIdle | RLock | RHold | RUnlRefuse | RUnlNil | RUnlGo | RRefused | RNotStarted.
Scheme Equality for pc.

Inductive rpc := RNone | RPre | RPoll | RBody | RClean | RLock1 | RCloseAwait | RNilReq | RUnl1 | RRet.
Scheme Equality for rpc.

(* the ways a run can end *)
Inductive endway := EDone | EStopped | EAssert | EFall | EResErr | EPanic.
Scheme Equality for endway.

Inductive what := WCommit | WAbort | WEnd (w : endway).

Record attempt := mkAtt { a_dur : nat; a_what : what; a_touch : list nat }.

(* closable things: leaf resources, the elements of a HashMap resource, the elements an IncMap has realised,
   Nested resources (whose Close stops and drains the contexts inside; see nested_drained in Properties) *)
Inductive inst := ILeaf (i : nat) | IHash (i : nat) | IInc (key : nat) | INest (i : nat).
Scheme Equality for inst.

Record config := mkCfg {
  c_plan : nat -> attempt;
  c_pre_panics : bool;         (* preRun panics (a required parameter is missing) *)
  c_leaves : list bool;        (* leaf resources; true: its Close returns an error *)
  c_hash : nat;                (* number of elements of the HashMap resource *)
  c_incmap : bool;             (* an IncMap resource is configured *)
  c_nested : nat;              (* number of Nested resources *)
  c_cdur : inst -> nat;        (* how long the Close of each thing takes *)
  c_eerr : inst -> bool        (* does the Close of a map element / nested context return an error *)
}.

Record result := mkRes { r_end : option endway; r_close_err : bool }.

Record state := mkSt {
  cnt : pc -> nat;
  lock : bool;
  exitReq : bool;
  started : bool;
  req : option nat;
  awaitc : nat;
  runner : rpc;
  att : nat;
  dur : nat;
  endw : option endway;
  todo : list (inst * nat);
  closed : list inst;
  realised : list nat;
  commits : nat;
  aborts : nat;
  entered : nat;
  results : list result
}.

Definition set_cnt (v : pc -> nat) (s : state) : state :=
  mkSt v (lock s) (exitReq s) (started s) (req s) (awaitc s) (runner s) (att s) (dur s) (endw s) (todo s) (closed s) (realised s) (commits s) (aborts s) (entered s) (results s).
Definition set_lock (v : bool) (s : state) : state :=
  mkSt (cnt s) v (exitReq s) (started s) (req s) (awaitc s) (runner s) (att s) (dur s) (endw s) (todo s) (closed s) (realised s) (commits s) (aborts s) (entered s) (results s).
Definition set_exitReq (v : bool) (s : state) : state :=
  mkSt (cnt s) (lock s) v (started s) (req s) (awaitc s) (runner s) (att s) (dur s) (endw s) (todo s) (closed s) (realised s) (commits s) (aborts s) (entered s) (results s).
Definition set_started (v : bool) (s : state) : state :=
  mkSt (cnt s) (lock s) (exitReq s) v (req s) (awaitc s) (runner s) (att s) (dur s) (endw s) (todo s) (closed s) (realised s) (commits s) (aborts s) (entered s) (results s).
Definition set_req (v : option nat) (s : state) : state :=
  mkSt (cnt s) (lock s) (exitReq s) (started s) v (awaitc s) (runner s) (att s) (dur s) (endw s) (todo s) (closed s) (realised s) (commits s) (aborts s) (entered s) (results s).
Definition set_awaitc (v : nat) (s : state) : state :=
  mkSt (cnt s) (lock s) (exitReq s) (started s) (req s) v (runner s) (att s) (dur s) (endw s) (todo s) (closed s) (realised s) (commits s) (aborts s) (entered s) (results s).
Definition set_runner (v : rpc) (s : state) : state :=
  mkSt (cnt s) (lock s) (exitReq s) (started s) (req s) (awaitc s) v (att s) (dur s) (endw s) (todo s) (closed s) (realised s) (commits s) (aborts s) (entered s) (results s).
Definition set_att (v : nat) (s : state) : state :=
  mkSt (cnt s) (lock s) (exitReq s) (started s) (req s) (awaitc s) (runner s) v (dur s) (endw s) (todo s) (closed s) (realised s) (commits s) (aborts s) (entered s) (results s).
Definition set_dur (v : nat) (s : state) : state :=
  mkSt (cnt s) (lock s) (exitReq s) (started s) (req s) (awaitc s) (runner s) (att s) v (endw s) (todo s) (closed s) (realised s) (commits s) (aborts s) (entered s) (results s).
Definition set_endw (v : option endway) (s : state) : state :=
  mkSt (cnt s) (lock s) (exitReq s) (started s) (req s) (awaitc s) (runner s) (att s) (dur s) v (todo s) (closed s) (realised s) (commits s) (aborts s) (entered s) (results s).
Definition set_todo (v : list (inst * nat)) (s : state) : state :=
  mkSt (cnt s) (lock s) (exitReq s) (started s) (req s) (awaitc s) (runner s) (att s) (dur s) (endw s) v (closed s) (realised s) (commits s) (aborts s) (entered s) (results s).
Definition set_closed (v : list inst) (s : state) : state :=
  mkSt (cnt s) (lock s) (exitReq s) (started s) (req s) (awaitc s) (runner s) (att s) (dur s) (endw s) (todo s) v (realised s) (commits s) (aborts s) (entered s) (results s).
Definition set_realised (v : list nat) (s : state) : state :=
  mkSt (cnt s) (lock s) (exitReq s) (started s) (req s) (awaitc s) (runner s) (att s) (dur s) (endw s) (todo s) (closed s) v (commits s) (aborts s) (entered s) (results s).
Definition set_commits (v : nat) (s : state) : state :=
  mkSt (cnt s) (lock s) (exitReq s) (started s) (req s) (awaitc s) (runner s) (att s) (dur s) (endw s) (todo s) (closed s) (realised s) v (aborts s) (entered s) (results s).
Definition set_aborts (v : nat) (s : state) : state :=
  mkSt (cnt s) (lock s) (exitReq s) (started s) (req s) (awaitc s) (runner s) (att s) (dur s) (endw s) (todo s) (closed s) (realised s) (commits s) v (entered s) (results s).
Definition set_entered (v : nat) (s : state) : state :=
  mkSt (cnt s) (lock s) (exitReq s) (started s) (req s) (awaitc s) (runner s) (att s) (dur s) (endw s) (todo s) (closed s) (realised s) (commits s) (aborts s) v (results s).
Definition set_results (v : list result) (s : state) : state :=
  mkSt (cnt s) (lock s) (exitReq s) (started s) (req s) (awaitc s) (runner s) (att s) (dur s) (endw s) (todo s) (closed s) (realised s) (commits s) (aborts s) (entered s) v.

Definition move (p q : pc) (c : pc -> nat) : pc -> nat :=
  fun x => if pc_beq x q then (if pc_beq x p then c x else S (c x))
           else if pc_beq x p then pred (c x) else c x.
Definition decr (p : pc) (c : pc -> nat) : pc -> nat :=
  fun x => if pc_beq x p then pred (c x) else c x.
Definition mv (p q : pc) (s : state) : state := set_cnt (move p q (cnt s)) s.
Definition dec (p : pc) (s : state) : state := set_cnt (decr p (cnt s)) s.

Definition is_some {A} (o : option A) : bool := match o with Some _ => true | None => false end.

(* IncMap.Index: an already realised key returns the existing element, a new key calls the fill function once *)
Definition realise1 (r : list nat) (k : nat) : list nat :=
  if existsb (Nat.eqb k) r then r else r ++ [k].
Definition realise (ks r : list nat) : list nat := fold_left realise1 ks r.

Definition instances (cfg : config) (realised : list nat) : list inst :=
  map ILeaf (seq 0 (List.length (c_leaves cfg))) ++ map IHash (seq 0 (c_hash cfg))
  ++ (if c_incmap cfg then map IInc realised else []) ++ map INest (seq 0 (c_nested cfg)).

(* cleanupResources: every registered resource, IncMap/HashMap every (realised) element; the order is Go's map
   iteration order and is not observable in what we project, so one order is fixed here *)
Definition closables (cfg : config) (realised : list nat) : list (inst * nat) :=
  map (fun x => (x, c_cdur cfg x)) (instances cfg realised).

Definition leaf_err (cfg : config) (x : inst) : bool :=
  match x with ILeaf i => nth i (c_leaves cfg) false | _ => c_eerr cfg x end.
Definition close_err (cfg : config) (cl : list inst) : bool := existsb (leaf_err cfg) cl.

(* a caller at program point p executes its next statement *)
Definition cstep (v : variant) (s : state) (p : pc) : option state :=
  if cnt s p =? 0 then None else
  match p with
  | SIdle => Some (mv SIdle SLock s)
  | SLock => if lock s then None else Some (set_lock true (mv SLock SHold s))
  | SHold => Some (if exitReq s then mv SHold SUnl s
                   else if is_some (req s) then mv SHold SSet1a s else mv SHold SSet2a s)
  | SSet1a => Some (set_exitReq (if fix_1a v then true else exitReq s) (mv SSet1a SSend s))
  | SSend => match req s with
             | Some 0 => Some (set_req (Some 1) (mv SSend SUnl s))
             | _ => None          (* buffer full: blocked (or nil channel: blocked forever) *)
             end
  | SSet2a => Some (set_exitReq true (mv SSet2a SSel s))
  | SSel => Some (set_awaitc (if awaitc s =? 0 then 1 else awaitc s) (mv SSel SUnl s))
  | SUnl => Some (set_lock false (mv SUnl SWait s))
  | SWait => if awaitc s =? 0 then None else Some (mv SWait SRet s)
  | SRet => None
  | RIdle => Some (mv RIdle RLock s)
  | RLock => if lock s then None else Some (set_lock true (mv RLock RHold s))
  | RHold => Some (if is_some (req s) || (fix_rerun v && started s) then mv RHold RUnlRefuse s
                   else if exitReq s then mv RHold RUnlNil s
                   else set_req (Some 0) (set_started true (set_entered (S (entered s)) (mv RHold RUnlGo s))))
  | RUnlRefuse => Some (set_lock false (mv RUnlRefuse RRefused s))
  | RUnlNil => Some (set_lock false (mv RUnlNil RNotStarted s))
  | RUnlGo => Some (set_lock false (set_runner RPre (set_endw None (set_todo [] (dec RUnlGo s)))))
  | RRefused | RNotStarted => None
  end.

Definition enter_clean (cfg : config) (w : endway) (s : state) : state :=
  set_runner RClean (set_endw (Some w) (set_todo (closables cfg (realised s)) s)).

(* the runner executes its next statement *)
Definition rstep (cfg : config) (s : state) : option state :=
  match runner s with
  | RNone | RRet => None
  | RPre => Some (if c_pre_panics cfg then enter_clean cfg EPanic s else set_runner RPoll s)
  | RPoll => match req s with
             | Some (S n) => Some (enter_clean cfg EStopped (set_req (Some n) s))
             | _ => Some (set_runner RBody (set_dur (a_dur (c_plan cfg (att s))) s))
             end
  | RBody => match dur s with
             | S d => Some (set_dur d s)
             | 0 => let a := c_plan cfg (att s) in
                    let s1 := set_att (S (att s))
                                (set_realised (if c_incmap cfg then realise (a_touch a) (realised s) else realised s) s) in
                    Some (match a_what a with
                          | WCommit => set_runner RPoll (set_commits (S (commits s1)) s1)
                          | WAbort => set_runner RPoll (set_aborts (S (aborts s1)) s1)
                          | WEnd w => enter_clean cfg w s1
                          end)
             end
  | RClean => match todo s with
              | (x, S d) :: rest => Some (set_todo ((x, d) :: rest) s)
              | (x, 0) :: rest => Some (set_closed (x :: closed s) (set_todo rest s))
              | [] => Some (set_runner RLock1 s)
              end
  | RLock1 => if lock s then None else Some (set_lock true (set_runner RCloseAwait s))
  | RCloseAwait => if awaitc s =? 0 then Some (set_awaitc 1 (set_runner RNilReq s))
                   else (* close of a closed channel panics: requestExit = nil is skipped, the deferred Unlock runs *)
                     Some (set_awaitc (S (awaitc s)) (set_endw (Some EPanic) (set_runner RUnl1 s)))
  | RNilReq => Some (set_req None (set_runner RUnl1 s))
  | RUnl1 => Some (set_lock false (set_runner RRet
                     (set_results (mkRes (endw s) (close_err cfg (closed s)) :: results s) s)))
  end.

Inductive label := LC (p : pc) | LR.

Definition step (v : variant) (cfg : config) (s : state) (l : label) : option state :=
  match l with LC p => cstep v s p | LR => rstep cfg s end.

Fixpoint exec (v : variant) (cfg : config) (s : state) (ls : list label) : option state :=
  match ls with
  | [] => Some s
  | l :: r => match step v cfg s l with Some s' => exec v cfg s' r | None => None end
  end.

(* n goroutines that will call Stop, m that will call Run *)
Definition init (n m : nat) : state :=
  mkSt (fun p => match p with SIdle => n | RIdle => m | _ => 0 end)
       false false false None 0 RNone 0 0 None [] [] [] 0 0 0 [].

Definition reachable (v : variant) (cfg : config) (n m : nat) (s : state) : Prop :=
  exists ls, exec v cfg (init n m) ls = Some s.

(* ---- observables ---- *)
Definition stop_pcs : list pc := [SIdle; SLock; SHold; SSet1a; SSend; SSet2a; SSel; SUnl; SWait; SRet].
Definition run_pcs : list pc := [RIdle; RLock; RHold; RUnlRefuse; RUnlNil; RUnlGo; RRefused; RNotStarted].
Definition all_pcs : list pc := stop_pcs ++ run_pcs.
(* callers that have been called and have not returned *)
Definition inflight_pcs : list pc :=
  [SLock; SHold; SSet1a; SSend; SSet2a; SSel; SUnl; SWait; RLock; RHold; RUnlRefuse; RUnlNil; RUnlGo].
Definition sum_cnt (s : state) (ps : list pc) : nat := fold_right (fun p a => cnt s p + a) 0 ps.
Definition runner_active (s : state) : bool :=
  match runner s with RNone | RRet => false | _ => true end.
Definition inflight (s : state) : bool := negb (sum_cnt s inflight_pcs =? 0) || runner_active s.

Definition labels_nocall : list label :=
  LR :: map LC [SLock; SHold; SSet1a; SSend; SSet2a; SSel; SUnl; SWait; RLock; RHold; RUnlRefuse; RUnlNil; RUnlGo].
Definition can_step (v : variant) (cfg : config) (s : state) : bool :=
  existsb (fun l => is_some (step v cfg s l)) labels_nocall.

(* ---- deterministic driving of the LTS by a phase script (what harness/cmd/c17 does to the real code) ---- *)
Fixpoint first_enabled (v : variant) (cfg : config) (allowed : state -> label -> bool) (s : state)
         (ls : list label) : option state :=
  match ls with
  | [] => None
  | l :: r => if allowed s l then match step v cfg s l with
                                  | Some s' => Some s'
                                  | None => first_enabled v cfg allowed s r
                                  end
              else first_enabled v cfg allowed s r
  end.
Fixpoint sat (fuel : nat) (v : variant) (cfg : config) (allowed : state -> label -> bool) (s : state) : state :=
  match fuel with
  | 0 => s
  | S f => match first_enabled v cfg allowed s labels_nocall with
           | Some s' => sat f v cfg allowed s'
           | None => s
           end
  end.

Definition is_stop_pc (p : pc) : bool := existsb (pc_beq p) stop_pcs.
Definition only_stops (s : state) (l : label) : bool := match l with LC p => is_stop_pc p | LR => false end.
Definition only_callers (s : state) (l : label) : bool := match l with LC p => negb (is_stop_pc p) | LR => false end.
(* the body of an attempt and the first Close are gated by the driver *)
Definition at_gate (s : state) : bool :=
  match runner s with RBody => true | RClean => negb (match todo s with [] => true | _ => false end) | _ => false end.
Definition run_to_gate (s : state) (l : label) : bool :=
  match l with LC p => negb (is_stop_pc p) | LR => negb (at_gate s) end.
Definition anything (s : state) (l : label) : bool :=
  match l with LR => negb (match runner s with RBody => true | _ => false end) | _ => true end.

Fixpoint calls (v : variant) (cfg : config) (p : pc) (k : nat) (s : state) : state :=
  match k with
  | 0 => s
  | S k' => match step v cfg s (LC p) with Some s' => calls v cfg p k' s' | None => s end
  end.

Record script := mkScript {
  sc_pre : nat; sc_norun : bool; sc_race : nat;
  sc_run_first : nat;   (* observed outcome of the race: 0 the Stops won, 1 Run passed its start-up check first, 2 Run reached its first body first *)
  sc_body : list (nat * nat); sc_rerun_at : option nat;
  sc_cleanup : nat; sc_after : nat; sc_reruns : nat
}.

Definition k_at (sc : script) (i : nat) : nat :=
  fold_right (fun p a => if fst p =? i then snd p + a else a) 0 (sc_body sc).
Definition total_stops (sc : script) : nat :=
  sc_pre sc + sc_race sc + fold_right (fun p a => snd p + a) 0 (sc_body sc) + sc_cleanup sc + sc_after sc.
Definition total_runs (sc : script) : nat := 1 + sc_reruns sc + match sc_rerun_at sc with Some _ => 1 | None => 0 end.

Definition F := 4000.

Fixpoint body_loop (fuel : nat) (v : variant) (cfg : config) (sc : script) (s : state) : state :=
  match fuel with
  | 0 => s
  | S f =>
    match runner s with
    | RBody =>
        let i := att s in
        let s := sat F v cfg only_stops (calls v cfg SIdle (k_at sc i) s) in
        let s := match sc_rerun_at sc with
                 | Some j => if j =? i then sat F v cfg only_callers (calls v cfg RIdle 1 s) else s
                 | None => s
                 end in
        match step v cfg s LR with
        | Some s' => body_loop f v cfg sc (sat F v cfg run_to_gate s')
        | None => s
        end
    | RClean => sat F v cfg anything (sat F v cfg only_stops (calls v cfg SIdle (sc_cleanup sc) s))
    | _ => s
    end
  end.

Fixpoint reruns (k : nat) (v : variant) (cfg : config) (s : state) : state :=
  match k with
  | 0 => s
  | S k' => let s1 := sat F v cfg run_to_gate (calls v cfg RIdle 1 s) in
            (* a run that (wrongly) starts again is let through as the driver does *)
            let s2 := match runner s1 with RBody => match step v cfg s1 LR with Some x => x | None => s1 end | _ => s1 end in
            reruns k' v cfg (sat F v cfg anything s2)
  end.

Definition run_script (v : variant) (cfg : config) (sc : script) : state :=
  let s0 := init (total_stops sc) (total_runs sc) in
  let s1 := sat F v cfg only_stops (calls v cfg SIdle (sc_pre sc) s0) in
  if sc_norun sc then sat F v cfg only_stops (calls v cfg SIdle (sc_after sc) s1)
  else
    let s2 := calls v cfg RIdle 1 s1 in
    let s3 := match sc_run_first sc with
              | 0 => sat F v cfg run_to_gate (sat F v cfg only_stops (calls v cfg SIdle (sc_race sc) s2))
              | 1 => sat F v cfg run_to_gate
                       (sat F v cfg only_stops (calls v cfg SIdle (sc_race sc) (sat F v cfg only_callers s2)))
              | _ => sat F v cfg only_stops (calls v cfg SIdle (sc_race sc) (sat F v cfg run_to_gate s2))
              end in
    let s4 := body_loop 64 v cfg sc s3 in
    let s5 := sat F v cfg anything s4 in
    let s6 := sat F v cfg anything (calls v cfg SIdle (sc_after sc) s5) in
    reruns (sc_reruns sc) v cfg s6.

Definition class_of (r : result) : nat :=
  match r_end r with
  | Some EPanic => 16
  | Some EAssert => 1 + (if r_close_err r then 8 else 0)
  | Some EFall => 2 + (if r_close_err r then 8 else 0)
  | Some EResErr => 4 + (if r_close_err r then 8 else 0)
  | _ => if r_close_err r then 8 else 0
  end.

Definition b2n (b : bool) : nat := if b then 1 else 0.
Definition closes_of (s : state) (xs : list inst) : list nat := map (count_occ inst_eq_dec (closed s)) xs.

(* what the harness reports, as a list of lists of numbers *)
Definition observe (cfg : config) (s : state) : list (list nat) :=
  [ [b2n (inflight s)]; [b2n (0 <? entered s)]; rev (map class_of (results s)); [commits s]; [att s];
    closes_of s (map ILeaf (seq 0 (List.length (c_leaves cfg))));
    closes_of s (map IHash (seq 0 (c_hash cfg)));
    realised s;
    closes_of s (map IInc (realised s));
    closes_of s (map INest (seq 0 (c_nested cfg)));
    [cnt s SRet]; [cnt s RRefused]; [cnt s RNotStarted] ].

Definition predict (v : variant) (cfg : config) (sc : script) : list (list nat) := observe cfg (run_script v cfg sc).

Definition lln_eq_dec : forall a b : list (list nat), {a = b} + {a <> b} := list_eq_dec (list_eq_dec Nat.eq_dec).

(* a case agrees if both hang, or neither hangs and every observable is equal *)
Definition agrees (pred obs : list (list nat)) : bool :=
  match pred, obs with
  | [1] :: _, [1] :: _ => true
  | _, _ => if lln_eq_dec pred obs then true else false
  end.

Definition plan_of (l : list attempt) : nat -> attempt := fun i => nth i l (mkAtt 0 (WEnd EDone) []).

Fixpoint mismatches_from (i : nat) (v : variant) (cases : list (config * script * list (list nat))) : list nat :=
  match cases with
  | [] => []
  | (cfg, sc, obs) :: rest =>
      let m := mismatches_from (S i) v rest in
      if agrees (predict v cfg sc) obs then m else i :: m
  end.
