(* C17 — consequences: nothing commits after a Stop has returned; what a returned Stop means; results *)
From PGV Require Import C17.Model C17.Proofs C17.Proofs3 C17.Proofs4.
From Coq Require Import Lia.

(* ------------------------------------------------------------------ nothing commits after a Stop has returned *)
Lemma await_closed_stable : forall cfg s l s',
  Inv1 s -> awaitc s = 1 -> step repaired cfg s l = Some s' -> awaitc s' = 1 /\ commits s' = commits s /\ entered s' = entered s.
Proof.
  intros cfg s [p|] s' [L S0 S1 Q1 Q2 X1 X2 X3 X4 A1 A2 A3 E W K V B] Ha H; cbn in H.
  - open_cstep H. destruct p; cbn in H; split_step H; try inv_some; cbn; auto.
    (* a Run caller cannot get past its check: either the run has ended or Stop has pre-empted it *)
    exfalso. apply Bool.orb_false_iff in E0 as [E0a E0b]. cbn in E0b.
    destruct (A2 Ha) as [Hr|[_ He]]; [|congruence].
    destruct (S0 E0b) as (Hn & _). rewrite Hn in Hr. discriminate.
  - unfold rstep, enter_clean in H. destruct (A2 Ha) as [Hr|[Hs He]].
    + destruct (runner s) eqn:Er; try discriminate Hr; cbn in H; split_step H; try inv_some; cbn; auto.
    + destruct (S0 Hs) as (Hn & _). rewrite Hn in H. discriminate.
Qed.

Lemma await_closed_exec : forall cfg ls s s',
  Inv cfg s -> awaitc s = 1 -> exec repaired cfg s ls = Some s' ->
  awaitc s' = 1 /\ commits s' = commits s /\ entered s' = entered s.
Proof.
  intros cfg. induction ls as [|l r IH]; intros s s' I Ha H; cbn in H.
  - injection H as <-. auto.
  - destruct (step repaired cfg s l) as [s1|] eqn:Es; [|discriminate].
    destruct (await_closed_stable cfg s l s1 (proj1 I) Ha Es) as (H1 & H2 & H3).
    assert (I1 : Inv cfg s1) by (destruct I as [Ia Ib]; split; [eapply inv1_step|eapply inv2_step]; eauto).
    destruct (IH s1 s' I1 H1 H) as (H4 & H5 & H6). repeat split; congruence.
Qed.

(* what it means that a Stop call has returned *)
Lemma stop_returned_means : forall cfg s,
  Inv cfg s -> 0 < cnt s SRet ->
  awaitc s = 1 /\
  ((r_after (runner s) = true /\ todo s = [] /\ rev (closed s) = instances cfg (realised s))
   \/ (started s = false /\ exitReq s = true /\ entered s = 0 /\ closed s = [])).
Proof.
  intros cfg s [I1 I2] H. pose proof (iB s I1 H) as Ha. split; [exact Ha|].
  destruct (iA2 s I1 Ha) as [Hr|[Hs He]].
  - left. split; [exact Hr|]. pose proof (jC cfg s I2) as C.
    destruct (runner s); try discriminate Hr; exact C.
  - right. destruct (iS0 s I1 Hs) as (Hn & _ & Hen). pose proof (jC cfg s I2) as C. rewrite Hn in C.
    repeat split; auto. apply C.
Qed.

Lemma NoDup_app_l : forall (A : Type) (l1 l2 : list A), NoDup (l1 ++ l2) -> NoDup l1.
Proof.
  induction l1 as [|a l1 IH]; intros l2 H; cbn in *; [constructor|].
  inversion H as [|a' l' Ha Hl]; subst. constructor; [|eapply IH; exact Hl].
  intro Hin. apply Ha. apply in_app_iff. left. exact Hin.
Qed.

(* every closable thing is closed at most once at any time, and exactly once when the started run has ended *)
Lemma closed_nodup : forall cfg s, Inv cfg s -> NoDup (closed s).
Proof.
  intros cfg s [I1 I2]. pose proof (jC cfg s I2) as C. pose proof (instances_nodup cfg _ (jN cfg s I2)) as Hn.
  destruct (runner s).
  1-4: destruct C as [-> _]; constructor.
  - rewrite <- C in Hn. apply NoDup_app_l in Hn. apply NoDup_rev in Hn. rewrite rev_involutive in Hn. exact Hn.
  - destruct C as [_ C]. rewrite <- C in Hn. apply NoDup_rev in Hn. rewrite rev_involutive in Hn. exact Hn.
  - destruct C as [_ C]. rewrite <- C in Hn. apply NoDup_rev in Hn. rewrite rev_involutive in Hn. exact Hn.
  - destruct C as [_ C]. rewrite <- C in Hn. apply NoDup_rev in Hn. rewrite rev_involutive in Hn. exact Hn.
  - destruct C as [_ C]. rewrite <- C in Hn. apply NoDup_rev in Hn. rewrite rev_involutive in Hn. exact Hn.
  - destruct C as [_ C]. rewrite <- C in Hn. apply NoDup_rev in Hn. rewrite rev_involutive in Hn. exact Hn.
Qed.

Lemma count_occ_nodup_le : forall (l : list inst) x, NoDup l -> count_occ inst_eq_dec l x <= 1.
Proof.
  intros l x H. apply (proj1 (NoDup_count_occ inst_eq_dec l) H).
Qed.

Lemma closed_exactly_once : forall cfg s x,
  Inv cfg s -> r_after (runner s) = true \/ runner s = RLock1 \/ runner s = RCloseAwait ->
  count_occ inst_eq_dec (closed s) x = if in_dec inst_eq_dec x (instances cfg (realised s)) then 1 else 0.
Proof.
  intros cfg s x I Hr. pose proof (closed_nodup cfg s I) as Hn. destruct I as [I1 I2].
  pose proof (jC cfg s I2) as C.
  assert (Hc : rev (closed s) = instances cfg (realised s)).
  { destruct Hr as [Hr|[Hr|Hr]]; [destruct (runner s); try discriminate Hr|rewrite Hr in C|rewrite Hr in C]; apply C. }
  rewrite <- Hc. destruct (in_dec inst_eq_dec x (rev (closed s))) as [Hin|Hin].
  - apply in_rev in Hin. exact (proj1 (NoDup_count_occ' inst_eq_dec (closed s)) Hn x Hin).
  - apply count_occ_not_In. intro H. apply Hin. apply in_rev in H. exact H.
Qed.

(* ------------------------------------------------------------------ callers are conserved *)
Definition Cons (n m : nat) (s : state) : Prop :=
  sum_cnt s stop_pcs = n /\ sum_cnt s run_pcs + b2n (negb (r_none (runner s))) = m.

Lemma cons_init : forall n m, Cons n m (init n m).
Proof. intros. split; cbn; lia. Qed.

Lemma cons_step : forall cfg n m s l s',
  Inv1 s -> Cons n m s -> step repaired cfg s l = Some s' -> Cons n m s'.
Proof.
  intros cfg n m s [p|] s' I [C1 C2] H; cbn in H; unfold Cons, sum_cnt, stop_pcs, run_pcs in *; cbn in C1, C2 |- *.
  - open_cstep H. destruct p; cbn in H; split_step H; try (injection H as <-); cbn; try (split; lia).
    (* RUnlGo *)
    assert (Hr : runner s = RNone).
    { destruct (started s) eqn:Es.
      - destruct (iS1 s I Es) as [_ H1]. destruct (runner s); cbn in H1; try lia; reflexivity.
      - apply (iS0 s I Es). }
    rewrite Hr in C2. cbn in C2. split; lia.
  - unfold rstep, enter_clean in H.
    destruct (runner s) eqn:Er; cbn in H; split_step H; try (injection H as <-); cbn in C2; cbn; rewrite ?Er; cbn; split; lia.
Qed.

Lemma cons_reachable : forall cfg n m s, reachable repaired cfg n m s -> Cons n m s.
Proof.
  intros cfg n m s [ls H].
  assert (G : Inv1 s /\ Cons n m s); [|apply G].
  eapply (exec_invariant (fun s => Inv1 s /\ Cons n m s)); [| |exact H].
  - intros s0 l s1 [I C] Hs. split; [eapply inv1_step|eapply cons_step]; eauto.
  - split; [apply inv1_init|apply cons_init].
Qed.

(* when nothing is in flight, every Stop that was called has returned and every Run call has come to its end *)
Lemma quiescent_all_returned : forall n m s,
  Cons n m s -> inflight s = false ->
  cnt s SIdle + cnt s SRet = n /\
  cnt s RIdle + cnt s RRefused + cnt s RNotStarted + b2n (rpc_beq (runner s) RRet) = m.
Proof.
  intros n m s [C1 C2] H. unfold inflight in H. apply Bool.orb_false_iff in H as [H1 H2].
  apply Bool.negb_false_iff in H1. apply Nat.eqb_eq in H1.
  unfold sum_cnt, inflight_pcs, stop_pcs, run_pcs in *. cbn in *.
  unfold runner_active in H2. destruct (runner s); try discriminate H2; cbn in *; split; lia.
Qed.

(* ------------------------------------------------------------------ what Run reports *)
Lemma run_result : forall cfg s,
  Inv cfg s -> runner s = RRet ->
  exists w, results s = [mkRes (Some w) (close_err cfg (closed s))].
Proof.
  intros cfg s [I1 I2] Hr. pose proof (jS cfg s I2) as S. pose proof (jE cfg s I2) as E. rewrite Hr in S, E.
  destruct (endw s) as [w|] eqn:Ew; [|congruence]. exists w. exact S.
Qed.

Lemma no_result_before_end : forall cfg s, Inv cfg s -> runner s <> RRet -> results s = [].
Proof.
  intros cfg s [I1 I2] Hr. pose proof (jS cfg s I2) as S. destruct (runner s); auto. congruence.
Qed.

(* the reported class tells how the run ended: normal (Done or stopped) / assertion / Error label / resource error / panic,
   and independently whether a Close failed *)
Definition kind (w : endway) : nat :=
  match w with EDone | EStopped => 0 | EAssert => 1 | EFall => 2 | EResErr => 4 | EPanic => 16 end.

Lemma class_distinct : forall w1 c1 w2 c2,
  class_of (mkRes (Some w1) c1) = class_of (mkRes (Some w2) c2) ->
  kind w1 = kind w2 /\ (w1 <> EPanic -> c1 = c2).
Proof.
  intros w1 c1 w2 c2. destruct w1, w2, c1, c2; cbn; intros H; try discriminate H; split; try reflexivity; try congruence.
Qed.

(* ------------------------------------------------------------------ the un-repaired code (variant `pinned`) *)
Definition cfg_assert : config :=
  mkCfg (fun _ => mkAtt 0 (WEnd EAssert) []) false [false] 0 false 0 (fun _ => 0) (fun _ => false).

(* Run starts and is inside its first attempt; Stop #1 sends its request and waits; Stop #2 takes the mutex and blocks
   sending on the full buffer; the attempt ends with a failed assertion, so the loop-head poll is skipped; the deferred
   cleanup closes the resource and then needs the mutex *)
Definition deadlock_trace : list label :=
  [LC RIdle; LC RLock; LC RHold; LC RUnlGo; LR; LR;
   LC SIdle; LC SLock; LC SHold; LC SSet1a; LC SSend; LC SUnl;
   LC SIdle; LC SLock; LC SHold; LC SSet1a;
   LR; LR; LR].

Lemma ex_of_check : forall (o : option state) (chk : state -> bool),
  match o with Some s => chk s | None => false end = true -> exists s, o = Some s /\ chk s = true.
Proof. intros [s|] chk H; [exists s; auto|discriminate]. Qed.

Definition dead_check (s : state) : bool :=
  inflight s && negb (can_step pinned cfg_assert s) && (cnt s SSend =? 1) && (cnt s SWait =? 1)
  && rpc_beq (runner s) RLock1 && lock s.

Lemma pinned_deadlocks_lemma :
  exists s, exec pinned cfg_assert (init 2 1) deadlock_trace = Some s /\
            inflight s = true /\ can_step pinned cfg_assert s = false /\
            cnt s SSend = 1 /\ cnt s SWait = 1 /\ runner s = RLock1 /\ lock s = true.
Proof.
  destruct (ex_of_check (exec pinned cfg_assert (init 2 1) deadlock_trace) dead_check) as (s & Hs & Hc);
    [vm_compute; reflexivity|].
  exists s. split; [exact Hs|]. unfold dead_check in Hc.
  repeat (apply Bool.andb_true_iff in Hc; destruct Hc as [Hc ?]).
  repeat split; auto.
  - apply Bool.negb_true_iff; assumption.
  - apply Nat.eqb_eq; assumption.
  - apply Nat.eqb_eq; assumption.
  - apply internal_rpc_dec_bl; assumption.
Qed.

Definition cfg_done : config :=
  mkCfg (fun _ => mkAtt 0 (WEnd EDone) []) false [false] 0 false 0 (fun _ => 0) (fun _ => false).
Definition one_run : list label := [LC RIdle; LC RLock; LC RHold; LC RUnlGo; LR; LR; LR; LR; LR; LR; LR; LR; LR].
(* the second time close(awaitExit) panics, so `requestExit = nil` is skipped: one step fewer *)
Definition second_run : list label := [LC RIdle; LC RLock; LC RHold; LC RUnlGo; LR; LR; LR; LR; LR; LR; LR; LR].

Definition inst_list_beq (a b : list inst) : bool := if list_eq_dec inst_eq_dec a b then true else false.
Definition twice_check (s : state) : bool :=
  (entered s =? 2) && inst_list_beq (closed s) [ILeaf 0; ILeaf 0] && (awaitc s =? 2).

Lemma pinned_runs_twice_lemma :
  exists s, exec pinned cfg_done (init 0 2) (one_run ++ second_run) = Some s /\
            entered s = 2 /\ closed s = [ILeaf 0; ILeaf 0] /\ awaitc s = 2.
Proof.
  destruct (ex_of_check (exec pinned cfg_done (init 0 2) (one_run ++ second_run)) twice_check) as (s & Hs & Hc);
    [vm_compute; reflexivity|].
  exists s. split; [exact Hs|]. unfold twice_check in Hc.
  repeat (apply Bool.andb_true_iff in Hc; destruct Hc as [Hc ?]).
  repeat split.
  - apply Nat.eqb_eq; assumption.
  - unfold inst_list_beq in *. destruct (list_eq_dec inst_eq_dec (closed s) [ILeaf 0; ILeaf 0]); [assumption|discriminate].
  - apply Nat.eqb_eq; assumption.
Qed.

Definition once_check (s : state) : bool :=
  (cnt s RRefused =? 1) && (entered s =? 1) && inst_list_beq (closed s) [ILeaf 0] && (awaitc s =? 1).

(* the same schedules are not executions of the repaired code: the second Stop does not send, the second Run is refused *)
Lemma repaired_rejects_traces :
  exec repaired cfg_assert (init 2 1) deadlock_trace = None /\
  (exists s, exec repaired cfg_done (init 0 2) (one_run ++ [LC RIdle; LC RLock; LC RHold; LC RUnlRefuse]) = Some s /\
             once_check s = true).
Proof.
  split; [vm_compute; reflexivity|].
  apply ex_of_check. vm_compute. reflexivity.
Qed.
