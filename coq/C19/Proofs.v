(* C19 — lemmas about C19/Model.v *)
From PGV Require Import C19.Model.
From Coq Require Import Lia.

(* ------------------------------------------------------------------ level 1: one poll, any runtime outcome *)
Definition answer_alive (dial_ok : bool) (rpc : rpc_out) (x : det) : bool :=
  (negb (needs_dial x) || dial_ok) && match rpc with RReply AAlive => true | _ => false end.

Lemma poll_complete_lemma : forall dial_ok rpc x,
  answer_alive dial_ok rpc x = false -> read_value (poll dial_ok rpc x) = VTrue.
Proof.
  intros dial_ok rpc [st cl rd]. unfold answer_alive, poll, needs_dial, read_value. cbn.
  destruct cl, rd, dial_ok, rpc as [[]|sh|]; cbn; intros H; try reflexivity; discriminate.
Qed.

Lemma poll_accurate_lemma : forall dial_ok rpc x,
  answer_alive dial_ok rpc x = true -> read_value (poll dial_ok rpc x) = VFalse.
Proof.
  intros dial_ok rpc [st cl rd]. unfold answer_alive, poll, needs_dial, read_value. cbn.
  destruct cl, rd, dial_ok, rpc as [[]|sh|]; cbn; intros H; try reflexivity; discriminate.
Qed.

Lemma poll_initialises : forall dial_ok rpc x, d_state (poll dial_ok rpc x) <> DUninit.
Proof.
  intros dial_ok rpc [st cl rd]. unfold poll, needs_dial. cbn.
  destruct cl, rd, dial_ok, rpc as [[]|sh|]; cbn; discriminate.
Qed.

Lemma read_delay_lemma : forall x, read_delay x <= 1 /\ (read_delay x = 1 <-> read_value x = VAbort).
Proof.
  intros [[] cl rd]; cbn; split; try lia; split; intros H; try reflexivity; try discriminate.
Qed.

Lemma wrapper_lemma : forall h, run_archetype_end h <> AAlive /\
  (run_archetype_end h = AFinished <-> h = HNormal).
Proof. intros []; cbn; split; try discriminate; split; intros H; try reflexivity; discriminate. Qed.

(* ------------------------------------------------------------------ level 2 *)
Lemma det_on_step : forall s e, det_on s = true -> det_on (step s e) = true.
Proof.
  intros s e H. destruct e; cbn; try exact H.
  - destruct (serving s); cbn; exact H.
  - destruct (serving s); cbn; exact H.
  - destruct (serving s), (astate s) as [[]|]; cbn; exact H.
  - reflexivity.
  - rewrite H. cbn. exact H.
Qed.

Lemma d_step_nonpoll : forall s e, e <> EPoll -> d (step s e) = d s.
Proof.
  intros s e H. destruct e; cbn; try reflexivity; try congruence.
  - destruct (serving s); reflexivity.
  - destruct (serving s); reflexivity.
  - destruct (serving s), (astate s) as [[]|]; reflexivity.
Qed.

(* a poll while the target is down leaves the detector in a failed state *)
Lemma poll_down : forall s, det_on s = true -> tdown s = true -> read (step s EPoll) = VTrue.
Proof.
  intros s Hon Hd. cbn. rewrite Hon. unfold poll_sys, read. cbn [d].
  apply poll_complete_lemma. unfold answer_alive, tdown, conn_good, needs_dial in *.
  destruct (serving s), (net_up s), (listening s), (astate s) as [[]|], (d_client (d s)), (d_redial (d s));
    cbn in *; try reflexivity; try discriminate.
  all: destruct (conn s) as [c|]; [destruct (c =? inc s)|]; cbn in *; rewrite ?Nat.eqb_refl; try reflexivity; try discriminate.
Qed.

Lemma states_app : forall a b s, states s (a ++ b) = states s a ++ states (run s a) b.
Proof.
  induction a as [|e a IH]; intros b s; cbn; [reflexivity|]. rewrite IH. reflexivity.
Qed.

Lemma run_app : forall a b s, run s (a ++ b) = run (run s a) b.
Proof. intros. unfold run. apply fold_left_app. Qed.

Lemma det_on_run : forall es s, det_on s = true -> det_on (run s es) = true.
Proof.
  induction es as [|e es IH]; intros s H; cbn; [exact H|]. apply IH. apply det_on_step. exact H.
Qed.

(* once failed and the target stays down, failed for ever *)
Lemma stays_failed : forall es s,
  det_on s = true -> read s = VTrue -> Forall (fun x => tdown x = true) (states s es) -> read (run s es) = VTrue.
Proof.
  induction es as [|e es IH]; intros s Hon Hr Hall; cbn; [exact Hr|].
  cbn in Hall. inversion Hall as [|x l Hx Hl]; subst.
  apply IH; [apply det_on_step; exact Hon| |exact Hl].
  destruct e; try (unfold read; rewrite d_step_nonpoll by discriminate; exact Hr).
  apply poll_down; assumption.
Qed.

Lemma Forall_app_l : forall (A : Type) (P : A -> Prop) l1 l2, Forall P (l1 ++ l2) -> Forall P l1.
Proof. intros A P l1 l2 H. apply Forall_app in H. apply H. Qed.
Lemma Forall_app_r : forall (A : Type) (P : A -> Prop) l1 l2, Forall P (l1 ++ l2) -> Forall P l2.
Proof. intros A P l1 l2 H. apply Forall_app in H. apply H. Qed.

Lemma complete_lemma : forall a b1 b2 s,
  det_on s = true ->
  Forall (fun x => tdown x = true) (states s (a ++ EPoll :: b1 ++ b2)) ->
  read (run s (a ++ EPoll :: b1)) = VTrue.
Proof.
  intros a b1 b2 s Hon Hall.
  rewrite states_app in Hall. pose proof (Forall_app_r _ _ _ _ Hall) as H2. cbn in H2.
  inversion H2 as [|x l Hx Hl]; subst.
  rewrite run_app. cbn [run fold_left]. fold (run (step (run s a) EPoll) b1).
  assert (Hon' : det_on (run s a) = true) by (apply det_on_run; exact Hon).
  apply stays_failed.
  - apply det_on_step. exact Hon'.
  - apply poll_down; assumption.
  - rewrite states_app in Hl. apply (Forall_app_l _ _ _ _ Hl).
Qed.

(* ---- accuracy ---- *)
Lemma poll_up_good : forall s, det_on s = true -> tup s = true -> conn_good s = true ->
  read (step s EPoll) = VFalse /\ conn_good (step s EPoll) = true.
Proof.
  intros [l sv i n a don [st cl rd] cn kd] Hon Hu Hg. cbn in Hon. subst don.
  unfold tup, conn_good, step, poll_sys, poll, poll_rpc, needs_dial, read, read_value, is_alive in *. cbn in *.
  destruct sv, n, l, a as [[]|], cl, rd, cn as [c|]; cbn in *; try discriminate.
  all: destruct (c =? i) eqn:Ec; cbn in *; try discriminate; rewrite ?Ec; cbn; auto.
Qed.

(* under `tup`, a poll that reports alive has a live connection afterwards *)
Lemma poll_up_alive_good : forall s, det_on s = true -> tup s = true ->
  read (step s EPoll) = VFalse -> conn_good (step s EPoll) = true.
Proof.
  intros [l sv i n a don [st cl rd] cn kd] Hon Hu. cbn in Hon. subst don.
  unfold tup, conn_good, step, poll_sys, poll, poll_rpc, needs_dial, read, read_value, is_alive. cbn.
  destruct sv, n, l, a as [[]|], cl, rd, cn as [c|], kd; cbn in *; try discriminate; intros H;
    rewrite ?Nat.eqb_refl in *; cbn in *; try discriminate; try reflexivity.
  all: destruct (c =? i) eqn:Ec; cbn in *; rewrite ?Ec in *; cbn in *; try discriminate; try reflexivity.
Qed.

Lemma good_step_nonpoll : forall s e, e <> EPoll -> tup s = true -> conn_good s = true -> conn_good (step s e) = true.
Proof.
  intros s e He Hu Hg. unfold tup, conn_good in *.
  destruct e; cbn; try exact Hg; try congruence.
  - destruct (serving s); cbn in *; [exact Hg|discriminate].
  - destruct (serving s); cbn in *; [exact Hg|discriminate].
  - destruct (serving s), (astate s) as [[]|]; cbn in *; exact Hg.
Qed.

Lemma stays_alive : forall es s,
  det_on s = true -> read s = VFalse -> conn_good s = true ->
  Forall (fun x => tup x = true) (states s es) -> read (run s es) = VFalse.
Proof.
  induction es as [|e es IH]; intros s Hon Hr Hg Hall; cbn; [exact Hr|].
  cbn in Hall. inversion Hall as [|x l Hx Hl]; subst.
  destruct e.
  9: { destruct (poll_up_good s Hon Hx Hg) as [H1 H2]. apply IH; auto. apply det_on_step; exact Hon. }
  all: apply IH; [apply det_on_step; exact Hon| unfold read; rewrite d_step_nonpoll by discriminate; exact Hr
                 | apply good_step_nonpoll; [discriminate|exact Hx|exact Hg] | exact Hl].
Qed.

Lemma accurate_lemma : forall a b1 b2 s,
  det_on s = true ->
  Forall (fun x => tup x = true) (states s (a ++ EPoll :: b1 ++ b2)) ->
  read (run s (a ++ [EPoll])) = VFalse ->
  read (run s (a ++ EPoll :: b1)) = VFalse.
Proof.
  intros a b1 b2 s Hon Hall Hfirst.
  rewrite states_app in Hall. pose proof (Forall_app_r _ _ _ _ Hall) as H2. cbn in H2.
  inversion H2 as [|x l Hx Hl]; subst.
  rewrite run_app in Hfirst. cbn [run fold_left] in Hfirst. fold (run s a) in Hfirst.
  rewrite run_app. cbn [run fold_left]. fold (run (step (run s a) EPoll) b1). fold (run s a).
  assert (Hon' : det_on (run s a) = true) by (apply det_on_run; exact Hon).
  apply stays_alive.
  - apply det_on_step. exact Hon'.
  - exact Hfirst.
  - apply poll_up_alive_good; assumption.
  - rewrite states_app in Hl. apply (Forall_app_l _ _ _ _ Hl).
Qed.

(* how many more polls a reachable, listening, running target needs before the detector says alive *)
Definition need (s : sys) : nat :=
  if conn_good s then (if rv_beq (read s) VFalse then 0 else 1)
  else if needs_dial (d s) then 1 else if known_dead s then 2 else 3.

Definition upl (s : sys) : bool := tup s && listening s.

Lemma need_le_3 : forall s, need s <= 3.
Proof.
  intros s. unfold need. destruct (conn_good s), (rv_beq (read s) VFalse), (needs_dial (d s)), (known_dead s); lia.
Qed.

Lemma need_poll : forall s, det_on s = true -> upl s = true -> need (step s EPoll) <= need s - 1.
Proof.
  intros [l sv i n a don [st cl rd] cn kd] Hon Hu. cbn in Hon. subst don.
  unfold upl, tup, need, conn_good, step, poll_sys, poll, poll_rpc, needs_dial, read, read_value, is_alive in *. cbn in *.
  destruct sv, n, l, a as [[]|]; cbn in *; try discriminate.
  destruct cl, rd, cn as [c|], kd; cbn; rewrite ?Nat.eqb_refl; cbn; try lia.
  all: try (destruct (c =? i) eqn:Ec; cbn; rewrite ?Ec, ?Nat.eqb_refl; cbn; try lia).
  all: destruct st; cbn; lia.
Qed.

Lemma need_nonpoll : forall s e, e <> EPoll -> upl s = true -> need (step s e) = need s.
Proof.
  intros s e He Hu. unfold upl, tup in Hu. unfold need, conn_good, read.
  destruct e; cbn; try reflexivity; try congruence.
  - destruct (serving s); cbn in *; [reflexivity|discriminate].
  - destruct (serving s); cbn in *; [reflexivity|discriminate].
  - destruct (serving s), (astate s) as [[]|]; cbn in *; reflexivity.
Qed.

Definition is_poll (e : event) : bool := match e with EPoll => true | _ => false end.

Lemma recovers_lemma : forall es s,
  det_on s = true -> Forall (fun x => upl x = true) (states s es) ->
  need s <= List.length (filter is_poll es) -> read (run s es) = VFalse.
Proof.
  induction es as [|e es IH]; intros s Hon Hall Hn.
  - cbn in *. unfold need in Hn. destruct (conn_good s); [|destruct (needs_dial (d s)), (known_dead s); lia].
    destruct (rv_beq (read s) VFalse) eqn:E; [|lia]. apply internal_rv_dec_bl. exact E.
  - cbn [states] in Hall. inversion Hall as [|x l Hx Hl]; subst.
    cbn [run fold_left]. fold (run (step s e) es).
    apply IH; [apply det_on_step; exact Hon|exact Hl|].
    destruct e; cbn [filter is_poll List.length] in Hn;
      try (rewrite need_nonpoll; [exact Hn|discriminate|exact Hx]).
    pose proof (need_poll s Hon Hx). lia.
Qed.
