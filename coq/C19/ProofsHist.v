(* C19 — history-level frame and read-delay lemmas (added after the first build):
   the report changes only at polls, and a detector whose loop has ticked once never delays a read again. *)
From PGV Require Import C19.Model C19.Proofs.
From Coq Require Import Lia.

Lemma report_frame_lemma : forall s e, e <> EPoll -> d (step s e) = d s /\ read (step s e) = read s.
Proof.
  intros s e He. pose proof (d_step_nonpoll s e He) as Hd. split; [exact Hd|].
  unfold read. rewrite Hd. reflexivity.
Qed.

Lemma report_stable_lemma : forall es s,
  Forall (fun e => e <> EPoll) es -> d (run s es) = d s /\ read (run s es) = read s.
Proof.
  induction es as [|e es IH]; intros s Hall; [split; reflexivity|].
  inversion Hall as [|e' es' He Hes]; subst.
  unfold run in *. cbn [fold_left].
  destruct (IH (step s e) Hes) as [H1 H2]. destruct (report_frame_lemma s e He) as [H3 H4].
  split; [rewrite H1; exact H3 | rewrite H2; exact H4].
Qed.

(* a detector whose loop is not running never changes its report, whatever happens (polls included) *)
Lemma off_frozen_lemma : forall es s,
  det_on s = false -> ~ In EDetStart es -> d (run s es) = d s /\ det_on (run s es) = false.
Proof.
  induction es as [|e es IH]; intros s Hoff Hni; [split; [reflexivity|exact Hoff]|].
  unfold run in *. cbn [fold_left].
  assert (He : e <> EDetStart) by (intro; subst; apply Hni; left; reflexivity).
  assert (Hes : ~ In EDetStart es) by (intro; apply Hni; right; assumption).
  assert (Hstep : d (step s e) = d s /\ det_on (step s e) = false).
  { destruct e; cbn [step]; try (split; [reflexivity|exact Hoff]).
    - destruct (serving s); split; try reflexivity; exact Hoff.
    - destruct (serving s); split; try reflexivity; exact Hoff.
    - destruct (serving s); [destruct (astate s) as [[| |]|]|]; split; try reflexivity; exact Hoff.
    - congruence.
    - rewrite Hoff. split; [reflexivity|exact Hoff]. }
  destruct Hstep as [Hd Ho]. destruct (IH (step s e) Ho Hes) as [H1 H2].
  split; [rewrite H1; exact Hd | exact H2].
Qed.

Lemma init_step : forall s e, d_state (d s) <> DUninit -> d_state (d (step s e)) <> DUninit.
Proof.
  intros s e Hi. destruct e; try (rewrite d_step_nonpoll by discriminate; exact Hi).
  cbn [step]. destruct (det_on s); [|exact Hi]. unfold poll_sys. cbn [d]. apply poll_initialises.
Qed.

Lemma init_run : forall es s, d_state (d s) <> DUninit -> d_state (d (run s es)) <> DUninit.
Proof.
  induction es as [|e es IH]; intros s Hi; [exact Hi|].
  unfold run in *. cbn [fold_left]. apply IH. apply init_step. exact Hi.
Qed.

(* after the first tick of a running loop, at every later moment, a read neither aborts nor blocks *)
Lemma no_delay_after_first_poll_lemma : forall a b s,
  det_on s = true ->
  read (run s (a ++ EPoll :: b)) <> VAbort /\ read_delay (d (run s (a ++ EPoll :: b))) = 0.
Proof.
  intros a b s Hon.
  assert (Hi : d_state (d (run s (a ++ EPoll :: b))) <> DUninit).
  { rewrite run_app. change (run (run s a) (EPoll :: b)) with (run (step (run s a) EPoll) b).
    apply init_run. cbn [step]. rewrite (det_on_run a s Hon). unfold poll_sys. cbn [d]. apply poll_initialises. }
  unfold read, read_value, read_delay. destruct (d_state (d (run s (a ++ EPoll :: b)))); try congruence; split; congruence.
Qed.

(* conversely: a detector that has not ticked yet delays every read by exactly one interval and aborts it *)
Lemma uninit_until_first_poll_lemma : forall es s,
  d_state (d s) = DUninit -> Forall (fun e => e <> EPoll) es ->
  read (run s es) = VAbort /\ read_delay (d (run s es)) = 1.
Proof.
  intros es s Hu Hall. destruct (report_stable_lemma es s Hall) as [Hd _].
  unfold read, read_value, read_delay. rewrite Hd, Hu. split; reflexivity.
Qed.

(* an "alive" report is never produced by a poll of a target that is down at that instant *)
Lemma alive_report_sound_lemma : forall s,
  det_on s = true -> read (step s EPoll) = VFalse ->
  serving s = true /\ net_up s = true /\ astate s = Some AAlive.
Proof.
  intros s Hon Hr.
  destruct (tdown s) eqn:Htd.
  - rewrite (poll_down s Hon Htd) in Hr. discriminate.
  - unfold tdown in Htd. repeat rewrite Bool.orb_false_iff in Htd.
    destruct Htd as [[[H1 H2] H3] _].
    apply Bool.negb_false_iff in H1. apply Bool.negb_false_iff in H2.
    destruct (astate s) as [[| |]|]; try discriminate. repeat split; assumption.
Qed.
