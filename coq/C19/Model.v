(* C19 — executable model of the failure detector (distsys/resources/fd.go).
   Model only: no proofs here.

   Level 1, transcribed statement by statement:
     Monitor.RunArchetype          -> run_archetype_start / run_archetype_end (alive; finished if Run returned nil,
                                      failed if it returned an error or panicked)
     MonitorRPCReceiver.IsAlive    -> is_alive (error "archetype not found" when the id is not in the map)
     SingleFailureDetector.mainLoop, one tick -> poll, a function of what the runtime did:
                                      did net.DialTimeout succeed (if a dial was attempted), and how the IsAlive call
                                      ended (reply / error, ErrShutdown or not / timeout)
     SingleFailureDetector.ReadValue -> read_value (abort after sleeping one pull interval while uninitialized,
                                      FALSE when alive, TRUE otherwise)
   Level 2: a small model of the environment (monitor process, its listener, the network, the detector's
   connection) that determines those outcomes, so that theorems can quantify over every order of monitor start,
   archetype start/end, monitor shutdown/crash, partition and detector start.  A poll is atomic: it happens at the
   instant the monitor serves it (or the failure is noticed). *)
From Coq Require Export List Arith Bool PeanoNat.
Export ListNotations.

Inductive ast := AAlive | AFailed | AFinished.            (* values of Monitor.states *)
Inductive dst := DUninit | DAlive | DFailed | DFinished.   (* SingleFailureDetector.state *)
Scheme Equality for ast.
Scheme Equality for dst.

Definition dst_of (a : ast) : dst := match a with AAlive => DAlive | AFailed => DFailed | AFinished => DFinished end.

(* how ctx.Run() ended inside RunArchetype *)
Inductive how := HNormal | HError | HPanic.
Definition run_archetype_start : ast := AAlive.
Definition run_archetype_end (h : how) : ast := match h with HNormal => AFinished | HError => AFailed | HPanic => AFailed end.

(* IsAlive *)
Inductive rpc_out := RReply (a : ast) | RErr (shutdown : bool) | RTimeout.
Definition is_alive (m : option ast) : rpc_out := match m with Some a => RReply a | None => RErr false end.

Record det := mkDet { d_state : dst; d_client : bool; d_redial : bool }.
Definition det_init : det := mkDet DUninit false false.

Definition poll_rpc (rpc : rpc_out) (d : det) : det :=
  match rpc with
  | RReply a => mkDet (dst_of a) (d_client d) (d_redial d)
  | RErr sh => mkDet DFailed (d_client d) (d_redial d || sh)
  | RTimeout => mkDet DFailed (d_client d) (d_redial d)
  end.

Definition needs_dial (d : det) : bool := negb (d_client d) || d_redial d.

Definition poll (dial_ok : bool) (rpc : rpc_out) (d : det) : det :=
  if needs_dial d then
    if dial_ok then poll_rpc rpc (mkDet (d_state d) true false)
    else mkDet DFailed (d_client d) (d_redial d)
  else poll_rpc rpc d.

Inductive rv := VAbort | VFalse | VTrue.
Scheme Equality for rv.
Definition read_value (d : det) : rv :=
  match d_state d with DUninit => VAbort | DAlive => VFalse | _ => VTrue end.
(* how many pull intervals ReadValue blocks *)
Definition read_delay (d : det) : nat := match d_state d with DUninit => 1 | _ => 0 end.

(* ---- level 2: the environment ---- *)
Record sys := mkSys {
  listening : bool;        (* the monitor's listener accepts connections *)
  serving : bool;          (* the monitor's process is up: established connections are served *)
  inc : nat;               (* incarnation of the monitor process *)
  net_up : bool;           (* no partition between detector and monitor *)
  astate : option ast;     (* Monitor.states[id] *)
  det_on : bool;           (* the detector's main loop is running *)
  d : det;
  conn : option nat;       (* the incarnation the detector's rpc client is connected to *)
  known_dead : bool        (* the rpc client has noticed that its connection is gone *)
}.

Definition sys_init : sys := mkSys false false 0 true None false det_init None false.

Inductive event :=
  | EMonStart | EMonClose | ECrash | ENetDown | ENetUp
  | EArchStart | EArchEnd (h : how) | EDetStart | EPoll.

Definition set_d (x : det) (s : sys) : sys :=
  mkSys (listening s) (serving s) (inc s) (net_up s) (astate s) (det_on s) x (conn s) (known_dead s).

Definition poll_sys (s : sys) : sys :=
  let dial_ok := listening s && serving s && net_up s in
  let dials := needs_dial (d s) in
  let conn1 := if dials && dial_ok then Some (inc s) else conn s in
  let dead1 := if dials && dial_ok then false else known_dead s in
  let conn_alive := serving s && match conn1 with Some c => c =? inc s | None => false end in
  let rpc := if negb (net_up s) then RTimeout
             else if conn_alive then is_alive (astate s)
             else RErr dead1 in
  let made_call := negb dials || dial_ok in
  let dead2 := if made_call && net_up s && negb conn_alive then true else dead1 in
  mkSys (listening s) (serving s) (inc s) (net_up s) (astate s) (det_on s) (poll dial_ok rpc (d s)) conn1 dead2.

Definition step (s : sys) (e : event) : sys :=
  match e with
  | EMonStart => if serving s then s
                 else mkSys true true (S (inc s)) (net_up s) None (det_on s) (d s) (conn s) (known_dead s)
  | EMonClose => mkSys false (serving s) (inc s) (net_up s) (astate s) (det_on s) (d s) (conn s) (known_dead s)
  | ECrash => mkSys false false (inc s) (net_up s) (astate s) (det_on s) (d s) (conn s) (known_dead s)
  | ENetDown => mkSys (listening s) (serving s) (inc s) false (astate s) (det_on s) (d s) (conn s) (known_dead s)
  | ENetUp => mkSys (listening s) (serving s) (inc s) true (astate s) (det_on s) (d s) (conn s) (known_dead s)
  | EArchStart => if serving s
                  then mkSys (listening s) (serving s) (inc s) (net_up s) (Some run_archetype_start) (det_on s) (d s) (conn s) (known_dead s)
                  else s
  | EArchEnd h => match serving s, astate s with
                  | true, Some AAlive => mkSys (listening s) (serving s) (inc s) (net_up s) (Some (run_archetype_end h)) (det_on s) (d s) (conn s) (known_dead s)
                  | _, _ => s
                  end
  | EDetStart => mkSys (listening s) (serving s) (inc s) (net_up s) (astate s) true (d s) (conn s) (known_dead s)
  | EPoll => if det_on s then poll_sys s else s
  end.

Definition run (s : sys) (es : list event) : sys := fold_left step es s.

(* the states an execution passes through: before each event *)
Fixpoint states (s : sys) (es : list event) : list sys :=
  match es with
  | [] => []
  | e :: r => s :: states (step s e) r
  end.

Definition read (s : sys) : rv := read_value (d s).

(* the detector has a live connection to the current monitor process *)
Definition conn_good (s : sys) : bool :=
  d_client (d s) && negb (d_redial (d s)) && match conn s with Some c => c =? inc s | None => false end.

(* the target is down as far as this detector can tell: the monitor's process is gone, or there is a partition, or the
   archetype is not running (never registered, failed, finished), or the listener is closed and the detector has no live connection *)
Definition tdown (s : sys) : bool :=
  negb (serving s) || negb (net_up s)
  || match astate s with Some AAlive => false | _ => true end
  || (negb (listening s) && negb (conn_good s)).

(* the target is up and reachable *)
Definition tup (s : sys) : bool :=
  serving s && net_up s && match astate s with Some AAlive => true | _ => false end
  && (listening s || conn_good s).

(* ---- correspondence: scripts with waits of an uncertain number of polls ---- *)
Inductive sev := SE (e : event) | SWaitPolls (kmin kmax : nat) | SRead (obs : rv).

Definition sys_beq (a b : sys) : bool :=
  Bool.eqb (listening a) (listening b) && Bool.eqb (serving a) (serving b) && (inc a =? inc b) && Bool.eqb (net_up a) (net_up b)
  && match astate a, astate b with Some x, Some y => ast_beq x y | None, None => true | _, _ => false end
  && Bool.eqb (det_on a) (det_on b)
  && dst_beq (d_state (d a)) (d_state (d b)) && Bool.eqb (d_client (d a)) (d_client (d b)) && Bool.eqb (d_redial (d a)) (d_redial (d b))
  && match conn a, conn b with Some x, Some y => x =? y | None, None => true | _, _ => false end
  && Bool.eqb (known_dead a) (known_dead b).

Fixpoint add_new (x : sys) (l : list sys) : list sys :=
  match l with [] => [x] | y :: r => if sys_beq x y then l else y :: add_new x r end.
Definition dedup (l : list sys) : list sys := fold_right add_new [] l.

Fixpoint polls (k : nat) (s : sys) : sys := match k with 0 => s | S k' => polls k' (step s EPoll) end.
(* all states after kmin..kmax polls *)
Fixpoint after_polls (kmin extra : nat) (s : sys) : list sys :=
  let s0 := polls kmin s in
  match extra with 0 => [s0] | S e => s0 :: after_polls (S kmin) e s end.

(* possible states after a script; a read keeps the states that agree with what was observed
   (a read of an uninitialized detector blocks for one interval: up to 2 more polls) *)
Fixpoint possible (ss : list sys) (sc : list sev) : list sys :=
  match sc with
  | [] => ss
  | SE e :: r => possible (dedup (map (fun s => step s e) ss)) r
  | SWaitPolls a b :: r => possible (dedup (flat_map (after_polls a (b - a)) ss)) r
  | SRead o :: r =>
      let ok := filter (fun s => rv_beq (read s) o) ss in
      let ok' := match o with VAbort => dedup (flat_map (after_polls 0 2) ok) | _ => ok end in
      possible ok' r
  end.

(* a script is consistent with the model if some resolution of the uncertain poll counts explains every read *)
Definition consistent (sc : list sev) : bool := negb (match possible [sys_init] sc with [] => true | _ => false end).

Fixpoint mismatches_from (i : nat) (cases : list (list sev)) : list nat :=
  match cases with
  | [] => []
  | sc :: rest => let m := mismatches_from (S i) rest in if consistent sc then m else i :: m
  end.
