(* Base/Value.v — the TLA+ value universe of the pgo runtime (distsys/tla/value.go).
   Definitions only (lemmas: Base/ValueFacts.v).

   One type, two readings (DESIGN §3):
   * representation values: the lists are in the iteration order of the Go
     immutable.Map / immutable.List the runtime holds; nothing is assumed about
     that order.  `rep_ok` is what the builders guarantee (no two members of a
     set / keys of a function denote the same value).
   * canonical values (`wf v`, i.e. `canon v = v`): sets and function graphs
     strictly sorted by the total order `vcmp`; semantic equality of TLA+ values
     is Leibniz equality of canonical values.
   `canon` maps a representation to the canonical value it denotes. *)
From Coq Require Export List ZArith NArith Bool.
Export ListNotations.

Inductive value : Type :=
| VDefault                          (* Value{} : defaultInitValue *)
| VBool (b : bool)
| VNum (z : Z)                      (* int32 in the runtime; see `bounded` *)
| VStr (s : list N)                 (* the bytes of the Go string *)
| VSet (xs : list value)
| VTup (xs : list value)
| VFun (kvs : list (value * value)).

(* ---- generic list helpers usable under nested recursion ---- *)
Section Generic.
  Context {A : Type}.

  Section AllDef.
    Context (P : A -> Prop).
    Fixpoint All (l : list A) : Prop :=
      match l with [] => True | x :: l' => P x /\ All l' end.
  End AllDef.

  Context (cmp : A -> A -> comparison).

  (* lexicographic comparison, shorter list first *)
  Fixpoint list_cmp (xs ys : list A) : comparison :=
    match xs, ys with
    | [], [] => Eq
    | [], _ :: _ => Lt
    | _ :: _, [] => Gt
    | x :: xs', y :: ys' =>
        match cmp x y with Eq => list_cmp xs' ys' | c => c end
    end.

  (* insertion into a strictly sorted list, dropping duplicates *)
  Fixpoint insert (x : A) (l : list A) : list A :=
    match l with
    | [] => [x]
    | y :: l' =>
        match cmp x y with
        | Lt => x :: l
        | Eq => l
        | Gt => y :: insert x l'
        end
    end.

  Definition sort_dedup (l : list A) : list A := fold_right insert [] l.
End Generic.

Definition pair_cmp {A B : Type} (ca : A -> A -> comparison) (cb : B -> B -> comparison)
  (p q : A * B) : comparison :=
  match p, q with
  | (a1, b1), (a2, b2) => match ca a1 a2 with Eq => cb b1 b2 | c => c end
  end.

(* a predicate on both components of a key/value pair (pattern matching, so that it
   can be used under nested recursion) *)
Definition kvP {A : Type} (P : A -> Prop) (p : A * A) : Prop :=
  match p with (k, v) => P k /\ P v end.

Definition bool_cmp (x y : bool) : comparison :=
  match x, y with
  | false, true => Lt
  | true, false => Gt
  | _, _ => Eq
  end.

(* ---- nested induction principle ---- *)
Section value_ind_nested.
  Context (P : value -> Prop).
  Context (HD : P VDefault) (HB : forall b, P (VBool b)) (HN : forall z, P (VNum z))
          (HS : forall s, P (VStr s))
          (HSet : forall xs, All P xs -> P (VSet xs))
          (HTup : forall xs, All P xs -> P (VTup xs))
          (HFun : forall kvs, All (kvP P) kvs -> P (VFun kvs)).

  Fixpoint value_ind' (v : value) : P v :=
    match v with
    | VDefault => HD
    | VBool b => HB b
    | VNum z => HN z
    | VStr s => HS s
    | VSet xs =>
        HSet xs ((fix go (l : list value) : All P l :=
                    match l with [] => I | x :: l' => conj (value_ind' x) (go l') end) xs)
    | VTup xs =>
        HTup xs ((fix go (l : list value) : All P l :=
                    match l with [] => I | x :: l' => conj (value_ind' x) (go l') end) xs)
    | VFun kvs =>
        HFun kvs ((fix go (l : list (value * value)) : All (kvP P) l :=
                     match l with
                     | [] => I
                     | (k, v) :: l' => conj (conj (value_ind' k) (value_ind' v)) (go l')
                     end) kvs)
    end.
End value_ind_nested.

(* ---- total order ---- *)
Definition kind_rank (v : value) : N :=
  match v with
  | VDefault => 0 | VBool _ => 1 | VNum _ => 2 | VStr _ => 3
  | VSet _ => 4 | VTup _ => 5 | VFun _ => 6
  end%N.

Fixpoint vcmp (a b : value) : comparison :=
  match a, b with
  | VDefault, VDefault => Eq
  | VBool x, VBool y => bool_cmp x y
  | VNum x, VNum y => Z.compare x y
  | VStr x, VStr y => list_cmp N.compare x y
  | VSet xs, VSet ys => list_cmp vcmp xs ys
  | VTup xs, VTup ys => list_cmp vcmp xs ys
  | VFun f, VFun g => list_cmp (pair_cmp vcmp vcmp) f g
  | _, _ => N.compare (kind_rank a) (kind_rank b)
  end.

Definition kv_cmp : value * value -> value * value -> comparison := pair_cmp vcmp vcmp.

Definition vltb (a b : value) : bool := match vcmp a b with Lt => true | _ => false end.
Definition veqb (a b : value) : bool := match vcmp a b with Eq => true | _ => false end.

(* ---- canonical form ---- *)
Definition canon_kv (c : value -> value) (p : value * value) : value * value :=
  match p with (k, v) => (c k, c v) end.

Fixpoint canon (v : value) : value :=
  match v with
  | VSet xs => VSet (sort_dedup vcmp (map canon xs))
  | VTup xs => VTup (map canon xs)
  | VFun kvs => VFun (sort_dedup kv_cmp (map (canon_kv canon) kvs))
  | _ => v
  end.

(* canonical (spec-universe) values *)
Definition wf (v : value) : Prop := canon v = v.

(* ---- what the runtime's builders guarantee about a representation ---- *)
Fixpoint rep_ok (v : value) : Prop :=
  match v with
  | VSet xs => All rep_ok xs /\ NoDup (map canon xs)
  | VTup xs => All rep_ok xs
  | VFun kvs => All (kvP rep_ok) kvs /\ NoDup (map canon (map fst kvs))
  | _ => True
  end.

(* int32 numbers, byte strings *)
Definition int32_ok (z : Z) : Prop := (- 2147483648 <= z <= 2147483647)%Z.

Fixpoint bounded (v : value) : Prop :=
  match v with
  | VNum z => int32_ok z
  | VStr s => All (fun b => (b < 256)%N) s
  | VSet xs => All bounded xs
  | VTup xs => All bounded xs
  | VFun kvs => All (kvP bounded) kvs
  | _ => True
  end.

(* size, for well-founded arguments and fuel *)
Fixpoint vsize (v : value) : nat :=
  match v with
  | VSet xs => S (fold_right (fun x n => vsize x + n) 0 xs)
  | VTup xs => S (fold_right (fun x n => vsize x + n) 0 xs)
  | VFun kvs => S (fold_right (fun p n => match p with (k, v) => vsize k + vsize v + n end) 0 kvs)
  | _ => 1
  end%nat.
