(* Base/ValueFacts.v — lemmas about Base/Value.v: vcmp is a decidable total order whose Eq is
   Leibniz equality; sort_dedup yields the unique strictly sorted list with the same members;
   canon is idempotent. *)
From PGV Require Import Base.Value.
From Coq Require Import Lia Permutation Sorted.

(* ------------------------------------------------------------------ All *)
Lemma All_In {A} (P : A -> Prop) l : All P l <-> (forall x, In x l -> P x).
Proof.
  induction l as [|a l IH]; cbn.
  - split; [intros _ x []|auto].
  - rewrite IH. split.
    + intros [Ha Hl] x [<-|Hx]; auto.
    + intros H. split; [apply H; auto|intros x Hx; apply H; auto].
Qed.

Lemma All_Forall {A} (P : A -> Prop) l : All P l <-> Forall P l.
Proof. rewrite All_In, Forall_forall. reflexivity. Qed.

Lemma All_impl {A} (P Q : A -> Prop) l : (forall x, In x l -> P x -> Q x) -> All P l -> All Q l.
Proof. rewrite !All_In. intros H HP x Hx. apply H; auto. Qed.

Lemma All_map {A B} (f : A -> B) (P : B -> Prop) l : All P (map f l) <-> All (fun x => P (f x)) l.
Proof. induction l; cbn; [tauto|rewrite IHl; tauto]. Qed.

Lemma kvP_iff {A} (P : A -> Prop) p : kvP P p <-> P (fst p) /\ P (snd p).
Proof. destruct p; cbn; tauto. Qed.

(* ------------------------------------------------------------------ comparison helpers *)
Lemma CompOpp_Lt c : CompOpp c = Lt <-> c = Gt.
Proof. destruct c; cbn; split; congruence. Qed.
Lemma CompOpp_Gt c : CompOpp c = Gt <-> c = Lt.
Proof. destruct c; cbn; split; congruence. Qed.
Lemma CompOpp_Eq c : CompOpp c = Eq <-> c = Eq.
Proof. destruct c; cbn; split; congruence. Qed.

Section ListCmp.
  Context {A : Type} (cmp : A -> A -> comparison).

  Lemma list_cmp_eq xs :
    (forall x, In x xs -> forall y, cmp x y = Eq <-> x = y) ->
    forall ys, list_cmp cmp xs ys = Eq <-> xs = ys.
  Proof.
    induction xs as [|x xs IH]; intros H [|y ys]; cbn; try (split; congruence).
    destruct (cmp x y) eqn:E.
    - apply (H x (or_introl eq_refl)) in E. subst y.
      rewrite IH by (intros; apply H; right; auto). split; congruence.
    - split; [discriminate|]. intros [= -> _]. assert (cmp y y = Eq) by (apply H; cbn; auto). congruence.
    - split; [discriminate|]. intros [= -> _]. assert (cmp y y = Eq) by (apply H; cbn; auto). congruence.
  Qed.

  Lemma list_cmp_antisym xs :
    (forall x, In x xs -> forall y, cmp y x = CompOpp (cmp x y)) ->
    forall ys, list_cmp cmp ys xs = CompOpp (list_cmp cmp xs ys).
  Proof.
    induction xs as [|x xs IH]; intros H [|y ys]; cbn; try reflexivity.
    rewrite (H x (or_introl eq_refl) y).
    destruct (cmp x y); cbn; try reflexivity.
    apply IH. intros; apply H; right; auto.
  Qed.

  Lemma list_cmp_trans xs :
    (forall x y, cmp x y = Eq <-> x = y) ->
    (forall x, In x xs -> forall y z, cmp x y = Lt -> cmp y z = Lt -> cmp x z = Lt) ->
    forall ys zs, list_cmp cmp xs ys = Lt -> list_cmp cmp ys zs = Lt -> list_cmp cmp xs zs = Lt.
  Proof.
    intros Heq.
    induction xs as [|x xs IH]; intros H [|y ys] [|z zs]; cbn; try congruence.
    destruct (cmp x y) eqn:Exy; try discriminate.
    - apply Heq in Exy. subst y. destruct (cmp x z) eqn:Exz; try congruence.
      apply IH. intros; eapply H; eauto. right; auto.
    - intros _. destruct (cmp y z) eqn:Eyz; try discriminate.
      + apply Heq in Eyz. subst z. rewrite Exy. reflexivity.
      + intros _. rewrite (H x (or_introl eq_refl) y z Exy Eyz). reflexivity.
  Qed.
End ListCmp.

Section PairCmp.
  Context {A B : Type} (ca : A -> A -> comparison) (cb : B -> B -> comparison).

  Lemma pair_cmp_eq p :
    (forall y, ca (fst p) y = Eq <-> fst p = y) -> (forall y, cb (snd p) y = Eq <-> snd p = y) ->
    forall q, pair_cmp ca cb p q = Eq <-> p = q.
  Proof.
    destruct p as [a b]; cbn. intros Ha Hb [a' b']; cbn.
    destruct (ca a a') eqn:E.
    - apply Ha in E. subst a'. rewrite Hb. split; congruence.
    - split; [discriminate|]. intros [= -> _]. assert (ca a' a' = Eq) by (apply Ha; auto). congruence.
    - split; [discriminate|]. intros [= -> _]. assert (ca a' a' = Eq) by (apply Ha; auto). congruence.
  Qed.

  Lemma pair_cmp_antisym p :
    (forall y, ca y (fst p) = CompOpp (ca (fst p) y)) -> (forall y, cb y (snd p) = CompOpp (cb (snd p) y)) ->
    forall q, pair_cmp ca cb q p = CompOpp (pair_cmp ca cb p q).
  Proof.
    destruct p as [a b]; cbn. intros Ha Hb [a' b']; cbn.
    rewrite Ha. destruct (ca a a'); cbn; auto.
  Qed.

  Lemma pair_cmp_trans p :
    (forall x y, ca x y = Eq <-> x = y) ->
    (forall y z, ca (fst p) y = Lt -> ca y z = Lt -> ca (fst p) z = Lt) ->
    (forall y z, cb (snd p) y = Lt -> cb y z = Lt -> cb (snd p) z = Lt) ->
    forall q r, pair_cmp ca cb p q = Lt -> pair_cmp ca cb q r = Lt -> pair_cmp ca cb p r = Lt.
  Proof.
    destruct p as [a b]; cbn. intros Heq Ha Hb [a' b'] [a'' b'']; cbn.
    destruct (ca a a') eqn:E1; try discriminate.
    - apply Heq in E1. subst a'. destruct (ca a a''); try congruence. apply Hb.
    - intros _. destruct (ca a' a'') eqn:E2; try discriminate.
      + apply Heq in E2. subst a''. rewrite E1. reflexivity.
      + intros _. rewrite (Ha _ _ E1 E2). reflexivity.
  Qed.
End PairCmp.

Lemma bool_cmp_eq x y : bool_cmp x y = Eq <-> x = y.
Proof. destruct x, y; cbn; split; congruence. Qed.
Lemma bool_cmp_antisym x y : bool_cmp y x = CompOpp (bool_cmp x y).
Proof. destruct x, y; reflexivity. Qed.
Lemma bool_cmp_trans x y z : bool_cmp x y = Lt -> bool_cmp y z = Lt -> bool_cmp x z = Lt.
Proof. destruct x, y, z; cbn; congruence. Qed.

(* ------------------------------------------------------------------ vcmp is a total order *)
Lemma vcmp_eq : forall a b, vcmp a b = Eq <-> a = b.
Proof.
  induction a as [| x | x | x | xs IH | xs IH | kvs IH] using value_ind'; intros b; destruct b;
    cbn; try (split; congruence).
  - rewrite bool_cmp_eq. split; congruence.
  - rewrite Z.compare_eq_iff. split; congruence.
  - rewrite list_cmp_eq by (intros; apply N.compare_eq_iff). split; congruence.
  - rewrite All_In in IH. rewrite list_cmp_eq by (intros; apply IH; auto). split; congruence.
  - rewrite All_In in IH. rewrite list_cmp_eq by (intros; apply IH; auto). split; congruence.
  - rewrite All_In in IH. rewrite list_cmp_eq.
    + split; congruence.
    + intros p Hp q. specialize (IH p Hp). apply kvP_iff in IH. destruct IH.
      apply pair_cmp_eq; auto.
Qed.

Lemma vcmp_refl a : vcmp a a = Eq.
Proof. apply vcmp_eq. reflexivity. Qed.

Lemma vcmp_antisym : forall a b, vcmp b a = CompOpp (vcmp a b).
Proof.
  induction a as [| x | x | x | xs IH | xs IH | kvs IH] using value_ind'; intros b; destruct b;
    cbn; try reflexivity.
  - apply bool_cmp_antisym.
  - apply Z.compare_antisym.
  - apply list_cmp_antisym. intros. apply N.compare_antisym.
  - rewrite All_In in IH. apply list_cmp_antisym. auto.
  - rewrite All_In in IH. apply list_cmp_antisym. auto.
  - rewrite All_In in IH. apply list_cmp_antisym.
    intros p Hp q. specialize (IH p Hp). apply kvP_iff in IH. destruct IH.
    apply pair_cmp_antisym; auto.
Qed.

Lemma N_compare_trans x y z : N.compare x y = Lt -> N.compare y z = Lt -> N.compare x z = Lt.
Proof. rewrite !N.compare_lt_iff. lia. Qed.

Lemma vcmp_rank_lt a b : vcmp a b = Lt -> (kind_rank a <= kind_rank b)%N.
Proof. destruct a, b; cbn; intros H; try lia; discriminate. Qed.

Lemma vcmp_rank_ne a b : kind_rank a <> kind_rank b -> vcmp a b = N.compare (kind_rank a) (kind_rank b).
Proof. destruct a, b; cbn; intros H; try reflexivity; congruence. Qed.

Lemma vcmp_trans : forall a b c, vcmp a b = Lt -> vcmp b c = Lt -> vcmp a c = Lt.
Proof.
  induction a as [| x | x | x | xs IH | xs IH | kvs IH] using value_ind'; intros b c Hab Hbc;
    pose proof (vcmp_rank_lt _ _ Hab) as R1; pose proof (vcmp_rank_lt _ _ Hbc) as R2;
    destruct b; cbn in R1; try lia; try discriminate Hab;
    destruct c; cbn in R2; try lia; try discriminate Hbc; try reflexivity.
  - cbn in *. eapply bool_cmp_trans; eauto.
  - cbn in *. rewrite Z.compare_lt_iff in *. lia.
  - cbn in *. eapply list_cmp_trans; eauto.
    + intros; apply N.compare_eq_iff.
    + intros ? _ ? ?. apply N_compare_trans.
  - cbn in *. rewrite All_In in IH. eapply list_cmp_trans; eauto using vcmp_eq.
  - cbn in *. rewrite All_In in IH. eapply list_cmp_trans; eauto using vcmp_eq.
  - cbn in *. rewrite All_In in IH. eapply list_cmp_trans; eauto.
    + intros p q. apply pair_cmp_eq; intros; apply vcmp_eq.
    + intros p Hp q r. specialize (IH p Hp). apply kvP_iff in IH. destruct IH.
      apply pair_cmp_trans; auto using vcmp_eq.
Qed.

Lemma kv_cmp_eq p q : kv_cmp p q = Eq <-> p = q.
Proof. apply pair_cmp_eq; intros; apply vcmp_eq. Qed.
Lemma kv_cmp_antisym p q : kv_cmp q p = CompOpp (kv_cmp p q).
Proof. apply pair_cmp_antisym; intros; apply vcmp_antisym. Qed.
Lemma kv_cmp_trans p q r : kv_cmp p q = Lt -> kv_cmp q r = Lt -> kv_cmp p r = Lt.
Proof. apply pair_cmp_trans; intros *; try apply vcmp_eq; apply vcmp_trans. Qed.

Lemma veqb_eq a b : veqb a b = true <-> a = b.
Proof. unfold veqb. rewrite <- vcmp_eq. destruct (vcmp a b); split; congruence. Qed.

Lemma veqb_refl a : veqb a a = true.
Proof. apply veqb_eq. reflexivity. Qed.

Lemma value_eq_dec (a b : value) : {a = b} + {a <> b}.
Proof.
  destruct (veqb a b) eqn:E; [left; apply veqb_eq; exact E|right].
  intros H. apply veqb_eq in H. congruence.
Qed.

(* ------------------------------------------------------------------ sort_dedup *)
Section Sort.
  Context {A : Type} (cmp : A -> A -> comparison).
  Context (cmp_eq : forall x y, cmp x y = Eq <-> x = y)
          (cmp_antisym : forall x y, cmp y x = CompOpp (cmp x y))
          (cmp_trans : forall x y z, cmp x y = Lt -> cmp y z = Lt -> cmp x z = Lt).

  Definition clt (x y : A) : Prop := cmp x y = Lt.

  Lemma clt_irrefl x : ~ clt x x.
  Proof. unfold clt. assert (cmp x x = Eq) by (apply cmp_eq; auto). congruence. Qed.

  Lemma insert_In x l y : In y (insert cmp x l) <-> y = x \/ In y l.
  Proof.
    induction l as [|z l IH]; cbn.
    - intuition.
    - destruct (cmp x z) eqn:E; cbn.
      + apply cmp_eq in E. subst z. intuition.
      + intuition.
      + rewrite IH. intuition.
  Qed.

  Lemma sort_dedup_In l y : In y (sort_dedup cmp l) <-> In y l.
  Proof.
    induction l as [|x l IH]; cbn; [tauto|].
    rewrite insert_In, IH. intuition.
  Qed.

  Lemma insert_sorted x l : StronglySorted clt l -> StronglySorted clt (insert cmp x l).
  Proof.
    induction 1 as [|z l Hs IH Hz]; cbn.
    - repeat constructor.
    - destruct (cmp x z) eqn:E.
      + constructor; auto.
      + constructor; [constructor; auto|]. constructor; [exact E|].
        rewrite Forall_forall in *. intros w Hw. eapply cmp_trans; eauto. apply Hz; auto.
      + constructor; auto. rewrite Forall_forall in *. intros w Hw.
        apply insert_In in Hw as [->|Hw]; [|apply Hz; auto].
        unfold clt. rewrite cmp_antisym, E. reflexivity.
  Qed.

  Lemma sort_dedup_sorted l : StronglySorted clt (sort_dedup cmp l).
  Proof. induction l; cbn; [constructor|apply insert_sorted; auto]. Qed.

  Lemma sorted_NoDup l : StronglySorted clt l -> NoDup l.
  Proof.
    induction 1 as [|z l Hs IH Hz]; constructor; auto.
    intros Hin. rewrite Forall_forall in Hz. apply (clt_irrefl z). apply Hz; auto.
  Qed.

  Lemma sorted_unique l1 : forall l2,
    StronglySorted clt l1 -> StronglySorted clt l2 -> (forall x, In x l1 <-> In x l2) -> l1 = l2.
  Proof.
    induction l1 as [|a l1 IH]; intros [|b l2] H1 H2 Hin.
    - reflexivity.
    - exfalso. apply (Hin b). cbn; auto.
    - exfalso. apply (Hin a). cbn; auto.
    - inversion H1 as [|? ? Hs1 Ha]; subst. inversion H2 as [|? ? Hs2 Hb]; subst.
      rewrite Forall_forall in Ha, Hb.
      assert (a = b) as ->.
      { destruct (proj1 (Hin a) (or_introl eq_refl)) as [E|Ha2]; [auto|].
        destruct (proj2 (Hin b) (or_introl eq_refl)) as [E|Hb1]; [auto|].
        exfalso. apply (clt_irrefl a). eapply cmp_trans; [apply Ha; eauto|apply Hb; auto]. }
      f_equal. apply IH; auto.
      intros x. split; intros Hx.
      + destruct (proj1 (Hin x) (or_intror Hx)) as [E|]; auto. subst x.
        exfalso. apply (clt_irrefl b). apply Ha; auto.
      + destruct (proj2 (Hin x) (or_intror Hx)) as [E|]; auto. subst x.
        exfalso. apply (clt_irrefl b). apply Hb; auto.
  Qed.

  Lemma sort_dedup_ext l1 l2 :
    (forall x, In x l1 <-> In x l2) -> sort_dedup cmp l1 = sort_dedup cmp l2.
  Proof.
    intros H. apply sorted_unique; auto using sort_dedup_sorted.
    intros x. rewrite !sort_dedup_In. apply H.
  Qed.

  Lemma sort_dedup_id l : StronglySorted clt l -> sort_dedup cmp l = l.
  Proof.
    intros H. apply sorted_unique; auto using sort_dedup_sorted.
    intros x. apply sort_dedup_In.
  Qed.

  Lemma sort_dedup_idem l : sort_dedup cmp (sort_dedup cmp l) = sort_dedup cmp l.
  Proof. apply sort_dedup_id, sort_dedup_sorted. Qed.

  Lemma insert_perm x l : ~ In x l -> Permutation (insert cmp x l) (x :: l).
  Proof.
    induction l as [|z l IH]; cbn; intros Hn; [reflexivity|].
    destruct (cmp x z) eqn:E.
    - apply cmp_eq in E. subst z. exfalso. auto.
    - reflexivity.
    - rewrite IH by tauto. apply perm_swap.
  Qed.

  Lemma sort_dedup_perm l : NoDup l -> Permutation (sort_dedup cmp l) l.
  Proof.
    induction 1 as [|x l Hx Hn IH]; [reflexivity|].
    change (sort_dedup cmp (x :: l)) with (insert cmp x (sort_dedup cmp l)).
    rewrite insert_perm by (rewrite sort_dedup_In; auto). constructor. exact IH.
  Qed.

  Lemma sort_dedup_length l : NoDup l -> List.length (sort_dedup cmp l) = List.length l.
  Proof. intros H. apply Permutation_length, sort_dedup_perm, H. Qed.

  Lemma sort_dedup_NoDup l : NoDup (sort_dedup cmp l).
  Proof. apply sorted_NoDup, sort_dedup_sorted. Qed.
End Sort.

(* instances for values and key/value pairs *)
Definition vlt := clt vcmp.
Definition kvlt := clt kv_cmp.

Lemma vsort_In l y : In y (sort_dedup vcmp l) <-> In y l.
Proof. apply sort_dedup_In, vcmp_eq. Qed.
Lemma kvsort_In l y : In y (sort_dedup kv_cmp l) <-> In y l.
Proof. apply sort_dedup_In, kv_cmp_eq. Qed.
Lemma vsort_ext l1 l2 : (forall x, In x l1 <-> In x l2) -> sort_dedup vcmp l1 = sort_dedup vcmp l2.
Proof. apply sort_dedup_ext; eauto using vcmp_eq, vcmp_antisym, vcmp_trans. Qed.
Lemma kvsort_ext l1 l2 : (forall x, In x l1 <-> In x l2) -> sort_dedup kv_cmp l1 = sort_dedup kv_cmp l2.
Proof. apply sort_dedup_ext; eauto using kv_cmp_eq, kv_cmp_antisym, kv_cmp_trans. Qed.
Lemma vsort_sorted l : StronglySorted vlt (sort_dedup vcmp l).
Proof. apply sort_dedup_sorted; eauto using vcmp_eq, vcmp_antisym, vcmp_trans. Qed.
Lemma kvsort_sorted l : StronglySorted kvlt (sort_dedup kv_cmp l).
Proof. apply sort_dedup_sorted; eauto using kv_cmp_eq, kv_cmp_antisym, kv_cmp_trans. Qed.
Lemma vsort_id l : StronglySorted vlt l -> sort_dedup vcmp l = l.
Proof. apply sort_dedup_id; eauto using vcmp_eq, vcmp_antisym, vcmp_trans. Qed.
Lemma kvsort_id l : StronglySorted kvlt l -> sort_dedup kv_cmp l = l.
Proof. apply sort_dedup_id; eauto using kv_cmp_eq, kv_cmp_antisym, kv_cmp_trans. Qed.
Lemma vsort_perm l : NoDup l -> Permutation (sort_dedup vcmp l) l.
Proof. apply sort_dedup_perm, vcmp_eq. Qed.
Lemma kvsort_perm l : NoDup l -> Permutation (sort_dedup kv_cmp l) l.
Proof. apply sort_dedup_perm, kv_cmp_eq. Qed.
Lemma vsort_length l : NoDup l -> List.length (sort_dedup vcmp l) = List.length l.
Proof. apply sort_dedup_length, vcmp_eq. Qed.
Lemma kvsort_length l : NoDup l -> List.length (sort_dedup kv_cmp l) = List.length l.
Proof. apply sort_dedup_length, kv_cmp_eq. Qed.
Lemma vsort_NoDup l : NoDup (sort_dedup vcmp l).
Proof. apply sort_dedup_NoDup; eauto using vcmp_eq, vcmp_antisym, vcmp_trans. Qed.
Lemma kvsort_NoDup l : NoDup (sort_dedup kv_cmp l).
Proof. apply sort_dedup_NoDup; eauto using kv_cmp_eq, kv_cmp_antisym, kv_cmp_trans. Qed.

(* ------------------------------------------------------------------ canon *)
Lemma canon_kv_eq c p : canon_kv c p = (c (fst p), c (snd p)).
Proof. destruct p; reflexivity. Qed.

Lemma map_id_In {A} (f : A -> A) l : (forall x, In x l -> f x = x) -> map f l = l.
Proof. induction l; cbn; intros H; f_equal; auto. Qed.

Lemma canon_idem : forall v, canon (canon v) = canon v.
Proof.
  induction v as [| x | x | x | xs IH | xs IH | kvs IH] using value_ind'; cbn; try reflexivity.
  - f_equal. rewrite All_In in IH.
    rewrite (map_id_In canon (sort_dedup vcmp (map canon xs))).
    + apply vsort_id, vsort_sorted.
    + intros y Hy. rewrite vsort_In in Hy. apply in_map_iff in Hy as (x & <- & Hx). auto.
  - f_equal. rewrite All_In in IH. rewrite map_map. apply map_ext_in. auto.
  - f_equal. rewrite All_In in IH.
    rewrite (map_id_In (canon_kv canon) (sort_dedup kv_cmp (map (canon_kv canon) kvs))).
    + apply kvsort_id, kvsort_sorted.
    + intros y Hy. rewrite kvsort_In in Hy. apply in_map_iff in Hy as (p & <- & Hp).
      specialize (IH p Hp). apply kvP_iff in IH. destruct IH as [Hk Hv].
      rewrite !canon_kv_eq. cbn. congruence.
Qed.

Lemma wf_canon v : wf (canon v).
Proof. apply canon_idem. Qed.

Lemma canon_set_In xs y : In y (match canon (VSet xs) with VSet l => l | _ => [] end) <-> exists x, In x xs /\ canon x = y.
Proof.
  cbn. rewrite vsort_In, in_map_iff. split; intros (x & H1 & H2); exists x; auto.
Qed.

Lemma canon_set_eq xs ys :
  canon (VSet xs) = canon (VSet ys) <-> (forall y, In y (map canon xs) <-> In y (map canon ys)).
Proof.
  cbn. split.
  - intros [= H] y. rewrite <- (vsort_In (map canon xs)), <- (vsort_In (map canon ys)), H. tauto.
  - intros H. f_equal. apply vsort_ext, H.
Qed.

Lemma canon_fun_eq f g :
  canon (VFun f) = canon (VFun g) <->
  (forall p, In p (map (canon_kv canon) f) <-> In p (map (canon_kv canon) g)).
Proof.
  cbn. split.
  - intros [= H] y. rewrite <- (kvsort_In (map _ f)), <- (kvsort_In (map _ g)), H. tauto.
  - intros H. f_equal. apply kvsort_ext, H.
Qed.

Lemma canon_tup_eq xs ys : canon (VTup xs) = canon (VTup ys) <-> map canon xs = map canon ys.
Proof. cbn. split; congruence. Qed.

Lemma canon_kind v : kind_rank (canon v) = kind_rank v.
Proof. destruct v; reflexivity. Qed.
