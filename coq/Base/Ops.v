(* Base/Ops.v — SPEC semantics of the TLA+ operators the compiler can emit, over the TLA+ value
   universe in normal form, for the int32 fragment TLC implements.  Definitions only.

   Sources: Specifying Systems (ch. 16, 18), the standard modules Naturals/Integers/Sequences/
   FiniteSets/TLC, and TLC's behaviour on the edge cases, each probed with TLC 2 (notes/C03.md):
   \div rounds towards minus infinity and a % b is in 0..b-1 (b > 0 required); + - * ^ unary -
   and \div report an overflow outside int32; 2^(-1) and 0^0 are errors; 1..0 = {};
   SubSeq(s,m,n) = <<>> whenever m > n, an error when out of range otherwise; Head/Tail of <<>>,
   application outside the domain, CHOOSE from no candidate are errors; strings are sequences for
   Len, \o, Tail and SubSeq (not for Head and Append); = between values of
   incomparable kinds is an error; a function with domain 1..n IS the tuple (<<1,2>> =
   (1 :> 1 @@ 2 :> 2), DOMAIN <<4,5>> = 1..2, Len(1 :> 7) = 1); /\, \/ and => are evaluated left
   to right (FALSE /\ 42 = FALSE, TRUE /\ 42 is an error); Assert(TRUE, m) = TRUE for any m.

   `norm` maps a representation to the TLA+ value it denotes: sets and function graphs sorted and
   duplicate free (as Base.Value.canon) AND functions with domain 1..n turned into tuples.
   Operators take and return values in normal form. *)
From PGV Require Export Base.Value.
Open Scope Z_scope.

Inductive sres : Type := SOk (v : value) | SErr.

Definition sbind (x : sres) (f : value -> sres) : sres := match x with SOk v => f v | SErr => SErr end.

Definition int32b (z : Z) : bool := (-2147483648 <=? z) && (z <=? 2147483647).
Definition s_int (z : Z) : sres := if int32b z then SOk (VNum z) else SErr.
Definition s_bool (b : bool) : sres := SOk (VBool b).

(* ---- normal form ---- *)
Fixpoint veq_list (l l' : list value) : bool :=
  match l, l' with
  | [], [] => true
  | x :: r, y :: r' => veqb x y && veq_list r r'
  | _, _ => false
  end.

Definition seq_dom (n : nat) : list value := map (fun i => VNum (Z.of_nat i)) (seq 1 n).

(* the keys of a (sorted) function graph are exactly 1..n *)
Definition is_seq_dom (kvs : list (value * value)) : bool :=
  veq_list (map fst kvs) (seq_dom (List.length kvs)).

Definition mk_fun (kvs : list (value * value)) : value :=
  if is_seq_dom kvs then VTup (map snd kvs) else VFun kvs.

Fixpoint norm (v : value) : value :=
  match v with
  | VSet xs => VSet (sort_dedup vcmp (map norm xs))
  | VTup xs => VTup (map norm xs)
  | VFun kvs => mk_fun (sort_dedup kv_cmp (map (canon_kv norm) kvs))
  | _ => v
  end.

(* representations in which no function has a domain of the form 1..n (n >= 0): on these the
   runtime's notion of value (canon) and TLA+'s (norm) coincide *)
Fixpoint plain (v : value) : Prop :=
  match v with
  | VSet xs => All plain xs
  | VTup xs => All plain xs
  | VFun kvs => All (kvP plain) kvs
                /\ is_seq_dom (sort_dedup kv_cmp (map (canon_kv canon) kvs)) = false
  | _ => True
  end.

(* ---- sets in normal form ---- *)
Definition mem (x : value) (s : list value) : bool := existsb (fun y => veqb y x) s.
Definition mk_set (l : list value) : value := VSet (sort_dedup vcmp l).

(* graph of a function-like value *)
Definition graph (v : value) : option (list (value * value)) :=
  match v with
  | VFun kvs => Some kvs
  | VTup xs => Some (combine (seq_dom (List.length xs)) xs)
  | _ => None
  end.

Fixpoint lookup (kvs : list (value * value)) (k : value) : option value :=
  match kvs with
  | [] => None
  | (k', v) :: r => if veqb k' k then Some v else lookup r k
  end.

Definition mk_graph (kvs : list (value * value)) : value := mk_fun (sort_dedup kv_cmp kvs).

(* ---- TLC's comparability for = and # (top level) ---- *)
Definition comparable (a b : value) : bool :=
  match a, b with
  | VDefault, _ | _, VDefault => true
  | VBool _, VBool _ | VNum _, VNum _ | VStr _, VStr _ | VSet _, VSet _ => true
  | (VTup _ | VFun _), (VTup _ | VFun _) => true
  | _, _ => false
  end.

(* ------------------------------------------------------------------ logic *)
Definition spec_eq (a b : value) : sres := if comparable a b then s_bool (veqb a b) else SErr.
Definition spec_neq (a b : value) : sres := if comparable a b then s_bool (negb (veqb a b)) else SErr.

Definition spec_not (a : value) : sres := match a with VBool x => s_bool (negb x) | _ => SErr end.
Definition spec_equiv (a b : value) : sres :=
  match a, b with VBool x, VBool y => s_bool (Bool.eqb x y) | _, _ => SErr end.
Definition spec_and (a b : value) : sres :=
  match a with
  | VBool false => s_bool false
  | VBool true => match b with VBool y => s_bool y | _ => SErr end
  | _ => SErr
  end.
Definition spec_or (a b : value) : sres :=
  match a with
  | VBool true => s_bool true
  | VBool false => match b with VBool y => s_bool y | _ => SErr end
  | _ => SErr
  end.
Definition spec_implies (a b : value) : sres :=
  match a with
  | VBool false => s_bool true
  | VBool true => match b with VBool y => s_bool y | _ => SErr end
  | _ => SErr
  end.
Definition spec_if (c t e : value) : sres :=
  match c with VBool x => SOk (if x then t else e) | _ => SErr end.
Definition spec_assert (c m : value) : sres :=
  match c with VBool true => s_bool true | _ => SErr end.

(* ------------------------------------------------------------------ integers *)
Definition arith (f : Z -> Z -> sres) (a b : value) : sres :=
  match a, b with VNum x, VNum y => f x y | _, _ => SErr end.

Definition spec_plus := arith (fun x y => s_int (x + y)).
Definition spec_minus := arith (fun x y => s_int (x - y)).
Definition spec_times := arith (fun x y => s_int (x * y)).
Definition spec_pow := arith (fun x y =>
  if y <? 0 then SErr else if (x =? 0) && (y =? 0) then SErr else s_int (x ^ y)).
Definition spec_div := arith (fun x y => if y =? 0 then SErr else s_int (x / y)).
Definition spec_mod := arith (fun x y => if y <=? 0 then SErr else s_int (x mod y)).
Definition spec_neg (a : value) : sres := match a with VNum x => s_int (- x) | _ => SErr end.
Definition spec_le := arith (fun x y => s_bool (x <=? y)).
Definition spec_ge := arith (fun x y => s_bool (y <=? x)).
Definition spec_lt := arith (fun x y => s_bool (x <? y)).
Definition spec_gt := arith (fun x y => s_bool (y <? x)).

Definition zrange_spec (x y : Z) : list Z := map (fun i => x + Z.of_nat i) (seq 0 (Z.to_nat (y - x + 1))).
Definition spec_dotdot := arith (fun x y => SOk (VSet (map VNum (zrange_spec x y)))).

(* ------------------------------------------------------------------ sets *)
Definition on_set (a : value) (f : list value -> sres) : sres := match a with VSet s => f s | _ => SErr end.
Definition on_sets (a b : value) (f : list value -> list value -> sres) : sres :=
  match a, b with VSet s, VSet t => f s t | _, _ => SErr end.

Definition spec_in (x s : value) : sres := on_set s (fun l => s_bool (mem x l)).
Definition spec_notin (x s : value) : sres := on_set s (fun l => s_bool (negb (mem x l))).
Definition spec_intersect (a b : value) : sres := on_sets a b (fun s t => SOk (mk_set (filter (fun x => mem x t) s))).
Definition spec_union (a b : value) : sres := on_sets a b (fun s t => SOk (mk_set (s ++ t))).
Definition spec_setminus (a b : value) : sres := on_sets a b (fun s t => SOk (mk_set (filter (fun x => negb (mem x t)) s))).
Definition spec_subseteq (a b : value) : sres := on_sets a b (fun s t => s_bool (forallb (fun x => mem x t) s)).

Fixpoint powerset (s : list value) : list (list value) :=
  match s with
  | [] => [[]]
  | x :: r => let p := powerset r in p ++ map (fun sub => x :: sub) p
  end.
Definition spec_subset (a : value) : sres := on_set a (fun s => SOk (mk_set (map mk_set (powerset s)))).

Fixpoint big_union (ss : list value) : option (list value) :=
  match ss with
  | [] => Some []
  | VSet s :: r => match big_union r with Some u => Some (s ++ u) | None => None end
  | _ :: _ => None
  end.
Definition spec_bigunion (a : value) : sres :=
  on_set a (fun ss => match big_union ss with Some u => SOk (mk_set u) | None => SErr end).
Definition spec_isfiniteset (a : value) : sres := on_set a (fun _ => s_bool true).
Definition spec_cardinality (a : value) : sres := on_set a (fun s => s_int (Z.of_nat (List.length s))).

(* ------------------------------------------------------------------ sequences *)
Definition on_seq (a : value) (f : list value -> sres) : sres := match a with VTup s => f s | _ => SErr end.

Definition spec_len (a : value) : sres :=
  match a with
  | VTup s => s_int (Z.of_nat (List.length s))
  | VStr s => s_int (Z.of_nat (List.length s))          (* TLC: strings are sequences *)
  | _ => SErr
  end.
Definition spec_concat (a b : value) : sres :=
  match a, b with
  | VTup s, VTup t => SOk (VTup (s ++ t))
  | VStr s, VStr t => SOk (VStr (s ++ t))
  | _, _ => SErr
  end.
Definition spec_append (a x : value) : sres := on_seq a (fun s => SOk (VTup (s ++ [x]))).
Definition spec_head (a : value) : sres := on_seq a (fun s => match s with [] => SErr | x :: _ => SOk x end).
Definition spec_tail (a : value) : sres :=
  match a with
  | VTup s => match s with [] => SErr | _ :: r => SOk (VTup r) end
  | VStr s => match s with [] => SErr | _ :: r => SOk (VStr r) end     (* TLC: Tail("ab") = "b" *)
  | _ => SErr
  end.
Definition spec_subseq (a m n : value) : sres :=
  match a, m, n with
  | VTup s, VNum i, VNum j =>
      if j <? i then SOk (VTup [])
      else if (1 <=? i) && (j <=? Z.of_nat (List.length s))
           then SOk (VTup (firstn (Z.to_nat (j - i + 1)) (skipn (Z.to_nat (i - 1)) s)))
           else SErr
  | VStr s, VNum i, VNum j =>                                          (* TLC: SubSeq("abc",2,3) = "bc" *)
      if j <? i then SOk (VStr [])
      else if (1 <=? i) && (j <=? Z.of_nat (List.length s))
           then SOk (VStr (firstn (Z.to_nat (j - i + 1)) (skipn (Z.to_nat (i - 1)) s)))
           else SErr
  | _, _, _ => SErr
  end.

(* ------------------------------------------------------------------ functions *)
Definition spec_colongt (k v : value) : sres := SOk (mk_graph [(k, v)]).

(* f @@ g: the left operand wins on common arguments *)
Definition spec_atat (f g : value) : sres :=
  match graph f, graph g with
  | Some kf, Some kg =>
      SOk (mk_graph (kf ++ filter (fun p => match lookup kf (fst p) with Some _ => false | None => true end) kg))
  | _, _ => SErr
  end.
Definition spec_domain (f : value) : sres :=
  match graph f with Some kvs => SOk (mk_set (map fst kvs)) | None => SErr end.
Definition spec_apply (f x : value) : sres :=
  match f with
  | VTup s => match x with
              | VNum i => if (1 <=? i) && (i <=? Z.of_nat (List.length s))
                          then match nth_error s (Z.to_nat (i - 1)) with Some v => SOk v | None => SErr end
                          else SErr
              | _ => SErr
              end
  | VFun kvs => match lookup kvs x with Some v => SOk v | None => SErr end
  | _ => SErr
  end.

(* constructors *)
Definition spec_makeset (l : list value) : sres := SOk (mk_set l).
Definition spec_maketuple (l : list value) : sres := SOk (VTup l).

(* ------------------------------------------------------------------ products, function sets *)
Fixpoint sproduct (sets : list (list value)) : list (list value) :=
  match sets with
  | [] => [[]]
  | s :: rest => flat_map (fun e => map (fun tl => e :: tl) (sproduct rest)) s
  end.

Fixpoint sets_of (vs : list value) : option (list (list value)) :=
  match vs with
  | [] => Some []
  | VSet s :: r => match sets_of r with Some rs => Some (s :: rs) | None => None end
  | _ :: _ => None
  end.

Definition spec_cross (vs : list value) : sres :=
  match sets_of vs with Some sets => SOk (mk_set (map VTup (sproduct sets))) | None => SErr end.

(* [k1 : S1, ..., kn : Sn] for pairwise distinct keys *)
Definition spec_recordset (keys : list value) (vs : list value) : sres :=
  match sets_of vs with
  | Some sets => SOk (mk_set (map (fun combo => mk_graph (combine keys combo)) (sproduct sets)))
  | None => SErr
  end.

Definition spec_funset (a b : value) : sres :=
  match a, b with
  | VSet s, VSet t => spec_recordset s (map (fun _ => VSet t) s)
  | _, _ => SErr
  end.

(* ------------------------------------------------------------------ EXCEPT *)
Fixpoint supd (l : list value) (n : nat) (x : value) : list value :=
  match l, n with
  | [], _ => []
  | _ :: r, O => x :: r
  | y :: r, S n' => y :: supd r n' x
  end.

Fixpoint graph_set (kvs : list (value * value)) (k nv : value) : list (value * value) :=
  match kvs with
  | [] => []
  | (k', v) :: r => if veqb k' k then (k', nv) :: r else (k', v) :: graph_set r k nv
  end.

(* one substitution  [f EXCEPT ![k1]...[kn] = g(@)]  on a value in normal form.
   Second component: a key outside the domain was met.  TLA+ (and TLC, with a warning) leave the
   function unchanged there; the statement lets the fragment fail loudly instead.
   A tuple at a non-integral index and EXCEPT on a non-function are errors in TLC. *)
Fixpoint spec_except1 (f : value) (keys : list value) (g : value -> sres) : sres * bool :=
  match keys with
  | [] => (g f, false)
  | k :: rest =>
      match f with
      | VTup xs =>
          match k with
          | VNum i =>
              if (1 <=? i) && (i <=? Z.of_nat (List.length xs)) then
                match nth_error xs (Z.to_nat (i - 1)) with
                | Some v => let (r, o) := spec_except1 v rest g in
                            (sbind r (fun nv => SOk (VTup (supd xs (Z.to_nat (i - 1)) nv))), o)
                | None => (SErr, false)
                end
              else (SOk f, true)
          | _ => (SErr, false)
          end
      | VFun kvs =>
          match lookup kvs k with
          | Some v => let (r, o) := spec_except1 v rest g in
                      (sbind r (fun nv => SOk (VFun (graph_set kvs k nv))), o)
          | None => (SOk f, true)
          end
      | _ => (SErr, false)
      end
  end.

(* [f EXCEPT !p1 = e1, ..., !pn = en]: the substitutions apply from left to right *)
Fixpoint spec_except (f : value) (subs : list (list value * (value -> sres))) : sres * bool :=
  match subs with
  | [] => (SOk f, false)
  | (keys, g) :: rest =>
      match spec_except1 f keys g with
      | (SOk f', o) => let (r, o') := spec_except f' rest in (r, o || o')
      | (SErr, o) => (SErr, o)
      end
  end.

(* ------------------------------------------------------------------ binders (predicates / bodies total on the sets) *)
Definition spec_forall (vs : list value) (p : list value -> bool) : sres :=
  match sets_of vs with Some sets => s_bool (forallb p (sproduct sets)) | None => SErr end.
Definition spec_exists (vs : list value) (p : list value -> bool) : sres :=
  match sets_of vs with Some sets => s_bool (existsb p (sproduct sets)) | None => SErr end.
Definition spec_refine (a : value) (p : value -> bool) : sres := on_set a (fun s => SOk (mk_set (filter p s))).
Definition spec_compr (vs : list value) (b : list value -> value) : sres :=
  match sets_of vs with Some sets => SOk (mk_set (map b (sproduct sets))) | None => SErr end.
Definition spec_mkfun (vs : list value) (b : list value -> value) : sres :=
  match vs, sets_of vs with
  | [_], Some [s] => SOk (mk_graph (map (fun x => (x, b [x])) s))
  | _ :: _ :: _, Some sets => SOk (mk_graph (map (fun c => (VTup c, b c)) (sproduct sets)))
  | _, _ => SErr
  end.
(* CHOOSE x \in S : p(x) is SOME member satisfying p; an error when there is none *)
Definition choose_ok (a : value) (p : value -> bool) (r : value) : Prop :=
  match a with VSet s => In r s /\ p r = true | _ => False end.
Definition choose_err (a : value) (p : value -> bool) : Prop :=
  match a with VSet s => forallb (fun x => negb (p x)) s = true | _ => True end.
