// Package steplib is the step-level harness for GENERATED MPCal archetypes (DESIGN §2.4 "steprun").
//
// It runs the real generated Go bodies under the real distsys.MPCalContext.Run loop, but
// against *spec state*: the global variables of the PlusCal translation (network, hasLock, fd, ...)
// live in one State shared by all archetype instances, and every `ref` parameter is bound to a
// small transactional resource that implements the spec's mapping macro over that state. The
// driver decides which archetype runs its next attempt and which value every nondeterministic
// choice takes, so an interleaving of the spec's labels is a deterministic, replayable list of
// events, and after every event the complete spec state can be compared with a model.
//
// Mechanism (public distsys API only):
//   - a custom distsys.FairnessCounter (installed with distsys.SetFairnessCounter) whose
//     BeginCriticalSection blocks on a gate. Run calls it exactly once per attempt, after the
//     previous attempt's commit()/abort() has completed and after it has read `.pc`; that is the
//     scheduling point. Its NextFairnessCounter returns the indices dictated for this attempt.
//   - distsys.SetTraceRecorder: one event per attempt with IsAbort and the reads/writes performed;
//     from the committed writes the archetype's local variables (and .pc/.stack) are tracked.
//   - spec-state resources bound with distsys.EnsureArchetypeRefParam (see State, Binding, Macro):
//     the first access in an attempt snapshots the whole State, Abort restores it, Commit keeps it.
//
// Usage:
//
//	sys := steplib.NewSystem(map[string]tla.Value{"network": ..., "hasLock": ...})
//	sys.AddProc("c1", tla.MakeNumber(1), locksvc.AClient, []steplib.Binding{
//	    {Param: "network", Var: "network", Depth: 1, Macro: steplib.BagLink},
//	    {Param: "hasLock", Var: "hasLock", Depth: 1, Macro: steplib.Identity}},
//	    distsys.DefineConstantValue("NumClients", tla.MakeNumber(2)))
//	if err := sys.Start(); err != nil { ... }   // every archetype now waits at its first gate
//	obs := sys.Step("c1", []uint64{0})          // one attempt of c1; i-th choice = choices[i] mod ceiling
//	... obs.Outcome, obs.PC, obs.Picks, obs.State, obs.Locals ...
//	sys.Close()                                 // always; kills the remaining archetypes
//
// One event = "let archetype p run one attempt with choices κ". Observation (Obs): outcome
// commit | abort | done | error:assert | error:tlatype | error:other | hang | finished, the label
// that ran and the label the archetype will run next (its .pc as handed to the gate), the reads
// and writes recorded by the runtime, every choice point consulted (id, ceiling, index returned) and
// every ELEMENT picked by a mapping macro (Access.Pick), the tracked locals, and the full spec
// state afterwards, all in the canonical JSON encoding of Enc.
//
// Nondeterminism: choices are dictated by index; which element an index denotes is observed
// (Obs.Picks for macros; for `with`/`either` of the generated body, Obs.Choices plus the writes
// that follow) and handed to the model, never guessed.
//
// Not thread safe: one driver goroutine per System. Several Systems may exist at once.
package steplib

import (
	"errors"
	"fmt"
	"strings"
	"time"

	"github.com/DistCompiler/pgo/distsys"
	"github.com/DistCompiler/pgo/distsys/tla"
	"github.com/DistCompiler/pgo/distsys/trace"
)

// Choice is one consultation of the fairness counter during an attempt.
type Choice struct {
	ID      string `json:"id"`
	Ceiling uint   `json:"ceiling"`
	Index   uint   `json:"index"`
}

// Elem is one read or write recorded by the runtime during an attempt.
type Elem struct {
	Kind    string        `json:"kind"` // "r" | "w"
	Name    string        `json:"name"` // e.g. "AServer.q", "AClient.network", ".pc"
	Indices []interface{} `json:"idx"`
	Value   interface{}   `json:"val"`
}

// VarAccess is one attempted read or write of a bound spec variable (see Obs.Accesses).
type VarAccess struct {
	Kind string        `json:"kind"` // "r" | "w"
	Var  string        `json:"var"`
	Idx  []interface{} `json:"idx"`
	Ok   bool          `json:"ok"`
}

// Obs is what one Step observed.
type Obs struct {
	Proc    string                 `json:"proc"`
	Label   string                 `json:"label"`   // label that ran (pc handed to the gate before the attempt)
	Outcome string                 `json:"outcome"` // commit|abort|done|error:assert|error:tlatype|error:other|hang|finished
	Err     string                 `json:"err,omitempty"`
	PC      string                 `json:"pc"` // label the archetype runs next ("" once it has returned)
	Choices []Choice               `json:"choices"`
	Picks   []interface{}          `json:"picks"` // elements chosen by mapping macros through Access.Pick, in order
	Elems   []Elem                 `json:"elems"`
	Locals  map[string]interface{} `json:"locals"`
	State   map[string]interface{} `json:"state"`
	// Accesses lists every access to a bound spec variable attempted in this attempt, in order, including the
	// ones that failed (false await): the runtime's trace records successful operations only, so e.g. the target of
	// a `with`-chosen send that aborted on a full buffer is visible only here.
	Accesses []VarAccess `json:"accesses,omitempty"`
	// Stale lists reads of archetype-local variables that did not return the value established by the
	// committed writes so far (e.g. an aborted attempt's write that was not rolled back). Always empty on a
	// correct runtime; a check should treat a non-empty list as a broken tie.
	Stale []string `json:"stale,omitempty"`
}

type gateCmd struct {
	kill    bool
	choices []uint64
}

type runResult struct {
	err      error
	panicked interface{}
}

var errKilled = errors.New("steplib: archetype killed by the driver")

// Proc is one archetype instance under the driver's control.
type Proc struct {
	Name string
	Self tla.Value
	sys  *System
	ctx  *distsys.MPCalContext

	arrive  chan string
	release chan gateCmd
	done    chan runResult

	atGate   bool
	pc       string // valid while atGate
	finished bool
	finalOut string

	// per attempt (written by the archetype goroutine between release and the next arrive)
	choices    []uint64
	accessLog  []VarAccess
	choiceLog  []Choice
	picks      []interface{}
	events     []trace.Event
	refParams  map[string]bool
	procVars   map[string]bool // state variables of the archetype's procedures (may hold refs)
	locals     map[string]tla.Value
	partial    map[string][]interface{}
	localOrder []string

	tx map[string]tla.Value // snapshot of the State taken at this proc's first access in the attempt in flight
}

// System is a set of archetype instances over one shared spec State.
type System struct {
	State   *State
	Timeout time.Duration // per Step; default 10 s
	procs   []*Proc
	byName  map[string]*Proc
	started bool
}

// NewSystem creates a system whose spec state has the given global variables.
func NewSystem(init map[string]tla.Value) *System {
	return &System{State: newState(init), Timeout: 10 * time.Second, byName: map[string]*Proc{}}
}

// Binding binds a `ref` parameter of an archetype to a global variable of the spec state through a
// mapping macro. Depth is the number of `[_]` in the spec's `mapping p[_] via M` (0 for `mapping p via M`).
type Binding struct {
	Param string
	Var   string
	Depth int
	Macro Macro
}

// AddProc creates the MPCalContext of one archetype instance (not yet running).
// extra: further configuration (distsys.DefineConstantValue, EnsureArchetypeValueParam, ...).
func (sys *System) AddProc(name string, self tla.Value, arch distsys.MPCalArchetype, binds []Binding, extra ...distsys.MPCalContextConfigFn) *Proc {
	if sys.started {
		panic("steplib: AddProc after Start")
	}
	if _, dup := sys.byName[name]; dup {
		panic("steplib: duplicate proc name " + name)
	}
	p := &Proc{Name: name, Self: self, sys: sys,
		arrive: make(chan string), release: make(chan gateCmd), done: make(chan runResult, 1),
		refParams: map[string]bool{}, procVars: map[string]bool{}, locals: map[string]tla.Value{}, partial: map[string][]interface{}{}}
	for _, pr := range arch.ProcTable {
		for _, v := range pr.StateVars {
			p.procVars[v] = true
		}
	}
	cfg := []distsys.MPCalContextConfigFn{
		distsys.SetFairnessCounter(&gate{p}),
		distsys.SetTraceRecorder(&recorder{p}),
	}
	for _, b := range binds {
		p.refParams[arch.Name+"."+b.Param] = true
		cfg = append(cfg, distsys.EnsureArchetypeRefParam(b.Param, &specRes{p: p, varName: b.Var, depth: b.Depth, macro: b.Macro}))
	}
	cfg = append(cfg, extra...)
	p.ctx = distsys.NewMPCalContext(self, arch, cfg...)
	sys.procs = append(sys.procs, p)
	sys.byName[name] = p
	return p
}

// Procs lists the proc names in creation order.
func (sys *System) Procs() []string {
	var out []string
	for _, p := range sys.procs {
		out = append(out, p.Name)
	}
	return out
}

// PC returns the label the named archetype will run next ("" if it has returned).
func (sys *System) PC(name string) string {
	p := sys.byName[name]
	if p == nil || !p.atGate {
		return ""
	}
	return p.pc
}

// Start launches every archetype's Run in its own goroutine and waits until each one blocks
// at its first gate (or has returned).
func (sys *System) Start() error {
	sys.started = true
	for _, p := range sys.procs {
		p := p
		go func() {
			var res runResult
			defer func() {
				if r := recover(); r != nil {
					res.panicked = r
				}
				p.done <- res
			}()
			res.err = p.ctx.Run()
		}()
	}
	for _, p := range sys.procs {
		if out := p.await(sys.Timeout); out != "" {
			return fmt.Errorf("steplib: archetype %s did not reach its first gate: %s", p.Name, out)
		}
	}
	return nil
}

// await waits for the proc to arrive at the gate or to return; returns "" when at the gate,
// otherwise the terminal outcome.
func (p *Proc) await(timeout time.Duration) string {
	select {
	case pc := <-p.arrive:
		p.atGate, p.pc = true, pc
		return ""
	case res := <-p.done:
		p.atGate, p.finished = false, true
		switch {
		case res.panicked != nil:
			if e, ok := res.panicked.(error); ok && errors.Is(e, errKilled) {
				p.finalOut = "killed"
			} else if e, ok := res.panicked.(error); ok && errors.Is(e, tla.ErrTLAType) {
				p.finalOut = "error:tlatype"
			} else {
				p.finalOut = "error:other"
			}
			return p.finalOut + "|" + fmt.Sprint(res.panicked)
		case res.err == nil:
			p.finalOut = "done"
			return "done|"
		case errors.Is(res.err, distsys.ErrAssertionFailed):
			p.finalOut = "error:assert"
		case errors.Is(res.err, tla.ErrTLAType):
			p.finalOut = "error:tlatype"
		default:
			p.finalOut = "error:other"
		}
		return p.finalOut + "|" + res.err.Error()
	case <-time.After(timeout):
		p.atGate, p.finished = false, true
		p.finalOut = "hang"
		return "hang|no gate arrival within " + timeout.String()
	}
}

// Step lets the named archetype run exactly one attempt of its current label. The i-th
// consultation of the fairness counter in that attempt returns choices[i] mod ceiling (0 if the
// list is too short).
func (sys *System) Step(name string, choices []uint64) Obs {
	p := sys.byName[name]
	if p == nil {
		return Obs{Proc: name, Outcome: "error:other", Err: "no such proc"}
	}
	obs := Obs{Proc: name, Choices: []Choice{}, Picks: []interface{}{}, Elems: []Elem{}}
	if p.finished || !p.atGate {
		obs.Outcome = "finished"
		obs.Locals, obs.State = p.encLocals(), sys.State.Snapshot()
		return obs
	}
	obs.Label = p.pc
	p.choiceLog, p.picks, p.events, p.accessLog = nil, nil, nil, nil
	p.atGate = false
	p.release <- gateCmd{choices: choices}
	out := p.await(sys.Timeout)
	for _, ev := range p.events {
		obs.Stale = append(obs.Stale, p.staleReads(ev)...)
	}
	if out == "" {
		if len(p.events) != 1 {
			obs.Outcome = "error:other"
			obs.Err = fmt.Sprintf("expected exactly one trace event per attempt, got %d", len(p.events))
		} else if p.events[0].IsAbort {
			obs.Outcome = "abort"
		} else {
			obs.Outcome = "commit"
			p.applyCommitted(p.events[0])
		}
		obs.PC = p.pc
	} else {
		parts := strings.SplitN(out, "|", 2)
		obs.Outcome, obs.Err = parts[0], parts[1]
	}
	for _, ev := range p.events {
		obs.Elems = append(obs.Elems, encElems(ev)...)
	}
	if p.choiceLog != nil {
		obs.Choices = p.choiceLog
	}
	if p.picks != nil {
		obs.Picks = p.picks
	}
	obs.Accesses = p.accessLog
	obs.Locals, obs.State = p.encLocals(), sys.State.Snapshot()
	return obs
}

// EnvObs builds the observation of an environment action (see EnvAction): outcome "commit" or "abort",
// the choices it consulted, the elements it picked, and the state afterwards.
func (sys *System) EnvObs(name string, committed bool, choices []Choice, picks []interface{}) Obs {
	out := "abort"
	if committed {
		out = "commit"
	}
	if choices == nil {
		choices = []Choice{}
	}
	if picks == nil {
		picks = []interface{}{}
	}
	return Obs{Proc: name, Label: name, Outcome: out, PC: name, Choices: choices, Picks: picks, Elems: []Elem{},
		Locals: map[string]interface{}{}, State: sys.State.Snapshot()}
}

// Close kills every archetype that is still waiting at its gate and waits for its Run to unwind
// (Run's deferred clean-up closes the resources). Safe to call more than once.
func (sys *System) Close() {
	for _, p := range sys.procs {
		if p.atGate && !p.finished {
			p.atGate = false
			p.release <- gateCmd{kill: true}
			select {
			case <-p.done:
			case <-time.After(sys.Timeout):
			}
			p.finished, p.finalOut = true, "killed"
		}
	}
}

// ---------------------------------------------------------------- gate and recorder

type gate struct{ p *Proc }

func (g *gate) BeginCriticalSection(pc string) {
	p := g.p
	p.arrive <- pc
	cmd := <-p.release
	if cmd.kill {
		panic(errKilled)
	}
	p.choices = cmd.choices
}

func (g *gate) NextFairnessCounter(id string, ceiling uint) uint {
	p := g.p
	var idx uint
	i := len(p.choiceLog)
	if ceiling > 0 {
		if i < len(p.choices) {
			idx = uint(p.choices[i] % uint64(ceiling))
		}
	}
	p.choiceLog = append(p.choiceLog, Choice{ID: id, Ceiling: ceiling, Index: idx})
	return idx
}

type recorder struct{ p *Proc }

func (r *recorder) RecordEvent(ev trace.Event) {
	// the runtime clears ev.Elements in place after this call returns: copy
	cp := ev
	cp.Elements = append([]trace.Element(nil), ev.Elements...)
	r.p.events = append(r.p.events, cp)
}

func elemName(prefix, name string) string {
	if prefix == "" {
		return name
	}
	return prefix + "." + name
}

func encIdx(ix []tla.Value) []interface{} {
	out := []interface{}{}
	for _, i := range ix {
		out = append(out, Enc(i))
	}
	return out
}

func encElems(ev trace.Event) []Elem {
	var out []Elem
	for _, e := range ev.Elements {
		switch e := e.(type) {
		case trace.ReadElement:
			out = append(out, Elem{"r", elemName(e.Prefix, e.Name), encIdx(e.Indices), Enc(e.Value)})
		case trace.WriteElement:
			out = append(out, Elem{"w", elemName(e.Prefix, e.Name), encIdx(e.Indices), Enc(e.Value)})
		}
	}
	return out
}

// applyCommitted folds the writes of a committed attempt into the tracked locals. Everything that
// is not a bound ref parameter is a local of the archetype (variables, value parameters, .pc, .stack).
// A local becomes known at its first write, or at a read that precedes any write in the same attempt.
func (p *Proc) applyCommitted(ev trace.Event) {
	written := map[string]bool{}
	direct := false
	for _, e := range ev.Elements {
		switch e := e.(type) {
		case trace.ReadElement:
			n := elemName(e.Prefix, e.Name)
			if n == ".stack" {
				direct = true
			}
			n, skip := p.resolveRef(n, direct)
			if skip || written[n] || len(e.Indices) != 0 {
				continue
			}
			if _, known := p.locals[n]; !known {
				p.setLocal(n, e.Value.StripVClock())
				delete(p.partial, n)
			}
		case trace.WriteElement:
			n := elemName(e.Prefix, e.Name)
			if n == ".stack" {
				direct = true
			}
			n, skip := p.resolveRef(n, direct)
			if skip {
				continue
			}
			written[n] = true
			if len(e.Indices) == 0 {
				p.setLocal(n, e.Value.StripVClock())
				delete(p.partial, n)
			} else if cur, known := p.locals[n]; known {
				val := e.Value.StripVClock()
				p.setLocal(n, tla.FunctionSubstitution(cur, []tla.FunctionSubstitutionRecord{{
					Keys: e.Indices, Value: func(tla.Value) tla.Value { return val }}}))
			} else {
				// indexed write to a local whose whole value has not been seen yet (it still has the initial
				// value its PreAmble gave it, plus earlier indexed writes): remember the override
				p.partial[n] = append(p.partial[n], []interface{}{encIdx(e.Indices), Enc(e.Value)})
			}
		}
	}
}

// resolveRef follows procedure `ref` parameters. The runtime passes a ref argument as the NAME of the resource it
// designates (a string stored in the procedure's state variable) and records accesses made through it under the
// parameter's name. Until the attempt touches .stack (a call or a return, which save / set / restore the state
// variables themselves) an access to a local that holds such a name is an access to the designated resource.
// skip: the designated resource is a bound ref parameter of the archetype (spec state, not a local), or cannot be told.
func (p *Proc) resolveRef(n string, direct bool) (string, bool) {
	if p.refParams[n] {
		return n, true
	}
	if direct {
		return n, false
	}
	for i := 0; i < 16 && p.procVars[n]; i++ { // only a procedure's state variables can hold a ref
		v, known := p.locals[n]
		if !known || !v.IsString() {
			return n, false
		}
		t := v.AsString()
		if strings.HasPrefix(t, "&") || p.refParams[t] {
			return t, true
		}
		if _, isLocal := p.locals[t]; !isLocal && !strings.Contains(t, ".") {
			return n, false // an ordinary string argument
		}
		n = t // a tracked local, or a local never accessed so far (tracked from now on)
	}
	return n, false
}

// staleReads compares every read of a known local (whole-variable reads that precede any write of the
// same attempt) with the tracked committed value.
func (p *Proc) staleReads(ev trace.Event) []string {
	var out []string
	written := map[string]bool{}
	direct := false
	for _, e := range ev.Elements {
		switch e := e.(type) {
		case trace.ReadElement:
			n := elemName(e.Prefix, e.Name)
			if n == ".stack" {
				direct = true
			}
			n, skip := p.resolveRef(n, direct)
			if skip || written[n] || len(e.Indices) != 0 {
				continue
			}
			if cur, known := p.locals[n]; known && !cur.Equal(e.Value.StripVClock()) {
				out = append(out, fmt.Sprintf("%s read %s = %s, committed value is %s", p.Name, n, EncText(e.Value), EncText(cur)))
			}
		case trace.WriteElement:
			n := elemName(e.Prefix, e.Name)
			if n == ".stack" {
				direct = true
			}
			n, _ = p.resolveRef(n, direct)
			written[n] = true
		}
	}
	return out
}

func (p *Proc) setLocal(n string, v tla.Value) {
	if _, known := p.locals[n]; !known {
		p.localOrder = append(p.localOrder, n)
	}
	p.locals[n] = v
}

func (p *Proc) encLocals() map[string]interface{} {
	out := map[string]interface{}{}
	for n, v := range p.locals {
		out[n] = Enc(v)
	}
	for n, ov := range p.partial {
		// {"partial": [[indices, value], ...]}: the local's initial value with these indexed writes applied in order
		out[n] = map[string]interface{}{"partial": ov}
	}
	return out
}

// Local returns the tracked value of a local variable (full name, e.g. "AServer.q").
func (sys *System) Local(proc, name string) (tla.Value, bool) {
	p := sys.byName[proc]
	if p == nil {
		return tla.Value{}, false
	}
	v, ok := p.locals[name]
	return v, ok
}
