package steplib

import (
	"encoding/json"
	"fmt"
	"sort"

	"github.com/DistCompiler/pgo/distsys/tla"
)

// Enc turns a TLA+ value into a canonical JSON-able Go structure:
//
//	defaultInitValue (tla.Value{})  -> nil
//	TRUE / FALSE                    -> bool
//	number                          -> int
//	string                          -> string
//	tuple / sequence                -> {"t": [e1, e2, ...]}            (in order)
//	set                             -> {"s": [e1, e2, ...]}            (sorted by canonical text)
//	function / record               -> {"f": [[k1, v1], [k2, v2] ...]} (sorted by canonical text of the key)
//
// Sorting makes the encoding independent of the hash-determined iteration order of
// the runtime's immutable maps, so two Equal values encode to the same text
// (with one caveat inherited from the runtime: an empty tuple and an empty function are
// different Go values; they encode differently).
func Enc(v tla.Value) interface{} {
	v = v.StripVClock()
	switch {
	case isDefault(v):
		return nil
	case v.IsBool():
		return v.AsBool()
	case v.IsNumber():
		return int(v.AsNumber())
	case v.IsString():
		return v.AsString()
	case v.IsTuple():
		out := []interface{}{}
		it := v.AsTuple().Iterator()
		for !it.Done() {
			_, e := it.Next()
			out = append(out, Enc(e))
		}
		return map[string]interface{}{"t": out}
	case v.IsSet():
		out := []interface{}{}
		it := v.AsSet().Iterator()
		for !it.Done() {
			e, _, _ := it.Next()
			out = append(out, Enc(e))
		}
		sort.SliceStable(out, func(i, j int) bool { return Text(out[i]) < Text(out[j]) })
		return map[string]interface{}{"s": out}
	case v.IsFunction():
		out := [][2]interface{}{}
		it := v.AsFunction().Iterator()
		for !it.Done() {
			k, e, _ := it.Next()
			out = append(out, [2]interface{}{Enc(k), Enc(e)})
		}
		sort.SliceStable(out, func(i, j int) bool { return Text(out[i][0]) < Text(out[j][0]) })
		res := make([]interface{}, len(out))
		for i, kv := range out {
			res[i] = []interface{}{kv[0], kv[1]}
		}
		return map[string]interface{}{"f": res}
	}
	panic(fmt.Sprintf("steplib.Enc: unknown kind of value %v", v))
}

func isDefault(v tla.Value) bool { return v.Equal(tla.Value{}) }

// Text is the canonical JSON text of an encoded value (json.Marshal sorts map keys).
func Text(x interface{}) string {
	b, err := json.Marshal(x)
	if err != nil {
		panic(err)
	}
	return string(b)
}

// EncText = Text(Enc(v)).
func EncText(v tla.Value) string { return Text(Enc(v)) }

// Dec is the inverse of Enc on structures obtained from json.Unmarshal.
func Dec(x interface{}) tla.Value {
	switch t := x.(type) {
	case nil:
		return tla.Value{}
	case bool:
		return tla.MakeBool(t)
	case float64:
		return tla.MakeNumber(int32(t))
	case int:
		return tla.MakeNumber(int32(t))
	case string:
		return tla.MakeString(t)
	case map[string]interface{}:
		if l, ok := t["t"]; ok {
			var elems []tla.Value
			for _, e := range l.([]interface{}) {
				elems = append(elems, Dec(e))
			}
			return tla.MakeTuple(elems...)
		}
		if l, ok := t["s"]; ok {
			var elems []tla.Value
			for _, e := range l.([]interface{}) {
				elems = append(elems, Dec(e))
			}
			return tla.MakeSet(elems...)
		}
		if l, ok := t["f"]; ok {
			var fields []tla.RecordField
			for _, kv := range l.([]interface{}) {
				p := kv.([]interface{})
				fields = append(fields, tla.RecordField{Key: Dec(p[0]), Value: Dec(p[1])})
			}
			return tla.MakeRecord(fields)
		}
	}
	panic(fmt.Sprintf("steplib.Dec: cannot decode %v", x))
}

// SortValues sorts values by canonical text (the order in which Access.Pick numbers the
// candidates of a choice, so that a dictated index means the same element on every run).
func SortValues(vs []tla.Value) {
	sort.SliceStable(vs, func(i, j int) bool { return EncText(vs[i]) < EncText(vs[j]) })
}

// Fn builds a TLA+ function from key/value pairs (keys of any kind).
func Fn(pairs ...tla.Value) tla.Value {
	if len(pairs)%2 != 0 {
		panic("steplib.Fn: odd number of arguments")
	}
	var fields []tla.RecordField
	for i := 0; i < len(pairs); i += 2 {
		fields = append(fields, tla.RecordField{Key: pairs[i], Value: pairs[i+1]})
	}
	return tla.MakeRecord(fields)
}

// Rec builds a record from field-name/value pairs: Rec("from", v1, "type", v2).
func Rec(pairs ...interface{}) tla.Value {
	var fields []tla.RecordField
	for i := 0; i < len(pairs); i += 2 {
		fields = append(fields, tla.RecordField{Key: tla.MakeString(pairs[i].(string)), Value: pairs[i+1].(tla.Value)})
	}
	return tla.MakeRecord(fields)
}

// ConstFn builds [k \in keys |-> v].
func ConstFn(keys []tla.Value, v tla.Value) tla.Value {
	var fields []tla.RecordField
	for _, k := range keys {
		fields = append(fields, tla.RecordField{Key: k, Value: v})
	}
	return tla.MakeRecord(fields)
}

// Keys lists the domain of a function (sorted canonically) or the indices 1..Len of a tuple.
func Keys(f tla.Value) []tla.Value {
	var out []tla.Value
	if f.IsTuple() {
		for i := 1; i <= f.AsTuple().Len(); i++ {
			out = append(out, tla.MakeNumber(int32(i)))
		}
		return out
	}
	it := f.AsFunction().Iterator()
	for !it.Done() {
		k, _, _ := it.Next()
		out = append(out, k)
	}
	SortValues(out)
	return out
}

// Elems lists the members of a set (sorted canonically).
func Elems(s tla.Value) []tla.Value {
	var out []tla.Value
	it := s.AsSet().Iterator()
	for !it.Done() {
		k, _, _ := it.Next()
		out = append(out, k)
	}
	SortValues(out)
	return out
}
