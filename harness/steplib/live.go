package steplib

// Helpers for "live" (deployment smoke) runs: the real generated archetypes over the REAL deployment resources
// (TCP / relaxed mailboxes, 2PC replicas, failure detector + monitor), free-running goroutines, deadlines
// everywhere. Nothing here controls scheduling: a live run observes whatever the Go scheduler produces.

import (
	"fmt"
	"net"
	"sync"
	"time"

	"github.com/DistCompiler/pgo/distsys"
	"github.com/DistCompiler/pgo/distsys/tla"
)

// FreeAddr returns "127.0.0.1:<port>" for a port the kernel just handed out for :0 (the probe listener is closed
// again; deployment resources take an address string and bind later, so a tiny reuse race remains).
func FreeAddr() string {
	l, err := net.Listen("tcp", "127.0.0.1:0")
	if err != nil {
		panic(fmt.Errorf("steplib.FreeAddr: %w", err))
	}
	addr := l.Addr().String()
	_ = l.Close()
	return addr
}

// FreeAddrs returns n distinct free addresses (all probes are held open until the last one is allocated).
func FreeAddrs(n int) []string {
	ls := make([]net.Listener, 0, n)
	out := make([]string, 0, n)
	for i := 0; i < n; i++ {
		l, err := net.Listen("tcp", "127.0.0.1:0")
		if err != nil {
			panic(fmt.Errorf("steplib.FreeAddrs: %w", err))
		}
		ls = append(ls, l)
		out = append(out, l.Addr().String())
	}
	for _, l := range ls {
		_ = l.Close()
	}
	return out
}

// LiveLog is a process-wide, totally ordered log of observations made by recording resources and channel taps.
type LiveLog struct {
	mu      sync.Mutex
	seq     int64
	start   time.Time
	Entries []LiveEntry
}

// LiveEntry: Seq/WriteSeq are positions in the one global order (WriteSeq: when the value was written inside the
// critical section that later committed; Seq: when the commit, or the channel receive, was logged).
type LiveEntry struct {
	Seq      int64       `json:"seq"`
	WriteSeq int64       `json:"wseq,omitempty"`
	Ms       float64     `json:"ms"`
	Who      string      `json:"who"`
	Kind     string      `json:"kind"` // "commit" (a recorded resource write that committed), "out" (value received from an output channel), "note"
	Index    interface{} `json:"index,omitempty"`
	Value    interface{} `json:"value"`
}

func NewLiveLog() *LiveLog { return &LiveLog{start: time.Now()} }

func (l *LiveLog) next() int64 {
	l.seq++
	return l.seq
}

// Tick reserves the next position of the global order.
func (l *LiveLog) Tick() int64 {
	l.mu.Lock()
	defer l.mu.Unlock()
	return l.next()
}

// Add appends an entry (Seq assigned here).
func (l *LiveLog) Add(who, kind string, index interface{}, value interface{}, writeSeq int64) {
	l.mu.Lock()
	defer l.mu.Unlock()
	l.Entries = append(l.Entries, LiveEntry{Seq: l.next(), WriteSeq: writeSeq, Ms: float64(time.Since(l.start).Microseconds()) / 1000,
		Who: who, Kind: kind, Index: index, Value: value})
}

// Snapshot copies the entries logged so far.
func (l *LiveLog) Snapshot() []LiveEntry {
	l.mu.Lock()
	defer l.mu.Unlock()
	return append([]LiveEntry{}, l.Entries...)
}

// Tap drains an output channel into the log until the channel is closed or stop is closed.
func (l *LiveLog) Tap(who string, ch chan tla.Value, stop chan struct{}, onValue func(tla.Value)) {
	go func() {
		for {
			select {
			case v, ok := <-ch:
				if !ok {
					return
				}
				l.Add(who, "out", nil, Enc(v), 0)
				if onValue != nil {
					onValue(v)
				}
			case <-stop:
				return
			}
		}
	}()
}

// RecordingCell is an archetype resource (a plain variable) whose committed writes are logged in commit order, each
// with the position at which the value was written inside its critical section. Aborted writes leave no trace.
type RecordingCell struct {
	distsys.ArchetypeResourceLeafMixin
	log     *LiveLog
	who     string
	index   interface{}
	mu      sync.Mutex
	value   tla.Value
	pending []pendingWrite
}

type pendingWrite struct {
	seq int64
	v   tla.Value
}

func NewRecordingCell(log *LiveLog, who string, index interface{}, init tla.Value) *RecordingCell {
	return &RecordingCell{log: log, who: who, index: index, value: init}
}

func (c *RecordingCell) Abort(distsys.ArchetypeInterface) chan struct{} {
	c.mu.Lock()
	defer c.mu.Unlock()
	c.pending = nil
	return nil
}

func (c *RecordingCell) PreCommit(distsys.ArchetypeInterface) chan error { return nil }

func (c *RecordingCell) Commit(distsys.ArchetypeInterface) chan struct{} {
	c.mu.Lock()
	defer c.mu.Unlock()
	for _, w := range c.pending {
		c.value = w.v
		c.log.Add(c.who, "commit", c.index, Enc(w.v), w.seq)
	}
	c.pending = nil
	return nil
}

func (c *RecordingCell) ReadValue(distsys.ArchetypeInterface) (tla.Value, error) {
	c.mu.Lock()
	defer c.mu.Unlock()
	if n := len(c.pending); n > 0 {
		return c.pending[n-1].v, nil
	}
	return c.value, nil
}

func (c *RecordingCell) WriteValue(_ distsys.ArchetypeInterface, v tla.Value) error {
	c.mu.Lock()
	defer c.mu.Unlock()
	c.pending = append(c.pending, pendingWrite{seq: c.log.Tick(), v: v.StripVClock()})
	return nil
}

func (c *RecordingCell) Close() error { return nil }

// LiveRun starts every context with its runner (ctx.Run, or e.g. a Monitor's RunArchetype) on its own goroutine and
// collects how each ended.
type LiveRun struct {
	Names []string
	ctxs  []*distsys.MPCalContext
	done  []chan error
	Ended map[string]string // name -> "" (returned nil) | error text; absent while running
	mu    sync.Mutex
}

func NewLiveRun() *LiveRun { return &LiveRun{Ended: map[string]string{}} }

// Go launches one archetype. run may be nil (ctx.Run).
func (r *LiveRun) Go(name string, ctx *distsys.MPCalContext, run func() error) {
	if run == nil {
		run = ctx.Run
	}
	ch := make(chan error, 1)
	r.Names = append(r.Names, name)
	r.ctxs = append(r.ctxs, ctx)
	r.done = append(r.done, ch)
	go func() {
		var err error
		defer func() {
			if p := recover(); p != nil {
				err = fmt.Errorf("panic: %v", p)
			}
			r.mu.Lock()
			if err != nil {
				r.Ended[name] = err.Error()
			} else {
				r.Ended[name] = ""
			}
			r.mu.Unlock()
			ch <- err
		}()
		err = run()
	}()
}

// WaitAll waits until every named archetype returned or the deadline passed; reports the names still running.
func (r *LiveRun) WaitAll(names []string, deadline time.Time) (running []string) {
	for _, n := range names {
		for i, nn := range r.Names {
			if nn != n {
				continue
			}
			select { // already returned?
			case err := <-r.done[i]:
				r.done[i] <- err // keep it readable for StopAll
				continue
			default:
			}
			d := time.Until(deadline)
			if d <= 0 {
				running = append(running, n)
				continue
			}
			select {
			case err := <-r.done[i]:
				r.done[i] <- err
			case <-time.After(d):
				running = append(running, n)
			}
		}
	}
	return
}

// StopAll stops every context (each Stop on its own goroutine) and waits at most grace for Stops and Runs to return.
// Returns the names whose Run had not returned by then.
func (r *LiveRun) StopAll(grace time.Duration) (stuck []string) {
	var wg sync.WaitGroup
	for _, c := range r.ctxs {
		wg.Add(1)
		go func(c *distsys.MPCalContext) {
			defer wg.Done()
			defer func() { _ = recover() }()
			c.Stop()
		}(c)
	}
	stopped := make(chan struct{})
	go func() { wg.Wait(); close(stopped) }()
	limit := time.After(grace)
	select {
	case <-stopped:
	case <-limit:
	}
	for i, n := range r.Names {
		select {
		case err := <-r.done[i]:
			r.done[i] <- err
		case <-time.After(grace / 4):
			stuck = append(stuck, n)
		}
	}
	return
}

// EndedCopy returns how the archetypes that returned so far ended.
func (r *LiveRun) EndedCopy() map[string]string {
	r.mu.Lock()
	defer r.mu.Unlock()
	out := map[string]string{}
	for k, v := range r.Ended {
		out[k] = v
	}
	return out
}
