package steplib

// Walker produces seeded random schedules online, using only what the driver itself has observed
// (never a model): it prefers archetypes that have not returned, and gives a low weight to an
// archetype whose last attempt aborted while the spec state has not changed since (it would
// abort again unless its await depends on a choice). The schedule actually taken is in the
// returned observations (Obs.Proc, Obs.Choices, Obs.Picks), so every walk can be replayed as an
// explicit schedule.
type Walker struct {
	Sys           *System
	rng           uint64
	BlockedWeight int            // weight (out of 100) of a proc known to be blocked; default 4
	Weights       map[string]int // optional relative weight per proc name (default 100)
	EnvAlone      bool           // keep walking when only environment actions remain (default: stop)
	Env           []EnvAction    // environment actions (spec processes that are not archetypes), scheduled like procs
	blockedAt     map[string]string
	envDone       map[string]bool // environment actions that reported "finished"
	abortCount    map[string]int  // consecutive aborts of a proc in the current state
	lastFirst     map[string]uint64
	// QuietAborts: a proc counts as blocked for the quiescence test only after this many consecutive aborts in
	// the same state (an abort may depend on the choices it was given; retries step through the first choice point); default 6
	QuietAborts int
	// OnStep, if set, sees (and may amend) every observation before it is recorded (e.g. to maintain shadow state)
	OnStep func(*Obs)
}

// EnvAction is a step of the spec that no generated archetype performs (a plain PlusCal process of the
// spec such as gcounter's UpdateGCntr merge, or a fault injected by the driver). Run performs it directly on
// the System's State with the given choices and reports an Obs (Proc = Name, Outcome "commit" or "abort").
type EnvAction struct {
	Name   string
	Weight int // relative weight, default 100
	Run    func(sys *System, choices []uint64) Obs
}

// NewWalker seeds a walker (xorshift64*, deterministic across runs and platforms).
func NewWalker(sys *System, seed uint64) *Walker {
	if seed == 0 {
		seed = 0x9E3779B97F4A7C15
	}
	return &Walker{Sys: sys, rng: seed, BlockedWeight: 4, blockedAt: map[string]string{}}
}

// Rand returns the next pseudo-random number.
func (w *Walker) Rand() uint64 {
	x := w.rng
	x ^= x >> 12
	x ^= x << 25
	x ^= x >> 27
	w.rng = x
	return x * 0x2545F4914F6CDD1D
}

// Next picks a proc and runs one attempt with random choices. ok = false when every proc has returned.
func (w *Walker) Next() (obs Obs, ok bool) {
	stateText := Text(w.Sys.State.Snapshot())
	type cand struct {
		name string
		wt   int
	}
	var cands []cand
	total := 0
	for _, p := range w.Sys.procs {
		if p.finished || !p.atGate {
			continue
		}
		wt := 100
		if x, has := w.Weights[p.Name]; has {
			wt = x
		}
		if w.blockedAt[p.Name] == stateText {
			wt = wt * w.BlockedWeight / 100
			if wt == 0 {
				wt = 1
			}
		}
		cands = append(cands, cand{p.Name, wt})
		total += wt
	}
	nprocs := len(cands)
	for _, e := range w.Env {
		if w.envDone[e.Name] {
			continue
		}
		wt := e.Weight
		if wt == 0 {
			wt = 100
		}
		if w.blockedAt[e.Name] == stateText {
			wt = wt * w.BlockedWeight / 100
			if wt == 0 {
				wt = 1
			}
		}
		cands = append(cands, cand{e.Name, wt})
		total += wt
	}
	if nprocs == 0 && !w.EnvAlone {
		return Obs{}, false
	}
	if len(cands) == 0 {
		return Obs{}, false
	}
	r := int(w.Rand() % uint64(total))
	name := cands[len(cands)-1].name
	for _, c := range cands {
		if r < c.wt {
			name = c.name
			break
		}
		r -= c.wt
	}
	choices := []uint64{w.Rand() >> 8, w.Rand() >> 8, w.Rand() >> 8, w.Rand() >> 8, w.Rand() >> 8, w.Rand() >> 8}
	if w.blockedAt[name] == stateText && w.abortCount[name] > 0 {
		// retry in an unchanged state: step through the alternatives of the first choice point instead of
		// drawing again (as the runtime's round-robin fairness counter does)
		if w.lastFirst == nil {
			w.lastFirst = map[string]uint64{}
		}
		choices[0] = w.lastFirst[name] + 1
	}
	if w.lastFirst == nil {
		w.lastFirst = map[string]uint64{}
	}
	w.lastFirst[name] = choices[0]
	isEnv := false
	for _, e := range w.Env {
		if e.Name == name {
			obs = e.Run(w.Sys, choices)
			isEnv = true
		}
	}
	if !isEnv {
		obs = w.Sys.Step(name, choices)
	}
	if isEnv && obs.Outcome == "finished" {
		if w.envDone == nil {
			w.envDone = map[string]bool{}
		}
		w.envDone[name] = true
	}
	if w.abortCount == nil {
		w.abortCount = map[string]int{}
	}
	if obs.Outcome == "abort" {
		if w.blockedAt[name] == stateText {
			w.abortCount[name]++
		} else {
			w.abortCount[name] = 1
		}
		w.blockedAt[name] = stateText
	} else {
		delete(w.blockedAt, name)
		w.abortCount[name] = 0
	}
	return obs, true
}

// allBlocked: every live proc's last attempt aborted in the current spec state.
func (w *Walker) allBlocked() bool {
	stateText := Text(w.Sys.State.Snapshot())
	need := w.QuietAborts
	if need == 0 {
		need = 6
	}
	for _, p := range w.Sys.procs {
		if !p.finished && p.atGate && (w.blockedAt[p.Name] != stateText || w.abortCount[p.Name] < need) {
			return false
		}
	}
	for _, e := range w.Env {
		if !w.envDone[e.Name] && (w.blockedAt[e.Name] != stateText || w.abortCount[e.Name] < need) {
			return false
		}
	}
	return true
}

// Walk runs up to `steps` attempts (stops early when every archetype has returned, an attempt
// ends in an error/hang, or the system is quiescent: every live archetype has aborted in the
// current state, plus two further attempts).
func (w *Walker) Walk(steps int) []Obs {
	var out []Obs
	quiet := 0
	for i := 0; i < steps; i++ {
		if w.allBlocked() {
			quiet++
			if quiet > 2 {
				break
			}
		} else {
			quiet = 0
		}
		obs, ok := w.Next()
		if !ok {
			break
		}
		if w.OnStep != nil {
			w.OnStep(&obs)
		}
		out = append(out, obs)
		if len(obs.Outcome) >= 5 && obs.Outcome[:5] == "error" || obs.Outcome == "hang" {
			break
		}
	}
	return out
}
