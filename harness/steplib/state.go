package steplib

import (
	"github.com/DistCompiler/pgo/distsys"
	"github.com/DistCompiler/pgo/distsys/tla"
)

// State holds the spec's global variables (name -> TLA+ value). Values are immutable, so a
// snapshot is a shallow copy of the map.
type State struct {
	vars map[string]tla.Value
}

func newState(init map[string]tla.Value) *State {
	s := &State{vars: map[string]tla.Value{}}
	for k, v := range init {
		s.vars[k] = v
	}
	return s
}

// Get returns the current value of a global variable (panics if it does not exist).
func (s *State) Get(name string) tla.Value {
	v, ok := s.vars[name]
	if !ok {
		panic("steplib: no spec variable " + name)
	}
	return v
}

// Set overwrites a global variable. For drivers (e.g. fault injection between steps) and macros.
func (s *State) Set(name string, v tla.Value) { s.vars[name] = v }

// Snapshot returns the canonical encoding (Enc) of every global variable.
func (s *State) Snapshot() map[string]interface{} {
	out := map[string]interface{}{}
	for k, v := range s.vars {
		out[k] = Enc(v)
	}
	return out
}

func (s *State) copyVars() map[string]tla.Value {
	cp := make(map[string]tla.Value, len(s.vars))
	for k, v := range s.vars {
		cp[k] = v
	}
	return cp
}

// Macro is a mapping macro of the spec: what `read` and `write` of the mapped variable do.
// `$variable` is Access.Var / Access.SetVar, `$value` is the argument of Write, `yield e` is the
// returned value (Read) or Access.SetVar(e) (Write); a false `await` is
// distsys.ErrCriticalSectionAborted; `with (x \in S)` is Access.Pick; a failed `assert` is an error
// wrapping distsys.ErrAssertionFailed.
type Macro struct {
	Read  func(a *Access) (tla.Value, error)
	Write func(a *Access, value tla.Value) error
}

// Access is the view a macro gets of the state during one read or write.
type Access struct {
	res   *specRes
	iface distsys.ArchetypeInterface
	path  []tla.Value
}

// Var is the current value of `$variable`: the bound global variable, applied to the indices
// consumed by the mapping (`network[self]` for `mapping network[_] via M`).
func (a *Access) Var() tla.Value {
	v := a.res.p.sys.State.Get(a.res.varName)
	for _, i := range a.path {
		v = v.ApplyFunction(i)
	}
	return v
}

// SetVar assigns `$variable` (an EXCEPT along the consumed indices).
func (a *Access) SetVar(nv tla.Value) {
	st := a.res.p.sys.State
	if len(a.path) == 0 {
		st.Set(a.res.varName, nv)
		return
	}
	st.Set(a.res.varName, tla.FunctionSubstitution(st.Get(a.res.varName), []tla.FunctionSubstitutionRecord{{
		Keys: a.path, Value: func(tla.Value) tla.Value { return nv }}}))
}

// Index returns the indices consumed by the mapping (e.g. the destination of a network write).
func (a *Access) Index() []tla.Value { return a.path }

// Self is the `self` of the archetype performing the access.
func (a *Access) Self() tla.Value { return a.iface.Self() }

// Global / SetGlobal access another global variable of the spec state inside the same attempt
// (rolled back with it on abort).
func (a *Access) Global(name string) tla.Value       { return a.res.p.sys.State.Get(name) }
func (a *Access) SetGlobal(name string, v tla.Value) { a.res.p.sys.State.Set(name, v) }

// Pick resolves `with (x \in S)` inside a macro: the candidates are sorted canonically
// (SortValues), the driver's dictated index selects one (through the archetype's fairness
// counter, so it shows up in Obs.Choices under id), and the chosen ELEMENT is logged in Obs.Picks.
// The candidate list must not be empty (the macro's `await` comes first).
func (a *Access) Pick(id string, candidates []tla.Value) tla.Value {
	cs := append([]tla.Value(nil), candidates...)
	SortValues(cs)
	k := a.iface.NextFairnessCounter(id, uint(len(cs)))
	el := cs[k]
	a.res.p.picks = append(a.res.p.picks, Enc(el))
	return el
}

// Choose resolves an `either` inside a macro: returns the dictated branch in [0, n).
func (a *Access) Choose(id string, n uint) uint { return a.iface.NextFairnessCounter(id, n) }

// specRes is the archetype resource bound to one `ref` parameter of one archetype instance.
type specRes struct {
	p       *Proc
	varName string
	depth   int
	macro   Macro
	path    []tla.Value // indices consumed so far (sub-resources)
	extra   []tla.Value // indices beyond depth: plain function application on the macro's value
}

var _ distsys.ArchetypeResource = &specRes{}

func (r *specRes) touch() {
	if r.p.tx == nil {
		r.p.tx = r.p.sys.State.copyVars()
	}
}

func (r *specRes) Abort(distsys.ArchetypeInterface) chan struct{} {
	if r.p.tx != nil {
		r.p.sys.State.vars = r.p.tx
		r.p.tx = nil
	}
	return nil
}

func (r *specRes) PreCommit(distsys.ArchetypeInterface) chan error { return nil }

func (r *specRes) Commit(distsys.ArchetypeInterface) chan struct{} {
	r.p.tx = nil
	return nil
}

// Close is called by Run's clean-up. An attempt that ended in an error (failed assertion, TLA+
// type error) is never aborted by Run; roll it back here so that the reported state is the
// state before the failing attempt.
func (r *specRes) Close() error {
	r.Abort(distsys.ArchetypeInterface{})
	return nil
}

func (r *specRes) Index(iface distsys.ArchetypeInterface, index tla.Value) (distsys.ArchetypeResource, error) {
	r.touch()
	sub := &specRes{p: r.p, varName: r.varName, depth: r.depth, macro: r.macro}
	if len(r.path) < r.depth {
		sub.path = append(append([]tla.Value(nil), r.path...), index)
	} else {
		sub.path = r.path
		sub.extra = append(append([]tla.Value(nil), r.extra...), index)
	}
	return sub, nil
}

func (r *specRes) ReadValue(iface distsys.ArchetypeInterface) (tla.Value, error) {
	r.touch()
	if len(r.path) < r.depth {
		return tla.Value{}, distsys.ErrArchetypeResourceMapReadWrite
	}
	v, err := r.macro.Read(&Access{res: r, iface: iface, path: r.path})
	r.p.accessLog = append(r.p.accessLog, VarAccess{"r", r.varName, encIdx(r.path), err == nil})
	if err != nil {
		return tla.Value{}, err
	}
	for _, i := range r.extra {
		v = v.ApplyFunction(i)
	}
	return v, nil
}

func (r *specRes) WriteValue(iface distsys.ArchetypeInterface, value tla.Value) error {
	r.touch()
	if len(r.path) < r.depth {
		return distsys.ErrArchetypeResourceMapReadWrite
	}
	value = value.StripVClock()
	a := &Access{res: r, iface: iface, path: r.path}
	if len(r.extra) > 0 {
		// p[i] := v on a parameter mapped without [_]: p := [p EXCEPT ![i] = v] through the macro
		cur, err := r.macro.Read(a)
		if err != nil {
			return err
		}
		nv := value
		value = tla.FunctionSubstitution(cur, []tla.FunctionSubstitutionRecord{{
			Keys: r.extra, Value: func(tla.Value) tla.Value { return nv }}})
	}
	err := r.macro.Write(a, value)
	r.p.accessLog = append(r.p.accessLog, VarAccess{"w", r.varName, encIdx(r.path), err == nil})
	return err
}
