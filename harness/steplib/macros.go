package steplib

import (
	"github.com/DistCompiler/pgo/distsys"
	"github.com/DistCompiler/pgo/distsys/tla"
)

// Identity is the absence of a mapping macro: read yields $variable, write assigns it.
var Identity = Macro{
	Read:  func(a *Access) (tla.Value, error) { return a.Var(), nil },
	Write: func(a *Access, v tla.Value) error { a.SetVar(v); return nil },
}

// EmptyBag is the empty bag (the Bags module represents a bag as a function element -> count; the
// specs write it `<<>>`, which in TLA+ equals the empty function).
func EmptyBag() tla.Value { return tla.MakeRecord(nil) }

// BagAdd is  b (+) SetToBag({e}).
func BagAdd(b, e tla.Value) tla.Value {
	var fields []tla.RecordField
	found := false
	it := b.AsFunction().Iterator()
	for !it.Done() {
		k, n, _ := it.Next()
		if k.Equal(e) {
			found = true
			n = tla.MakeNumber(n.AsNumber() + 1)
		}
		fields = append(fields, tla.RecordField{Key: k, Value: n})
	}
	if !found {
		fields = append(fields, tla.RecordField{Key: e, Value: tla.MakeNumber(1)})
	}
	return tla.MakeRecord(fields)
}

// BagRemove is  b (-) SetToBag({e}).
func BagRemove(b, e tla.Value) tla.Value {
	var fields []tla.RecordField
	it := b.AsFunction().Iterator()
	for !it.Done() {
		k, n, _ := it.Next()
		if k.Equal(e) {
			if n.AsNumber() <= 1 {
				continue
			}
			n = tla.MakeNumber(n.AsNumber() - 1)
		}
		fields = append(fields, tla.RecordField{Key: k, Value: n})
	}
	return tla.MakeRecord(fields)
}

// BagLink is locksvc.tla's mapping macro ReliableLink over a bag:
//
//	read  { await BagCardinality($variable) > 0;
//	        with (readMsg \in BagToSet($variable)) { $variable := $variable (-) SetToBag({readMsg}); yield readMsg; } }
//	write { yield $variable (+) SetToBag({$value}); }
var BagLink = Macro{
	Read: func(a *Access) (tla.Value, error) {
		bag := a.Var()
		elems := Keys(bag) // BagToSet
		if len(elems) == 0 {
			return tla.Value{}, distsys.ErrCriticalSectionAborted
		}
		m := a.Pick("BagLink.readMsg", elems)
		a.SetVar(BagRemove(bag, m))
		return m, nil
	},
	Write: func(a *Access, v tla.Value) error {
		a.SetVar(BagAdd(a.Var(), v))
		return nil
	},
}

// FIFOLink is the usual reliable FIFO channel macro over a sequence
// (dqueue's TCPChannel, load_balancer/proxy's ReliableFIFOLink without the enabled flag):
//
//	read  { await Len($variable) > 0; with (msg = Head($variable)) { $variable := Tail($variable); yield msg; } }
//	write { await Len($variable) < bound; yield Append($variable, $value); }      (no await if bound < 0)
func FIFOLink(bound int) Macro {
	return Macro{
		Read: func(a *Access) (tla.Value, error) {
			q := a.Var()
			if q.AsTuple().Len() == 0 {
				return tla.Value{}, distsys.ErrCriticalSectionAborted
			}
			a.SetVar(tla.ModuleTail(q))
			return tla.ModuleHead(q), nil
		},
		Write: func(a *Access, v tla.Value) error {
			q := a.Var()
			if bound >= 0 && q.AsTuple().Len() >= bound {
				return distsys.ErrCriticalSectionAborted
			}
			a.SetVar(tla.ModuleAppend(q, v))
			return nil
		},
	}
}
