module verifharness

go 1.23.0

require (
	github.com/DistCompiler/pgo/distsys v0.0.0
	github.com/DistCompiler/pgo/systems/dqueue v0.0.0
	github.com/DistCompiler/pgo/systems/gcounter v0.0.0
	github.com/DistCompiler/pgo/systems/loadbalancer v0.0.0
	github.com/DistCompiler/pgo/systems/locksvc v0.0.0
	github.com/DistCompiler/pgo/systems/nestedcrdtimpl v0.0.0
	github.com/DistCompiler/pgo/systems/pbkvs v0.0.0
	github.com/DistCompiler/pgo/systems/proxy v0.0.0
	github.com/DistCompiler/pgo/systems/raftkvs v0.0.0
	github.com/DistCompiler/pgo/systems/replicatedkv v0.0.0-00010101000000-000000000000
	github.com/DistCompiler/pgo/systems/shcounter v0.0.0
	github.com/DistCompiler/pgo/systems/shopcart v0.0.0
	github.com/DistCompiler/pgo/test/files/general/ExprTests.tla.gotests v0.0.0-00010101000000-000000000000
	github.com/DistCompiler/pgo/test/files/general/IndexingLocals.tla.gotests v0.0.0-00010101000000-000000000000
	github.com/DistCompiler/pgo/test/files/general/NonDetExploration.tla.gotests v0.0.0-00010101000000-000000000000
	github.com/DistCompiler/pgo/test/files/general/PBFail4_bug125.tla.gotests v0.0.0-00010101000000-000000000000
	github.com/DistCompiler/pgo/test/files/general/ProcedureSpaghetti.tla.gotests v0.0.0-00010101000000-000000000000
	github.com/DistCompiler/pgo/test/files/general/bug2_124.tla.gotests v0.0.0-00010101000000-000000000000
	github.com/DistCompiler/pgo/test/files/general/bug_119.tla.gotests v0.0.0-00010101000000-000000000000
	github.com/DistCompiler/pgo/test/files/general/hello.tla.gotests v0.0.0-00010101000000-000000000000
	github.com/benbjohnson/immutable v0.4.3
	github.com/dgraph-io/badger/v3 v3.2103.5
	go.uber.org/multierr v1.11.0
)

require (
	github.com/cespare/xxhash v1.1.0 // indirect
	github.com/cespare/xxhash/v2 v2.3.0 // indirect
	github.com/dgraph-io/ristretto v0.2.0 // indirect
	github.com/dustin/go-humanize v1.0.1 // indirect
	github.com/fsnotify/fsnotify v1.8.0 // indirect
	github.com/gogo/protobuf v1.3.2 // indirect
	github.com/golang/groupcache v0.0.0-20241129210726-2c02b8208cf8 // indirect
	github.com/golang/protobuf v1.5.4 // indirect
	github.com/golang/snappy v0.0.4 // indirect
	github.com/google/flatbuffers v25.2.10+incompatible // indirect
	github.com/hashicorp/hcl v1.0.0 // indirect
	github.com/klauspost/compress v1.18.0 // indirect
	github.com/magiconair/properties v1.8.7 // indirect
	github.com/mitchellh/mapstructure v1.5.0 // indirect
	github.com/pelletier/go-toml/v2 v2.2.3 // indirect
	github.com/pkg/errors v0.9.1 // indirect
	github.com/sagikazarmark/slog-shim v0.1.0 // indirect
	github.com/segmentio/fasthash v1.0.3 // indirect
	github.com/spf13/afero v1.11.0 // indirect
	github.com/spf13/cast v1.7.0 // indirect
	github.com/spf13/pflag v1.0.5 // indirect
	github.com/spf13/viper v1.19.0 // indirect
	github.com/subosito/gotenv v1.6.0 // indirect
	go.opencensus.io v0.24.0 // indirect
	golang.org/x/exp v0.0.0-20250218142911-aa4b98e5adaa // indirect
	golang.org/x/net v0.35.0 // indirect
	golang.org/x/sys v0.30.0 // indirect
	golang.org/x/text v0.22.0 // indirect
	google.golang.org/protobuf v1.36.5 // indirect
	gopkg.in/ini.v1 v1.67.0 // indirect
	gopkg.in/yaml.v3 v3.0.1 // indirect
)

replace github.com/DistCompiler/pgo/distsys => /repo/distsys

replace github.com/DistCompiler/pgo/systems/dqueue => /repo/systems/dqueue

replace github.com/DistCompiler/pgo/systems/locksvc => /repo/systems/locksvc

replace github.com/DistCompiler/pgo/systems/pbkvs => /repo/systems/pbkvs

replace github.com/DistCompiler/pgo/systems/raftkvs => /repo/systems/raftkvs

replace github.com/DistCompiler/pgo/systems/loadbalancer => /repo/systems/loadbalancer

replace github.com/DistCompiler/pgo/systems/proxy => /repo/systems/proxy

replace github.com/DistCompiler/pgo/systems/shcounter => /repo/systems/shcounter

replace github.com/DistCompiler/pgo/systems/gcounter => /repo/systems/gcounter

replace github.com/DistCompiler/pgo/systems/shopcart => /repo/systems/shopcart

replace github.com/DistCompiler/pgo/systems/nestedcrdtimpl => /repo/systems/nestedcrdtimpl

replace github.com/DistCompiler/pgo/systems/replicatedkv => /repo/systems/replicatedkv

replace github.com/DistCompiler/pgo/test/files/general/hello.tla.gotests => /repo/pgo/test/files/general/hello.tla.gotests

replace github.com/DistCompiler/pgo/test/files/general/IndexingLocals.tla.gotests => /repo/pgo/test/files/general/IndexingLocals.tla.gotests

replace github.com/DistCompiler/pgo/test/files/general/NonDetExploration.tla.gotests => /repo/pgo/test/files/general/NonDetExploration.tla.gotests

replace github.com/DistCompiler/pgo/test/files/general/bug2_124.tla.gotests => /repo/pgo/test/files/general/bug2_124.tla.gotests

replace github.com/DistCompiler/pgo/test/files/general/PBFail4_bug125.tla.gotests => /repo/pgo/test/files/general/PBFail4_bug125.tla.gotests

replace github.com/DistCompiler/pgo/test/files/general/bug_119.tla.gotests => /repo/pgo/test/files/general/bug_119.tla.gotests

replace github.com/DistCompiler/pgo/test/files/general/ProcedureSpaghetti.tla.gotests => /repo/pgo/test/files/general/ProcedureSpaghetti.tla.gotests

replace github.com/DistCompiler/pgo/test/files/general/ExprTests.tla.gotests => /repo/pgo/test/files/general/ExprTests.tla.gotests
