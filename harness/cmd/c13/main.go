// c13: drives real resources.NewCRDT instances on 127.0.0.1 through the ArchetypeResource methods,
// CRDTRPCReceiver.ReceiveValue (over net/rpc) and the verif hooks (one broadcast round now; state
// snapshot; shutdown). The periodic broadcast is disabled by a very long interval: every tick of a
// schedule is issued by this driver. The payload is GCounter, AWORSet or LWWSet, wrapped in `gated`,
// a CRDTValue that delegates everything and lets the driver hold up one Merge (inside the merger
// goroutine) or one GobEncode (inside a broadcast round, after the payload was read) of a chosen node.
//
// Input (stdin), one JSON case per line:
//
//	{"id":N, "type":"gcounter"|"aworset"|"lww", "n":3, "self_in_peers":false, "dead_peer":false,
//	 "events":[ ["w", i, v] | ["w", i, cmd, elem]   node i: WriteValue (opens a section if none is open)
//	            ["c", i]      node i: PreCommit+Commit
//	            ["a", i]      node i: Abort
//	            ["t", i]      node i: one broadcast round (VerifCRDTBroadcast)
//	            ["r", i, X]   an external peer calls ReceiveValue on node i with a value X:
//	                          gcounter [[k, v], ...] (foreign writer ids k >= 100); sets [[cmd, elem], ...]
//	                          written by foreign writer 100 on a fresh value
//	            ["gm", i, X, SUB]  like "r", but node i's merger is held inside Merge(X) while the simple
//	                          events SUB (w/c/a of node i) are attempted; then the merge is released
//	            ["gt", i, SUB]     one broadcast round of node i held after the payload was read (inside the
//	                          first GobEncode) while SUB is performed; then the round is released
//	            ["fin"]       no action: all stable states must be equivalent now
//	          ]}
//
// Output, one JSON line per case:
//
//	{"id":N, "snaps":[ per event: [ per node: {"v":read, "s":stable read, "h":hasOld, "need":k, "ve":{..}, "se":{..}} ] ],
//	 "replies":[...], "t0":[ per event: driver clock readings taken just before each LWW write of that event ],
//	 "blocked":[ per event: "gm": SUB could not proceed while the merge was held (the merger holds the lock) ],
//	 "pfails":[{"sig":..., "ev":k, "what":...}], "err":""}
//
// reads: gcounter number; sets sorted element list. After every event the driver waits until every merge
// queue is empty and the snapshots are stable. pfails: payload-level oracle (gcounter, lww): states are
// fetched with ReceiveValue(nil) (the reply is the stable state) and compared with the real Merge.
package main

import (
	"bufio"
	"bytes"
	"encoding/gob"
	"encoding/json"
	"fmt"
	"io"
	"log"
	"net"
	"net/rpc"
	"os"
	"regexp"
	"sort"
	"strconv"
	"sync"
	"time"

	"github.com/DistCompiler/pgo/distsys"
	"github.com/DistCompiler/pgo/distsys/resources"
	"github.com/DistCompiler/pgo/distsys/tla"
)

// ---------------------------------------------------------------- gated payload

type gateT struct {
	mu      sync.Mutex
	armed   map[string]bool // "m<i>" merge of node i, "e<i>" encode of node i
	entered chan string
	release chan struct{}
}

var gate = gateT{armed: map[string]bool{}, entered: make(chan string, 4), release: make(chan struct{})}

func (g *gateT) arm(key string) {
	g.mu.Lock()
	g.armed[key] = true
	g.mu.Unlock()
}

func (g *gateT) disarm(key string) {
	g.mu.Lock()
	delete(g.armed, key)
	g.mu.Unlock()
}

func (g *gateT) pass(key string) {
	g.mu.Lock()
	hit := g.armed[key]
	if hit {
		delete(g.armed, key)
	}
	g.mu.Unlock()
	if hit {
		g.entered <- key
		<-g.release
	}
}

// gated wraps a CRDT value of node Node (-1: a value that came over the wire)
type gated struct {
	Inner resources.CRDTValue
	Node  int
}

type holder struct{ V resources.CRDTValue }

func (c gated) Init() resources.CRDTValue { return gated{c.Inner.Init(), c.Node} }
func (c gated) Read() tla.Value           { return c.Inner.Read() }
func (c gated) Write(id tla.Value, v tla.Value) resources.CRDTValue {
	return gated{c.Inner.Write(id, v), c.Node}
}
func (c gated) Merge(other resources.CRDTValue) resources.CRDTValue {
	noteMerge(c.Node, other)
	gate.pass(fmt.Sprintf("m%d", c.Node))
	return gated{c.Inner.Merge(unwrap(other)), c.Node}
}
func (c gated) String() string { return fmt.Sprint(c.Inner) }
func (c gated) GobEncode() ([]byte, error) {
	gate.pass(fmt.Sprintf("e%d", c.Node))
	var buf bytes.Buffer
	err := gob.NewEncoder(&buf).Encode(&holder{V: c.Inner})
	return buf.Bytes(), err
}
func (c *gated) GobDecode(b []byte) error {
	var h holder
	if err := gob.NewDecoder(bytes.NewBuffer(b)).Decode(&h); err != nil {
		return err
	}
	c.Inner, c.Node = h.V, -1
	return nil
}

// merge bookkeeping: how many received values the merger of each node has started to merge. The merger calls
// value.Merge(v) and, during a section, oldValue.Merge(v) with the same v: the second call is not counted.
var mergeLog struct {
	mu    sync.Mutex
	count map[int]int
	last  map[int]resources.CRDTValue
}

func resetMergeLog() {
	mergeLog.mu.Lock()
	mergeLog.count, mergeLog.last = map[int]int{}, map[int]resources.CRDTValue{}
	mergeLog.mu.Unlock()
}

func noteMerge(node int, other resources.CRDTValue) {
	if node < 0 {
		return
	}
	mergeLog.mu.Lock()
	if l, ok := mergeLog.last[node]; !ok || l != other {
		mergeLog.count[node]++
		mergeLog.last[node] = other
	}
	mergeLog.mu.Unlock()
}

func mergesStarted(node int) int {
	mergeLog.mu.Lock()
	defer mergeLog.mu.Unlock()
	return mergeLog.count[node]
}

func unwrap(v resources.CRDTValue) resources.CRDTValue {
	if g, ok := v.(gated); ok {
		return g.Inner
	}
	return v
}

func init() { gob.Register(gated{}) }

// ---------------------------------------------------------------- canonical projections (as cmd/c12)

type pairs [][2]int64

func sortPairs(p pairs) pairs {
	sort.Slice(p, func(i, j int) bool { return p[i][0] < p[j][0] })
	return p
}

func valNum(v tla.Value) int64 { return int64(v.AsNumber()) }

func canonGC(c resources.GCounter) pairs {
	out := pairs{}
	it := c.Iterator()
	for !it.Done() {
		k, v, _ := it.Next()
		if v != 0 {
			out = append(out, [2]int64{valNum(k), int64(v)})
		}
	}
	return sortPairs(out)
}

func lwwDecode(b []byte) (adds, rems pairs, err error) {
	dec := gob.NewDecoder(bytes.NewBuffer(b))
	for part := 0; part < 2; part++ {
		var n int
		if err = dec.Decode(&n); err != nil {
			return
		}
		ps := pairs{}
		for i := 0; i < n; i++ {
			var k tla.Value
			var t time.Time
			if err = dec.Decode(&k); err != nil {
				return
			}
			if err = dec.Decode(&t); err != nil {
				return
			}
			ps = append(ps, [2]int64{valNum(k), t.UnixNano()})
		}
		if part == 0 {
			adds = sortPairs(ps)
		} else {
			rems = sortPairs(ps)
		}
	}
	return
}

// own projects a state on what the mesh itself wrote (external ReceiveValue calls inject entries of
// foreign writers, which nobody re-broadcasts): gcounter only
func own(s resources.CRDTValue) string {
	if g, ok := unwrap(s).(resources.GCounter); ok {
		out := pairs{}
		for _, p := range canonGC(g) {
			if p[0] < 100 {
				out = append(out, p)
			}
		}
		b, _ := json.Marshal(out)
		return string(b)
	}
	return canonStr(s)
}

func canonStr(s resources.CRDTValue) string {
	var c interface{}
	switch v := unwrap(s).(type) {
	case resources.GCounter:
		c = canonGC(v)
	case resources.LWWSet:
		b, err := v.GobEncode()
		if err != nil {
			panic(err)
		}
		adds, rems, err := lwwDecode(b)
		if err != nil {
			panic(err)
		}
		c = map[string]interface{}{"add": adds, "rem": rems}
	default:
		c = fmt.Sprint(v)
	}
	b, _ := json.Marshal(c)
	return string(b)
}

// a ⊑ b on the real Merge: b ⊔ a == b
func leq(a, b resources.CRDTValue) bool {
	return canonStr(unwrap(b).Merge(unwrap(a))) == canonStr(b)
}

// ---------------------------------------------------------------- case

type kase struct {
	ID          int               `json:"id"`
	Type        string            `json:"type"`
	N           int               `json:"n"`
	SelfInPeers bool              `json:"self_in_peers"`
	DeadPeer    bool              `json:"dead_peer"` // the peer lists also name a peer nobody listens for
	Late        []int             `json:"late"`      // nodes that are down at the start; event ["up", j] starts them
	Events      []json.RawMessage `json:"events"`
}

type snap struct {
	V    interface{}      `json:"v"`
	S    interface{}      `json:"s"`
	H    bool             `json:"h"`
	Need int              `json:"need"`
	VE   map[string]int64 `json:"ve"`
	SE   map[string]int64 `json:"se"`
}

type pfail struct {
	Sig  string `json:"sig"`
	Ev   int    `json:"ev"`
	What string `json:"what"`
}

type result struct {
	ID      int                `json:"id"`
	Snaps   [][]snap           `json:"snaps"`
	Replies []map[string]int64 `json:"replies"`
	T0      [][]int64          `json:"t0"`
	Blocked []bool             `json:"blocked"`
	PFails  []pfail            `json:"pfails"`
	Err     string             `json:"err"`
}

var entryRe = regexp.MustCompile(`(\d+):(-?\d+)`)

// GCounter.String() is "map[k:v k:v]" with numeric writer ids
func entries(s string) map[string]int64 {
	out := map[string]int64{}
	for _, m := range entryRe.FindAllStringSubmatch(s, -1) {
		v, _ := strconv.ParseInt(m[2], 10, 64)
		if v != 0 {
			out[m[1]] = v
		}
	}
	return out
}

func readOf(typ string, v tla.Value) interface{} {
	if typ == "gcounter" {
		return int64(v.AsNumber())
	}
	out := []int64{}
	it := v.AsSet().Iterator()
	for !it.Done() {
		k, _, _ := it.Next()
		out = append(out, valNum(k))
	}
	sort.Slice(out, func(i, j int) bool { return out[i] < out[j] })
	return out
}

type run struct {
	k     kase
	nodes []distsys.ArchetypeResource
	addrs []string
	cl    []*rpc.Client
	lastT int64
	t0    []int64
	// number of values handed to each node's merge queue so far, as far as the driver knows (external
	// ReceiveValue calls, payloads and replies of the rounds it triggered)
	expect []int
}

func (r *run) takeSnaps() ([]snap, int) {
	out := make([]snap, len(r.nodes))
	q := 0
	for i, n := range r.nodes {
		if n == nil { // not started yet: the initial state
			var zero interface{} = []int64{}
			if r.k.Type == "gcounter" {
				zero = int64(0)
			}
			out[i] = snap{V: zero, S: zero}
			if r.k.Type == "gcounter" {
				out[i].VE, out[i].SE = map[string]int64{}, map[string]int64{}
			}
			continue
		}
		st := resources.VerifCRDTSnapshot(n)
		out[i] = snap{V: readOf(r.k.Type, st.Value), S: readOf(r.k.Type, st.Stable), H: st.HasOld, Need: st.Need}
		if r.k.Type == "gcounter" {
			out[i].VE, out[i].SE = entries(st.ValueStr), entries(st.StableStr)
		}
		q += st.QueueLen
	}
	return out, q
}

func sameSnaps(a, b []snap) bool {
	x, _ := json.Marshal(a)
	y, _ := json.Marshal(b)
	return string(x) == string(y)
}

// settle waits until every merger has started to merge every value the driver knows was queued (a snapshot then
// waits for the merger to release the state lock), every merge queue is empty and three consecutive snapshots
// agree. If the code under test queues fewer values than expected (a seeded bug), the count condition is dropped
// after 300 ms and the rest decides.
func (r *run) settle() ([]snap, error) {
	begin := time.Now()
	deadline := begin.Add(5 * time.Second)
	var prev []snap
	stableRuns := 0
	for time.Now().Before(deadline) {
		counted := true
		for i := range r.nodes {
			if r.nodes[i] != nil && mergesStarted(i) < r.expect[i] {
				counted = false
			}
		}
		if !counted && time.Since(begin) < 300*time.Millisecond {
			time.Sleep(100 * time.Microsecond)
			continue
		}
		cur, q := r.takeSnaps()
		if q == 0 && prev != nil && sameSnaps(prev, cur) {
			stableRuns++
			if stableRuns >= 3 {
				return cur, nil
			}
		} else {
			stableRuns = 0
		}
		prev = cur
		time.Sleep(150 * time.Microsecond)
	}
	return prev, fmt.Errorf("hang: merge queues did not settle")
}

func (r *run) client(i int) (*rpc.Client, error) {
	if r.cl[i] == nil {
		c, err := rpc.Dial("tcp", r.addrs[i])
		if err != nil {
			return nil, err
		}
		r.cl[i] = c
	}
	return r.cl[i], nil
}

// receive calls ReceiveValue on node i; v == nil only fetches the stable state
func (r *run) receive(i int, v resources.CRDTValue) (resources.CRDTValue, error) {
	c, err := r.client(i)
	if err != nil {
		return nil, err
	}
	var rep resources.ReceiveValueResp
	if err := c.Call("CRDTRPCReceiver.ReceiveValue", resources.ReceiveValueArgs{Value: v}, &rep); err != nil {
		return nil, err
	}
	return rep.Value, nil
}

func (r *run) tick() int64 {
	t := time.Now().UnixNano()
	for t <= r.lastT {
		t = time.Now().UnixNano()
	}
	return t
}

func req(cmd, elem int64) tla.Value {
	return tla.MakeRecord([]tla.RecordField{
		{Key: tla.MakeString("cmd"), Value: tla.MakeNumber(int32(cmd))},
		{Key: tla.MakeString("elem"), Value: tla.MakeNumber(int32(elem))},
	})
}

func (r *run) initVal(node int) gated {
	switch r.k.Type {
	case "gcounter":
		return gated{resources.GCounter{}.Init(), node}
	case "aworset":
		return gated{resources.AWORSet{}.Init(), node}
	case "lww":
		return gated{resources.LWWSet{}.Init(), node}
	}
	panic("unknown type " + r.k.Type)
}

// external value from its JSON description
func (r *run) external(raw json.RawMessage) resources.CRDTValue {
	var ps [][2]int64
	if err := json.Unmarshal(raw, &ps); err != nil {
		panic("bad external value: " + err.Error())
	}
	var val resources.CRDTValue = r.initVal(-1)
	for _, p := range ps {
		if r.k.Type == "gcounter" {
			val = val.Write(tla.MakeNumber(int32(p[0])), tla.MakeNumber(int32(p[1])))
		} else {
			if r.k.Type == "lww" {
				t := r.tick()
				r.t0 = append(r.t0, t)
			}
			val = val.Write(tla.MakeNumber(100), req(p[0], p[1]))
			r.lastT = time.Now().UnixNano()
		}
	}
	return val
}

// simple performs a w / c / a event of a node
func (r *run) simple(ev []json.RawMessage) error {
	var kind string
	json.Unmarshal(ev[0], &kind)
	var i int
	json.Unmarshal(ev[1], &i)
	var iface distsys.ArchetypeInterface
	switch kind {
	case "w":
		var a, b int64
		json.Unmarshal(ev[2], &a)
		if r.k.Type == "gcounter" {
			return r.nodes[i].WriteValue(iface, tla.MakeNumber(int32(a)))
		}
		json.Unmarshal(ev[3], &b)
		if r.k.Type == "lww" {
			r.t0 = append(r.t0, r.tick())
		}
		err := r.nodes[i].WriteValue(iface, req(a, b))
		r.lastT = time.Now().UnixNano()
		return err
	case "c":
		if ch := r.nodes[i].PreCommit(iface); ch != nil {
			if err := <-ch; err != nil {
				return err
			}
		}
		if ch := r.nodes[i].Commit(iface); ch != nil {
			<-ch
		}
		return nil
	case "a":
		if ch := r.nodes[i].Abort(iface); ch != nil {
			<-ch
		}
		return nil
	}
	return fmt.Errorf("not a simple event: %s", kind)
}

func (r *run) subs(raw json.RawMessage) error {
	var sub []json.RawMessage
	if err := json.Unmarshal(raw, &sub); err != nil {
		return err
	}
	for _, s := range sub {
		var ev []json.RawMessage
		if err := json.Unmarshal(s, &ev); err != nil {
			return err
		}
		if err := r.simple(ev); err != nil {
			return err
		}
	}
	return nil
}

func wrote(raw json.RawMessage, open *bool, dirty *bool) (committed bool) {
	// follows a SUB list: returns whether it contains a commit of a section that wrote
	var sub [][]json.RawMessage
	json.Unmarshal(raw, &sub)
	for _, ev := range sub {
		var kind string
		json.Unmarshal(ev[0], &kind)
		switch kind {
		case "w":
			*open, *dirty = true, true
		case "c":
			if *dirty {
				committed = true
			}
			*open, *dirty = false, false
		case "a":
			*open, *dirty = false, false
		}
	}
	return
}

func runCase(k kase) (res result) {
	res.ID = k.ID
	res.PFails = []pfail{}
	defer func() {
		if x := recover(); x != nil {
			res.Err = fmt.Sprintf("panic: %v", x)
		}
	}()
	r := &run{k: k, expect: make([]int, k.N)}
	resetMergeLog()
	// reserve all addresses while holding every listener open (closing one before binding the next
	// may hand the same port out twice), then release them for NewCRDT
	r.addrs = make([]string, k.N+1)
	held := make([]net.Listener, 0, k.N+1)
	for i := range r.addrs {
		l, err := net.Listen("tcp", "127.0.0.1:0")
		if err != nil {
			res.Err = "listen: " + err.Error()
			return
		}
		r.addrs[i] = l.Addr().String()
		held = append(held, l)
	}
	for _, l := range held {
		l.Close()
	}
	ids := make([]tla.Value, k.N)
	for i := range ids {
		ids[i] = tla.MakeNumber(int32(i))
	}
	r.nodes = make([]distsys.ArchetypeResource, k.N)
	r.cl = make([]*rpc.Client, k.N)
	late := map[int]bool{}
	for _, j := range k.Late {
		late[j] = true
	}
	start := func(i int) {
		var peers []tla.Value
		for j := 0; j < k.N; j++ {
			if j != i || k.SelfInPeers {
				peers = append(peers, ids[j])
			}
		}
		if k.DeadPeer {
			peers = append(peers, tla.MakeNumber(int32(k.N)))
		}
		r.nodes[i] = resources.NewCRDT(ids[i], peers, func(id tla.Value) string { return r.addrs[id.AsNumber()] },
			r.initVal(i),
			resources.WithCRDTBroadcastInterval(1000*time.Hour),
			resources.WithCRDTDialTimeout(500*time.Millisecond),
			resources.WithCRDTSendTimeout(2*time.Second))
	}
	for i := 0; i < k.N; i++ {
		if !late[i] {
			start(i)
		}
	}
	defer func() {
		for _, c := range r.cl {
			if c != nil {
				c.Close()
			}
		}
		for _, n := range r.nodes {
			if n != nil {
				resources.VerifCRDTShutdown(n)
			}
		}
	}()

	payloadOracle := (k.Type == "gcounter" || k.Type == "lww") && len(k.Late) == 0
	lastc := make([]resources.CRDTValue, k.N) // stable state right after the node's last writing commit
	recvd := make([][]resources.CRDTValue, k.N)
	open := make([]bool, k.N)
	dirty := make([]bool, k.N)
	probe := func() []resources.CRDTValue {
		out := make([]resources.CRDTValue, k.N)
		for i := range out {
			v, err := r.receive(i, nil)
			if err != nil {
				panic("probe: " + err.Error())
			}
			out[i] = v
		}
		return out
	}
	fail := func(sig string, ev int, what string) {
		for _, f := range res.PFails {
			if f.Sig == sig {
				return
			}
		}
		res.PFails = append(res.PFails, pfail{sig, ev, what})
	}
	var before []resources.CRDTValue
	var prevSnaps []snap
	if payloadOracle {
		before = probe()
	}
	prevSnaps, _ = r.takeSnaps()

	for evNo, raw := range k.Events {
		var ev []json.RawMessage
		if err := json.Unmarshal(raw, &ev); err != nil {
			res.Err = "bad event: " + err.Error()
			return
		}
		var kind string
		json.Unmarshal(ev[0], &kind)
		var i int
		if len(ev) > 1 {
			json.Unmarshal(ev[1], &i)
		}
		var reply map[string]int64
		blocked := false
		r.t0 = []int64{}
		committedNow := false
		var ext resources.CRDTValue
		done := make(chan error, 1)
		go func() {
			defer func() {
				if x := recover(); x != nil {
					done <- fmt.Errorf("panic: %v", x)
				}
			}()
			switch kind {
			case "w", "c", "a":
				if kind == "w" {
					open[i], dirty[i] = true, true
				} else {
					if kind == "c" && dirty[i] {
						committedNow = true
					}
					open[i], dirty[i] = false, false
				}
				done <- r.simple(ev)
			case "t":
				resources.VerifCRDTBroadcast(r.nodes[i])
				done <- nil
			case "r":
				ext = r.external(ev[2])
				rep, err := r.receive(i, ext)
				if err == nil && k.Type == "gcounter" {
					reply = entries(fmt.Sprint(rep))
				}
				done <- err
			case "gm":
				ext = r.external(ev[2])
				key := fmt.Sprintf("m%d", i)
				gate.arm(key)
				// the RPC itself may have to wait for the merger (its reply needs the read lock)
				rcvDone := make(chan error, 1)
				go func() { _, err := r.receive(i, ext); rcvDone <- err }()
				select {
				case <-gate.entered:
				case <-time.After(3 * time.Second):
					gate.disarm(key)
					done <- fmt.Errorf("hang: merger of node %d never started the merge", i)
					return
				}
				subDone := make(chan error, 1)
				go func() { subDone <- r.subs(ev[3]) }()
				var err error
				select {
				case err = <-subDone:
					gate.release <- struct{}{}
				case <-time.After(30 * time.Millisecond):
					blocked = true // the merger holds the state lock while merging: SUB waits
					gate.release <- struct{}{}
					err = <-subDone
				}
				if wrote(ev[3], &open[i], &dirty[i]) {
					committedNow = true
				}
				if err2 := <-rcvDone; err == nil {
					err = err2
				}
				done <- err
			case "gt":
				key := fmt.Sprintf("e%d", i)
				gate.arm(key)
				tickDone := make(chan struct{})
				go func() { resources.VerifCRDTBroadcast(r.nodes[i]); close(tickDone) }()
				var err error
				select {
				case <-gate.entered:
					err = r.subs(ev[2])
					gate.release <- struct{}{}
					<-tickDone
				case <-tickDone: // nothing owed (or nobody to send to): the round did not encode anything
					gate.disarm(key)
					err = r.subs(ev[2])
				}
				if wrote(ev[2], &open[i], &dirty[i]) {
					committedNow = true
				}
				done <- err
			case "up":
				if r.nodes[i] == nil {
					start(i)
				}
				done <- nil
			case "fin":
				done <- nil
			default:
				done <- fmt.Errorf("unknown event %s", kind)
			}
		}()
		select {
		case err := <-done:
			if err != nil {
				res.Err = fmt.Sprintf("event %s: %v", kind, err)
				return
			}
		case <-time.After(20 * time.Second):
			res.Err = "hang: event " + kind
			return
		}
		switch kind {
		case "r", "gm":
			r.expect[i]++
		case "t", "gt":
			if r.nodes[i] != nil && prevSnaps[i].Need > 0 {
				for j := range r.nodes {
					if j != i && r.nodes[j] != nil {
						r.expect[j]++
						r.expect[i]++
					}
				}
			}
		}
		s, err := r.settle()
		if err != nil {
			res.Err = err.Error()
			return
		}
		res.Snaps = append(res.Snaps, s)
		res.Replies = append(res.Replies, reply)
		res.T0 = append(res.T0, r.t0)
		res.Blocked = append(res.Blocked, blocked)

		if payloadOracle {
			cur := probe()
			// bookkeeping of what was received
			if (kind == "t" || kind == "gt") && prevSnaps[i].Need > 0 {
				for j := 0; j < k.N; j++ {
					if j != i {
						recvd[j] = append(recvd[j], before[i])
						recvd[i] = append(recvd[i], before[j])
					}
				}
			}
			if ext != nil {
				recvd[i] = append(recvd[i], ext)
			}
			if committedNow {
				lastc[i] = cur[i]
			}
			for j := 0; j < k.N; j++ {
				if lastc[j] != nil && !leq(lastc[j], cur[j]) {
					fail("committed-update-lost", evNo, fmt.Sprintf("event %d: node %d no longer holds its own committed state %s, stable state is %s", evNo, j, canonStr(lastc[j]), canonStr(cur[j])))
				}
				for _, p := range recvd[j] {
					if !leq(p, cur[j]) {
						fail("received-state-lost", evNo, fmt.Sprintf("event %d: node %d received %s earlier, stable state is now %s", evNo, j, canonStr(p), canonStr(cur[j])))
						break
					}
				}
				if len(recvd[j]) > 24 {
					recvd[j] = recvd[j][len(recvd[j])-24:]
				}
			}
			if kind == "t" && lastc[i] != nil {
				for j := 0; j < k.N; j++ {
					if j != i && !leq(lastc[i], cur[j]) {
						fail("owed-broadcast-consumed", evNo, fmt.Sprintf("event %d: after a broadcast round of node %d, node %d does not hold its last committed state %s (has %s)", evNo, i, j, canonStr(lastc[i]), canonStr(cur[j])))
					}
				}
			}
			if kind == "fin" {
				for j := 1; j < k.N; j++ {
					if own(cur[j]) != own(cur[0]) {
						fail("no-convergence", evNo, fmt.Sprintf("after the finale node 0 holds %s and node %d holds %s", canonStr(cur[0]), j, canonStr(cur[j])))
					}
				}
			}
			before = cur
		}
		prevSnaps = s
	}
	return
}

func main() {
	log.SetOutput(io.Discard)
	in := bufio.NewReaderSize(os.Stdin, 1<<20)
	out := bufio.NewWriter(os.Stdout)
	defer out.Flush()
	dec := json.NewDecoder(in)
	enc := json.NewEncoder(out)
	for dec.More() {
		var k kase
		if err := dec.Decode(&k); err != nil {
			fmt.Fprintln(os.Stderr, "bad case:", err)
			os.Exit(2)
		}
		if k.Type == "" {
			k.Type = "gcounter"
		}
		enc.Encode(runCase(k))
		out.Flush()
	}
}
