// c13: drives real resources.NewCRDT instances (GCounter payload) on 127.0.0.1 through the
// ArchetypeResource methods, CRDTRPCReceiver.ReceiveValue (over net/rpc) and the verif hooks
// (one broadcast round now; state snapshot; shutdown). The periodic broadcast is disabled by a very
// long interval: every tick of a schedule is issued by this driver.
//
// Input (stdin), one JSON case per line:
//
//	{"id":N, "n":3, "self_in_peers":false,
//	 "events":[ ["w", i, v]   node i: WriteValue(increment v)      (opens a section if none is open)
//	            ["c", i]      node i: PreCommit+Commit
//	            ["a", i]      node i: Abort
//	            ["t", i]      node i: one broadcast round (VerifCRDTBroadcast)
//	            ["r", i, [[k, v], ...]]  external peer calls ReceiveValue on node i with a GCounter
//	                                     holding entries k -> v (k is a foreign writer id >= 100)
//	            ["d", i]      node i goes down (listener and connections closed)
//	          ]}
//
// Output, one JSON line per case:
//
//	{"id":N, "snaps":[ per event: [ per node: {"v":value read, "s":stable read, "h":hasOld, "need":k,
//	                                           "ve":{writer:count}, "se":{writer:count}} ] ],
//	 "replies":[ per event: for "r" the entries of the reply, else null ], "err":""}
//
// After every event the driver waits until every merge queue is empty and the snapshots are stable
// (the merger goroutine of crdt.go merges received states as soon as it can).
package main

import (
	"bufio"
	"encoding/json"
	"fmt"
	"io"
	"log"
	"net"
	"net/rpc"
	"os"
	"regexp"
	"strconv"
	"time"

	"github.com/DistCompiler/pgo/distsys"
	"github.com/DistCompiler/pgo/distsys/resources"
	"github.com/DistCompiler/pgo/distsys/tla"
)

type kase struct {
	ID          int               `json:"id"`
	N           int               `json:"n"`
	SelfInPeers bool              `json:"self_in_peers"`
	DeadPeer    bool              `json:"dead_peer"` // the peer lists also name a peer nobody listens for
	Events      []json.RawMessage `json:"events"`
}

type snap struct {
	V    int64            `json:"v"`
	S    int64            `json:"s"`
	H    bool             `json:"h"`
	Need int              `json:"need"`
	VE   map[string]int64 `json:"ve"`
	SE   map[string]int64 `json:"se"`
}

type result struct {
	ID      int                `json:"id"`
	Snaps   [][]snap           `json:"snaps"`
	Replies []map[string]int64 `json:"replies"`
	Err     string             `json:"err"`
}

var entryRe = regexp.MustCompile(`(\d+):(-?\d+)`)

// GCounter.String() is "map[k:v k:v]" with numeric writer ids
func entries(s string) map[string]int64 {
	out := map[string]int64{}
	for _, m := range entryRe.FindAllStringSubmatch(s, -1) {
		v, _ := strconv.ParseInt(m[2], 10, 64)
		if v != 0 {
			out[m[1]] = v
		}
	}
	return out
}

func takeSnaps(nodes []distsys.ArchetypeResource, down []bool) ([]snap, int) {
	out := make([]snap, len(nodes))
	q := 0
	for i, r := range nodes {
		st := resources.VerifCRDTSnapshot(r)
		out[i] = snap{V: int64(st.Value.AsNumber()), S: int64(st.Stable.AsNumber()), H: st.HasOld, Need: st.Need,
			VE: entries(st.ValueStr), SE: entries(st.StableStr)}
		if !down[i] {
			q += st.QueueLen
		}
	}
	return out, q
}

func sameSnaps(a, b []snap) bool {
	x, _ := json.Marshal(a)
	y, _ := json.Marshal(b)
	return string(x) == string(y)
}

// settle waits for the condition "all merge queues empty and three consecutive equal snapshots"
func settle(nodes []distsys.ArchetypeResource, down []bool) ([]snap, error) {
	deadline := time.Now().Add(5 * time.Second)
	var prev []snap
	stableRuns := 0
	for time.Now().Before(deadline) {
		cur, q := takeSnaps(nodes, down)
		if q == 0 && prev != nil && sameSnaps(prev, cur) {
			stableRuns++
			if stableRuns >= 3 {
				return cur, nil
			}
		} else {
			stableRuns = 0
		}
		prev = cur
		time.Sleep(150 * time.Microsecond)
	}
	return prev, fmt.Errorf("hang: merge queues did not settle")
}

func runCase(k kase) (res result) {
	res.ID = k.ID
	defer func() {
		if r := recover(); r != nil {
			res.Err = fmt.Sprintf("panic: %v", r)
		}
	}()
	// reserve all addresses while holding every listener open (closing one before binding the next
	// may hand the same port out twice), then release them for NewCRDT
	addrs := make([]string, k.N+1)
	held := make([]net.Listener, 0, k.N+1)
	for i := range addrs {
		l, err := net.Listen("tcp", "127.0.0.1:0")
		if err != nil {
			res.Err = "listen: " + err.Error()
			return
		}
		addrs[i] = l.Addr().String()
		held = append(held, l)
	}
	for _, l := range held {
		l.Close()
	}
	ids := make([]tla.Value, k.N)
	for i := range ids {
		ids[i] = tla.MakeNumber(int32(i))
	}
	nodes := make([]distsys.ArchetypeResource, k.N)
	down := make([]bool, k.N)
	for i := 0; i < k.N; i++ {
		var peers []tla.Value
		for j := 0; j < k.N; j++ {
			if j != i || k.SelfInPeers {
				peers = append(peers, ids[j])
			}
		}
		if k.DeadPeer {
			peers = append(peers, tla.MakeNumber(int32(k.N)))
		}
		nodes[i] = resources.NewCRDT(ids[i], peers, func(id tla.Value) string { return addrs[id.AsNumber()] },
			resources.GCounter{},
			resources.WithCRDTBroadcastInterval(1000*time.Hour),
			resources.WithCRDTDialTimeout(500*time.Millisecond),
			resources.WithCRDTSendTimeout(2*time.Second))
	}
	defer func() {
		for i, r := range nodes {
			if !down[i] {
				resources.VerifCRDTShutdown(r)
			}
		}
	}()
	var iface distsys.ArchetypeInterface
	for _, raw := range k.Events {
		var ev []json.RawMessage
		if err := json.Unmarshal(raw, &ev); err != nil {
			res.Err = "bad event: " + err.Error()
			return
		}
		var kind string
		json.Unmarshal(ev[0], &kind)
		var i int
		json.Unmarshal(ev[1], &i)
		var reply map[string]int64
		done := make(chan error, 1)
		go func() {
			defer func() {
				if r := recover(); r != nil {
					done <- fmt.Errorf("panic: %v", r)
				}
			}()
			switch kind {
			case "w":
				var v int32
				json.Unmarshal(ev[2], &v)
				done <- nodes[i].WriteValue(iface, tla.MakeNumber(v))
			case "c":
				if ch := nodes[i].PreCommit(iface); ch != nil {
					if err := <-ch; err != nil {
						done <- err
						return
					}
				}
				if ch := nodes[i].Commit(iface); ch != nil {
					<-ch
				}
				done <- nil
			case "a":
				if ch := nodes[i].Abort(iface); ch != nil {
					<-ch
				}
				done <- nil
			case "t":
				if !down[i] {
					resources.VerifCRDTBroadcast(nodes[i])
				}
				done <- nil
			case "r":
				var ps [][2]int64
				json.Unmarshal(ev[2], &ps)
				var val resources.CRDTValue = resources.GCounter{}.Init()
				for _, p := range ps {
					val = val.Write(tla.MakeNumber(int32(p[0])), tla.MakeNumber(int32(p[1])))
				}
				client, err := rpc.Dial("tcp", addrs[i])
				if err != nil {
					done <- err
					return
				}
				defer client.Close()
				var rep resources.ReceiveValueResp
				if err := client.Call("CRDTRPCReceiver.ReceiveValue", resources.ReceiveValueArgs{Value: val}, &rep); err != nil {
					done <- err
					return
				}
				reply = entries(fmt.Sprint(rep.Value))
				done <- nil
			default:
				done <- fmt.Errorf("unknown event %s", kind)
			}
		}()
		select {
		case err := <-done:
			if err != nil {
				res.Err = fmt.Sprintf("event %s: %v", kind, err)
				return
			}
		case <-time.After(20 * time.Second):
			res.Err = "hang: event " + kind
			return
		}
		s, err := settle(nodes, down)
		if err != nil {
			res.Err = err.Error()
			return
		}
		res.Snaps = append(res.Snaps, s)
		res.Replies = append(res.Replies, reply)
	}
	return
}

func main() {
	log.SetOutput(io.Discard)
	in := bufio.NewReaderSize(os.Stdin, 1<<20)
	out := bufio.NewWriter(os.Stdout)
	defer out.Flush()
	dec := json.NewDecoder(in)
	enc := json.NewEncoder(out)
	for dec.More() {
		var k kase
		if err := dec.Decode(&k); err != nil {
			fmt.Fprintln(os.Stderr, "bad case:", err)
			os.Exit(2)
		}
		enc.Encode(runCase(k))
		out.Flush()
	}
}
