// c07: drives resources.LocalSharedManager / localShared (optionally wrapped in resources.Persistent)
// from ONE driver thread, so that every schedule is a deterministic sequence of resource-API calls.
//
// Two modes:
//
//	"api": the driver plays N sharers itself: it calls ReadValue/WriteValue/Index/Commit/Abort on each
//	       sharer's own localShared handle (through distsys.ArchetypeResource), keeping a dirty set per sharer
//	       and releasing per variable in the order the script dictates (MPCalContext.commit/abort iterate a
//	       Go map, i.e. any order, possibly interleaved with other sharers' accesses).
//	"ctx": N real MPCalContexts run a hand-made archetype whose single critical section interprets commands
//	       sent by the driver; commit()/abort() of the real Run loop are used.
//
// Input (stdin), one JSON case per line:
//
//	{"id":1,"mode":"api","nsh":3,"timeout_ms":3,"vars":[{"init":5,"persist":false},{"init":{"m":[[0,1],[1,2]]}}],
//	 "ops":[["begin",0],["acc",0,1,"r"],["acc",0,1,"w",7],["acc",1,0,"ir",1],["acc",1,0,"iw",1,9],
//	        ["cstart",0],["crel",0,1],["end",0],["astart",1],["arel",1,0],["end",1],["commit",2],["abort",2],["get",0,1]]}
//
// Output: {"id":1,"res":[{"st":"ok|timeout|skip|hang|panic:...","v":<value or null>}...],"final":[values],"err":""}
package main

import (
	"bufio"
	"bytes"
	"encoding/gob"
	"encoding/json"
	"errors"
	"fmt"
	"math/rand"
	"os"
	"runtime"
	"sort"
	"time"

	"github.com/DistCompiler/pgo/distsys"
	"github.com/DistCompiler/pgo/distsys/resources"
	"github.com/DistCompiler/pgo/distsys/tla"
	"github.com/dgraph-io/badger/v3"
)

type varSpec struct {
	Init    json.RawMessage `json:"init"`
	Persist bool            `json:"persist"`
}

type kase struct {
	ID        int             `json:"id"`
	Mode      string          `json:"mode"`
	NSh       int             `json:"nsh"`
	TimeoutMs float64         `json:"timeout_ms"`
	Vars      []varSpec       `json:"vars"`
	Ops       [][]interface{} `json:"ops"`
	Iters     int             `json:"iters"` // stress mode: committed sections per sharer
	Seed      int64           `json:"seed"`
	// ctx mode: indices of "abort" ops that are performed as "Stop() is requested, then the open section's body
	// returns ErrCriticalSectionAborted": Run must still roll the section back (release its shared variables)
	// before it honours the exit request; the sharer takes no further part in the case
	StopAbort []int `json:"stop_abort"`
}

type opRes struct {
	St string        `json:"st"`
	V  interface{}   `json:"v"`
	Op []interface{} `json:"op,omitempty"` // set on wind-down steps the harness added after the script
}

type result struct {
	ID    int           `json:"id"`
	Res   []opRes       `json:"res"`
	Final []interface{} `json:"final"`
	Err   string        `json:"err"`
	// stress mode
	Commits  []int `json:"commits,omitempty"`
	Attempts []int `json:"attempts,omitempty"`
}

// ---- value conversion ----

func toTLA(raw interface{}) tla.Value {
	switch x := raw.(type) {
	case float64:
		return tla.MakeNumber(int32(x))
	case map[string]interface{}:
		var fields []tla.RecordField
		for _, p := range x["m"].([]interface{}) {
			kv := p.([]interface{})
			fields = append(fields, tla.RecordField{Key: tla.MakeNumber(int32(kv[0].(float64))), Value: tla.MakeNumber(int32(kv[1].(float64)))})
		}
		return tla.MakeRecord(fields)
	}
	panic(fmt.Sprintf("bad value %v", raw))
}

func fromTLA(v tla.Value) interface{} {
	v = v.StripVClock()
	if v.IsNumber() {
		return int(v.AsNumber())
	}
	if v.IsFunction() {
		var pairs [][2]int
		it := v.AsFunction().Iterator()
		for !it.Done() {
			k, x, _ := it.Next()
			pairs = append(pairs, [2]int{int(k.AsNumber()), int(x.AsNumber())})
		}
		sort.Slice(pairs, func(a, b int) bool { return pairs[a][0] < pairs[b][0] })
		return map[string]interface{}{"m": pairs}
	}
	return fmt.Sprintf("?%v", v)
}

func decodeState(b []byte) (tla.Value, error) {
	var v tla.Value
	err := gob.NewDecoder(bytes.NewReader(b)).Decode(&v)
	return v, err
}

// withDeadline runs f on its own goroutine; "hang" if it does not return in time.
func withDeadline(d time.Duration, f func() opRes) opRes {
	ch := make(chan opRes, 1)
	go func() {
		defer func() {
			if r := recover(); r != nil {
				ch <- opRes{St: fmt.Sprintf("panic:%v", r)}
			}
		}()
		ch <- f()
	}()
	select {
	case r := <-ch:
		return r
	case <-time.After(d):
		return opRes{St: "hang"}
	}
}

// ---- shared set-up ----

type world struct {
	k       kase
	mgrs    []*resources.LocalSharedManager
	raw     [][]resources.Persistable     // raw[i][v]: sharer i's localShared handle on variable v
	res     [][]distsys.ArchetypeResource // res[i][v]: what the sharer's context is given (maybe Persistent-wrapped)
	obs     []resources.Persistable       // one extra handle per variable, for the final snapshot
	db      *badger.DB
	hangDur time.Duration
	hung    bool
}

func newWorld(k kase) (*world, error) {
	w := &world{k: k}
	to := time.Duration(k.TimeoutMs * float64(time.Millisecond))
	w.hangDur = 40*to + 5*time.Second
	needDB := false
	for _, vs := range k.Vars {
		if vs.Persist {
			needDB = true
		}
	}
	if needDB {
		db, err := badger.Open(badger.DefaultOptions("").WithInMemory(true).WithLogger(nil))
		if err != nil {
			return nil, err
		}
		w.db = db
	}
	for _, vs := range k.Vars {
		var raw interface{}
		if err := json.Unmarshal(vs.Init, &raw); err != nil {
			return nil, err
		}
		w.mgrs = append(w.mgrs, resources.NewLocalSharedManager(toTLA(raw), resources.WithLocalSharedResourceTimeout(to)))
	}
	for i := 0; i < k.NSh; i++ {
		var rs []resources.Persistable
		var as []distsys.ArchetypeResource
		for v, vs := range k.Vars {
			h := w.mgrs[v].MakeLocalShared()
			rs = append(rs, h)
			if vs.Persist {
				as = append(as, resources.MakePersistent(fmt.Sprintf("c07.%d.s%d.x%d", k.ID, i, v), w.db, h))
			} else {
				as = append(as, h)
			}
		}
		w.raw = append(w.raw, rs)
		w.res = append(w.res, as)
	}
	for v := range k.Vars {
		w.obs = append(w.obs, w.mgrs[v].MakeLocalShared())
	}
	return w, nil
}

func (w *world) close() {
	if w.db != nil {
		w.db.Close()
	}
}

func (w *world) getState(h resources.Persistable) opRes {
	return withDeadline(w.hangDur, func() opRes {
		b, err := h.GetState()
		if err != nil {
			return opRes{St: "err:" + err.Error()}
		}
		v, err := decodeState(b)
		if err != nil {
			return opRes{St: "err:" + err.Error()}
		}
		return opRes{St: "ok", V: fromTLA(v)}
	})
}

func (w *world) final() []interface{} {
	var out []interface{}
	for v := range w.k.Vars {
		r := w.getState(w.obs[v])
		if r.St == "ok" {
			out = append(out, r.V)
		} else {
			out = append(out, r.St)
		}
	}
	return out
}

// one access through the ArchetypeResource API, as iface.Read / iface.Write do (Index then Read/WriteValue)
func access(iface distsys.ArchetypeInterface, res distsys.ArchetypeResource, op []interface{}) (opRes, error) {
	kind := op[3].(string)
	var err error
	switch kind {
	case "r":
		var v tla.Value
		v, err = res.ReadValue(iface)
		if err == nil {
			return opRes{St: "ok", V: fromTLA(v)}, nil
		}
	case "w":
		err = res.WriteValue(iface, toTLA(op[4]))
		if err == nil {
			return opRes{St: "ok"}, nil
		}
	case "ir":
		var sub distsys.ArchetypeResource
		sub, err = res.Index(iface, tla.MakeNumber(int32(op[4].(float64))))
		if err == nil {
			var v tla.Value
			v, err = sub.ReadValue(iface)
			if err == nil {
				return opRes{St: "ok", V: fromTLA(v)}, nil
			}
		}
	case "iw":
		var sub distsys.ArchetypeResource
		sub, err = res.Index(iface, tla.MakeNumber(int32(op[4].(float64))))
		if err == nil {
			err = sub.WriteValue(iface, tla.MakeNumber(int32(op[5].(float64))))
			if err == nil {
				return opRes{St: "ok"}, nil
			}
		}
	case "inc": // read, then write read+1 (two accesses)
		var v tla.Value
		v, err = res.ReadValue(iface)
		if err == nil {
			n := v.StripVClock().AsNumber()
			err = res.WriteValue(iface, tla.MakeNumber(n+1))
			if err == nil {
				return opRes{St: "ok", V: int(n)}, nil
			}
		}
	case "iinc":
		var sub distsys.ArchetypeResource
		key := tla.MakeNumber(int32(op[4].(float64)))
		sub, err = res.Index(iface, key)
		if err == nil {
			var v tla.Value
			v, err = sub.ReadValue(iface)
			if err == nil {
				n := v.StripVClock().AsNumber()
				sub, err = res.Index(iface, key)
				if err == nil {
					err = sub.WriteValue(iface, tla.MakeNumber(n+1))
					if err == nil {
						return opRes{St: "ok", V: int(n)}, nil
					}
				}
			}
		}
	default:
		return opRes{St: "err:bad access kind"}, nil
	}
	if errors.Is(err, distsys.ErrCriticalSectionAborted) {
		return opRes{St: "timeout"}, err
	}
	return opRes{St: "err:" + err.Error()}, err
}

// ---- api mode ----

type apiSharer struct {
	iface distsys.ArchetypeInterface
	phase string // idle | active | committing | aborting
	dirty map[int]bool
}

func runAPI(w *world) (res []opRes) {
	k := w.k
	shs := make([]*apiSharer, k.NSh)
	for i := range shs {
		shs[i] = &apiSharer{iface: distsys.NewMPCalContextWithoutArchetype().IFace(), phase: "idle", dirty: map[int]bool{}}
	}
	skip := opRes{St: "skip"}
	holder := map[int]int{} // variable -> sharer whose handle has the lock (from the outcomes observed so far)
	for _, op := range k.Ops {
		name := op[0].(string)
		i := int(op[1].(float64))
		s := shs[i]
		r := skip
		switch name {
		case "begin":
			if s.phase == "idle" {
				s.phase = "active"
				r = opRes{St: "ok"}
			}
		case "acc":
			if s.phase == "active" {
				v := int(op[2].(float64))
				s.dirty[v] = true // ensureCriticalSectionWith before the access
				r = withDeadline(w.hangDur, func() opRes {
					rr, _ := access(s.iface, w.res[i][v], op)
					return rr
				})
				if r.St != "ok" {
					s.phase = "aborting" // Run: ErrCriticalSectionAborted -> abort()
				} else {
					holder[v] = i
				}
			}
		case "cstart":
			if s.phase == "active" {
				// commit(): PreCommit on every dirty resource first
				r = opRes{St: "ok"}
				for v := range s.dirty {
					if ch := w.res[i][v].PreCommit(s.iface); ch != nil {
						if err := <-ch; err != nil {
							r = opRes{St: "err:precommit " + err.Error()}
						}
					}
				}
				s.phase = "committing"
			}
		case "astart":
			if s.phase == "active" {
				s.phase = "aborting"
				r = opRes{St: "ok"}
			}
		case "crel", "arel":
			v := int(op[2].(float64))
			want := map[string]string{"crel": "committing", "arel": "aborting"}[name]
			if s.phase == want && s.dirty[v] {
				r = withDeadline(w.hangDur, func() opRes {
					var ch chan struct{}
					if name == "crel" {
						ch = w.res[i][v].Commit(s.iface)
					} else {
						ch = w.res[i][v].Abort(s.iface)
					}
					if ch != nil {
						<-ch
					}
					return opRes{St: "ok"}
				})
				delete(s.dirty, v)
				if h, ok := holder[v]; ok && h == i {
					delete(holder, v)
				}
			}
		case "end":
			if (s.phase == "committing" || s.phase == "aborting") && len(s.dirty) == 0 {
				s.phase = "idle"
				r = opRes{St: "ok"}
			}
		case "get":
			// GetState takes the lock without a timeout: an observer asks only when nobody else holds it
			v := int(op[2].(float64))
			if h, ok := holder[v]; !ok || h == i {
				r = w.getState(w.raw[i][v])
			}
		}
		res = append(res, r)
		if r.St == "hang" {
			w.hung = true
			for len(res) < len(k.Ops) {
				res = append(res, skip)
			}
			return
		}
	}
	// wind down whatever the script left open (only happens when the implementation's outcomes differed from
	// what the script's author expected, e.g. a timeout on a free lock under load): abort it, in handle order
	for i, s := range shs {
		if s.phase == "active" {
			s.phase = "aborting"
			res = append(res, opRes{St: "ok", Op: []interface{}{"astart", i}})
		}
		if s.phase == "committing" || s.phase == "aborting" {
			name := map[string]string{"committing": "crel", "aborting": "arel"}[s.phase]
			var vs []int
			for v := range s.dirty {
				vs = append(vs, v)
			}
			sort.Ints(vs)
			for _, v := range vs {
				var ch chan struct{}
				if name == "crel" {
					ch = w.res[i][v].Commit(s.iface)
				} else {
					ch = w.res[i][v].Abort(s.iface)
				}
				if ch != nil {
					<-ch
				}
				delete(s.dirty, v)
				res = append(res, opRes{St: "ok", Op: []interface{}{name, i, v}})
			}
			s.phase = "idle"
			res = append(res, opRes{St: "ok", Op: []interface{}{"end", i}})
		}
	}
	return
}

// ---- ctx mode ----

type cmd struct {
	op   []interface{}
	kind string // acc | commit | abort | done
}

type ctxSharer struct {
	ctx     *distsys.MPCalContext
	cmdCh   chan cmd
	resCh   chan opRes
	started chan struct{}
	runErr  chan error
	ready   bool // parked at the top of the body, waiting for its first command
	active  bool
	stopped bool // its Run has returned after a stop_abort step
}

func runCtx(w *world) (res []opRes, errs string) {
	k := w.k
	shs := make([]*ctxSharer, k.NSh)
	var refNames []string
	for v := range k.Vars {
		refNames = append(refNames, fmt.Sprintf("x%d", v))
	}
	for i := range shs {
		s := &ctxSharer{cmdCh: make(chan cmd), resCh: make(chan opRes, 1), started: make(chan struct{}, 1), runErr: make(chan error, 1)}
		shs[i] = s
		idx := i
		body := func(iface distsys.ArchetypeInterface) error {
			s.started <- struct{}{}
			for {
				c := <-s.cmdCh
				switch c.kind {
				case "acc":
					v := int(c.op[2].(float64))
					h, err := iface.RequireArchetypeResourceRef(fmt.Sprintf("ASharer.x%d", v))
					if err != nil {
						s.resCh <- opRes{St: "err:" + err.Error()}
						return err
					}
					var r opRes
					kind := c.op[3].(string)
					switch kind {
					case "r":
						var val tla.Value
						val, err = iface.Read(h, nil)
						r = opRes{St: "ok", V: nil}
						if err == nil {
							r.V = fromTLA(val)
						}
					case "w":
						err = iface.Write(h, nil, toTLA(c.op[4]))
						r = opRes{St: "ok"}
					case "ir":
						var val tla.Value
						val, err = iface.Read(h, []tla.Value{tla.MakeNumber(int32(c.op[4].(float64)))})
						r = opRes{St: "ok"}
						if err == nil {
							r.V = fromTLA(val)
						}
					case "iw":
						err = iface.Write(h, []tla.Value{tla.MakeNumber(int32(c.op[4].(float64)))}, tla.MakeNumber(int32(c.op[5].(float64))))
						r = opRes{St: "ok"}
					case "inc", "iinc":
						var idx []tla.Value
						if kind == "iinc" {
							idx = []tla.Value{tla.MakeNumber(int32(c.op[4].(float64)))}
						}
						var val tla.Value
						val, err = iface.Read(h, idx)
						r = opRes{St: "ok"}
						if err == nil {
							n := val.AsNumber()
							r.V = int(n)
							err = iface.Write(h, idx, tla.MakeNumber(n+1))
						}
					}
					if err != nil {
						if errors.Is(err, distsys.ErrCriticalSectionAborted) {
							s.resCh <- opRes{St: "timeout"}
						} else {
							s.resCh <- opRes{St: "err:" + err.Error()}
						}
						return err
					}
					s.resCh <- r
				case "commit":
					return nil
				case "abort":
					return distsys.ErrCriticalSectionAborted
				case "done":
					return distsys.ErrDone
				}
			}
		}
		arch := distsys.MPCalArchetype{
			Name:              "ASharer",
			Label:             "ASharer.body",
			RequiredRefParams: nil,
			RequiredValParams: nil,
			JumpTable:         distsys.MakeMPCalJumpTable(distsys.MPCalCriticalSection{Name: "ASharer.body", Body: body}),
			ProcTable:         distsys.MakeMPCalProcTable(),
			PreAmble:          func(distsys.ArchetypeInterface) {},
		}
		for _, n := range refNames {
			arch.RequiredRefParams = append(arch.RequiredRefParams, "ASharer."+n)
		}
		var cfg []distsys.MPCalContextConfigFn
		for v, n := range refNames {
			cfg = append(cfg, distsys.EnsureArchetypeRefParam(n, w.res[idx][v]))
		}
		s.ctx = distsys.NewMPCalContext(tla.MakeNumber(int32(i)), arch, cfg...)
		go func() {
			defer func() {
				if r := recover(); r != nil {
					s.runErr <- fmt.Errorf("panic: %v", r)
				}
			}()
			s.runErr <- s.ctx.Run()
		}()
	}
	// wait until sharer i is parked at the top of its body (previous commit()/abort() has completed)
	park := func(s *ctxSharer) bool {
		select {
		case <-s.started:
			s.ready = true
			s.active = false
			return true
		case <-time.After(w.hangDur):
			return false
		}
	}
	for _, s := range shs {
		if !park(s) {
			return nil, "sharer did not start"
		}
	}
	skip := opRes{St: "skip"}
	holder := map[int]int{}
	releaseAll := func(i int) {
		for v, h := range holder {
			if h == i {
				delete(holder, v)
			}
		}
	}
	stopAbort := map[int]bool{}
	for _, x := range k.StopAbort {
		stopAbort[x] = true
	}
	for opIdx, op := range k.Ops {
		name := op[0].(string)
		i := int(op[1].(float64))
		s := shs[i]
		r := skip
		if name == "abort" && stopAbort[opIdx] && s.active {
			go s.ctx.Stop()
			time.Sleep(40 * time.Millisecond) // let Stop register its request (it then waits for Run to exit)
			select {
			case s.cmdCh <- cmd{kind: "abort"}:
				select {
				case err := <-s.runErr:
					r = opRes{St: "ok"}
					if err != nil {
						errs += fmt.Sprintf("run %d after stop: %v; ", i, err)
					}
					s.runErr <- err
				case <-s.started:
					// Run re-entered the body instead of exiting: park it, the exit is taken at the next round
					r = opRes{St: "ok"}
					s.started <- struct{}{}
				case <-time.After(w.hangDur):
					r = opRes{St: "hang"}
				}
			case <-time.After(w.hangDur):
				r = opRes{St: "hang"}
			}
			s.active, s.ready, s.stopped = false, false, true
			releaseAll(i)
			res = append(res, r)
			if r.St == "hang" {
				w.hung = true
				for len(res) < len(k.Ops) {
					res = append(res, skip)
				}
				return res, "hang"
			}
			continue
		}
		switch name {
		case "begin":
			if s.ready && !s.active {
				s.active = true
				r = opRes{St: "ok"}
			}
		case "acc":
			if s.active {
				select {
				case s.cmdCh <- cmd{op: op, kind: "acc"}:
					select {
					case r = <-s.resCh:
					case <-time.After(w.hangDur):
						r = opRes{St: "hang"}
					}
				case <-time.After(w.hangDur):
					r = opRes{St: "hang"}
				}
				if r.St == "ok" {
					holder[int(op[2].(float64))] = i
				}
				if r.St != "ok" && r.St != "hang" {
					// the body returned the error: Run calls abort() and re-enters the body
					if !park(s) {
						r = opRes{St: "hang"}
					}
					releaseAll(i)
				}
			}
		case "commit", "abort":
			if s.active {
				select {
				case s.cmdCh <- cmd{kind: name}:
					if park(s) {
						r = opRes{St: "ok"}
						releaseAll(i)
					} else {
						r = opRes{St: "hang"}
					}
				case <-time.After(w.hangDur):
					r = opRes{St: "hang"}
				}
			}
		case "get":
			v := int(op[2].(float64))
			if h, ok := holder[v]; !ok || h == i {
				r = w.getState(w.raw[i][v])
			}
		}
		res = append(res, r)
		if r.St == "hang" {
			w.hung = true
			for len(res) < len(k.Ops) {
				res = append(res, skip)
			}
			return res, "hang"
		}
	}
	// wind down: abort sections still open, then ErrDone
	for i, s := range shs {
		if s.stopped {
			select {
			case <-s.started: // Run re-entered the body once more after the stop request: let it leave
				select {
				case s.cmdCh <- cmd{kind: "abort"}:
				case <-time.After(w.hangDur):
				}
			default:
			}
			select {
			case <-s.runErr:
			case <-time.After(w.hangDur):
				errs += fmt.Sprintf("run %d did not exit after Stop; ", i)
			}
			continue
		}
		if s.active {
			select {
			case s.cmdCh <- cmd{kind: "abort"}:
				park(s)
				res = append(res, opRes{St: "ok", Op: []interface{}{"abort", i}})
			case <-time.After(w.hangDur):
			}
		}
		select {
		case s.cmdCh <- cmd{kind: "done"}:
			select {
			case err := <-s.runErr:
				if err != nil {
					errs += fmt.Sprintf("run %d: %v; ", i, err)
				}
			case <-time.After(w.hangDur):
				errs += fmt.Sprintf("run %d did not exit; ", i)
			}
		case <-time.After(w.hangDur):
			errs += fmt.Sprintf("sharer %d not parked at wind-down; ", i)
		}
	}
	return
}

// ---- stress mode: genuinely concurrent sharers (real MPCalContext.Run loops, no driver) ----
// variable 0 is a ticket counter (every committed section reads t and writes t+1); the other variables are
// accounts: every section moves one unit between two of them, touching them in a random order (opposite
// acquisition orders happen all the time).  Search aid: the oracle checks ticket = commits, sum preserved, no hang.
func runStress(w *world) (commits, attempts []int, errs string) {
	k := w.k
	nv := len(k.Vars)
	commits = make([]int, k.NSh)
	attempts = make([]int, k.NSh)
	done := make(chan error, k.NSh)
	var ctxs []*distsys.MPCalContext
	for i := 0; i < k.NSh; i++ {
		idx := i
		rng := rand.New(rand.NewSource(k.Seed + int64(i)*7919))
		body := func(iface distsys.ArchetypeInterface) error {
			if commits[idx] >= k.Iters {
				return distsys.ErrDone
			}
			attempts[idx]++
			h := func(v int) distsys.ArchetypeResourceHandle {
				hh, err := iface.RequireArchetypeResourceRef(fmt.Sprintf("ASharer.x%d", v))
				if err != nil {
					panic(err)
				}
				return hh
			}
			type step struct {
				v     int
				delta int32
			}
			steps := []step{{0, 1}}
			if nv >= 3 {
				a := 1 + rng.Intn(nv-1)
				b := 1 + rng.Intn(nv-1)
				for b == a {
					b = 1 + rng.Intn(nv-1)
				}
				steps = append(steps, step{a, -1}, step{b, 1})
			}
			rng.Shuffle(len(steps), func(x, y int) { steps[x], steps[y] = steps[y], steps[x] })
			for _, st := range steps {
				val, err := iface.Read(h(st.v), nil)
				if err != nil {
					return err
				}
				if rng.Intn(4) == 0 {
					runtime.Gosched()
				}
				if err = iface.Write(h(st.v), nil, tla.MakeNumber(val.AsNumber()+st.delta)); err != nil {
					return err
				}
			}
			commits[idx]++
			return nil
		}
		arch := distsys.MPCalArchetype{
			Name: "ASharer", Label: "ASharer.body",
			JumpTable: distsys.MakeMPCalJumpTable(distsys.MPCalCriticalSection{Name: "ASharer.body", Body: body}),
			ProcTable: distsys.MakeMPCalProcTable(), PreAmble: func(distsys.ArchetypeInterface) {},
		}
		var cfg []distsys.MPCalContextConfigFn
		for v := 0; v < nv; v++ {
			arch.RequiredRefParams = append(arch.RequiredRefParams, fmt.Sprintf("ASharer.x%d", v))
			cfg = append(cfg, distsys.EnsureArchetypeRefParam(fmt.Sprintf("x%d", v), w.res[idx][v]))
		}
		ctx := distsys.NewMPCalContext(tla.MakeNumber(int32(i)), arch, cfg...)
		ctxs = append(ctxs, ctx)
	}
	for _, c := range ctxs {
		c := c
		go func() {
			defer func() {
				if r := recover(); r != nil {
					done <- fmt.Errorf("panic: %v", r)
				}
			}()
			done <- c.Run()
		}()
	}
	deadline := time.After(20*time.Second + time.Duration(k.Iters*k.NSh)*time.Duration(k.TimeoutMs*4*float64(time.Millisecond)))
	for range ctxs {
		select {
		case err := <-done:
			if err != nil {
				errs += err.Error() + "; "
			}
		case <-deadline:
			w.hung = true
			return commits, attempts, errs + "hang"
		}
	}
	return
}

func runCase(k kase) (out result) {
	out.ID = k.ID
	defer func() {
		if r := recover(); r != nil {
			out.Err = fmt.Sprintf("harness panic: %v", r)
		}
	}()
	w, err := newWorld(k)
	if err != nil {
		out.Err = err.Error()
		return
	}
	defer w.close()
	switch k.Mode {
	case "api":
		out.Res = runAPI(w)
	case "ctx":
		out.Res, out.Err = runCtx(w)
	case "stress":
		out.Commits, out.Attempts, out.Err = runStress(w)
	default:
		out.Err = "bad mode"
	}
	if w.hung {
		hungCases++
		for range k.Vars {
			out.Final = append(out.Final, "hang")
		}
		return
	}
	out.Final = w.final()
	for _, f := range out.Final {
		if s, ok := f.(string); ok && s == "hang" {
			hungCases++
			break
		}
	}
	return
}

var hungCases int

func main() {
	in := bufio.NewReaderSize(os.Stdin, 1<<20)
	outw := bufio.NewWriter(os.Stdout)
	defer outw.Flush()
	dec := json.NewDecoder(in)
	enc := json.NewEncoder(outw)
	for dec.More() {
		var k kase
		if err := dec.Decode(&k); err != nil {
			fmt.Fprintln(os.Stderr, "bad case:", err)
			os.Exit(2)
		}
		if hungCases >= 6 {
			// the implementation keeps blocking forever: do not spend the whole budget waiting
			enc.Encode(result{ID: k.ID, Err: "not run: 6 earlier cases blocked forever"})
			continue
		}
		enc.Encode(runCase(k))
	}
}
