// c02s: drives the REAL generated archetypes of dqueue, pbkvs, raftkvs, proxy and replicatedkv attempt by attempt (harness/steplib: real
// MPCalContext.Run loop, fairness-counter gate, trace recorder, spec-state resources implementing the specs' mapping
// macros), so that props/c02.py can let the REGENERATED Go model (tools/go2coq + coq/C02/Sem.v symex_go + Bind_<sys>.v)
// predict every observed attempt. The set-ups of dqueue and pbkvs are copies of harness/cmd/c16/dqueue.go and
// harness/cmd/c14/main.go (macros written over steplib.Access exactly as the specs define them); raftkvs uses
// harness/cmd/c08/raftstep.NewSession (network queue kept as a sequence there: props/c02.py turns it into the spec's bag).
//
// stdin : one JSON case per line  {"id":..,"system":"dqueue|pbkvs|raftkvs|proxy|replicatedkv","cfg":{..ints..},"sched":[["proc",[k,..]],..]}
// stdout: one JSON line per case  {"id","system","procs":[..],"pcs0":{proc:label},"init":STATE,"steps":[steplib.Obs..],"err"}
// (the same shape as harness/cmd/c16, whose binary serves the other small systems in the thorough tier)
package main

import (
	"bufio"
	"encoding/json"
	"fmt"
	"os"

	"github.com/DistCompiler/pgo/distsys"
	"github.com/DistCompiler/pgo/distsys/tla"
	"github.com/DistCompiler/pgo/systems/dqueue"
	"github.com/DistCompiler/pgo/systems/pbkvs"
	"github.com/DistCompiler/pgo/systems/proxy"
	"github.com/DistCompiler/pgo/systems/replicatedkv"

	"verifharness/cmd/c08/raftstep"
	"verifharness/steplib"
)

type kase struct {
	ID     int             `json:"id"`
	System string          `json:"system"`
	Cfg    map[string]int  `json:"cfg"`
	Sched  [][]interface{} `json:"sched"`
}

type result struct {
	ID     int                    `json:"id"`
	System string                 `json:"system"`
	Procs  []string               `json:"procs"`
	PCs0   map[string]string      `json:"pcs0"`
	Init   map[string]interface{} `json:"init"`
	Steps  []steplib.Obs          `json:"steps"`
	Err    string                 `json:"err"`
}

func num(i int) tla.Value { return tla.MakeNumber(int32(i)) }

// ---------------------------------------------------------------- dqueue (copy of cmd/c16/dqueue.go)

func buildDqueue(cfg map[string]int) (*steplib.System, func(), error) {
	nc, b := cfg["NUM_CONSUMERS"], cfg["BUFFER_SIZE"]
	var nodes []tla.Value
	for i := 0; i <= nc; i++ {
		nodes = append(nodes, num(i))
	}
	sys := steplib.NewSystem(map[string]tla.Value{
		"network":   steplib.ConstFn(nodes, tla.MakeTuple()),
		"processor": num(0),
		"stream":    num(0),
	})
	// mapping macro CyclicReads { read { $variable := ($variable + 1) % BUFFER_SIZE; yield $variable; } write { yield $variable } }
	cyclic := steplib.Macro{
		Read: func(a *steplib.Access) (tla.Value, error) {
			v := tla.ModulePercentSymbol(tla.ModulePlusSymbol(a.Var(), num(1)), num(b))
			a.SetVar(v)
			return v, nil
		},
		Write: func(a *steplib.Access, v tla.Value) error { return nil },
	}
	consts := distsys.EnsureMPCalContextConfigs(
		distsys.DefineConstantValue("PRODUCER", num(0)),
		distsys.DefineConstantValue("NUM_CONSUMERS", num(nc)),
		distsys.DefineConstantValue("BUFFER_SIZE", num(b)))
	sys.AddProc("producer", num(0), dqueue.AProducer, []steplib.Binding{
		{Param: "net", Var: "network", Depth: 1, Macro: steplib.FIFOLink(b)},
		{Param: "s", Var: "stream", Depth: 0, Macro: cyclic}}, consts)
	for c := 1; c <= nc; c++ {
		sys.AddProc(fmt.Sprintf("c%d", c), num(c), dqueue.AConsumer, []steplib.Binding{
			{Param: "net", Var: "network", Depth: 1, Macro: steplib.FIFOLink(b)},
			{Param: "proc", Var: "processor", Depth: 0, Macro: steplib.Identity}}, consts)
	}
	return sys, func() {}, nil
}

// ---------------------------------------------------------------- pbkvs (macros copied from cmd/c14/main.go)

func errAssert(what string) error { return fmt.Errorf("%w: %s", distsys.ErrAssertionFailed, what) }

func str(s string) tla.Value { return tla.MakeString(s) }

var reliableFIFOLink = steplib.Macro{
	Read: func(a *steplib.Access) (tla.Value, error) {
		v := a.Var()
		if !v.ApplyFunction(str("enabled")).AsBool() {
			return tla.Value{}, errAssert("$variable.enabled")
		}
		q := v.ApplyFunction(str("queue"))
		if q.AsTuple().Len() == 0 {
			return tla.Value{}, distsys.ErrCriticalSectionAborted
		}
		a.SetVar(steplib.Rec("queue", tla.ModuleTail(q), "enabled", v.ApplyFunction(str("enabled"))))
		return tla.ModuleHead(q), nil
	},
	Write: func(a *steplib.Access, val tla.Value) error {
		v := a.Var()
		if !v.ApplyFunction(str("enabled")).AsBool() {
			return distsys.ErrCriticalSectionAborted
		}
		a.SetVar(steplib.Rec("queue", tla.ModuleAppend(v.ApplyFunction(str("queue")), val), "enabled", v.ApplyFunction(str("enabled"))))
		return nil
	},
}

var networkToggle = steplib.Macro{
	Read: func(a *steplib.Access) (tla.Value, error) { return a.Var().ApplyFunction(str("enabled")), nil },
	Write: func(a *steplib.Access, val tla.Value) error {
		a.SetVar(steplib.Rec("queue", a.Var().ApplyFunction(str("queue")), "enabled", val))
		return nil
	},
}

var leaderElection = steplib.Macro{
	Read: func(a *steplib.Access) (tla.Value, error) {
		els := steplib.Elems(a.Var())
		if len(els) == 0 {
			return num(0), nil
		}
		min := els[0]
		for _, e := range els {
			if e.AsNumber() < min.AsNumber() {
				min = e
			}
		}
		return min, nil
	},
	Write: func(a *steplib.Access, val tla.Value) error {
		a.SetVar(tla.ModuleBackslashSymbol(a.Var(), tla.MakeSet(val)))
		return nil
	},
}

var networkBufferLength = steplib.Macro{
	Read:  func(a *steplib.Access) (tla.Value, error) { return tla.ModuleLen(a.Var().ApplyFunction(str("queue"))), nil },
	Write: func(a *steplib.Access, val tla.Value) error { return errAssert("FALSE (NetworkBufferLength write)") },
}

var channel = steplib.Macro{
	Read: func(a *steplib.Access) (tla.Value, error) {
		q := a.Var()
		if q.AsTuple().Len() == 0 {
			return tla.Value{}, distsys.ErrCriticalSectionAborted
		}
		a.SetVar(tla.ModuleTail(q))
		return tla.ModuleHead(q), nil
	},
	Write: func(a *steplib.Access, val tla.Value) error {
		a.SetVar(tla.ModuleAppend(a.Var(), val))
		return nil
	},
}

// pbkvs.tla's own initial state: clientInput = << PUT KEY1 VALUE1, PUT KEY1 VALUE2, GET KEY1 >>, KEY_SET = {KEY1}
func buildPbkvs(cfg map[string]int) (*steplib.System, func(), error) {
	nr, nc := cfg["NUM_REPLICAS"], cfg["NUM_CLIENTS"]
	nn := nr + nc
	var netFields []tla.RecordField
	for id := 1; id <= nn; id++ {
		for typ := 1; typ <= 2; typ++ {
			netFields = append(netFields, tla.RecordField{Key: tla.MakeTuple(num(id), num(typ)),
				Value: steplib.Rec("queue", tla.MakeTuple(), "enabled", tla.ModuleTRUE)})
		}
	}
	var reps []tla.Value
	for r := 1; r <= nr; r++ {
		reps = append(reps, num(r))
	}
	put := func(v string) tla.Value {
		return steplib.Rec("typ", num(3), "body", steplib.Rec("key", str("KEY1"), "value", str(v)))
	}
	sys := steplib.NewSystem(map[string]tla.Value{
		"network":      tla.MakeRecord(netFields),
		"fd":           steplib.ConstFn(reps, tla.ModuleFALSE),
		"fs":           steplib.ConstFn(reps, steplib.ConstFn([]tla.Value{str("KEY1")}, str(""))),
		"primary":      tla.MakeSet(reps...),
		"clientInput":  tla.MakeTuple(put("VALUE1"), put("VALUE2"), steplib.Rec("typ", num(1), "body", steplib.Rec("key", str("KEY1")))),
		"clientOutput": tla.Value{},
	})
	consts := []distsys.MPCalContextConfigFn{
		distsys.DefineConstantValue("NUM_REPLICAS", num(nr)),
		distsys.DefineConstantValue("NUM_CLIENTS", num(nc)),
		distsys.DefineConstantValue("EXPLORE_FAIL", tla.MakeBool(cfg["EXPLORE_FAIL"] != 0)),
		distsys.DefineConstantValue("DEBUG", tla.MakeBool(cfg["DEBUG"] != 0)),
	}
	for r := 1; r <= nr; r++ {
		sys.AddProc(fmt.Sprintf("p%d", r), num(r), pbkvs.AReplica, []steplib.Binding{
			{Param: "net", Var: "network", Depth: 1, Macro: reliableFIFOLink},
			{Param: "fs", Var: "fs", Depth: 2, Macro: steplib.Identity},
			{Param: "fd", Var: "fd", Depth: 1, Macro: steplib.Identity},
			{Param: "netEnabled", Var: "network", Depth: 1, Macro: networkToggle},
			{Param: "primary", Var: "primary", Depth: 0, Macro: leaderElection},
			{Param: "netLen", Var: "network", Depth: 1, Macro: networkBufferLength},
		}, consts...)
	}
	for c := nr + 1; c <= nn; c++ {
		sys.AddProc(fmt.Sprintf("p%d", c), num(c), pbkvs.AClient, []steplib.Binding{
			{Param: "net", Var: "network", Depth: 1, Macro: reliableFIFOLink},
			{Param: "fd", Var: "fd", Depth: 1, Macro: steplib.Identity},
			{Param: "primary", Var: "primary", Depth: 0, Macro: leaderElection},
			{Param: "netLen", Var: "network", Depth: 1, Macro: networkBufferLength},
			{Param: "input", Var: "clientInput", Depth: 0, Macro: channel},
			{Param: "output", Var: "clientOutput", Depth: 0, Macro: steplib.Identity},
		}, consts...)
	}
	return sys, func() {}, nil
}

// ---------------------------------------------------------------- proxy (mappings exactly as proxy.tla instantiates them)

// mapping macro PracticalFD { read { if ($variable = FALSE) { either { yield TRUE; } or { yield FALSE; }; } else { yield $variable; }; }
//                             write { yield $value; } }      -- the either is a real, recorded choice (Access.Choose)
var practicalFD = steplib.Macro{
	Read: func(a *steplib.Access) (tla.Value, error) {
		v := a.Var()
		if !v.AsBool() {
			if a.Choose("PracticalFD.read", 2) == 0 {
				return tla.ModuleTRUE, nil
			}
			return tla.ModuleFALSE, nil
		}
		return v, nil
	},
	Write: func(a *steplib.Access, val tla.Value) error { a.SetVar(val); return nil },
}

// mapping macro Requests { read { with (value = $variable) { $variable := $variable + 1; yield value; } }  write { assert(FALSE); ... } }
var requests = steplib.Macro{
	Read: func(a *steplib.Access) (tla.Value, error) {
		v := a.Var()
		a.SetVar(tla.ModulePlusSymbol(v, num(1)))
		return v, nil
	},
	Write: func(a *steplib.Access, val tla.Value) error { return errAssert("FALSE (write through Requests)") },
}

// proxy.tla: network = [id \in NODE_SET, typ \in MSG_TYP_SET |-> [queue |-> <<>>, enabled |-> TRUE]], fd = [id \in NODE_SET |-> FALSE],
// output = <<>>; AClient's second parameter is the value 0 mapped via Requests: one spec variable input<c> per client here
// (props/c02.py presents it to the model as the client's local `input`).
func buildProxy(cfg map[string]int) (*steplib.System, func(), error) {
	ns, nc := cfg["NUM_SERVERS"], cfg["NUM_CLIENTS"]
	p := ns + nc + 1
	var netKV, fdKV []tla.Value
	for i := 1; i <= p; i++ {
		for t := 1; t <= 4; t++ {
			netKV = append(netKV, tla.MakeTuple(num(i), num(t)), steplib.Rec("queue", tla.MakeTuple(), "enabled", tla.ModuleTRUE))
		}
		fdKV = append(fdKV, num(i), tla.ModuleFALSE)
	}
	init := map[string]tla.Value{"network": steplib.Fn(netKV...), "fd": steplib.Fn(fdKV...), "output": tla.MakeTuple()}
	for c := ns + 1; c <= ns+nc; c++ {
		init[fmt.Sprintf("input%d", c)] = num(0)
	}
	sys := steplib.NewSystem(init)
	consts := distsys.EnsureMPCalContextConfigs(
		distsys.DefineConstantValue("NUM_SERVERS", num(ns)),
		distsys.DefineConstantValue("NUM_CLIENTS", num(nc)),
		distsys.DefineConstantValue("EXPLORE_FAIL", tla.MakeBool(cfg["EXPLORE_FAIL"] != 0)),
		distsys.DefineConstantValue("CLIENT_RUN", tla.MakeBool(cfg["CLIENT_RUN"] != 0)))
	netB := steplib.Binding{Param: "net", Var: "network", Depth: 1, Macro: reliableFIFOLink}
	fdB := steplib.Binding{Param: "fd", Var: "fd", Depth: 1, Macro: practicalFD}
	sys.AddProc("proxy", num(p), proxy.AProxy, []steplib.Binding{netB, fdB}, consts)
	for j := 1; j <= ns; j++ {
		sys.AddProc(fmt.Sprintf("s%d", j), num(j), proxy.AServer, []steplib.Binding{
			netB, {Param: "netEnabled", Var: "network", Depth: 1, Macro: networkToggle}, fdB}, consts)
	}
	for c := ns + 1; c <= ns+nc; c++ {
		sys.AddProc(fmt.Sprintf("c%d", c), num(c), proxy.AClient, []steplib.Binding{
			netB, {Param: "input", Var: fmt.Sprintf("input%d", c), Depth: 0, Macro: requests},
			{Param: "output", Var: "output", Depth: 0, Macro: steplib.Identity}}, consts)
	}
	return sys, func() {}, nil
}

// ---------------------------------------------------------------- replicatedkv (mappings exactly as replicated_kv.tla instantiates them)

// replicated_kv.tla: replicasNetwork = [id \in ReplicaSet |-> <<>>], clientMailboxes = [id \in allClients |-> <<>>], cid = 0, out = 0,
// clocks = [c \in ClientSet |-> 0]; per replica kv = [k \in KeySpace |-> NULL] (spec variable kv<i>, presented to the model as the
// replica's local kvLocal). All CONSTANTs are the integers of the walk configuration.
func buildReplicatedkv(cfg map[string]int) (*steplib.System, func(), error) {
	nr, nc, b := cfg["NUM_REPLICAS"], cfg["NUM_CLIENTS"], cfg["BUFFER_SIZE"]
	getKey, putKey, null := num(cfg["GET_KEY"]), num(cfg["PUT_KEY"]), num(cfg["NULL"])
	var reps, allClients, clientSet []tla.Value
	for i := 0; i < nr; i++ {
		reps = append(reps, num(i))
	}
	for i := nr; i < nr+4*nc; i++ {
		allClients = append(allClients, num(i))
	}
	for i := nr; i < nr+nc; i++ {
		clientSet = append(clientSet, num(i))
	}
	init := map[string]tla.Value{
		"replicasNetwork": steplib.ConstFn(reps, tla.MakeTuple()),
		"clientMailboxes": steplib.ConstFn(allClients, tla.MakeTuple()),
		"clocks":          steplib.ConstFn(clientSet, num(0)),
		"cid":             num(0),
		"out":             num(0),
	}
	for i := 0; i < nr; i++ {
		init[fmt.Sprintf("kv%d", i)] = steplib.Fn(getKey, null, putKey, null)
	}
	sys := steplib.NewSystem(init)
	idMacro := func(order int) steplib.Macro { // read { yield self - (NUM_CLIENTS * ORDER) }  write { assert(FALSE) }
		return steplib.Macro{
			Read:  func(a *steplib.Access) (tla.Value, error) { return tla.ModuleMinusSymbol(a.Self(), num(nc*order)), nil },
			Write: func(a *steplib.Access, v tla.Value) error { return errAssert("FALSE (write to a client id)") },
		}
	}
	var cs []distsys.MPCalContextConfigFn
	for _, k := range []string{"NUM_REPLICAS", "NUM_CLIENTS", "BUFFER_SIZE", "DISCONNECT_MSG", "GET_MSG", "PUT_MSG", "NULL_MSG",
		"GET_RESPONSE", "PUT_RESPONSE", "NULL", "GET_KEY", "PUT_KEY", "PUT_VALUE"} {
		cs = append(cs, distsys.DefineConstantValue(k, num(cfg[k])))
	}
	consts := distsys.EnsureMPCalContextConfigs(cs...)
	repNet := steplib.Binding{Param: "replicas", Var: "replicasNetwork", Depth: 1, Macro: steplib.FIFOLink(b)}
	cliNet := steplib.Binding{Param: "clients", Var: "clientMailboxes", Depth: 1, Macro: steplib.FIFOLink(b)}
	clock := steplib.Binding{Param: "clock", Var: "clocks", Depth: 1, Macro: steplib.Identity}
	outB := steplib.Binding{Param: "outside", Var: "out", Depth: 0, Macro: steplib.Identity}
	for i := 0; i < nr; i++ {
		sys.AddProc(fmt.Sprintf("rep%d", i), num(i), replicatedkv.AReplica, []steplib.Binding{
			cliNet, repNet, {Param: "kv", Var: fmt.Sprintf("kv%d", i), Depth: 1, Macro: steplib.Identity}}, consts)
	}
	spin := distsys.EnsureArchetypeValueParam("spin", tla.ModuleTRUE)
	for c := 0; c < nc; c++ {
		sys.AddProc(fmt.Sprintf("get%d", c), num(nr+c), replicatedkv.Get, []steplib.Binding{
			{Param: "clientId", Var: "cid", Depth: 0, Macro: idMacro(0)}, repNet, cliNet, clock, outB}, consts, spin,
			distsys.EnsureArchetypeValueParam("key", getKey))
		sys.AddProc(fmt.Sprintf("put%d", c), num(nr+nc+c), replicatedkv.Put, []steplib.Binding{
			{Param: "clientId", Var: "cid", Depth: 0, Macro: idMacro(1)}, repNet, cliNet, clock, outB}, consts, spin,
			distsys.EnsureArchetypeValueParam("key", putKey), distsys.EnsureArchetypeValueParam("value", num(cfg["PUT_VALUE"])))
		sys.AddProc(fmt.Sprintf("dis%d", c), num(nr+2*nc+c), replicatedkv.Disconnect, []steplib.Binding{
			{Param: "clientId", Var: "cid", Depth: 0, Macro: idMacro(2)}, repNet, clock}, consts)
		sys.AddProc(fmt.Sprintf("clk%d", c), num(nr+3*nc+c), replicatedkv.ClockUpdate, []steplib.Binding{
			{Param: "clientId", Var: "cid", Depth: 0, Macro: idMacro(3)}, repNet, clock}, consts, spin)
	}
	return sys, func() {}, nil
}

// ---------------------------------------------------------------- raftkvs (cmd/c08/raftstep)

func buildRaftkvs(cfg map[string]int) (*steplib.System, func(), error) {
	p := raftstep.Params{N: cfg["NumServers"], NC: cfg["NumClients"], Buf: cfg["BufferSize"], Fifo: false,
		ExploreFail: cfg["ExploreFail"] != 0, Keys: 1, Vals: 1}
	if cfg["Keys"] > 0 { // corpus schedules of other properties (lib/c02_corpus.py)
		p.Keys = cfg["Keys"]
	}
	if cfg["Vals"] > 0 {
		p.Vals = cfg["Vals"]
	}
	if p.ExploreFail {
		for i := 1; i <= cfg["MaxNodeFail"]; i++ {
			p.Crashers = append(p.Crashers, i)
		}
	}
	s, err := raftstep.NewSession(p)
	if err != nil {
		return nil, nil, err
	}
	return s.Sys, s.Close, nil
}

// ----------------------------------------------------------------

func runCase(k kase) (res result) {
	res.ID, res.System = k.ID, k.System
	res.Steps = []steplib.Obs{}
	defer func() {
		if r := recover(); r != nil {
			res.Err = fmt.Sprint("harness panic: ", r)
		}
	}()
	var sys *steplib.System
	var closeFn func()
	var err error
	started := false
	switch k.System {
	case "dqueue":
		sys, closeFn, err = buildDqueue(k.Cfg)
	case "pbkvs":
		sys, closeFn, err = buildPbkvs(k.Cfg)
	case "proxy":
		sys, closeFn, err = buildProxy(k.Cfg)
	case "replicatedkv":
		sys, closeFn, err = buildReplicatedkv(k.Cfg)
	case "raftkvs":
		sys, closeFn, err = buildRaftkvs(k.Cfg)
		started = true // NewSession starts the system
	default:
		err = fmt.Errorf("unknown system %q", k.System)
	}
	if err != nil {
		res.Err = err.Error()
		return
	}
	defer closeFn()
	if !started {
		if err := sys.Start(); err != nil {
			sys.Close()
			res.Err = err.Error()
			return
		}
		defer sys.Close()
	}
	res.Procs = sys.Procs()
	res.PCs0 = map[string]string{}
	for _, p := range res.Procs {
		res.PCs0[p] = sys.PC(p)
	}
	res.Init = sys.State.Snapshot()
	for _, st := range k.Sched {
		if len(st) != 2 {
			continue
		}
		name, _ := st[0].(string)
		var ks []uint64
		if l, ok := st[1].([]interface{}); ok {
			for _, x := range l {
				if f, ok := x.(float64); ok {
					ks = append(ks, uint64(f))
				}
			}
		}
		res.Steps = append(res.Steps, sys.Step(name, ks))
	}
	return
}

func main() {
	in := bufio.NewScanner(os.Stdin)
	in.Buffer(make([]byte, 1<<20), 1<<26)
	enc := json.NewEncoder(os.Stdout)
	for in.Scan() {
		var k kase
		if err := json.Unmarshal(in.Bytes(), &k); err != nil {
			enc.Encode(result{Err: "bad case: " + err.Error()})
			continue
		}
		enc.Encode(runCase(k))
	}
}
