// c02s: drives the REAL generated archetypes of dqueue, pbkvs and raftkvs attempt by attempt (harness/steplib: real
// MPCalContext.Run loop, fairness-counter gate, trace recorder, spec-state resources implementing the specs' mapping
// macros), so that props/c02.py can let the REGENERATED Go model (tools/go2coq + coq/C02/Sem.v symex_go + Bind_<sys>.v)
// predict every observed attempt. The set-ups of dqueue and pbkvs are copies of harness/cmd/c16/dqueue.go and
// harness/cmd/c14/main.go (macros written over steplib.Access exactly as the specs define them); raftkvs uses
// harness/cmd/c08/raftstep.NewSession (network queue kept as a sequence there: props/c02.py turns it into the spec's bag).
//
// stdin : one JSON case per line  {"id":..,"system":"dqueue|pbkvs|raftkvs","cfg":{..ints..},"sched":[["proc",[k,..]],..]}
// stdout: one JSON line per case  {"id","system","procs":[..],"pcs0":{proc:label},"init":STATE,"steps":[steplib.Obs..],"err"}
// (the same shape as harness/cmd/c16, whose binary serves the other small systems in the thorough tier)
package main

import (
	"bufio"
	"encoding/json"
	"fmt"
	"os"

	"github.com/DistCompiler/pgo/distsys"
	"github.com/DistCompiler/pgo/distsys/tla"
	"github.com/DistCompiler/pgo/systems/dqueue"
	"github.com/DistCompiler/pgo/systems/pbkvs"

	"verifharness/cmd/c08/raftstep"
	"verifharness/steplib"
)

type kase struct {
	ID     int             `json:"id"`
	System string          `json:"system"`
	Cfg    map[string]int  `json:"cfg"`
	Sched  [][]interface{} `json:"sched"`
}

type result struct {
	ID     int                    `json:"id"`
	System string                 `json:"system"`
	Procs  []string               `json:"procs"`
	PCs0   map[string]string      `json:"pcs0"`
	Init   map[string]interface{} `json:"init"`
	Steps  []steplib.Obs          `json:"steps"`
	Err    string                 `json:"err"`
}

func num(i int) tla.Value { return tla.MakeNumber(int32(i)) }

// ---------------------------------------------------------------- dqueue (copy of cmd/c16/dqueue.go)

func buildDqueue(cfg map[string]int) (*steplib.System, func(), error) {
	nc, b := cfg["NUM_CONSUMERS"], cfg["BUFFER_SIZE"]
	var nodes []tla.Value
	for i := 0; i <= nc; i++ {
		nodes = append(nodes, num(i))
	}
	sys := steplib.NewSystem(map[string]tla.Value{
		"network":   steplib.ConstFn(nodes, tla.MakeTuple()),
		"processor": num(0),
		"stream":    num(0),
	})
	// mapping macro CyclicReads { read { $variable := ($variable + 1) % BUFFER_SIZE; yield $variable; } write { yield $variable } }
	cyclic := steplib.Macro{
		Read: func(a *steplib.Access) (tla.Value, error) {
			v := tla.ModulePercentSymbol(tla.ModulePlusSymbol(a.Var(), num(1)), num(b))
			a.SetVar(v)
			return v, nil
		},
		Write: func(a *steplib.Access, v tla.Value) error { return nil },
	}
	consts := distsys.EnsureMPCalContextConfigs(
		distsys.DefineConstantValue("PRODUCER", num(0)),
		distsys.DefineConstantValue("NUM_CONSUMERS", num(nc)),
		distsys.DefineConstantValue("BUFFER_SIZE", num(b)))
	sys.AddProc("producer", num(0), dqueue.AProducer, []steplib.Binding{
		{Param: "net", Var: "network", Depth: 1, Macro: steplib.FIFOLink(b)},
		{Param: "s", Var: "stream", Depth: 0, Macro: cyclic}}, consts)
	for c := 1; c <= nc; c++ {
		sys.AddProc(fmt.Sprintf("c%d", c), num(c), dqueue.AConsumer, []steplib.Binding{
			{Param: "net", Var: "network", Depth: 1, Macro: steplib.FIFOLink(b)},
			{Param: "proc", Var: "processor", Depth: 0, Macro: steplib.Identity}}, consts)
	}
	return sys, func() {}, nil
}

// ---------------------------------------------------------------- pbkvs (macros copied from cmd/c14/main.go)

func errAssert(what string) error { return fmt.Errorf("%w: %s", distsys.ErrAssertionFailed, what) }

func str(s string) tla.Value { return tla.MakeString(s) }

var reliableFIFOLink = steplib.Macro{
	Read: func(a *steplib.Access) (tla.Value, error) {
		v := a.Var()
		if !v.ApplyFunction(str("enabled")).AsBool() {
			return tla.Value{}, errAssert("$variable.enabled")
		}
		q := v.ApplyFunction(str("queue"))
		if q.AsTuple().Len() == 0 {
			return tla.Value{}, distsys.ErrCriticalSectionAborted
		}
		a.SetVar(steplib.Rec("queue", tla.ModuleTail(q), "enabled", v.ApplyFunction(str("enabled"))))
		return tla.ModuleHead(q), nil
	},
	Write: func(a *steplib.Access, val tla.Value) error {
		v := a.Var()
		if !v.ApplyFunction(str("enabled")).AsBool() {
			return distsys.ErrCriticalSectionAborted
		}
		a.SetVar(steplib.Rec("queue", tla.ModuleAppend(v.ApplyFunction(str("queue")), val), "enabled", v.ApplyFunction(str("enabled"))))
		return nil
	},
}

var networkToggle = steplib.Macro{
	Read: func(a *steplib.Access) (tla.Value, error) { return a.Var().ApplyFunction(str("enabled")), nil },
	Write: func(a *steplib.Access, val tla.Value) error {
		a.SetVar(steplib.Rec("queue", a.Var().ApplyFunction(str("queue")), "enabled", val))
		return nil
	},
}

var leaderElection = steplib.Macro{
	Read: func(a *steplib.Access) (tla.Value, error) {
		els := steplib.Elems(a.Var())
		if len(els) == 0 {
			return num(0), nil
		}
		min := els[0]
		for _, e := range els {
			if e.AsNumber() < min.AsNumber() {
				min = e
			}
		}
		return min, nil
	},
	Write: func(a *steplib.Access, val tla.Value) error {
		a.SetVar(tla.ModuleBackslashSymbol(a.Var(), tla.MakeSet(val)))
		return nil
	},
}

var networkBufferLength = steplib.Macro{
	Read:  func(a *steplib.Access) (tla.Value, error) { return tla.ModuleLen(a.Var().ApplyFunction(str("queue"))), nil },
	Write: func(a *steplib.Access, val tla.Value) error { return errAssert("FALSE (NetworkBufferLength write)") },
}

var channel = steplib.Macro{
	Read: func(a *steplib.Access) (tla.Value, error) {
		q := a.Var()
		if q.AsTuple().Len() == 0 {
			return tla.Value{}, distsys.ErrCriticalSectionAborted
		}
		a.SetVar(tla.ModuleTail(q))
		return tla.ModuleHead(q), nil
	},
	Write: func(a *steplib.Access, val tla.Value) error {
		a.SetVar(tla.ModuleAppend(a.Var(), val))
		return nil
	},
}

// pbkvs.tla's own initial state: clientInput = << PUT KEY1 VALUE1, PUT KEY1 VALUE2, GET KEY1 >>, KEY_SET = {KEY1}
func buildPbkvs(cfg map[string]int) (*steplib.System, func(), error) {
	nr, nc := cfg["NUM_REPLICAS"], cfg["NUM_CLIENTS"]
	nn := nr + nc
	var netFields []tla.RecordField
	for id := 1; id <= nn; id++ {
		for typ := 1; typ <= 2; typ++ {
			netFields = append(netFields, tla.RecordField{Key: tla.MakeTuple(num(id), num(typ)),
				Value: steplib.Rec("queue", tla.MakeTuple(), "enabled", tla.ModuleTRUE)})
		}
	}
	var reps []tla.Value
	for r := 1; r <= nr; r++ {
		reps = append(reps, num(r))
	}
	put := func(v string) tla.Value {
		return steplib.Rec("typ", num(3), "body", steplib.Rec("key", str("KEY1"), "value", str(v)))
	}
	sys := steplib.NewSystem(map[string]tla.Value{
		"network":      tla.MakeRecord(netFields),
		"fd":           steplib.ConstFn(reps, tla.ModuleFALSE),
		"fs":           steplib.ConstFn(reps, steplib.ConstFn([]tla.Value{str("KEY1")}, str(""))),
		"primary":      tla.MakeSet(reps...),
		"clientInput":  tla.MakeTuple(put("VALUE1"), put("VALUE2"), steplib.Rec("typ", num(1), "body", steplib.Rec("key", str("KEY1")))),
		"clientOutput": tla.Value{},
	})
	consts := []distsys.MPCalContextConfigFn{
		distsys.DefineConstantValue("NUM_REPLICAS", num(nr)),
		distsys.DefineConstantValue("NUM_CLIENTS", num(nc)),
		distsys.DefineConstantValue("EXPLORE_FAIL", tla.MakeBool(cfg["EXPLORE_FAIL"] != 0)),
		distsys.DefineConstantValue("DEBUG", tla.MakeBool(cfg["DEBUG"] != 0)),
	}
	for r := 1; r <= nr; r++ {
		sys.AddProc(fmt.Sprintf("p%d", r), num(r), pbkvs.AReplica, []steplib.Binding{
			{Param: "net", Var: "network", Depth: 1, Macro: reliableFIFOLink},
			{Param: "fs", Var: "fs", Depth: 2, Macro: steplib.Identity},
			{Param: "fd", Var: "fd", Depth: 1, Macro: steplib.Identity},
			{Param: "netEnabled", Var: "network", Depth: 1, Macro: networkToggle},
			{Param: "primary", Var: "primary", Depth: 0, Macro: leaderElection},
			{Param: "netLen", Var: "network", Depth: 1, Macro: networkBufferLength},
		}, consts...)
	}
	for c := nr + 1; c <= nn; c++ {
		sys.AddProc(fmt.Sprintf("p%d", c), num(c), pbkvs.AClient, []steplib.Binding{
			{Param: "net", Var: "network", Depth: 1, Macro: reliableFIFOLink},
			{Param: "fd", Var: "fd", Depth: 1, Macro: steplib.Identity},
			{Param: "primary", Var: "primary", Depth: 0, Macro: leaderElection},
			{Param: "netLen", Var: "network", Depth: 1, Macro: networkBufferLength},
			{Param: "input", Var: "clientInput", Depth: 0, Macro: channel},
			{Param: "output", Var: "clientOutput", Depth: 0, Macro: steplib.Identity},
		}, consts...)
	}
	return sys, func() {}, nil
}

// ---------------------------------------------------------------- raftkvs (cmd/c08/raftstep)

func buildRaftkvs(cfg map[string]int) (*steplib.System, func(), error) {
	p := raftstep.Params{N: cfg["NumServers"], NC: cfg["NumClients"], Buf: cfg["BufferSize"], Fifo: false,
		ExploreFail: cfg["ExploreFail"] != 0, Keys: 1, Vals: 1}
	if p.ExploreFail {
		for i := 1; i <= cfg["MaxNodeFail"]; i++ {
			p.Crashers = append(p.Crashers, i)
		}
	}
	s, err := raftstep.NewSession(p)
	if err != nil {
		return nil, nil, err
	}
	return s.Sys, s.Close, nil
}

// ----------------------------------------------------------------

func runCase(k kase) (res result) {
	res.ID, res.System = k.ID, k.System
	res.Steps = []steplib.Obs{}
	defer func() {
		if r := recover(); r != nil {
			res.Err = fmt.Sprint("harness panic: ", r)
		}
	}()
	var sys *steplib.System
	var closeFn func()
	var err error
	started := false
	switch k.System {
	case "dqueue":
		sys, closeFn, err = buildDqueue(k.Cfg)
	case "pbkvs":
		sys, closeFn, err = buildPbkvs(k.Cfg)
	case "raftkvs":
		sys, closeFn, err = buildRaftkvs(k.Cfg)
		started = true // NewSession starts the system
	default:
		err = fmt.Errorf("unknown system %q", k.System)
	}
	if err != nil {
		res.Err = err.Error()
		return
	}
	defer closeFn()
	if !started {
		if err := sys.Start(); err != nil {
			sys.Close()
			res.Err = err.Error()
			return
		}
		defer sys.Close()
	}
	res.Procs = sys.Procs()
	res.PCs0 = map[string]string{}
	for _, p := range res.Procs {
		res.PCs0[p] = sys.PC(p)
	}
	res.Init = sys.State.Snapshot()
	for _, st := range k.Sched {
		if len(st) != 2 {
			continue
		}
		name, _ := st[0].(string)
		var ks []uint64
		if l, ok := st[1].([]interface{}); ok {
			for _, x := range l {
				if f, ok := x.(float64); ok {
					ks = append(ks, uint64(f))
				}
			}
		}
		res.Steps = append(res.Steps, sys.Step(name, ks))
	}
	return
}

func main() {
	in := bufio.NewScanner(os.Stdin)
	in.Buffer(make([]byte, 1<<20), 1<<26)
	enc := json.NewEncoder(os.Stdout)
	for in.Scan() {
		var k kase
		if err := json.Unmarshal(in.Bytes(), &k); err != nil {
			enc.Encode(result{Err: "bad case: " + err.Error()})
			continue
		}
		enc.Encode(runCase(k))
	}
}
