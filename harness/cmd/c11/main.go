// c11: drives distsys/resources two-phase-commit resources (twopc.go) under a driver-controlled network.
//
// Every node is a real resource made by resources.NewTwoPC. Its replica handles are `qHandle`s: a Send blocks
// until the driver answers it. The driver (this program, single thread) decides when a request is delivered to
// its destination (any number of times: delay, duplication, or never: loss), which of the produced replies is
// returned to the blocked Send, and whether the Send fails instead (timeout). Application calls
// (ReadValue/WriteValue/PreCommit/Commit/Abort) of the writers are driver events too. After every event the
// driver waits until the real code is quiescent again (all its goroutines blocked in a Send or finished), so a
// case is a deterministic interleaving.
//
// Transports (how a delivery is executed):
//   local : the request struct is passed by reference to LocalReplicaHandle.Send (-> receiveInternal)
//   ref   : by reference to TwoPCReceiver.Receive (the RPC entry point, no serialisation)
//   gob   : request gob-encoded and decoded, TwoPCReceiver.Receive, reply gob-encoded and decoded (RPC semantics)
// kind "smoke": real RPCReplicaHandle over loopback, free running.
//
// stdin: one JSON case per line; stdout: one JSON result per line (flushed per case).
package main

import (
	"bufio"
	"bytes"
	"encoding/gob"
	"encoding/json"
	"errors"
	"fmt"
	"net"
	"os"
	"runtime"
	"sort"
	"sync"
	"time"

	"github.com/DistCompiler/pgo/distsys"
	"github.com/DistCompiler/pgo/distsys/resources"
	"github.com/DistCompiler/pgo/distsys/tla"
)

type kase struct {
	ID        int             `json:"id"`
	Kind      string          `json:"kind"` // "" = stepped, "smoke"
	N         int             `json:"n"`
	Transport string          `json:"transport"`
	Init      int32           `json:"init"`
	Writers   []int           `json:"writers"`
	Events    [][]interface{} `json:"events"`
	Weights   map[string]int  `json:"weights"`
	Rounds    int             `json:"rounds"`
	Deadline  int             `json:"deadline_ms"`
}

type reqJ struct {
	From int    `json:"from"`
	Q    int    `json:"q"`
	Type string `json:"type"`
	Ver  int    `json:"ver"`
	Val  *int64 `json:"val"`
	Time int64  `json:"time"`
}

type replyJ struct {
	Accept bool   `json:"acc"`
	Ver    int    `json:"ver"`
	Val    *int64 `json:"val"`
}

type snapJ struct {
	Val      *int64     `json:"val"`
	Old      *int64     `json:"old"`
	Ver      int        `json:"ver"`
	CS       string     `json:"cs"`
	TPC      string     `json:"tpc"`
	AccFrom  int        `json:"accFrom"` // node index of acceptedPreCommit.Sender, -1 if unset
	AccVer   int        `json:"accVer"`
	AccVal   *int64     `json:"accVal"`
	AccTime  int64      `json:"accTime"`
	Attempts int        `json:"attempts"`
	STimes   [][2]int64 `json:"stimes"` // (node index, time), sorted
}

type stepJ struct {
	Ev    []interface{} `json:"ev"`
	Obs   map[string]interface{} `json:"obs"`
	Snaps []snapJ       `json:"snaps"`
}

type result struct {
	ID    int                    `json:"id"`
	Err   string                 `json:"err"`
	Steps []stepJ                `json:"steps"`
	Final map[string]interface{} `json:"final,omitempty"`
}

// ---------------------------------------------------------------- stepped driver

type answer struct {
	err   error
	reply resources.TwoPCResponse
}

type slot struct {
	done     chan answer
	answered bool
}

type link struct {
	replies []resources.TwoPCResponse
	slots   []*slot
	counted bool
}

type reqInfo struct {
	q     int
	req   resources.TwoPCRequest
	links map[int]*link
}

type bcast struct {
	q        int
	kind     resources.TwoPCRequestType
	trues    int
	falses   int
	required int
	total    int
	ended    bool
	parent   string // "pre" | "app"
}

type node struct {
	idx    int
	id     tla.Value
	res    distsys.ArchetypeResource
	rcvr   *resources.TwoPCReceiver
	local  resources.ReplicaHandle
	reqs   []*reqInfo
	op     *bcast
	stage  int // 0 idle, 1 in section, 2 section failed (must abort), 3 precommit in flight, 4 precommit ok, 5 precommit err, 6 commit/abort in flight
	wrote  bool
	preDone bool
	preErr  error
	appDone bool
	appPanic string
	valCtr int
}

type H struct {
	mu        sync.Mutex
	cond      *sync.Cond
	n         int
	transport string
	nodes     []*node
	drain     bool
	err       string
}

type qHandle struct {
	h        *H
	from, to int
}

func (q *qHandle) Close() error { return nil }

func (q *qHandle) Send(request resources.TwoPCRequest, reply *resources.TwoPCResponse) chan error {
	ch := make(chan error, 1)
	h := q.h
	h.mu.Lock()
	if h.drain {
		h.mu.Unlock()
		if request.RequestType == resources.PreCommit {
			*reply = resources.TwoPCResponse{Accept: false}
		} else {
			*reply = resources.TwoPCResponse{Accept: true}
		}
		ch <- nil
		return ch
	}
	nd := h.nodes[q.from]
	var ri *reqInfo
	for _, r := range nd.reqs {
		if r.req.RequestType == request.RequestType && r.req.Version == request.Version && r.req.SenderTime == request.SenderTime {
			ri = r
		}
	}
	if ri == nil {
		ri = &reqInfo{q: len(nd.reqs), req: request, links: map[int]*link{}}
		nd.reqs = append(nd.reqs, ri)
	}
	lk := ri.links[q.to]
	if lk == nil {
		lk = &link{}
		ri.links[q.to] = lk
	}
	s := &slot{done: make(chan answer, 1)}
	lk.slots = append(lk.slots, s)
	h.cond.Broadcast()
	h.mu.Unlock()
	a := <-s.done
	if a.err != nil {
		ch <- a.err
	} else {
		*reply = a.reply
		ch <- nil
	}
	return ch
}

// waitCond waits (driver thread) until f() holds, f evaluated under h.mu; false on deadline.
func (h *H) waitCond(d time.Duration, f func() bool) bool {
	deadline := time.Now().Add(d)
	timer := time.AfterFunc(d, func() { h.mu.Lock(); h.cond.Broadcast(); h.mu.Unlock() })
	defer timer.Stop()
	h.mu.Lock()
	defer h.mu.Unlock()
	for !f() {
		if time.Now().After(deadline) {
			return false
		}
		h.cond.Wait()
	}
	return true
}

// waitPoll waits for a condition on the resource's own state (no notification available): yields between polls.
func waitPoll(d time.Duration, f func() bool) bool {
	deadline := time.Now().Add(d)
	for i := 0; ; i++ {
		if f() {
			return true
		}
		if time.Now().After(deadline) {
			return false
		}
		if i < 200 {
			runtime.Gosched()
		} else {
			time.Sleep(20 * time.Microsecond)
		}
	}
}

func numOf(v tla.Value) *int64 {
	if v.IsNumber() {
		x := int64(v.AsNumber())
		return &x
	}
	return nil
}

func (h *H) nodeOf(v tla.Value) int {
	if !v.IsString() {
		return -1
	}
	for _, nd := range h.nodes {
		if nd.id.Equal(v) {
			return nd.idx
		}
	}
	return -2
}

func (h *H) nodeOfPrinted(s string) int64 {
	for _, nd := range h.nodes {
		if nd.id.String() == s || nd.id.AsString() == s {
			return int64(nd.idx)
		}
	}
	return -2
}

func (h *H) snap(nd *node) snapJ {
	st := resources.VerifTwoPCSnapshot(nd.rcvr)
	s := snapJ{Val: numOf(st.Value), Old: numOf(st.OldValue), Ver: st.Version, CS: st.CriticalSectionState,
		TPC: st.TwoPCState, AccFrom: h.nodeOf(st.AcceptedSender), AccVer: st.AcceptedVersion, AccVal: numOf(st.AcceptedValue),
		AccTime: st.AcceptedTime, Attempts: st.PrecommitAttempts, STimes: [][2]int64{}}
	for _, e := range st.SenderTimes {
		s.STimes = append(s.STimes, [2]int64{h.nodeOfPrinted(e.Sender), e.Time})
	}
	sort.Slice(s.STimes, func(i, j int) bool {
		if s.STimes[i][0] != s.STimes[j][0] {
			return s.STimes[i][0] < s.STimes[j][0]
		}
		return s.STimes[i][1] < s.STimes[j][1]
	})
	return s
}

func (h *H) inFlight(nd *node) int {
	return resources.VerifTwoPCSnapshot(nd.rcvr).NumInFlightRequests
}

func (h *H) snaps() []snapJ {
	out := make([]snapJ, h.n)
	for i, nd := range h.nodes {
		out[i] = h.snap(nd)
	}
	return out
}

func typeName(t resources.TwoPCRequestType) string { return t.String() }

func (h *H) reqJ(nd *node, ri *reqInfo) reqJ {
	return reqJ{From: nd.idx, Q: ri.q, Type: typeName(ri.req.RequestType), Ver: ri.req.Version, Val: numOf(ri.req.Value), Time: ri.req.SenderTime}
}

func required(replicas int) int {
	if replicas%2 == 0 {
		return replicas / 2
	}
	return replicas/2 + 1
}

// fullRequest: under h.mu: does node nd have a request number >= q whose n-1 sends are all blocked in our handles?
func (h *H) fullRequest(nd *node, q int) bool {
	if len(nd.reqs) <= q {
		return false
	}
	ri := nd.reqs[len(nd.reqs)-1]
	if len(ri.links) != h.n-1 {
		return false
	}
	for _, lk := range ri.links {
		if len(lk.slots) == 0 {
			return false
		}
	}
	return true
}

// how long the driver waits for the real code to reach the next quiescent point before it reports a hang;
// shortened after two cases have hung (a broken tree would otherwise cost 20 s per case)
var longWait = 20 * time.Second
var hangs = 0

// newBroadcast: after the real code started a broadcast (all n-1 sends queued), record it.
func (h *H) newBroadcast(nd *node, parent string) *reqInfo {
	ri := nd.reqs[len(nd.reqs)-1]
	nd.op = &bcast{q: ri.q, kind: ri.req.RequestType, required: required(h.n - 1), total: h.n - 1, parent: parent}
	return ri
}

// awaitOutcome: the current broadcast of nd has ended; wait for what the real code does next.
func (h *H) awaitOutcome(nd *node, obs map[string]interface{}, nreq int) {
	op := nd.op
	switch {
	case op.kind == resources.PreCommit:
		ok := h.waitCond(longWait, func() bool { return nd.preDone || h.fullRequest(nd, nreq) })
		if !ok {
			h.err = "hang: precommit broadcast ended but neither a result nor a rollback followed"
			return
		}
		if nd.preDone {
			nd.op = nil
			h.finishPre(nd, obs)
		} else {
			ri := h.newBroadcast(nd, "pre")
			obs["then"] = "rollback"
			obs["req"] = h.reqJ(nd, ri)
		}
	case op.kind == resources.Abort && op.parent == "pre":
		ok := h.waitCond(longWait, func() bool { return nd.preDone })
		if !ok {
			h.err = "hang: rollback ended but PreCommit did not return"
			return
		}
		nd.op = nil
		h.finishPre(nd, obs)
	default:
		ok := h.waitCond(longWait, func() bool { return nd.appDone })
		if !ok {
			h.err = "hang: commit/abort broadcast ended but the call did not return"
			return
		}
		nd.op = nil
		nd.stage = 0
		nd.wrote = false
		if op.kind == resources.Commit {
			obs["then"] = "commit_done"
		} else {
			obs["then"] = "abort_done"
		}
		if nd.appPanic != "" {
			obs["panic"] = nd.appPanic
		}
	}
}

func (h *H) finishPre(nd *node, obs map[string]interface{}) {
	if nd.preErr == nil {
		nd.stage = 4
		obs["then"] = "pre_ok"
	} else {
		nd.stage = 5
		obs["then"] = "pre_err"
		if !errors.Is(nd.preErr, distsys.ErrCriticalSectionAborted) {
			obs["errtext"] = nd.preErr.Error()
		}
	}
}

func gobReq(r resources.TwoPCRequest) (resources.TwoPCRequest, error) {
	var buf bytes.Buffer
	var out resources.TwoPCRequest
	if err := gob.NewEncoder(&buf).Encode(&r); err != nil {
		return out, err
	}
	err := gob.NewDecoder(&buf).Decode(&out)
	return out, err
}

func gobRep(r resources.TwoPCResponse) (resources.TwoPCResponse, error) {
	var buf bytes.Buffer
	var out resources.TwoPCResponse
	if err := gob.NewEncoder(&buf).Encode(&r); err != nil {
		return out, err
	}
	err := gob.NewDecoder(&buf).Decode(&out)
	return out, err
}

func (h *H) deliver(from, q, to int, obs map[string]interface{}) {
	ri := h.nodes[from].reqs[q]
	dst := h.nodes[to]
	var reply resources.TwoPCResponse
	func() {
		defer func() {
			if r := recover(); r != nil {
				obs["panic"] = fmt.Sprint(r)
			}
		}()
		switch h.transport {
		case "local":
			if err := <-dst.local.Send(ri.req, &reply); err != nil {
				obs["error"] = err.Error()
			}
		case "ref":
			if err := dst.rcvr.Receive(ri.req, &reply); err != nil {
				obs["error"] = err.Error()
			}
		default: // gob
			req2, err := gobReq(ri.req)
			if err != nil {
				obs["error"] = "gob request: " + err.Error()
				return
			}
			var rep resources.TwoPCResponse
			if err := dst.rcvr.Receive(req2, &rep); err != nil {
				obs["error"] = err.Error()
			}
			reply, err = gobRep(rep)
			if err != nil {
				obs["error"] = "gob reply: " + err.Error()
			}
		}
	}()
	h.mu.Lock()
	lk := ri.links[to]
	lk.replies = append(lk.replies, reply)
	idx := len(lk.replies) - 1
	h.mu.Unlock()
	obs["reply"] = replyJ{Accept: reply.Accept, Ver: reply.Version, Val: numOf(reply.Value)}
	obs["r"] = idx
}

func (lk *link) blocked() *slot {
	if lk == nil || len(lk.slots) == 0 {
		return nil
	}
	s := lk.slots[len(lk.slots)-1]
	if s.answered {
		return nil
	}
	return s
}

// answerSlot: return reply r (or an error when r < 0) to the blocked Send of (from,q,to), then settle.
func (h *H) answerSlot(from, q, to, r int, obs map[string]interface{}) {
	nd := h.nodes[from]
	ri := nd.reqs[q]
	h.mu.Lock()
	lk := ri.links[to]
	s := lk.blocked()
	var a answer
	if r < 0 {
		a.err = errors.New("RPC timeout")
	} else {
		a.reply = lk.replies[r]
	}
	nslots := len(lk.slots)
	nreq := len(nd.reqs)
	h.mu.Unlock()
	before := h.inFlight(nd)
	s.answered = true
	s.done <- a
	handlerReturned := true
	if r < 0 && ri.req.RequestType != resources.PreCommit {
		// the sending goroutine sleeps 1 s and retries while its version is unchanged, else it gives up
		ok := waitPoll(4*time.Second, func() bool {
			h.mu.Lock()
			more := len(lk.slots) > nslots
			h.mu.Unlock()
			return more || h.inFlight(nd) == before-1
		})
		if !ok {
			h.err = "hang: failed abort/commit send neither retried nor finished"
			return
		}
		h.mu.Lock()
		if len(lk.slots) > nslots {
			handlerReturned = false
			obs["then"] = "retry"
		}
		h.mu.Unlock()
	} else {
		// the handler decrements numInFlightRequests after handing its result to the broadcast loop, which may
		// already have started the next broadcast (+ n-1) by then
		if !waitPoll(longWait, func() bool {
			f := h.inFlight(nd)
			h.mu.Lock()
			full, grew := h.fullRequest(nd, nreq), len(nd.reqs) > nreq
			h.mu.Unlock()
			return (f == before-1 && !grew) || (full && f == before-1+h.n-1)
		}) {
			h.err = "hang: response handler did not finish"
			return
		}
	}
	if _, ok := obs["then"]; !ok {
		obs["then"] = "none"
	}
	if !handlerReturned {
		return
	}
	op := nd.op
	if op == nil || op.q != q || op.ended || lk.counted {
		return
	}
	lk.counted = true
	if ri.req.RequestType == resources.PreCommit {
		if r >= 0 && a.reply.Accept {
			op.trues++
		} else {
			op.falses++
		}
	} else {
		op.trues++
	}
	if op.trues >= op.required || op.total-op.falses < op.required {
		op.ended = true
		h.awaitOutcome(nd, obs, nreq)
	}
}

var iface = distsys.ArchetypeInterface{}

func (h *H) appEvent(kind string, i int, z int64, obs map[string]interface{}) {
	nd := h.nodes[i]
	switch kind {
	case "R":
		v, err := nd.res.ReadValue(iface)
		obs["err"] = err != nil
		if err == nil {
			obs["v"] = numOf(v)
			if nd.stage == 0 {
				nd.stage = 1
			}
		} else {
			nd.stage = 2
		}
	case "W":
		err := nd.res.WriteValue(iface, tla.MakeNumber(int32(z)))
		obs["err"] = err != nil
		if err == nil {
			nd.wrote = true
			if nd.stage == 0 {
				nd.stage = 1
			}
		} else {
			nd.stage = 2
		}
	case "P":
		nreq := len(nd.reqs)
		nd.preDone, nd.preErr = false, nil
		nd.stage = 3
		ch := nd.res.PreCommit(iface)
		go func() {
			var e error
			if ch != nil {
				e = <-ch
			}
			h.mu.Lock()
			nd.preDone, nd.preErr = true, e
			h.cond.Broadcast()
			h.mu.Unlock()
		}()
		ok := h.waitCond(longWait, func() bool { return nd.preDone || h.fullRequest(nd, nreq) })
		if !ok {
			h.err = "hang: PreCommit neither returned nor sent its requests"
			return
		}
		if nd.preDone {
			h.finishPre(nd, obs)
		} else {
			ri := h.newBroadcast(nd, "pre")
			obs["then"] = "sent"
			obs["req"] = h.reqJ(nd, ri)
		}
	case "C", "A":
		nreq := len(nd.reqs)
		nd.appDone, nd.appPanic = false, ""
		nd.stage = 6
		go func() {
			defer func() {
				if r := recover(); r != nil {
					h.mu.Lock()
					nd.appPanic = fmt.Sprint(r)
					nd.appDone = true
					h.cond.Broadcast()
					h.mu.Unlock()
				}
			}()
			var ch chan struct{}
			if kind == "C" {
				ch = nd.res.Commit(iface)
			} else {
				ch = nd.res.Abort(iface)
			}
			if ch != nil {
				<-ch
			}
			h.mu.Lock()
			nd.appDone = true
			h.cond.Broadcast()
			h.mu.Unlock()
		}()
		ok := h.waitCond(longWait, func() bool { return nd.appDone || h.fullRequest(nd, nreq) })
		if !ok {
			h.err = "hang: Commit/Abort neither returned nor sent its requests"
			return
		}
		if nd.appDone {
			nd.stage = 0
			nd.wrote = false
			obs["then"] = "done"
			if nd.appPanic != "" {
				obs["panic"] = nd.appPanic
			}
		} else {
			ri := h.newBroadcast(nd, "app")
			obs["then"] = "sent"
			obs["req"] = h.reqJ(nd, ri)
		}
	}
}

type cand struct {
	ev []interface{}
}

func ival(x interface{}) int {
	switch v := x.(type) {
	case float64:
		return int(v)
	case json.Number:
		n, _ := v.Int64()
		return int(n)
	case int:
		return v
	}
	return 0
}

// enabled: all enabled concrete events by category, in canonical order.
func (h *H) enabled(writers []int, rollA, rollB int) map[string][]cand {
	out := map[string][]cand{}
	add := func(c string, ev ...interface{}) { out[c] = append(out[c], cand{ev: ev}) }
	for _, i := range writers {
		nd := h.nodes[i]
		switch nd.stage {
		case 0:
			add("app", "R", i)
			add("app", "R", i)
			add("app", "W", i, h.nextVal(nd))
		case 1:
			if nd.wrote {
				for k := 0; k < 6; k++ {
					add("app", "P", i)
				}
			} else {
				for k := 0; k < 5; k++ {
					add("app", "W", i, h.nextVal(nd))
				}
				add("app", "P", i)
			}
			add("app", "R", i)
			add("app", "A", i)
		case 2, 5:
			add("app", "A", i)
		case 4:
			for k := 0; k < 9; k++ {
				add("app", "C", i)
			}
			add("app", "A", i)
		}
	}
	h.mu.Lock()
	for _, nd := range h.nodes {
		for _, ri := range nd.reqs {
			for to := 0; to < h.n; to++ {
				lk := ri.links[to]
				if lk == nil {
					continue
				}
				if len(lk.replies) == 0 {
					add("deliver", "D", nd.idx, ri.q, to)
				} else {
					add("redeliver", "D", nd.idx, ri.q, to)
				}
				if lk.blocked() != nil {
					if len(lk.replies) > 0 {
						add("answer", "Y", nd.idx, ri.q, to, len(lk.replies)-1)
						if len(lk.replies) > 1 {
							add("answer_old", "Y", nd.idx, ri.q, to, rollB%(len(lk.replies)-1))
						}
					}
					if ri.req.RequestType == resources.PreCommit {
						add("timeout_pre", "T", nd.idx, ri.q, to)
					} else {
						add("timeout_slow", "T", nd.idx, ri.q, to)
					}
				}
			}
		}
	}
	h.mu.Unlock()
	return out
}

func (h *H) nextVal(nd *node) int {
	return 1000*(nd.idx+1) + nd.valCtr + 1
}

var catOrder = []string{"app", "deliver", "answer", "redeliver", "answer_old", "timeout_pre", "timeout_slow"}
var defaultWeights = map[string]int{"app": 30, "deliver": 30, "answer": 30, "redeliver": 4, "answer_old": 2, "timeout_pre": 4, "timeout_slow": 0}

func (h *H) pick(k *kase, a, b int) []interface{} {
	en := h.enabled(k.Writers, a, b)
	total := 0
	w := func(c string) int {
		if len(en[c]) == 0 {
			return 0
		}
		if v, ok := k.Weights[c]; ok {
			return v
		}
		return defaultWeights[c]
	}
	for _, c := range catOrder {
		total += w(c)
	}
	if total == 0 {
		return nil
	}
	x := a % total
	for _, c := range catOrder {
		if x < w(c) {
			return en[c][b%len(en[c])].ev
		}
		x -= w(c)
	}
	return nil
}

func (h *H) valid(ev []interface{}) string {
	if len(ev) < 2 {
		return "malformed"
	}
	kind, _ := ev[0].(string)
	i := ival(ev[1])
	if i < 0 || i >= h.n {
		return "bad node"
	}
	nd := h.nodes[i]
	switch kind {
	case "R", "W":
		if nd.stage != 0 && nd.stage != 1 && nd.stage != 2 {
			return "app call while an operation is in flight or after PreCommit"
		}
		if kind == "W" && len(ev) < 3 {
			return "malformed"
		}
	case "P":
		if nd.stage != 0 && nd.stage != 1 && nd.stage != 2 {
			return "PreCommit not allowed here"
		}
	case "C":
		if nd.stage != 4 {
			return "Commit without successful PreCommit"
		}
	case "A":
		if nd.stage == 3 || nd.stage == 6 {
			return "Abort while an operation is in flight"
		}
	case "D", "Y", "T":
		if len(ev) < 4 || (kind == "Y" && len(ev) < 5) {
			return "malformed"
		}
		q, to := ival(ev[2]), ival(ev[3])
		h.mu.Lock()
		defer h.mu.Unlock()
		if q < 0 || q >= len(nd.reqs) || to < 0 || to >= h.n || to == i {
			return "no such request/destination"
		}
		lk := nd.reqs[q].links[to]
		if lk == nil {
			return "no such link"
		}
		if kind != "D" {
			if lk.blocked() == nil {
				return "no blocked send"
			}
			if kind == "Y" {
				r := ival(ev[4])
				if r < 0 || r >= len(lk.replies) {
					return "no such reply"
				}
			}
		}
	default:
		return "unknown event"
	}
	return ""
}

func freeAddr() string {
	l, err := net.Listen("tcp", "127.0.0.1:0")
	if err != nil {
		return "127.0.0.1:0"
	}
	a := l.Addr().String()
	l.Close()
	return a
}

func runStepped(k kase) (res result) {
	res.ID = k.ID
	if k.N < 2 || k.N > 7 {
		res.Err = "bad n"
		return
	}
	h := &H{n: k.N, transport: k.Transport}
	h.cond = sync.NewCond(&h.mu)
	for i := 0; i < k.N; i++ {
		nd := &node{idx: i, id: tla.MakeString(fmt.Sprintf("node%d", i))}
		h.nodes = append(h.nodes, nd)
	}
	for i := 0; i < k.N; i++ {
		nd := h.nodes[i]
		var reps []resources.ReplicaHandle
		for j := 0; j < k.N; j++ {
			if j != i {
				reps = append(reps, &qHandle{h: h, from: i, to: j})
			}
		}
		nd.res = resources.NewTwoPC(tla.MakeNumber(k.Init), "127.0.0.1:0", reps, nd.id, func(r *resources.TwoPCReceiver) { nd.rcvr = r })
		nd.local = resources.VerifTwoPCLocalHandle(nd.rcvr)
	}
	defer func() {
		// teardown: let every blocked send go (rejecting pre-commits, accepting the rest), close listeners
		h.mu.Lock()
		h.drain = true
		for _, nd := range h.nodes {
			for _, ri := range nd.reqs {
				for _, lk := range ri.links {
					if s := lk.blocked(); s != nil {
						s.answered = true
						if ri.req.RequestType == resources.PreCommit {
							s.done <- answer{reply: resources.TwoPCResponse{Accept: false}}
						} else {
							s.done <- answer{reply: resources.TwoPCResponse{Accept: true}}
						}
					}
				}
			}
		}
		h.mu.Unlock()
		for _, nd := range h.nodes {
			func() {
				defer func() { recover() }()
				resources.CloseTwoPCReceiver(nd.rcvr)
			}()
		}
	}()
	res.Steps = append(res.Steps, stepJ{Ev: []interface{}{"init"}, Obs: map[string]interface{}{}, Snaps: h.snaps()})
	for _, ev := range k.Events {
		if len(ev) == 0 {
			continue
		}
		if s, _ := ev[0].(string); s == "?" {
			ev = h.pick(&k, ival(ev[1]), ival(ev[2]))
			if ev == nil {
				continue
			}
		} else if s == "E" {
			h.epilogue(&k, &res)
			if h.err != "" {
				res.Err = h.err
				break
			}
			continue
		}
		h.exec(ev, &res)
		if h.err != "" {
			res.Err = h.err
			break
		}
	}
	return
}

// exec performs one concrete event (if it is valid in the current state) and records the step.
func (h *H) exec(ev []interface{}, res *result) map[string]interface{} {
	if why := h.valid(ev); why != "" {
		res.Steps = append(res.Steps, stepJ{Ev: ev, Obs: map[string]interface{}{"skipped": why}})
		return nil
	}
	obs := map[string]interface{}{}
	kind := ev[0].(string)
	switch kind {
	case "R", "P", "C", "A":
		h.appEvent(kind, ival(ev[1]), 0, obs)
	case "W":
		nd := h.nodes[ival(ev[1])]
		nd.valCtr++
		h.appEvent(kind, ival(ev[1]), int64(ival(ev[2])), obs)
	case "D":
		h.deliver(ival(ev[1]), ival(ev[2]), ival(ev[3]), obs)
	case "Y":
		h.answerSlot(ival(ev[1]), ival(ev[2]), ival(ev[3]), ival(ev[4]), obs)
	case "T":
		h.answerSlot(ival(ev[1]), ival(ev[2]), ival(ev[3]), -1, obs)
	}
	norm := make([]interface{}, len(ev))
	for i, x := range ev {
		if i == 0 {
			norm[i] = x
		} else {
			norm[i] = ival(x)
		}
	}
	res.Steps = append(res.Steps, stepJ{Ev: norm, Obs: obs, Snaps: h.snaps()})
	return obs
}

// drain: every node reachable, nothing lost: deliver and answer every blocked send, let every writer finish
// (commit after a successful pre-commit, abort otherwise). Returns the number of completed commits.
func (h *H) drainAll(k *kase, res *result, budget int) int {
	commits := 0
	for it := 0; it < budget && h.err == ""; it++ {
		var ev []interface{}
		h.mu.Lock()
	search:
		for _, nd := range h.nodes {
			for _, ri := range nd.reqs {
				for to := 0; to < h.n; to++ {
					lk := ri.links[to]
					if lk == nil || lk.blocked() == nil {
						continue
					}
					if len(lk.replies) == 0 {
						ev = []interface{}{"D", nd.idx, ri.q, to}
					} else {
						ev = []interface{}{"Y", nd.idx, ri.q, to, len(lk.replies) - 1}
					}
					break search
				}
			}
		}
		h.mu.Unlock()
		if ev == nil {
			for _, i := range k.Writers {
				switch h.nodes[i].stage {
				case 4:
					ev = []interface{}{"C", i}
				case 1, 2, 5:
					ev = []interface{}{"A", i}
				}
				if ev != nil {
					break
				}
			}
		}
		if ev == nil {
			break
		}
		obs := h.exec(ev, res)
		if obs != nil && obs["then"] == "commit_done" {
			commits++
		}
	}
	return commits
}

// epilogue: implementation-side progress check. After the schedule, with every replica reachable and no
// more faults, pending work is completed and the writers take turns attempting a section; some attempt must
// commit within a few rounds.
func (h *H) epilogue(k *kase, res *result) {
	commits := h.drainAll(k, res, 600)
	rounds := 0
	for commits == 0 && rounds < 4 && h.err == "" {
		rounds++
		for _, w := range k.Writers {
			nd := h.nodes[w]
			if nd.stage != 0 {
				continue
			}
			obs := h.exec([]interface{}{"R", w}, res)
			if obs == nil || obs["err"] == true {
				h.exec([]interface{}{"A", w}, res)
				continue
			}
			h.exec([]interface{}{"W", w, h.nextVal(nd)}, res)
			h.exec([]interface{}{"P", w}, res)
			commits += h.drainAll(k, res, 600)
			if commits > 0 || h.err != "" {
				break
			}
		}
	}
	res.Steps = append(res.Steps, stepJ{Ev: []interface{}{"E"}, Obs: map[string]interface{}{"committed": commits > 0, "rounds": rounds}})
}

// ---------------------------------------------------------------- smoke: real RPC handles over loopback

func runSmoke(k kase) (res result) {
	res.ID = k.ID
	n := k.N
	addrs := make([]string, n)
	ids := make([]tla.Value, n)
	for i := range addrs {
		addrs[i] = freeAddr()
		ids[i] = tla.MakeString(fmt.Sprintf("node%d", i))
	}
	rcvrs := make([]*resources.TwoPCReceiver, n)
	ress := make([]distsys.ArchetypeResource, n)
	for i := 0; i < n; i++ {
		var reps []resources.ReplicaHandle
		for j := 0; j < n; j++ {
			if j != i {
				hd := resources.MakeRPCReplicaHandle(addrs[j], ids[j])
				reps = append(reps, &hd)
			}
		}
		ii := i
		ress[i] = resources.NewTwoPC(tla.MakeNumber(k.Init), addrs[i], reps, ids[i], func(r *resources.TwoPCReceiver) { rcvrs[ii] = r })
	}
	deadline := time.Now().Add(time.Duration(k.Deadline) * time.Millisecond)
	done := make([]int, n)
	attempts := make([]int, n)
	var wg sync.WaitGroup
	var mu sync.Mutex
	start := time.Now()
	for _, w := range k.Writers {
		wg.Add(1)
		go func(i int) {
			defer wg.Done()
			r := ress[i]
			for c := 0; c < k.Rounds && time.Now().Before(deadline); {
				mu.Lock()
				attempts[i]++
				mu.Unlock()
				v, err := r.ReadValue(iface)
				if err == nil {
					err = r.WriteValue(iface, tla.MakeNumber(v.AsNumber()+1))
				}
				if err == nil {
					err = <-r.PreCommit(iface)
				}
				if err != nil {
					r.Abort(iface)
					continue
				}
				r.Commit(iface)
				c++
				mu.Lock()
				done[i] = c
				mu.Unlock()
			}
		}(w)
	}
	fin := make(chan struct{})
	go func() { wg.Wait(); close(fin) }()
	finished := true
	select {
	case <-fin:
	case <-time.After(time.Until(deadline) + 8*time.Second):
		finished = false
	}
	elapsed := time.Since(start)
	// give in-flight commit messages to the slower replicas a moment to land: wait until versions stop changing
	h := &H{n: n}
	for i := 0; i < n; i++ {
		h.nodes = append(h.nodes, &node{idx: i, id: ids[i], rcvr: rcvrs[i]})
	}
	total := 0
	mu.Lock()
	for _, d := range done {
		total += d
	}
	mu.Unlock()
	waitPoll(3*time.Second, func() bool {
		for _, nd := range h.nodes {
			if resources.GetVersion(nd.rcvr) < total {
				return false
			}
		}
		return true
	})
	mu.Lock()
	res.Final = map[string]interface{}{"finished": finished, "elapsed_ms": elapsed.Milliseconds(), "done": append([]int{}, done...),
		"attempts": append([]int{}, attempts...), "snaps": h.snaps()}
	mu.Unlock()
	for i := 0; i < n; i++ {
		func() {
			defer func() { recover() }()
			resources.CloseTwoPCReceiver(rcvrs[i])
		}()
	}
	return
}


// ---------------------------------------------------------------- stress: in-process handles, free running

// runStress: n replicas connected by real LocalReplicaHandles, every replica increments the counter in a tight
// loop (read, write value+1, PreCommit, Commit or Abort) until the deadline. No driver control: this is where
// goroutine-level races of twopc.go show (an assertion failure kills the process and is reported as a crash).
func runStress(k kase) (res result) {
	res.ID = k.ID
	n := k.N
	rcv := make([]*resources.TwoPCReceiver, n)
	rs := make([]distsys.ArchetypeResource, n)
	ids := make([]tla.Value, n)
	for i := 0; i < n; i++ {
		ii := i
		ids[i] = tla.MakeString(fmt.Sprintf("node%d", i))
		rs[i] = resources.NewTwoPC(tla.MakeNumber(k.Init), "127.0.0.1:0", nil, ids[i], func(r *resources.TwoPCReceiver) { rcv[ii] = r })
	}
	for i := 0; i < n; i++ {
		var hs []resources.ReplicaHandle
		for j := 0; j < n; j++ {
			if j != i {
				hs = append(hs, resources.VerifTwoPCLocalHandle(rcv[j]))
			}
		}
		rs[i].(*resources.TwoPCArchetypeResource).SetReplicas(hs)
	}
	deadline := time.Now().Add(time.Duration(k.Deadline) * time.Millisecond)
	done := make([]int, n)
	var wg sync.WaitGroup
	for _, w := range k.Writers {
		wg.Add(1)
		go func(i int) {
			defer wg.Done()
			r := rs[i]
			for time.Now().Before(deadline) {
				v, err := r.ReadValue(iface)
				if err == nil {
					err = r.WriteValue(iface, tla.MakeNumber(v.AsNumber()+1))
				}
				if err == nil {
					err = <-r.PreCommit(iface)
				}
				if err != nil {
					r.Abort(iface)
					continue
				}
				r.Commit(iface)
				done[i]++
			}
		}(w)
	}
	fin := make(chan struct{})
	go func() { wg.Wait(); close(fin) }()
	finished := true
	select {
	case <-fin:
	case <-time.After(time.Until(deadline) + 15*time.Second):
		finished = false
	}
	h := &H{n: n}
	for i := 0; i < n; i++ {
		h.nodes = append(h.nodes, &node{idx: i, id: ids[i], rcvr: rcv[i]})
	}
	total := 0
	for _, d := range done {
		total += d
	}
	// All proposers are done. Commit/Abort messages to the slower replicas are sent by goroutines that may still
	// be running; once they are through, every replica must be at the final version and hold no pre-commit.
	settled := waitPoll(5*time.Second, func() bool {
		for _, nd := range h.nodes {
			st := resources.VerifTwoPCSnapshot(nd.rcvr)
			if st.Version < total || st.TwoPCState != "initial" {
				return false
			}
		}
		return true
	})
	res.Final = map[string]interface{}{"finished": finished, "settled": settled, "total": total, "done": done, "snaps": h.snaps()}
	for i := 0; i < n; i++ {
		func() {
			defer func() { recover() }()
			resources.CloseTwoPCReceiver(rcv[i])
		}()
	}
	return
}

func main() {
	in := bufio.NewReaderSize(os.Stdin, 1<<20)
	out := bufio.NewWriter(os.Stdout)
	dec := json.NewDecoder(in)
	enc := json.NewEncoder(out)
	for dec.More() {
		var k kase
		if err := dec.Decode(&k); err != nil {
			fmt.Fprintln(os.Stderr, "bad case:", err)
			os.Exit(2)
		}
		var r result
		if k.Kind == "smoke" {
			r = runSmoke(k)
		} else if k.Kind == "stress" {
			r = runStress(k)
		} else {
			r = runStepped(k)
		}
		if len(r.Err) >= 4 && r.Err[:4] == "hang" {
			hangs++
			if hangs >= 2 {
				longWait = 1500 * time.Millisecond
			}
		}
		enc.Encode(r)
		out.Flush()
	}
}
