package main

// Live (deployment smoke) runs: the real generated archetypes over the REAL deployment resources their tests use,
// free-running goroutines in this one process, deadlines everywhere, every port from 127.0.0.1:0.
//
//	live_shcounter   ANode x NUM_NODES over real resources.NewTwoPC replicas; transport RPC (RPCReplicaHandle over loopback)
//	                 or LOCAL (LocalReplicaHandle through the C11 hook VerifTwoPCLocalHandle)
//	live_dqueue      AProducer + AConsumer x NUM_CONSUMERS over TCP mailboxes, InputChan / OutputChan
//	live_loadbalancer ALoadBalancer + AServer x NUM_SERVERS + AClient x NUM_CLIENTS over TCP mailboxes, real FileSystem
//	live_proxy       AProxy + AServer (under a real Monitor) + AClient over TCP mailboxes, real FailureDetector
//
// Schedules are whatever the Go scheduler produces; the result carries what is observable (channel outputs in one global
// order, 2PC snapshots, how every archetype ended) for lib/c16_live.py to judge.

import (
	"fmt"
	"os"
	"path"
	"sync"
	"time"

	"github.com/DistCompiler/pgo/distsys"
	"github.com/DistCompiler/pgo/distsys/resources"
	"github.com/DistCompiler/pgo/distsys/tla"
	"github.com/DistCompiler/pgo/systems/dqueue"
	"github.com/DistCompiler/pgo/systems/loadbalancer"
	"github.com/DistCompiler/pgo/systems/proxy"
	"github.com/DistCompiler/pgo/systems/shcounter"

	"verifharness/steplib"
)

var liveRunners = map[string]func(cfg map[string]int) map[string]interface{}{}

func deadlineOf(cfg map[string]int, def int) time.Time {
	ms := cfg["DEADLINE_MS"]
	if ms <= 0 {
		ms = def
	}
	return time.Now().Add(time.Duration(ms) * time.Millisecond)
}

func init() {
	num := func(i int) tla.Value { return tla.MakeNumber(int32(i)) }

	// ------------------------------------------------------------------ shcounter over real 2PC replicas
	liveRunners["live_shcounter"] = func(cfg map[string]int) map[string]interface{} {
		n := cfg["NUM_NODES"]
		rpc := cfg["RPC"] != 0
		out := map[string]interface{}{}
		rcv := make([]*resources.TwoPCReceiver, n)
		res := make([]distsys.ArchetypeResource, n)
		ids := make([]tla.Value, n)
		for i := range ids {
			ids[i] = tla.MakeString(fmt.Sprintf("node%d", i))
		}
		if rpc {
			addrs := steplib.FreeAddrs(n)
			for i := 0; i < n; i++ {
				var reps []resources.ReplicaHandle
				for j := 0; j < n; j++ {
					if j != i {
						h := resources.MakeRPCReplicaHandle(addrs[j], ids[j])
						reps = append(reps, &h)
					}
				}
				ii := i
				res[i] = resources.NewTwoPC(num(0), addrs[i], reps, ids[i], func(r *resources.TwoPCReceiver) { rcv[ii] = r })
			}
		} else {
			for i := 0; i < n; i++ {
				ii := i
				res[i] = resources.NewTwoPC(num(0), "127.0.0.1:0", nil, ids[i], func(r *resources.TwoPCReceiver) { rcv[ii] = r })
			}
			for i := 0; i < n; i++ {
				var hs []resources.ReplicaHandle
				for j := 0; j < n; j++ {
					if j != i {
						hs = append(hs, resources.VerifTwoPCLocalHandle(rcv[j]))
					}
				}
				res[i].(*resources.TwoPCArchetypeResource).SetReplicas(hs)
			}
		}
		// sampler: committed value and version of every replica never decrease, value never exceeds NUM_NODES
		var smu sync.Mutex
		var violations []string
		lastV, lastVal := make([]int, n), make([]int, n)
		samples := 0
		stopSampler := make(chan struct{})
		samplerDone := make(chan struct{})
		sample := func() {
			smu.Lock()
			defer smu.Unlock()
			samples++
			for i := 0; i < n; i++ {
				st := resources.VerifTwoPCSnapshot(rcv[i])
				val := -1 // the committed value is oldValue (value also holds tentative writes of a critical section, rolled back on abort)
				if st.OldValue.IsNumber() {
					val = int(st.OldValue.AsNumber())
				}
				if st.Version < lastV[i] && len(violations) < 10 {
					violations = append(violations, fmt.Sprintf("replica %d: version went from %d to %d", i, lastV[i], st.Version))
				}
				if (val < lastVal[i] || val > n) && len(violations) < 10 {
					violations = append(violations, fmt.Sprintf("replica %d: committed value went from %d to %d (NUM_NODES = %d)", i, lastVal[i], val, n))
				}
				lastV[i], lastVal[i] = st.Version, val
			}
		}
		go func() {
			defer close(samplerDone)
			for {
				select {
				case <-stopSampler:
					return
				case <-time.After(2 * time.Millisecond):
					sample()
				}
			}
		}()
		run := steplib.NewLiveRun()
		deadline := deadlineOf(cfg, 8000)
		t0 := time.Now()
		for i := 0; i < n; i++ {
			ctx := distsys.NewMPCalContext(num(i+1), shcounter.ANode,
				distsys.DefineConstantValue("NUM_NODES", num(n)),
				distsys.EnsureArchetypeRefParam("cntr", res[i]))
			run.Go(fmt.Sprintf("n%d", i+1), ctx, nil)
		}
		running := run.WaitAll(run.Names, deadline)
		out["elapsed_ms"] = time.Since(t0).Milliseconds()
		close(stopSampler)
		<-samplerDone
		sample()
		var finals []map[string]interface{}
		for i := 0; i < n; i++ {
			st := resources.VerifTwoPCSnapshot(rcv[i])
			finals = append(finals, map[string]interface{}{"value": steplib.Enc(st.OldValue), "working_value": steplib.Enc(st.Value), "version": st.Version,
				"cs": st.CriticalSectionState, "twopc": st.TwoPCState, "attempts": st.PrecommitAttempts})
		}
		out["replicas"], out["violations"], out["samples"] = finals, violations, samples
		out["ended"], out["running"] = run.EndedCopy(), running
		if len(running) > 0 {
			out["outcome"], out["exit"] = "hang", true
			return out
		}
		out["stuck_after_stop"] = run.StopAll(2 * time.Second)
		for i := 0; i < n; i++ {
			_ = resources.CloseTwoPCReceiver(rcv[i])
		}
		out["outcome"] = "finished"
		return out
	}

	// ------------------------------------------------------------------ TCP mailboxes indexed by a node number
	tcpByNumber := func(self int, addrs []string) distsys.ArchetypeResource {
		return resources.NewTCPMailboxes(func(idx tla.Value) (resources.MailboxKind, string) {
			i := int(idx.AsNumber())
			if i < 0 || i >= len(addrs) {
				panic(fmt.Errorf("unknown mailbox index %v", idx))
			}
			if i == self {
				return resources.MailboxesLocal, addrs[i]
			}
			return resources.MailboxesRemote, addrs[i]
		})
	}
	// waits until the log holds `want` "out" entries or the deadline passes, then a short grace for surplus outputs
	awaitOutputs := func(log *steplib.LiveLog, want int, deadline time.Time) bool {
		for time.Now().Before(deadline) {
			c := 0
			for _, e := range log.Snapshot() {
				if e.Kind == "out" {
					c++
				}
			}
			if c >= want {
				time.Sleep(120 * time.Millisecond)
				return true
			}
			time.Sleep(5 * time.Millisecond)
		}
		return false
	}
	finish := func(out map[string]interface{}, run *steplib.LiveRun, log *steplib.LiveLog, complete bool) map[string]interface{} {
		out["ended_before_stop"] = run.EndedCopy()
		stuck := run.StopAll(3 * time.Second)
		out["stuck_after_stop"], out["ended"], out["log"] = stuck, run.EndedCopy(), log.Snapshot()
		if complete {
			out["outcome"] = "finished"
		} else {
			out["outcome"] = "hang"
		}
		if len(stuck) > 0 || !complete {
			out["exit"] = true
		}
		return out
	}

	// ------------------------------------------------------------------ dqueue
	liveRunners["live_dqueue"] = func(cfg map[string]int) map[string]interface{} {
		nc, items := cfg["NUM_CONSUMERS"], cfg["ITEMS"]
		out := map[string]interface{}{}
		addrs := steplib.FreeAddrs(nc + 1)
		log := steplib.NewLiveLog()
		run := steplib.NewLiveRun()
		stop := make(chan struct{})
		defer close(stop)
		consts := distsys.EnsureMPCalContextConfigs(distsys.DefineConstantValue("PRODUCER", num(0)),
			distsys.DefineConstantValue("NUM_CONSUMERS", num(nc)), distsys.DefineConstantValue("BUFFER_SIZE", num(100)))
		in := make(chan tla.Value, items)
		run.Go("producer", distsys.NewMPCalContext(num(0), dqueue.AProducer, consts,
			distsys.EnsureArchetypeRefParam("net", tcpByNumber(0, addrs)),
			distsys.EnsureArchetypeRefParam("s", resources.NewInputChan(in))), nil)
		for c := 1; c <= nc; c++ {
			ch := make(chan tla.Value, items)
			log.Tap(fmt.Sprintf("c%d", c), ch, stop, nil)
			run.Go(fmt.Sprintf("c%d", c), distsys.NewMPCalContext(num(c), dqueue.AConsumer, consts,
				distsys.EnsureArchetypeRefParam("net", tcpByNumber(c, addrs)),
				distsys.EnsureArchetypeRefParam("proc", resources.NewOutputChan(ch))), nil)
		}
		for k := 0; k < items; k++ {
			in <- num(1000 + k)
		}
		ok := awaitOutputs(log, items, deadlineOf(cfg, 8000))
		return finish(out, run, log, ok)
	}

	// ------------------------------------------------------------------ loadbalancer
	liveRunners["live_loadbalancer"] = func(cfg map[string]int) map[string]interface{} {
		ns, ncl, reqs, pages := cfg["NUM_SERVERS"], cfg["NUM_CLIENTS"], cfg["REQUESTS"], cfg["PAGES"]
		out := map[string]interface{}{}
		dir, err := os.MkdirTemp("", "c16live")
		if err != nil {
			out["outcome"], out["err"] = "setup-error", err.Error()
			return out
		}
		defer os.RemoveAll(dir)
		for p := 0; p < pages; p++ {
			if err := os.WriteFile(path.Join(dir, fmt.Sprintf("page%d.txt", p)), []byte(fmt.Sprintf("content of page %d", p)), 0o644); err != nil {
				out["outcome"], out["err"] = "setup-error", err.Error()
				return out
			}
		}
		addrs := steplib.FreeAddrs(1 + ns + ncl)
		log := steplib.NewLiveLog()
		run := steplib.NewLiveRun()
		stop := make(chan struct{})
		defer close(stop)
		consts := distsys.EnsureMPCalContextConfigs(distsys.DefineConstantValue("LoadBalancerId", num(0)),
			distsys.DefineConstantValue("NUM_SERVERS", num(ns)), distsys.DefineConstantValue("NUM_CLIENTS", num(ncl)),
			distsys.DefineConstantValue("GET_PAGE", tla.MakeString("GET_PAGE")))
		run.Go("lb", distsys.NewMPCalContext(num(0), loadbalancer.ALoadBalancer, consts,
			distsys.EnsureArchetypeRefParam("mailboxes", tcpByNumber(0, addrs))), nil)
		for s := 1; s <= ns; s++ {
			run.Go(fmt.Sprintf("s%d", s), distsys.NewMPCalContext(num(s), loadbalancer.AServer, consts,
				distsys.EnsureArchetypeRefParam("mailboxes", tcpByNumber(s, addrs)),
				distsys.EnsureArchetypeRefParam("file_system", resources.NewFileSystem(dir))), nil)
		}
		var requested [][]int
		for c := 0; c < ncl; c++ {
			id := 1 + ns + c
			inCh, outCh := make(chan tla.Value, reqs), make(chan tla.Value, reqs)
			log.Tap(fmt.Sprintf("c%d", id), outCh, stop, nil)
			run.Go(fmt.Sprintf("c%d", id), distsys.NewMPCalContext(num(id), loadbalancer.AClient, consts,
				distsys.EnsureArchetypeRefParam("mailboxes", tcpByNumber(id, addrs)),
				distsys.EnsureArchetypeRefParam("instream", resources.NewInputChan(inCh)),
				distsys.EnsureArchetypeRefParam("outstream", resources.NewOutputChan(outCh))), nil)
			var mine []int
			for k := 0; k < reqs; k++ {
				p := (cfg["SEED"] + 7*c + 3*k + k*k) % pages
				mine = append(mine, p)
				inCh <- tla.MakeString(fmt.Sprintf("page%d.txt", p))
			}
			requested = append(requested, mine)
		}
		out["requested"] = requested
		ok := awaitOutputs(log, ncl*reqs, deadlineOf(cfg, 10000))
		return finish(out, run, log, ok)
	}

	// ------------------------------------------------------------------ proxy
	liveRunners["live_proxy"] = func(cfg map[string]int) map[string]interface{} {
		ns, reqs, runningMask, crash := cfg["NUM_SERVERS"], cfg["REQUESTS"], cfg["RUNNING"], cfg["CRASH"]
		const ncl = 1
		out := map[string]interface{}{}
		consts := distsys.EnsureMPCalContextConfigs(distsys.DefineConstantValue("NUM_SERVERS", num(ns)),
			distsys.DefineConstantValue("NUM_CLIENTS", num(ncl)), distsys.DefineConstantValue("EXPLORE_FAIL", tla.ModuleFALSE),
			distsys.DefineConstantValue("CLIENT_RUN", tla.ModuleTRUE))
		ciface := distsys.NewMPCalContextWithoutArchetype(consts).IFace()
		ntyp := proxy.MSG_TYP_SET(ciface).AsSet().Len()
		nodes := ns + ncl + 1
		addrs := steplib.FreeAddrs(nodes*ntyp + 1)
		monAddr := addrs[nodes*ntyp]
		network := func(self int) distsys.ArchetypeResource {
			return resources.NewTCPMailboxes(func(idx tla.Value) (resources.MailboxKind, string) {
				aid := int(idx.AsTuple().Get(0).AsNumber())
				typ := int(idx.AsTuple().Get(1).AsNumber())
				kind := resources.MailboxesRemote
				if aid == self {
					kind = resources.MailboxesLocal
				}
				return kind, addrs[(aid-1)*ntyp+(typ-1)]
			})
		}
		mon := resources.NewMonitor(monAddr)
		monErr := make(chan error, 1)
		go func() { monErr <- mon.ListenAndServe() }()
		log := steplib.NewLiveLog()
		run := steplib.NewLiveRun()
		stop := make(chan struct{})
		defer close(stop)
		serverCtx := map[int]*distsys.MPCalContext{}
		for s := 1; s <= ns; s++ {
			if runningMask&(1<<(s-1)) == 0 {
				continue
			}
			ctx := distsys.NewMPCalContext(num(s), proxy.AServer, consts,
				distsys.EnsureArchetypeRefParam("net", network(s)),
				distsys.EnsureArchetypeRefParam("fd", resources.NewPlaceHolder()),
				distsys.EnsureArchetypeRefParam("netEnabled", resources.NewPlaceHolder()))
			serverCtx[s] = ctx
			run.Go(fmt.Sprintf("s%d", s), ctx, func() error { return mon.RunArchetype(ctx) })
		}
		proxyID := ns + ncl + 1
		run.Go("proxy", distsys.NewMPCalContext(num(proxyID), proxy.AProxy, consts,
			distsys.EnsureArchetypeRefParam("net", network(proxyID)),
			distsys.EnsureArchetypeRefParam("fd", resources.NewFailureDetector(func(tla.Value) string { return monAddr },
				resources.WithFailureDetectorPullInterval(100*time.Millisecond),
				resources.WithFailureDetectorTimeout(400*time.Millisecond)))), nil)
		inCh, outCh := make(chan tla.Value, 2*reqs), make(chan tla.Value, 2*reqs)
		log.Tap("client", outCh, stop, nil)
		cid := ns + 1
		run.Go("client", distsys.NewMPCalContext(num(cid), proxy.AClient, consts,
			distsys.EnsureArchetypeRefParam("net", network(cid)),
			distsys.EnsureArchetypeRefParam("input", resources.NewInputChan(inCh)),
			distsys.EnsureArchetypeRefParam("output", resources.NewOutputChan(outCh))), nil)
		deadline := deadlineOf(cfg, 15000)
		for k := 0; k < reqs; k++ {
			inCh <- num(k)
		}
		ok := awaitOutputs(log, reqs, deadline)
		total := reqs
		if ok && crash > 0 && serverCtx[crash] != nil {
			// phase 2: stop one server (as TestProxy_FirstServerCrashing does), then the same number of requests again
			stopped := make(chan struct{})
			go func() { defer close(stopped); defer func() { _ = recover() }(); serverCtx[crash].Stop() }()
			select {
			case <-stopped:
			case <-time.After(3 * time.Second):
			}
			log.Add("driver", "note", nil, fmt.Sprintf("stopped server %d", crash), 0)
			for k := 0; k < reqs; k++ {
				inCh <- num(reqs + k)
			}
			total = 2 * reqs
			ok = awaitOutputs(log, total, deadline)
		}
		out["expected_outputs"] = total
		res := finish(out, run, log, ok)
		closed := make(chan error, 1)
		go func() { closed <- mon.Close() }()
		select {
		case err := <-closed:
			if err != nil {
				res["monitor_close"] = err.Error()
			}
		case <-time.After(2 * time.Second):
			res["monitor_close"], res["exit"] = "timeout", true
		}
		return res
	}
}
