package main

import (
	"fmt"

	"github.com/DistCompiler/pgo/distsys"
	"github.com/DistCompiler/pgo/distsys/tla"
	"github.com/DistCompiler/pgo/systems/dqueue"

	"verifharness/steplib"
)

// dqueue.tla: network = [id \in 0..NUM_NODES-1 |-> <<>>], processor = 0, stream = 0;
// network[_] via TCPChannel (FIFO, bounded by BUFFER_SIZE), stream via CyclicReads.
func init() {
	builders["dqueue"] = func(cfg map[string]int) (*steplib.System, error) {
		nc, b := cfg["NUM_CONSUMERS"], cfg["BUFFER_SIZE"]
		var nodes []tla.Value
		for i := 0; i <= nc; i++ {
			nodes = append(nodes, tla.MakeNumber(int32(i)))
		}
		sys := steplib.NewSystem(map[string]tla.Value{
			"network":   steplib.ConstFn(nodes, tla.MakeTuple()),
			"processor": tla.MakeNumber(0),
			"stream":    tla.MakeNumber(0),
		})
		// mapping macro CyclicReads { read { $variable := ($variable + 1) % BUFFER_SIZE; yield $variable; } write { yield $variable } }
		cyclic := steplib.Macro{
			Read: func(a *steplib.Access) (tla.Value, error) {
				v := tla.ModulePercentSymbol(tla.ModulePlusSymbol(a.Var(), tla.MakeNumber(1)), tla.MakeNumber(int32(b)))
				a.SetVar(v)
				return v, nil
			},
			Write: func(a *steplib.Access, v tla.Value) error { return nil },
		}
		consts := distsys.EnsureMPCalContextConfigs(
			distsys.DefineConstantValue("PRODUCER", tla.MakeNumber(0)),
			distsys.DefineConstantValue("NUM_CONSUMERS", tla.MakeNumber(int32(nc))),
			distsys.DefineConstantValue("BUFFER_SIZE", tla.MakeNumber(int32(b))))
		sys.AddProc("producer", tla.MakeNumber(0), dqueue.AProducer, []steplib.Binding{
			{Param: "net", Var: "network", Depth: 1, Macro: steplib.FIFOLink(b)},
			{Param: "s", Var: "stream", Depth: 0, Macro: cyclic}}, consts)
		for c := 1; c <= nc; c++ {
			sys.AddProc(fmt.Sprintf("c%d", c), tla.MakeNumber(int32(c)), dqueue.AConsumer, []steplib.Binding{
				{Param: "net", Var: "network", Depth: 1, Macro: steplib.FIFOLink(b)},
				{Param: "proc", Var: "processor", Depth: 0, Macro: steplib.Identity}}, consts)
		}
		return sys, nil
	}
}
