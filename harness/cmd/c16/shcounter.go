package main

import (
	"fmt"

	"github.com/DistCompiler/pgo/distsys"
	"github.com/DistCompiler/pgo/distsys/tla"
	"github.com/DistCompiler/pgo/systems/shcounter"

	"verifharness/steplib"
)

// shcounter.tla: cntr = 0; no mapping macro (one atomic variable: the assumption C11 establishes for the
// 2PC-backed resource of the deployment).
func init() {
	builders["shcounter"] = func(cfg map[string]int) (*steplib.System, error) {
		n := cfg["NUM_NODES"]
		sys := steplib.NewSystem(map[string]tla.Value{"cntr": tla.MakeNumber(0)})
		for p := 1; p <= n; p++ {
			sys.AddProc(fmt.Sprintf("n%d", p), tla.MakeNumber(int32(p)), shcounter.ANode, []steplib.Binding{
				{Param: "cntr", Var: "cntr", Depth: 0, Macro: steplib.Identity}},
				distsys.DefineConstantValue("NUM_NODES", tla.MakeNumber(int32(n))))
		}
		return sys, nil
	}
}
