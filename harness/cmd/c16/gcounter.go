package main

import (
	"fmt"

	"github.com/DistCompiler/pgo/distsys"
	"github.com/DistCompiler/pgo/distsys/tla"
	"github.com/DistCompiler/pgo/systems/gcounter"

	"verifharness/steplib"
)

// gcounter.tla: localcntrs = [id1 \in NODE_SET |-> [id2 \in NODE_SET |-> 0]], c = [id \in NODE_SET |-> {}];
// localcntrs[_] via LocalGCntr, c[_] via CasualHistory. The spec process UpdateGCntr (label l1: pick i1, i2 with
// different states, merge both ways, union the histories) is an environment action "merge".
func init() {
	nodeSet := func(n int) []tla.Value {
		var ns []tla.Value
		for i := 1; i <= n; i++ {
			ns = append(ns, tla.MakeNumber(int32(i)))
		}
		return ns
	}
	builders["gcounter"] = func(cfg map[string]int) (*steplib.System, error) {
		n := cfg["NUM_NODES"]
		nodes := nodeSet(n)
		sys := steplib.NewSystem(map[string]tla.Value{
			"localcntrs": steplib.ConstFn(nodes, steplib.ConstFn(nodes, tla.MakeNumber(0))),
			"c":          steplib.ConstFn(nodes, tla.MakeSet()),
		})
		localGCntr := steplib.Macro{
			Read: func(a *steplib.Access) (tla.Value, error) { // yield SUM($variable, DOMAIN $variable)
				sum := int32(0)
				f := a.Var()
				for _, k := range steplib.Keys(f) {
					sum += f.ApplyFunction(k).AsNumber()
				}
				return tla.MakeNumber(sum), nil
			},
			Write: func(a *steplib.Access, v tla.Value) error { // assert $value > 0; $variable[self] += $value
				if !(v.AsNumber() > 0) {
					return fmt.Errorf("%w: $value > 0", distsys.ErrAssertionFailed)
				}
				f := a.Var()
				self := a.Self()
				a.SetVar(tla.FunctionSubstitution(f, []tla.FunctionSubstitutionRecord{{
					Keys: []tla.Value{self}, Value: func(old tla.Value) tla.Value { return tla.ModulePlusSymbol(old, v) }}}))
				return nil
			},
		}
		causal := steplib.Macro{
			Read:  func(a *steplib.Access) (tla.Value, error) { return a.Var(), nil },
			Write: func(a *steplib.Access, v tla.Value) error { a.SetVar(tla.ModuleUnionSymbol(a.Var(), v)); return nil },
		}
		for p := 1; p <= n; p++ {
			sys.AddProc(fmt.Sprintf("n%d", p), tla.MakeNumber(int32(p)), gcounter.ANode, []steplib.Binding{
				{Param: "cntr", Var: "localcntrs", Depth: 1, Macro: localGCntr},
				{Param: "c", Var: "c", Depth: 1, Macro: causal}},
				distsys.DefineConstantValue("NUM_NODES", tla.MakeNumber(int32(n))))
		}
		return sys, nil
	}
	envs["gcounter"] = func(cfg map[string]int) []steplib.EnvAction {
		n := cfg["NUM_NODES"]
		return []steplib.EnvAction{{Name: "merge", Weight: 120, Run: func(sys *steplib.System, ch []uint64) steplib.Obs {
			get := func(i int) uint64 {
				if i < len(ch) {
					return ch[i]
				}
				return 0
			}
			lc, c := sys.State.Get("localcntrs"), sys.State.Get("c")
			i1 := int(get(0)%uint64(n)) + 1
			v1 := tla.MakeNumber(int32(i1))
			var cands []int
			for x := 1; x <= n; x++ {
				if !lc.ApplyFunction(tla.MakeNumber(int32(x))).Equal(lc.ApplyFunction(v1)) {
					cands = append(cands, x)
				}
			}
			choices := []steplib.Choice{{ID: "merge.i1", Ceiling: uint(n), Index: uint(i1 - 1)}}
			if len(cands) == 0 {
				return sys.EnvObs("merge", false, choices, []interface{}{i1})
			}
			k := int(get(1) % uint64(len(cands)))
			i2 := cands[k]
			v2 := tla.MakeNumber(int32(i2))
			choices = append(choices, steplib.Choice{ID: "merge.i2", Ceiling: uint(len(cands)), Index: uint(k)})
			f1, f2 := lc.ApplyFunction(v1), lc.ApplyFunction(v2)
			var fields []tla.RecordField
			for _, j := range steplib.Keys(f1) {
				a, b := f1.ApplyFunction(j), f2.ApplyFunction(j)
				m := b
				if a.AsNumber() > b.AsNumber() {
					m = a
				}
				fields = append(fields, tla.RecordField{Key: j, Value: m})
			}
			res := tla.MakeRecord(fields)
			set := func(f tla.Value, k, v tla.Value) tla.Value {
				return tla.FunctionSubstitution(f, []tla.FunctionSubstitutionRecord{{Keys: []tla.Value{k}, Value: func(tla.Value) tla.Value { return v }}})
			}
			sys.State.Set("localcntrs", set(set(lc, v1, res), v2, res))
			cn := tla.ModuleUnionSymbol(c.ApplyFunction(v1), c.ApplyFunction(v2))
			sys.State.Set("c", set(set(c, v1, cn), v2, cn))
			return sys.EnvObs("merge", true, choices, []interface{}{i1, i2})
		}}}
	}
}
