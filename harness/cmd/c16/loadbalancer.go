package main

import (
	"fmt"

	"github.com/DistCompiler/pgo/distsys"
	"github.com/DistCompiler/pgo/distsys/tla"
	"github.com/DistCompiler/pgo/systems/loadbalancer"

	"verifharness/steplib"
)

// load_balancer.tla: network = [id \in 0..NUM_NODES-1 |-> <<>>], in = 0, out = 0, fs = [f \in {in} |-> WEB_PAGE];
// network[_] via TCPChannel, fs[_] via WebPages (read yields WEB_PAGE; write asserts FALSE).
// Constants: LoadBalancerId = 0, GET_PAGE = 1, WEB_PAGE = 99.
func init() {
	builders["loadbalancer"] = func(cfg map[string]int) (*steplib.System, error) {
		ns, nc, b := cfg["NUM_SERVERS"], cfg["NUM_CLIENTS"], cfg["BUFFER_SIZE"]
		webPage := tla.MakeNumber(99)
		var nodes []tla.Value
		for i := 0; i <= ns+nc; i++ {
			nodes = append(nodes, tla.MakeNumber(int32(i)))
		}
		sys := steplib.NewSystem(map[string]tla.Value{
			"network": steplib.ConstFn(nodes, tla.MakeTuple()),
			"in":      tla.MakeNumber(0),
			"out":     tla.MakeNumber(0),
			"fs":      steplib.Fn(tla.MakeNumber(0), webPage),
		})
		webPages := steplib.Macro{
			Read: func(a *steplib.Access) (tla.Value, error) { return webPage, nil },
			Write: func(a *steplib.Access, v tla.Value) error {
				return fmt.Errorf("%w: FALSE (write through WebPages)", distsys.ErrAssertionFailed)
			},
		}
		consts := distsys.EnsureMPCalContextConfigs(
			distsys.DefineConstantValue("LoadBalancerId", tla.MakeNumber(0)),
			distsys.DefineConstantValue("NUM_SERVERS", tla.MakeNumber(int32(ns))),
			distsys.DefineConstantValue("NUM_CLIENTS", tla.MakeNumber(int32(nc))),
			distsys.DefineConstantValue("BUFFER_SIZE", tla.MakeNumber(int32(b))),
			distsys.DefineConstantValue("GET_PAGE", tla.MakeNumber(1)),
			distsys.DefineConstantValue("WEB_PAGE", webPage))
		netB := steplib.Binding{Param: "mailboxes", Var: "network", Depth: 1, Macro: steplib.FIFOLink(b)}
		sys.AddProc("lb", tla.MakeNumber(0), loadbalancer.ALoadBalancer, []steplib.Binding{netB}, consts)
		for j := 1; j <= ns; j++ {
			sys.AddProc(fmt.Sprintf("s%d", j), tla.MakeNumber(int32(j)), loadbalancer.AServer, []steplib.Binding{
				netB, {Param: "file_system", Var: "fs", Depth: 1, Macro: webPages}}, consts)
		}
		for c := ns + 1; c <= ns+nc; c++ {
			sys.AddProc(fmt.Sprintf("c%d", c), tla.MakeNumber(int32(c)), loadbalancer.AClient, []steplib.Binding{
				netB,
				{Param: "instream", Var: "in", Depth: 0, Macro: steplib.Identity},
				{Param: "outstream", Var: "out", Depth: 0, Macro: steplib.Identity}}, consts)
		}
		return sys, nil
	}
}
