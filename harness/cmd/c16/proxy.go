package main

import (
	"fmt"

	"github.com/DistCompiler/pgo/distsys"
	"github.com/DistCompiler/pgo/distsys/tla"
	"github.com/DistCompiler/pgo/systems/proxy"

	"verifharness/steplib"
)

// proxy.tla: network = [id \in NODE_SET, typ \in MSG_TYP_SET |-> [queue |-> <<>>, enabled |-> TRUE]],
// fd = [id \in NODE_SET |-> FALSE], output = <<>>, and per client `input` = 0 (mapping Requests).
// network[_] via ReliableFIFOLink, the servers' netEnabled[_] via NetworkToggle (same variable), fd[_] via
// PerfectFD (the mapping ProxyOK is stated for).
func init() {
	builders["proxy"] = func(cfg map[string]int) (*steplib.System, error) {
		ns, nc := cfg["NUM_SERVERS"], cfg["NUM_CLIENTS"]
		p := ns + nc + 1
		num := func(i int) tla.Value { return tla.MakeNumber(int32(i)) }
		var netKV, fdKV, inKV []tla.Value
		for i := 1; i <= p; i++ {
			for t := 1; t <= 4; t++ {
				netKV = append(netKV, tla.MakeTuple(num(i), num(t)), steplib.Rec("queue", tla.MakeTuple(), "enabled", tla.ModuleTRUE))
			}
			fdKV = append(fdKV, num(i), tla.ModuleFALSE)
		}
		for c := ns + 1; c <= ns+nc; c++ {
			inKV = append(inKV, num(c), num(0))
		}
		sys := steplib.NewSystem(map[string]tla.Value{
			"network": steplib.Fn(netKV...),
			"fd":      steplib.Fn(fdKV...),
			"output":  tla.MakeTuple(),
			"input":   steplib.Fn(inKV...),
		})
		q := tla.MakeString("queue")
		en := tla.MakeString("enabled")
		link := steplib.Macro{
			Read: func(a *steplib.Access) (tla.Value, error) {
				v := a.Var()
				if !v.ApplyFunction(en).AsBool() {
					return tla.Value{}, fmt.Errorf("%w: $variable.enabled", distsys.ErrAssertionFailed)
				}
				qu := v.ApplyFunction(q)
				if qu.AsTuple().Len() == 0 {
					return tla.Value{}, distsys.ErrCriticalSectionAborted
				}
				a.SetVar(steplib.Rec("queue", tla.ModuleTail(qu), "enabled", v.ApplyFunction(en)))
				return tla.ModuleHead(qu), nil
			},
			Write: func(a *steplib.Access, val tla.Value) error {
				v := a.Var()
				if !v.ApplyFunction(en).AsBool() {
					return distsys.ErrCriticalSectionAborted
				}
				a.SetVar(steplib.Rec("queue", tla.ModuleAppend(v.ApplyFunction(q), val), "enabled", v.ApplyFunction(en)))
				return nil
			},
		}
		toggle := steplib.Macro{
			Read: func(a *steplib.Access) (tla.Value, error) { return a.Var().ApplyFunction(en), nil },
			Write: func(a *steplib.Access, val tla.Value) error {
				a.SetVar(steplib.Rec("queue", a.Var().ApplyFunction(q), "enabled", val))
				return nil
			},
		}
		requests := steplib.Macro{ // per client: read { with (value = $variable) { $variable := $variable + 1; yield value } }
			Read: func(a *steplib.Access) (tla.Value, error) {
				f := a.Var()
				v := f.ApplyFunction(a.Self())
				a.SetVar(tla.FunctionSubstitution(f, []tla.FunctionSubstitutionRecord{{Keys: []tla.Value{a.Self()},
					Value: func(old tla.Value) tla.Value { return tla.ModulePlusSymbol(old, tla.MakeNumber(1)) }}}))
				return v, nil
			},
			Write: func(a *steplib.Access, val tla.Value) error {
				return fmt.Errorf("%w: FALSE (write through Requests)", distsys.ErrAssertionFailed)
			},
		}
		consts := distsys.EnsureMPCalContextConfigs(
			distsys.DefineConstantValue("NUM_SERVERS", num(ns)),
			distsys.DefineConstantValue("NUM_CLIENTS", num(nc)),
			distsys.DefineConstantValue("EXPLORE_FAIL", tla.MakeBool(cfg["EXPLORE_FAIL"] != 0)),
			distsys.DefineConstantValue("CLIENT_RUN", tla.MakeBool(cfg["CLIENT_RUN"] != 0)))
		netB := steplib.Binding{Param: "net", Var: "network", Depth: 1, Macro: link}
		fdB := steplib.Binding{Param: "fd", Var: "fd", Depth: 1, Macro: steplib.Identity}
		sys.AddProc("proxy", num(p), proxy.AProxy, []steplib.Binding{netB, fdB}, consts)
		for j := 1; j <= ns; j++ {
			sys.AddProc(fmt.Sprintf("s%d", j), num(j), proxy.AServer, []steplib.Binding{
				netB, {Param: "netEnabled", Var: "network", Depth: 1, Macro: toggle}, fdB}, consts)
		}
		for c := ns + 1; c <= ns+nc; c++ {
			sys.AddProc(fmt.Sprintf("c%d", c), num(c), proxy.AClient, []steplib.Binding{
				netB, {Param: "input", Var: "input", Depth: 0, Macro: requests},
				{Param: "output", Var: "output", Depth: 0, Macro: steplib.Identity}}, consts)
		}
		return sys, nil
	}
}
