package main

import (
	"fmt"

	"github.com/DistCompiler/pgo/distsys"
	"github.com/DistCompiler/pgo/distsys/resources"
	"github.com/DistCompiler/pgo/distsys/tla"
	"github.com/DistCompiler/pgo/systems/nestedcrdtimpl"

	"verifharness/steplib"
)

// NestedCRDTImpl.tla: network = [res \in RESOURCE_IDS |-> <<>>], in / out = [res \in RESOURCE_IDS |-> EMPTY_CELL];
// CRDTResource = ACRDTResource(ref in[_], ref out[_], ref network[_], RESOURCE_IDS \ {self}, TRUE) with network[_] via
// TCPChannel and in[_], out[_] via SingleCellChannel. NODE_IDS = 1..K, RESOURCE_OF(n) = K + n. The CONSTANT operators are
// the grow-only counter of the deployment (nestedcrdtimpl_test.go): ZERO_VALUE = empty map, COMBINE_FN = pointwise max over
// the union of the domains, UPDATE_FN(self, s, v) = s[self] += v, VIEW_FN = sum. The spec's own process Node (twelve
// labels, direct access to in / out) is the environment action "node<k>"; its variables live in the spec state under
// "node" (k -> [pc, opsDone, writesPending, writesAchieved, shouldCommit]).
func init() {
	num := func(i int) tla.Value { return tla.MakeNumber(int32(i)) }
	str := tla.MakeString
	empty := str("EMPTY_CELL")
	setf := func(f tla.Value, k, v tla.Value) tla.Value {
		return tla.FunctionSubstitution(f, []tla.FunctionSubstitutionRecord{{Keys: []tla.Value{k}, Value: func(tla.Value) tla.Value { return v }}})
	}
	combine := func(lhs, rhs tla.Value) tla.Value {
		acc := map[string]tla.RecordField{}
		for _, f := range []tla.Value{lhs, rhs} {
			for _, k := range steplib.Keys(f) {
				v := f.ApplyFunction(k)
				if old, ok := acc[steplib.EncText(k)]; !ok || v.AsNumber() > old.Value.AsNumber() {
					acc[steplib.EncText(k)] = tla.RecordField{Key: k, Value: v}
				}
			}
		}
		var fields []tla.RecordField
		for _, f := range acc {
			fields = append(fields, f)
		}
		return tla.MakeRecord(fields)
	}
	update := func(self, state, v tla.Value) tla.Value {
		var fields []tla.RecordField
		found := false
		for _, k := range steplib.Keys(state) {
			val := state.ApplyFunction(k)
			if k.Equal(self) {
				found = true
				val = tla.ModulePlusSymbol(val, v)
			}
			fields = append(fields, tla.RecordField{Key: k, Value: val})
		}
		if !found {
			fields = append(fields, tla.RecordField{Key: self, Value: v})
		}
		return tla.MakeRecord(fields)
	}
	view := func(state tla.Value) tla.Value {
		var total int32
		for _, k := range steplib.Keys(state) {
			total += state.ApplyFunction(k).AsNumber()
		}
		return tla.MakeNumber(total)
	}
	builders["nestedcrdtimpl"] = func(cfg map[string]int) (*steplib.System, error) {
		k, b := cfg["NUM_NODES"], cfg["BUFFER_SIZE"]
		var resIDs, nodeIDs []tla.Value
		var nodeKV []tla.Value
		for n := 1; n <= k; n++ {
			resIDs = append(resIDs, num(k+n))
			nodeIDs = append(nodeIDs, num(n))
			nodeKV = append(nodeKV, num(n), steplib.Rec("pc", str("criticalSection"), "opsDone", num(0), "writesPending", num(0),
				"writesAchieved", num(0), "shouldCommit", tla.ModuleFALSE))
		}
		sys := steplib.NewSystem(map[string]tla.Value{
			"network": steplib.ConstFn(resIDs, tla.MakeTuple()),
			"in":      steplib.ConstFn(resIDs, empty),
			"out":     steplib.ConstFn(resIDs, empty),
			"node":    steplib.Fn(nodeKV...),
		})
		cell := steplib.Macro{ // SingleCellChannel
			Read: func(a *steplib.Access) (tla.Value, error) {
				v := a.Var()
				if v.Equal(empty) {
					return tla.Value{}, distsys.ErrCriticalSectionAborted
				}
				a.SetVar(empty)
				return v, nil
			},
			Write: func(a *steplib.Access, val tla.Value) error {
				if !a.Var().Equal(empty) {
					return distsys.ErrCriticalSectionAborted
				}
				a.SetVar(val)
				return nil
			},
		}
		for n := 1; n <= k; n++ {
			self := num(k + n)
			var peerVals []tla.Value
			for _, r := range resIDs {
				if !r.Equal(self) {
					peerVals = append(peerVals, r)
				}
			}
			peersSet := tla.MakeSet(peerVals...)
			constMacro := func(v tla.Value) steplib.Macro {
				return steplib.Macro{
					Read: func(a *steplib.Access) (tla.Value, error) { return v, nil },
					Write: func(a *steplib.Access, val tla.Value) error {
						return fmt.Errorf("%w: write to a constant parameter", distsys.ErrAssertionFailed)
					},
				}
			}
			sys.AddProc(fmt.Sprintf("r%d", k+n), self, nestedcrdtimpl.ACRDTResource, []steplib.Binding{
				{Param: "in", Var: "in", Depth: 1, Macro: cell},
				{Param: "out", Var: "out", Depth: 1, Macro: cell},
				{Param: "network", Var: "network", Depth: 1, Macro: steplib.FIFOLink(b)},
				{Param: "peers", Var: "network", Depth: 0, Macro: constMacro(peersSet)},
				{Param: "timer", Var: "network", Depth: 0, Macro: constMacro(tla.ModuleTRUE)}},
				resources.NestedArchetypeConstantDefs,
				distsys.DefineConstantValue("ZERO_VALUE", tla.MakeRecord(nil)),
				distsys.DefineConstantValue("BUFFER_SIZE", num(b)),
				distsys.DefineConstantValue("EMPTY_CELL", empty),
				distsys.DefineConstantValue("NODE_IDS", tla.MakeSet(nodeIDs...)),
				distsys.DefineConstantOperator("COMBINE_FN", func(l, r tla.Value) tla.Value { return combine(l, r) }),
				distsys.DefineConstantOperator("UPDATE_FN", func(s, st, v tla.Value) tla.Value { return update(s, st, v) }),
				distsys.DefineConstantOperator("VIEW_FN", func(st tla.Value) tla.Value { return view(st) }))
		}
		return sys, nil
	}
	envs["nestedcrdtimpl"] = func(cfg map[string]int) []steplib.EnvAction {
		k, numOps := cfg["NUM_NODES"], cfg["NUM_OPS"]
		var acts []steplib.EnvAction
		for n := 1; n <= k; n++ {
			n := n
			name := fmt.Sprintf("node%d", n)
			res := num(k + n)
			acts = append(acts, steplib.EnvAction{Name: name, Weight: 130, Run: func(sys *steplib.System, ch []uint64) steplib.Obs {
				nodes := sys.State.Get("node")
				me := nodes.ApplyFunction(num(n))
				pc := me.ApplyFunction(str("pc")).AsString()
				get := func(f string) int { return int(me.ApplyFunction(str(f)).AsNumber()) }
				ops, wp, wa := get("opsDone"), get("writesPending"), get("writesAchieved")
				sc := me.ApplyFunction(str("shouldCommit")).AsBool()
				in, out := sys.State.Get("in"), sys.State.Get("out")
				var choices []steplib.Choice
				branch := func(ceil int) int {
					var v uint64
					if len(ch) > 0 {
						v = ch[0]
					}
					b := int(v % uint64(ceil))
					if v >= 5 && ceil == 5 {
						// random walks: terminate rarely, write often (explicit schedules pass the branch 0..4 itself)
						switch w := v % 20; {
						case w == 0:
							b = 0
						case w < 5:
							b = 1
						case w < 12:
							b = 2
						case w < 14:
							b = 3
						default:
							b = 4
						}
					}
					choices = append(choices, steplib.Choice{ID: name + "." + pc, Ceiling: uint(ceil), Index: uint(b)})
					return b
				}
				commit := func(npc string) steplib.Obs {
					sys.State.Set("node", setf(nodes, num(n), steplib.Rec("pc", str(npc), "opsDone", num(ops), "writesPending", num(wp),
						"writesAchieved", num(wa), "shouldCommit", tla.MakeBool(sc))))
					sys.State.Set("in", in)
					sys.State.Set("out", out)
					o := sys.EnvObs(name, true, choices, nil)
					o.Label, o.PC = pc, npc
					return o
				}
				abort := func(outcome string) steplib.Obs {
					o := sys.EnvObs(name, false, choices, nil)
					o.Label, o.PC = pc, pc
					if outcome != "" {
						o.Outcome = outcome
					}
					return o
				}
				send := func(q tla.Value, npc string) steplib.Obs { in = setf(in, res, q); return commit(npc) }
				awaitAck := func(tpe string, then func() steplib.Obs) steplib.Obs {
					cellv := out.ApplyFunction(res)
					if cellv.Equal(empty) {
						return abort("")
					}
					if !cellv.ApplyFunction(str("tpe")).Equal(str(tpe)) {
						o := abort("error:assert")
						o.Err = "assertion failed: out[RESOURCE_OF(self)].tpe = " + tpe
						return o
					}
					out = setf(out, res, empty)
					return then()
				}
				switch pc {
				case "criticalSection":
					switch branch(5) {
					case 0:
						if sc {
							return abort("")
						}
						return commit("Done")
					case 1, 3:
						if ops >= numOps {
							return abort("")
						}
						ops++
						return commit("readReq")
					case 2:
						if ops >= numOps {
							return abort("")
						}
						ops++
						return commit("writeReq")
					default:
						if !sc {
							return abort("")
						}
						return commit("preCommitReq")
					}
				case "readReq":
					return send(steplib.Rec("tpe", str("read_req")), "readAck")
				case "readAck":
					return awaitAck("read_ack", func() steplib.Obs { sc = true; return commit("criticalSection") })
				case "abortReq":
					return send(steplib.Rec("tpe", str("abort_req")), "abortAck")
				case "abortAck":
					return awaitAck("abort_ack", func() steplib.Obs { wp = 0; sc = false; return commit("criticalSection") })
				case "writeReq":
					wp++
					return send(steplib.Rec("tpe", str("write_req"), "value", num(1)), "writeAck")
				case "writeAck":
					return awaitAck("write_ack", func() steplib.Obs { sc = true; return commit("criticalSection") })
				case "preCommitReq":
					return send(steplib.Rec("tpe", str("precommit_req")), "preCommitAck")
				case "preCommitAck":
					return awaitAck("precommit_ack", func() steplib.Obs {
						if branch(2) == 0 {
							if ops >= numOps {
								out = sys.State.Get("out") // the whole label is disabled: nothing changes
								return abort("")
							}
							ops++
							return commit("abortReq")
						}
						return commit("commitReq")
					})
				case "commitReq":
					return send(steplib.Rec("tpe", str("commit_req")), "commitAck")
				case "commitAck":
					return awaitAck("commit_ack", func() steplib.Obs { wa += wp; wp = 0; sc = false; return commit("criticalSection") })
				default: // Done
					o := abort("finished")
					return o
				}
			}})
		}
		return acts
	}
}
