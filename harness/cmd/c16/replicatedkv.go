package main

import (
	"fmt"

	"github.com/DistCompiler/pgo/distsys"
	"github.com/DistCompiler/pgo/distsys/tla"
	"github.com/DistCompiler/pgo/systems/replicatedkv"

	"verifharness/steplib"
)

// replicated_kv.tla (assertion-freedom walks only, no Coq model): replicasNetwork = [id \in ReplicaSet |-> <<>>],
// clientMailboxes = [id \in allClients |-> <<>>], clocks = [c \in ClientSet |-> 0], out = 0, per replica
// kv = [k \in KeySpace |-> NULL]. FIFOChannel on both networks, the four client-id macros, Identity elsewhere.
func init() {
	num := func(i int) tla.Value { return tla.MakeNumber(int32(i)) }
	builders["replicatedkv"] = func(cfg map[string]int) (*steplib.System, error) {
		nr, nc, b := cfg["NUM_REPLICAS"], cfg["NUM_CLIENTS"], cfg["BUFFER_SIZE"]
		getKey, putKey, null := tla.MakeString("getkey"), tla.MakeString("putkey"), tla.MakeString("NULL")
		var reps, allClients, clientSet []tla.Value
		for i := 0; i < nr; i++ {
			reps = append(reps, num(i))
		}
		for i := nr; i < nr+4*nc; i++ {
			allClients = append(allClients, num(i))
		}
		for i := nr; i < nr+nc; i++ {
			clientSet = append(clientSet, num(i))
		}
		init := map[string]tla.Value{
			"replicasNetwork": steplib.ConstFn(reps, tla.MakeTuple()),
			"clientMailboxes": steplib.ConstFn(allClients, tla.MakeTuple()),
			"clocks":          steplib.ConstFn(clientSet, num(0)),
			"cid":             num(0),
			"out":             num(0),
		}
		for i := 0; i < nr; i++ {
			init[fmt.Sprintf("kv%d", i)] = steplib.Fn(getKey, null, putKey, null)
		}
		sys := steplib.NewSystem(init)
		idMacro := func(order int) steplib.Macro { // read { yield self - (NUM_CLIENTS * ORDER) }  write { assert(FALSE) }
			return steplib.Macro{
				Read: func(a *steplib.Access) (tla.Value, error) {
					return tla.ModuleMinusSymbol(a.Self(), num(nc*order)), nil
				},
				Write: func(a *steplib.Access, v tla.Value) error {
					return fmt.Errorf("%w: FALSE (write to a client id)", distsys.ErrAssertionFailed)
				},
			}
		}
		consts := distsys.EnsureMPCalContextConfigs(
			distsys.DefineConstantValue("NUM_REPLICAS", num(nr)), distsys.DefineConstantValue("NUM_CLIENTS", num(nc)),
			distsys.DefineConstantValue("BUFFER_SIZE", num(b)),
			distsys.DefineConstantValue("DISCONNECT_MSG", num(1)), distsys.DefineConstantValue("GET_MSG", num(2)),
			distsys.DefineConstantValue("PUT_MSG", num(3)), distsys.DefineConstantValue("NULL_MSG", num(4)),
			distsys.DefineConstantValue("GET_RESPONSE", num(5)), distsys.DefineConstantValue("PUT_RESPONSE", num(6)),
			distsys.DefineConstantValue("NULL", null), distsys.DefineConstantValue("GET_KEY", getKey),
			distsys.DefineConstantValue("PUT_KEY", putKey), distsys.DefineConstantValue("PUT_VALUE", tla.MakeString("putvalue")))
		repNet := steplib.Binding{Param: "replicas", Var: "replicasNetwork", Depth: 1, Macro: steplib.FIFOLink(b)}
		cliNet := steplib.Binding{Param: "clients", Var: "clientMailboxes", Depth: 1, Macro: steplib.FIFOLink(b)}
		clock := steplib.Binding{Param: "clock", Var: "clocks", Depth: 1, Macro: steplib.Identity}
		outB := steplib.Binding{Param: "outside", Var: "out", Depth: 0, Macro: steplib.Identity}
		for i := 0; i < nr; i++ {
			sys.AddProc(fmt.Sprintf("rep%d", i), num(i), replicatedkv.AReplica, []steplib.Binding{
				cliNet, repNet, {Param: "kv", Var: fmt.Sprintf("kv%d", i), Depth: 1, Macro: steplib.Identity}}, consts)
		}
		spin := distsys.EnsureArchetypeValueParam("spin", tla.ModuleTRUE)
		for c := 0; c < nc; c++ {
			sys.AddProc(fmt.Sprintf("get%d", c), num(nr+c), replicatedkv.Get, []steplib.Binding{
				{Param: "clientId", Var: "cid", Depth: 0, Macro: idMacro(0)}, repNet, cliNet, clock, outB}, consts, spin,
				distsys.EnsureArchetypeValueParam("key", getKey))
			sys.AddProc(fmt.Sprintf("put%d", c), num(nr+nc+c), replicatedkv.Put, []steplib.Binding{
				{Param: "clientId", Var: "cid", Depth: 0, Macro: idMacro(1)}, repNet, cliNet, clock, outB}, consts, spin,
				distsys.EnsureArchetypeValueParam("key", putKey), distsys.EnsureArchetypeValueParam("value", tla.MakeString("putvalue")))
			if cfg["WITH_DISCONNECT"] != 0 {
				sys.AddProc(fmt.Sprintf("dis%d", c), num(nr+2*nc+c), replicatedkv.Disconnect, []steplib.Binding{
					{Param: "clientId", Var: "cid", Depth: 0, Macro: idMacro(2)}, repNet, clock}, consts)
			}
			sys.AddProc(fmt.Sprintf("clk%d", c), num(nr+3*nc+c), replicatedkv.ClockUpdate, []steplib.Binding{
				{Param: "clientId", Var: "cid", Depth: 0, Macro: idMacro(3)}, repNet, clock}, consts, spin)
		}
		return sys, nil
	}
}
