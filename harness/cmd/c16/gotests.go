package main

// The *.gotests programs of pgo/test/files/general (the compiler's own regression inputs) under steplib walks:
// hello, IndexingLocals, NonDetExploration, bug2_124, PBFail4_bug125, bug_119, ProcedureSpaghetti, ExprTests.
// Each archetype runs its real generated body; ref parameters are bound to spec-state variables through the
// mapping macros the .tla declares. Oracle (lib/c16_gotests.py): no failed assertion, no TLA+ type error, no crash,
// and the values each program is built to produce.

import (
	"fmt"

	"github.com/DistCompiler/pgo/distsys"
	"github.com/DistCompiler/pgo/distsys/tla"
	exprtests "github.com/DistCompiler/pgo/test/files/general/ExprTests.tla.gotests"
	indexinglocals "github.com/DistCompiler/pgo/test/files/general/IndexingLocals.tla.gotests"
	nondet "github.com/DistCompiler/pgo/test/files/general/NonDetExploration.tla.gotests"
	pbfail "github.com/DistCompiler/pgo/test/files/general/PBFail4_bug125.tla.gotests"
	procspag "github.com/DistCompiler/pgo/test/files/general/ProcedureSpaghetti.tla.gotests"
	bug2 "github.com/DistCompiler/pgo/test/files/general/bug2_124.tla.gotests"
	bug119 "github.com/DistCompiler/pgo/test/files/general/bug_119.tla.gotests"
	hello "github.com/DistCompiler/pgo/test/files/general/hello.tla.gotests"

	"verifharness/steplib"
)

func init() {
	num := func(i int) tla.Value { return tla.MakeNumber(int32(i)) }
	get := func(ch []uint64, i int) uint64 {
		if i < len(ch) {
			return ch[i]
		}
		return 0
	}

	// ---- hello.tla: archetype AHello(ref out) { lbl: out := HELLO; }  HELLO == MK_HELLO("hell", "o")
	builders["gt_hello"] = func(cfg map[string]int) (*steplib.System, error) {
		sys := steplib.NewSystem(map[string]tla.Value{"out": tla.Value{}})
		var op distsys.MPCalContextConfigFn
		switch cfg["VARIANT"] { // the three shapes of constant operator definition the runtime accepts
		case 1:
			op = distsys.DefineConstantOperator("MK_HELLO", func(args ...tla.Value) tla.Value {
				return tla.MakeString(args[0].AsString() + args[1].AsString())
			})
		case 2:
			op = distsys.DefineConstantOperator("MK_HELLO", func(l tla.Value, rest ...tla.Value) tla.Value {
				return tla.MakeString(l.AsString() + rest[0].AsString())
			})
		default:
			op = distsys.DefineConstantOperator("MK_HELLO", func(l, r tla.Value) tla.Value {
				return tla.MakeString(l.AsString() + r.AsString())
			})
		}
		sys.AddProc("hello", tla.MakeString("self"), hello.AHello,
			[]steplib.Binding{{Param: "out", Var: "out", Depth: 0, Macro: steplib.Identity}}, op)
		return sys, nil
	}

	// ---- IndexingLocals.tla: one archetype, locals only
	builders["gt_indexinglocals"] = func(cfg map[string]int) (*steplib.System, error) {
		sys := steplib.NewSystem(map[string]tla.Value{})
		sys.AddProc("node", num(1), indexinglocals.ANode, nil)
		return sys, nil
	}

	// ---- NonDetExploration.tla: Coverage = 1, Coincidence = 2, Complex = 3. TheSet == {1, 2}; the element a dictated
	// index selects is made observable as the constant pseudo-global "order" = <<SelectElement(0), SelectElement(1)>>.
	builders["gt_nondet"] = func(cfg map[string]int) (*steplib.System, error) {
		iface := distsys.NewMPCalContextWithoutArchetype().IFace()
		set := nondet.TheSet(iface)
		var order []tla.Value
		for i := 0; i < set.AsSet().Len(); i++ {
			order = append(order, set.SelectElement(uint(i)))
		}
		sys := steplib.NewSystem(map[string]tla.Value{"order": tla.MakeTuple(order...)})
		sys.AddProc("coverage", num(1), nondet.ACoverage, nil)
		sys.AddProc("coincidence", num(2), nondet.ACoincidence, nil)
		sys.AddProc("complex", num(3), nondet.AComplex, nil)
		return sys, nil
	}

	// ---- bug2_124.tla: AEchoServer(ref net[_]) over TCPChannel; network = [id \in 1..NUM_NODES, typ \in 1..4 |-> <<>>]
	netInit := func(n int) tla.Value {
		var keys []tla.Value
		for i := 1; i <= n; i++ {
			for t := 1; t <= 4; t++ {
				keys = append(keys, tla.MakeTuple(num(i), num(t)))
			}
		}
		return steplib.ConstFn(keys, tla.MakeTuple())
	}
	setAt := func(f tla.Value, k, v tla.Value) tla.Value {
		return tla.FunctionSubstitution(f, []tla.FunctionSubstitutionRecord{{Keys: []tla.Value{k}, Value: func(tla.Value) tla.Value { return v }}})
	}
	builders["gt_bug2_124"] = func(cfg map[string]int) (*steplib.System, error) {
		n, b := cfg["NUM_NODES"], cfg["BUFFER_SIZE"]
		sys := steplib.NewSystem(map[string]tla.Value{"network": netInit(n), "sent": num(0)})
		consts := distsys.EnsureMPCalContextConfigs(distsys.DefineConstantValue("NUM_NODES", num(n)), distsys.DefineConstantValue("BUFFER_SIZE", num(b)))
		for i := 1; i <= n; i++ {
			sys.AddProc(fmt.Sprintf("echo%d", i), num(i), bug2.AEchoServer,
				[]steplib.Binding{{Param: "net", Var: "network", Depth: 1, Macro: steplib.FIFOLink(b)}}, consts)
		}
		return sys, nil
	}
	// the spec has no client: the environment plays it (a request into some server's typ-1 queue; taking an answer out)
	envs["gt_bug2_124"] = func(cfg map[string]int) []steplib.EnvAction {
		n, b := cfg["NUM_NODES"], cfg["BUFFER_SIZE"]
		return []steplib.EnvAction{
			{Name: "request", Weight: 100, Run: func(sys *steplib.System, ch []uint64) steplib.Obs {
				dst, from, typ := int(get(ch, 0)%uint64(n))+1, int(get(ch, 1)%uint64(n))+1, int(get(ch, 2)%4)+1
				net := sys.State.Get("network")
				k := tla.MakeTuple(num(dst), num(1))
				q := net.ApplyFunction(k)
				picks := []interface{}{dst, from, typ}
				if q.AsTuple().Len() >= b {
					return sys.EnvObs("request", false, nil, picks)
				}
				body := sys.State.Get("sent")
				sys.State.Set("sent", tla.ModulePlusSymbol(body, num(1)))
				m := steplib.Rec("from", num(from), "to", num(dst), "body", body, "typ", num(typ))
				sys.State.Set("network", setAt(net, k, tla.ModuleAppend(q, m)))
				return sys.EnvObs("request", true, nil, picks)
			}},
			{Name: "take", Weight: 100, Run: func(sys *steplib.System, ch []uint64) steplib.Obs {
				dst, typ := int(get(ch, 0)%uint64(n))+1, int(get(ch, 1)%3)+2 // queues 2..4 are read by nobody in the spec
				net := sys.State.Get("network")
				k := tla.MakeTuple(num(dst), num(typ))
				q := net.ApplyFunction(k)
				picks := []interface{}{dst, typ}
				if q.AsTuple().Len() == 0 {
					return sys.EnvObs("take", false, nil, picks)
				}
				sys.State.Set("network", setAt(net, k, tla.ModuleTail(q)))
				return sys.EnvObs("take", true, nil, picks)
			}},
		}
	}

	// ---- PBFail4_bug125.tla: replicas 1..NUM_REPLICAS, clients NUM_REPLICAS+1..NUM_NODES; TCPChannel, FileSystem and
	// FailureDetector (both identity) mappings
	builders["gt_pbfail4"] = func(cfg map[string]int) (*steplib.System, error) {
		nr, nc, b := cfg["NUM_REPLICAS"], cfg["NUM_CLIENTS"], cfg["BUFFER_SIZE"]
		var nodes, fsKeys []tla.Value
		for i := 1; i <= nr+nc; i++ {
			nodes = append(nodes, num(i))
			fsKeys = append(fsKeys, tla.MakeTuple(num(i), tla.MakeString("KEY1")))
		}
		sys := steplib.NewSystem(map[string]tla.Value{
			"network": netInit(nr + nc),
			"fd":      steplib.ConstFn(nodes, tla.ModuleTRUE),
			"fs":      steplib.ConstFn(fsKeys, tla.MakeTuple()),
		})
		consts := distsys.EnsureMPCalContextConfigs(
			distsys.DefineConstantValue("BUFFER_SIZE", num(b)), distsys.DefineConstantValue("NUM_REPLICAS", num(nr)),
			distsys.DefineConstantValue("NUM_CLIENTS", num(nc)), distsys.DefineConstantValue("EXPLORE_FAIL", tla.ModuleFALSE))
		net := steplib.Binding{Param: "net", Var: "network", Depth: 1, Macro: steplib.FIFOLink(b)}
		fd := steplib.Binding{Param: "fd", Var: "fd", Depth: 1, Macro: steplib.Identity}
		fs := steplib.Binding{Param: "fs", Var: "fs", Depth: 1, Macro: steplib.Identity}
		for i := 1; i <= nr; i++ {
			sys.AddProc(fmt.Sprintf("rep%d", i), num(i), pbfail.AReplica, []steplib.Binding{net, fs, fd}, consts)
		}
		for i := nr + 1; i <= nr+nc; i++ {
			sys.AddProc(fmt.Sprintf("cli%d", i), num(i), pbfail.AClient, []steplib.Binding{net, fd}, consts)
		}
		return sys, nil
	}

	// ---- bug_119.tla: Counter(ref out) with procedure inc(self_, ref counter)
	builders["gt_bug_119"] = func(cfg map[string]int) (*steplib.System, error) {
		sys := steplib.NewSystem(map[string]tla.Value{"out": tla.Value{}})
		sys.AddProc("counter", tla.MakeString("1"), bug119.Counter,
			[]steplib.Binding{{Param: "out", Var: "out", Depth: 0, Macro: steplib.Identity}})
		return sys, nil
	}

	// ---- ProcedureSpaghetti.tla: Arch1(ref e, f) { call Proc1(ref e, f) }; Proc1 calls Proc2(ref a) then a := a + b.
	// Instances as in the spec's processes: V1 through mapping macro M (read: $variable + 1, write: $value - 1), or plain.
	builders["gt_procspaghetti"] = func(cfg map[string]int) (*steplib.System, error) {
		sys := steplib.NewSystem(map[string]tla.Value{"V1": num(cfg["E1"]), "V2": num(cfg["E2"])})
		m := steplib.Macro{
			Read:  func(a *steplib.Access) (tla.Value, error) { return tla.ModulePlusSymbol(a.Var(), num(1)), nil },
			Write: func(a *steplib.Access, v tla.Value) error { a.SetVar(tla.ModuleMinusSymbol(v, num(1))); return nil },
		}
		mac := steplib.Identity
		if cfg["MAPPED"] != 0 {
			mac = m
		}
		sys.AddProc("p1", num(1), procspag.Arch1, []steplib.Binding{{Param: "e", Var: "V1", Depth: 0, Macro: mac}},
			distsys.EnsureArchetypeValueParam("f", num(cfg["F1"])))
		sys.AddProc("p2", num(2), procspag.Arch1, []steplib.Binding{{Param: "e", Var: "V1", Depth: 0, Macro: steplib.Identity}},
			distsys.EnsureArchetypeValueParam("f", num(cfg["F2"])))
		sys.AddProc("p3", num(3), procspag.Arch1, []steplib.Binding{{Param: "e", Var: "V2", Depth: 0, Macro: steplib.Identity}},
			distsys.EnsureArchetypeValueParam("f", num(cfg["F3"])))
		return sys, nil
	}

	// ---- ExprTests.tla: its only archetype is ANothing { lbl: skip; } (the operators are C03/C05's subject)
	builders["gt_exprtests"] = func(cfg map[string]int) (*steplib.System, error) {
		sys := steplib.NewSystem(map[string]tla.Value{})
		sys.AddProc("nothing", num(0), exprtests.ANothing, nil)
		return sys, nil
	}
}
