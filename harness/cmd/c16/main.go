// c16: drives the generated archetypes of the small systems (dqueue, shcounter, loadbalancer, gcounter,
// proxy, ...) step by step (harness/steplib) over spec state.
//
// Input (stdin), one JSON case per line:
//
//	{"id": 3, "system": "dqueue", "cfg": {"NUM_CONSUMERS": 2, "BUFFER_SIZE": 2},
//	 "sched": [["producer", [k...]], ["c1", []], ...]}            explicit schedule (proc names)
//	{"id": 4, "system": "dqueue", "cfg": {...}, "auto": {"seed": 99, "steps": 60}}   seeded random walk
//	{"id": 5, "system": "live_shcounter", "cfg": {"NUM_NODES": 3, "RPC": 1}}            live run over the deployment resources (live.go)
//
// Output: one JSON line per case:
//
//	{"id":…, "system":…, "procs": [names], "pcs0": {name: label}, "init": <state>, "steps": [steplib.Obs…], "err": ""}
package main

import (
	"bufio"
	"encoding/json"
	"fmt"
	"os"

	"verifharness/steplib"
)

type kase struct {
	ID     int             `json:"id"`
	System string          `json:"system"`
	Cfg    map[string]int  `json:"cfg"`
	Sched  [][]interface{} `json:"sched"`
	Auto   *struct {
		Seed  uint64 `json:"seed"`
		Steps int    `json:"steps"`
	} `json:"auto"`
}

type result struct {
	ID     int                    `json:"id"`
	System string                 `json:"system"`
	Procs  []string               `json:"procs"`
	PCs0   map[string]string      `json:"pcs0"`
	Init   map[string]interface{} `json:"init"`
	Steps  []steplib.Obs          `json:"steps"`
	Err    string                 `json:"err"`
	Live   map[string]interface{} `json:"live,omitempty"` // live (deployment smoke) runs, see live.go
}

// builders: system name -> constructs the System (procs added, not started) for a configuration
var builders = map[string]func(cfg map[string]int) (*steplib.System, error){}

// stepHooks: system name -> a per-step hook (sees and may amend every observation; used to keep shadow state in step)
var stepHooks = map[string]func(cfg map[string]int, sys *steplib.System) func(*steplib.Obs){}

// envs: system name -> environment actions (spec processes that are not archetypes) for a configuration
var envs = map[string]func(cfg map[string]int) []steplib.EnvAction{}

func runCase(k kase) (res result) {
	res.ID, res.System = k.ID, k.System
	res.Steps = []steplib.Obs{}
	defer func() {
		if r := recover(); r != nil {
			res.Err = fmt.Sprint("harness panic: ", r)
		}
	}()
	if lr, ok := liveRunners[k.System]; ok {
		res.Live = lr(k.Cfg)
		return
	}
	b, ok := builders[k.System]
	if !ok {
		res.Err = "unknown system " + k.System
		return
	}
	sys, err := b(k.Cfg)
	if err != nil {
		res.Err = err.Error()
		return
	}
	defer sys.Close()
	if err := sys.Start(); err != nil {
		res.Err = err.Error()
		return
	}
	res.Procs = sys.Procs()
	res.Init = sys.State.Snapshot()
	res.PCs0 = map[string]string{}
	for _, n := range sys.Procs() {
		res.PCs0[n] = sys.PC(n)
	}
	var env []steplib.EnvAction
	if mk, ok := envs[k.System]; ok {
		env = mk(k.Cfg)
	}
	var hook func(*steplib.Obs)
	if mk, ok := stepHooks[k.System]; ok {
		hook = mk(k.Cfg, sys)
	}
	if k.Auto != nil {
		w := steplib.NewWalker(sys, k.Auto.Seed)
		w.OnStep = hook
		w.Env = env
		res.Steps = w.Walk(k.Auto.Steps)
		return
	}
	for _, ev := range k.Sched {
		name := ev[0].(string)
		var ch []uint64
		if len(ev) > 1 && ev[1] != nil {
			for _, x := range ev[1].([]interface{}) {
				ch = append(ch, uint64(x.(float64)))
			}
		}
		var ob steplib.Obs
		isEnv := false
		for _, e := range env {
			if e.Name == name {
				ob = e.Run(sys, ch)
				isEnv = true
			}
		}
		if !isEnv {
			ob = sys.Step(name, ch)
		}
		if hook != nil {
			hook(&ob)
		}
		res.Steps = append(res.Steps, ob)
		if len(ob.Outcome) >= 5 && ob.Outcome[:5] == "error" || ob.Outcome == "hang" {
			break
		}
	}
	return
}

func main() {
	in := bufio.NewReaderSize(os.Stdin, 1<<20)
	out := bufio.NewWriter(os.Stdout)
	defer out.Flush()
	dec := json.NewDecoder(in)
	enc := json.NewEncoder(out)
	for dec.More() {
		var k kase
		if err := dec.Decode(&k); err != nil {
			fmt.Fprintln(os.Stderr, "bad case:", err)
			os.Exit(2)
		}
		r := runCase(k)
		enc.Encode(r)
		if r.Live != nil && r.Live["exit"] == true {
			// a live run left goroutines behind (hang, or a Stop that did not return): do not let them disturb later cases
			out.Flush()
			os.Exit(0)
		}
	}
}
