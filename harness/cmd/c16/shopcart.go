package main

import (
	"fmt"

	"github.com/DistCompiler/pgo/distsys"
	"github.com/DistCompiler/pgo/distsys/resources"
	"github.com/DistCompiler/pgo/distsys/tla"
	"github.com/DistCompiler/pgo/systems/shopcart"

	"verifharness/steplib"
)

// shopcart.tla as instantiated by the spec: Node = ANodeBench(ref crdt[_], ref out, ref c[_]) with crdt[_] via
// AWORSet; ElemSet = 0..NumElems-1. The spec process UpdateCRDT (Merge + history union) is the environment
// action "merge".
func init() {
	num := func(i int) tla.Value { return tla.MakeNumber(int32(i)) }
	str := tla.MakeString
	builders["shopcart"] = func(cfg map[string]int) (*steplib.System, error) {
		n, rounds, ne := cfg["NumNodes"], cfg["BenchNumRounds"], cfg["NumElems"]
		var nodes, elemsV []tla.Value
		for i := 1; i <= n; i++ {
			nodes = append(nodes, num(i))
		}
		for e := 0; e < ne; e++ {
			elemsV = append(elemsV, num(e))
		}
		null := steplib.ConstFn(nodes, num(0))
		emptyMap := steplib.ConstFn(elemsV, null)
		sys := steplib.NewSystem(map[string]tla.Value{
			"crdt": steplib.ConstFn(nodes, steplib.Rec("addMap", emptyMap, "remMap", emptyMap)),
			"c":    steplib.ConstFn(nodes, tla.MakeSet()),
			"out":  tla.Value{},
		})
		aworset := aworsetMacro(null)
		consts := distsys.EnsureMPCalContextConfigs(
			distsys.DefineConstantValue("NumNodes", num(n)),
			distsys.DefineConstantValue("BenchNumRounds", num(rounds)),
			distsys.DefineConstantValue("ElemSet", tla.MakeSet(elemsV...)))
		for p := 1; p <= n; p++ {
			sys.AddProc(fmt.Sprintf("n%d", p), num(p), shopcart.ANodeBench, []steplib.Binding{
				{Param: "crdt", Var: "crdt", Depth: 1, Macro: aworset},
				{Param: "out", Var: "out", Depth: 0, Macro: steplib.Identity},
				{Param: "c", Var: "c", Depth: 1, Macro: steplib.Identity}}, consts)
		}
		return sys, nil
	}
	mergeEnv := func(withC bool) func(cfg map[string]int) []steplib.EnvAction {
		return func(cfg map[string]int) []steplib.EnvAction {
			n := cfg["NumNodes"]
			return []steplib.EnvAction{{Name: "merge", Weight: 150, Run: func(sys *steplib.System, ch []uint64) steplib.Obs {
				get := func(i int) uint64 {
					if i < len(ch) {
						return ch[i]
					}
					return 0
				}
				crdt := sys.State.Get("crdt")
				i1 := int(get(0)%uint64(n)) + 1
				v1 := num(i1)
				var cands []int
				for x := 1; x <= n; x++ {
					if !crdt.ApplyFunction(num(x)).Equal(crdt.ApplyFunction(v1)) {
						cands = append(cands, x)
					}
				}
				choices := []steplib.Choice{{ID: "merge.i1", Ceiling: uint(n), Index: uint(i1 - 1)}}
				if len(cands) == 0 {
					return sys.EnvObs("merge", false, choices, []interface{}{i1})
				}
				k := int(get(1) % uint64(len(cands)))
				i2 := cands[k]
				v2 := num(i2)
				choices = append(choices, steplib.Choice{ID: "merge.i2", Ceiling: uint(len(cands)), Index: uint(k)})
				am, rm := str("addMap"), str("remMap")
				mergeKeys := func(a, b tla.Value) map[string][]tla.RecordField { return nil }
				_ = mergeKeys
				r1, r2 := crdt.ApplyFunction(v1), crdt.ApplyFunction(v2)
				var addF, remF []tla.RecordField
				for _, e := range steplib.Keys(r1.ApplyFunction(am)) {
					var ak, rk []tla.RecordField
					for _, nd := range steplib.Keys(r1.ApplyFunction(am).ApplyFunction(e)) {
						mx := func(m tla.Value) tla.Value {
							a, b := r1.ApplyFunction(m).ApplyFunction(e).ApplyFunction(nd), r2.ApplyFunction(m).ApplyFunction(e).ApplyFunction(nd)
							if a.AsNumber() > b.AsNumber() {
								return a
							}
							return b
						}
						ak = append(ak, tla.RecordField{Key: nd, Value: mx(am)})
						rk = append(rk, tla.RecordField{Key: nd, Value: mx(rm)})
					}
					addk, remk := tla.MakeRecord(ak), tla.MakeRecord(rk)
					le := true // CompareVectorClock(addk[e], remk[e])
					for _, nd := range steplib.Keys(addk) {
						if addk.ApplyFunction(nd).AsNumber() > remk.ApplyFunction(nd).AsNumber() {
							le = false
						}
					}
					var nullF []tla.RecordField
					for _, nd := range steplib.Keys(addk) {
						nullF = append(nullF, tla.RecordField{Key: nd, Value: num(0)})
					}
					null := tla.MakeRecord(nullF)
					if le {
						addF = append(addF, tla.RecordField{Key: e, Value: null})
						remF = append(remF, tla.RecordField{Key: e, Value: remk})
					} else {
						addF = append(addF, tla.RecordField{Key: e, Value: addk})
						remF = append(remF, tla.RecordField{Key: e, Value: null})
					}
				}
				res := steplib.Rec("addMap", tla.MakeRecord(addF), "remMap", tla.MakeRecord(remF))
				set := func(f tla.Value, k, v tla.Value) tla.Value {
					return tla.FunctionSubstitution(f, []tla.FunctionSubstitutionRecord{{Keys: []tla.Value{k}, Value: func(tla.Value) tla.Value { return v }}})
				}
				sys.State.Set("crdt", set(set(crdt, v1, res), v2, res))
				if withC {
					c := sys.State.Get("c")
					cn := tla.ModuleUnionSymbol(c.ApplyFunction(v1), c.ApplyFunction(v2))
					sys.State.Set("c", set(set(c, v1, cn), v2, cn))
				}
				return sys.EnvObs("merge", true, choices, []interface{}{i1, i2})
			}}}
		}
	}
	envs["shopcart"] = mergeEnv(true)
	envs["shopnode"] = mergeEnv(false)

	// shopcart.tla's interactive archetype ANode(ref crdt[_], ref in, ref out) (the instance the spec leaves commented
	// out, used by the deployment): crdt[_] via AWORSet, in via InputQueue, out plain. The input queue holds INPUT
	// commands, decoded from the digits of cfg["INPUT"] base 2*NumElems, least significant first: digit d = cmd (d % 2:
	// 0 Add, 1 Remove) on element d / 2.
	builders["shopnode"] = func(cfg map[string]int) (*steplib.System, error) {
		n, ne, nin, code := cfg["NumNodes"], cfg["NumElems"], cfg["InputLen"], cfg["INPUT"]
		var nodes, elemsV, input []tla.Value
		for i := 1; i <= n; i++ {
			nodes = append(nodes, num(i))
		}
		for e := 0; e < ne; e++ {
			elemsV = append(elemsV, num(e))
		}
		for i := 0; i < nin; i++ {
			d := code % (2 * ne)
			code /= 2 * ne
			input = append(input, steplib.Rec("cmd", num(d%2+1), "elem", num(d/2)))
		}
		null := steplib.ConstFn(nodes, num(0))
		emptyMap := steplib.ConstFn(elemsV, null)
		sys := steplib.NewSystem(map[string]tla.Value{
			"crdt": steplib.ConstFn(nodes, steplib.Rec("addMap", emptyMap, "remMap", emptyMap)),
			"in":   tla.MakeTuple(input...),
			"out":  tla.Value{},
		})
		consts := distsys.EnsureMPCalContextConfigs(
			distsys.DefineConstantValue("NumNodes", num(n)),
			distsys.DefineConstantValue("BenchNumRounds", num(0)),
			distsys.DefineConstantValue("ElemSet", tla.MakeSet(elemsV...)))
		for p := 1; p <= n; p++ {
			sys.AddProc(fmt.Sprintf("n%d", p), num(p), shopcart.ANode, []steplib.Binding{
				{Param: "crdt", Var: "crdt", Depth: 1, Macro: aworsetMacro(null)},
				{Param: "in", Var: "in", Depth: 0, Macro: steplib.FIFOLink(-1)},
				{Param: "out", Var: "out", Depth: 0, Macro: steplib.Identity}}, consts)
		}
		return sys, nil
	}
}

// aworsetMacro is shopcart.tla's mapping macro AWORSet (read: Query($variable); write: the Add / Remove branches)
func aworsetMacro(null tla.Value) steplib.Macro {
	num := func(i int) tla.Value { return tla.MakeNumber(int32(i)) }
	str := tla.MakeString
	set := func(f tla.Value, keys []tla.Value, v tla.Value) tla.Value {
		return tla.FunctionSubstitution(f, []tla.FunctionSubstitutionRecord{{Keys: keys, Value: func(tla.Value) tla.Value { return v }}})
	}
	compare := func(v1, v2 tla.Value) bool { // \A i \in DOMAIN v1 : v1[i] <= v2[i]
		for _, k := range steplib.Keys(v1) {
			if v1.ApplyFunction(k).AsNumber() > v2.ApplyFunction(k).AsNumber() {
				return false
			}
		}
		return true
	}
	return steplib.Macro{
		Read: func(a *steplib.Access) (tla.Value, error) { // yield Query($variable)
			v := a.Var()
			am, rm := v.ApplyFunction(str("addMap")), v.ApplyFunction(str("remMap"))
			var out []tla.Value
			for _, e := range steplib.Keys(am) {
				if !compare(am.ApplyFunction(e), rm.ApplyFunction(e)) {
					out = append(out, e)
				}
			}
			return tla.MakeSet(out...), nil
		},
		Write: func(a *steplib.Access, val tla.Value) error {
			v := a.Var()
			self := a.Self()
			cmd, e := val.ApplyFunction(str("cmd")).AsNumber(), val.ApplyFunction(str("elem"))
			am, rm := str("addMap"), str("remMap")
			get := func(m tla.Value) tla.Value { return v.ApplyFunction(m).ApplyFunction(e) }
			first, second := am, rm
			if cmd == 2 {
				first, second = rm, am
			} else if cmd != 1 {
				return nil
			}
			switch {
			case !get(first).Equal(null):
				v = set(v, []tla.Value{first, e, self}, tla.ModulePlusSymbol(get(first).ApplyFunction(self), num(1)))
				v = set(v, []tla.Value{second, e}, null)
			case !get(second).Equal(null):
				v = set(v, []tla.Value{first, e, self}, tla.ModulePlusSymbol(get(second).ApplyFunction(self), num(1)))
				v = set(v, []tla.Value{second, e}, null)
			default:
				v = set(v, []tla.Value{first, e, self}, num(1))
			}
			a.SetVar(v)
			return nil
		},
	}
}

// Shadow of the shopnode system on the DEPLOYMENT's CRDT type: next to the spec-state crdt (the AWORSet mapping macro) one real
// resources.AWORSet value per node receives the same committed commands (Write with the node's id) and the same merges; after
// every step "shadow" = [node |-> Read()] is added to the observed state, for lib/c16_shopnode.py to compare with Query(crdt[node]).
func init() {
	stepHooks["shopnode"] = func(cfg map[string]int, sys *steplib.System) func(*steplib.Obs) {
		n := cfg["NumNodes"]
		num := func(i int) tla.Value { return tla.MakeNumber(int32(i)) }
		shadow := make([]resources.CRDTValue, n+1)
		for i := range shadow {
			shadow[i] = resources.AWORSet{}.Init()
		}
		prevIn := sys.State.Get("in")
		toInt := func(x interface{}) int {
			switch v := x.(type) {
			case int:
				return v
			case int32:
				return int(v)
			case float64:
				return int(v)
			}
			return -1
		}
		return func(ob *steplib.Obs) {
			if ob.Outcome == "commit" {
				if ob.Label == "ANode.nodeLoop" {
					var p int
					fmt.Sscanf(ob.Proc, "n%d", &p)
					if p >= 1 && p <= n && prevIn.AsTuple().Len() > 0 {
						shadow[p] = shadow[p].Write(num(p), prevIn.AsTuple().Get(0))
					}
				} else if ob.Proc == "merge" && len(ob.Picks) == 2 {
					i1, i2 := toInt(ob.Picks[0]), toInt(ob.Picks[1])
					if i1 >= 1 && i1 <= n && i2 >= 1 && i2 <= n {
						m := shadow[i1].Merge(shadow[i2])
						shadow[i1], shadow[i2] = m, m
					}
				}
			}
			prevIn = sys.State.Get("in")
			var kv []tla.Value
			for i := 1; i <= n; i++ {
				kv = append(kv, num(i), shadow[i].Read())
			}
			if ob.State != nil {
				ob.State["shadow"] = steplib.Enc(steplib.Fn(kv...))
			}
		}
	}
}
