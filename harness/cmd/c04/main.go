// c04: runs a real distsys.MPCalContext over a hand-built MPCalArchetype / MPCalProc table (following the
// code generator's conventions) whose label bodies interpret a small scripted language with
// call / return / tail call, and reports after every attempt: commit or abort, .pc, .stack and every
// watched variable, plus the values logged by the activations.
//
// stdin : one JSON case per line; stdout: one JSON result per line.
package main

import (
	"bufio"
	"encoding/json"
	"fmt"
	"io"
	"log"
	"os"
	"sort"
	"time"

	"bytes"
	"encoding/gob"

	"github.com/DistCompiler/pgo/distsys"
	"github.com/DistCompiler/pgo/distsys/resources"
	"github.com/DistCompiler/pgo/distsys/tla"
	"github.com/DistCompiler/pgo/distsys/trace"
)

func toTLA(j interface{}) tla.Value {
	switch x := j.(type) {
	case nil:
		return tla.Value{}
	case bool:
		return tla.MakeBool(x)
	case float64:
		return tla.MakeNumber(int32(x))
	case string:
		return tla.MakeString(x)
	case map[string]interface{}:
		if t, ok := x["t"]; ok {
			var elems []tla.Value
			for _, e := range t.([]interface{}) {
				elems = append(elems, toTLA(e))
			}
			return tla.MakeTuple(elems...)
		}
		if r, ok := x["r"]; ok {
			var fields []tla.RecordField
			for _, kv := range r.([]interface{}) {
				p := kv.([]interface{})
				fields = append(fields, tla.RecordField{Key: toTLA(p[0]), Value: toTLA(p[1])})
			}
			return tla.MakeRecord(fields)
		}
	}
	panic(fmt.Sprintf("bad value %v", j))
}

func fromTLA(v tla.Value) interface{} {
	v = v.StripVClock()
	switch {
	case v.IsBool():
		return v.AsBool()
	case v.IsNumber():
		return v.AsNumber()
	case v.IsString():
		return v.AsString()
	case v.IsTuple():
		elems := []interface{}{}
		it := v.AsTuple().Iterator()
		for !it.Done() {
			_, e := it.Next()
			elems = append(elems, fromTLA(e))
		}
		return map[string]interface{}{"t": elems}
	case v.IsFunction():
		type kv struct {
			ks string
			k  interface{}
			v  interface{}
		}
		var kvs []kv
		it := v.AsFunction().Iterator()
		for !it.Done() {
			k, e, _ := it.Next()
			jk := fromTLA(k)
			b, _ := json.Marshal(jk)
			kvs = append(kvs, kv{string(b), jk, fromTLA(e)})
		}
		sort.Slice(kvs, func(i, j int) bool { return kvs[i].ks < kvs[j].ks })
		out := []interface{}{}
		for _, p := range kvs {
			out = append(out, []interface{}{p.k, p.v})
		}
		return map[string]interface{}{"r": out}
	default:
		return nil
	}
}

type procDesc struct {
	Name  string          `json:"name"`
	Label string          `json:"label"`
	Vars  []string        `json:"vars"`
	Pre   [][]interface{} `json:"pre"` // [var, value]: the preamble writes
}

// a non-local resource bound to an archetype ref parameter (EnsureArchetypeRefParam): procedures reach it through
// by-reference parameters holding its name
type extDesc struct {
	Name  string        `json:"name"`
	Kind  string        `json:"kind"` // local | outchan | inchan
	Init  interface{}   `json:"init"`
	Items []interface{} `json:"items"`
}

type kase struct {
	Ext      []extDesc                `json:"ext"`
	ID       int                      `json:"id"`
	Procs    []procDesc               `json:"procs"`
	Labels   map[string][]interface{} `json:"labels"`
	Entry    string                   `json:"entry"`
	Locals   [][]interface{}          `json:"locals"`
	Watch    []string                 `json:"watch"`
	Aborts   []int                    `json:"aborts"`
	MaxSteps int                      `json:"maxsteps"`
}

type attemptResult struct {
	Out   int           `json:"out"` // 0 commit, 1 abort, 2 crash
	PC    interface{}   `json:"pc"`
	Stack interface{}   `json:"stack"`
	Vars  []interface{} `json:"vars"` // per watched variable: [value] or [] when the resource does not exist
	Ext   []interface{} `json:"ext"`  // per non-local resource: what can be seen of it
	Err   string        `json:"err,omitempty"`
}

type result struct {
	ID       int             `json:"id"`
	Log      []interface{}   `json:"log"`
	Attempts []attemptResult `json:"attempts"`
	Err      string          `json:"err,omitempty"`
}

type runner struct {
	k       kase
	aborts  map[int]bool
	cur     int
	results []attemptResult
	logv    []interface{}
	logMark int // log length at the start of the attempt (an aborted attempt's log entries are dropped)
	ctx     *distsys.MPCalContext
	extSnap []func() interface{}
}

var errStop = fmt.Errorf("step budget exhausted")

func (r *runner) readLocal(name string) (v []interface{}) {
	defer func() {
		if p := recover(); p != nil {
			v = []interface{}{}
		}
	}()
	return []interface{}{fromTLA(r.ctx.IFace().ReadArchetypeResourceLocal(name))}
}

func (r *runner) snapshot(a *attemptResult) {
	a.PC = fromTLA(r.ctx.IFace().ReadArchetypeResourceLocal(".pc"))
	a.Stack = fromTLA(r.ctx.IFace().ReadArchetypeResourceLocal(".stack"))
	a.Vars = []interface{}{}
	for _, w := range r.k.Watch {
		a.Vars = append(a.Vars, r.readLocal(w))
	}
	a.Ext = []interface{}{}
	for _, f := range r.extSnap {
		a.Ext = append(a.Ext, f())
	}
}

func (r *runner) eval(iface distsys.ArchetypeInterface, e []interface{}) (tla.Value, error) {
	switch e[0].(string) {
	case "c":
		return toTLA(e[1]), nil
	case "v":
		h := iface.RequireArchetypeResource(e[1].(string))
		return iface.Read(h, nil)
	case "add":
		v, err := r.eval(iface, e[1].([]interface{}))
		if err != nil {
			return v, err
		}
		return tla.ModulePlusSymbol(v, tla.MakeNumber(int32(e[2].(float64)))), nil
	case "deref":
		// the variable holds the name of the underlying resource (a by-reference parameter)
		h, err := iface.RequireArchetypeResourceRef(e[1].(string))
		if err != nil {
			return tla.Value{}, err
		}
		return iface.Read(h, nil)
	}
	panic("bad expr")
}

type termination struct{ err error }

// exec runs statements; returns (terminated, error)
func (r *runner) exec(iface distsys.ArchetypeInterface, stmts []interface{}) (bool, error) {
	for _, s0 := range stmts {
		s := s0.([]interface{})
		switch s[0].(string) {
		case "set":
			v, err := r.eval(iface, s[2].([]interface{}))
			if err != nil {
				return true, err
			}
			if err := iface.Write(iface.RequireArchetypeResource(s[1].(string)), nil, v); err != nil {
				return true, err
			}
		case "setref":
			v, err := r.eval(iface, s[2].([]interface{}))
			if err != nil {
				return true, err
			}
			h, err := iface.RequireArchetypeResourceRef(s[1].(string))
			if err != nil {
				return true, err
			}
			if err := iface.Write(h, nil, v); err != nil {
				return true, err
			}
		case "log":
			v, err := r.eval(iface, s[1].([]interface{}))
			if err != nil {
				return true, err
			}
			r.logv = append(r.logv, fromTLA(v))
		case "if":
			c := s[1].([]interface{})
			var b bool
			switch c[0].(string) {
			case "true":
				b = true
			case "eq0":
				v, err := r.eval(iface, c[1].([]interface{}))
				if err != nil {
					return true, err
				}
				b = v.Equal(tla.MakeNumber(0))
			}
			branch := s[3].([]interface{})
			if b {
				branch = s[2].([]interface{})
			}
			if t, err := r.exec(iface, branch); t {
				return t, err
			}
		case "call", "tail":
			ai := 3
			if s[0].(string) == "tail" {
				ai = 2
			}
			var args []tla.Value
			for _, a := range s[ai].([]interface{}) {
				v, err := r.eval(iface, a.([]interface{}))
				if err != nil {
					return true, err
				}
				args = append(args, v)
			}
			if s[0].(string) == "call" {
				return true, iface.Call(s[1].(string), s[2].(string), args...)
			}
			return true, iface.TailCall(s[1].(string), args...)
		case "ret":
			return true, iface.Return()
		case "goto":
			return true, iface.Goto(s[1].(string))
		case "done":
			return true, distsys.ErrDone
		default:
			panic("bad stmt")
		}
	}
	return false, nil
}

func (r *runner) body(label string) func(distsys.ArchetypeInterface) error {
	return func(iface distsys.ArchetypeInterface) error {
		if r.cur > 0 {
			r.snapshot(&r.results[r.cur-1])
		}
		if r.cur >= r.k.MaxSteps {
			return errStop
		}
		idx := r.cur
		r.results = append(r.results, attemptResult{Out: -1})
		r.cur++
		r.logMark = len(r.logv)
		t, err := r.exec(iface, r.k.Labels[label])
		if !t && err == nil {
			err = distsys.ErrProcedureFallthrough
		}
		if err == distsys.ErrDone {
			// the Done label: nothing was written in this attempt
			r.results = r.results[:len(r.results)-1]
			r.cur--
			return err
		}
		if err == nil && r.aborts[idx] {
			// a failure after the call/return statement: the whole label must be rolled back
			r.logv = r.logv[:r.logMark]
			return distsys.ErrCriticalSectionAborted
		}
		if err == distsys.ErrCriticalSectionAborted {
			r.logv = r.logv[:r.logMark] // a non-local resource refused (empty input channel)
		}
		return err
	}
}

type recorder struct{ r *runner }

func (rec recorder) RecordEvent(ev trace.Event) {
	r := rec.r
	if r.cur == 0 || r.cur > len(r.results) {
		return
	}
	if ev.IsAbort {
		r.results[r.cur-1].Out = 1
	} else {
		r.results[r.cur-1].Out = 0
	}
}

func runCase(k kase) (res result) {
	res.ID = k.ID
	r := &runner{k: k, aborts: map[int]bool{}}
	for _, a := range k.Aborts {
		r.aborts[a] = true
	}
	var sections []distsys.MPCalCriticalSection
	for name := range k.Labels {
		sections = append(sections, distsys.MPCalCriticalSection{Name: name, Body: r.body(name)})
	}
	var procs []distsys.MPCalProc
	for _, p := range k.Procs {
		p := p
		procs = append(procs, distsys.MPCalProc{Name: p.Name, Label: p.Label, StateVars: p.Vars,
			PreAmble: func(iface distsys.ArchetypeInterface) error {
				for _, w := range p.Pre {
					// a local's initialiser is a constant or an expression over the procedure's parameters
					var v tla.Value
					if e, ok := w[1].([]interface{}); ok {
						var err error
						if v, err = r.eval(iface, e); err != nil {
							return err
						}
					} else {
						v = toTLA(w[1])
					}
					if err := iface.Write(iface.RequireArchetypeResource(w[0].(string)), nil, v); err != nil {
						return err
					}
				}
				return nil
			}})
	}
	arch := distsys.MPCalArchetype{
		Name: "A", Label: k.Entry,
		JumpTable: distsys.MakeMPCalJumpTable(sections...),
		ProcTable: distsys.MakeMPCalProcTable(procs...),
		PreAmble: func(iface distsys.ArchetypeInterface) {
			for _, l := range k.Locals {
				iface.EnsureArchetypeResourceLocal(l[0].(string), toTLA(l[1]))
			}
		},
	}
	cfg := []distsys.MPCalContextConfigFn{distsys.SetTraceRecorder(recorder{r})}
	for _, e := range k.Ext {
		e := e
		switch e.Kind {
		case "local":
			l := distsys.NewLocalArchetypeResource(toTLA(e.Init))
			cfg = append(cfg, distsys.EnsureArchetypeRefParam(e.Name, l))
			r.extSnap = append(r.extSnap, func() interface{} {
				st, err := l.GetState()
				if err != nil {
					panic(err)
				}
				var v tla.Value
				if err := gob.NewDecoder(bytes.NewBuffer(st)).Decode(&v); err != nil {
					panic(err)
				}
				return fromTLA(v)
			})
		case "outchan":
			ch := make(chan tla.Value, 4096)
			seen := []interface{}{}
			cfg = append(cfg, distsys.EnsureArchetypeRefParam(e.Name, resources.NewOutputChan(ch)))
			r.extSnap = append(r.extSnap, func() interface{} {
				for {
					select {
					case v := <-ch:
						seen = append(seen, fromTLA(v))
						continue
					default:
					}
					break
				}
				return map[string]interface{}{"t": append([]interface{}{}, seen...)}
			})
		case "inchan":
			ch := make(chan tla.Value, 1024)
			for _, it := range e.Items {
				ch <- toTLA(it)
			}
			cfg = append(cfg, distsys.EnsureArchetypeRefParam(e.Name, resources.NewInputChan(ch, resources.WithInputChanReadTimeout(3*time.Millisecond))))
			r.extSnap = append(r.extSnap, func() interface{} { return nil })
		default:
			panic("unknown non-local resource kind " + e.Kind)
		}
		arch.RequiredRefParams = append(arch.RequiredRefParams, "A."+e.Name)
	}
	r.ctx = distsys.NewMPCalContext(tla.MakeString("self"), arch, cfg...)
	done := make(chan struct{})
	var runErr error
	var panicked interface{}
	go func() {
		defer close(done)
		defer func() {
			if p := recover(); p != nil {
				panicked = p
			}
		}()
		runErr = r.ctx.Run()
	}()
	select {
	case <-done:
	case <-time.After(20 * time.Second):
		res.Err = "hang"
		return
	}
	if runErr == errStop {
		runErr = nil
		res.Err = "budget"
	}
	if panicked != nil || runErr != nil {
		if len(r.results) > 0 && r.results[len(r.results)-1].Out == -1 {
			last := &r.results[len(r.results)-1]
			last.Out = 2
			r.logv = r.logv[:r.logMark] // what a dying attempt logged is not compared
			if panicked != nil {
				last.Err = fmt.Sprint(panicked)
			} else {
				last.Err = runErr.Error()
			}
			r.snapshot(last)
		} else if panicked != nil {
			res.Err = fmt.Sprint(panicked)
		} else {
			res.Err = runErr.Error()
		}
	}
	res.Attempts = r.results
	res.Log = r.logv
	if res.Log == nil {
		res.Log = []interface{}{}
	}
	return
}

func main() {
	log.SetOutput(io.Discard)
	in := bufio.NewReaderSize(os.Stdin, 1<<20)
	out := bufio.NewWriter(os.Stdout)
	defer out.Flush()
	dec := json.NewDecoder(in)
	enc := json.NewEncoder(out)
	for dec.More() {
		var k kase
		if err := dec.Decode(&k); err != nil {
			fmt.Fprintln(os.Stderr, "bad case:", err)
			os.Exit(2)
		}
		resCh := make(chan result, 1)
		go func() {
			defer func() {
				if p := recover(); p != nil {
					resCh <- result{ID: k.ID, Err: "harness panic: " + fmt.Sprint(p)}
				}
			}()
			resCh <- runCase(k)
		}()
		var res result
		select {
		case res = <-resCh:
		case <-time.After(40 * time.Second):
			res = result{ID: k.ID, Err: "hang"}
		}
		enc.Encode(res)
		out.Flush()
	}
}
