// probe (temporary): relaxed mailbox reorder under back-pressure
package main

import (
	"fmt"
	"io"
	"log"
	"net"
	"strings"
	"time"

	"github.com/DistCompiler/pgo/distsys"
	"github.com/DistCompiler/pgo/distsys/resources"
	"github.com/DistCompiler/pgo/distsys/tla"
)

func freeAddr() string {
	l, err := net.Listen("tcp", "127.0.0.1:0")
	if err != nil {
		panic(err)
	}
	a := l.Addr().String()
	l.Close()
	return a
}

func main() {
	log.SetOutput(io.Discard)
	addr := freeAddr()
	opts := []resources.MailboxesOption{resources.WithMailboxesReceiveChanSize(1), resources.WithMailboxesWriteTimeout(50 * time.Millisecond),
		resources.WithMailboxesReadTimeout(50 * time.Millisecond), resources.WithMailboxesDialTimeout(50 * time.Millisecond)}
	recvBox := resources.NewRelaxedMailboxes(func(tla.Value) (resources.MailboxKind, string) { return resources.MailboxesLocal, addr }, opts...)
	sendBox := resources.NewRelaxedMailboxes(func(tla.Value) (resources.MailboxKind, string) { return resources.MailboxesRemote, addr }, opts...)
	iface := distsys.NewMPCalContextWithoutArchetype().IFace()
	idx := tla.MakeNumber(1)
	rres, _ := recvBox.Index(iface, idx)
	sres, _ := sendBox.Index(iface, idx)
	pad := strings.Repeat("x", 256*1024)
	var sent []int
	failedAt := -1
	for i := 0; i < 200; i++ {
		v := tla.MakeTuple(tla.MakeNumber(int32(i)), tla.MakeString(pad))
		err := sres.WriteValue(iface, v)
		if err != nil {
			// section aborts (nothing sent), retry the same value once
			if ch := sres.Abort(iface); ch != nil {
				<-ch
			}
			failedAt = i
			err = sres.WriteValue(iface, v)
			if err != nil {
				fmt.Println("retry failed too", err)
				break
			}
			sres.Commit(iface)
			sent = append(sent, i)
			break
		}
		sres.Commit(iface)
		sent = append(sent, i)
	}
	fmt.Println("sent", len(sent), "failedAt", failedAt)
	time.Sleep(100 * time.Millisecond)
	var got []int
	for {
		v, err := rres.ReadValue(iface)
		if err != nil {
			break
		}
		rres.Commit(iface)
		got = append(got, int(v.StripVClock().ApplyFunction(tla.MakeNumber(1)).AsNumber()))
	}
	fmt.Println("got ", got)
	fmt.Println("sent", sent)
}
