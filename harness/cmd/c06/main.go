// c06: drives the message links of the runtime from ONE driver thread over loopback sockets / Go channels.
//
//	kind "tcp"     resources.NewTCPMailboxes: one local mailbox (receiver) and nsend remote handles (senders), each its own Mailboxes/IncMap
//	kind "relaxed" resources.NewRelaxedMailboxes, same shape
//	kind "chan"    one Go channel of capacity cap read through resources.InputChan (or raftkvs.CustomInChan when "custom");
//	               sender i is an OutputChan ("out") or plain Go code writing to the channel ("prod")
//
// Input (stdin), one JSON case per line:
//
//	{"id":1,"kind":"tcp","nsend":2,"cap":1,"read_ms":20,"write_ms":40,"dial_ms":100,"custom":false,"senders":["out","prod"],
//	 "ops":[["w",0,1001],["pc",0],["c",0],["a",0],["r"],["rc"],["ra"],["len"],["waitq",1],["p",1,2001],["big",0,5]]}
//
// Output: {"id":1,"res":[{"st":"ok|abort|tick|pending|full|skip|hang|panic:..","v":..}],"commit_resend":false,"err":""}
package main

import (
	"bufio"
	"bytes"
	"encoding/json"
	"fmt"
	"log"
	"math/rand"
	"net"
	"os"
	"runtime"
	"strings"
	"time"

	"github.com/DistCompiler/pgo/distsys"
	"github.com/DistCompiler/pgo/distsys/resources"
	"github.com/DistCompiler/pgo/distsys/tla"
	"github.com/DistCompiler/pgo/systems/raftkvs"
)

type kase struct {
	ID      int             `json:"id"`
	Kind    string          `json:"kind"`
	NSend   int             `json:"nsend"`
	Cap     int             `json:"cap"`
	ReadMs  float64         `json:"read_ms"`
	WriteMs float64         `json:"write_ms"`
	DialMs  float64         `json:"dial_ms"`
	Custom  bool            `json:"custom"`
	Senders []string        `json:"senders"`
	Ops     [][]interface{} `json:"ops"`
	OStress *ostress        `json:"ostress"`
	Slow    float64         `json:"slow"` // re-check runs: every time-out and settling delay multiplied by this factor
}

type opRes struct {
	St   string      `json:"st"`
	V    interface{} `json:"v"`
	Conn string      `json:"conn,omitempty"` // the sender's connection a successful write went through
}

type ostress struct {
	Sections int   `json:"sections"`
	Seed     int64 `json:"seed"`
	MaxLen   int   `json:"maxlen"` // values per section: 3..maxlen (default 8)
	Raw      bool  `json:"raw"` // the consumer is plain Go code polling the channel (as a client of an OutputChan is), not an InputChan
}

type result struct {
	Sent         []int   `json:"sent,omitempty"`
	Got          []int   `json:"got,omitempty"`
	ID           int     `json:"id"`
	Res          []opRes `json:"res"`
	CommitResend bool    `json:"commit_resend"`
	Err          string  `json:"err"`
}

var hangDur = 3 * time.Second

func ms(x float64) time.Duration { return time.Duration(x * float64(time.Millisecond)) }

func withDeadline(f func() opRes) opRes {
	ch := make(chan opRes, 1)
	go func() {
		defer func() {
			if r := recover(); r != nil {
				ch <- opRes{St: fmt.Sprintf("panic:%v", r)}
			}
		}()
		ch <- f()
	}()
	select {
	case r := <-ch:
		return r
	case <-time.After(hangDur):
		return opRes{St: "hang"}
	}
}

func freeAddr() string {
	l, err := net.Listen("tcp", "127.0.0.1:0")
	if err != nil {
		panic(err)
	}
	a := l.Addr().String()
	l.Close()
	return a
}

// a message: number, or (for the large-value cases) a pair <<number, padding>>
func mkMsg(n int, padKB int) tla.Value {
	if padKB == 0 {
		return tla.MakeNumber(int32(n))
	}
	return tla.MakeTuple(tla.MakeNumber(int32(n)), tla.MakeString(strings.Repeat("x", padKB*1024)))
}

func msgNum(v tla.Value) interface{} {
	v = v.StripVClock()
	if v.IsNumber() {
		return int(v.AsNumber())
	}
	if v.IsTuple() && v.AsTuple().Len() == 2 {
		return int(v.AsTuple().Get(0).AsNumber())
	}
	if v.IsBool() {
		return fmt.Sprintf("bool:%v", v.AsBool())
	}
	return fmt.Sprintf("?%v", v)
}

func isAbort(err error) bool { return err == distsys.ErrCriticalSectionAborted }

type party struct {
	top  distsys.ArchetypeResource // what PreCommit / Commit / Abort are called on (the IncMap, or the channel resource)
	leaf func() (distsys.ArchetypeResource, error)
	// OutputChan commit in flight
	commitCh chan struct{}
	// what MPCalContext would allow next: "" (nothing written) | "written" | "pcok"
	state string
}

// what MPCalContext.abort() does after a resource operation returned ErrCriticalSectionAborted
func (p *party) abortNow(iface distsys.ArchetypeInterface) {
	if p.top != nil {
		if ch := p.top.Abort(iface); ch != nil {
			<-ch
		}
	}
	p.state = ""
}

func waitCh(ch chan struct{}, d time.Duration) bool {
	if ch == nil {
		return true
	}
	select {
	case <-ch:
		return true
	case <-time.After(d):
		return false
	}
}

// OutputChan -> bounded Go channel -> InputChan with a genuinely concurrent consumer: the producer context commits
// sections of 3-8 values (waiting for each Commit, as MPCalContext does), the consumer context reads and commits one
// value at a time with random tiny pauses, so the channel keeps filling and draining in the middle of commits.
func runOStress(k kase) (out result) {
	out.ID = k.ID
	goCh := make(chan tla.Value, k.Cap)
	o := resources.NewOutputChan(goCh)
	in := resources.NewInputChan(goCh, resources.WithInputChanReadTimeout(ms(k.ReadMs)))
	pi := distsys.NewMPCalContextWithoutArchetype().IFace()
	ci := distsys.NewMPCalContextWithoutArchetype().IFace()
	rng := rand.New(rand.NewSource(k.OStress.Seed))
	var sent []int
	n := 0
	var plan [][]int
	for s := 0; s < k.OStress.Sections; s++ {
		var sec []int
		span := 6
		if k.OStress.MaxLen > 3 {
			span = k.OStress.MaxLen - 2
		}
		for j := 0; j < 3+rng.Intn(span); j++ {
			sec = append(sec, n)
			n++
		}
		plan = append(plan, sec)
		sent = append(sent, sec...)
	}
	out.Sent = sent
	prodDone := make(chan string, 1)
	go func() {
		defer func() {
			if r := recover(); r != nil {
				prodDone <- fmt.Sprintf("panic: %v", r)
			}
		}()
		prng := rand.New(rand.NewSource(k.OStress.Seed + 1))
		for _, sec := range plan {
			for _, m := range sec {
				if err := o.WriteValue(pi, tla.MakeNumber(int32(m))); err != nil {
					prodDone <- err.Error()
					return
				}
			}
			if prng.Intn(10) == 0 { // a section that aborts now and then: its values must never show up
				o.Abort(pi)
				for _, m := range sec {
					o.WriteValue(pi, tla.MakeNumber(int32(m)))
				}
			}
			if ch := o.Commit(pi); ch != nil {
				<-ch
			}
		}
		prodDone <- ""
	}()
	crng := rand.New(rand.NewSource(k.OStress.Seed + 2))
	deadline := time.Now().Add(20 * time.Second)
	if k.OStress.Raw {
		finished := false
		spins := 0
		for time.Now().Before(deadline) {
			select {
			case v := <-goCh:
				out.Got = append(out.Got, int(v.StripVClock().AsNumber()))
				spins = 0
				continue
			default:
			}
			spins++
			if spins%64 == 0 {
				if !finished {
					select {
					case e := <-prodDone:
						finished = true
						if e != "" {
							out.Err = e
						}
					default:
					}
				} else if spins > 200000 {
					return
				}
				if crng.Intn(8) == 0 {
					runtime.Gosched()
				}
			}
		}
		out.Err = "hang"
		return
	}
	idle := 0
	for len(out.Got) < len(sent)+8 && time.Now().Before(deadline) {
		v, err := in.ReadValue(ci)
		if err != nil {
			in.Abort(ci)
			idle++
			select {
			case e := <-prodDone:
				if e != "" {
					out.Err = e
				}
				prodDone <- e
				if idle >= 2 {
					return
				}
			default:
			}
			continue
		}
		idle = 0
		in.Commit(ci)
		out.Got = append(out.Got, int(v.StripVClock().AsNumber()))
		switch crng.Intn(6) {
		case 0:
			runtime.Gosched()
		case 1:
			time.Sleep(time.Duration(crng.Intn(30)) * time.Microsecond)
		}
	}
	if time.Now().After(deadline) {
		out.Err = "hang"
	}
	return
}

func runCase(k kase) (out result) {
	if k.Slow > 1 {
		k.ReadMs *= k.Slow
		k.WriteMs *= k.Slow
		k.DialMs *= k.Slow
	} else {
		k.Slow = 1
	}
	hangDur = time.Duration(3*k.Slow) * time.Second
	if k.OStress != nil {
		return runOStress(k)
	}
	out.ID = k.ID
	var logBuf bytes.Buffer
	log.SetOutput(&logBuf)
	defer func() {
		if r := recover(); r != nil {
			out.Err = fmt.Sprintf("harness panic: %v", r)
		}
		if strings.Contains(logBuf.String(), "network error during commit") {
			out.CommitResend = true
		}
	}()
	iface := distsys.NewMPCalContextWithoutArchetype().IFace()
	idx := tla.MakeNumber(1)
	var recv party
	var recvLeaf distsys.ArchetypeResource
	var lenRes distsys.ArchetypeResource
	senders := make([]*party, k.NSend)
	var goCh chan tla.Value
	var closers []func()
	switch k.Kind {
	case "tcp", "relaxed":
		addr := freeAddr()
		opts := []resources.MailboxesOption{resources.WithMailboxesReceiveChanSize(k.Cap), resources.WithMailboxesReadTimeout(ms(k.ReadMs)),
			resources.WithMailboxesWriteTimeout(ms(k.WriteMs)), resources.WithMailboxesDialTimeout(ms(k.DialMs))}
		mk := resources.NewTCPMailboxes
		if k.Kind == "relaxed" {
			mk = resources.NewRelaxedMailboxes
		}
		rbox := mk(func(tla.Value) (resources.MailboxKind, string) { return resources.MailboxesLocal, addr }, opts...)
		var err error
		recvLeaf, err = rbox.Index(iface, idx) // creates the listener
		if err != nil {
			out.Err = err.Error()
			return
		}
		if ch := rbox.Commit(iface); ch != nil {
			<-ch
		}
		recv = party{top: rbox, leaf: func() (distsys.ArchetypeResource, error) { return rbox.Index(iface, idx) }}
		lenBox := resources.NewMailboxesLength(rbox)
		lenRes = lenBox
		for i := range senders {
			sbox := mk(func(tla.Value) (resources.MailboxKind, string) { return resources.MailboxesRemote, addr }, opts...)
			senders[i] = &party{top: sbox, leaf: func() (distsys.ArchetypeResource, error) { return sbox.Index(iface, idx) }}
			closers = append(closers, func() { sbox.Close() })
		}
		closers = append(closers, func() {
			// tcpMailboxesLocal.Close sleeps 500 ms; do not wait for it
			go rbox.Close()
		})
	case "chan":
		goCh = make(chan tla.Value, k.Cap)
		var in distsys.ArchetypeResource
		if k.Custom {
			in = raftkvs.NewCustomInChan(goCh, ms(k.ReadMs))
		} else {
			in = resources.NewInputChan(goCh, resources.WithInputChanReadTimeout(ms(k.ReadMs)))
		}
		recvLeaf = in
		recv = party{top: in, leaf: func() (distsys.ArchetypeResource, error) { return in, nil }}
		for i := range senders {
			if k.Senders[i] == "out" {
				o := resources.NewOutputChan(goCh)
				senders[i] = &party{top: o, leaf: func() (distsys.ArchetypeResource, error) { return o, nil }}
			} else {
				senders[i] = &party{}
			}
		}
	default:
		out.Err = "bad kind"
		return
	}
	defer func() {
		for _, sp := range senders {
			if sp != nil && sp.commitCh != nil && k.Kind != "chan" {
				// a Commit that is still retrying: closing the listener would turn its retry loop into a busy loop
				// (dial fails at once); leave everything open, the process is short-lived
				return
			}
		}
		for _, c := range closers {
			c()
		}
	}()
	hung := false
	lenDirty := false
	waitqMissed := false
	for _, op := range k.Ops {
		if hung {
			out.Res = append(out.Res, opRes{St: "skip"})
			continue
		}
		name := op[0].(string)
		var r opRes
		if name == "w" || name == "big" || name == "pc" || name == "c" || name == "a" {
			// an OutputChan commit still in flight: MPCalContext would still be inside commit(); give it a moment
			if sp := senders[int(op[1].(float64))]; sp.commitCh != nil && waitCh(sp.commitCh, 30*time.Millisecond) {
				sp.commitCh = nil
			}
		}
		switch name {
		case "fill", "burst": // sections of one value each, back to back, until something aborts: [["fill", s, first, count, padKB]]
			s := senders[int(op[1].(float64))]
			first, count, pad := int(op[2].(float64)), int(op[3].(float64)), int(op[4].(float64))
			var log [][]interface{}
			r = withDeadline(func() opRes {
				for i := first; i < first+count; i++ {
					leaf, err := s.leaf()
					if err != nil {
						return opRes{St: "err:" + err.Error()}
					}
					if err = leaf.WriteValue(iface, mkMsg(i, pad)); err != nil {
						if !isAbort(err) {
							return opRes{St: "err:" + err.Error()}
						}
						s.abortNow(iface)
						log = append(log, []interface{}{i, "wabort"})
						break
					}
					if ch := s.top.PreCommit(iface); ch != nil {
						if err = <-ch; err != nil {
							if !isAbort(err) {
								return opRes{St: "err:" + err.Error()}
							}
							s.abortNow(iface)
							log = append(log, []interface{}{i, "pcabort"})
							break
						}
					}
					if ch := s.top.Commit(iface); !waitCh(ch, time.Duration(4*k.WriteMs)*time.Millisecond+50*time.Millisecond) {
						s.commitCh = ch
						log = append(log, []interface{}{i, "pending", resources.VerifC06SenderConn(leaf)})
						break
					}
					log = append(log, []interface{}{i, "ok", resources.VerifC06SenderConn(leaf)})
				}
				return opRes{St: "ok", V: log}
			})
		case "w", "big": // WriteValue on sender s
			s := senders[int(op[1].(float64))]
			n := int(op[2].(float64))
			pad := 0
			if name == "big" {
				pad = int(op[3].(float64))
			}
			if s.commitCh != nil {
				r = opRes{St: "skip"}
				break
			}
			r = withDeadline(func() opRes {
				leaf, err := s.leaf()
				if err != nil {
					return opRes{St: "err:" + err.Error()}
				}
				err = leaf.WriteValue(iface, mkMsg(n, pad))
				if err == nil {
					s.state = "written"
					return opRes{St: "ok", Conn: resources.VerifC06SenderConn(leaf)}
				}
				if isAbort(err) {
					s.abortNow(iface)
					return opRes{St: "abort"}
				}
				return opRes{St: "err:" + err.Error()}
			})
		case "pc":
			s := senders[int(op[1].(float64))]
			if s.state != "written" || s.commitCh != nil {
				r = opRes{St: "skip"}
				break
			}
			r = withDeadline(func() opRes {
				ch := s.top.PreCommit(iface)
				var err error
				if ch != nil {
					err = <-ch
				}
				if err == nil {
					s.state = "pcok"
					return opRes{St: "ok"}
				}
				if isAbort(err) {
					s.abortNow(iface)
					return opRes{St: "abort"}
				}
				return opRes{St: "err:" + err.Error()}
			})
		case "c": // Commit; an OutputChan commit may stay pending while the channel is full
			s := senders[int(op[1].(float64))]
			need := "pcok"
			if k.Kind != "tcp" {
				need = "written"
			}
			if s.commitCh != nil || s.state != need {
				r = opRes{St: "skip"}
				break
			}
			s.state = ""
			ch := s.top.Commit(iface)
			// Commit may legitimately take as long as it needs (MPCalContext waits for it): the driver gives it a
			// moment and otherwise goes on with the other parties ("pending"), as a sender context stuck in
			// commit() while the receiver keeps running would
			wait := 30 * time.Millisecond
			if k.Kind != "chan" {
				wait = time.Duration(4*k.WriteMs)*time.Millisecond + 50*time.Millisecond
			}
			if waitCh(ch, wait) {
				r = opRes{St: "ok"}
			} else {
				s.commitCh = ch
				r = opRes{St: "pending"}
			}
		case "cw": // wait again for a pending OutputChan commit
			s := senders[int(op[1].(float64))]
			if s.commitCh == nil {
				r = opRes{St: "skip"}
			} else if waitCh(s.commitCh, 30*time.Millisecond) {
				s.commitCh = nil
				r = opRes{St: "ok"}
			} else {
				r = opRes{St: "pending"}
			}
		case "a":
			s := senders[int(op[1].(float64))]
			if s.commitCh != nil || (k.Kind == "relaxed" && s.state == "written") {
				r = opRes{St: "skip"} // cannot abort a committing OutputChan / a relaxed section that has sent
				break
			}
			r = withDeadline(func() opRes {
				s.abortNow(iface)
				return opRes{St: "ok"}
			})
		case "p": // plain Go producer
			select {
			case goCh <- tla.MakeNumber(int32(op[2].(float64))):
				r = opRes{St: "ok"}
			default:
				r = opRes{St: "full"}
			}
		case "r":
			r = withDeadline(func() opRes {
				leaf, err := recv.leaf()
				if err != nil {
					return opRes{St: "err:" + err.Error()}
				}
				v, err := leaf.ReadValue(iface)
				if err == nil {
					n := msgNum(v)
					if s, ok := n.(string); ok && s == "bool:true" {
						return opRes{St: "tick"}
					}
					return opRes{St: "ok", V: n}
				}
				if isAbort(err) {
					// MPCalContext.abort(): the receiver's section is rolled back (reads in progress go back to the backlog)
					if ch := recv.top.Abort(iface); ch != nil {
						<-ch
					}
					if lenDirty {
						if ch := lenRes.Abort(iface); ch != nil {
							<-ch
						}
						lenDirty = false
					}
					return opRes{St: "abort"}
				}
				return opRes{St: "err:" + err.Error()}
			})
		case "rc":
			if ch := recv.top.Commit(iface); ch != nil {
				<-ch
			}
			if lenDirty {
				if ch := lenRes.Commit(iface); ch != nil {
					<-ch
				}
				lenDirty = false
			}
			r = opRes{St: "ok"}
		case "ra":
			if ch := recv.top.Abort(iface); ch != nil {
				<-ch
			}
			if lenDirty {
				if ch := lenRes.Abort(iface); ch != nil {
					<-ch
				}
				lenDirty = false
			}
			r = opRes{St: "ok"}
		case "len":
			r = withDeadline(func() opRes {
				sub, err := lenRes.Index(iface, idx)
				if err != nil {
					return opRes{St: "err:" + err.Error()}
				}
				v, err := sub.ReadValue(iface)
				if err != nil {
					return opRes{St: "err:" + err.Error()}
				}
				// the length resource is part of the receiver's section: it is committed / aborted with it ("rc" / "ra"),
				// as MPCalContext does with every dirty resource, not after each read
				lenDirty = true
				return opRes{St: "ok", V: int(v.StripVClock().AsNumber())}
			})
		case "waitq": // wait until the receive queue holds n records (hand-over from the handlers is asynchronous)
			want := int(op[1].(float64))
			// generous: settling must never decide anything by itself. Once the script's expectation has been missed
			// (the implementation legitimately took a time-out the script's author did not foresee) later waits are short.
			wd := 10 * time.Second
			if waitqMissed {
				wd = time.Duration(150*k.Slow) * time.Millisecond
			}
			deadline := time.Now().Add(wd)
			r = opRes{St: "timeout"}
			for time.Now().Before(deadline) {
				var n int
				if k.Kind == "chan" {
					n = len(goCh)
				} else {
					n, _ = resources.VerifC06Queued(recvLeaf)
				}
				if n == want {
					r = opRes{St: "ok", V: n}
					break
				}
				r.V = n
				time.Sleep(200 * time.Microsecond)
			}
			if r.St != "ok" {
				waitqMissed = true
			}
		case "quiesce":
			// handlers that are about to block in `msgChannel <- batch` offer no condition to wait on
			// (len(msgChannel) is already at its capacity): give them a moment to get there
			time.Sleep(time.Duration(3*k.Slow) * time.Millisecond)
			r = opRes{St: "ok"}
		default:
			r = opRes{St: "err:bad op"}
		}
		if r.St == "hang" {
			hung = true
		}
		out.Res = append(out.Res, r)
	}
	return
}

func main() {
	in := bufio.NewReaderSize(os.Stdin, 1<<20)
	outw := bufio.NewWriter(os.Stdout)
	defer outw.Flush()
	dec := json.NewDecoder(in)
	enc := json.NewEncoder(outw)
	hungCases := 0
	for dec.More() {
		var k kase
		if err := dec.Decode(&k); err != nil {
			fmt.Fprintln(os.Stderr, "bad case:", err)
			os.Exit(2)
		}
		if hungCases >= 15 {
			enc.Encode(result{ID: k.ID, Err: "not run: 15 earlier cases blocked forever"})
			continue
		}
		r := runCase(k)
		for _, x := range r.Res {
			if x.St == "hang" {
				hungCases++
				break
			}
		}
		enc.Encode(r)
		outw.Flush()
	}
}
