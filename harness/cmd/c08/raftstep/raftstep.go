// Package raftstep drives the REAL generated raftkvs archetypes (systems/raftkvs/raftkvs.go) step by step with
// harness/steplib over spec state, implementing the mapping macros of raftkvs.tla:
// ReliableFIFOLink, NetworkBufferLength, NetworkToggle, UnreliableFD, PersistentLog, Channel, LeaderTimeout,
// ClientTimeout, RequestsChannel.
//
// network[d] = [queue |-> <<m1, m2, ...>> (send order), enabled |-> BOOLEAN]. The spec keeps a bag; the generated code
// never looks inside the value, so the order is extra information used only to offer per-link FIFO delivery
// (fifo = true: the dictated position must have no earlier message of the same (msource, sender archetype) link;
// fifo = false: any position, the spec's bag).
//
// Protocol (one JSON object per line on stdin, one per line on stdout):
//
//	{"cmd":"new","n":3,"nc":2,"buf":4,"fifo":true,"explorefail":true,"crashers":[1,2],"keys":2,"vals":2}
//	     -> {"ok":true,"procs":[...],"state":{...all globals...}}
//	{"cmd":"step","proc":"s1.0","choices":[0,1]} -> observation (see Out)
//	{"cmd":"case","id":7, <fields of new>, "sched":[["s1.0",[0,1]],...]} -> {"id":7,"init":{...},"steps":[Out...]}
//	{"cmd":"close"}
//
// Procs: "s<i>.0" AServer, ".1" AServerRequestVote, ".2" AServerAppendEntries, ".3" AServerAdvanceCommitIndex,
// ".4" AServerBecomeLeader of server i; "c<j>" client j (self = 6n+j); "x<i>" crasher of server i (self = 5n+i).
// Choice vector = the values returned, in consultation order, by the fairness counter: branches of `either` in the
// body, and the choices of the mapping macros (ids "m.net.read" position in the queue, "m.netLen" value, "m.fd" 0=FALSE
// 1=TRUE, "m.lt" 0=TRUE 1=FALSE, "m.tmo" 0=TRUE 1=FALSE, "m.ch" 0=pop 1=empty, "m.req" index into AllReqs).
package raftstep

import (
	"bufio"
	"encoding/json"
	"fmt"
	"io"
	"log"
	"os"
	"time"

	"github.com/DistCompiler/pgo/distsys"
	"github.com/DistCompiler/pgo/distsys/tla"
	"github.com/DistCompiler/pgo/systems/raftkvs"
	"github.com/DistCompiler/pgo/systems/raftkvs/bootstrap"
	"github.com/DistCompiler/pgo/systems/raftkvs/configs"
	"github.com/dgraph-io/badger/v3"

	"verifharness/steplib"
)

type Params struct {
	N           int   `json:"n"`
	NC          int   `json:"nc"`
	Buf         int   `json:"buf"`
	Fifo        bool  `json:"fifo"`
	ExploreFail bool  `json:"explorefail"`
	Crashers    []int `json:"crashers"`
	Keys        int   `json:"keys"`
	Vals        int   `json:"vals"`
	// Wiring: the 12 per-server shared variables (state, currentTerm, log, commitIndex, nextIndex, matchIndex, votedFor,
	// votesResponded, votesGranted, leader, sm, smDomain) are NOT spec-state resources but the very resources that
	// systems/raftkvs/bootstrap.newServerCtxs wires up for the five archetypes of each server (LocalShared views, persistence
	// wrappers when Persist is set), obtained through the add-only verif hooks bootstrap.VerifServerCtxs and
	// distsys.VerifArchetypeResource. Network, fd, timers, channels stay spec-state resources.
	Wiring  bool `json:"wiring"`
	Persist bool `json:"persist"`
}

type Cmd struct {
	Cmd string `json:"cmd"`
	ID  int    `json:"id"`
	Params
	Proc    string          `json:"proc"`
	Choices []uint64        `json:"choices"`
	Sched   [][]interface{} `json:"sched"`
	Full    bool            `json:"full"` // step: always send the complete state
}

// Out is the compact observation of one step.
type Out struct {
	Proc    string                 `json:"proc"`
	Label   string                 `json:"label"`
	Outcome string                 `json:"outcome"`
	Err     string                 `json:"err,omitempty"`
	PC      string                 `json:"pc"`
	Choices [][3]interface{}       `json:"ch"`               // [id, ceiling, index]
	Elems   []steplib.Elem         `json:"elems,omitempty"`  // clients only
	Locals  map[string]interface{} `json:"locals"`           // locals of this proc
	State   map[string]interface{} `json:"state"`            // globals whose value changed since the previous observation
	Wiring  []string               `json:"wiring,omitempty"` // wiring mode: reads of a shared variable that did not return the last committed write
}

func num(i int) tla.Value { return tla.MakeNumber(int32(i)) }

func msgClass(m tla.Value) int {
	switch m.ApplyFunction(tla.MakeString("mtype")).AsString() {
	case "rvq":
		return 1
	case "apq":
		return 2
	case "rvp", "app":
		return 0
	case "cpq", "cgq":
		return 6
	case "cpp", "cgp":
		if m.ApplyFunction(tla.MakeString("msuccess")).AsBool() {
			return 3
		}
		return 0
	}
	return 9
}

func sameLink(a, b tla.Value) bool {
	return a.ApplyFunction(tla.MakeString("msource")).Equal(b.ApplyFunction(tla.MakeString("msource"))) && msgClass(a) == msgClass(b)
}

func netRec(queue tla.Value, enabled tla.Value) tla.Value {
	return steplib.Rec("queue", queue, "enabled", enabled)
}

func tupleElems(t tla.Value) []tla.Value {
	var out []tla.Value
	it := t.AsTuple().Iterator()
	for !it.Done() {
		_, e := it.Next()
		out = append(out, e)
	}
	return out
}

type macros struct {
	p    Params
	reqs []tla.Value
}

// mapping macro ReliableFIFOLink
func (mc *macros) link() steplib.Macro {
	return steplib.Macro{
		Read: func(a *steplib.Access) (tla.Value, error) {
			v := a.Var()
			if !v.ApplyFunction(tla.MakeString("enabled")).AsBool() {
				return tla.Value{}, fmt.Errorf("%w: ($variable).enabled", distsys.ErrAssertionFailed)
			}
			q := tupleElems(v.ApplyFunction(tla.MakeString("queue")))
			if len(q) == 0 {
				return tla.Value{}, distsys.ErrCriticalSectionAborted
			}
			k := int(a.Choose("m.net.read", uint(len(q))))
			if mc.p.Fifo {
				for j := 0; j < k; j++ {
					if sameLink(q[j], q[k]) {
						return tla.Value{}, fmt.Errorf("harness: position %d is not deliverable under per-link FIFO", k)
					}
				}
			}
			rest := append(append([]tla.Value(nil), q[:k]...), q[k+1:]...)
			a.SetVar(netRec(tla.MakeTuple(rest...), v.ApplyFunction(tla.MakeString("enabled"))))
			return q[k], nil
		},
		Write: func(a *steplib.Access, val tla.Value) error {
			v := a.Var()
			if !v.ApplyFunction(tla.MakeString("enabled")).AsBool() {
				return distsys.ErrCriticalSectionAborted
			}
			q := v.ApplyFunction(tla.MakeString("queue"))
			if q.AsTuple().Len() >= mc.p.Buf {
				return distsys.ErrCriticalSectionAborted
			}
			a.SetVar(netRec(tla.ModuleAppend(q, val), v.ApplyFunction(tla.MakeString("enabled"))))
			return nil
		},
	}
}

// mapping macro NetworkBufferLength
func (mc *macros) netLen() steplib.Macro {
	return steplib.Macro{
		Read: func(a *steplib.Access) (tla.Value, error) {
			card := a.Var().ApplyFunction(tla.MakeString("queue")).AsTuple().Len()
			return num(int(a.Choose("m.netLen", uint(card+1)))), nil
		},
		Write: func(a *steplib.Access, val tla.Value) error {
			return fmt.Errorf("%w: FALSE (write to netLen)", distsys.ErrAssertionFailed)
		},
	}
}

// mapping macro NetworkToggle
func (mc *macros) toggle() steplib.Macro {
	return steplib.Macro{
		Read: func(a *steplib.Access) (tla.Value, error) {
			return a.Var().ApplyFunction(tla.MakeString("enabled")), nil
		},
		Write: func(a *steplib.Access, val tla.Value) error {
			a.SetVar(netRec(a.Var().ApplyFunction(tla.MakeString("queue")), val))
			return nil
		},
	}
}

// mapping macro UnreliableFD: read { either { yield FALSE } or { yield TRUE } }
func (mc *macros) ufd() steplib.Macro {
	return steplib.Macro{
		Read: func(a *steplib.Access) (tla.Value, error) {
			return tla.MakeBool(a.Choose("m.fd", 2) == 1), nil
		},
		Write: func(a *steplib.Access, val tla.Value) error { a.SetVar(val); return nil },
	}
}

// mapping macros LeaderTimeout / ClientTimeout: read { either { yield TRUE } or { yield FALSE } }
func (mc *macros) ltimeout() steplib.Macro {
	return steplib.Macro{
		Read: func(a *steplib.Access) (tla.Value, error) {
			return tla.MakeBool(a.Choose("m.lt", 2) == 0), nil
		},
		Write: func(a *steplib.Access, val tla.Value) error { a.SetVar(val); return nil },
	}
}
func (mc *macros) ctimeout() steplib.Macro {
	return steplib.Macro{
		Read: func(a *steplib.Access) (tla.Value, error) {
			return tla.MakeBool(a.Choose("m.tmo", 2) == 0), nil
		},
		Write: func(a *steplib.Access, val tla.Value) error {
			return fmt.Errorf("%w: FALSE (write to timeout)", distsys.ErrAssertionFailed)
		},
	}
}

// mapping macro Channel
func (mc *macros) channel() steplib.Macro {
	return steplib.Macro{
		Read: func(a *steplib.Access) (tla.Value, error) {
			q := a.Var()
			if a.Choose("m.ch", 2) == 0 {
				if q.AsTuple().Len() == 0 {
					return tla.Value{}, distsys.ErrCriticalSectionAborted
				}
				a.SetVar(tla.ModuleTail(q))
				return tla.ModuleHead(q), nil
			}
			if q.AsTuple().Len() != 0 {
				return tla.Value{}, distsys.ErrCriticalSectionAborted
			}
			return tla.ModuleTRUE, nil
		},
		Write: func(a *steplib.Access, val tla.Value) error {
			a.SetVar(tla.ModuleAppend(a.Var(), val))
			return nil
		},
	}
}

// mapping macro RequestsChannel: read { with (req \in AllReqs) yield req }
func (mc *macros) requests() steplib.Macro {
	return steplib.Macro{
		Read: func(a *steplib.Access) (tla.Value, error) {
			if len(mc.reqs) == 0 {
				return tla.Value{}, distsys.ErrCriticalSectionAborted
			}
			return mc.reqs[a.Choose("m.req", uint(len(mc.reqs)))], nil
		},
		Write: func(a *steplib.Access, val tla.Value) error {
			return fmt.Errorf("%w: FALSE (write to reqCh)", distsys.ErrAssertionFailed)
		},
	}
}

// mapping macro PersistentLog
func (mc *macros) plog(logConcat, logPop tla.Value) steplib.Macro {
	return steplib.Macro{
		Read: func(a *steplib.Access) (tla.Value, error) { return a.Var(), nil },
		Write: func(a *steplib.Access, val tla.Value) error {
			c := val.ApplyFunction(tla.MakeString("cmd"))
			if c.Equal(logConcat) {
				a.SetVar(tla.ModuleOSymbol(a.Var(), val.ApplyFunction(tla.MakeString("entries"))))
			} else if c.Equal(logPop) {
				cur := a.Var()
				a.SetVar(tla.ModuleSubSeq(cur, num(1), tla.ModuleMinusSymbol(tla.ModuleLen(cur), val.ApplyFunction(tla.MakeString("cnt")))))
			}
			return nil
		},
	}
}

var sharedVars = []string{"state", "currentTerm", "log", "commitIndex", "nextIndex", "matchIndex", "votedFor",
	"votesResponded", "votesGranted", "leader", "sm", "smDomain"}

// Session is one running system.
type Session struct {
	P     Params
	Sys   *steplib.System
	prev  map[string]string
	procs []string
	// wiring mode
	shared  map[string]map[int]tla.Value // variable -> server -> last committed value (by any archetype of that server)
	db      *badger.DB
	scratch string
}

func key(i int) tla.Value { return tla.MakeString(fmt.Sprintf("k%d", i)) }
func val(i int) tla.Value { return tla.MakeString(fmt.Sprintf("v%d", i)) }

// AllReqs in a fixed order: Put(k,v) for k, v ascending, then Get(k)
func allReqs(p Params) []tla.Value {
	var out []tla.Value
	for k := 1; k <= p.Keys; k++ {
		for v := 1; v <= p.Vals; v++ {
			out = append(out, steplib.Rec("type", tla.MakeString("put"), "key", key(k), "value", val(v)))
		}
	}
	for k := 1; k <= p.Keys; k++ {
		out = append(out, steplib.Rec("type", tla.MakeString("get"), "key", key(k)))
	}
	return out
}

func NewSession(p Params) (*Session, error) {
	n := p.N
	var servers, nodes []tla.Value
	for i := 1; i <= n; i++ {
		servers = append(servers, num(i))
		nodes = append(nodes, num(i))
	}
	for j := 1; j <= p.NC; j++ {
		nodes = append(nodes, num(6*n+j))
	}
	constants := []distsys.MPCalContextConfigFn{
		distsys.DefineConstantValue("NumServers", num(n)),
		distsys.DefineConstantValue("NumClients", num(p.NC)),
		distsys.DefineConstantValue("ExploreFail", tla.MakeBool(p.ExploreFail)),
		distsys.DefineConstantValue("Debug", tla.ModuleFALSE),
		raftkvs.PersistentLogConstantDefs, raftkvs.LeaderTimeoutConstantDefs,
	}
	iface := distsys.NewMPCalContextWithoutArchetype(constants...).IFace()
	logConcat, logPop := iface.GetConstant("LogConcat")(), iface.GetConstant("LogPop")()
	blInit := tla.MakeTuple()
	if n <= 1 {
		blInit = tla.MakeTuple(tla.ModuleTRUE)
	}
	emptyFn := tla.MakeRecord(nil)
	initShared := map[string]tla.Value{
		"state":          raftkvs.Follower(iface),
		"currentTerm":    num(1),
		"commitIndex":    num(0),
		"nextIndex":      steplib.ConstFn(servers, num(1)),
		"matchIndex":     steplib.ConstFn(servers, num(0)),
		"log":            tla.MakeTuple(),
		"votedFor":       raftkvs.Nil(iface),
		"votesResponded": tla.MakeSet(),
		"votesGranted":   tla.MakeSet(),
		"leader":         raftkvs.Nil(iface),
		"sm":             emptyFn,
		"smDomain":       raftkvs.KeySet(iface),
	}
	globals := map[string]tla.Value{
		"network":         steplib.ConstFn(nodes, netRec(tla.MakeTuple(), tla.ModuleTRUE)),
		"fd":              steplib.ConstFn(servers, tla.ModuleFALSE),
		"plog":            steplib.ConstFn(servers, tla.MakeTuple()),
		"leaderTimeout":   tla.ModuleTRUE,
		"appendEntriesCh": steplib.ConstFn(servers, tla.MakeTuple()),
		"becomeLeaderCh":  steplib.ConstFn(servers, blInit),
		"reqCh":           tla.Value{},
		"respCh":          tla.Value{},
		"timeout":         tla.ModuleFALSE,
	}
	if !p.Wiring {
		for v, init := range initShared {
			globals[v] = steplib.ConstFn(servers, init)
		}
	}
	sys := steplib.NewSystem(globals)
	sys.Timeout = 20e9
	mc := &macros{p: p, reqs: allReqs(p)}
	id := steplib.Identity
	s := &Session{P: p, Sys: sys, prev: map[string]string{}}
	var donors map[int][]*distsys.MPCalContext
	if p.Wiring {
		log.SetOutput(io.Discard)
		s.shared = map[string]map[int]tla.Value{}
		for v, init := range initShared {
			s.shared[v] = map[int]tla.Value{}
			for i := 1; i <= n; i++ {
				s.shared[v][i] = init
			}
		}
		root := configs.Root{
			NumServers: n, NumClients: p.NC, Persist: p.Persist,
			FD:                        configs.FD{PullInterval: time.Hour, Timeout: 20 * time.Millisecond},
			Mailboxes:                 configs.Mailboxes{ReceiveChanSize: 10, DialTimeout: 20 * time.Millisecond, ReadTimeout: 20 * time.Millisecond, WriteTimeout: 20 * time.Millisecond},
			LeaderElection:            configs.LeaderElection{Timeout: time.Hour, TimeoutOffset: time.Second},
			AppendEntriesSendInterval: time.Hour,
			SharedResourceTimeout:     500 * time.Millisecond,
			InputChanReadTimeout:      10 * time.Millisecond,
			Servers:                   map[int]configs.Server{},
			Clients:                   map[int]configs.Client{},
		}
		for i := 1; i <= n; i++ {
			root.Servers[i] = configs.Server{MailboxAddr: "127.0.0.1:1", MonitorAddr: "127.0.0.1:1"}
		}
		if p.Persist {
			s.scratch = fmt.Sprintf("/var/tmp/verif-%d/c08-badger-%d", os.Getpid(), time.Now().UnixNano())
			if err := os.MkdirAll(s.scratch, 0o755); err != nil {
				return nil, err
			}
			db, err := badger.Open(badger.DefaultOptions(s.scratch).WithLogger(nil))
			if err != nil {
				return nil, err
			}
			s.db = db
		}
		donors = map[int][]*distsys.MPCalContext{}
		for i := 1; i <= n; i++ {
			donors[i] = bootstrap.VerifServerCtxs(i, root, s.db)
			if len(donors[i]) != 5 {
				return nil, fmt.Errorf("bootstrap built %d contexts for server %d, expected 5", len(donors[i]), i)
			}
		}
	}
	srvBinds := []steplib.Binding{
		{Param: "net", Var: "network", Depth: 1, Macro: mc.link()},
		{Param: "netLen", Var: "network", Depth: 1, Macro: mc.netLen()},
		{Param: "netEnabled", Var: "network", Depth: 1, Macro: mc.toggle()},
		{Param: "fd", Var: "fd", Depth: 1, Macro: mc.ufd()},
		{Param: "state", Var: "state", Depth: 1, Macro: id},
		{Param: "currentTerm", Var: "currentTerm", Depth: 1, Macro: id},
		{Param: "log", Var: "log", Depth: 1, Macro: id},
		{Param: "plog", Var: "plog", Depth: 1, Macro: mc.plog(logConcat, logPop)},
		{Param: "commitIndex", Var: "commitIndex", Depth: 1, Macro: id},
		{Param: "nextIndex", Var: "nextIndex", Depth: 1, Macro: id},
		{Param: "matchIndex", Var: "matchIndex", Depth: 1, Macro: id},
		{Param: "votedFor", Var: "votedFor", Depth: 1, Macro: id},
		{Param: "votesResponded", Var: "votesResponded", Depth: 1, Macro: id},
		{Param: "votesGranted", Var: "votesGranted", Depth: 1, Macro: id},
		{Param: "leader", Var: "leader", Depth: 1, Macro: id},
		{Param: "sm", Var: "sm", Depth: 1, Macro: id},
		{Param: "smDomain", Var: "smDomain", Depth: 1, Macro: id},
		{Param: "leaderTimeout", Var: "leaderTimeout", Depth: 0, Macro: mc.ltimeout()},
		{Param: "appendEntriesCh", Var: "appendEntriesCh", Depth: 1, Macro: mc.channel()},
		{Param: "becomeLeaderCh", Var: "becomeLeaderCh", Depth: 1, Macro: mc.channel()},
	}
	archs := []distsys.MPCalArchetype{raftkvs.AServer, raftkvs.AServerRequestVote, raftkvs.AServerAppendEntries,
		raftkvs.AServerAdvanceCommitIndex, raftkvs.AServerBecomeLeader}
	isShared := map[string]bool{}
	for _, v := range sharedVars {
		isShared[v] = true
	}
	if p.Wiring {
		var envBinds []steplib.Binding
		for _, b := range srvBinds {
			if !isShared[b.Param] {
				envBinds = append(envBinds, b)
			}
		}
		srvBinds = envBinds
	}
	for i := 1; i <= n; i++ {
		for k, arch := range archs {
			name := fmt.Sprintf("s%d.%d", i, k)
			extra := append([]distsys.MPCalContextConfigFn{distsys.EnsureArchetypeValueParam("srvId", num(i))}, constants...)
			if p.Wiring {
				// the shared variables of this archetype instance are the resources the bootstrap package wired for it
				if donors[i][k].Archetype().Name != arch.Name {
					return nil, fmt.Errorf("bootstrap context %d of server %d is %s, expected %s", k, i, donors[i][k].Archetype().Name, arch.Name)
				}
				for _, v := range sharedVars {
					res := distsys.VerifArchetypeResource(donors[i][k], "&"+arch.Name+"."+v)
					if res == nil {
						return nil, fmt.Errorf("bootstrap did not bind %s.%s for server %d", arch.Name, v, i)
					}
					extra = append(extra, distsys.EnsureArchetypeRefParam(v, res))
				}
			}
			sys.AddProc(name, num(i+k*n), arch, srvBinds, extra...)
			s.procs = append(s.procs, name)
		}
	}
	for j := 1; j <= p.NC; j++ {
		name := fmt.Sprintf("c%d", j)
		sys.AddProc(name, num(6*n+j), raftkvs.AClient, []steplib.Binding{
			{Param: "net", Var: "network", Depth: 1, Macro: mc.link()},
			{Param: "netLen", Var: "network", Depth: 1, Macro: mc.netLen()},
			{Param: "fd", Var: "fd", Depth: 1, Macro: mc.ufd()},
			{Param: "reqCh", Var: "reqCh", Depth: 0, Macro: mc.requests()},
			{Param: "respCh", Var: "respCh", Depth: 0, Macro: id},
			{Param: "timeout", Var: "timeout", Depth: 0, Macro: mc.ctimeout()},
		}, constants...)
		s.procs = append(s.procs, name)
	}
	for _, i := range p.Crashers {
		name := fmt.Sprintf("x%d", i)
		extra := append([]distsys.MPCalContextConfigFn{distsys.EnsureArchetypeValueParam("srvId", num(i))}, constants...)
		sys.AddProc(name, num(5*n+i), raftkvs.AServerCrasher, []steplib.Binding{
			{Param: "netEnabled", Var: "network", Depth: 1, Macro: mc.toggle()},
			{Param: "fd", Var: "fd", Depth: 1, Macro: mc.ufd()},
		}, extra...)
		s.procs = append(s.procs, name)
	}
	if err := sys.Start(); err != nil {
		sys.Close()
		return nil, err
	}
	return s, nil
}

func (s *Session) delta(full bool) map[string]interface{} {
	snap := s.Sys.State.Snapshot()
	if s.P.Wiring {
		for _, v := range sharedVars {
			var pairs []tla.Value
			for i := 1; i <= s.P.N; i++ {
				pairs = append(pairs, num(i), s.shared[v][i])
			}
			snap[v] = steplib.Enc(steplib.Fn(pairs...))
		}
	}
	out := map[string]interface{}{}
	for k, v := range snap {
		t := steplib.Text(v)
		if full || s.prev[k] != t {
			out[k] = v
		}
		s.prev[k] = t
	}
	return out
}

func (s *Session) Step(proc string, choices []uint64, full bool) Out {
	obs := s.Sys.Step(proc, choices)
	o := Out{Proc: proc, Label: obs.Label, Outcome: obs.Outcome, Err: obs.Err, PC: obs.PC, Locals: obs.Locals}
	o.Choices = [][3]interface{}{}
	for _, c := range obs.Choices {
		o.Choices = append(o.Choices, [3]interface{}{c.ID, c.Ceiling, c.Index})
	}
	if len(proc) > 0 && proc[0] == 'c' {
		o.Elems = obs.Elems
	}
	if s.P.Wiring {
		o.Wiring = s.checkWiring(obs)
	}
	o.State = s.delta(full)
	return o
}

// checkWiring: every read of a shared variable of server i by any archetype must return the last value committed to it by
// ANY archetype of server i (or what this attempt wrote itself); committed writes update that value.
func (s *Session) checkWiring(obs steplib.Obs) []string {
	var bad []string
	type key struct {
		v string
		i int
	}
	overlay := map[key]tla.Value{}
	for _, e := range obs.Elems {
		dot := -1
		for k := 0; k < len(e.Name); k++ {
			if e.Name[k] == '.' {
				dot = k
			}
		}
		if dot < 0 || len(e.Indices) != 1 {
			continue
		}
		v := e.Name[dot+1:]
		if _, ok := s.shared[v]; !ok {
			continue
		}
		fi, ok := e.Indices[0].(int)
		if !ok {
			continue
		}
		val := steplib.Dec(normalize(e.Value))
		k := key{v, fi}
		if e.Kind == "w" {
			overlay[k] = val
			continue
		}
		want, ok := overlay[k]
		if !ok {
			want = s.shared[v][fi]
		}
		if steplib.EncText(want) != steplib.EncText(val) {
			bad = append(bad, fmt.Sprintf("%s[%d] read by %s (%s) returned %s, last committed write was %s", v, fi, obs.Proc, obs.Label, steplib.EncText(val), steplib.EncText(want)))
		}
	}
	if obs.Outcome == "commit" {
		for k, val := range overlay {
			s.shared[k.v][k.i] = val
		}
	}
	return bad
}

// normalize turns an Enc'd value (ints as int) into the shape json.Unmarshal would give (steplib.Dec accepts both)
func normalize(x interface{}) interface{} { return x }

func (s *Session) Close() {
	s.Sys.Close()
	if s.db != nil {
		s.db.Close()
		s.db = nil
	}
	if s.scratch != "" {
		os.RemoveAll(s.scratch)
		os.Remove(fmt.Sprintf("/var/tmp/verif-%d", os.Getpid())) // only if empty
		s.scratch = ""
	}
}

// Serve runs the line protocol.
func Serve(in io.Reader, outw io.Writer) error {
	rd := bufio.NewReaderSize(in, 1<<20)
	w := bufio.NewWriterSize(outw, 1<<20)
	defer w.Flush()
	dec := json.NewDecoder(rd)
	enc := json.NewEncoder(w)
	var cur *Session
	defer func() {
		if cur != nil {
			cur.Close()
		}
	}()
	for dec.More() {
		var c Cmd
		if err := dec.Decode(&c); err != nil {
			return err
		}
		switch c.Cmd {
		case "new":
			if cur != nil {
				cur.Close()
				cur = nil
			}
			s, err := NewSession(c.Params)
			if err != nil {
				enc.Encode(map[string]interface{}{"ok": false, "err": err.Error()})
			} else {
				cur = s
				enc.Encode(map[string]interface{}{"ok": true, "procs": s.procs, "state": s.delta(true)})
			}
		case "step":
			if cur == nil {
				enc.Encode(map[string]interface{}{"outcome": "error:other", "err": "no session"})
			} else {
				enc.Encode(cur.Step(c.Proc, c.Choices, c.Full))
			}
		case "close":
			if cur != nil {
				cur.Close()
				cur = nil
			}
			enc.Encode(map[string]interface{}{"ok": true})
		case "case":
			res := map[string]interface{}{"id": c.ID}
			func() {
				defer func() {
					if r := recover(); r != nil {
						res["err"] = fmt.Sprint("harness panic: ", r)
					}
				}()
				s, err := NewSession(c.Params)
				if err != nil {
					res["err"] = err.Error()
					return
				}
				defer s.Close()
				res["init"] = s.delta(true)
				steps := []Out{}
				for _, ev := range c.Sched {
					var ch []uint64
					if len(ev) > 1 && ev[1] != nil {
						for _, x := range ev[1].([]interface{}) {
							ch = append(ch, uint64(x.(float64)))
						}
					}
					o := s.Step(ev[0].(string), ch, false)
					steps = append(steps, o)
				}
				res["steps"] = steps
			}()
			enc.Encode(res)
		default:
			enc.Encode(map[string]interface{}{"ok": false, "err": "unknown cmd " + c.Cmd})
		}
		w.Flush()
	}
	return nil
}
