// c12: drives the CRDT data types of distsys/resources (GCounter, AWORSet, LWWSet) through the
// resources.CRDTValue interface (Init/Read/Write/Merge) and encoding/gob, on scripted op histories.
//
// Input (stdin), one JSON case per line:
//
//	{"id":N, "type":"gcounter"|"aworset"|"lww", "ids":"str"|"num",
//	 "ops":[ ["W", r, v]            gcounter: replica r writes increment v
//	         ["W", r, cmd, e]       sets: replica r writes cmd (1 add, 2 remove) of element e
//	         ["S", r, g]            snapshot of replica r's state appended to the message pool; g=1: the
//	                                snapshot travels through a real gob encoder/decoder (as the RPC does)
//	         ["D", dst, m]          replica dst merges pool[m]  (any m, any number of times)
//	         ["X", adds, rems]      lww only: a state built by GobDecode from a stream with the given
//	                                [[e, ts], ...] pairs is appended to the pool (state received from
//	                                another process whose clock we do not control)
//	       ]}
//
// Output, one JSON line per case:
//
//	{"id":N, "reads":[...], "ts":[...], "final":{"r":read}, "states":{"r":canon}, "pool":[canon], "err":""}
//	reads[i]: Read() of the replica affected by op i (null for S/X); gcounter: number; sets: sorted elements
//	ts[i]:    lww: the timestamp (UnixNano) stored by write op i, observed through GobEncode (else 0)
//	canon:    state projection obtained from the gob encoding, maps sorted by key
package main

import (
	"bufio"
	"bytes"
	"encoding/gob"
	"encoding/json"
	"fmt"
	"io"
	"os"
	"sort"
	"time"

	"github.com/DistCompiler/pgo/distsys/resources"
	"github.com/DistCompiler/pgo/distsys/tla"
)

type kase struct {
	ID   int               `json:"id"`
	Type string            `json:"type"`
	IDs  string            `json:"ids"`
	Ops  []json.RawMessage `json:"ops"`
	// states on which the semilattice laws are checked directly at the end: ["p", i] pool entry, ["r", r] replica
	LawSet [][]interface{} `json:"lawset"`
}

type lawFail struct {
	Law string      `json:"law"` // infl | comm | idem | assoc
	At  []int       `json:"at"`  // op index (infl) or indices into lawset
	L   interface{} `json:"l"`
	R   interface{} `json:"r"`
}

type result struct {
	ID     int                    `json:"id"`
	Reads  []interface{}          `json:"reads"`
	Ts     []int64                `json:"ts"`
	T0     []int64                `json:"t0"`
	Final  map[string]interface{} `json:"final"`
	States map[string]interface{} `json:"states"`
	Pool   []interface{}          `json:"pool"`
	Laws   []lawFail              `json:"laws"`
	Err    string                 `json:"err"`
}

var cmdKey = tla.MakeString("cmd")
var elemKey = tla.MakeString("elem")

type knownVal struct {
	v tla.Value
	n int64
}

type env struct {
	typ   string
	ids   string
	back  map[string]int64 // tla value string -> element/replica number
	known []knownVal
}

func (e *env) repID(r int64) tla.Value {
	var v tla.Value
	if e.ids == "num" {
		v = tla.MakeNumber(int32(r))
	} else {
		v = tla.MakeString(fmt.Sprintf("r%d", r))
	}
	e.back[v.String()] = r
	e.known = append(e.known, knownVal{v, r})
	return v
}

func (e *env) elem(x int64) tla.Value {
	var v tla.Value
	switch e.ids {
	case "num":
		v = tla.MakeNumber(int32(x))
	case "tup":
		v = tla.MakeTuple(tla.MakeNumber(int32(x)), tla.MakeString("x"))
	case "rec":
		v = tla.MakeRecord([]tla.RecordField{
			{Key: tla.MakeString("id"), Value: tla.MakeNumber(int32(x))},
			{Key: tla.MakeString("tag"), Value: tla.MakeString("e")},
		})
	case "nest": // a tuple holding a record with a set field, a tuple and a boolean
		v = tla.MakeTuple(
			tla.MakeRecord([]tla.RecordField{
				{Key: tla.MakeString("ids"), Value: tla.MakeSet(tla.MakeNumber(int32(x)), tla.MakeNumber(int32(x+1)), tla.MakeString("s"))},
				{Key: tla.MakeString("at"), Value: tla.MakeTuple(tla.MakeNumber(int32(x)), tla.MakeTuple())},
			}),
			tla.MakeBool(x%2 == 0))
	default:
		v = tla.MakeString(fmt.Sprintf("e%d", x))
	}
	e.back[v.String()] = x
	e.known = append(e.known, knownVal{v, x})
	return v
}

// num maps a tla.Value back to its number: by Equal (a value that went through gob need not print the same)
func (e *env) num(v tla.Value) int64 {
	if n, ok := e.back[v.String()]; ok {
		return n
	}
	for _, k := range e.known {
		if k.v.Equal(v) {
			return k.n
		}
	}
	return -999999
}

func (e *env) initVal() resources.CRDTValue {
	switch e.typ {
	case "gcounter":
		return resources.GCounter{}.Init()
	case "aworset":
		return resources.AWORSet{}.Init()
	case "lww":
		return resources.LWWSet{}.Init()
	}
	panic("unknown type " + e.typ)
}

func (e *env) read(s resources.CRDTValue) interface{} {
	v := s.Read()
	if e.typ == "gcounter" {
		return int64(v.AsNumber())
	}
	out := []int64{}
	it := v.AsSet().Iterator()
	for !it.Done() {
		k, _, _ := it.Next()
		out = append(out, e.num(k))
	}
	sort.Slice(out, func(i, j int) bool { return out[i] < out[j] })
	return out
}

func gobHop(s resources.CRDTValue) (resources.CRDTValue, error) {
	var buf bytes.Buffer
	if err := gob.NewEncoder(&buf).Encode(&resources.ReceiveValueArgs{Value: s}); err != nil {
		return nil, err
	}
	var out resources.ReceiveValueArgs
	if err := gob.NewDecoder(&buf).Decode(&out); err != nil {
		return nil, err
	}
	return out.Value, nil
}

type pairs [][2]int64

func sortPairs(p pairs) pairs {
	sort.Slice(p, func(i, j int) bool { return p[i][0] < p[j][0] })
	return p
}

func (e *env) canonGC(c resources.GCounter) pairs {
	out := pairs{}
	it := c.Iterator()
	for !it.Done() {
		k, v, _ := it.Next()
		if v != 0 { // an entry 0 and a missing entry are indistinguishable through Read/Merge/compare
			out = append(out, [2]int64{e.num(k), int64(v)})
		}
	}
	return sortPairs(out)
}

type clockEntry struct {
	E int64 `json:"e"`
	C pairs `json:"c"`
}

// lwwDecode parses the stream LWWSet.GobEncode writes: int n, n x (Value, Time), int m, m x (Value, Time)
func (e *env) lwwDecode(b []byte) (adds, rems pairs, err error) {
	dec := gob.NewDecoder(bytes.NewBuffer(b))
	for part := 0; part < 2; part++ {
		var n int
		if err = dec.Decode(&n); err != nil {
			return
		}
		ps := pairs{}
		for i := 0; i < n; i++ {
			var k tla.Value
			var t time.Time
			if err = dec.Decode(&k); err != nil {
				return
			}
			if err = dec.Decode(&t); err != nil {
				return
			}
			ps = append(ps, [2]int64{e.num(k), t.UnixNano()})
		}
		if part == 0 {
			adds = sortPairs(ps)
		} else {
			rems = sortPairs(ps)
		}
	}
	var extra int
	if err2 := dec.Decode(&extra); err2 != io.EOF {
		err = fmt.Errorf("trailing data in LWWSet encoding")
	}
	return
}

func (e *env) lwwEncode(adds, rems pairs) ([]byte, error) {
	var buf bytes.Buffer
	enc := gob.NewEncoder(&buf)
	for _, ps := range []pairs{adds, rems} {
		if err := enc.Encode(len(ps)); err != nil {
			return nil, err
		}
		for _, p := range ps {
			k := e.elem(p[0])
			if err := enc.Encode(&k); err != nil {
				return nil, err
			}
			if err := enc.Encode(time.Unix(0, p[1])); err != nil {
				return nil, err
			}
		}
	}
	return buf.Bytes(), nil
}

func (e *env) canon(s resources.CRDTValue) (interface{}, error) {
	switch v := s.(type) {
	case resources.GCounter:
		return e.canonGC(v), nil
	case resources.AWORSet:
		b, err := v.GobEncode()
		if err != nil {
			return nil, err
		}
		var maps resources.AddRemMaps
		if err := gob.NewDecoder(bytes.NewBuffer(b)).Decode(&maps); err != nil {
			return nil, err
		}
		conv := func(kvs []resources.AWORSetKeyVal) []clockEntry {
			out := []clockEntry{}
			for _, kv := range kvs {
				out = append(out, clockEntry{E: e.num(kv.K), C: e.canonGC(kv.V)})
			}
			sort.Slice(out, func(i, j int) bool { return out[i].E < out[j].E })
			return out
		}
		return map[string]interface{}{"add": conv(maps.AddMap), "rem": conv(maps.RemMap)}, nil
	case resources.LWWSet:
		b, err := v.GobEncode()
		if err != nil {
			return nil, err
		}
		adds, rems, err := e.lwwDecode(b)
		if err != nil {
			return nil, err
		}
		return map[string]interface{}{"add": adds, "rem": rems}, nil
	}
	return nil, fmt.Errorf("unknown CRDT value %T", s)
}

func (e *env) canonStr(s resources.CRDTValue) (string, interface{}) {
	c, err := e.canon(s)
	if err != nil {
		panic("canon: " + err.Error())
	}
	b, _ := json.Marshal(c)
	return string(b), c
}

func lookup(p pairs, k int64) (int64, bool) {
	for _, x := range p {
		if x[0] == k {
			return x[1], true
		}
	}
	return 0, false
}

// end of the previous LWW write on the driver's clock
var lastT int64

func runCase(k kase) (res result) {
	res.ID = k.ID
	res.Final = map[string]interface{}{}
	res.States = map[string]interface{}{}
	res.Pool = []interface{}{}
	res.Laws = []lawFail{}
	e := &env{typ: k.Type, ids: k.IDs, back: map[string]int64{}}
	defer func() {
		if r := recover(); r != nil {
			res.Err = fmt.Sprintf("panic: %v", r)
		}
	}()
	reps := map[int64]resources.CRDTValue{}
	order := []int64{}
	get := func(r int64) resources.CRDTValue {
		if s, ok := reps[r]; ok {
			return s
		}
		reps[r] = e.initVal()
		order = append(order, r)
		return reps[r]
	}
	pool := []resources.CRDTValue{}
	for _, raw := range k.Ops {
		var op []json.RawMessage
		if err := json.Unmarshal(raw, &op); err != nil {
			res.Err = "bad op: " + err.Error()
			return
		}
		var kind string
		json.Unmarshal(op[0], &kind)
		geti := func(i int) int64 {
			var x int64
			if err := json.Unmarshal(op[i], &x); err != nil {
				panic("bad op argument: " + err.Error())
			}
			return x
		}
		switch kind {
		case "W":
			r := geti(1)
			s := get(r)
			var ts, t0 int64
			if k.Type == "gcounter" {
				s = s.Write(e.repID(r), tla.MakeNumber(int32(geti(2))))
			} else {
				cmd, el := geti(2), geti(3)
				val := tla.MakeRecord([]tla.RecordField{
					{Key: cmdKey, Value: tla.MakeNumber(int32(cmd))},
					{Key: elemKey, Value: e.elem(el)},
				})
				if k.Type == "lww" {
					t0 = time.Now().UnixNano()
					for t0 <= lastT {
						t0 = time.Now().UnixNano()
					}
				}
				s = s.Write(e.repID(r), val)
				if k.Type == "lww" {
					lastT = time.Now().UnixNano()
					b, err := s.(resources.LWWSet).GobEncode()
					if err != nil {
						res.Err = "gob: " + err.Error()
						return
					}
					adds, rems, err := e.lwwDecode(b)
					if err != nil {
						res.Err = "gob: " + err.Error()
						return
					}
					if cmd == 1 {
						ts, _ = lookup(adds, el)
					} else if cmd == 2 {
						ts, _ = lookup(rems, el)
					}
				}
			}
			before := reps[r]
			reps[r] = s
			res.Reads = append(res.Reads, e.read(s))
			res.Ts = append(res.Ts, ts)
			res.T0 = append(res.T0, t0)
			// write_inflationary, checked on the real Merge: before ⊔ after == after (both argument orders)
			as, ac := e.canonStr(s)
			if ms, mc := e.canonStr(before.Merge(s)); ms != as {
				res.Laws = append(res.Laws, lawFail{Law: "infl", At: []int{len(res.Reads) - 1, 0}, L: mc, R: ac})
			}
			if ms, mc := e.canonStr(s.Merge(before)); ms != as {
				res.Laws = append(res.Laws, lawFail{Law: "infl", At: []int{len(res.Reads) - 1, 1}, L: mc, R: ac})
			}
		case "S":
			r := geti(1)
			s := get(r)
			if geti(2) == 1 {
				h, err := gobHop(s)
				if err != nil {
					res.Err = "gob: " + err.Error()
					return
				}
				s = h
			}
			pool = append(pool, s)
			res.Reads = append(res.Reads, nil)
			res.Ts = append(res.Ts, 0)
			res.T0 = append(res.T0, 0)
		case "D":
			dst, m := geti(1), geti(2)
			s := get(dst)
			if m >= 0 && int(m) < len(pool) {
				s = s.Merge(pool[m])
			}
			reps[dst] = s
			res.Reads = append(res.Reads, e.read(s))
			res.Ts = append(res.Ts, 0)
			res.T0 = append(res.T0, 0)
		case "X":
			var adds, rems pairs
			json.Unmarshal(op[1], &adds)
			json.Unmarshal(op[2], &rems)
			b, err := e.lwwEncode(adds, rems)
			if err != nil {
				res.Err = "gob: " + err.Error()
				return
			}
			var s resources.LWWSet
			if err := s.GobDecode(b); err != nil {
				res.Err = "gob: " + err.Error()
				return
			}
			pool = append(pool, s)
			res.Reads = append(res.Reads, nil)
			res.Ts = append(res.Ts, 0)
			res.T0 = append(res.T0, 0)
		default:
			res.Err = "unknown op " + kind
			return
		}
	}
	for _, r := range order {
		key := fmt.Sprint(r)
		res.Final[key] = e.read(reps[r])
		c, err := e.canon(reps[r])
		if err != nil {
			res.Err = "canon: " + err.Error()
			return
		}
		res.States[key] = c
	}
	var ls []resources.CRDTValue
	for _, ref := range k.LawSet {
		idx := int64(ref[1].(float64))
		if ref[0].(string) == "p" {
			ls = append(ls, pool[idx])
		} else {
			ls = append(ls, get(idx))
		}
	}
	for i, a := range ls {
		as, ac := e.canonStr(a)
		if ms, mc := e.canonStr(a.Merge(a)); ms != as {
			res.Laws = append(res.Laws, lawFail{Law: "idem", At: []int{i}, L: mc, R: ac})
		}
		for j, b := range ls {
			if i < j {
				ls1, lc := e.canonStr(a.Merge(b))
				rs1, rc := e.canonStr(b.Merge(a))
				if ls1 != rs1 {
					res.Laws = append(res.Laws, lawFail{Law: "comm", At: []int{i, j}, L: lc, R: rc})
				}
			}
			for l, c := range ls {
				if i == j || j == l || i == l {
					continue
				}
				ls1, lc := e.canonStr(a.Merge(b).Merge(c))
				rs1, rc := e.canonStr(a.Merge(b.Merge(c)))
				if ls1 != rs1 {
					res.Laws = append(res.Laws, lawFail{Law: "assoc", At: []int{i, j, l}, L: lc, R: rc})
				}
			}
		}
	}
	for _, s := range pool {
		c, err := e.canon(s)
		if err != nil {
			res.Err = "canon: " + err.Error()
			return
		}
		res.Pool = append(res.Pool, c)
	}
	return
}

func main() {
	in := bufio.NewReaderSize(os.Stdin, 1<<20)
	out := bufio.NewWriter(os.Stdout)
	defer out.Flush()
	dec := json.NewDecoder(in)
	enc := json.NewEncoder(out)
	for dec.More() {
		var k kase
		if err := dec.Decode(&k); err != nil {
			fmt.Fprintln(os.Stderr, "bad case:", err)
			os.Exit(2)
		}
		enc.Encode(runCase(k))
	}
}
