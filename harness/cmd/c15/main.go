// c15: drives the real generated locksvc.AServer / locksvc.AClient archetypes step by step
// (harness/steplib) over spec state: network = [id \in NodeSet |-> bag], hasLock = [id \in NodeSet |-> FALSE].
//
// Input (stdin), one JSON case per line:
//
//	{"id": 7, "n": 3, "sched": [[p, [k1, k2, ...]], ...]}          explicit schedule
//	{"id": 8, "n": 3, "auto": {"seed": 12345, "steps": 80}}        seeded random walk (steplib.Walker)
//
// p = 0 is the server, 1..n the clients; the i-th choice point of the attempt gets k_i mod ceiling
// (the only choice point in locksvc is the bag element picked by ReliableLink's read).
// Output: one JSON line per case: {"id":…, "n":…, "init": <state>, "steps": [steplib.Obs …], "err": ""}.
package main

import (
	"bufio"
	"encoding/json"
	"fmt"
	"os"

	"github.com/DistCompiler/pgo/distsys"
	"github.com/DistCompiler/pgo/distsys/tla"
	"github.com/DistCompiler/pgo/systems/locksvc"

	"verifharness/steplib"
)

type kase struct {
	ID    int             `json:"id"`
	N     int             `json:"n"`
	Sched [][]interface{} `json:"sched"`
	Auto  *struct {
		Seed  uint64 `json:"seed"`
		Steps int    `json:"steps"`
	} `json:"auto"`
	Live *liveSpec `json:"live"` // {"clients": 3, "deadline_ms": 8000}: live run over the deployment resources (live.go)
}

type result struct {
	ID    int                    `json:"id"`
	N     int                    `json:"n"`
	Init  map[string]interface{} `json:"init"`
	PCs0  map[string]string      `json:"pcs0"`
	Steps []steplib.Obs          `json:"steps"`
	Err   string                 `json:"err"`
	Live  map[string]interface{} `json:"live,omitempty"`
}

func procName(p int) string {
	if p == 0 {
		return "server"
	}
	return fmt.Sprintf("c%d", p)
}

func runCase(k kase) (res result) {
	res.ID, res.N = k.ID, k.N
	res.Steps = []steplib.Obs{}
	defer func() {
		if r := recover(); r != nil {
			res.Err = fmt.Sprint("harness panic: ", r)
		}
	}()
	if k.Live != nil {
		res.Live = runLive(*k.Live)
		return
	}
	var nodes []tla.Value
	for i := 0; i <= k.N; i++ {
		nodes = append(nodes, tla.MakeNumber(int32(i)))
	}
	sys := steplib.NewSystem(map[string]tla.Value{
		"network": steplib.ConstFn(nodes, steplib.EmptyBag()),
		"hasLock": steplib.ConstFn(nodes, tla.ModuleFALSE),
	})
	defer sys.Close()
	numClients := distsys.DefineConstantValue("NumClients", tla.MakeNumber(int32(k.N)))
	sys.AddProc("server", tla.MakeNumber(0), locksvc.AServer, []steplib.Binding{
		{Param: "network", Var: "network", Depth: 1, Macro: steplib.BagLink}}, numClients)
	for c := 1; c <= k.N; c++ {
		sys.AddProc(procName(c), tla.MakeNumber(int32(c)), locksvc.AClient, []steplib.Binding{
			{Param: "network", Var: "network", Depth: 1, Macro: steplib.BagLink},
			{Param: "hasLock", Var: "hasLock", Depth: 1, Macro: steplib.Identity}}, numClients)
	}
	if err := sys.Start(); err != nil {
		res.Err = err.Error()
		return
	}
	res.Init = sys.State.Snapshot()
	res.PCs0 = map[string]string{}
	for _, n := range sys.Procs() {
		res.PCs0[n] = sys.PC(n)
	}
	if k.Auto != nil {
		res.Steps = steplib.NewWalker(sys, k.Auto.Seed).Walk(k.Auto.Steps)
		return
	}
	for _, ev := range k.Sched {
		p := int(ev[0].(float64))
		var ch []uint64
		if len(ev) > 1 && ev[1] != nil {
			for _, x := range ev[1].([]interface{}) {
				ch = append(ch, uint64(x.(float64)))
			}
		}
		if p < 0 || p > k.N {
			res.Err = fmt.Sprintf("bad proc %d", p)
			return
		}
		res.Steps = append(res.Steps, sys.Step(procName(p), ch))
	}
	return
}

func main() {
	in := bufio.NewReaderSize(os.Stdin, 1<<20)
	out := bufio.NewWriter(os.Stdout)
	defer out.Flush()
	dec := json.NewDecoder(in)
	enc := json.NewEncoder(out)
	for dec.More() {
		var k kase
		if err := dec.Decode(&k); err != nil {
			fmt.Fprintln(os.Stderr, "bad case:", err)
			os.Exit(2)
		}
		r := runCase(k)
		enc.Encode(r)
		if r.Live != nil && r.Live["exit"] == true {
			out.Flush()
			os.Exit(0)
		}
	}
}
