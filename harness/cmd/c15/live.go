package main

// Live (deployment smoke) run of locksvc: the real AServer / AClient archetypes over the REAL resources
// systems/locksvc/locksvc_test.go uses (relaxed TCP mailboxes on 127.0.0.1:0-allocated ports, hasLock as an IncMap of
// per-client cells), free-running goroutines, a deadline. The hasLock cells record every committed write together with
// the position (in one global order) at which it was written inside its critical section.
// Schedules are whatever the Go scheduler produces; lib / props judge what is observable.

import (
	"fmt"
	"time"

	"github.com/DistCompiler/pgo/distsys"
	"github.com/DistCompiler/pgo/distsys/resources"
	"github.com/DistCompiler/pgo/distsys/tla"
	"github.com/DistCompiler/pgo/systems/locksvc"

	"verifharness/steplib"
)

type liveSpec struct {
	Clients    int `json:"clients"`
	DeadlineMs int `json:"deadline_ms"`
}

func runLive(spec liveSpec) map[string]interface{} {
	n := spec.Clients
	out := map[string]interface{}{}
	addrs := steplib.FreeAddrs(n + 1)
	addressFn := func(me int) func(idx tla.Value) (resources.MailboxKind, string) {
		return func(idx tla.Value) (resources.MailboxKind, string) {
			i := int(idx.AsNumber())
			if i < 0 || i > n {
				panic(fmt.Errorf("unknown mailbox index %v", idx))
			}
			if i == me {
				return resources.MailboxesLocal, addrs[i]
			}
			return resources.MailboxesRemote, addrs[i]
		}
	}
	log := steplib.NewLiveLog()
	run := steplib.NewLiveRun()
	numClients := distsys.DefineConstantValue("NumClients", tla.MakeNumber(int32(n)))
	run.Go("server", distsys.NewMPCalContext(tla.MakeNumber(0), locksvc.AServer, numClients,
		distsys.EnsureArchetypeRefParam("network", resources.NewRelaxedMailboxes(addressFn(0)))), nil)
	var clients []string
	for c := 1; c <= n; c++ {
		cc := c
		name := fmt.Sprintf("c%d", c)
		clients = append(clients, name)
		run.Go(name, distsys.NewMPCalContext(tla.MakeNumber(int32(c)), locksvc.AClient, numClients,
			distsys.EnsureArchetypeRefParam("network", resources.NewRelaxedMailboxes(addressFn(c))),
			distsys.EnsureArchetypeRefParam("hasLock", resources.NewIncMap(func(index tla.Value) distsys.ArchetypeResource {
				return steplib.NewRecordingCell(log, fmt.Sprintf("c%d", cc), steplib.Enc(index), tla.ModuleFALSE)
			}))), nil)
	}
	ms := spec.DeadlineMs
	if ms <= 0 {
		ms = 10000
	}
	t0 := time.Now()
	running := run.WaitAll(clients, time.Now().Add(time.Duration(ms)*time.Millisecond))
	out["elapsed_ms"] = time.Since(t0).Milliseconds()
	out["running"], out["ended_before_stop"] = running, run.EndedCopy()
	stuck := run.StopAll(3 * time.Second)
	out["stuck_after_stop"], out["ended"], out["log"] = stuck, run.EndedCopy(), log.Snapshot()
	if len(running) > 0 {
		out["outcome"] = "hang"
	} else {
		out["outcome"] = "finished"
	}
	if len(running) > 0 || len(stuck) > 0 {
		out["exit"] = true
	}
	return out
}
