// c19: event-script driver for the failure detector (distsys/resources/fd.go) on loopback.
//
// One case = one monitored archetype id, one SingleFailureDetector, a sequence of events:
//
//	mon_start   new Monitor on a fresh 127.0.0.1 port + ListenAndServe (a new monitor process: empty state map)
//	mon_close   Monitor.Close(): the listener is closed, established connections keep being served
//	crash       the monitor's process disappears: no new connections, established ones are cut
//	net_down    partition: no new connections, established ones are frozen (calls time out); net_up heals it
//	arch_start  go Monitor.RunArchetype(ctx) of a hand-made archetype; returns when its first attempt has begun
//	arch_end    {how: normal | error | panic | stop}: the archetype ends that way; returns when RunArchetype returned
//	det_start   NewSingleFailureDetector(id, addr, interval, timeout)
//	wait k      sleep k pull intervals
//	read        SingleFailureDetector.ReadValue: value (T / F / abort) and how long the call took
//
// The detector talks to the monitor through a small TCP forwarder owned by the driver (that is what makes crash and
// partition possible inside one process); everything else is the public API.
//
// stdin: one JSON case per line; stdout: one JSON result per line.
package main

import (
	"bufio"
	"encoding/json"
	"errors"
	"fmt"
	"io"
	"log"
	"net"
	"os"
	"sync"
	"sync/atomic"
	"time"

	"github.com/DistCompiler/pgo/distsys"
	"github.com/DistCompiler/pgo/distsys/resources"
	"github.com/DistCompiler/pgo/distsys/tla"
)

type event struct {
	E   string `json:"e"`
	How string `json:"how,omitempty"`
	K   int    `json:"k,omitempty"`
}

type kase struct {
	ID         int     `json:"id"`
	IntervalMs int     `json:"interval_ms"`
	TimeoutMs  int     `json:"timeout_ms"`
	Events     []event `json:"events"`
}

type readObs struct {
	At int     `json:"at"` // index of the read event
	V  string  `json:"v"`
	Ms float64 `json:"ms"`
}

type result struct {
	ID      int       `json:"id"`
	Reads   []readObs `json:"reads"`
	ArchErr []string  `json:"arch_err"` // what RunArchetype returned, per arch_end: nil | error | panic
	Err     string    `json:"err"`
	CloseMs float64   `json:"close_ms"` // how long the detector's Close took
}

// ---------------------------------------------------------------- TCP forwarder
type pconn struct {
	a, b net.Conn
}

type forwarder struct {
	mu     sync.Mutex
	cond   *sync.Cond
	addr   string
	target string
	ln     net.Listener
	conns  []*pconn
	frozen bool
}

func newForwarder() (*forwarder, error) {
	ln, err := net.Listen("tcp", "127.0.0.1:0")
	if err != nil {
		return nil, err
	}
	f := &forwarder{addr: ln.Addr().String()}
	f.cond = sync.NewCond(&f.mu)
	ln.Close()
	return f, nil
}

func (f *forwarder) open() error {
	f.mu.Lock()
	defer f.mu.Unlock()
	if f.ln != nil {
		return nil
	}
	var ln net.Listener
	var err error
	for i := 0; i < 50; i++ {
		ln, err = net.Listen("tcp", f.addr)
		if err == nil {
			break
		}
		time.Sleep(2 * time.Millisecond)
	}
	if err != nil {
		return err
	}
	f.ln = ln
	go f.acceptLoop(ln)
	return nil
}

func (f *forwarder) closeListener() {
	f.mu.Lock()
	defer f.mu.Unlock()
	if f.ln != nil {
		f.ln.Close()
		f.ln = nil
	}
}

func (f *forwarder) cut() {
	f.mu.Lock()
	defer f.mu.Unlock()
	for _, c := range f.conns {
		c.a.Close()
		c.b.Close()
	}
	f.conns = nil
	f.cond.Broadcast()
}

func (f *forwarder) setFrozen(b bool) {
	f.mu.Lock()
	f.frozen = b
	f.mu.Unlock()
	f.cond.Broadcast()
}

func (f *forwarder) acceptLoop(ln net.Listener) {
	for {
		c, err := ln.Accept()
		if err != nil {
			return
		}
		f.mu.Lock()
		target := f.target
		f.mu.Unlock()
		t, err := net.DialTimeout("tcp", target, time.Second)
		if err != nil {
			c.Close()
			continue
		}
		pc := &pconn{a: c, b: t}
		f.mu.Lock()
		f.conns = append(f.conns, pc)
		f.mu.Unlock()
		go f.pipe(c, t)
		go f.pipe(t, c)
	}
}

func (f *forwarder) pipe(src, dst net.Conn) {
	buf := make([]byte, 4096)
	for {
		n, err := src.Read(buf)
		if n > 0 {
			f.mu.Lock()
			for f.frozen {
				f.cond.Wait()
			}
			f.mu.Unlock()
			if _, werr := dst.Write(buf[:n]); werr != nil {
				break
			}
		}
		if err != nil {
			break
		}
	}
	src.Close()
	dst.Close()
}

// ---------------------------------------------------------------- the monitored archetype
type arch struct {
	ctx     *distsys.MPCalContext
	entered chan struct{}
	gate    chan string
	done    chan string
}

var errScripted = errors.New("c19 scripted archetype error")

func newArch(id tla.Value) *arch {
	a := &arch{entered: make(chan struct{}, 1), gate: make(chan string, 1), done: make(chan string, 1)}
	first := int32(0)
	body := func(iface distsys.ArchetypeInterface) error {
		if atomic.CompareAndSwapInt32(&first, 0, 1) {
			a.entered <- struct{}{}
		}
		what := <-a.gate
		switch what {
		case "normal":
			return distsys.ErrDone
		case "error":
			return errScripted
		case "panic":
			panic("c19 scripted panic")
		}
		// "loop": commit and come back (used to let a Stop take effect)
		a.gate <- "loop"
		return iface.Goto("A.loop")
	}
	a.ctx = distsys.NewMPCalContext(id, distsys.MPCalArchetype{
		Name:  "A",
		Label: "A.loop",
		JumpTable: distsys.MakeMPCalJumpTable(
			distsys.MPCalCriticalSection{Name: "A.loop", Body: body},
		),
		ProcTable: distsys.MakeMPCalProcTable(),
		PreAmble:  func(distsys.ArchetypeInterface) {},
	})
	return a
}

func freePort() (string, error) {
	ln, err := net.Listen("tcp", "127.0.0.1:0")
	if err != nil {
		return "", err
	}
	addr := ln.Addr().String()
	ln.Close()
	return addr, nil
}

func runCase(k kase) (res result) {
	res.ID = k.ID
	res.Reads = []readObs{}
	res.ArchErr = []string{}
	interval := time.Duration(k.IntervalMs) * time.Millisecond
	timeout := time.Duration(k.TimeoutMs) * time.Millisecond
	id := tla.MakeNumber(7)
	fw, err := newForwarder()
	if err != nil {
		res.Err = err.Error()
		return
	}
	var mon *resources.Monitor
	var monListening, netUp = false, true
	var fd *resources.SingleFailureDetector
	var cur *arch
	var mons []*resources.Monitor
	defer func() {
		if fd != nil {
			t0 := time.Now()
			done := make(chan struct{})
			go func() { fd.Close(); close(done) }()
			select {
			case <-done:
				res.CloseMs = float64(time.Since(t0).Microseconds()) / 1000
			case <-time.After(5 * time.Second):
				res.Err = "detector Close did not return"
				res.CloseMs = -1
			}
		}
		if cur != nil {
			select {
			case cur.gate <- "normal":
			default:
			}
		}
		fw.closeListener()
		fw.setFrozen(false)
		fw.cut()
		for _, m := range mons {
			m.Close()
		}
	}()
	syncListener := func() error {
		if monListening && netUp {
			return fw.open()
		}
		fw.closeListener()
		return nil
	}
	endArch := func(how string) {
		if cur == nil {
			return
		}
		if how == "stop" {
			go cur.ctx.Stop()
			time.Sleep(2 * time.Millisecond)
			cur.gate <- "loop"
		} else {
			cur.gate <- how
		}
		select {
		case r := <-cur.done:
			res.ArchErr = append(res.ArchErr, r)
		case <-time.After(5 * time.Second):
			res.Err = "RunArchetype did not return"
		}
		cur = nil
	}
	for idx, ev := range k.Events {
		if res.Err != "" {
			return
		}
		switch ev.E {
		case "mon_start":
			addr, err := freePort()
			if err != nil {
				res.Err = err.Error()
				return
			}
			mon = resources.NewMonitor(addr)
			mons = append(mons, mon)
			m := mon
			go func() { _ = m.ListenAndServe() }()
			ok := false
			for i := 0; i < 500; i++ {
				c, err := net.DialTimeout("tcp", addr, 50*time.Millisecond)
				if err == nil {
					c.Close()
					ok = true
					break
				}
				time.Sleep(time.Millisecond)
			}
			if !ok {
				res.Err = "monitor did not start listening"
				return
			}
			fw.mu.Lock()
			fw.target = addr
			fw.mu.Unlock()
			monListening = true
			if err := syncListener(); err != nil {
				res.Err = err.Error()
				return
			}
		case "mon_close":
			if mon != nil {
				mon.Close()
			}
			monListening = false
			syncListener()
		case "crash":
			monListening = false
			syncListener()
			fw.cut()
			if cur != nil {
				// the archetype dies with its process; in this process it is ended quietly and its monitor is unreachable
				old := cur
				cur = nil
				go func() {
					old.gate <- "normal"
					<-old.done
				}()
			}
			if mon != nil {
				mon.Close()
			}
			mon = nil
		case "net_down":
			netUp = false
			syncListener()
			fw.setFrozen(true)
		case "hang":
			// the monitor's host accepts connections but answers nothing (hung process / blackhole)
			fw.setFrozen(true)
		case "unhang":
			fw.setFrozen(!netUp)
		case "net_up":
			netUp = true
			fw.setFrozen(false)
			if err := syncListener(); err != nil {
				res.Err = err.Error()
				return
			}
		case "arch_start":
			if mon == nil {
				continue
			}
			a := newArch(id)
			m := mon
			go func() {
				var out string
				func() {
					defer func() {
						if p := recover(); p != nil {
							out = "escaped-panic"
						}
					}()
					err := m.RunArchetype(a.ctx)
					switch {
					case err == nil:
						out = "nil"
					case errors.Is(err, errScripted):
						out = "error"
					default:
						out = "panic" // RunArchetype turns a recovered panic into an error
					}
				}()
				a.done <- out
			}()
			select {
			case <-a.entered:
			case <-time.After(5 * time.Second):
				res.Err = "archetype did not start"
				return
			}
			cur = a
		case "arch_end":
			endArch(ev.How)
		case "det_start":
			fd = resources.NewSingleFailureDetector(id, fw.addr,
				resources.WithFailureDetectorPullInterval(interval), resources.WithFailureDetectorTimeout(timeout))
		case "wait":
			time.Sleep(time.Duration(ev.K) * interval)
		case "read":
			if fd == nil {
				continue
			}
			t0 := time.Now()
			v, err := fd.ReadValue(distsys.ArchetypeInterface{})
			ms := float64(time.Since(t0).Microseconds()) / 1000
			s := ""
			switch {
			case err == distsys.ErrCriticalSectionAborted:
				s = "abort"
			case err != nil:
				s = "err:" + err.Error()
			case v.Equal(tla.ModuleTRUE):
				s = "T"
			case v.Equal(tla.ModuleFALSE):
				s = "F"
			default:
				s = fmt.Sprint(v)
			}
			res.Reads = append(res.Reads, readObs{At: idx, V: s, Ms: ms})
		default:
			res.Err = "unknown event " + ev.E
		}
	}
	return
}

// closeRace: Monitor.Close() while the accept loop is between two Accept calls (a connection has just arrived).
// A crash of the accept loop takes the whole process down, so this runs in a process of its own (c19 -closerace n).
func closeRace(n int) {
	for i := 0; i < n; i++ {
		addr, err := freePort()
		if err != nil {
			continue
		}
		m := resources.NewMonitor(addr)
		done := make(chan error, 1)
		go func() { done <- m.ListenAndServe() }()
		for j := 0; j < 500; j++ {
			c, err := net.DialTimeout("tcp", addr, 50*time.Millisecond)
			if err == nil {
				c.Close()
				break
			}
			time.Sleep(200 * time.Microsecond)
		}
		// a burst of connections keeps the loop cycling through Accept while Close runs
		go func() {
			for j := 0; j < 20; j++ {
				if c, err := net.DialTimeout("tcp", addr, 20*time.Millisecond); err == nil {
					c.Close()
				}
			}
		}()
		time.Sleep(time.Duration(i%7) * 50 * time.Microsecond)
		m.Close()
		select {
		case <-done:
		case <-time.After(2 * time.Second):
			fmt.Println("{\"closerace\":\"listen-and-serve-did-not-return\"}")
			os.Exit(3)
		}
	}
	fmt.Println("{\"closerace\":\"ok\"}")
}

func main() {
	log.SetOutput(io.Discard)
	if len(os.Args) == 3 && os.Args[1] == "-closerace" {
		n := 0
		fmt.Sscan(os.Args[2], &n)
		closeRace(n)
		return
	}
	in := bufio.NewReaderSize(os.Stdin, 1<<20)
	out := bufio.NewWriter(os.Stdout)
	defer out.Flush()
	dec := json.NewDecoder(in)
	var cases []kase
	for dec.More() {
		var k kase
		if err := dec.Decode(&k); err != nil {
			fmt.Fprintln(os.Stderr, "bad case:", err)
			os.Exit(2)
		}
		cases = append(cases, k)
	}
	results := make([]result, len(cases))
	workers := 8
	if w := os.Getenv("C19_WORKERS"); w != "" {
		fmt.Sscan(w, &workers)
	}
	var wg sync.WaitGroup
	idx := int32(-1)
	for w := 0; w < workers; w++ {
		wg.Add(1)
		go func() {
			defer wg.Done()
			for {
				i := int(atomic.AddInt32(&idx, 1))
				if i >= len(cases) {
					return
				}
				results[i] = runCase(cases[i])
			}
		}()
	}
	wg.Wait()
	enc := json.NewEncoder(out)
	for _, r := range results {
		enc.Encode(r)
	}
}
