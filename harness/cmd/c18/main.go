// c18: drives real MPCalContexts (distsys.NewMPCalContext(...).Run()) whose critical-section bodies interpret
// scripted op lists, with tracing + vector clocks enabled (PGO_TRACE_DIR must be set in the environment at
// process start: distsys/tla's package init and NewMPCalContext both look at it).
//
// Every context gets (a) a copying in-memory trace.Recorder (distsys.SetTraceRecorder) that also tees each event
// into a JSON log written by trace.MakeLocalFileRecorderFromName under PGO_TRACE_DIR, and (b) a retaining
// recorder view used only to observe the aliasing of Event.Elements (reported, not judged).
//
// Interleaving is dictated by the case: "sched" is a list of archetype indices; one entry = let that archetype
// perform its next scripted op (or, when the attempt's ops are exhausted, finish the attempt: forced abort or
// Goto(next label) + commit; the Run loop then begins the next attempt and the body parks again).
//
// Input (stdin), one JSON case per line:
//
//	{"id":N, "archs":[{"locals":[{"init":z}|{"map":[[k,v],...]}], "labels":[{"tries":[{"ops":[OP...],"abort":bool}]}]}],
//	 "shared":[z...], "nchans":k, "mboxes":[owner...], "sched":[a...], "mbox_timeout_ms":150}
//	OP = ["R",KIND,id,[idx...]] | ["W",KIND,id,[idx...],["c",z]|["l",d]]   KIND = loc|shr|in|out|box
//
// Output: one JSON line per case (see type result).
package main

import (
	"bufio"
	"encoding/json"
	"errors"
	"fmt"
	"io"
	"log"
	"net"
	"os"
	"path/filepath"
	"sync"
	"time"

	"github.com/DistCompiler/pgo/distsys"
	"github.com/DistCompiler/pgo/distsys/resources"
	"github.com/DistCompiler/pgo/distsys/tla"
	"github.com/DistCompiler/pgo/distsys/trace"
	"github.com/benbjohnson/immutable"
)

type localSpec struct {
	Init *int32     `json:"init"`
	Map  [][2]int32 `json:"map"`
}
type trySpec struct {
	Ops    [][]json.RawMessage `json:"ops"`
	Abort  bool                `json:"abort"`
	Refuse bool                `json:"refuse"` // the body completes, but a dirty shared/channel resource refuses its PreCommit
}

// a shared variable: a number, or {"init":z} / {"map":[[k,v],...]}
type sharedSpec struct{ localSpec }

func (s *sharedSpec) UnmarshalJSON(b []byte) error {
	var n int32
	if json.Unmarshal(b, &n) == nil {
		s.Init = &n
		return nil
	}
	return json.Unmarshal(b, &s.localSpec)
}

type labelSpec struct {
	Tries []trySpec `json:"tries"`
}
type archSpec struct {
	Locals []localSpec `json:"locals"`
	Labels []labelSpec `json:"labels"`
}
type kase struct {
	ID            int          `json:"id"`
	Archs         []archSpec   `json:"archs"`
	Shared        []sharedSpec `json:"shared"`
	NChans        int          `json:"nchans"`
	Mboxes        []int        `json:"mboxes"`
	Sched         []int        `json:"sched"`
	MboxTimeoutMs int          `json:"mbox_timeout_ms"`
}

type elemOut struct {
	T   string   `json:"t"`
	N   string   `json:"n"`
	Idx []string `json:"idx"`
	Val string   `json:"val"`
	Old *string  `json:"old"`
}
type eventOut struct {
	A     int           `json:"a"`
	Abort bool          `json:"abort"`
	Clock [][]string    `json:"clock"` // [archetype name, self string, count]
	Elems []elemOut     `json:"elems"`
	Raw   []interface{} `json:"-"`
}
type perfOp struct {
	T    string  `json:"t"`
	K    string  `json:"k"`
	ID   int     `json:"id"`
	Idx  []int32 `json:"idx"`
	Val  string  `json:"val"`  // value returned by Read / passed to Write (String())
	Outc string  `json:"outc"` // ok | abort | crash
	Err  string  `json:"err,omitempty"`
}
type perfAttempt struct {
	Lbl     int      `json:"lbl"`
	Try     int      `json:"try"`
	Ops     []perfOp `json:"ops"`
	End     string   `json:"end"`     // commit | forced | abort | crash | halt | open
	Refused bool     `json:"refused"` // the body returned Goto, a PreCommit was refused by the fault-injecting wrapper
}
type result struct {
	ID       int             `json:"id"`
	Status   string          `json:"status"`
	Events   []eventOut      `json:"events"`
	Perf     [][]perfAttempt `json:"perf"`
	Files    []string        `json:"files"`
	Retained int             `json:"retained_differs"` // events whose retained (uncopied) Elements no longer equal the copy
	RetTotal int             `json:"retained_total"`
	Finished []string        `json:"finished"` // per arch: "" (halted by harness) | "done" | "crash" | error text
	Errs     []string        `json:"errs"`
	VClocks  bool            `json:"vclocks"`
	// per schedule entry: the implementation chose the failure branch where it selects against a timer or talks to the
	// network (op returned ErrCriticalSectionAborted; or the body returned Goto and the attempt was nevertheless aborted)
	Flags []bool `json:"flags"`
}

var errHalt = errors.New("verif: halted by harness")
var errCrash = errors.New("verif: scripted op panicked")

// ---------------------------------------------------------------- recorder

type recorder struct {
	mu       sync.Mutex
	arch     int
	rs       *runState
	file     trace.Recorder
	retained []trace.Event // as handed over, not copied
	copies   [][]trace.Element
}

func copyElems(es []trace.Element) []trace.Element {
	out := make([]trace.Element, len(es))
	for i, e := range es {
		switch e := e.(type) {
		case trace.ReadElement:
			e.Indices = append([]tla.Value(nil), e.Indices...)
			out[i] = e
		case trace.WriteElement:
			e.Indices = append([]tla.Value(nil), e.Indices...)
			if e.OldValueHint != nil {
				v := *e.OldValueHint
				e.OldValueHint = &v
			}
			out[i] = e
		default:
			out[i] = e
		}
	}
	return out
}

func elemsOut(es []trace.Element) []elemOut {
	out := []elemOut{}
	for _, e := range es {
		switch e := e.(type) {
		case trace.ReadElement:
			idx := []string{}
			for _, i := range e.Indices {
				idx = append(idx, i.String())
			}
			out = append(out, elemOut{T: "r", N: e.Prefix + "." + e.Name, Idx: idx, Val: e.Value.String()})
		case trace.WriteElement:
			idx := []string{}
			for _, i := range e.Indices {
				idx = append(idx, i.String())
			}
			var old *string
			if e.OldValueHint != nil {
				s := e.OldValueHint.String()
				old = &s
			}
			out = append(out, elemOut{T: "w", N: e.Prefix + "." + e.Name, Idx: idx, Val: e.Value.String(), Old: old})
		case nil:
			out = append(out, elemOut{T: "nil"})
		default:
			out = append(out, elemOut{T: "?"})
		}
	}
	return out
}

func (r *recorder) RecordEvent(ev trace.Event) {
	cp := copyElems(ev.Elements)
	eo := eventOut{A: r.arch, Abort: ev.IsAbort, Elems: elemsOut(cp), Clock: [][]string{}}
	if b, err := ev.Clock.MarshalJSON(); err == nil {
		var pairs [][]json.RawMessage
		if json.Unmarshal(b, &pairs) == nil {
			for _, p := range pairs {
				var key []string
				var n int
				if len(p) == 2 && json.Unmarshal(p[0], &key) == nil && json.Unmarshal(p[1], &n) == nil && len(key) == 2 {
					eo.Clock = append(eo.Clock, []string{key[0], key[1], fmt.Sprint(n)})
				}
			}
		}
	}
	r.rs.mu.Lock()
	r.rs.events = append(r.rs.events, eo)
	r.rs.mu.Unlock()
	r.mu.Lock()
	r.retained = append(r.retained, ev)
	r.copies = append(r.copies, cp)
	r.mu.Unlock()
	if r.file != nil {
		r.file.RecordEvent(ev)
	}
}

// ---------------------------------------------------------------- per-case run state

type archRun struct {
	idx      int
	spec     archSpec
	name     string
	tries    []int
	perf     []perfAttempt
	last     int32
	stepCh   chan bool     // true = go on, false = halt
	parkCh   chan struct{} // body parked (or Run returned)
	finished string
	done     bool // Run returned
	atDone   bool // reached the Done section: parked there until the case is over, so that its resources stay open
	ctx      *distsys.MPCalContext
	rec      *recorder
	// set by the body for the driver
	refuse     bool         // the running attempt wants its PreCommit refused
	refused    bool         // a PreCommit was refused in the running attempt
	atEnd      bool         // parked after the last op: the next step finishes the attempt
	wroteBoxes map[int]bool // mailboxes written in the running attempt
}

type runState struct {
	mu     sync.Mutex
	events []eventOut
}

func num(v int32) tla.Value { return tla.MakeNumber(v) }

// faulty wraps a resource; everything is delegated, but PreCommit is refused (ErrCriticalSectionAborted) while the
// archetype's running attempt asks for it. The wrapper is only asked if the resource is dirty in that attempt.
type faulty struct {
	inner distsys.ArchetypeResource
	ar    *archRun
}

func (f *faulty) Abort(iface distsys.ArchetypeInterface) chan struct{} { return f.inner.Abort(iface) }
func (f *faulty) PreCommit(iface distsys.ArchetypeInterface) chan error {
	ch := f.inner.PreCommit(iface)
	if !f.ar.refuse {
		return ch
	}
	out := make(chan error, 1)
	go func() {
		if ch != nil {
			<-ch
		}
		f.ar.refused = true
		if n := len(f.ar.perf); n > 0 {
			f.ar.perf[n-1].Refused = true
		}
		out <- distsys.ErrCriticalSectionAborted
	}()
	return out
}
func (f *faulty) Commit(iface distsys.ArchetypeInterface) chan struct{} { return f.inner.Commit(iface) }
func (f *faulty) ReadValue(iface distsys.ArchetypeInterface) (tla.Value, error) {
	return f.inner.ReadValue(iface)
}
func (f *faulty) WriteValue(iface distsys.ArchetypeInterface, value tla.Value) error {
	return f.inner.WriteValue(iface, value)
}
func (f *faulty) Index(iface distsys.ArchetypeInterface, index tla.Value) (distsys.ArchetypeResource, error) {
	return f.inner.Index(iface, index)
}
func (f *faulty) Close() error { return f.inner.Close() }

func mkLocal(l localSpec) tla.Value {
	if l.Map != nil {
		b := immutable.NewMapBuilder[tla.Value, tla.Value](tla.ValueHasher{})
		for _, kv := range l.Map {
			b.Set(num(kv[0]), num(kv[1]))
		}
		return tla.MakeRecordFromMap(b.Map())
	}
	if l.Init != nil {
		return num(*l.Init)
	}
	return num(0)
}

func lblName(a, l, n int) string {
	if l >= n {
		return fmt.Sprintf("A%d.Done", a)
	}
	return fmt.Sprintf("A%d.l%d", a, l)
}

type opDesc struct {
	write bool
	kind  string
	id    int
	idx   []int32
	ekind string
	earg  int32
}

func parseOp(raw []json.RawMessage) (o opDesc, err error) {
	if len(raw) < 4 {
		return o, fmt.Errorf("short op")
	}
	var t string
	if err = json.Unmarshal(raw[0], &t); err != nil {
		return
	}
	o.write = t == "W"
	if err = json.Unmarshal(raw[1], &o.kind); err != nil {
		return
	}
	if err = json.Unmarshal(raw[2], &o.id); err != nil {
		return
	}
	if err = json.Unmarshal(raw[3], &o.idx); err != nil {
		return
	}
	if o.write {
		if len(raw) < 5 {
			return o, fmt.Errorf("write without expr")
		}
		var e []json.RawMessage
		if err = json.Unmarshal(raw[4], &e); err != nil {
			return
		}
		if err = json.Unmarshal(e[0], &o.ekind); err != nil {
			return
		}
		if err = json.Unmarshal(e[1], &o.earg); err != nil {
			return
		}
	}
	return
}

func (ar *archRun) park() bool {
	ar.parkCh <- struct{}{}
	return <-ar.stepCh
}

func (ar *archRun) handle(iface distsys.ArchetypeInterface, o opDesc) (distsys.ArchetypeResourceHandle, []tla.Value, error) {
	var idx []tla.Value
	for _, i := range o.idx {
		idx = append(idx, num(i))
	}
	switch o.kind {
	case "loc":
		return iface.RequireArchetypeResource(fmt.Sprintf("%s.v%d", ar.name, o.id)), idx, nil
	case "shr":
		h, err := iface.RequireArchetypeResourceRef(fmt.Sprintf("%s.s%d", ar.name, o.id))
		return h, idx, err
	case "in":
		h, err := iface.RequireArchetypeResourceRef(fmt.Sprintf("%s.ci%d", ar.name, o.id))
		return h, idx, err
	case "out":
		h, err := iface.RequireArchetypeResourceRef(fmt.Sprintf("%s.co%d", ar.name, o.id))
		return h, idx, err
	case "box":
		h, err := iface.RequireArchetypeResourceRef(fmt.Sprintf("%s.net", ar.name))
		return h, append([]tla.Value{num(int32(o.id))}, idx...), err
	}
	return "", nil, fmt.Errorf("bad kind %q", o.kind)
}

// one scripted op through the public ArchetypeInterface; panics become outcome "crash"
func (ar *archRun) doOp(iface distsys.ArchetypeInterface, o opDesc) (p perfOp, err error) {
	p = perfOp{K: o.kind, ID: o.id, Idx: append([]int32{}, o.idx...), T: "r"}
	if o.write {
		p.T = "w"
	}
	defer func() {
		if r := recover(); r != nil {
			p.Outc, p.Err = "crash", fmt.Sprint(r)
			err = errCrash
		}
	}()
	h, idx, herr := ar.handle(iface, o)
	if herr != nil {
		p.Outc, p.Err = "crash", herr.Error()
		return p, errCrash
	}
	if o.write {
		v := o.earg
		if o.ekind == "l" {
			v = ar.last + o.earg
		}
		val := num(v)
		p.Val = val.String()
		err = iface.Write(h, idx, val)
	} else {
		var val tla.Value
		val, err = iface.Read(h, idx)
		if err == nil {
			p.Val = val.String()
			if val.GetVClock() != nil {
				p.Err = "value returned by Read still carries a vector clock"
			}
			if val.IsNumber() {
				ar.last = val.AsNumber()
			}
		}
	}
	switch {
	case err == nil:
		p.Outc = "ok"
		if o.write && o.kind == "box" {
			ar.wroteBoxes[o.id] = true
		}
	case errors.Is(err, distsys.ErrCriticalSectionAborted):
		p.Outc = "abort"
	default:
		p.Outc, p.Err = "crash", err.Error()
		err = errCrash
	}
	return
}

func (ar *archRun) body(lbl int) func(distsys.ArchetypeInterface) error {
	nl := len(ar.spec.Labels)
	return func(iface distsys.ArchetypeInterface) error {
		l := ar.spec.Labels[lbl]
		tn := ar.tries[lbl]
		ar.tries[lbl]++
		var t trySpec
		if len(l.Tries) > 0 {
			k := tn
			if k >= len(l.Tries) {
				k = len(l.Tries) - 1
			}
			t = l.Tries[k]
		}
		ar.perf = append(ar.perf, perfAttempt{Lbl: lbl, Try: tn, Ops: []perfOp{}, End: "open"})
		cur := &ar.perf[len(ar.perf)-1]
		ar.wroteBoxes = map[int]bool{}
		ar.refuse, ar.refused = t.Refuse && !t.Abort, false
		ar.atEnd = len(t.Ops) == 0
		if !ar.park() {
			cur.End = "halt"
			return errHalt
		}
		for i, raw := range t.Ops {
			o, perr := parseOp(raw)
			if perr != nil {
				cur.End = "crash"
				return fmt.Errorf("verif: bad op: %w", perr)
			}
			p, err := ar.doOp(iface, o)
			cur.Ops = append(cur.Ops, p)
			if err != nil {
				if err == errCrash {
					cur.End = "crash"
				} else {
					cur.End = "abort"
				}
				return err
			}
			ar.atEnd = i == len(t.Ops)-1
			if !ar.park() {
				cur.End = "halt"
				return errHalt
			}
		}
		if t.Abort {
			cur.End = "forced"
			return distsys.ErrCriticalSectionAborted
		}
		cur.End = "commit"
		return iface.Goto(lblName(ar.idx, lbl+1, nl))
	}
}

func freeAddr() string {
	l, err := net.Listen("tcp", "127.0.0.1:0")
	if err != nil {
		panic(err)
	}
	a := l.Addr().String()
	l.Close()
	return a
}

var traceDir string
var background sync.WaitGroup

func runCase(k kase) (res result) {
	res.ID = k.ID
	res.Status = "ok"
	res.Errs = []string{}
	rs := &runState{}
	na := len(k.Archs)
	if k.MboxTimeoutMs <= 0 {
		k.MboxTimeoutMs = 150
	}

	// shared resources
	var mgrs []*resources.LocalSharedManager
	for _, v := range k.Shared {
		mgrs = append(mgrs, resources.NewLocalSharedManager(mkLocal(v.localSpec), resources.WithLocalSharedResourceTimeout(2*time.Millisecond)))
	}
	var chans []chan tla.Value
	for i := 0; i < k.NChans; i++ {
		chans = append(chans, make(chan tla.Value, 256))
	}
	addrs := make([]string, len(k.Mboxes))
	for i := range k.Mboxes {
		addrs[i] = freeAddr()
	}
	localBoxes := make([]distsys.ArchetypeResource, len(k.Mboxes))

	ars := make([]*archRun, na)
	for i := range k.Archs {
		i := i
		ar := &archRun{idx: i, spec: k.Archs[i], name: fmt.Sprintf("A%d", i), tries: make([]int, len(k.Archs[i].Labels)),
			stepCh: make(chan bool), parkCh: make(chan struct{}, 1), wroteBoxes: map[int]bool{}}
		ars[i] = ar
		var secs []distsys.MPCalCriticalSection
		for l := range ar.spec.Labels {
			secs = append(secs, distsys.MPCalCriticalSection{Name: lblName(i, l, len(ar.spec.Labels)), Body: ar.body(l)})
		}
		secs = append(secs, distsys.MPCalCriticalSection{Name: fmt.Sprintf("A%d.Done", i), Body: func(distsys.ArchetypeInterface) error {
			// Run would return now and close every resource (listeners included); stay until the case is over
			ar.atDone = true
			ar.parkCh <- struct{}{}
			<-ar.stepCh
			return distsys.ErrDone
		}})
		var refs []string
		var cfg []distsys.MPCalContextConfigFn
		for j, m := range mgrs {
			refs = append(refs, fmt.Sprintf("A%d.s%d", i, j))
			cfg = append(cfg, distsys.EnsureArchetypeRefParam(fmt.Sprintf("s%d", j), &faulty{inner: m.MakeLocalShared(), ar: ar}))
		}
		for c, ch := range chans {
			refs = append(refs, fmt.Sprintf("A%d.ci%d", i, c), fmt.Sprintf("A%d.co%d", i, c))
			cfg = append(cfg, distsys.EnsureArchetypeRefParam(fmt.Sprintf("ci%d", c), &faulty{inner: resources.NewInputChan(ch, resources.WithInputChanReadTimeout(2*time.Millisecond)), ar: ar}))
			cfg = append(cfg, distsys.EnsureArchetypeRefParam(fmt.Sprintf("co%d", c), &faulty{inner: resources.NewOutputChan(ch), ar: ar}))
		}
		refs = append(refs, fmt.Sprintf("A%d.net", i))
		net := resources.NewTCPMailboxes(func(idx tla.Value) (resources.MailboxKind, string) {
			m := int(idx.AsNumber())
			if m < 0 || m >= len(k.Mboxes) {
				panic(fmt.Errorf("verif: no mailbox %d", m))
			}
			if k.Mboxes[m] == i {
				return resources.MailboxesLocal, addrs[m]
			}
			return resources.MailboxesRemote, addrs[m]
		}, resources.WithMailboxesReadTimeout(time.Duration(k.MboxTimeoutMs)*time.Millisecond),
			resources.WithMailboxesDialTimeout(2*time.Second), resources.WithMailboxesWriteTimeout(5*time.Second))
		// make the owner listen before anybody dials (the resource is otherwise realised at first use)
		for m, owner := range k.Mboxes {
			if owner == i {
				for attempt := 0; ; attempt++ {
					ok := func() (ok bool) {
						defer func() {
							if r := recover(); r != nil {
								ok = false
							}
						}()
						sub, err := net.Index(distsys.ArchetypeInterface{}, num(int32(m)))
						if err != nil {
							return false
						}
						localBoxes[m] = sub
						return true
					}()
					if ok || attempt > 5 {
						break
					}
					addrs[m] = freeAddr()
				}
			}
		}
		cfg = append(cfg, distsys.EnsureArchetypeRefParam("net", net))
		file := filepath.Join(traceDir, fmt.Sprintf("case%d-A%d.log", k.ID, i))
		res.Files = append(res.Files, file)
		ar.rec = &recorder{arch: i, rs: rs, file: trace.MakeLocalFileRecorderFromName(file)}
		cfg = append(cfg, distsys.SetTraceRecorder(ar.rec))
		arch := distsys.MPCalArchetype{
			Name:              ar.name,
			Label:             lblName(i, 0, len(ar.spec.Labels)),
			RequiredRefParams: refs,
			RequiredValParams: []string{},
			JumpTable:         distsys.MakeMPCalJumpTable(secs...),
			ProcTable:         distsys.MakeMPCalProcTable(),
			PreAmble: func(iface distsys.ArchetypeInterface) {
				for v, l := range ar.spec.Locals {
					iface.EnsureArchetypeResourceLocal(fmt.Sprintf("%s.v%d", ar.name, v), mkLocal(l))
				}
			},
		}
		ar.ctx = distsys.NewMPCalContext(num(int32(i)), arch, cfg...)
	}

	// start: every Run goes until its first park (attempt 1 begun) or returns
	runDone := make([]chan struct{}, na)
	for i, ar := range ars {
		ar := ar
		runDone[i] = make(chan struct{})
		ch := runDone[i]
		go func() {
			var err error
			func() {
				defer func() {
					if r := recover(); r != nil {
						err = fmt.Errorf("panic in Run: %v", r)
					}
				}()
				err = ar.ctx.Run()
			}()
			switch {
			case err == nil:
				ar.finished = "done"
			case errors.Is(err, errHalt):
				ar.finished = ""
			case errors.Is(err, errCrash):
				ar.finished = "crash"
			default:
				ar.finished = "error: " + err.Error()
			}
			ar.done = true
			ar.parkCh <- struct{}{}
			close(ch)
		}()
	}
	wait := func(ar *archRun) bool {
		select {
		case <-ar.parkCh:
			return true
		case <-time.After(20 * time.Second):
			return false
		}
	}
	hung := false
	for _, ar := range ars {
		if !wait(ar) {
			hung = true
		}
	}
	if !hung {
		res.Flags = make([]bool, len(k.Sched))
		for si, a := range k.Sched {
			if a < 0 || a >= na {
				continue
			}
			ar := ars[a]
			if ar.done || ar.atDone {
				continue
			}
			wasAtEnd := ar.atEnd
			nAtt := len(ar.perf)
			// delivery of a committed mailbox record is asynchronous (the receiver acks, then enqueues):
			// sample the queue lengths before a step that may commit, wait for them afterwards
			var before map[int]int
			if ar.atEnd && len(ar.wroteBoxes) > 0 {
				before = map[int]int{}
				for m := range ar.wroteBoxes {
					if localBoxes[m] != nil {
						if q, ok := resources.VerifC18MailboxQueued(localBoxes[m]); ok {
							before[m] = q
						}
					}
				}
			}
			nEv := len(ar.rec.copies)
			ar.stepCh <- true
			if !wait(ar) {
				hung = true
				break
			}
			if nAtt > 0 {
				att := ar.perf[nAtt-1] // the attempt that was running when the step began
				if wasAtEnd {
					ar.rec.mu.Lock()
					res.Flags[si] = att.End == "commit" && len(ar.rec.retained) > nEv && ar.rec.retained[nEv].IsAbort
					ar.rec.mu.Unlock()
				} else if len(att.Ops) > 0 {
					res.Flags[si] = att.Ops[len(att.Ops)-1].Outc == "abort"
				}
			}
			if before != nil && len(ar.rec.copies) > nEv && !ar.rec.retained[nEv].IsAbort {
				deadline := time.Now().Add(10 * time.Second)
				for m, q0 := range before {
					for {
						q, _ := resources.VerifC18MailboxQueued(localBoxes[m])
						if q >= q0+1 {
							break
						}
						if time.Now().After(deadline) {
							res.Errs = append(res.Errs, fmt.Sprintf("mailbox %d: committed record not enqueued within 10s", m))
							break
						}
						time.Sleep(50 * time.Microsecond)
					}
				}
			}
		}
	}
	if hung {
		res.Status = "hang"
	}
	// snapshot results now (logs are written synchronously by RecordEvent); tear down in the background
	rs.mu.Lock()
	res.Events = append([]eventOut{}, rs.events...)
	rs.mu.Unlock()
	for _, ar := range ars {
		res.Perf = append(res.Perf, append([]perfAttempt{}, ar.perf...))
		ar.rec.mu.Lock()
		for i, ev := range ar.rec.retained {
			res.RetTotal++
			a, _ := json.Marshal(elemsOut(ev.Elements))
			b, _ := json.Marshal(elemsOut(ar.rec.copies[i]))
			if string(a) != string(b) {
				res.Retained++
			}
		}
		ar.rec.mu.Unlock()
	}
	for _, ar := range ars {
		switch {
		case ar.done:
			res.Finished = append(res.Finished, ar.finished)
		case ar.atDone:
			res.Finished = append(res.Finished, "done")
		default:
			res.Finished = append(res.Finished, "")
		}
	}
	if res.Events == nil {
		res.Events = []eventOut{}
	}
	background.Add(1)
	go func() {
		defer background.Done()
		for i, ar := range ars {
			if !ar.done {
				select {
				case ar.stepCh <- false:
				case <-runDone[i]:
				case <-time.After(5 * time.Second):
				}
			}
		}
		for i := range ars {
			select {
			case <-runDone[i]:
			case <-time.After(15 * time.Second):
			}
		}
	}()
	return
}

func main() {
	log.SetOutput(io.Discard)
	traceDir = os.Getenv("PGO_TRACE_DIR")
	if traceDir == "" {
		fmt.Fprintln(os.Stderr, "c18: PGO_TRACE_DIR must be set in the environment at process start")
		os.Exit(2)
	}
	os.MkdirAll(traceDir, 0o750)
	probe := tla.WrapCausal(tla.MakeNumber(1), tla.VClock{}.Inc("p", tla.MakeNumber(0)))
	vclocksOn := probe.GetVClock() != nil

	in := bufio.NewReaderSize(os.Stdin, 1<<20)
	out := bufio.NewWriter(os.Stdout)
	dec := json.NewDecoder(in)
	var cases []kase
	for dec.More() {
		var k kase
		if err := dec.Decode(&k); err != nil {
			fmt.Fprintln(os.Stderr, "bad case:", err)
			os.Exit(2)
		}
		cases = append(cases, k)
	}
	results := make([]result, len(cases))
	workers := 6
	var wg sync.WaitGroup
	next := make(chan int)
	for w := 0; w < workers; w++ {
		wg.Add(1)
		go func() {
			defer wg.Done()
			for i := range next {
				func() {
					defer func() {
						if r := recover(); r != nil {
							results[i] = result{ID: cases[i].ID, Status: "harness-panic", Errs: []string{fmt.Sprint(r)}}
						}
					}()
					results[i] = runCase(cases[i])
				}()
				results[i].VClocks = vclocksOn
			}
		}()
	}
	for i := range cases {
		next <- i
	}
	close(next)
	wg.Wait()
	enc := json.NewEncoder(out)
	for _, r := range results {
		enc.Encode(r)
	}
	out.Flush()
	// let contexts shut down (tcpMailboxesLocal.Close sleeps 500 ms) without delaying the results
	done := make(chan struct{})
	go func() { background.Wait(); close(done) }()
	select {
	case <-done:
	case <-time.After(20 * time.Second):
	}
}
