// c03: calls the exported TLA+ operator functions of distsys/tla on generated arguments.
//
// The process re-executes itself as a worker (`c03 -worker`); the supervisor feeds one case at a
// time and kills the worker when a call exceeds its deadline (outcome "hang") or when the worker's
// heap grows beyond a cap (outcome "hang", detail "oom"), then starts a fresh worker.
//
// Input (stdin), one JSON case per line:
//   {"id":n, "op":name, "args":[V...], "fn":CL, "subs":[{"keys":[V...],"val":CL}...]}
//   V as in cmd/c05 (no wrappers);  CL = [name, V?] names a closure of the small library below
// Output: {"id":n, "out":"ok"|"tlatype"|"panic"|"hang", "val":R, "detail":string, "args_rep":[R...]}
package main

import (
	"bufio"
	"encoding/json"
	"errors"
	"flag"
	"fmt"
	"io"
	"os"
	"os/exec"
	"runtime"
	"time"

	"github.com/DistCompiler/pgo/distsys/tla"
)

type sub struct {
	Keys []json.RawMessage `json:"keys"`
	Val  []json.RawMessage `json:"val"`
}

type kase struct {
	ID   int               `json:"id"`
	Op   string            `json:"op"`
	Args []json.RawMessage `json:"args"`
	// WArgs: the same arguments with causal (vector-clock) wrappers around some nodes (tla.WrapCausal; the process
	// must have PGO_TRACE_DIR in its environment at start). The call is made a second time on them.
	WArgs []json.RawMessage `json:"wargs"`
	Fn    []json.RawMessage `json:"fn"`
	Subs []sub             `json:"subs"`
}

type result struct {
	ID     int           `json:"id"`
	Out    string        `json:"out"`
	Val    interface{}   `json:"val,omitempty"`
	Detail string        `json:"detail,omitempty"`
	Args   []interface{} `json:"args_rep,omitempty"` // the arguments as the runtime holds them (iteration order)
	WOut   string        `json:"wout,omitempty"`     // outcome of the call on the causally wrapped arguments
	WVal   interface{}   `json:"wval,omitempty"`
	WDet   string        `json:"wdetail,omitempty"`
	Wrapped int          `json:"wrapped,omitempty"`  // number of wrappers actually present in the built arguments
}

func build(raw json.RawMessage) tla.Value {
	var arr []json.RawMessage
	if err := json.Unmarshal(raw, &arr); err != nil {
		panic(fmt.Sprintf("bad value %s: %v", raw, err))
	}
	var tag string
	json.Unmarshal(arr[0], &tag)
	switch tag {
	case "d":
		return tla.Value{}
	case "b":
		var b bool
		json.Unmarshal(arr[1], &b)
		return tla.MakeBool(b)
	case "n":
		var n int64
		json.Unmarshal(arr[1], &n)
		return tla.MakeNumber(int32(n))
	case "s":
		var s string
		json.Unmarshal(arr[1], &s)
		return tla.MakeString(s)
	case "W":
		wrapCount++
		clock := tla.VClock{}.Inc("AClient", tla.MakeNumber(int32(wrapCount%3)))
		return tla.WrapCausal(build(arr[1]), clock)
	case "S", "T":
		var ms []json.RawMessage
		json.Unmarshal(arr[1], &ms)
		vs := make([]tla.Value, 0, len(ms))
		for _, m := range ms {
			vs = append(vs, build(m))
		}
		if tag == "S" {
			return tla.MakeSet(vs...)
		}
		return tla.MakeTuple(vs...)
	case "F":
		var ps [][]json.RawMessage
		json.Unmarshal(arr[1], &ps)
		var fields []tla.RecordField
		for _, p := range ps {
			fields = append(fields, tla.RecordField{Key: build(p[0]), Value: build(p[1])})
		}
		return tla.MakeRecord(fields)
	}
	panic("bad tag " + tag)
}

var wrapCount int

func countWrapped(v tla.Value) int {
	n := 0
	if v.GetVClock() != nil {
		n++
		v = v.StripVClock()
	}
	switch {
	case v.IsSet():
		it := v.AsSet().Iterator()
		for !it.Done() {
			k, _, _ := it.Next()
			n += countWrapped(k)
		}
	case v.IsTuple():
		it := v.AsTuple().Iterator()
		for !it.Done() {
			_, e := it.Next()
			n += countWrapped(e)
		}
	case v.IsFunction():
		it := v.AsFunction().Iterator()
		for !it.Done() {
			k, e, _ := it.Next()
			n += countWrapped(k) + countWrapped(e)
		}
	}
	return n
}

func dump(v tla.Value) interface{} {
	switch {
	case v.IsBool():
		return []interface{}{"b", v.AsBool()}
	case v.IsNumber():
		return []interface{}{"n", v.AsNumber()}
	case v.IsString():
		return []interface{}{"s", v.AsString()}
	case v.IsSet():
		ms := []interface{}{}
		it := v.AsSet().Iterator()
		for !it.Done() {
			k, _, _ := it.Next()
			ms = append(ms, dump(k))
		}
		return []interface{}{"S", ms}
	case v.IsTuple():
		ms := []interface{}{}
		it := v.AsTuple().Iterator()
		for !it.Done() {
			_, e := it.Next()
			ms = append(ms, dump(e))
		}
		return []interface{}{"T", ms}
	case v.IsFunction():
		ms := []interface{}{}
		it := v.AsFunction().Iterator()
		for !it.Done() {
			k, e, _ := it.Next()
			ms = append(ms, []interface{}{dump(k), dump(e)})
		}
		return []interface{}{"F", ms}
	}
	return []interface{}{"d"}
}

// ---- closure library (mirrored in coq/C03/Impl.v and lib/c03_sem.py) ----

func clName(cl []json.RawMessage) (string, tla.Value) {
	var name string
	json.Unmarshal(cl[0], &name)
	var v tla.Value
	if len(cl) > 1 {
		v = build(cl[1])
	}
	return name, v
}

func predN(cl []json.RawMessage) func([]tla.Value) bool {
	name, v := clName(cl)
	switch name {
	case "true":
		return func([]tla.Value) bool { return true }
	case "false":
		return func([]tla.Value) bool { return false }
	case "isnum":
		return func(a []tla.Value) bool { return a[0].IsNumber() }
	case "gt": // first argument > constant (type error on non-numbers)
		return func(a []tla.Value) bool { return tla.ModuleGreaterThanSymbol(a[0], v).AsBool() }
	case "eq":
		return func(a []tla.Value) bool { return tla.ModuleEqualsSymbol(a[0], v).AsBool() }
	case "neq":
		return func(a []tla.Value) bool { return tla.ModuleNotEqualsSymbol(a[0], v).AsBool() }
	case "in":
		return func(a []tla.Value) bool { return tla.ModuleInSymbol(a[0], v).AsBool() }
	case "lt2": // first < second (needs two bound variables)
		return func(a []tla.Value) bool { return tla.ModuleLessThanSymbol(a[0], a[1]).AsBool() }
	case "eq2":
		return func(a []tla.Value) bool { return tla.ModuleEqualsSymbol(a[0], a[1]).AsBool() }
	case "asbool":
		return func(a []tla.Value) bool { return a[0].AsBool() }
	case "tuplt": // \A <<x, y>> \in S : x < y, as MPCalGoCodegenPass emits a tuple-typed bound
		return func(a []tla.Value) bool {
			var x tla.Value = a[0].ApplyFunction(tla.MakeNumber(1))
			var y tla.Value = a[0].ApplyFunction(tla.MakeNumber(2))
			return tla.ModuleLessThanSymbol(x, y).AsBool()
		}
	}
	panic("unknown predicate " + name)
}

func pred1(cl []json.RawMessage) func(tla.Value) bool {
	p := predN(cl)
	return func(x tla.Value) bool { return p([]tla.Value{x}) }
}

func bodyN(cl []json.RawMessage) func([]tla.Value) tla.Value {
	name, v := clName(cl)
	switch name {
	case "id":
		return func(a []tla.Value) tla.Value { return a[0] }
	case "const":
		return func([]tla.Value) tla.Value { return v }
	case "tuple":
		return func(a []tla.Value) tla.Value { return tla.MakeTuple(a...) }
	case "plus": // first argument + constant
		return func(a []tla.Value) tla.Value { return tla.ModulePlusSymbol(a[0], v) }
	case "single": // {x}
		return func(a []tla.Value) tla.Value { return tla.MakeSet(a[0]) }
	case "isnum":
		return func(a []tla.Value) tla.Value { return tla.MakeBool(a[0].IsNumber()) }
	case "mod": // first argument % constant: collapses many arguments onto few results
		return func(a []tla.Value) tla.Value { return tla.ModulePercentSymbol(a[0], v) }
	case "last":
		return func(a []tla.Value) tla.Value { return a[len(a)-1] }
	case "tupswap": // {<<y, x>> : <<x, y>> \in S}
		return func(a []tla.Value) tla.Value {
			var x tla.Value = a[0].ApplyFunction(tla.MakeNumber(1))
			var y tla.Value = a[0].ApplyFunction(tla.MakeNumber(2))
			return tla.MakeTuple(y, x)
		}
	}
	panic("unknown body " + name)
}

func body1(cl []json.RawMessage) func(tla.Value) tla.Value {
	b := bodyN(cl)
	return func(x tla.Value) tla.Value { return b([]tla.Value{x}) }
}

func call(k kase, a []tla.Value) tla.Value {
	switch k.Op {
	case "Assert":
		return tla.ModuleAssert(a[0], a[1])
	case "ToString":
		return tla.ModuleToString(a[0])
	case "Eq":
		return tla.ModuleEqualsSymbol(a[0], a[1])
	case "Neq":
		return tla.ModuleNotEqualsSymbol(a[0], a[1])
	case "Not":
		return tla.ModuleLogicalNotSymbol(a[0])
	case "Equiv":
		return tla.ModuleEquivSymbol(a[0], a[1])
	case "And": // as the compiler emits the short-circuit operators
		return tla.MakeBool(a[0].AsBool() && a[1].AsBool())
	case "Or":
		return tla.MakeBool(a[0].AsBool() || a[1].AsBool())
	case "Implies":
		return tla.MakeBool(!a[0].AsBool() || a[1].AsBool())
	case "If":
		if a[0].AsBool() {
			return a[1]
		}
		return a[2]
	case "Plus":
		return tla.ModulePlusSymbol(a[0], a[1])
	case "Minus":
		return tla.ModuleMinusSymbol(a[0], a[1])
	case "Times":
		return tla.ModuleAsteriskSymbol(a[0], a[1])
	case "Pow":
		return tla.ModuleSuperscriptSymbol(a[0], a[1])
	case "Le":
		return tla.ModuleLessThanOrEqualSymbol(a[0], a[1])
	case "Ge":
		return tla.ModuleGreaterThanOrEqualSymbol(a[0], a[1])
	case "Lt":
		return tla.ModuleLessThanSymbol(a[0], a[1])
	case "Gt":
		return tla.ModuleGreaterThanSymbol(a[0], a[1])
	case "DotDot":
		return tla.ModuleDotDotSymbol(a[0], a[1])
	case "Div":
		return tla.ModuleDivSymbol(a[0], a[1])
	case "Mod":
		return tla.ModulePercentSymbol(a[0], a[1])
	case "Neg":
		return tla.ModuleNegationSymbol(a[0])
	case "In":
		return tla.ModuleInSymbol(a[0], a[1])
	case "NotIn":
		return tla.ModuleNotInSymbol(a[0], a[1])
	case "Intersect":
		return tla.ModuleIntersectSymbol(a[0], a[1])
	case "Union":
		return tla.ModuleUnionSymbol(a[0], a[1])
	case "SubsetEq":
		return tla.ModuleSubsetOrEqualSymbol(a[0], a[1])
	case "SetMinus":
		return tla.ModuleBackslashSymbol(a[0], a[1])
	case "SUBSET":
		return tla.ModulePrefixSubsetSymbol(a[0])
	case "UNION":
		return tla.ModulePrefixUnionSymbol(a[0])
	case "IsFiniteSet":
		return tla.ModuleIsFiniteSet(a[0])
	case "Cardinality":
		return tla.ModuleCardinality(a[0])
	case "Seq":
		return tla.ModuleSeq(a[0])
	case "Len":
		return tla.ModuleLen(a[0])
	case "Concat":
		return tla.ModuleOSymbol(a[0], a[1])
	case "Append":
		return tla.ModuleAppend(a[0], a[1])
	case "Head":
		return tla.ModuleHead(a[0])
	case "Tail":
		return tla.ModuleTail(a[0])
	case "SubSeq":
		return tla.ModuleSubSeq(a[0], a[1], a[2])
	case "SelectSeq":
		return tla.ModuleSelectSeq(a[0], a[1])
	case "ColonGt":
		return tla.ModuleColonGreaterThanSymbol(a[0], a[1])
	case "AtAt":
		return tla.ModuleDoubleAtSignSymbol(a[0], a[1])
	case "Domain":
		return tla.ModuleDomainSymbol(a[0])
	case "Apply":
		return a[0].ApplyFunction(a[1])
	case "SelectElement":
		return a[0].SelectElement(uint(a[1].AsNumber()))
	case "MakeSet":
		return tla.MakeSet(a...)
	case "MakeTuple":
		return tla.MakeTuple(a...)
	case "MakeRecord", "MakeRecordSet": // arguments alternate key, value
		var fs []tla.RecordField
		for i := 0; i+1 < len(a); i += 2 {
			fs = append(fs, tla.RecordField{Key: a[i], Value: a[i+1]})
		}
		if k.Op == "MakeRecord" {
			return tla.MakeRecord(fs)
		}
		return tla.MakeRecordSet(fs)
	case "MakeFunctionSet":
		return tla.MakeFunctionSet(a[0], a[1])
	case "CrossProduct":
		return tla.CrossProduct(a...)
	case "Forall":
		return tla.QuantifiedUniversal(a, predN(k.Fn))
	case "Exists":
		return tla.QuantifiedExistential(a, predN(k.Fn))
	case "SetRefinement":
		return tla.SetRefinement(a[0], pred1(k.Fn))
	case "SetComprehension":
		return tla.SetComprehension(a, bodyN(k.Fn))
	case "MakeFunction":
		return tla.MakeFunction(a, bodyN(k.Fn))
	case "Choose":
		return tla.Choose(a[0], pred1(k.Fn))
	case "Except":
		var subs []tla.FunctionSubstitutionRecord
		for _, s := range k.Subs {
			var keys []tla.Value
			for _, r := range s.Keys {
				keys = append(keys, build(r))
			}
			subs = append(subs, tla.FunctionSubstitutionRecord{Keys: keys, Value: body1(s.Val)})
		}
		return tla.FunctionSubstitution(a[0], subs)
	}
	panic("harness: unknown operator " + k.Op)
}

func runWrapped(k kase, res *result) {
	defer func() {
		if r := recover(); r != nil {
			if e, ok := r.(error); ok && errors.Is(e, tla.ErrTLAType) {
				res.WOut, res.WDet = "tlatype", e.Error()
			} else {
				res.WOut, res.WDet = "panic", fmt.Sprint(r)
			}
			if len(res.WDet) > 200 {
				res.WDet = res.WDet[:200]
			}
			res.WVal = nil
		}
	}()
	a := make([]tla.Value, len(k.WArgs))
	for i, r := range k.WArgs {
		a[i] = build(r)
		res.Wrapped += countWrapped(a[i])
	}
	v := call(k, a)
	res.WOut, res.WVal = "ok", dump(v)
}

func runCase(k kase) (res result) {
	res.ID = k.ID
	if len(k.WArgs) > 0 {
		defer runWrapped(k, &res)
	}
	defer func() {
		if r := recover(); r != nil {
			if e, ok := r.(error); ok && errors.Is(e, tla.ErrTLAType) {
				res.Out, res.Detail = "tlatype", e.Error()
			} else {
				res.Out, res.Detail = "panic", fmt.Sprint(r)
			}
			if len(res.Detail) > 200 {
				res.Detail = res.Detail[:200]
			}
			res.Val = nil
		}
	}()
	a := make([]tla.Value, len(k.Args))
	for i, r := range k.Args {
		a[i] = build(r)
		res.Args = append(res.Args, dump(a[i]))
	}
	v := call(k, a)
	res.Out, res.Val = "ok", dump(v)
	return
}

func worker() {
	// heap watchdog: a runaway allocation is a non-terminating call in practice
	go func() {
		var ms runtime.MemStats
		for {
			time.Sleep(20 * time.Millisecond)
			runtime.ReadMemStats(&ms)
			if ms.HeapAlloc > 768<<20 {
				os.Exit(3)
			}
		}
	}()
	in := bufio.NewReaderSize(os.Stdin, 1<<20)
	out := bufio.NewWriter(os.Stdout)
	dec := json.NewDecoder(in)
	enc := json.NewEncoder(out)
	enc.SetEscapeHTML(false)
	for dec.More() {
		var k kase
		if err := dec.Decode(&k); err != nil {
			fmt.Fprintln(os.Stderr, "bad case:", err)
			os.Exit(2)
		}
		enc.Encode(runCase(k))
		out.Flush()
	}
}

type proc struct {
	cmd *exec.Cmd
	in  io.WriteCloser
	out *bufio.Reader
}

func spawn() *proc {
	cmd := exec.Command(os.Args[0], "-worker")
	cmd.Stderr = os.Stderr
	in, _ := cmd.StdinPipe()
	outp, _ := cmd.StdoutPipe()
	if err := cmd.Start(); err != nil {
		fmt.Fprintln(os.Stderr, "cannot start worker:", err)
		os.Exit(2)
	}
	return &proc{cmd: cmd, in: in, out: bufio.NewReaderSize(outp, 1<<20)}
}

func (p *proc) kill() {
	p.in.Close()
	p.cmd.Process.Kill()
	p.cmd.Wait()
}

func main() {
	isWorker := flag.Bool("worker", false, "run as worker")
	deadline := flag.Duration("deadline", 2*time.Second, "per-call deadline")
	flag.Parse()
	if *isWorker {
		worker()
		return
	}
	in := bufio.NewReaderSize(os.Stdin, 1<<20)
	out := bufio.NewWriter(os.Stdout)
	defer out.Flush()
	enc := json.NewEncoder(out)
	enc.SetEscapeHTML(false)
	p := spawn()
	defer func() { p.kill() }()
	for {
		line, err := in.ReadBytes('\n')
		if len(line) > 1 {
			var k kase
			if e := json.Unmarshal(line, &k); e != nil {
				fmt.Fprintln(os.Stderr, "bad case:", e)
				os.Exit(2)
			}
			type reply struct {
				line []byte
				err  error
			}
			ch := make(chan reply, 1)
			pp := p
			go func() {
				if _, e := pp.in.Write(line); e != nil {
					ch <- reply{nil, e}
					return
				}
				l, e := pp.out.ReadBytes('\n')
				ch <- reply{l, e}
			}()
			select {
			case r := <-ch:
				if r.err != nil || len(r.line) == 0 {
					// the worker died (heap cap): treat as non-termination
					p.kill()
					enc.Encode(result{ID: k.ID, Out: "hang", Detail: "worker exited: memory cap exceeded or crash"})
					p = spawn()
				} else {
					out.Write(r.line)
				}
			case <-time.After(*deadline):
				p.kill()
				enc.Encode(result{ID: k.ID, Out: "hang", Detail: "deadline exceeded"})
				p = spawn()
			}
		}
		if err != nil {
			break
		}
	}
}
