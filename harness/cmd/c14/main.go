// c14: drives the real generated pbkvs.AReplica / pbkvs.AClient archetypes step by step
// (harness/steplib) under the real Run loop over the spec state of pbkvs.tla:
//
//	network = [<<id, typ>> |-> [queue |-> <<>>, enabled |-> TRUE]], fd, fs, primary, clientInput, clientOutput
//
// with the spec's mapping macros (ReliableFIFOLink, NetworkToggle, PerfectFD, FileSystem, LeaderElection,
// NetworkBufferLength, Channel) written over steplib.Access exactly as pbkvs.tla defines them.
//
// Input (stdin), one JSON case per line:
//
//	{"id":1,"nr":2,"nc":2,"ef":true,"input":[{"typ":3,"key":"k","value":"v1"},{"typ":1,"key":"k"}],
//	 "steps":[[p,alt,fail],...]}                       explicit schedule (replay, corpus, Coq witnesses)
//	{... "walk":{"seed":7,"n":300,"pcrash":0.02,"pcrashp":0.2,"pwrong":0.1}}   seeded random walk
//	{... "script":[{"op":"run","p":2,"until":"rcvMsg","min":1,"max":12},{"op":"step","p":1,"alt":-1,"fail":1}, ...]}
//	     scenario script (runs after "steps", before "walk"): "run" = process p takes attempts (enabled-looking branch,
//	     no crash) until its pc is `until` (after at least `min` attempts), it blocks, or `max` attempts;
//	     "step" = one attempt, alt -1 = the branch that looks enabled
//	{... "walk":{..., "frozen":[4],"frozen_n":80}}     processes that take no step during the first frozen_n walk steps
//	{... "wiring":true}   deployment wiring mode: `fs` of every replica and `primary` of every replica / client are the VERY
//	     resources systems/pbkvs/bootstrap wires up (getReplicaCtx / getClientCtx, through the add-only verif hooks
//	     bootstrap.VerifReplicaCtx / VerifClientCtx and distsys.VerifArchetypeResource); network, fd, channels stay spec state.
//	     fs: the archetype runs over the bootstrap's resource (tapped); "wiring" notes of a step report a read that did
//	     not return the last value this replica committed for that key, a foreign index, a panic. primary: the deployed
//	     leader-election resource is read next to the spec's mapping macro and a different answer is reported (the run goes on
//	     with the spec's value). The reported fs components are the committed writes seen through the tap.
//
// One step = process p (1..nr replicas, nr+1..nr+nc clients) runs ONE attempt of its current label;
// alt = branch dictated for the label's first `either`, fail = branch dictated for the mayFail either.
// Output: one JSON line per case: {"id", "init": components, "steps":[{p,alt,fail,pick,label,out,err,pc,d}], "err"}
// where d = the components of the spec state (and of the stepped process's locals) that changed.
package main

import (
	"bufio"
	"encoding/json"
	"fmt"
	"math/rand"
	"os"
	"sort"
	"strings"
	"time"

	"github.com/DistCompiler/pgo/distsys"
	"github.com/DistCompiler/pgo/distsys/tla"
	"github.com/DistCompiler/pgo/systems/pbkvs"
	"github.com/DistCompiler/pgo/systems/pbkvs/bootstrap"
	"github.com/DistCompiler/pgo/systems/pbkvs/configs"

	"verifharness/steplib"
)

type inputMsg struct {
	Typ   int     `json:"typ"`
	Key   string  `json:"key"`
	Value *string `json:"value"`
}

type walkParams struct {
	Seed    int64   `json:"seed"`
	N       int     `json:"n"`
	PCrash  float64 `json:"pcrash"`  // crash probability at an ordinary mayFail point
	PCrashP float64 `json:"pcrashp"` // crash probability of the current primary inside replication / sync
	PWrong  float64 `json:"pwrong"`  // probability of dictating the branch that looks disabled
	Frozen  []int   `json:"frozen"`  // slow processes: not scheduled during the first FrozenN steps
	FrozenN int     `json:"frozen_n"`
}

type scriptOp struct {
	Op    string `json:"op"`
	P     int    `json:"p"`
	Until string `json:"until"`
	Min   int    `json:"min"`
	Max   int    `json:"max"`
	Alt   int    `json:"alt"`
	Fail  int    `json:"fail"`
}

type kase struct {
	ID     int         `json:"id"`
	NR     int         `json:"nr"`
	NC     int         `json:"nc"`
	EF     bool        `json:"ef"`
	Input  []inputMsg  `json:"input"`
	Steps  [][]int     `json:"steps"`
	Script []scriptOp  `json:"script"`
	Wiring bool        `json:"wiring"`
	Probe  bool        `json:"probe"`
	Alive  []int       `json:"alive"`
	Walk   *walkParams `json:"walk"`
}

type stepOut struct {
	P     int                    `json:"p"`
	Alt   int                    `json:"alt"`
	Fail  int                    `json:"fail"`
	Pick  int                    `json:"pick"`
	Label string                 `json:"label"`
	Out   string                 `json:"out"`
	Err   string                 `json:"err,omitempty"`
	PC    string                 `json:"pc"`
	D     map[string]interface{} `json:"d"`
	Notes []string               `json:"wiring,omitempty"` // wiring mode: deviations of the bootstrap's resources seen in this attempt
}

type result struct {
	ID      int                    `json:"id"`
	Init    map[string]interface{} `json:"init"`
	Steps   []stepOut              `json:"steps"`
	Err     string                 `json:"err"`
	Probe   []string               `json:"probe,omitempty"`
	Checked int                    `json:"checked,omitempty"`
}

func num(i int) tla.Value { return tla.MakeNumber(int32(i)) }

var errAssert = func(what string) error { return fmt.Errorf("%w: %s", distsys.ErrAssertionFailed, what) }

// ---- the spec's mapping macros

var reliableFIFOLink = steplib.Macro{
	Read: func(a *steplib.Access) (tla.Value, error) {
		v := a.Var()
		if !v.ApplyFunction(tla.MakeString("enabled")).AsBool() {
			return tla.Value{}, errAssert("$variable.enabled")
		}
		q := v.ApplyFunction(tla.MakeString("queue"))
		if q.AsTuple().Len() == 0 {
			return tla.Value{}, distsys.ErrCriticalSectionAborted
		}
		a.SetVar(steplib.Rec("queue", tla.ModuleTail(q), "enabled", v.ApplyFunction(tla.MakeString("enabled"))))
		return tla.ModuleHead(q), nil
	},
	Write: func(a *steplib.Access, val tla.Value) error {
		v := a.Var()
		if !v.ApplyFunction(tla.MakeString("enabled")).AsBool() {
			return distsys.ErrCriticalSectionAborted
		}
		a.SetVar(steplib.Rec("queue", tla.ModuleAppend(v.ApplyFunction(tla.MakeString("queue")), val),
			"enabled", v.ApplyFunction(tla.MakeString("enabled"))))
		return nil
	},
}

var networkToggle = steplib.Macro{
	Read: func(a *steplib.Access) (tla.Value, error) {
		return a.Var().ApplyFunction(tla.MakeString("enabled")), nil
	},
	Write: func(a *steplib.Access, val tla.Value) error {
		a.SetVar(steplib.Rec("queue", a.Var().ApplyFunction(tla.MakeString("queue")), "enabled", val))
		return nil
	},
}

var perfectFD = steplib.Identity
var fileSystem = steplib.Identity

func specLeader(v tla.Value) tla.Value {
	els := steplib.Elems(v)
	if len(els) == 0 {
		return num(0)
	}
	min := els[0]
	for _, e := range els {
		if e.AsNumber() < min.AsNumber() {
			min = e
		}
	}
	return min
}

// LeaderElection mapping macro; in wiring mode the deployed resource bound to `primary` is read as well
func (s *system) leaderElection() steplib.Macro {
	return steplib.Macro{
		Read: func(a *steplib.Access) (tla.Value, error) {
			spec := specLeader(a.Var())
			if s.k.Wiring {
				self := int(a.Self().AsNumber())
				if res := s.donorPrimary[self]; res != nil {
					dv, err := safeRead(res)
					if err != nil {
						s.note("primary:self=%d:deployed-read-failed:%v", self, err)
					} else if !dv.Equal(spec) {
						s.note("primary:self=%d:deployed=%v:spec=%v", self, dv, spec)
					}
				}
			}
			return spec, nil
		},
		Write: func(a *steplib.Access, val tla.Value) error {
			a.SetVar(tla.ModuleBackslashSymbol(a.Var(), tla.MakeSet(val)))
			return nil
		},
	}
}

func safeRead(res distsys.ArchetypeResource) (v tla.Value, err error) {
	defer func() {
		if r := recover(); r != nil {
			err = fmt.Errorf("panic: %v", r)
		}
	}()
	return res.ReadValue(distsys.ArchetypeInterface{})
}

// ---- wiring mode: a tap on the bootstrap's fs resource of one replica

type fsWrite struct {
	key string
	val string
}

type fsTap struct {
	s       *system
	rep     int
	donor   distsys.ArchetypeResource
	pending []fsWrite
}

type fsTapSub struct {
	top  *fsTap
	path []tla.Value
	sub  distsys.ArchetypeResource
}

func (t *fsTap) Abort(iface distsys.ArchetypeInterface) chan struct{} {
	t.pending = nil
	return t.donor.Abort(iface)
}
func (t *fsTap) PreCommit(iface distsys.ArchetypeInterface) chan error {
	return t.donor.PreCommit(iface)
}
func (t *fsTap) Commit(iface distsys.ArchetypeInterface) chan struct{} {
	for _, w := range t.pending {
		if t.s.fsShadow[t.rep] == nil {
			t.s.fsShadow[t.rep] = map[string]string{}
		}
		t.s.fsShadow[t.rep][w.key] = w.val
	}
	t.pending = nil
	return t.donor.Commit(iface)
}
func (t *fsTap) ReadValue(iface distsys.ArchetypeInterface) (tla.Value, error) {
	return t.donor.ReadValue(iface)
}
func (t *fsTap) WriteValue(iface distsys.ArchetypeInterface, v tla.Value) error {
	return t.donor.WriteValue(iface, v)
}
func (t *fsTap) Close() error { return t.donor.Close() }
func (t *fsTap) Index(iface distsys.ArchetypeInterface, idx tla.Value) (distsys.ArchetypeResource, error) {
	return tapIndex(t, nil, t.donor, iface, idx)
}

func tapIndex(t *fsTap, path []tla.Value, res distsys.ArchetypeResource, iface distsys.ArchetypeInterface, idx tla.Value) (r distsys.ArchetypeResource, err error) {
	defer func() {
		if p := recover(); p != nil {
			t.s.note("fs:replica=%d:index%v:panic:%v", t.rep, append(append([]tla.Value{}, path...), idx), p)
			err = fmt.Errorf("bootstrap fs resource panicked on index %v: %v", idx, p)
		}
	}()
	sub, err := res.Index(iface, idx)
	if err != nil {
		return nil, err
	}
	np := append(append([]tla.Value{}, path...), idx)
	if len(np) == 1 && !(idx.IsNumber() && int(idx.AsNumber()) == t.rep) {
		t.s.note("fs:replica=%d:foreign-index:%v", t.rep, idx)
	}
	return &fsTapSub{top: t, path: np, sub: sub}, nil
}

func (u *fsTapSub) Abort(iface distsys.ArchetypeInterface) chan struct{} { return u.sub.Abort(iface) }
func (u *fsTapSub) PreCommit(iface distsys.ArchetypeInterface) chan error {
	return u.sub.PreCommit(iface)
}
func (u *fsTapSub) Commit(iface distsys.ArchetypeInterface) chan struct{} { return u.sub.Commit(iface) }
func (u *fsTapSub) Close() error                                          { return nil }
func (u *fsTapSub) Index(iface distsys.ArchetypeInterface, idx tla.Value) (distsys.ArchetypeResource, error) {
	return tapIndex(u.top, u.path, u.sub, iface, idx)
}
func (u *fsTapSub) expected() (string, bool) {
	if len(u.path) != 2 || !u.path[1].IsString() {
		return "", false
	}
	k := u.path[1].AsString()
	for i := len(u.top.pending) - 1; i >= 0; i-- {
		if u.top.pending[i].key == k {
			return u.top.pending[i].val, true
		}
	}
	return u.top.s.fsShadow[u.top.rep][k], true
}
func (u *fsTapSub) ReadValue(iface distsys.ArchetypeInterface) (tla.Value, error) {
	v, err := u.sub.ReadValue(iface)
	if err != nil {
		return v, err
	}
	if exp, ok := u.expected(); ok {
		if !v.IsString() || v.AsString() != exp {
			u.top.s.note("fs:replica=%d:key=%s:read=%v:last-own-committed-write=%q", u.top.rep, u.path[1].AsString(), v, exp)
		}
	} else {
		u.top.s.note("fs:replica=%d:read-at-unexpected-path:%v", u.top.rep, u.path)
	}
	return v, nil
}
func (u *fsTapSub) WriteValue(iface distsys.ArchetypeInterface, v tla.Value) error {
	if err := u.sub.WriteValue(iface, v); err != nil {
		return err
	}
	if len(u.path) == 2 && u.path[1].IsString() && v.IsString() {
		u.top.pending = append(u.top.pending, fsWrite{u.path[1].AsString(), v.AsString()})
	} else {
		u.top.s.note("fs:replica=%d:write-at-unexpected-path:%v:%v", u.top.rep, u.path, v)
	}
	return nil
}

func (s *system) note(format string, args ...interface{}) {
	s.notes = append(s.notes, fmt.Sprintf(format, args...))
}

var networkBufferLength = steplib.Macro{
	Read: func(a *steplib.Access) (tla.Value, error) {
		return tla.ModuleLen(a.Var().ApplyFunction(tla.MakeString("queue"))), nil
	},
	Write: func(a *steplib.Access, val tla.Value) error { return errAssert("FALSE (NetworkBufferLength write)") },
}

var channel = steplib.Macro{
	Read: func(a *steplib.Access) (tla.Value, error) {
		q := a.Var()
		if q.AsTuple().Len() == 0 {
			return tla.Value{}, distsys.ErrCriticalSectionAborted
		}
		a.SetVar(tla.ModuleTail(q))
		return tla.ModuleHead(q), nil
	},
	Write: func(a *steplib.Access, val tla.Value) error {
		a.SetVar(tla.ModuleAppend(a.Var(), val))
		return nil
	},
}

// ---- system set-up

type system struct {
	k       kase
	sys     *steplib.System
	prev    map[string]string // canonical text of every component
	crashed map[int]bool
	lastPC  map[int]string // pc of an archetype that has returned (failed assertion): it stays where it was
	// wiring mode
	keys         []string
	fsShadow     map[int]map[string]string         // committed writes seen through the tap, per replica
	donorPrimary map[int]distsys.ArchetypeResource // the bootstrap's `primary` resource of every process
	notes        []string
}

func procName(p int) string { return fmt.Sprintf("p%d", p) }

func (s *system) isReplica(p int) bool { return p >= 1 && p <= s.k.NR }

func build(k kase) (*system, error) {
	nn := k.NR + k.NC
	var netFields []tla.RecordField
	for id := 1; id <= nn; id++ {
		for typ := 1; typ <= 2; typ++ {
			netFields = append(netFields, tla.RecordField{Key: tla.MakeTuple(num(id), num(typ)),
				Value: steplib.Rec("queue", tla.MakeTuple(), "enabled", tla.ModuleTRUE)})
		}
	}
	var reps []tla.Value
	for r := 1; r <= k.NR; r++ {
		reps = append(reps, num(r))
	}
	keyset := map[string]bool{"KEY1": true}
	var msgs []tla.Value
	for _, m := range k.Input {
		keyset[m.Key] = true
		if m.Value != nil {
			msgs = append(msgs, steplib.Rec("typ", num(m.Typ), "body", steplib.Rec("key", tla.MakeString(m.Key), "value", tla.MakeString(*m.Value))))
		} else {
			msgs = append(msgs, steplib.Rec("typ", num(m.Typ), "body", steplib.Rec("key", tla.MakeString(m.Key))))
		}
	}
	var keys []tla.Value
	var keyNames []string
	for kk := range keyset {
		keys = append(keys, tla.MakeString(kk))
		keyNames = append(keyNames, kk)
	}
	sort.Strings(keyNames)
	sys := steplib.NewSystem(map[string]tla.Value{
		"network":      tla.MakeRecord(netFields),
		"fd":           steplib.ConstFn(reps, tla.ModuleFALSE),
		"fs":           steplib.ConstFn(reps, steplib.ConstFn(keys, tla.MakeString(""))),
		"primary":      tla.MakeSet(reps...),
		"clientInput":  tla.MakeTuple(msgs...),
		"clientOutput": tla.Value{},
	})
	consts := []distsys.MPCalContextConfigFn{
		distsys.DefineConstantValue("NUM_REPLICAS", num(k.NR)),
		distsys.DefineConstantValue("NUM_CLIENTS", num(k.NC)),
		distsys.DefineConstantValue("EXPLORE_FAIL", tla.MakeBool(k.EF)),
		distsys.DefineConstantValue("DEBUG", tla.ModuleFALSE),
	}
	s := &system{k: k, sys: sys, prev: map[string]string{}, crashed: map[int]bool{}, lastPC: map[int]string{},
		keys: keyNames, fsShadow: map[int]map[string]string{}, donorPrimary: map[int]distsys.ArchetypeResource{}}
	var root configs.Root
	if k.Wiring {
		root = configs.Root{NumReplicas: k.NR, NumClients: k.NC,
			FD:        configs.FD{PullInterval: time.Hour, Timeout: 20 * time.Millisecond},
			Mailboxes: configs.Mailboxes{ReceiveChanSize: 100, DialTimeout: 20 * time.Millisecond, ReadTimeout: 20 * time.Millisecond, WriteTimeout: 20 * time.Millisecond},
			Replicas:  map[int]configs.Replica{}, Clients: map[int]configs.Client{}}
		for r := 1; r <= k.NR; r++ {
			root.Replicas[r] = configs.Replica{ReqMailboxAddr: "127.0.0.1:1", RespMailboxAddr: "127.0.0.1:1", MonitorAddr: "127.0.0.1:1"}
		}
		for c := 1; c <= k.NC; c++ {
			root.Clients[c] = configs.Client{ReqMailboxAddr: "127.0.0.1:1", RespMailboxAddr: "127.0.0.1:1"}
		}
	}
	for r := 1; r <= k.NR; r++ {
		binds := []steplib.Binding{
			{Param: "net", Var: "network", Depth: 1, Macro: reliableFIFOLink},
			{Param: "fs", Var: "fs", Depth: 2, Macro: fileSystem},
			{Param: "fd", Var: "fd", Depth: 1, Macro: perfectFD},
			{Param: "netEnabled", Var: "network", Depth: 1, Macro: networkToggle},
			{Param: "primary", Var: "primary", Depth: 0, Macro: s.leaderElection()},
			{Param: "netLen", Var: "network", Depth: 1, Macro: networkBufferLength},
		}
		extra := append([]distsys.MPCalContextConfigFn{}, consts...)
		if k.Wiring {
			donor := bootstrap.VerifReplicaCtx(r, root)
			if donor.Archetype().Name != pbkvs.AReplica.Name {
				sys.Close()
				return nil, fmt.Errorf("bootstrap built a context of %s for replica %d", donor.Archetype().Name, r)
			}
			fs := distsys.VerifArchetypeResource(donor, "&AReplica.fs")
			pr := distsys.VerifArchetypeResource(donor, "&AReplica.primary")
			if fs == nil || pr == nil {
				sys.Close()
				return nil, fmt.Errorf("bootstrap did not bind fs / primary for replica %d", r)
			}
			for _, h := range []string{"net", "fd", "netEnabled", "netLen"} {
				if distsys.VerifArchetypeResource(donor, "&AReplica."+h) == nil {
					sys.Close()
					return nil, fmt.Errorf("bootstrap did not bind %s for replica %d", h, r)
				}
			}
			s.donorPrimary[r] = pr
			binds = append(binds[:1], binds[2:]...) // fs is the bootstrap's resource
			extra = append(extra, distsys.EnsureArchetypeRefParam("fs", &fsTap{s: s, rep: r, donor: fs}))
		}
		sys.AddProc(procName(r), num(r), pbkvs.AReplica, binds, extra...)
	}
	for c := k.NR + 1; c <= nn; c++ {
		if k.Wiring {
			donor := bootstrap.VerifClientCtx(c-k.NR, root, make(chan tla.Value), make(chan tla.Value))
			if donor.Archetype().Name != pbkvs.AClient.Name || !donor.IFace().Self().Equal(num(c)) {
				sys.Close()
				return nil, fmt.Errorf("bootstrap built a context of %s with self %v for client %d", donor.Archetype().Name, donor.IFace().Self(), c)
			}
			pr := distsys.VerifArchetypeResource(donor, "&AClient.primary")
			if pr == nil {
				sys.Close()
				return nil, fmt.Errorf("bootstrap did not bind primary for client %d", c)
			}
			for _, h := range []string{"net", "fd", "netLen", "input", "output"} {
				if distsys.VerifArchetypeResource(donor, "&AClient."+h) == nil {
					sys.Close()
					return nil, fmt.Errorf("bootstrap did not bind %s for client %d", h, c)
				}
			}
			s.donorPrimary[c] = pr
		}
		sys.AddProc(procName(c), num(c), pbkvs.AClient, []steplib.Binding{
			{Param: "net", Var: "network", Depth: 1, Macro: reliableFIFOLink},
			{Param: "fd", Var: "fd", Depth: 1, Macro: perfectFD},
			{Param: "primary", Var: "primary", Depth: 0, Macro: s.leaderElection()},
			{Param: "netLen", Var: "network", Depth: 1, Macro: networkBufferLength},
			{Param: "input", Var: "clientInput", Depth: 0, Macro: channel},
			{Param: "output", Var: "clientOutput", Depth: 0, Macro: steplib.Identity},
		}, consts...)
	}
	if err := sys.Start(); err != nil {
		sys.Close()
		return nil, err
	}
	return s, nil
}

// components of the observable spec state: every network link, fd, fs per replica, primary,
// clientInput, clientOutput, and per process its pc and the locals that live across labels
func (s *system) components() map[string]interface{} {
	out := map[string]interface{}{}
	st := s.sys.State
	nw := st.Get("network")
	for id := 1; id <= s.k.NR+s.k.NC; id++ {
		for typ := 1; typ <= 2; typ++ {
			out[fmt.Sprintf("net:%d:%d", id, typ)] = steplib.Enc(nw.ApplyFunction(tla.MakeTuple(num(id), num(typ))))
		}
	}
	out["fd"] = steplib.Enc(st.Get("fd"))
	out["primary"] = steplib.Enc(st.Get("primary"))
	fs := st.Get("fs")
	for r := 1; r <= s.k.NR; r++ {
		if s.k.Wiring {
			var fields []tla.RecordField
			for _, kk := range s.keys {
				fields = append(fields, tla.RecordField{Key: tla.MakeString(kk), Value: tla.MakeString(s.fsShadow[r][kk])})
			}
			out[fmt.Sprintf("fs:%d", r)] = steplib.Enc(tla.MakeRecord(fields))
		} else {
			out[fmt.Sprintf("fs:%d", r)] = steplib.Enc(fs.ApplyFunction(num(r)))
		}
	}
	out["cin"] = steplib.Enc(st.Get("clientInput"))
	out["cout"] = steplib.Enc(st.Get("clientOutput"))
	for p := 1; p <= s.k.NR+s.k.NC; p++ {
		pc := s.sys.PC(procName(p))
		if pc == "" {
			pc = s.lastPC[p]
		} else {
			s.lastPC[p] = pc
		}
		loc := map[string]interface{}{"pc": pc}
		names := []string{"AReplica.req", "AReplica.respBody", "AReplica.respTyp", "AReplica.idx", "AReplica.replicaSet", "AReplica.shouldSync", "AReplica.lastPutBody"}
		if !s.isReplica(p) {
			names = []string{"AClient.msg", "AClient.replica", "AClient.idx"}
		}
		for _, n := range names {
			if v, ok := s.sys.Local(procName(p), n); ok {
				loc[n[strings.Index(n, ".")+1:]] = steplib.Enc(v)
			}
		}
		out[fmt.Sprintf("loc:%d", p)] = loc
	}
	return out
}

func (s *system) delta() map[string]interface{} {
	cur := s.components()
	d := map[string]interface{}{}
	for k, v := range cur {
		t := steplib.Text(v)
		if s.prev[k] != t {
			d[k] = v
			s.prev[k] = t
		}
	}
	return d
}

func (s *system) localInt(p int, name string) (int, bool) {
	v, ok := s.sys.Local(procName(p), name)
	if !ok || !v.IsNumber() {
		return 0, false
	}
	return int(v.AsNumber()), true
}

func label(pc string) string {
	if i := strings.Index(pc, "."); i >= 0 {
		return pc[i+1:]
	}
	return pc
}

// choice vector for (alt, fail) given the label about to run: the generated code consults
// "<label>.0" (the either) and "<label>.1" (mayFail) in this order, when it reaches them
func (s *system) choices(p int, alt, fail int) []uint64 {
	lbl := label(s.sys.PC(procName(p)))
	a, f := uint64(alt), uint64(fail)
	switch lbl {
	case "replicaLoop":
		return []uint64{f}
	case "sndSyncReqLoop", "sndReplicaReqLoop":
		idx, _ := s.localInt(p, "AReplica.idx")
		if idx == p {
			return []uint64{f}
		}
		return []uint64{a, f}
	case "rcvReplicaRespLoop":
		return []uint64{a, f}
	default:
		return []uint64{a}
	}
}

var altIDs = map[string]bool{"AReplica.sndSyncReqLoop.0": true, "AReplica.rcvSyncRespLoop.0": true, "AReplica.handleBackup.0": true,
	"AReplica.sndReplicaReqLoop.0": true, "AReplica.rcvReplicaRespLoop.0": true, "AClient.sndReq.0": true, "AClient.rcvResp.0": true}
var failIDs = map[string]bool{"AReplica.replicaLoop.0": true, "AReplica.sndSyncReqLoop.1": true, "AReplica.sndReplicaReqLoop.1": true,
	"AReplica.rcvReplicaRespLoop.1": true}

func (s *system) step(p, alt, fail int) stepOut {
	name := procName(p)
	so := stepOut{P: p, Alt: alt, Fail: fail}
	s.notes = nil
	obs := s.sys.Step(name, s.choices(p, alt, fail))
	so.Notes = s.notes
	so.Label, so.Out, so.Err, so.PC = label(obs.Label), obs.Outcome, obs.Err, label(obs.PC)
	// report the branches the generated code actually took
	for _, c := range obs.Choices {
		switch {
		case altIDs[c.ID]:
			so.Alt = int(c.Index)
		case failIDs[c.ID]:
			so.Fail = int(c.Index)
		default:
			so.Out, so.Err = "error:other", "unknown choice point "+c.ID
		}
		if c.Ceiling != 2 {
			so.Out, so.Err = "error:other", fmt.Sprintf("choice point %s has ceiling %d", c.ID, c.Ceiling)
		}
	}
	// element taken by CHOOSE r \in replicaSet : TRUE (written to the local `replica` in this attempt)
	for _, e := range obs.Elems {
		if e.Kind == "w" && e.Name == "AReplica.replica" {
			if f, ok := e.Value.(int); ok {
				so.Pick = f
			}
		}
	}
	if so.Out == "commit" && so.PC == "failLabel" {
		s.crashed[p] = true
	}
	so.D = s.delta()
	return so
}

// ---- random walk, biased towards crashes of the primary during replication and failover sync

func (s *system) fdOf(r int) bool {
	fd := s.sys.State.Get("fd")
	if r < 1 || r > s.k.NR {
		return false
	}
	return fd.ApplyFunction(num(r)).AsBool()
}

func (s *system) leader() int {
	min := 0
	for _, e := range steplib.Elems(s.sys.State.Get("primary")) {
		if min == 0 || int(e.AsNumber()) < min {
			min = int(e.AsNumber())
		}
	}
	return min
}

func (s *system) queueLen(p, typ int) int {
	l := s.sys.State.Get("network").ApplyFunction(tla.MakeTuple(num(p), num(typ)))
	return l.ApplyFunction(tla.MakeString("queue")).AsTuple().Len()
}

// the branch of the label's either that looks enabled in the current state
func (s *system) autoAlt(p int) int {
	lbl := label(s.sys.PC(procName(p)))
	alt := 0
	switch lbl {
	case "sndSyncReqLoop", "sndReplicaReqLoop":
		idx, _ := s.localInt(p, "AReplica.idx")
		if s.fdOf(idx) {
			alt = 1
		}
	case "rcvSyncRespLoop", "rcvReplicaRespLoop", "rcvResp":
		if s.queueLen(p, 2) == 0 {
			alt = 1
		}
	case "handleBackup":
		if v, ok := s.sys.Local(procName(p), "AReplica.req"); ok && v.IsFunction() {
			if s.fdOf(int(v.ApplyFunction(tla.MakeString("from")).AsNumber())) {
				alt = 1
			}
		}
	case "sndReq":
		if s.fdOf(s.leader()) {
			alt = 1
		}
	}
	return alt
}

func (s *system) live(p int) bool {
	pc := label(s.sys.PC(procName(p)))
	return pc != "" && pc != "Done"
}

func (s *system) runScript(ops []scriptOp) ([]stepOut, error) {
	var out []stepOut
	for _, op := range ops {
		if op.P < 1 || op.P > s.k.NR+s.k.NC {
			return out, fmt.Errorf("bad script op %+v", op)
		}
		switch op.Op {
		case "step":
			if !s.live(op.P) {
				continue
			}
			alt := op.Alt
			if alt < 0 {
				alt = s.autoAlt(op.P)
			}
			out = append(out, s.step(op.P, alt, op.Fail))
		case "run":
			for n := 0; n < op.Max && s.live(op.P); n++ {
				if n >= op.Min && label(s.sys.PC(procName(op.P))) == op.Until {
					break
				}
				so := s.step(op.P, s.autoAlt(op.P), 0)
				out = append(out, so)
				if so.Out != "commit" {
					break
				}
			}
		default:
			return out, fmt.Errorf("bad script op %+v", op)
		}
	}
	return out, nil
}

func (s *system) walk(w walkParams) []stepOut {
	rng := rand.New(rand.NewSource(w.Seed))
	var out []stepOut
	nn := s.k.NR + s.k.NC
	blocked := map[int]string{}
	speed := map[int]int{}
	quiet := 0
	frozen := map[int]bool{}
	for _, p := range w.Frozen {
		frozen[p] = true
	}
	for i := 0; i < w.N; i++ {
		stateText := steplib.Text(s.sys.State.Snapshot())
		if i%25 == 0 {
			// processes run at different speeds for a while (starved replicas make failover syncs start from stale state)
			for p := 1; p <= nn; p++ {
				speed[p] = []int{8, 100, 100, 100, 300}[rng.Intn(5)]
			}
		}
		var cands []int
		var wts []int
		total := 0
		for p := 1; p <= nn; p++ {
			pc := label(s.sys.PC(procName(p)))
			if pc == "" || pc == "Done" {
				continue
			}
			if i < w.FrozenN && frozen[p] {
				continue
			}
			wt := speed[p]
			if blocked[p] == stateText {
				wt = 2
			}
			cands = append(cands, p)
			wts = append(wts, wt)
			total += wt
		}
		if len(cands) == 0 {
			break
		}
		allBlocked := true
		for _, c := range cands {
			if blocked[c] != stateText {
				allBlocked = false
			}
		}
		if allBlocked {
			quiet++
			if quiet > 6 {
				break // quiescent: every live process aborted in this state (a few more attempts try the other branches)
			}
		} else {
			quiet = 0
		}
		r := rng.Intn(total)
		p := cands[len(cands)-1]
		for j, c := range cands {
			if r < wts[j] {
				p = c
				break
			}
			r -= wts[j]
		}
		lbl := label(s.sys.PC(procName(p)))
		alt := s.autoAlt(p)
		if rng.Float64() < w.PWrong {
			alt = 1 - alt
		}
		fail := 0
		if s.k.EF && s.isReplica(p) {
			alive := 0
			for q := 1; q <= s.k.NR; q++ {
				if !s.crashed[q] {
					alive++
				}
			}
			pr := w.PCrash
			if p == s.leader() && (lbl == "sndReplicaReqLoop" || lbl == "rcvReplicaRespLoop" || lbl == "sndSyncReqLoop") {
				pr = w.PCrashP
			}
			if alive > 1 && rng.Float64() < pr {
				fail = 1
			}
		}
		so := s.step(p, alt, fail)
		out = append(out, so)
		if so.Out == "abort" {
			blocked[p] = stateText
		} else {
			delete(blocked, p)
		}
		if so.Out == "hang" || so.Out == "error:other" {
			break
		}
	}
	return out
}

func runCase(k kase) (res result) {
	res.ID = k.ID
	res.Steps = []stepOut{}
	defer func() {
		if r := recover(); r != nil {
			res.Err = fmt.Sprint("harness panic: ", r)
		}
	}()
	if k.NR < 1 || k.NR > 8 || k.NC < 0 || k.NC > 8 {
		res.Err = "bad configuration"
		return
	}
	s, err := build(k)
	if err != nil {
		res.Err = err.Error()
		return
	}
	defer s.sys.Close()
	res.Init = s.delta()
	for _, st := range k.Steps {
		if len(st) < 3 || st[0] < 1 || st[0] > k.NR+k.NC {
			res.Err = fmt.Sprintf("bad step %v", st)
			return
		}
		pc := label(s.sys.PC(procName(st[0])))
		if pc == "" || pc == "Done" {
			// a finished archetype takes no step: reported as such, the spec state is unchanged
			res.Steps = append(res.Steps, stepOut{P: st[0], Alt: st[1], Fail: st[2], Label: pc, Out: "finished", PC: pc, D: map[string]interface{}{}})
			continue
		}
		res.Steps = append(res.Steps, s.step(st[0], st[1], st[2]))
	}
	if len(k.Script) > 0 {
		so, err := s.runScript(k.Script)
		res.Steps = append(res.Steps, so...)
		if err != nil {
			res.Err = err.Error()
			return
		}
	}
	// an explicit prefix / a script may be followed by a random walk
	if k.Walk != nil {
		res.Steps = append(res.Steps, s.walk(*k.Walk)...)
	}
	return
}

func main() {
	in := bufio.NewReaderSize(os.Stdin, 1<<20)
	out := bufio.NewWriter(os.Stdout)
	defer out.Flush()
	dec := json.NewDecoder(in)
	enc := json.NewEncoder(out)
	for dec.More() {
		var k kase
		if err := dec.Decode(&k); err != nil {
			fmt.Fprintln(os.Stderr, "bad case:", err)
			os.Exit(2)
		}
		if k.Probe {
			enc.Encode(runProbe(k))
		} else {
			enc.Encode(runCase(k))
		}
		out.Flush()
	}
}
