package main

// Wiring probe: the index mapping of the network / netLen / fd resources that systems/pbkvs/bootstrap wires up.
//
//	{"id":1,"probe":true,"nr":3,"nc":2,"alive":[1,3]}
//
// Every replica and client context is built by the bootstrap package (verif hooks VerifReplicaCtx / VerifClientCtx) over
// a configuration with distinct loopback addresses for every mailbox and monitor. For every node d and every mailbox
// type t in {REQ_INDEX, RESP_INDEX} another node sends one tagged message to net[<<d, t>>] through ITS OWN network
// resource; node d must then see netLen[<<d, t>>] = 1, netLen of its other mailbox = 0, and read exactly that message
// from net[<<d, t>>] through its own resources. Monitors run (with a live archetype) for the replicas listed in "alive":
// every context must read fd[j] = FALSE for those and TRUE for the others. Deviations are returned in "probe".
import (
	"fmt"
	"net"
	"time"

	"github.com/DistCompiler/pgo/distsys"
	"github.com/DistCompiler/pgo/distsys/resources"
	"github.com/DistCompiler/pgo/distsys/tla"
	"github.com/DistCompiler/pgo/systems/pbkvs"
	"github.com/DistCompiler/pgo/systems/pbkvs/bootstrap"
	"github.com/DistCompiler/pgo/systems/pbkvs/configs"

	"verifharness/steplib"
)

type blocker struct{ ch chan struct{} }

func (b *blocker) BeginCriticalSection(string)           { <-b.ch }
func (b *blocker) NextFairnessCounter(string, uint) uint { return 0 }

func freeAddrs(n int) ([]string, error) {
	var ls []net.Listener
	var out []string
	for i := 0; i < n; i++ {
		l, err := net.Listen("tcp", "127.0.0.1:0")
		if err != nil {
			return nil, err
		}
		ls = append(ls, l)
		out = append(out, l.Addr().String())
	}
	for _, l := range ls {
		l.Close()
	}
	return out, nil
}

func await(ch chan struct{}) {
	if ch != nil {
		<-ch
	}
}

func runProbe(k kase) (res result) {
	res.ID = k.ID
	res.Steps = []stepOut{}
	res.Probe = []string{}
	defer func() {
		if r := recover(); r != nil {
			res.Probe = append(res.Probe, fmt.Sprintf("panic:%v", r))
		}
	}()
	dev := func(format string, args ...interface{}) { res.Probe = append(res.Probe, fmt.Sprintf(format, args...)) }
	nn := k.NR + k.NC
	addrs, err := freeAddrs(3*k.NR + 2*k.NC)
	if err != nil {
		res.Err = err.Error()
		return
	}
	root := configs.Root{NumReplicas: k.NR, NumClients: k.NC,
		FD:        configs.FD{PullInterval: 25 * time.Millisecond, Timeout: 200 * time.Millisecond},
		Mailboxes: configs.Mailboxes{ReceiveChanSize: 100, DialTimeout: 500 * time.Millisecond, ReadTimeout: 100 * time.Millisecond, WriteTimeout: 500 * time.Millisecond},
		Replicas:  map[int]configs.Replica{}, Clients: map[int]configs.Client{}}
	for r := 1; r <= k.NR; r++ {
		root.Replicas[r] = configs.Replica{ReqMailboxAddr: addrs[3*(r-1)], RespMailboxAddr: addrs[3*(r-1)+1], MonitorAddr: addrs[3*(r-1)+2]}
	}
	for c := 1; c <= k.NC; c++ {
		root.Clients[c] = configs.Client{ReqMailboxAddr: addrs[3*k.NR+2*(c-1)], RespMailboxAddr: addrs[3*k.NR+2*(c-1)+1]}
	}
	// monitors with a live archetype for the replicas in k.Alive
	alive := map[int]bool{}
	for _, r := range k.Alive {
		if r < 1 || r > k.NR {
			continue
		}
		alive[r] = true
		mon := resources.NewMonitor(root.Replicas[r].MonitorAddr)
		go mon.ListenAndServe()
		defer mon.Close()
		ph := func() distsys.ArchetypeResource { return resources.NewPlaceHolder() }
		bctx := distsys.NewMPCalContext(num(r), pbkvs.AReplica,
			distsys.SetFairnessCounter(&blocker{make(chan struct{})}),
			distsys.DefineConstantValue("NUM_REPLICAS", num(k.NR)), distsys.DefineConstantValue("NUM_CLIENTS", num(k.NC)),
			distsys.DefineConstantValue("EXPLORE_FAIL", tla.ModuleFALSE), distsys.DefineConstantValue("DEBUG", tla.ModuleFALSE),
			distsys.EnsureArchetypeRefParam("net", ph()), distsys.EnsureArchetypeRefParam("fs", ph()), distsys.EnsureArchetypeRefParam("fd", ph()),
			distsys.EnsureArchetypeRefParam("netEnabled", ph()), distsys.EnsureArchetypeRefParam("primary", ph()), distsys.EnsureArchetypeRefParam("netLen", ph()))
		go mon.RunArchetype(bctx)
	}
	bootstrap.ResetClientFailureDetector()
	type node struct {
		net, netLen, fd distsys.ArchetypeResource
		iface           distsys.ArchetypeInterface
	}
	nodes := map[int]*node{}
	for p := 1; p <= nn; p++ {
		var ctx *distsys.MPCalContext
		arch := "AReplica"
		if p <= k.NR {
			ctx = bootstrap.VerifReplicaCtx(p, root)
		} else {
			ctx = bootstrap.VerifClientCtx(p-k.NR, root, make(chan tla.Value), make(chan tla.Value))
			arch = "AClient"
		}
		if !ctx.IFace().Self().Equal(num(p)) {
			dev("self:node=%d:context-has-self=%v", p, ctx.IFace().Self())
		}
		n := &node{net: distsys.VerifArchetypeResource(ctx, "&"+arch+".net"), netLen: distsys.VerifArchetypeResource(ctx, "&"+arch+".netLen"),
			fd: distsys.VerifArchetypeResource(ctx, "&"+arch+".fd"), iface: ctx.IFace()}
		if n.net == nil || n.netLen == nil || n.fd == nil {
			res.Err = fmt.Sprintf("bootstrap did not bind net / netLen / fd for node %d", p)
			return
		}
		nodes[p] = n
		defer n.net.Close()
	}
	idx := func(d, t int) tla.Value { return tla.MakeTuple(num(d), num(t)) }
	// every node opens its own two mailboxes first (listeners)
	local := map[[2]int]distsys.ArchetypeResource{}
	for p := 1; p <= nn; p++ {
		for t := 1; t <= 2; t++ {
			h, err := nodes[p].net.Index(nodes[p].iface, idx(p, t))
			if err != nil {
				dev("net:node=%d:own-mailbox-%d:index-error:%v", p, t, err)
				continue
			}
			local[[2]int{p, t}] = h
		}
	}
	time.Sleep(30 * time.Millisecond)
	length := func(p, t int) (int, error) {
		h, err := nodes[p].netLen.Index(nodes[p].iface, idx(p, t))
		if err != nil {
			return 0, err
		}
		v, err := h.ReadValue(nodes[p].iface)
		if err != nil {
			return 0, err
		}
		return int(v.AsNumber()), nil
	}
	for d := 1; d <= nn; d++ {
		for t := 1; t <= 2; t++ {
			a := d%nn + 1
			msg := steplib.Rec("from", num(a), "to", num(d), "typ", num(t), "tag", tla.MakeString(fmt.Sprintf("probe-%d-%d", d, t)))
			h, err := nodes[a].net.Index(nodes[a].iface, idx(d, t))
			if err == nil {
				err = h.WriteValue(nodes[a].iface, msg)
			}
			if err != nil {
				dev("net:sender=%d:dst=%d:typ=%d:send-failed:%v", a, d, t, err)
				await(nodes[a].net.Abort(nodes[a].iface))
				continue
			}
			if ch := nodes[a].net.PreCommit(nodes[a].iface); ch != nil {
				<-ch
			}
			await(nodes[a].net.Commit(nodes[a].iface))
			// arrival at d: its netLen for that mailbox becomes 1, the other mailbox stays empty
			ok := false
			for try := 0; try < 160 && !ok; try++ {
				if l, err := length(d, t); err == nil && l == 1 {
					ok = true
				} else {
					time.Sleep(25 * time.Millisecond)
				}
			}
			if !ok {
				l, err := length(d, t)
				dev("netLen:node=%d:typ=%d:expected=1:read=%d:%v", d, t, l, err)
			}
			if l, err := length(d, 3-t); err != nil || l != 0 {
				dev("netLen:node=%d:typ=%d:expected=0:read=%d:%v (message sent to typ %d)", d, 3-t, l, err, t)
			}
			if lh := local[[2]int{d, t}]; lh != nil {
				v, err := lh.ReadValue(nodes[d].iface)
				if err != nil {
					dev("net:node=%d:typ=%d:message-from-%d-not-readable:%v", d, t, a, err)
					await(nodes[d].net.Abort(nodes[d].iface))
				} else {
					if !v.StripVClock().Equal(msg) {
						dev("net:node=%d:typ=%d:read=%v:expected=%v", d, t, v, msg)
					}
					await(nodes[d].net.Commit(nodes[d].iface))
				}
			}
			// drain whatever arrived in the other mailbox so that later checks start clean
			if oh := local[[2]int{d, 3 - t}]; oh != nil {
				if l, _ := length(d, 3-t); l > 0 {
					oh.ReadValue(nodes[d].iface)
					await(nodes[d].net.Commit(nodes[d].iface))
				}
			}
		}
	}
	// failure detector: fd[j] read by every node
	for p := 1; p <= nn; p++ {
		for j := 1; j <= k.NR; j++ {
			var v tla.Value
			var err error
			for try := 0; try < 240; try++ {
				var h distsys.ArchetypeResource
				h, err = nodes[p].fd.Index(nodes[p].iface, num(j))
				if err == nil {
					v, err = h.ReadValue(nodes[p].iface)
				}
				if err == nil && v.AsBool() == !alive[j] {
					break
				}
				time.Sleep(25 * time.Millisecond)
			}
			if err != nil {
				dev("fd:observer=%d:replica=%d:no-answer:%v", p, j, err)
			} else if v.AsBool() != !alive[j] {
				dev("fd:observer=%d:replica=%d:read=%v:expected=%v", p, j, v, !alive[j])
			}
		}
	}
	res.Checked = 2*nn*3 + nn*k.NR
	return
}
