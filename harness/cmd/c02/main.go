// c02: drives the REAL generated archetypes of systems/locksvc (AServer, AClient) label by label under the real
// MPCalContext.Run loop, against spec-state resources that hold the spec's global variables and implement the
// spec's mapping macro (ReliableLink over bags) transactionally. Used to validate the regenerated Go model
// (tools/go2coq + coq/C02/Sem.v symex_go + Bind_locksvc.v) against the code it was translated from, and to
// confirm on the real Go a distinguishing (state, choices) found by the model-vs-model search.
//
// Only the observation points the property lists are used: a FairnessCounter installed with SetFairnessCounter
// whose BeginCriticalSection is the scheduling gate and whose NextFairnessCounter returns dictated choices;
// SetTraceRecorder for the reads/writes of archetype-local resources and commit-vs-abort; resources bound with
// EnsureArchetypeRefParam.
//
// stdin : one JSON case per line {"id":..,"num_clients":N,"steps":[{"p":i,"ks":[..]},..]}   (p = 0: server, p = i: client i)
// stdout: one JSON line per case {"id":..,"init":STATE,"steps":[{"p":..,"self":..,"label":..,"outcome":"commit|abort|done|error|hang",
//         "fc":[[ceiling,returned],..],"picked":[coq value,..],"post":STATE}],"err":".."}
// STATE is a Coq term of type gstate (list (string * value)) over PGV.C02.Lang.
package main

import (
	"bufio"
	"encoding/json"
	"fmt"
	"os"
	"sort"
	"strings"
	"sync"
	"time"

	"github.com/DistCompiler/pgo/distsys"
	"github.com/DistCompiler/pgo/distsys/tla"
	"github.com/DistCompiler/pgo/distsys/trace"
	"github.com/DistCompiler/pgo/systems/locksvc"
)

// ---------------------------------------------------------------- values -> Coq

func coqStr(s string) string { return "\"" + strings.ReplaceAll(s, "\"", "\"\"") + "\"" }

func toCoq(v tla.Value) string {
	if v == (tla.Value{}) {
		return "VDefault"
	}
	switch {
	case v.IsBool():
		if v.AsBool() {
			return "VBool true"
		}
		return "VBool false"
	case v.IsNumber():
		return fmt.Sprintf("VNum (%d)", v.AsNumber())
	case v.IsString():
		return "VStr " + coqStr(v.AsString())
	case v.IsSet():
		var xs []string
		it := v.AsSet().Iterator()
		for !it.Done() {
			k, _, _ := it.Next()
			xs = append(xs, toCoq(k))
		}
		sort.Strings(xs)
		return "VSet (set_of_list [" + strings.Join(xs, "; ") + "])"
	case v.IsTuple():
		var xs []string
		it := v.AsTuple().Iterator()
		for !it.Done() {
			_, e := it.Next()
			xs = append(xs, toCoq(e))
		}
		return "VTup [" + strings.Join(xs, "; ") + "]"
	case v.IsFunction():
		var xs []string
		it := v.AsFunction().Iterator()
		for !it.Done() {
			k, e, _ := it.Next()
			xs = append(xs, "("+toCoq(k)+", "+toCoq(e)+")")
		}
		sort.Strings(xs)
		return "mkfun [" + strings.Join(xs, "; ") + "]"
	}
	return "VStr \"?unknown-kind\""
}

// canonical form and total order of coq/C02/Lang.v (vcmp; a function with domain 1..n is a tuple), so that the k-th
// element of a set is the same element here and in the models
type cv struct {
	kind int // 0 default, 1 bool, 2 num, 3 str, 4 set, 5 tuple, 6 function
	b    bool
	n    int64
	s    string
	xs   []cv
	kv   [][2]cv
}

func canon(v tla.Value) cv {
	if v == (tla.Value{}) {
		return cv{kind: 0}
	}
	switch {
	case v.IsBool():
		return cv{kind: 1, b: v.AsBool()}
	case v.IsNumber():
		return cv{kind: 2, n: int64(v.AsNumber())}
	case v.IsString():
		return cv{kind: 3, s: v.AsString()}
	case v.IsSet():
		var xs []cv
		it := v.AsSet().Iterator()
		for !it.Done() {
			k, _, _ := it.Next()
			xs = append(xs, canon(k))
		}
		sort.Slice(xs, func(i, j int) bool { return cmp(xs[i], xs[j]) < 0 })
		return cv{kind: 4, xs: xs}
	case v.IsTuple():
		var xs []cv
		it := v.AsTuple().Iterator()
		for !it.Done() {
			_, e := it.Next()
			xs = append(xs, canon(e))
		}
		return cv{kind: 5, xs: xs}
	case v.IsFunction():
		var kv [][2]cv
		it := v.AsFunction().Iterator()
		for !it.Done() {
			k, e, _ := it.Next()
			kv = append(kv, [2]cv{canon(k), canon(e)})
		}
		sort.Slice(kv, func(i, j int) bool { return cmp(kv[i][0], kv[j][0]) < 0 })
		seq := true
		for i, p := range kv {
			if p[0].kind != 2 || p[0].n != int64(i+1) {
				seq = false
			}
		}
		if seq {
			xs := make([]cv, len(kv))
			for i, p := range kv {
				xs[i] = p[1]
			}
			return cv{kind: 5, xs: xs}
		}
		return cv{kind: 6, kv: kv}
	}
	return cv{kind: 3, s: "?unknown-kind"}
}

func cmpInt(a, b int64) int {
	if a < b {
		return -1
	}
	if a > b {
		return 1
	}
	return 0
}

func cmp(a, b cv) int {
	if a.kind != b.kind {
		return cmpInt(int64(a.kind), int64(b.kind))
	}
	switch a.kind {
	case 1:
		x, y := 0, 0
		if a.b {
			x = 1
		}
		if b.b {
			y = 1
		}
		return cmpInt(int64(x), int64(y))
	case 2:
		return cmpInt(a.n, b.n)
	case 3:
		return strings.Compare(a.s, b.s)
	case 4, 5:
		for i := 0; i < len(a.xs) && i < len(b.xs); i++ {
			if c := cmp(a.xs[i], b.xs[i]); c != 0 {
				return c
			}
		}
		return cmpInt(int64(len(a.xs)), int64(len(b.xs)))
	case 6:
		for i := 0; i < len(a.kv) && i < len(b.kv); i++ {
			if c := cmp(a.kv[i][0], b.kv[i][0]); c != 0 {
				return c
			}
			if c := cmp(a.kv[i][1], b.kv[i][1]); c != 0 {
				return c
			}
		}
		return cmpInt(int64(len(a.kv)), int64(len(b.kv)))
	}
	return 0
}

// ---------------------------------------------------------------- spec state

type bagEntry struct {
	elem tla.Value
	n    int
}
type bag []bagEntry

func (b bag) card() int {
	c := 0
	for _, e := range b {
		c += e.n
	}
	return c
}
func (b bag) add(v tla.Value) bag {
	out := append(bag{}, b...)
	for i := range out {
		if out[i].elem.Equal(v) {
			out[i].n++
			return out
		}
	}
	return append(out, bagEntry{v, 1})
}
func (b bag) remove(v tla.Value) bag {
	var out bag
	for _, e := range b {
		if e.elem.Equal(v) {
			if e.n > 1 {
				out = append(out, bagEntry{e.elem, e.n - 1})
			}
		} else {
			out = append(out, e)
		}
	}
	return out
}
func (b bag) coq() string {
	var xs []string
	for _, e := range b {
		xs = append(xs, fmt.Sprintf("(%s, VNum %d)", toCoq(e.elem), e.n))
	}
	sort.Strings(xs)
	return "mkfun [" + strings.Join(xs, "; ") + "]"
}

// distinct elements in the canonical order of the models
func (b bag) elems() []tla.Value {
	idx := make([]int, len(b))
	for i := range idx {
		idx[i] = i
	}
	cs := make([]cv, len(b))
	for i := range b {
		cs[i] = canon(b[i].elem)
	}
	sort.Slice(idx, func(i, j int) bool { return cmp(cs[idx[i]], cs[idx[j]]) < 0 })
	out := make([]tla.Value, len(b))
	for i, k := range idx {
		out[i] = b[k].elem
	}
	return out
}

type world struct {
	n       int
	network []bag  // committed: network[id], id in 0..n
	hasLock []bool // committed
	// per process (0 = server, i = client i): archetype-local variables as seen in committed trace events
	locals []map[string]tla.Value
}

func (w *world) coq() string {
	var net, hl []string
	for id := 0; id <= w.n; id++ {
		net = append(net, fmt.Sprintf("(VNum %d, %s)", id, w.network[id].coq()))
		b := "false"
		if w.hasLock[id] {
			b = "true"
		}
		hl = append(hl, fmt.Sprintf("(VNum %d, VBool %s)", id, b))
	}
	// per-process variables are functions over the process ids of their process set
	var pcs []string
	for p := 0; p <= w.n; p++ {
		pcs = append(pcs, fmt.Sprintf("(VNum %d, %s)", p, toCoq(w.locals[p]["pc"])))
	}
	parts := []string{
		"(\"network\", mkfun [" + strings.Join(net, "; ") + "])",
		"(\"hasLock\", mkfun [" + strings.Join(hl, "; ") + "])",
		"(\"msg\", mkfun [(VNum 0, " + toCoq(w.locals[0]["msg"]) + ")])",
		"(\"q\", mkfun [(VNum 0, " + toCoq(w.locals[0]["q"]) + ")])",
		"(\"pc\", mkfun [" + strings.Join(pcs, "; ") + "])",
	}
	return "[" + strings.Join(parts, "; ") + "]"
}

// ---------------------------------------------------------------- per-process driver state

type proc struct {
	w      *world
	id     int
	ready  chan string   // pc at which the next attempt is about to start
	goCh   chan []uint   // dictated choices for the attempt
	done   chan error    // Run returned
	ks     []uint        // remaining dictated choices of the current attempt
	fc     [][2]uint     // (ceiling, returned) of the current attempt
	picked []string      // elements picked inside mapping macros (Coq text)
	events []trace.Event // events recorded since the last gate
	mu     sync.Mutex
	// pending (uncommitted) effects of the current attempt on the spec state
	pNet  map[int]bag
	pLock map[int]bool
	pc    string
}

func (p *proc) nextChoice() uint {
	if len(p.ks) == 0 {
		return 0
	}
	c := p.ks[0]
	p.ks = p.ks[1:]
	return c
}

// FairnessCounter: the scheduling gate
func (p *proc) BeginCriticalSection(pc string) {
	p.ready <- pc
	ks := <-p.goCh
	p.ks, p.fc, p.picked = ks, nil, nil
	p.pNet, p.pLock = map[int]bag{}, map[int]bool{}
}
func (p *proc) NextFairnessCounter(id string, ceiling uint) uint {
	c := p.nextChoice() % ceiling
	p.fc = append(p.fc, [2]uint{ceiling, c})
	return c
}

// trace.Recorder
func (p *proc) RecordEvent(e trace.Event) {
	// the runtime re-uses the backing array of Elements for the next attempt: copy
	e.Elements = append([]trace.Element(nil), e.Elements...)
	p.mu.Lock()
	p.events = append(p.events, e)
	p.mu.Unlock()
}

func (p *proc) curNet(id int) bag {
	if b, ok := p.pNet[id]; ok {
		return b
	}
	return p.w.network[id]
}

// ---------------------------------------------------------------- resources

// network[_] via ReliableLink
type netRes struct {
	distsys.ArchetypeResourceMapMixin
	p *proc
}
type netCell struct {
	distsys.ArchetypeResourceLeafMixin
	p  *proc
	id int
}

func (r *netRes) Index(iface distsys.ArchetypeInterface, index tla.Value) (distsys.ArchetypeResource, error) {
	return &netCell{p: r.p, id: int(index.AsNumber())}, nil
}
func (r *netRes) Abort(distsys.ArchetypeInterface) chan struct{}  { r.p.pNet = map[int]bag{}; return nil }
func (r *netRes) PreCommit(distsys.ArchetypeInterface) chan error { return nil }
func (r *netRes) Commit(distsys.ArchetypeInterface) chan struct{} {
	for id, b := range r.p.pNet {
		r.p.w.network[id] = b
	}
	r.p.pNet = map[int]bag{}
	return nil
}
func (r *netRes) Close() error { return nil }

func (c *netCell) Abort(distsys.ArchetypeInterface) chan struct{}  { return nil }
func (c *netCell) PreCommit(distsys.ArchetypeInterface) chan error { return nil }
func (c *netCell) Commit(distsys.ArchetypeInterface) chan struct{} { return nil }
func (c *netCell) Close() error                                    { return nil }

// read { await BagCardinality($variable) > 0; with (readMsg \in BagToSet($variable)) { $variable := $variable (-) SetToBag({readMsg}); yield readMsg; }; }
func (c *netCell) ReadValue(distsys.ArchetypeInterface) (tla.Value, error) {
	b := c.p.curNet(c.id)
	if b.card() == 0 {
		return tla.Value{}, distsys.ErrCriticalSectionAborted
	}
	es := b.elems()
	e := es[int(c.p.nextChoice())%len(es)]
	c.p.picked = append(c.p.picked, toCoq(e))
	c.p.pNet[c.id] = b.remove(e)
	return e, nil
}

// write { yield $variable (+) SetToBag({$value}); }
func (c *netCell) WriteValue(_ distsys.ArchetypeInterface, v tla.Value) error {
	c.p.pNet[c.id] = c.p.curNet(c.id).add(v)
	return nil
}

// hasLock[_] (no mapping macro)
type lockRes struct {
	distsys.ArchetypeResourceMapMixin
	p *proc
}
type lockCell struct {
	distsys.ArchetypeResourceLeafMixin
	p  *proc
	id int
}

func (r *lockRes) Index(_ distsys.ArchetypeInterface, index tla.Value) (distsys.ArchetypeResource, error) {
	return &lockCell{p: r.p, id: int(index.AsNumber())}, nil
}
func (r *lockRes) Abort(distsys.ArchetypeInterface) chan struct{}  { r.p.pLock = map[int]bool{}; return nil }
func (r *lockRes) PreCommit(distsys.ArchetypeInterface) chan error { return nil }
func (r *lockRes) Commit(distsys.ArchetypeInterface) chan struct{} {
	for id, b := range r.p.pLock {
		r.p.w.hasLock[id] = b
	}
	r.p.pLock = map[int]bool{}
	return nil
}
func (r *lockRes) Close() error                                     { return nil }
func (c *lockCell) Abort(distsys.ArchetypeInterface) chan struct{}  { return nil }
func (c *lockCell) PreCommit(distsys.ArchetypeInterface) chan error { return nil }
func (c *lockCell) Commit(distsys.ArchetypeInterface) chan struct{} { return nil }
func (c *lockCell) Close() error                                    { return nil }
func (c *lockCell) ReadValue(distsys.ArchetypeInterface) (tla.Value, error) {
	if b, ok := c.p.pLock[c.id]; ok {
		return tla.MakeBool(b), nil
	}
	return tla.MakeBool(c.p.w.hasLock[c.id]), nil
}
func (c *lockCell) WriteValue(_ distsys.ArchetypeInterface, v tla.Value) error {
	c.p.pLock[c.id] = v.AsBool()
	return nil
}

// ---------------------------------------------------------------- cases

type step struct {
	P  int    `json:"p"`
	Ks []uint `json:"ks"`
}
type kase struct {
	ID         int    `json:"id"`
	NumClients int    `json:"num_clients"`
	Steps      []step `json:"steps"`
}
type stepOut struct {
	P       int       `json:"p"`
	Self    int       `json:"self"`
	Label   string    `json:"label"`
	Outcome string    `json:"outcome"`
	FC      [][2]uint `json:"fc"`
	Picked  []string  `json:"picked"`
	Post    string    `json:"post"`
}
type caseOut struct {
	ID    int       `json:"id"`
	Init  string    `json:"init"`
	Steps []stepOut `json:"steps"`
	Err   string    `json:"err"`
}

func stripArch(l string) string {
	if i := strings.Index(l, "."); i >= 0 {
		return l[i+1:]
	}
	return l
}

func runCase(k kase) (out caseOut) {
	out.ID = k.ID
	defer func() {
		if r := recover(); r != nil {
			out.Err = fmt.Sprintf("panic: %v", r)
		}
	}()
	n := k.NumClients
	w := &world{n: n, network: make([]bag, n+1), hasLock: make([]bool, n+1), locals: make([]map[string]tla.Value, n+1)}
	procs := make([]*proc, n+1)
	ctxs := make([]*distsys.MPCalContext, n+1)
	alive := make([]bool, n+1)
	for i := 0; i <= n; i++ {
		p := &proc{w: w, id: i, ready: make(chan string), goCh: make(chan []uint), done: make(chan error, 1)}
		procs[i] = p
		common := []distsys.MPCalContextConfigFn{
			distsys.DefineConstantValue("NumClients", tla.MakeNumber(int32(n))),
			distsys.SetFairnessCounter(p),
			distsys.SetTraceRecorder(p),
		}
		if i == 0 {
			w.locals[0] = map[string]tla.Value{"pc": tla.MakeString("serverLoop"), "msg": {}, "q": tla.MakeTuple()}
			ctxs[0] = distsys.NewMPCalContext(tla.MakeNumber(0), locksvc.AServer, append(common,
				distsys.EnsureArchetypeRefParam("network", &netRes{p: p}))...)
		} else {
			w.locals[i] = map[string]tla.Value{"pc": tla.MakeString("acquireLock")}
			ctxs[i] = distsys.NewMPCalContext(tla.MakeNumber(int32(i)), locksvc.AClient, append(common,
				distsys.EnsureArchetypeRefParam("network", &netRes{p: p}),
				distsys.EnsureArchetypeRefParam("hasLock", &lockRes{p: p}))...)
		}
		alive[i] = true
		go func(i int) { procs[i].done <- ctxs[i].Run() }(i)
	}
	// every process first arrives at its gate
	wait := func(p *proc) (string, string) { // -> (kind, pc|err)
		select {
		case pc := <-p.ready:
			return "ready", pc
		case err := <-p.done:
			if err != nil {
				return "error", err.Error()
			}
			return "done", ""
		case <-time.After(10 * time.Second):
			return "hang", ""
		}
	}
	for i := 0; i <= n; i++ {
		kind, pc := wait(procs[i])
		if kind != "ready" {
			out.Err = fmt.Sprintf("process %d did not reach its first gate: %s %s", i, kind, pc)
			return
		}
		procs[i].pc = pc
	}
	out.Init = w.coq()
	for _, s := range k.Steps {
		if s.P < 0 || s.P > n {
			continue
		}
		p := procs[s.P]
		so := stepOut{P: s.P, Self: s.P}
		if !alive[s.P] {
			so.Outcome, so.Post = "finished", w.coq()
			out.Steps = append(out.Steps, so)
			continue
		}
		so.Label = stripArch(p.pc)
		p.mu.Lock()
		p.events = nil
		p.mu.Unlock()
		p.goCh <- s.Ks
		kind, pc := wait(p)
		so.FC, so.Picked = p.fc, p.picked
		// the event of the attempt that just ended
		p.mu.Lock()
		evs := p.events
		p.mu.Unlock()
		committed := false
		for _, e := range evs {
			if !e.IsAbort {
				committed = true
				for _, el := range e.Elements {
					if we, ok := el.(trace.WriteElement); ok {
						name := we.Name
						if we.Prefix != "" {
							name = we.Prefix + "." + we.Name
						}
						switch name {
						case ".pc":
							w.locals[s.P]["pc"] = tla.MakeString(stripArch(we.Value.AsString()))
						case "AServer.msg":
							w.locals[s.P]["msg"] = we.Value
						case "AServer.q":
							w.locals[s.P]["q"] = we.Value
						}
					}
				}
			}
		}
		switch kind {
		case "ready":
			p.pc = pc
			if committed {
				so.Outcome = "commit"
			} else {
				so.Outcome = "abort"
			}
		case "done":
			alive[s.P] = false
			so.Outcome = "done"
		case "error":
			alive[s.P] = false
			so.Outcome = "error:" + pc
		case "hang":
			alive[s.P] = false
			so.Outcome = "hang"
		}
		so.Post = w.coq()
		out.Steps = append(out.Steps, so)
	}
	// let every process still at its gate finish: a Stop would block on the gate, so the goroutines are abandoned
	return
}

func main() {
	in := bufio.NewScanner(os.Stdin)
	in.Buffer(make([]byte, 1<<20), 1<<26)
	enc := json.NewEncoder(os.Stdout)
	for in.Scan() {
		line := strings.TrimSpace(in.Text())
		if line == "" {
			continue
		}
		var k kase
		if err := json.Unmarshal([]byte(line), &k); err != nil {
			enc.Encode(caseOut{Err: "bad case: " + err.Error()})
			continue
		}
		enc.Encode(runCase(k))
	}
}
