package main

import (
	"bytes"
	"encoding/gob"
	"fmt"
	"os"

	"github.com/DistCompiler/pgo/distsys"
	"github.com/DistCompiler/pgo/distsys/resources"
	"github.com/DistCompiler/pgo/distsys/tla"
	"github.com/dgraph-io/badger/v3"
)

func main() {
	dir, _ := os.MkdirTemp("/var/tmp", "probe")
	defer os.RemoveAll(dir)
	db, err := badger.Open(badger.DefaultOptions(dir).WithLogger(nil))
	if err != nil {
		panic(err)
	}
	defer db.Close()
	n := 0
	arch := distsys.MPCalArchetype{
		Name: "A", Label: "A.l",
		RequiredRefParams: []string{"A.x"},
		JumpTable: distsys.MakeMPCalJumpTable(distsys.MPCalCriticalSection{Name: "A.l", Body: func(iface distsys.ArchetypeInterface) error {
			n++
			if n > 1 {
				return distsys.ErrDone
			}
			x, err := iface.RequireArchetypeResourceRef("A.x")
			if err != nil {
				return err
			}
			return iface.Write(x, []tla.Value{tla.MakeNumber(1)}, tla.MakeNumber(42))
		}}),
		ProcTable: distsys.MakeMPCalProcTable(),
		PreAmble:  func(distsys.ArchetypeInterface) {},
	}
	loc := distsys.NewLocalArchetypeResource(tla.MakeTuple(tla.MakeNumber(7), tla.MakeNumber(8)))
	ctx := distsys.NewMPCalContext(tla.MakeString("self"), arch,
		distsys.EnsureArchetypeRefParam("x", resources.MakePersistent("x", db, loc)))
	fmt.Println("run:", ctx.Run())
	fmt.Println("value:", ctx.IFace().ReadArchetypeResourceLocal)
	st, _ := loc.GetState()
	var v tla.Value
	gob.NewDecoder(bytes.NewBuffer(st)).Decode(&v)
	fmt.Println("in-memory:", v)
	err = db.View(func(txn *badger.Txn) error {
		item, err := txn.Get([]byte("pres-x"))
		if err != nil {
			return err
		}
		return item.Value(func(val []byte) error {
			var ans tla.Value
			e := gob.NewDecoder(bytes.NewBuffer(val)).Decode(&ans)
			fmt.Println("db:", ans, e)
			return nil
		})
	})
	fmt.Println("db err:", err)
}
