// c01: runs real distsys.MPCalContexts whose critical-section bodies interpret a scripted list of
// operations, with fault-injecting wrapper resources bound alongside real resources, and reports
// for every attempt: commit / abort / crash / panic-in-abort, the values the successful operations
// returned, and what can be seen of every resource afterwards.
//
// stdin : one JSON case per line (see type kase); stdout: one JSON result per line.
package main

import (
	"bufio"
	"bytes"
	"encoding/gob"
	"encoding/json"
	"fmt"
	"io"
	"log"
	"net"
	"os"
	"path/filepath"
	"sort"
	"strconv"
	"strings"
	"sync"
	"time"

	"github.com/DistCompiler/pgo/distsys"
	"github.com/DistCompiler/pgo/distsys/hashmap"
	"github.com/DistCompiler/pgo/distsys/resources"
	"github.com/DistCompiler/pgo/distsys/tla"
	"github.com/DistCompiler/pgo/distsys/trace"
	"github.com/DistCompiler/pgo/systems/raftkvs"
	"github.com/dgraph-io/badger/v3"
)

// ---------------------------------------------------------------- values <-> JSON
// null = defaultInitValue, bool, number, string, {"t":[..]} tuple, {"r":[[k,v],..]} record/function

func toTLA(j interface{}) tla.Value {
	switch x := j.(type) {
	case nil:
		return tla.Value{}
	case bool:
		return tla.MakeBool(x)
	case float64:
		return tla.MakeNumber(int32(x))
	case string:
		return tla.MakeString(x)
	case map[string]interface{}:
		if t, ok := x["t"]; ok {
			var elems []tla.Value
			for _, e := range t.([]interface{}) {
				elems = append(elems, toTLA(e))
			}
			return tla.MakeTuple(elems...)
		}
		if r, ok := x["r"]; ok {
			var fields []tla.RecordField
			for _, kv := range r.([]interface{}) {
				p := kv.([]interface{})
				fields = append(fields, tla.RecordField{Key: toTLA(p[0]), Value: toTLA(p[1])})
			}
			return tla.MakeRecord(fields)
		}
	}
	panic(fmt.Sprintf("bad value %v", j))
}

func fromTLA(v tla.Value) interface{} {
	v = v.StripVClock()
	switch {
	case v.IsBool():
		return v.AsBool()
	case v.IsNumber():
		return v.AsNumber()
	case v.IsString():
		return v.AsString()
	case v.IsTuple():
		elems := []interface{}{}
		it := v.AsTuple().Iterator()
		for !it.Done() {
			_, e := it.Next()
			elems = append(elems, fromTLA(e))
		}
		return map[string]interface{}{"t": elems}
	case v.IsFunction():
		type kv struct {
			ks string
			k  interface{}
			v  interface{}
		}
		var kvs []kv
		it := v.AsFunction().Iterator()
		for !it.Done() {
			k, e, _ := it.Next()
			jk := fromTLA(k)
			b, _ := json.Marshal(jk)
			kvs = append(kvs, kv{string(b), jk, fromTLA(e)})
		}
		sort.Slice(kvs, func(i, j int) bool { return kvs[i].ks < kvs[j].ks })
		out := []interface{}{}
		for _, p := range kvs {
			out = append(out, []interface{}{p.k, p.v})
		}
		return map[string]interface{}{"r": out}
	default:
		return nil
	}
}

func toTLAs(js []interface{}) []tla.Value {
	var out []tla.Value
	for _, j := range js {
		out = append(out, toTLA(j))
	}
	return out
}

func keyString(j interface{}) string { b, _ := json.Marshal(j); return string(b) }

func tup(xs ...interface{}) interface{} {
	if xs == nil {
		xs = []interface{}{}
	}
	return map[string]interface{}{"t": xs}
}

// ---------------------------------------------------------------- case format

type resDesc struct {
	Name    string          `json:"name"`
	Kind    string          `json:"kind"`
	Init    interface{}     `json:"init"`
	Items   []interface{}   `json:"items"`
	Files   [][]interface{} `json:"files"`
	Table   [][]interface{} `json:"table"`
	Timeout int             `json:"timeout_ms"`
}

type faultDesc struct {
	Op   int `json:"op"`
	Call int `json:"call"`
}

type attemptDesc struct {
	Env    [][]interface{} `json:"env"`
	Ops    [][]interface{} `json:"ops"`
	Fault  *faultDesc      `json:"fault"`
	PCFail []string        `json:"pcfail"`
	// [map resource, element key]: that element's PreCommit refuses in this attempt
	ElemPCFail [][]interface{} `json:"epcfail"`
}

type kase struct {
	ID       int             `json:"id"`
	Res      []resDesc       `json:"res"`
	Attempts []attemptDesc   `json:"attempts"`
	Snap     [][]interface{} `json:"snap"` // [name, [keys..]]
}

type attemptResult struct {
	Out  int           `json:"out"` // 0 commit, 1 abort, 2 crash, 3 panic in abort
	Tr   []interface{} `json:"tr"`
	Snap []interface{} `json:"snap"`
	Err  string        `json:"err,omitempty"`
}

type result struct {
	ID       int             `json:"id"`
	Attempts []attemptResult `json:"attempts"`
	Err      string          `json:"err,omitempty"`
}

// ---------------------------------------------------------------- fault-injecting wrapper

type plan struct {
	armed     bool
	countdown int
}

func (p *plan) hit() bool {
	if !p.armed {
		return false
	}
	if p.countdown == 0 {
		p.armed = false
		return true
	}
	p.countdown--
	return false
}

type faulty struct {
	inner   distsys.ArchetypeResource
	pl      *plan
	pcFail  *bool  // only for the top-level wrapper
	onWrite func() // called after a WriteValue that succeeded
}

func (f *faulty) Abort(iface distsys.ArchetypeInterface) chan struct{} { return f.inner.Abort(iface) }
func (f *faulty) Commit(iface distsys.ArchetypeInterface) chan struct{} {
	return f.inner.Commit(iface)
}
func (f *faulty) Close() error { return f.inner.Close() }
func (f *faulty) PreCommit(iface distsys.ArchetypeInterface) chan error {
	ch := f.inner.PreCommit(iface)
	if f.pcFail != nil && *f.pcFail {
		out := make(chan error, 1)
		go func() {
			if ch != nil {
				<-ch
			}
			out <- distsys.ErrCriticalSectionAborted
		}()
		return out
	}
	return ch
}
func (f *faulty) ReadValue(iface distsys.ArchetypeInterface) (tla.Value, error) {
	if f.pl.hit() {
		return tla.Value{}, distsys.ErrCriticalSectionAborted
	}
	return f.inner.ReadValue(iface)
}
func (f *faulty) WriteValue(iface distsys.ArchetypeInterface, v tla.Value) error {
	if f.pl.hit() {
		return distsys.ErrCriticalSectionAborted
	}
	err := f.inner.WriteValue(iface, v)
	if err == nil && f.onWrite != nil {
		f.onWrite()
	}
	return err
}
func (f *faulty) Index(iface distsys.ArchetypeInterface, idx tla.Value) (distsys.ArchetypeResource, error) {
	if f.pl.hit() {
		return nil, distsys.ErrCriticalSectionAborted
	}
	sub, err := f.inner.Index(iface, idx)
	if err != nil {
		return nil, err
	}
	return &faulty{inner: sub, pl: f.pl, onWrite: f.onWrite}, nil
}

// elem wraps one element of an IncMap/HashMap: its PreCommit is never trivial (so the map's aggregation of its
// elements' answers is exercised) and refuses when the script says so, after the wrapped PreCommit completed
type elem struct {
	distsys.ArchetypeResource
	refuse *bool
}

func (e *elem) PreCommit(iface distsys.ArchetypeInterface) chan error {
	ch := e.ArchetypeResource.PreCommit(iface)
	out := make(chan error, 1)
	refuse := *e.refuse
	go func() {
		var err error
		if ch != nil {
			err = <-ch
		}
		if refuse {
			err = distsys.ErrCriticalSectionAborted
		}
		out <- err
	}()
	return out
}

// netProxy forwards TCP connections to a target and can reset all of them ("the peer closes the connection in
// the middle of a section") or refuse service for a while
type netProxy struct {
	ln     net.Listener
	target string
	mu     sync.Mutex
	conns  []net.Conn
	down   bool
	// connections registered since the last cut: a successful WriteValue of the sender implies that it has dialed,
	// and the harness then waits until the forwarder has taken that connection over, so that a later cut hits it
	registered int
}

func newNetProxy(target string) *netProxy {
	ln, err := net.Listen("tcp", "127.0.0.1:0")
	if err != nil {
		panic(err)
	}
	p := &netProxy{ln: ln, target: target}
	go func() {
		for {
			c, err := ln.Accept()
			if err != nil {
				return
			}
			p.mu.Lock()
			down := p.down
			p.mu.Unlock()
			if down {
				reset(c)
				continue
			}
			d, err := net.Dial("tcp", p.target)
			if err != nil {
				reset(c)
				continue
			}
			p.mu.Lock()
			p.conns = append(p.conns, c, d)
			p.registered++
			p.mu.Unlock()
			go func() { io.Copy(d, c); reset(d); reset(c) }()
			go func() { io.Copy(c, d); reset(c); reset(d) }()
		}
	}()
	return p
}

func reset(c net.Conn) {
	if t, ok := c.(*net.TCPConn); ok {
		t.SetLinger(0)
	}
	c.Close()
}

func (p *netProxy) cut() {
	p.mu.Lock()
	conns := p.conns
	p.conns = nil
	p.registered = 0
	p.mu.Unlock()
	for _, c := range conns {
		reset(c)
	}
}

func (p *netProxy) setDown(d bool) {
	p.mu.Lock()
	p.down = d
	p.mu.Unlock()
	if d {
		p.cut()
	}
}

func (p *netProxy) waitRegistered() {
	deadline := time.Now().Add(3 * time.Second)
	for {
		p.mu.Lock()
		n := p.registered
		p.mu.Unlock()
		if n > 0 || time.Now().After(deadline) {
			return
		}
		time.Sleep(200 * time.Microsecond)
	}
}

func (p *netProxy) addr() string { return p.ln.Addr().String() }
func (p *netProxy) close()       { p.ln.Close(); p.cut() }

// ---------------------------------------------------------------- resources of a case

type bound struct {
	desc   resDesc
	res    distsys.ArchetypeResource
	pcFail *bool
	snap   func(keys []interface{}) interface{}
	env    func(ev []interface{})
	close  func()
	// networked senders: how many values the peer must eventually hold (what a committed section wrote to a TCP
	// mailbox; what any WriteValue put on the wire of a relaxed mailbox), so that the snapshot waits for them
	onWrite  func()
	onFinish func(committed bool)
	// per-element PreCommit refusal flags of a map resource, by element key
	elemRefuse map[string]*bool
	proxy      *netProxy // networked senders: the forwarder between the sender and its peer
}

var sentinel = tla.MakeString("\x00full")

type runner struct {
	k            kase
	dir          string
	db           *badger.DB
	bounds       map[string]*bound
	order        []string
	pl           *plan
	cur          int
	inBody       bool
	results      []attemptResult
	curTr        []interface{}
	scratch      distsys.ArchetypeInterface
	ctxIface     distsys.ArchetypeInterface
	bodyPanicked bool
}

func decodeState(b []byte) tla.Value {
	var v tla.Value
	if err := gob.NewDecoder(bytes.NewBuffer(b)).Decode(&v); err != nil {
		panic(err)
	}
	return v
}

func localValue(l *distsys.LocalArchetypeResource) interface{} {
	st, err := l.GetState()
	if err != nil {
		panic(err)
	}
	return fromTLA(decodeState(st))
}

func freeAddr() string {
	l, err := net.Listen("tcp", "127.0.0.1:0")
	if err != nil {
		panic(err)
	}
	a := l.Addr().String()
	l.Close()
	return a
}

func (r *runner) dbGet(key string) (tla.Value, bool) {
	var out tla.Value
	found := false
	err := r.db.View(func(txn *badger.Txn) error {
		item, err := txn.Get([]byte(key))
		if err == badger.ErrKeyNotFound {
			return nil
		}
		if err != nil {
			return err
		}
		return item.Value(func(val []byte) error {
			found = true
			return gob.NewDecoder(bytes.NewBuffer(val)).Decode(&out)
		})
	})
	if err != nil {
		panic(err)
	}
	return out, found
}

func (b *bound) refuseFlag(key string) *bool {
	if f, ok := b.elemRefuse[key]; ok {
		return f
	}
	f := new(bool)
	b.elemRefuse[key] = f
	return f
}

// listenMailbox creates the receiving side of a mailbox collection and makes it listen (mailbox 0). The address is
// found by binding port 0 and releasing it; somebody else may grab it in between, so this is retried.
func (r *runner) listenMailbox(mk func(resources.MailboxesAddressMappingFn, ...resources.MailboxesOption) *resources.Mailboxes,
	opts []resources.MailboxesOption) (recvSide *resources.Mailboxes, local distsys.ArchetypeResource, addr string) {
	for try := 0; ; try++ {
		ok := func() (ok bool) {
			defer func() {
				if p := recover(); p != nil {
					if try >= 8 {
						panic(p)
					}
					ok = false
				}
			}()
			addr = freeAddr()
			a := addr
			recvSide = mk(func(tla.Value) (resources.MailboxKind, string) { return resources.MailboxesLocal, a }, opts...)
			var err error
			local, err = recvSide.Index(r.scratch, tla.MakeNumber(0)) // starts listening
			if err != nil {
				panic(err)
			}
			return true
		}()
		if ok {
			return
		}
	}
}

func (r *runner) makeBound(d resDesc) *bound {
	b := &bound{desc: d}
	uniq := fmt.Sprintf("c%d.%s", r.k.ID, d.Name)
	switch d.Kind {
	case "local":
		l := distsys.NewLocalArchetypeResource(toTLA(d.Init))
		b.res = l
		b.snap = func([]interface{}) interface{} { return localValue(l) }
	case "inchan", "custominchan":
		ch := make(chan tla.Value, 1024)
		for _, it := range d.Items {
			ch <- toTLA(it)
		}
		if d.Kind == "inchan" {
			b.res = resources.NewInputChan(ch, resources.WithInputChanReadTimeout(5*time.Millisecond))
		} else {
			b.res = raftkvs.NewCustomInChan(ch, 5*time.Millisecond)
		}
		b.snap = func([]interface{}) interface{} { return nil }
		b.env = func(ev []interface{}) { ch <- toTLA(ev[2]) }
	case "outchan":
		ch := make(chan tla.Value, 4096)
		b.res = resources.NewOutputChan(ch)
		seen := []interface{}{}
		b.snap = func([]interface{}) interface{} {
			for {
				select {
				case v := <-ch:
					seen = append(seen, fromTLA(v))
					continue
				default:
				}
				break
			}
			return tup(append([]interface{}{}, seen...)...)
		}
	case "singleout":
		const capN = 8
		ch := make(chan tla.Value, capN)
		b.res = resources.NewSingleOutputChan(ch)
		seen := []interface{}{}
		drain := func() {
			for {
				select {
				case v := <-ch:
					if !v.Equal(sentinel) {
						seen = append(seen, fromTLA(v))
					}
					continue
				default:
				}
				break
			}
		}
		full := false
		b.snap = func([]interface{}) interface{} {
			if !full {
				drain()
			} else {
				// keep it full: take everything out, remember real values, refill
				drain()
				for len(ch) < capN {
					ch <- sentinel
				}
			}
			return tup(append([]interface{}{}, seen...)...)
		}
		b.env = func(ev []interface{}) {
			full = ev[2].(bool)
			drain()
			if full {
				for len(ch) < capN {
					ch <- sentinel
				}
			}
		}
	case "dummy":
		dm := resources.NewDummy(resources.WithDummyValue(toTLA(d.Init)))
		b.res = dm
		b.snap = func([]interface{}) interface{} { v, _ := dm.ReadValue(r.scratch); return fromTLA(v) }
	case "filesystem":
		dir := filepath.Join(r.dir, d.Name)
		if err := os.MkdirAll(dir, 0o755); err != nil {
			panic(err)
		}
		for _, kv := range d.Files {
			if err := os.WriteFile(filepath.Join(dir, kv[0].(string)), []byte(kv[1].(string)), 0o644); err != nil {
				panic(err)
			}
		}
		b.res = resources.NewFileSystem(dir)
		b.snap = func(keys []interface{}) interface{} {
			out := []interface{}{}
			for _, k := range keys {
				ks, ok := k.(string)
				if !ok {
					out = append(out, tup())
					continue
				}
				c, err := os.ReadFile(filepath.Join(dir, ks))
				if err != nil {
					out = append(out, tup())
				} else {
					out = append(out, tup(string(c)))
				}
			}
			return tup(out...)
		}
	case "incmap_local", "hashmap_local":
		children := map[string]*distsys.LocalArchetypeResource{}
		b.elemRefuse = map[string]*bool{}
		if d.Kind == "incmap_local" {
			b.res = resources.NewIncMap(func(index tla.Value) distsys.ArchetypeResource {
				l := distsys.NewLocalArchetypeResource(toTLA(d.Init))
				children[keyString(fromTLA(index))] = l
				return &elem{l, b.refuseFlag(keyString(fromTLA(index)))}
			})
		} else {
			hm := hashmap.New[distsys.ArchetypeResource]()
			for _, kv := range d.Table {
				l := distsys.NewLocalArchetypeResource(toTLA(kv[1]))
				children[keyString(kv[0])] = l
				hm.Set(toTLA(kv[0]), &elem{l, b.refuseFlag(keyString(kv[0]))})
			}
			b.res = resources.NewHashMap(hm)
		}
		b.snap = func(keys []interface{}) interface{} {
			out := []interface{}{}
			for _, k := range keys {
				if l, ok := children[keyString(k)]; ok {
					out = append(out, localValue(l))
				} else if d.Kind == "incmap_local" {
					out = append(out, d.Init)
				} else {
					out = append(out, nil)
				}
			}
			return tup(out...)
		}
	case "persist":
		l := distsys.NewLocalArchetypeResource(toTLA(d.Init))
		b.res = resources.MakePersistent(uniq, r.db, l)
		b.snap = func([]interface{}) interface{} {
			dbv := tup()
			if v, ok := r.dbGet("pres-" + uniq); ok {
				dbv = tup(fromTLA(v))
			}
			return tup(localValue(l), dbv)
		}
	case "incmap_persist":
		type ch struct {
			l    *distsys.LocalArchetypeResource
			name string
		}
		children := map[string]ch{}
		b.elemRefuse = map[string]*bool{}
		b.res = resources.NewIncMap(func(index tla.Value) distsys.ArchetypeResource {
			l := distsys.NewLocalArchetypeResource(toTLA(d.Init))
			name := uniq + "." + keyString(fromTLA(index))
			children[keyString(fromTLA(index))] = ch{l, name}
			return &elem{resources.MakePersistent(name, r.db, l), b.refuseFlag(keyString(fromTLA(index)))}
		})
		b.snap = func(keys []interface{}) interface{} {
			out := []interface{}{}
			for _, k := range keys {
				if c, ok := children[keyString(k)]; ok {
					dbv := tup()
					if v, ok := r.dbGet("pres-" + c.name); ok {
						dbv = tup(fromTLA(v))
					}
					out = append(out, tup(localValue(c.l), dbv))
				} else {
					out = append(out, tup(d.Init, tup()))
				}
			}
			return tup(out...)
		}
	case "plog":
		pl := raftkvs.NewPersistentLog(uniq, r.db)
		b.res = pl
		b.snap = func([]interface{}) interface{} {
			v, err := pl.ReadValue(r.scratch)
			if err != nil {
				panic(err)
			}
			prefix := "raftkvs.plog." + uniq + "."
			type ent struct {
				i int
				v interface{}
			}
			var ents []ent
			err = r.db.View(func(txn *badger.Txn) error {
				it := txn.NewIterator(badger.DefaultIteratorOptions)
				defer it.Close()
				for it.Seek([]byte(prefix)); it.ValidForPrefix([]byte(prefix)); it.Next() {
					item := it.Item()
					idx, err := strconv.Atoi(strings.TrimPrefix(string(item.Key()), prefix))
					if err != nil {
						return err
					}
					var val tla.Value
					if err := item.Value(func(b []byte) error { return gob.NewDecoder(bytes.NewBuffer(b)).Decode(&val) }); err != nil {
						return err
					}
					ents = append(ents, ent{idx, fromTLA(val)})
				}
				return nil
			})
			if err != nil {
				panic(err)
			}
			sort.Slice(ents, func(i, j int) bool { return ents[i].i < ents[j].i })
			dbl := []interface{}{}
			for _, e := range ents {
				dbl = append(dbl, tup(e.i, e.v))
			}
			return tup(fromTLA(v), tup(dbl...))
		}
	case "shared":
		mgr := resources.NewLocalSharedManager(toTLA(d.Init), resources.WithLocalSharedResourceTimeout(5*time.Millisecond))
		mine := mgr.MakeLocalShared()
		b.res = mine
		other := mgr.MakeLocalShared()
		otherHolds := false
		b.env = func(ev []interface{}) {
			want := ev[2].(bool)
			if want && !otherHolds {
				if _, err := other.ReadValue(r.scratch); err != nil {
					panic("other holder could not take the lock: " + err.Error())
				}
				otherHolds = true
			} else if !want && otherHolds {
				other.Abort(r.scratch)
				otherHolds = false
			}
		}
		b.snap = func([]interface{}) interface{} {
			// GetState takes the lock unless the handle already holds it: ask the holder (after a crash the
			// archetype's own handle may still hold it)
			h := other
			if !otherHolds {
				h = mine
			}
			st, err := h.GetState()
			if err != nil {
				panic(err)
			}
			return fromTLA(decodeState(st))
		}
		b.close = func() {
			if otherHolds {
				other.Abort(r.scratch)
			}
		}
	case "tcp", "relaxed":
		mk := resources.NewTCPMailboxes
		if d.Kind == "relaxed" {
			mk = resources.NewRelaxedMailboxes
		}
		opts := []resources.MailboxesOption{resources.WithMailboxesReadTimeout(40 * time.Millisecond),
			resources.WithMailboxesWriteTimeout(500 * time.Millisecond), resources.WithMailboxesDialTimeout(500 * time.Millisecond)}
		recvSide, local, addr := r.listenMailbox(mk, opts)
		b.proxy = newNetProxy(addr)
		sendAddr := b.proxy.addr()
		sendSide := mk(func(tla.Value) (resources.MailboxKind, string) { return resources.MailboxesRemote, sendAddr }, opts...)
		b.res = sendSide
		b.env = func(ev []interface{}) { b.proxy.setDown(!ev[2].(bool)) } // ["net", name, up?]
		seen := []interface{}{}
		expected, pending := 0, 0
		if d.Kind == "relaxed" {
			b.onWrite = func() { expected++; b.proxy.waitRegistered() }
		} else {
			b.onWrite = func() { pending++; b.proxy.waitRegistered() }
			b.onFinish = func(committed bool) {
				if committed {
					expected += pending
				}
				pending = 0
			}
		}
		b.snap = func([]interface{}) interface{} {
			deadline := time.Now().Add(5 * time.Second)
			for {
				v, err := local.ReadValue(r.scratch)
				if err != nil {
					local.Abort(r.scratch)
					// nothing within the read timeout: done once everything owed has arrived (or we give up)
					if len(seen) >= expected || time.Now().After(deadline) {
						break
					}
					continue
				}
				seen = append(seen, fromTLA(v))
				local.Commit(r.scratch)
			}
			return tup(tup(append([]interface{}{}, seen...)...))
		}
		b.close = func() { b.proxy.close(); recvSide.Close() }
	case "nested":
		// a resource implemented by a nested archetype: a variable served over the request/ack protocol
		var inner *distsys.MPCalContext
		str := tla.MakeString
		ack := func(tpe string, fields ...tla.RecordField) tla.Value {
			return tla.MakeRecord(append(fields, tla.RecordField{Key: str("tpe"), Value: str(tpe)}))
		}
		innerArch := distsys.MPCalArchetype{
			Name: "N", Label: "N.l", RequiredRefParams: []string{"N.in", "N.out"},
			JumpTable: distsys.MakeMPCalJumpTable(distsys.MPCalCriticalSection{Name: "N.l", Body: func(iface distsys.ArchetypeInterface) error {
				in, err := iface.RequireArchetypeResourceRef("N.in")
				if err != nil {
					return err
				}
				out, err := iface.RequireArchetypeResourceRef("N.out")
				if err != nil {
					return err
				}
				cur := iface.RequireArchetypeResource("N.cur")
				old := iface.RequireArchetypeResource("N.old")
				req, err := iface.Read(in, nil)
				if err != nil {
					return err
				}
				var resp tla.Value
				switch req.ApplyFunction(str("tpe")).AsString() {
				case "read_req":
					v, err := iface.Read(cur, nil)
					if err != nil {
						return err
					}
					resp = ack("read_ack", tla.RecordField{Key: str("value"), Value: v})
				case "write_req":
					if err := iface.Write(cur, nil, req.ApplyFunction(str("value"))); err != nil {
						return err
					}
					resp = ack("write_ack")
				case "precommit_req":
					resp = ack("precommit_ack")
				case "abort_req":
					o, err := iface.Read(old, nil)
					if err != nil {
						return err
					}
					if err := iface.Write(cur, nil, o); err != nil {
						return err
					}
					resp = ack("abort_ack")
				case "commit_req":
					c, err := iface.Read(cur, nil)
					if err != nil {
						return err
					}
					if err := iface.Write(old, nil, c); err != nil {
						return err
					}
					resp = ack("commit_ack")
				default:
					panic("nested archetype: unknown request")
				}
				return iface.Write(out, nil, resp)
			}}),
			ProcTable: distsys.MakeMPCalProcTable(),
			PreAmble: func(iface distsys.ArchetypeInterface) {
				iface.EnsureArchetypeResourceLocal("N.cur", toTLA(d.Init))
				iface.EnsureArchetypeResourceLocal("N.old", toTLA(d.Init))
			},
		}
		b.res = resources.NewNested(func(sendCh chan<- tla.Value, receiveCh <-chan tla.Value) []*distsys.MPCalContext {
			inner = distsys.NewMPCalContext(tla.MakeString("inner"+uniq), innerArch,
				distsys.EnsureArchetypeRefParam("in", resources.NewInputChan(receiveCh, resources.WithInputChanReadTimeout(5*time.Millisecond))),
				distsys.EnsureArchetypeRefParam("out", resources.NewOutputChan(sendCh)))
			return []*distsys.MPCalContext{inner}
		})
		b.snap = func([]interface{}) (v interface{}) {
			defer func() {
				if recover() != nil {
					v = d.Init // the nested archetype has not run its preamble yet
				}
			}()
			return fromTLA(inner.IFace().ReadArchetypeResourceLocal("N.cur"))
		}
	case "placeholder":
		b.res = resources.NewPlaceHolder()
	case "crdt":
		// one CRDT node (grow-only counter) without peers
		addr := freeAddr()
		id := tla.MakeString("n" + uniq)
		res := resources.NewCRDT(id, nil, func(tla.Value) string { return addr }, resources.GCounter{},
			resources.WithCRDTBroadcastInterval(20*time.Millisecond))
		b.res = res
		b.snap = func([]interface{}) interface{} { v, _ := res.ReadValue(r.scratch); return fromTLA(v) }
	case "twopc":
		// an unreplicated two-phase-commit variable
		var rcvr *resources.TwoPCReceiver
		b.res = resources.NewTwoPC(toTLA(d.Init), freeAddr(), nil, tla.MakeString("n"+uniq), func(rc *resources.TwoPCReceiver) { rcvr = rc })
		b.snap = func([]interface{}) interface{} { return fromTLA(resources.VerifTwoPCSnapshot(rcvr).Value) }
	case "fd":
		// a failure detector whose monitor is unreachable: once the first poll has failed it reads TRUE
		dead := freeAddr()
		fd := resources.NewFailureDetector(func(tla.Value) string { return dead },
			resources.WithFailureDetectorPullInterval(10*time.Millisecond), resources.WithFailureDetectorTimeout(100*time.Millisecond))
		single, err := fd.Index(r.scratch, tla.MakeNumber(0))
		if err != nil {
			panic(err)
		}
		deadline := time.Now().Add(5 * time.Second)
		for {
			if _, err := single.ReadValue(r.scratch); err == nil {
				break
			}
			if time.Now().After(deadline) {
				panic("failure detector never left the uninitialized state")
			}
		}
		fd.Abort(r.scratch)
		b.res = fd
		b.snap = func(keys []interface{}) interface{} {
			out := []interface{}{}
			for range keys {
				v, _ := single.ReadValue(r.scratch)
				out = append(out, fromTLA(v))
			}
			return tup(out...)
		}
	case "tcp_local", "relaxed_local":
		// the archetype under test is the receiver; the harness commits batches as the sender
		mk := resources.NewTCPMailboxes
		if d.Kind == "relaxed_local" {
			mk = resources.NewRelaxedMailboxes
		}
		opts := []resources.MailboxesOption{resources.WithMailboxesReadTimeout(150 * time.Millisecond),
			resources.WithMailboxesWriteTimeout(500 * time.Millisecond), resources.WithMailboxesDialTimeout(500 * time.Millisecond)}
		recvSide, _, addr := r.listenMailbox(mk, opts)
		sendSide := mk(func(tla.Value) (resources.MailboxKind, string) { return resources.MailboxesRemote, addr }, opts...)
		recvSide.Abort(r.scratch)
		b.res = recvSide
		b.snap = func(keys []interface{}) interface{} {
			out := []interface{}{}
			for range keys {
				out = append(out, nil)
			}
			return tup(out...)
		}
		b.env = func(ev []interface{}) {
			rem, err := sendSide.Index(r.scratch, tla.MakeNumber(0))
			if err != nil {
				panic(err)
			}
			for _, v := range ev[2].([]interface{}) {
				if err := rem.WriteValue(r.scratch, toTLA(v)); err != nil {
					panic("sender could not write: " + err.Error())
				}
			}
			if ch := sendSide.PreCommit(r.scratch); ch != nil {
				if err := <-ch; err != nil {
					panic("sender precommit: " + err.Error())
				}
			}
			if ch := sendSide.Commit(r.scratch); ch != nil {
				<-ch
			}
		}
		b.close = func() { sendSide.Close() }
	default:
		panic("unknown resource kind " + d.Kind)
	}
	if b.snap == nil {
		b.snap = func([]interface{}) interface{} { return nil }
	}
	return b
}

func (r *runner) snapshot() []interface{} {
	out := []interface{}{}
	for _, s := range r.k.Snap {
		name := s[0].(string)
		keys, _ := s[1].([]interface{})
		if name == ".pc" {
			out = append(out, fromTLA(r.ctxIface.ReadArchetypeResourceLocal(".pc")))
			continue
		}
		out = append(out, r.bounds[name].snap(keys))
	}
	return out
}

func (r *runner) handle(iface distsys.ArchetypeInterface, name string) (distsys.ArchetypeResourceHandle, error) {
	if name == ".pc" {
		return iface.RequireArchetypeResource(".pc"), nil
	}
	return iface.RequireArchetypeResourceRef("A." + name)
}

// the body of every label: interpret the script of the current attempt
func (r *runner) body(iface distsys.ArchetypeInterface) (err error) {
	// what the previous attempt left behind
	if r.cur > 0 {
		r.results[r.cur-1].Snap = r.snapshot()
		r.results[r.cur-1].Tr = r.curTr
	}
	if r.cur >= len(r.k.Attempts) {
		return distsys.ErrDone
	}
	at := r.k.Attempts[r.cur]
	r.results = append(r.results, attemptResult{Out: -1})
	r.cur++
	r.curTr = []interface{}{}
	for _, b := range r.bounds {
		*b.pcFail = false
	}
	for _, n := range at.PCFail {
		*r.bounds[n].pcFail = true
	}
	for _, b := range r.bounds {
		for _, f := range b.elemRefuse {
			*f = false
		}
	}
	for _, e := range at.ElemPCFail {
		*r.bounds[e[0].(string)].refuseFlag(keyString(e[1])) = true
	}
	for _, ev := range at.Env {
		r.bounds[ev[1].(string)].env(ev)
	}
	r.inBody = true
	defer func() {
		r.inBody = false
		r.pl.armed = false
		if p := recover(); p != nil {
			r.bodyPanicked = true
			panic(p)
		}
	}()
	var last tla.Value
	for k, op := range at.Ops {
		r.pl.armed = false
		if at.Fault != nil && at.Fault.Op == k {
			r.pl.armed = true
			r.pl.countdown = at.Fault.Call
		}
		switch op[0].(string) {
		case "r":
			h, err := r.handle(iface, op[1].(string))
			if err != nil {
				return err
			}
			v, err := iface.Read(h, toTLAs(op[2].([]interface{})))
			if err != nil {
				return err
			}
			last = v
			r.curTr = append(r.curTr, fromTLA(v))
		case "w", "wl":
			h, err := r.handle(iface, op[1].(string))
			if err != nil {
				return err
			}
			v := last
			if op[0].(string) == "w" {
				v = toTLA(op[3])
			}
			if err := iface.Write(h, toTLAs(op[2].([]interface{})), v); err != nil {
				return err
			}
			r.curTr = append(r.curTr, nil)
		case "goto":
			h := iface.RequireArchetypeResource(".pc")
			if err := iface.Write(h, nil, tla.MakeString(op[1].(string))); err != nil {
				return err
			}
			r.curTr = append(r.curTr, nil)
		case "cut":
			// the peer resets every connection of this mailbox now
			r.bounds[op[1].(string)].proxy.cut()
		case "await":
			if !op[1].(bool) {
				return distsys.ErrCriticalSectionAborted
			}
		case "assert":
			if !op[1].(bool) {
				return fmt.Errorf("%w: scripted", distsys.ErrAssertionFailed)
			}
		default:
			panic("bad op")
		}
	}
	return nil
}

type recorder struct{ r *runner }

func (rec recorder) RecordEvent(ev trace.Event) {
	r := rec.r
	if r.cur == 0 || r.cur > len(r.results) {
		return
	}
	if ev.IsAbort {
		r.results[r.cur-1].Out = 1
	} else {
		r.results[r.cur-1].Out = 0
	}
	for _, b := range r.bounds {
		if b.onFinish != nil {
			b.onFinish(!ev.IsAbort)
		}
	}
}

func runCase(k kase, db *badger.DB, root string) (res result) {
	res.ID = k.ID
	r := &runner{k: k, db: db, bounds: map[string]*bound{}, pl: &plan{}, dir: filepath.Join(root, fmt.Sprintf("c%d", k.ID))}
	if err := os.MkdirAll(r.dir, 0o755); err != nil {
		panic(err)
	}
	defer os.RemoveAll(r.dir)
	r.scratch = distsys.NewMPCalContext(tla.MakeString("scratch"), distsys.MPCalArchetype{Name: "S", Label: "S.l"}).IFace()

	var cfg []distsys.MPCalContextConfigFn
	var refParams []string
	for _, d := range k.Res {
		b := r.makeBound(d)
		b.pcFail = new(bool)
		r.bounds[d.Name] = b
		r.order = append(r.order, d.Name)
		cfg = append(cfg, distsys.EnsureArchetypeRefParam(d.Name, &faulty{inner: b.res, pl: r.pl, pcFail: b.pcFail, onWrite: b.onWrite}))
		refParams = append(refParams, "A."+d.Name)
	}
	defer func() {
		for _, b := range r.bounds {
			if b.close != nil {
				b.close()
			}
		}
	}()
	cfg = append(cfg, distsys.SetTraceRecorder(recorder{r}))
	arch := distsys.MPCalArchetype{
		Name: "A", Label: "A.l", RequiredRefParams: refParams,
		JumpTable: distsys.MakeMPCalJumpTable(
			distsys.MPCalCriticalSection{Name: "A.l", Body: r.body},
			distsys.MPCalCriticalSection{Name: "A.m", Body: r.body}),
		ProcTable: distsys.MakeMPCalProcTable(),
		PreAmble:  func(distsys.ArchetypeInterface) {},
	}
	ctx := distsys.NewMPCalContext(tla.MakeString("self"), arch, cfg...)
	r.ctxIface = ctx.IFace()

	done := make(chan struct{})
	var runErr error
	var panicked interface{}
	go func() {
		defer close(done)
		defer func() {
			if p := recover(); p != nil {
				panicked = p
			}
		}()
		runErr = ctx.Run()
	}()
	select {
	case <-done:
	case <-time.After(20 * time.Second):
		res.Err = "hang"
		res.Attempts = r.results
		return
	}
	if panicked != nil || runErr != nil {
		// the attempt in flight ended the archetype
		if len(r.results) > 0 && r.results[len(r.results)-1].Out == -1 {
			last := &r.results[len(r.results)-1]
			if panicked != nil && !r.bodyPanicked {
				last.Out = 3
			} else {
				last.Out = 2
			}
			if panicked != nil {
				last.Err = fmt.Sprint(panicked)
			} else {
				last.Err = runErr.Error()
			}
			func() {
				defer func() {
					if p := recover(); p != nil {
						last.Err += " / snapshot panicked: " + fmt.Sprint(p)
					}
				}()
				last.Snap = r.snapshot()
				last.Tr = r.curTr
			}()
		} else if runErr != nil {
			res.Err = runErr.Error()
		} else {
			res.Err = fmt.Sprint(panicked)
		}
	}
	res.Attempts = r.results
	return
}

func main() {
	log.SetOutput(io.Discard)
	root := fmt.Sprintf("/var/tmp/verif-%d", os.Getpid())
	if err := os.MkdirAll(root, 0o755); err != nil {
		panic(err)
	}
	defer os.RemoveAll(root)
	db, err := badger.Open(badger.DefaultOptions("").WithInMemory(true).WithLogger(nil))
	if err != nil {
		panic(err)
	}
	defer db.Close()

	in := bufio.NewReaderSize(os.Stdin, 1<<20)
	out := bufio.NewWriter(os.Stdout)
	defer out.Flush()
	dec := json.NewDecoder(in)
	enc := json.NewEncoder(out)
	for dec.More() {
		var k kase
		if err := dec.Decode(&k); err != nil {
			fmt.Fprintln(os.Stderr, "bad case:", err)
			os.Exit(2)
		}
		resCh := make(chan result, 1)
		go func() {
			defer func() {
				if p := recover(); p != nil {
					resCh <- result{ID: k.ID, Err: "harness panic: " + fmt.Sprint(p)}
				}
			}()
			resCh <- runCase(k, db, root)
		}()
		var res result
		select {
		case res = <-resCh:
		case <-time.After(40 * time.Second):
			res = result{ID: k.ID, Err: "hang"}
		}
		enc.Encode(res)
		out.Flush()
	}
}
