// c05: drives tla.Value Equal/Hash/String, encoding/gob and hashmap.HashMap on generated values.
//
// Input (stdin), one JSON case per line:
//   {"id":n, "vals":[V...], "ops":[OP...], "stream":bool}
//   V  = ["d"] | ["b",bool] | ["n",int] | ["s",string] | ["S",[V...]] | ["T",[V...]] | ["F",[[V,V]...]]
//      | ["W",[[archetype,selfV,count]...],V]          (tla.WrapCausal; needs PGO_TRACE_DIR in the environment)
//   OP = ["set",i,payload] | ["get",i] | ["keys"] | ["clear"]        (i indexes vals; hashmap.HashMap[int])
// Output, one JSON line per case:
//   {"id":n, "vals":[{"rep":R,"hash":u32,"str":string,"gob":G,"err":..}], "eq":[[0|1|-1|-2 ...]...], "ops":[...], "stream":[R...]}
//   R  = the value as the runtime holds it, members in iteration order (same syntax as V; a causal
//        wrapper is shown as ["W",[[archetype,selfString,count]... sorted],R])
//   G  = {"ok":bool,"rep":R,"eq_od":..,"eq_do":..,"err":string}
//   eq[i][j] = vals[i].Equal(vals[j]) : 1 true, 0 false, -1 ErrTLAType panic, -2 other panic
package main

import (
	"bufio"
	"bytes"
	"encoding/gob"
	"encoding/json"
	"errors"
	"fmt"
	"os"
	"sort"

	"github.com/DistCompiler/pgo/distsys/hashmap"
	"github.com/DistCompiler/pgo/distsys/tla"
)

type kase struct {
	ID     int               `json:"id"`
	Vals   []json.RawMessage `json:"vals"`
	Ops    []json.RawMessage `json:"ops"`
	Stream bool              `json:"stream"`
	// GobCross: also compare every decoded value with every original (geq) and allow the HashMap ops
	// "setg"/"getg", which use the value as it came out of the gob decoder
	GobCross bool `json:"gobcross"`
}

type gobRes struct {
	OK   bool        `json:"ok"`
	Rep  interface{} `json:"rep,omitempty"`
	EqOD int         `json:"eq_od"`
	EqDO int         `json:"eq_do"`
	Hash uint32      `json:"hash"`
	Err  string      `json:"err,omitempty"`
}

type valRes struct {
	Rep  interface{} `json:"rep"`
	Hash int64       `json:"hash"` // -1 tlatype panic, -2 other panic
	Str  string      `json:"str"`
	SErr string      `json:"serr,omitempty"`
	Gob  gobRes      `json:"gob"`
}

type result struct {
	ID     int           `json:"id"`
	Vals   []valRes      `json:"vals"`
	Eq     [][]int       `json:"eq"`
	Ops    []interface{} `json:"ops"`
	Stream []interface{} `json:"stream,omitempty"`
	GEq    [][]int       `json:"geq,omitempty"` // geq[i][j] = decoded(vals[i]).Equal(vals[j])
	Err    string        `json:"err,omitempty"`
}

func build(raw json.RawMessage) tla.Value {
	var arr []json.RawMessage
	if err := json.Unmarshal(raw, &arr); err != nil {
		panic(fmt.Sprintf("bad value %s: %v", raw, err))
	}
	var tag string
	json.Unmarshal(arr[0], &tag)
	switch tag {
	case "d":
		return tla.Value{}
	case "b":
		var b bool
		json.Unmarshal(arr[1], &b)
		return tla.MakeBool(b)
	case "n":
		var n int64
		json.Unmarshal(arr[1], &n)
		return tla.MakeNumber(int32(n))
	case "s":
		var s string
		json.Unmarshal(arr[1], &s)
		return tla.MakeString(s)
	case "S", "T":
		var ms []json.RawMessage
		json.Unmarshal(arr[1], &ms)
		vs := make([]tla.Value, 0, len(ms))
		for _, m := range ms {
			vs = append(vs, build(m))
		}
		if tag == "S" {
			return tla.MakeSet(vs...)
		}
		return tla.MakeTuple(vs...)
	case "F":
		var ps [][]json.RawMessage
		json.Unmarshal(arr[1], &ps)
		var fields []tla.RecordField
		for _, p := range ps {
			fields = append(fields, tla.RecordField{Key: build(p[0]), Value: build(p[1])})
		}
		return tla.MakeRecord(fields)
	case "W":
		var cs [][]json.RawMessage
		json.Unmarshal(arr[1], &cs)
		clock := tla.VClock{}
		for _, c := range cs {
			var name string
			var cnt int
			json.Unmarshal(c[0], &name)
			json.Unmarshal(c[2], &cnt)
			self := build(c[1])
			for i := 0; i < cnt; i++ {
				clock = clock.Inc(name, self)
			}
		}
		return tla.WrapCausal(build(arr[2]), clock)
	}
	panic("bad tag " + tag)
}

func clockDump(c *tla.VClock) interface{} {
	bs, err := c.MarshalJSON()
	if err != nil {
		return "err:" + err.Error()
	}
	var pairs [][]interface{}
	json.Unmarshal(bs, &pairs)
	out := [][]interface{}{}
	for _, p := range pairs {
		k := p[0].([]interface{})
		out = append(out, []interface{}{k[0], k[1], p[1]})
	}
	sort.Slice(out, func(i, j int) bool {
		return fmt.Sprint(out[i]) < fmt.Sprint(out[j])
	})
	return out
}

// the value as held by the runtime, in iteration order
func dump(v tla.Value) interface{} {
	if c := v.GetVClock(); c != nil {
		return []interface{}{"W", clockDump(c), dump(v.StripVClock())}
	}
	switch {
	case v.IsBool():
		return []interface{}{"b", v.AsBool()}
	case v.IsNumber():
		return []interface{}{"n", v.AsNumber()}
	case v.IsString():
		return []interface{}{"s", v.AsString()}
	case v.IsSet():
		ms := []interface{}{}
		it := v.AsSet().Iterator()
		for !it.Done() {
			k, _, _ := it.Next()
			ms = append(ms, dump(k))
		}
		return []interface{}{"S", ms}
	case v.IsTuple():
		ms := []interface{}{}
		it := v.AsTuple().Iterator()
		for !it.Done() {
			_, e := it.Next()
			ms = append(ms, dump(e))
		}
		return []interface{}{"T", ms}
	case v.IsFunction():
		ms := []interface{}{}
		it := v.AsFunction().Iterator()
		for !it.Done() {
			k, e, _ := it.Next()
			ms = append(ms, []interface{}{dump(k), dump(e)})
		}
		return []interface{}{"F", ms}
	}
	return []interface{}{"d"}
}

func classify(r interface{}) (int, string) {
	if e, ok := r.(error); ok && errors.Is(e, tla.ErrTLAType) {
		return -1, e.Error()
	}
	return -2, fmt.Sprint(r)
}

func safeEq(a, b tla.Value) (res int) {
	defer func() {
		if r := recover(); r != nil {
			res, _ = classify(r)
		}
	}()
	if a.Equal(b) {
		return 1
	}
	return 0
}

func safeHash(a tla.Value) (res int64) {
	defer func() {
		if r := recover(); r != nil {
			c, _ := classify(r)
			res = int64(c)
		}
	}()
	return int64(a.Hash())
}

func safeStr(a tla.Value) (s string, errs string) {
	defer func() {
		if r := recover(); r != nil {
			_, errs = classify(r)
			if errs == "" {
				errs = "panic"
			}
		}
	}()
	return a.String(), ""
}

func gobRound(v tla.Value) (g gobRes) {
	g, _ = gobRoundV(v)
	return
}

func gobRoundV(v tla.Value) (g gobRes, out tla.Value) {
	defer func() {
		if r := recover(); r != nil {
			_, m := classify(r)
			g = gobRes{OK: false, Err: "panic: " + m}
		}
	}()
	var buf bytes.Buffer
	if err := gob.NewEncoder(&buf).Encode(&v); err != nil {
		return gobRes{OK: false, Err: "encode: " + err.Error()}, out
	}
	if err := gob.NewDecoder(&buf).Decode(&out); err != nil {
		return gobRes{OK: false, Err: "decode: " + err.Error()}, out
	}
	return gobRes{OK: true, Rep: dump(out), EqOD: safeEq(v, out), EqDO: safeEq(out, v), Hash: uint32(safeHash(out))}, out
}

// all values of the case through ONE encoder/decoder pair (type descriptors are sent once per stream)
func gobStream(vs []tla.Value) (outs []interface{}) {
	defer func() {
		if r := recover(); r != nil {
			_, m := classify(r)
			outs = append(outs, "panic: "+m)
		}
	}()
	var buf bytes.Buffer
	enc := gob.NewEncoder(&buf)
	for i := range vs {
		if err := enc.Encode(&vs[i]); err != nil {
			return append(outs, "encode: "+err.Error())
		}
	}
	dec := gob.NewDecoder(&buf)
	for range vs {
		var out tla.Value
		if err := dec.Decode(&out); err != nil {
			return append(outs, "decode: "+err.Error())
		}
		outs = append(outs, dump(out))
	}
	return
}

func runOps(vs []tla.Value, dvs []tla.Value, ops []json.RawMessage) (outs []interface{}) {
	h := hashmap.New[int]()
	for _, raw := range ops {
		var op []json.RawMessage
		json.Unmarshal(raw, &op)
		var name string
		json.Unmarshal(op[0], &name)
		func() {
			defer func() {
				if r := recover(); r != nil {
					c, _ := classify(r)
					outs = append(outs, []interface{}{"panic", c})
				}
			}()
			switch name {
			case "set":
				var i, p int
				json.Unmarshal(op[1], &i)
				json.Unmarshal(op[2], &p)
				h.Set(vs[i], p)
				outs = append(outs, nil)
			case "setg":
				var i, p int
				json.Unmarshal(op[1], &i)
				json.Unmarshal(op[2], &p)
				h.Set(dvs[i], p)
				outs = append(outs, nil)
			case "getg":
				var i int
				json.Unmarshal(op[1], &i)
				v, ok := h.Get(dvs[i])
				if ok {
					outs = append(outs, []interface{}{"some", v})
				} else {
					outs = append(outs, []interface{}{"none"})
				}
			case "get":
				var i int
				json.Unmarshal(op[1], &i)
				v, ok := h.Get(vs[i])
				if ok {
					outs = append(outs, []interface{}{"some", v})
				} else {
					outs = append(outs, []interface{}{"none"})
				}
			case "keys":
				ks := []interface{}{}
				for _, k := range h.Keys() {
					ks = append(ks, dump(k))
				}
				outs = append(outs, []interface{}{"keys", ks})
			case "clear":
				h.Clear()
				outs = append(outs, nil)
			}
		}()
	}
	return
}

func runCase(k kase) (res result) {
	res.ID = k.ID
	defer func() {
		if r := recover(); r != nil {
			res.Err = fmt.Sprint(r)
		}
	}()
	vs := make([]tla.Value, len(k.Vals))
	for i, raw := range k.Vals {
		vs[i] = build(raw)
	}
	dvs := make([]tla.Value, len(vs))
	for i, v := range vs {
		s, serr := safeStr(v)
		g, dv := gobRoundV(v)
		dvs[i] = dv
		res.Vals = append(res.Vals, valRes{Rep: dump(v), Hash: safeHash(v), Str: s, SErr: serr, Gob: g})
	}
	if k.GobCross {
		for i := range vs {
			row := make([]int, len(vs))
			for j := range vs {
				row[j] = safeEq(dvs[i], vs[j])
			}
			res.GEq = append(res.GEq, row)
		}
	}
	for i := range vs {
		row := make([]int, len(vs))
		for j := range vs {
			row[j] = safeEq(vs[i], vs[j])
		}
		res.Eq = append(res.Eq, row)
	}
	res.Ops = runOps(vs, dvs, k.Ops)
	if k.Stream {
		res.Stream = gobStream(vs)
	}
	return
}

func main() {
	in := bufio.NewReaderSize(os.Stdin, 1<<20)
	out := bufio.NewWriter(os.Stdout)
	defer out.Flush()
	dec := json.NewDecoder(in)
	enc := json.NewEncoder(out)
	enc.SetEscapeHTML(false)
	for dec.More() {
		var k kase
		if err := dec.Decode(&k); err != nil {
			fmt.Fprintln(os.Stderr, "bad case:", err)
			os.Exit(2)
		}
		enc.Encode(runCase(k))
	}
}
