// c09: same step harness as c08 for the generated Raft KV store (see raftstep). Line protocol on stdin/stdout.
package main

import (
	"fmt"
	"os"

	"verifharness/cmd/c08/raftstep"
)

func main() {
	if err := raftstep.Serve(os.Stdin, os.Stdout); err != nil {
		fmt.Fprintln(os.Stderr, "c09:", err)
		os.Exit(2)
	}
}
