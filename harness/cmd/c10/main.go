// c10: drives distsys.MakeRoundRobinFairnessCounter() with scripted call sequences.
// Input (stdin): one JSON case per line: {"id":..., "ops":[["B", pc] | ["N", id, ceiling], ...]}
// Output: one JSON line per case: {"id":..., "outs":[v|null,...], "err": ""}
package main

import (
	"bufio"
	"encoding/json"
	"fmt"
	"os"

	"github.com/DistCompiler/pgo/distsys"
)

type kase struct {
	ID  int             `json:"id"`
	Ops [][]interface{} `json:"ops"`
}

type result struct {
	ID   int    `json:"id"`
	Outs []int64 `json:"outs"` // -1 for BeginCriticalSection, -2 for panic
	Err  string `json:"err"`
}

func runCase(k kase) (res result) {
	res.ID = k.ID
	fc := distsys.MakeRoundRobinFairnessCounter()
	for _, op := range k.Ops {
		func() {
			defer func() {
				if r := recover(); r != nil {
					res.Outs = append(res.Outs, -2)
					if res.Err == "" {
						res.Err = fmt.Sprint(r)
					}
				}
			}()
			switch op[0].(string) {
			case "B":
				fc.BeginCriticalSection(op[1].(string))
				res.Outs = append(res.Outs, -1)
			case "N":
				v := fc.NextFairnessCounter(op[1].(string), uint(op[2].(float64)))
				res.Outs = append(res.Outs, int64(v))
			}
		}()
	}
	return
}

func main() {
	in := bufio.NewReaderSize(os.Stdin, 1<<20)
	out := bufio.NewWriter(os.Stdout)
	defer out.Flush()
	dec := json.NewDecoder(in)
	enc := json.NewEncoder(out)
	for dec.More() {
		var k kase
		if err := dec.Decode(&k); err != nil {
			fmt.Fprintln(os.Stderr, "bad case:", err)
			os.Exit(2)
		}
		enc.Encode(runCase(k))
	}
}
