// c10: drives distsys.MakeRoundRobinFairnessCounter() with scripted call sequences.
// Input (stdin): one JSON case per line: {"id":..., "ops":[["B", pc] | ["N", id, ceiling], ...]}
// Output: one JSON line per case: {"id":..., "outs":[v|null,...], "err": ""}
package main

import (
	"bufio"
	"encoding/json"
	"fmt"
	"os"
	"time"

	"github.com/DistCompiler/pgo/distsys"
	"github.com/DistCompiler/pgo/distsys/tla"
)

type attempt struct {
	Sig    [][]interface{} `json:"sig"`    // [[id, ceiling], ...] consulted in order by this attempt
	Action string          `json:"action"` // "abort" | "goto:<label>" | "done" | "refuse:goto:<label>" (body completes incl. Goto, then a resource refuses PreCommit)
}

// refuser is a resource whose PreCommit is refused when armed: the section body has completed (including its Goto)
// and the attempt is rolled back at commit time.
type refuser struct {
	distsys.ArchetypeResourceLeafMixin
	armed bool
}

func done() chan struct{} { c := make(chan struct{}, 1); c <- struct{}{}; return c }

func (r *refuser) Abort(distsys.ArchetypeInterface) chan struct{} { r.armed = false; return done() }
func (r *refuser) PreCommit(distsys.ArchetypeInterface) chan error {
	c := make(chan error, 1)
	if r.armed {
		c <- distsys.ErrCriticalSectionAborted
	} else {
		c <- nil
	}
	return c
}
func (r *refuser) Commit(distsys.ArchetypeInterface) chan struct{}        { r.armed = false; return done() }
func (r *refuser) ReadValue(distsys.ArchetypeInterface) (tla.Value, error) { return tla.MakeNumber(0), nil }
func (r *refuser) WriteValue(distsys.ArchetypeInterface, tla.Value) error  { return nil }
func (r *refuser) Close() error                                            { return nil }

type kase struct {
	ID  int             `json:"id"`
	Ops [][]interface{} `json:"ops"`
	// mode "run": the real MPCalContext.Run loop drives the real counter through a recording wrapper
	Mode   string    `json:"mode"`
	Start  string    `json:"start"`
	Labels []string  `json:"labels"`
	Script []attempt `json:"script"`
	// NoWrap: leave the context's own round-robin counter in place (no recording wrapper, so optional methods the
	// runtime may look for on the counter stay visible); BeginCriticalSection calls are then not observed
	NoWrap bool `json:"nowrap"`
}

// recording wrapper around the real round-robin counter
type recFC struct {
	inner distsys.FairnessCounter
	log   *[][]interface{}
}

func (r *recFC) BeginCriticalSection(pc string) {
	*r.log = append(*r.log, []interface{}{"B", pc})
	r.inner.BeginCriticalSection(pc)
}

func (r *recFC) NextFairnessCounter(id string, ceiling uint) uint {
	v := r.inner.NextFairnessCounter(id, ceiling)
	*r.log = append(*r.log, []interface{}{"N", id, ceiling, v})
	return v
}

type runResult struct {
	ID  int             `json:"id"`
	Log [][]interface{} `json:"log"` // ["B",pc] | ["A",label] (body entered) | ["N",id,ceiling,value]
	Err string          `json:"err"`
}

func runLoopCase(k kase) (res runResult) {
	res.ID = k.ID
	log := [][]interface{}{}
	pos := 0
	ref := &refuser{}
	body := func(label string) func(iface distsys.ArchetypeInterface) error {
		return func(iface distsys.ArchetypeInterface) error {
			log = append(log, []interface{}{"A", label})
			if pos >= len(k.Script) {
				return distsys.ErrDone
			}
			at := k.Script[pos]
			pos++
			for _, c := range at.Sig {
				v := iface.NextFairnessCounter(c[0].(string), uint(c[1].(float64)))
				if k.NoWrap {
					log = append(log, []interface{}{"N", c[0], c[1], v})
				}
			}
			switch {
			case len(at.Action) > 12 && at.Action[:12] == "refuse:goto:":
				h, err := iface.RequireArchetypeResourceRef("A.r")
				if err != nil {
					return err
				}
				if err := iface.Write(h, nil, tla.MakeNumber(1)); err != nil {
					return err
				}
				ref.armed = true
				return iface.Goto(at.Action[12:])
			case at.Action == "abort":
				return distsys.ErrCriticalSectionAborted
			case at.Action == "done":
				return distsys.ErrDone
			case len(at.Action) > 5 && at.Action[:5] == "goto:":
				return iface.Goto(at.Action[5:])
			}
			return fmt.Errorf("bad action %q", at.Action)
		}
	}
	var sections []distsys.MPCalCriticalSection
	for _, l := range k.Labels {
		sections = append(sections, distsys.MPCalCriticalSection{Name: l, Body: body(l)})
	}
	arch := distsys.MPCalArchetype{
		Name: "A", Label: k.Start,
		RequiredRefParams: []string{"A.r"},
		JumpTable: distsys.MakeMPCalJumpTable(sections...),
		ProcTable: distsys.MakeMPCalProcTable(),
		PreAmble:  func(iface distsys.ArchetypeInterface) {},
	}
	done := make(chan error, 1)
	go func() {
		defer func() {
			if r := recover(); r != nil {
				done <- fmt.Errorf("panic: %v", r)
			}
		}()
		cfg := []distsys.MPCalContextConfigFn{distsys.EnsureArchetypeRefParam("r", ref)}
		if !k.NoWrap {
			cfg = append(cfg, distsys.SetFairnessCounter(&recFC{inner: distsys.MakeRoundRobinFairnessCounter(), log: &log}))
		}
		ctx := distsys.NewMPCalContext(tla.MakeNumber(1), arch, cfg...)
		done <- ctx.Run()
	}()
	select {
	case err := <-done:
		if err != nil {
			res.Err = err.Error()
		}
	case <-time.After(20 * time.Second):
		res.Err = "hang"
	}
	res.Log = log
	return
}

type result struct {
	ID   int    `json:"id"`
	Outs []int64 `json:"outs"` // -1 for BeginCriticalSection, -2 for panic
	Err  string `json:"err"`
}

func runCase(k kase) (res result) {
	res.ID = k.ID
	fc := distsys.MakeRoundRobinFairnessCounter()
	for _, op := range k.Ops {
		func() {
			defer func() {
				if r := recover(); r != nil {
					res.Outs = append(res.Outs, -2)
					if res.Err == "" {
						res.Err = fmt.Sprint(r)
					}
				}
			}()
			switch op[0].(string) {
			case "B":
				fc.BeginCriticalSection(op[1].(string))
				res.Outs = append(res.Outs, -1)
			case "N":
				v := fc.NextFairnessCounter(op[1].(string), uint(op[2].(float64)))
				res.Outs = append(res.Outs, int64(v))
			}
		}()
	}
	return
}

func main() {
	in := bufio.NewReaderSize(os.Stdin, 1<<20)
	out := bufio.NewWriter(os.Stdout)
	defer out.Flush()
	dec := json.NewDecoder(in)
	enc := json.NewEncoder(out)
	for dec.More() {
		var k kase
		if err := dec.Decode(&k); err != nil {
			fmt.Fprintln(os.Stderr, "bad case:", err)
			os.Exit(2)
		}
		if k.Mode == "run" {
			enc.Encode(runLoopCase(k))
		} else {
			enc.Encode(runCase(k))
		}
	}
}
