// c17: phase-scripted driver for the Run/Stop/Close lifecycle of distsys.MPCalContext.
//
// One case = one MPCalContext built from a hand-made archetype whose single label "A.loop" asks the
// driver what to do on every attempt (commit / abort / end in one of the ways a run can end), and a mix of
// instrumented resources (leaves, an IncMap, a HashMap, a Nested resource holding further contexts).
// Every instrumented resource counts its Close calls; Close blocks until the driver releases it (slow
// cleanup of a duration the driver chooses); every Commit and every Stop return takes a global sequence
// number, so "a critical section committed after a Stop had returned" is observable.
//
// Phases (the driver is the only scheduler; goroutines calling Stop are released at chosen phases):
//
//	pre      k Stops before Run is called (they must return without a run)
//	race     k Stops released together with Run (who wins is observed, not dictated)
//	body i   k Stops while the body of attempt i is blocked on the driver's gate
//	rerun    a second Run while the body of attempt i is blocked (must be refused)
//	cleanup  k Stops while the deferred cleanup is blocked in the first instrumented Close
//	after    k Stops after Run returned; then a second (and third) Run, which must be refused
//
// Every call must return within the deadline; otherwise the case's outcome is "hang".
//
// stdin: one JSON case per line; stdout: one JSON result per line.
package main

import (
	"bufio"
	"encoding/json"
	"errors"
	"fmt"
	"io"
	"log"
	"net"
	"os"
	"sort"
	"strings"
	"sync"
	"sync/atomic"
	"time"

	"github.com/DistCompiler/pgo/distsys"
	"github.com/DistCompiler/pgo/distsys/hashmap"
	"github.com/DistCompiler/pgo/distsys/resources"
	"github.com/DistCompiler/pgo/distsys/tla"
)

type attempt struct {
	What  string `json:"what"`  // commit | abort | pcabort | done (body returns ErrDone) | assert | fall | reserr | pcerr | panic
	Touch []int  `json:"touch"` // IncMap keys indexed by this attempt
}

type bodyStops struct {
	At int `json:"at"`
	K  int `json:"k"`
}

type kase struct {
	ID        int         `json:"id"`
	Leaves    []bool      `json:"leaves"`     // extra leaves; true = Close returns an error
	IncMap    bool        `json:"incmap"`     // configure an IncMap resource
	HashMap   int         `json:"hashmap"`    // number of elements of a HashMap resource (0 = none)
	Nested    int         `json:"nested"`     // number of contexts under one Nested resource (0 = none)
	Plan      []attempt   `json:"plan"`       // attempt i of the run; past the end: done
	Pre       int         `json:"pre"`        // Stops before Run
	Race      int         `json:"race"`       // Stops released together with Run
	Body      []bodyStops `json:"body"`       // Stops while attempt At is blocked
	RerunAt   int         `json:"rerun_at"`   // second Run while attempt RerunAt is blocked (-1: none)
	Cleanup   int         `json:"cleanup"`    // Stops during cleanup
	After     int         `json:"after"`      // Stops after Run returned
	NoRun     bool        `json:"norun"`      // never call Run
	ImFail    []int       `json:"im_fail"`    // IncMap keys whose element's Close returns an error
	HmFail    []int       `json:"hm_fail"`    // HashMap elements whose Close returns an error
	NestedEnd []string    `json:"nested_end"` // per nested context: "" runs until stopped | "done" | "assert": ends on its own at once
	PrePanic  bool        `json:"pre_panic"`  // a required ref parameter is missing: preRun panics, the deferred cleanup still runs
	Sender    string      `json:"sender"`     // real cases: what a remote sender does to the local mailbox before the Stops: "" | plain | abort_retry | abort_only
	Real      int         `json:"real"`       // >0: a context over a real FailureDetector and local TCP mailbox, Real Stops at once (oracle only)
	SettleUs  int         `json:"settle_us"`  // how long to let released Stops reach their blocking point
	DeadlineM int         `json:"deadline_ms"`
}

type result struct {
	ID              int            `json:"id"`
	Hang            string         `json:"hang"`      // "" or where the deadline expired
	Started         bool           `json:"started"`   // did the run enter its loop / cleanup
	RunClass        []string       `json:"run_class"` // sorted subset of assert fall res close panic other ; empty = nil
	RunReturned     bool           `json:"run_returned"`
	Bodies          int            `json:"bodies"`            // attempts entered
	Commits         int            `json:"commits"`           // Commit calls on the witness resource
	CommitAfterStop int            `json:"commit_after_stop"` // commits sequenced after the first Stop return
	BodyAfterStop   int            `json:"body_after_stop"`
	StopsIssued     int            `json:"stops_issued"`
	StopsReturned   int            `json:"stops_returned"`
	StopBeforeEnd   int            `json:"stop_before_end"` // Stops that returned before cleanup had finished, of a started run
	Closes          map[string]int `json:"closes"`          // instance -> Close calls
	Created         map[string]int `json:"created"`         // IncMap key -> instances created by the fill function
	CreatedOrder    []int          `json:"created_order"`   // IncMap keys in the order the fill function was called
	LastWhat        string         `json:"last_what"`       // what the last attempt that was let through had been told to do
	Rerun           []string       `json:"rerun"`           // outcome of each further Run: refused | nil-norun | ran-again | panic:<msg>
	Err             string         `json:"err"`
}

var errRes = errors.New("c17 resource failure")
var errClose = errors.New("c17 close failure")

type driver struct {
	seq        int64
	mu         sync.Mutex
	insts      map[string]*inst
	created    map[string]int
	createdOrd []int
	nestedRead int32
	enteredCh  chan int      // body of attempt i entered
	gates      []chan string // per attempt: what to do (sent by the driver)
	closeEnter chan string   // first blocked Close announces itself
	closeGate  chan struct{} // closed by the driver to release every Close
	attemptNo  int32
	bodySeqs   []int64
	plan       []attempt
	failRead   int32
	pcMode     int32 // 0 none, 1 precommit abort, 2 precommit error
}

func (d *driver) next() int64 { return atomic.AddInt64(&d.seq, 1) }

// inst: an instrumented leaf resource
type inst struct {
	distsys.ArchetypeResourceLeafMixin
	d          *driver
	name       string
	closeErr   bool
	gated      bool
	closeCount int32
	readOnce   int32
	commitSeqs []int64
	mu         sync.Mutex
}

func (d *driver) newInst(name string, closeErr, gated bool) *inst {
	r := &inst{d: d, name: name, closeErr: closeErr, gated: gated}
	d.mu.Lock()
	d.insts[name] = r
	d.mu.Unlock()
	return r
}

func (r *inst) Abort(distsys.ArchetypeInterface) chan struct{} { return nil }
func (r *inst) PreCommit(distsys.ArchetypeInterface) chan error {
	if r.name != "w" {
		return nil
	}
	switch atomic.LoadInt32(&r.d.pcMode) {
	case 1:
		ch := make(chan error, 1)
		ch <- distsys.ErrCriticalSectionAborted
		return ch
	case 2:
		ch := make(chan error, 1)
		ch <- errRes
		return ch
	}
	return nil
}
func (r *inst) Commit(distsys.ArchetypeInterface) chan struct{} {
	s := r.d.next()
	r.mu.Lock()
	r.commitSeqs = append(r.commitSeqs, s)
	r.mu.Unlock()
	return nil
}
func (r *inst) ReadValue(distsys.ArchetypeInterface) (tla.Value, error) {
	if !r.gated && atomic.CompareAndSwapInt32(&r.readOnce, 0, 1) {
		atomic.AddInt32(&r.d.nestedRead, 1)
	}
	if r.name == "w" && atomic.LoadInt32(&r.d.failRead) != 0 {
		return tla.Value{}, errRes
	}
	return tla.MakeNumber(0), nil
}
func (r *inst) WriteValue(distsys.ArchetypeInterface, tla.Value) error { return nil }
func (r *inst) Close() error {
	atomic.AddInt32(&r.closeCount, 1)
	if r.gated {
		select {
		case r.d.closeEnter <- r.name:
		default:
		}
		<-r.d.closeGate
	}
	if r.closeErr {
		return errClose
	}
	return nil
}

func archetype(d *driver, name string, nested bool, endMode string) distsys.MPCalArchetype {
	loop := name + ".loop"
	done := name + ".Done"
	var body func(iface distsys.ArchetypeInterface) error
	if nested {
		// a nested context idles: one short committed step after another until stopped
		body = func(iface distsys.ArchetypeInterface) error {
			h := iface.RequireArchetypeResource("&" + name + ".nw")
			if _, err := iface.Read(h, nil); err != nil {
				return err
			}
			switch endMode {
			case "done":
				return distsys.ErrDone
			case "assert":
				return fmt.Errorf("%w: c17 nested assertion", distsys.ErrAssertionFailed)
			}
			time.Sleep(time.Millisecond)
			return iface.Goto(loop)
		}
	} else {
		body = func(iface distsys.ArchetypeInterface) error {
			i := int(atomic.AddInt32(&d.attemptNo, 1)) - 1
			d.mu.Lock()
			d.bodySeqs = append(d.bodySeqs, d.next())
			d.mu.Unlock()
			d.enteredCh <- i
			what := <-d.gates[i]
			var att attempt
			if i < len(d.plan) {
				att = d.plan[i]
			}
			att.What = what
			atomic.StoreInt32(&d.failRead, 0)
			atomic.StoreInt32(&d.pcMode, 0)
			if what == "reserr" {
				atomic.StoreInt32(&d.failRead, 1)
			}
			// the attempt first indexes its IncMap keys (realising the new ones), then reads the witness resource
			for _, k := range att.Touch {
				m := iface.RequireArchetypeResource("&" + name + ".im")
				if _, err := iface.Read(m, []tla.Value{tla.MakeNumber(int32(k))}); err != nil {
					return err
				}
			}
			w := iface.RequireArchetypeResource("&" + name + ".w")
			if _, err := iface.Read(w, nil); err != nil {
				return err
			}
			switch what {
			case "commit":
				return iface.Goto(loop)
			case "abort":
				return distsys.ErrCriticalSectionAborted
			case "pcabort":
				atomic.StoreInt32(&d.pcMode, 1)
				return iface.Goto(loop)
			case "pcerr":
				atomic.StoreInt32(&d.pcMode, 2)
				return iface.Goto(loop)
			case "done":
				return distsys.ErrDone
			case "assert":
				return fmt.Errorf("%w: c17 scripted assertion", distsys.ErrAssertionFailed)
			case "fall":
				return distsys.ErrProcedureFallthrough
			case "panic":
				panic("c17 scripted panic")
			}
			return fmt.Errorf("c17: unknown attempt kind %q", what)
		}
	}
	return distsys.MPCalArchetype{
		Name:  name,
		Label: loop,
		JumpTable: distsys.MakeMPCalJumpTable(
			distsys.MPCalCriticalSection{Name: loop, Body: body},
			distsys.MPCalCriticalSection{Name: done, Body: func(distsys.ArchetypeInterface) error { return distsys.ErrDone }},
		),
		ProcTable: distsys.MakeMPCalProcTable(),
		PreAmble:  func(distsys.ArchetypeInterface) {},
	}
}

func endOf(l []string, i int) string {
	if i < len(l) {
		return l[i]
	}
	return ""
}

func hasInt(l []int, x int) bool {
	for _, y := range l {
		if y == x {
			return true
		}
	}
	return false
}

func classify(err error, panicked interface{}) []string {
	// an error that a Nested resource's Close reports for a context inside it is a Close error of the outer run,
	// whatever it wraps
	var parts []error
	if g, ok := err.(interface{ Errors() []error }); ok { // go.uber.org/multierr's aggregate
		parts = g.Errors()
	} else if err != nil {
		parts = []error{err}
	}
	nestedErr := false
	set := map[string]bool{}
	for _, e := range parts {
		if strings.Contains(e.Error(), "error in nested archetype") {
			nestedErr = true
			continue
		}
		for _, x := range classify1(e, nil) {
			set[x] = true
		}
	}
	for _, x := range classify1(nil, panicked) {
		set[x] = true
	}
	out := []string{}
	for x := range set {
		out = append(out, x)
	}
	sort.Strings(out)
	if nestedErr {
		has := false
		for _, x := range out {
			if x == "close" {
				has = true
			}
		}
		if !has {
			out = append(out, "close")
			sort.Strings(out)
		}
	}
	return out
}

func classify1(err error, panicked interface{}) []string {
	set := map[string]bool{}
	if panicked != nil {
		set["panic"] = true
	}
	if err != nil {
		known := false
		if errors.Is(err, distsys.ErrAssertionFailed) {
			set["assert"] = true
			known = true
		}
		if errors.Is(err, distsys.ErrProcedureFallthrough) {
			set["fall"] = true
			known = true
		}
		if errors.Is(err, errRes) || errors.Is(err, resources.ErrNestedArchetypeStopped) {
			set["res"] = true
			known = true
		}
		if errors.Is(err, errClose) {
			set["close"] = true
			known = true
		}
		if errors.Is(err, distsys.ErrDone) || errors.Is(err, distsys.ErrCriticalSectionAborted) {
			set["internal"] = true
			known = true
		}
		if !known {
			set["other"] = true
		}
	}
	out := []string{}
	for k := range set {
		out = append(out, k)
	}
	sort.Strings(out)
	return out
}

type runRet struct {
	err      error
	panicked interface{}
}

func callRun(ctx *distsys.MPCalContext) (rr runRet) {
	defer func() {
		if p := recover(); p != nil {
			rr.panicked = p
		}
	}()
	rr.err = ctx.Run()
	return
}

// realCase: a context whose resources are a real FailureDetector (IncMap of SingleFailureDetector) and a real local TCP
// mailbox; the body realises both, then loops; k Stops at once; everything must return, a further Run must be refused.
func realCase(k kase) (res result) {
	res.ID = k.ID
	res.Closes = map[string]int{}
	res.Created = map[string]int{}
	res.RunClass = []string{}
	res.Rerun = []string{}
	res.CreatedOrder = []int{}
	ln, err := net.Listen("tcp", "127.0.0.1:0")
	if err != nil {
		res.Err = err.Error()
		return
	}
	mboxAddr := ln.Addr().String()
	ln.Close()
	n := int32(0)
	ready := make(chan struct{}, 1)
	var commits int32
	body := func(iface distsys.ArchetypeInterface) error {
		i := atomic.AddInt32(&n, 1)
		switch i {
		case 1: // realise fd[2]: uninitialized detector, ReadValue sleeps one interval and aborts
			h := iface.RequireArchetypeResource("&R.fd")
			_, err := iface.Read(h, []tla.Value{tla.MakeNumber(2)})
			if err != nil && err != distsys.ErrCriticalSectionAborted {
				return err
			}
			return distsys.ErrCriticalSectionAborted
		case 2: // realise the local mailbox: empty, the read times out and aborts
			h := iface.RequireArchetypeResource("&R.net")
			_, err := iface.Read(h, []tla.Value{tla.MakeNumber(1)})
			if err != nil && err != distsys.ErrCriticalSectionAborted {
				return err
			}
			return distsys.ErrCriticalSectionAborted
		}
		if i == 3 {
			ready <- struct{}{}
		}
		atomic.AddInt32(&commits, 1)
		time.Sleep(100 * time.Microsecond)
		return iface.Goto("R.loop")
	}
	arch := distsys.MPCalArchetype{
		Name: "R", Label: "R.loop",
		JumpTable: distsys.MakeMPCalJumpTable(distsys.MPCalCriticalSection{Name: "R.loop", Body: body}),
		ProcTable: distsys.MakeMPCalProcTable(),
		PreAmble:  func(distsys.ArchetypeInterface) {},
	}
	ctx := distsys.NewMPCalContext(tla.MakeNumber(1), arch,
		distsys.EnsureArchetypeRefParam("fd", resources.NewFailureDetector(func(tla.Value) string { return "127.0.0.1:1" },
			resources.WithFailureDetectorPullInterval(20*time.Millisecond), resources.WithFailureDetectorTimeout(10*time.Millisecond))),
		distsys.EnsureArchetypeRefParam("net", resources.NewTCPMailboxes(func(tla.Value) (resources.MailboxKind, string) {
			return resources.MailboxesLocal, mboxAddr
		}, resources.WithMailboxesReadTimeout(5*time.Millisecond))))
	runCh := make(chan runRet, 1)
	go func() { runCh <- callRun(ctx) }()
	deadline := 6 * time.Second
	select {
	case <-ready:
		res.Started = true
	case rr := <-runCh:
		res.RunReturned = true
		res.RunClass = classify(rr.err, rr.panicked)
		res.Err = "real run ended early: " + fmt.Sprint(rr.err, rr.panicked)
		return
	case <-time.After(deadline):
		res.Hang = "real-start"
		return
	}
	// a remote sender (the real tcpMailboxesRemote resource, driven through the resource API as a sending archetype's
	// critical sections would): write, PreCommit acknowledged, then the section aborts (another of its resources said no);
	// it retries on the same connection and commits, or never retries; the connection stays open during the Stops
	if k.Sender != "" {
		remote := resources.NewTCPMailboxes(func(tla.Value) (resources.MailboxKind, string) {
			return resources.MailboxesRemote, mboxAddr
		}, resources.WithMailboxesDialTimeout(time.Second), resources.WithMailboxesWriteTimeout(time.Second), resources.WithMailboxesReadTimeout(time.Second))
		defer remote.Close()
		var z distsys.ArchetypeInterface
		sendErr := make(chan error, 1)
		go func() {
			r, err := remote.Index(z, tla.MakeNumber(1))
			if err != nil {
				sendErr <- err
				return
			}
			upToAck := func() error {
				if err := r.WriteValue(z, tla.MakeString("hello")); err != nil {
					return err
				}
				if ch := r.PreCommit(z); ch != nil {
					return <-ch
				}
				return nil
			}
			commit := func() {
				if ch := r.Commit(z); ch != nil {
					<-ch
				}
			}
			if err := upToAck(); err != nil {
				sendErr <- err
				return
			}
			switch k.Sender {
			case "plain":
				commit()
			case "abort_retry":
				r.Abort(z)
				if err := upToAck(); err != nil {
					sendErr <- err
					return
				}
				commit()
			case "abort_only":
				r.Abort(z)
			}
			sendErr <- nil
		}()
		select {
		case err := <-sendErr:
			if err != nil {
				res.Err = "sender: " + firstLine(err.Error())
				return
			}
		case <-time.After(deadline):
			res.Hang = "sender"
			return
		}
	}
	stopDone := make(chan struct{}, k.Real)
	for i := 0; i < k.Real; i++ {
		res.StopsIssued++
		go func() { ctx.Stop(); stopDone <- struct{}{} }()
	}
	select {
	case rr := <-runCh:
		res.RunReturned = true
		res.RunClass = classify(rr.err, rr.panicked)
		if rr.err != nil {
			res.Err = firstLine(rr.err.Error())
		}
	case <-time.After(deadline):
		res.Hang = "run"
		return
	}
	c0 := atomic.LoadInt32(&commits)
	t := time.NewTimer(deadline)
	for res.StopsReturned < k.Real {
		select {
		case <-stopDone:
			res.StopsReturned++
		case <-t.C:
			res.Hang = "stops-after-run"
			return
		}
	}
	r2 := make(chan runRet, 1)
	go func() { r2 <- callRun(ctx) }()
	select {
	case x := <-r2:
		res.Rerun = append(res.Rerun, rerunClass(x, atomic.LoadInt32(&commits) != c0))
	case <-time.After(deadline):
		res.Hang = "rerun-after"
	}
	res.Commits = int(c0)
	res.CommitAfterStop = int(atomic.LoadInt32(&commits) - c0)
	// the mailbox's listener must be gone: the address can be bound again
	if l2, err := net.Listen("tcp", mboxAddr); err == nil {
		l2.Close()
		res.Closes["net-listener-released"] = 1
	} else {
		res.Closes["net-listener-released"] = 0
	}
	return
}

func runCase(k kase) (res result) {
	if k.Real > 0 {
		return realCase(k)
	}
	res.ID = k.ID
	res.Closes = map[string]int{}
	res.Created = map[string]int{}
	res.RunClass = []string{}
	res.Rerun = []string{}
	deadline := time.Duration(k.DeadlineM) * time.Millisecond
	if deadline == 0 {
		deadline = 1500 * time.Millisecond
	}
	settle := time.Duration(k.SettleUs) * time.Microsecond
	if settle == 0 {
		settle = 3 * time.Millisecond
	}
	nGates := len(k.Plan) + 4
	d := &driver{
		insts:      map[string]*inst{},
		created:    map[string]int{},
		enteredCh:  make(chan int, nGates),
		closeEnter: make(chan string, 1),
		closeGate:  make(chan struct{}),
		plan:       k.Plan,
	}
	for i := 0; i < nGates; i++ {
		d.gates = append(d.gates, make(chan string, 1))
	}
	const A = "A"
	// resources are bound as ref params (handles "&A.w" -> resource, "A.w" -> local holding the name)
	var cfg []distsys.MPCalContextConfigFn
	alias := func(plain string, r distsys.ArchetypeResource) {
		cfg = append(cfg, plainHandle(plain, r))
	}
	alias("w", d.newInst("w", false, true))
	for i, ce := range k.Leaves {
		alias(fmt.Sprintf("l%d", i), d.newInst(fmt.Sprintf("l%d", i), ce, true))
	}
	if k.IncMap {
		alias("im", resources.NewIncMap(func(index tla.Value) distsys.ArchetypeResource {
			key := fmt.Sprintf("%d", index.AsNumber())
			d.mu.Lock()
			d.created[key]++
			d.createdOrd = append(d.createdOrd, int(index.AsNumber()))
			n := d.created[key]
			d.mu.Unlock()
			return d.newInst(fmt.Sprintf("im[%s]#%d", key, n), hasInt(k.ImFail, int(index.AsNumber())), true)
		}))
	}
	if k.HashMap > 0 {
		hm := hashmap.New[distsys.ArchetypeResource]()
		for i := 0; i < k.HashMap; i++ {
			hm.Set(tla.MakeNumber(int32(i)), d.newInst(fmt.Sprintf("hm[%d]", i), hasInt(k.HmFail, i), true))
		}
		alias("hm", resources.NewHashMap(hm))
	}
	if k.Nested > 0 {
		alias("ne", resources.NewNested(func(sendCh chan<- tla.Value, receiveCh <-chan tla.Value) []*distsys.MPCalContext {
			var ctxs []*distsys.MPCalContext
			for i := 0; i < k.Nested; i++ {
				nm := fmt.Sprintf("N%d", i)
				nw := d.newInst(fmt.Sprintf("ne[%d].nw", i), false, false)
				ctxs = append(ctxs, distsys.NewMPCalContext(tla.MakeNumber(int32(100+i)), archetype(d, nm, true, endOf(k.NestedEnd, i)), plainHandle("nw", nw)))
			}
			return ctxs
		}))
	}
	archA := archetype(d, A, false, "")
	if k.PrePanic {
		archA.RequiredRefParams = []string{"A.missing"}
	}
	ctx := distsys.NewMPCalContext(tla.MakeNumber(1), archA, cfg...)
	// nested contexts are started by NewNested; wait until each has begun its first attempt, so that the
	// later Close finds running contexts (a context stopped before it starts closes nothing, which is allowed)
	if k.Nested > 0 {
		t0 := time.Now()
		for atomic.LoadInt32(&d.nestedRead) < int32(k.Nested) {
			if time.Since(t0) > deadline {
				res.Hang = "nested-start"
				return
			}
			time.Sleep(100 * time.Microsecond)
		}
		// a nested context scripted to end on its own has ended (its cleanup has closed its resource) before the outer run starts
		for i := 0; i < k.Nested; i++ {
			if endOf(k.NestedEnd, i) == "" {
				continue
			}
			for atomic.LoadInt32(&d.insts[fmt.Sprintf("ne[%d].nw", i)].closeCount) == 0 {
				if time.Since(t0) > deadline {
					res.Hang = "nested-early-end"
					return
				}
				time.Sleep(100 * time.Microsecond)
			}
		}
	}

	var stopSeqs []int64
	var stopMu sync.Mutex
	stopDone := make(chan struct{}, 64)
	issueStops := func(n int) {
		ready := make(chan struct{}, n)
		defer func() {
			for i := 0; i < n; i++ {
				<-ready
			}
		}()
		for i := 0; i < n; i++ {
			res.StopsIssued++
			go func() {
				ready <- struct{}{}
				ctx.Stop()
				s := d.next()
				stopMu.Lock()
				stopSeqs = append(stopSeqs, s)
				stopMu.Unlock()
				stopDone <- struct{}{}
			}()
		}
	}
	waitStops := func(n int, where string) bool {
		t := time.NewTimer(deadline)
		defer t.Stop()
		for res.StopsReturned < n {
			select {
			case <-stopDone:
				res.StopsReturned++
			case <-t.C:
				res.Hang = where
				return false
			}
		}
		return true
	}
	finish := func() {
		d.mu.Lock()
		for name, r := range d.insts {
			res.Closes[name] = int(atomic.LoadInt32(&r.closeCount))
		}
		for key, n := range d.created {
			res.Created[key] = n
		}
		res.CreatedOrder = append([]int{}, d.createdOrd...)
		w := d.insts["w"]
		w.mu.Lock()
		commitSeqs := append([]int64(nil), w.commitSeqs...)
		w.mu.Unlock()
		bodySeqs := append([]int64(nil), d.bodySeqs...)
		d.mu.Unlock()
		res.Commits = len(commitSeqs)
		res.Bodies = len(bodySeqs)
		stopMu.Lock()
		var first int64 = -1
		for _, s := range stopSeqs {
			if first < 0 || s < first {
				first = s
			}
		}
		stopMu.Unlock()
		if first >= 0 {
			for _, s := range commitSeqs {
				if s > first {
					res.CommitAfterStop++
				}
			}
			for _, s := range bodySeqs {
				if s > first {
					res.BodyAfterStop++
				}
			}
		}
	}
	defer finish()

	// ---- phase pre
	issueStops(k.Pre)
	if !waitStops(k.Pre, "pre-stop") {
		return
	}
	if k.NoRun {
		issueStops(k.After)
		waitStops(k.Pre+k.After, "after-stop")
		return
	}

	// ---- start Run (+ race)
	runCh := make(chan runRet, 1)
	cleanupDone := int64(0)
	go func() {
		rr := callRun(ctx)
		atomic.StoreInt64(&cleanupDone, d.next())
		runCh <- rr
	}()
	issueStops(k.Race)

	bodyStopsAt := map[int]int{}
	for _, b := range k.Body {
		bodyStopsAt[b.At] += b.K
	}
	var rr runRet
	cleanupSeen := false
	var relOnce sync.Once
	releaseCloses := func() { relOnce.Do(func() { close(d.closeGate) }) }
	timer := time.NewTimer(deadline)
	defer timer.Stop()
	resetTimer := func() {
		if !timer.Stop() {
			select {
			case <-timer.C:
			default:
			}
		}
		timer.Reset(deadline)
	}
loop:
	for {
		resetTimer()
		select {
		case i := <-d.enteredCh:
			res.Started = true
			if n := bodyStopsAt[i]; n > 0 {
				issueStops(n)
				time.Sleep(settle)
			} else if i == 0 && k.Race > 0 {
				time.Sleep(settle) // the Stops released together with Run have had time to take effect
			}
			if k.RerunAt == i {
				r2 := make(chan runRet, 1)
				go func() { r2 <- callRun(ctx) }()
				select {
				case x := <-r2:
					res.Rerun = append(res.Rerun, rerunClass(x, false))
				case <-time.After(deadline):
					res.Hang = "rerun-during-body"
					return
				}
			}
			what := "done"
			if i < len(k.Plan) {
				what = k.Plan[i].What
			}
			res.LastWhat = what
			d.gates[i] <- what
		case <-d.closeEnter:
			if cleanupSeen {
				continue
			}
			res.Started = true
			cleanupSeen = true
			issueStops(k.Cleanup)
			if k.Cleanup > 0 {
				time.Sleep(settle)
			}
			// a Stop that has already returned although the started run is still inside its cleanup
			stopMu.Lock()
			res.StopBeforeEnd = len(stopSeqs)
			stopMu.Unlock()
			releaseCloses()
		case rr = <-runCh:
			break loop
		case <-timer.C:
			res.Hang = "run"
			// let a late cleanup through so that goroutines are not left blocked on our own gate
			releaseCloses()
			return
		}
	}
	releaseCloses()
	res.RunReturned = true
	res.RunClass = classify(rr.err, rr.panicked)
	if rr.err != nil {
		res.Err = firstLine(rr.err.Error())
	} else if rr.panicked != nil {
		res.Err = firstLine(fmt.Sprint(rr.panicked))
	}
	if !waitStops(res.StopsIssued, "stops-after-run") {
		return
	}
	// ---- phase after
	issueStops(k.After)
	if !waitStops(res.StopsIssued, "after-stop") {
		return
	}
	// ---- further Runs must be refused
	for n := 0; n < 2; n++ {
		d.mu.Lock()
		b0 := len(d.bodySeqs)
		closes0 := 0
		for _, r := range d.insts {
			closes0 += int(atomic.LoadInt32(&r.closeCount))
		}
		d.mu.Unlock()
		r2 := make(chan runRet, 1)
		go func() { r2 <- callRun(ctx) }()
		var x runRet
		select {
		case x = <-r2:
		case i := <-d.enteredCh:
			// it runs again: let it through as "done" so it ends
			d.gates[i] <- "done"
			select {
			case x = <-r2:
			case <-time.After(deadline):
				res.Hang = "rerun-after"
				return
			}
		case <-time.After(deadline):
			res.Hang = "rerun-after"
			return
		}
		d.mu.Lock()
		b1 := len(d.bodySeqs)
		closes1 := 0
		for _, r := range d.insts {
			closes1 += int(atomic.LoadInt32(&r.closeCount))
		}
		d.mu.Unlock()
		res.Rerun = append(res.Rerun, rerunClass(x, b1 != b0 || closes1 != closes0))
	}
	return
}

func rerunClass(x runRet, ranAgain bool) string {
	if ranAgain {
		s := "ran-again"
		if x.panicked != nil {
			s += "+panic:" + firstLine(fmt.Sprint(x.panicked))
		}
		return s
	}
	if x.panicked != nil {
		msg := fmt.Sprint(x.panicked)
		if strings.Contains(msg, "already been run") {
			return "refused"
		}
		return "panic:" + firstLine(msg)
	}
	if x.err == nil {
		return "nil-norun"
	}
	return "err:" + firstLine(x.err.Error())
}

func firstLine(s string) string {
	if i := strings.IndexByte(s, '\n'); i >= 0 {
		s = s[:i]
	}
	if len(s) > 160 {
		s = s[:160]
	}
	return s
}

func plainHandle(name string, res distsys.ArchetypeResource) distsys.MPCalContextConfigFn {
	return distsys.EnsureArchetypeRefParam(name, res)
}

func main() {
	log.SetOutput(io.Discard)
	in := bufio.NewReaderSize(os.Stdin, 1<<20)
	out := bufio.NewWriter(os.Stdout)
	defer out.Flush()
	dec := json.NewDecoder(in)
	var cases []kase
	for dec.More() {
		var k kase
		k.RerunAt = -1
		if err := dec.Decode(&k); err != nil {
			fmt.Fprintln(os.Stderr, "bad case:", err)
			os.Exit(2)
		}
		cases = append(cases, k)
	}
	results := make([]result, len(cases))
	workers := 6
	var wg sync.WaitGroup
	idx := int32(-1)
	for w := 0; w < workers; w++ {
		wg.Add(1)
		go func() {
			defer wg.Done()
			for {
				i := int(atomic.AddInt32(&idx, 1))
				if i >= len(cases) {
					return
				}
				results[i] = runCase(cases[i])
			}
		}()
	}
	wg.Wait()
	enc := json.NewEncoder(out)
	for _, r := range results {
		enc.Encode(r)
	}
}
