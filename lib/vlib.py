"""Common machinery for the /verif checks (see DESIGN.md section 2.5).

A property module (props/cNN.py) provides:
    ID            "C10"
    THEOREMS      path of coq/Properties/CNN.v relative to /verif/coq
    HARNESS       list of harness command names under harness/cmd to build
    TRUSTED_BASE  list of strings
    RULE          string: how cases are generated and what counts as distinct/non-trivial
    run(ctx)      performs tie B + implementation-side oracle; fills ctx.* (see Ctx)
"""
import json, os, random, re, subprocess, sys, time, hashlib, shutil

VERIF = os.path.dirname(os.path.dirname(os.path.abspath(__file__)))
COQ = os.path.join(VERIF, "coq")
RUN = os.path.join(COQ, "_run")
BUILD = os.path.join(VERIF, "_build")
HARNESS = os.path.join(VERIF, "harness")
REPO = os.environ.get("VERIF_REPO", "/repo")   # VERIF_REPO: run against a scratch worktree (mutation testing)
_TAG = "" if REPO == "/repo" else "_" + hashlib.sha1(REPO.encode()).hexdigest()[:8]
BIN = os.path.join(BUILD, "bin" + _TAG)

GOENV = dict(os.environ, GOFLAGS="-mod=mod", GOPROXY="off", GOWORK="off", GOTOOLCHAIN="local",
             GOSUMDB="off")

HYGIENE_RE = re.compile(
    r"\b(Admitted|admit|Axiom|Axioms|Parameter|Parameters|Conjecture|Hypothesis|Variable|"
    r"Admit Obligations|Unset Guard Checking|Unset Positivity Checking|Unset Universe Checking|"
    r"bypass_check|type-in-type|impredicative-set)\b")

# axioms the standard library declares and that a property may depend on if named in its trusted base
STD_AXIOMS_OK = set()


def sh(cmd, cwd=None, env=None, timeout=None, input=None):
    """run a command, return (rc, stdout, stderr); rc = 124 on timeout"""
    try:
        p = subprocess.run(cmd, cwd=cwd, env=env, timeout=timeout, input=input,
                           stdout=subprocess.PIPE, stderr=subprocess.PIPE, text=True,
                           shell=isinstance(cmd, str))
        return p.returncode, p.stdout, p.stderr
    except subprocess.TimeoutExpired as e:
        out = e.stdout if isinstance(e.stdout, str) else (e.stdout or b"").decode("utf8", "replace")
        err = e.stderr if isinstance(e.stderr, str) else (e.stderr or b"").decode("utf8", "replace")
        return 124, out, err


# ---------------------------------------------------------------- Coq build

def coq_files():
    fs = []
    for root, dirs, files in os.walk(COQ):
        dirs[:] = [d for d in dirs if d not in ("_run",) and not d.startswith(".")]
        for f in files:
            if f.endswith(".v"):
                fs.append(os.path.relpath(os.path.join(root, f), COQ))
    return sorted(fs)


def coq_project(files=None):
    fs = files if files is not None else coq_files()
    txt = "-Q . PGV\n-arg -w -arg -all\n" + "\n".join(fs) + "\n"
    p = os.path.join(COQ, "_CoqProject")
    old = open(p).read() if os.path.exists(p) else None
    if old != txt:
        open(p, "w").write(txt)
        rc, out, err = sh(["coq_makefile", "-f", "_CoqProject", "-o", "Makefile"], cwd=COQ)
        if rc != 0:
            raise RuntimeError("coq_makefile failed: " + err)
    elif not os.path.exists(os.path.join(COQ, "Makefile")):
        sh(["coq_makefile", "-f", "_CoqProject", "-o", "Makefile"], cwd=COQ)


def coq_build(targets=None, timeout=6000, clean=False, files=None):
    """full .vo build (never -vos) of `files` (default: every .v under coq/) with coq_makefile + make -j16.
    clean=True first removes the compiled files of exactly those sources. returns (ok, log)"""
    coq_project(files)
    if clean:
        for f in (files if files is not None else coq_files()):
            for ext in ("o", "ok", "os"):
                q = os.path.join(COQ, f + ext)
                if os.path.exists(q):
                    os.remove(q)
    cmd = ["make", "-j16", "-k"]
    if targets:
        cmd += targets
    rc, out, err = sh(cmd, cwd=COQ, timeout=timeout)
    log = out + "\n" + err
    os.makedirs(BUILD, exist_ok=True)
    open(os.path.join(BUILD, "coq_build.log"), "w").write(log)
    return rc == 0, log


class CoqLock:
    def __enter__(self):
        import fcntl
        os.makedirs(BUILD, exist_ok=True)
        self.f = open(os.path.join(BUILD, "coq.lock"), "w")
        fcntl.flock(self.f, fcntl.LOCK_EX)
    def __exit__(self, *a):
        import fcntl
        fcntl.flock(self.f, fcntl.LOCK_UN); self.f.close()


_DEPGRAPH = None


def dep_graph():
    """in-project dependency graph of every .v under coq/ (one coqdep call, cached per process)"""
    global _DEPGRAPH
    if _DEPGRAPH is not None:
        return _DEPGRAPH
    fs = coq_files()
    g = {f: [] for f in fs}
    rc, out, err = sh(["coqdep", "-Q", ".", "PGV"] + fs, cwd=COQ)
    for line in out.split("\n"):
        if ":" not in line:
            continue
        lhs, rhs = line.split(":", 1)
        tg = [os.path.normpath(x[:-3] + ".v") for x in lhs.split() if x.endswith(".vo")]
        if not tg:
            continue
        f = tg[0]
        if f not in g:
            continue
        for m in re.finditer(r"(\S+)\.vo\b", rhs):
            d = os.path.normpath(m.group(1) + ".v")
            if d in g and d != f and d not in g[f]:
                g[f].append(d)
    _DEPGRAPH = g
    return g


def direct_deps(f):
    return sorted(dep_graph().get(os.path.normpath(f), []))


def coq_build_closure(vfile, timeout=3000):
    """compile (full .vo, coqc) vfile and its in-project dependencies, only where stale. returns (ok, log).
    Used by the per-property checks so that one property never depends on another property's files."""
    with CoqLock():
        order, seen, dd = [], set(), {}
        def visit(f):
            if f in seen:
                return
            seen.add(f)
            dd[f] = direct_deps(f)
            for g in dd[f]:
                visit(g)
            order.append(f)
        visit(vfile)
        log = ""
        rebuilt = set()
        t0 = time.time()
        for f in order:
            vo = os.path.join(COQ, f + "o")
            stale = (not os.path.exists(vo)) or os.path.getmtime(vo) < os.path.getmtime(os.path.join(COQ, f)) \
                or any(g in rebuilt or os.path.getmtime(os.path.join(COQ, g + "o")) > os.path.getmtime(vo) for g in dd[f])
            if not stale:
                continue
            rc, out, err = sh(["coqc", "-Q", ".", "PGV", "-w", "-all", f], cwd=COQ, timeout=max(60, timeout - (time.time() - t0)))
            log += "coqc %s -> rc %d\n%s%s" % (f, rc, out, err)
            if rc != 0:
                if os.path.exists(vo):
                    os.remove(vo)
                return False, log
            rebuilt.add(f)
        return True, log


def coq_deps_of(vfile):
    """transitive .v dependencies (within the project) of a file, itself included"""
    seen, todo = set(), [os.path.normpath(vfile)]
    while todo:
        f = todo.pop()
        if f in seen:
            continue
        seen.add(f)
        todo.extend(direct_deps(f))
    return sorted(seen)


def theorem_names(vfile):
    txt = open(os.path.join(COQ, vfile)).read()
    return re.findall(r"^\s*Theorem\s+([A-Za-z0-9_']+)", txt, re.M)


def hygiene(vfiles):
    """grep the development for forbidden constructs. returns list of (file, line, text)"""
    bad = []
    for f in vfiles:
        txt = open(os.path.join(COQ, f)).read()
        # strip comments (nested)
        out, depth, i = [], 0, 0
        while i < len(txt):
            if txt.startswith("(*", i):
                depth += 1; i += 2; continue
            if txt.startswith("*)", i) and depth > 0:
                depth -= 1; i += 2; continue
            if depth == 0:
                out.append(txt[i])
            elif txt[i] == "\n":
                out.append("\n")
            i += 1
        code = "".join(out)
        for n, line in enumerate(code.split("\n"), 1):
            m = HYGIENE_RE.search(line)
            if m:
                w = m.group(1)
                # `Variable`/`Hypothesis` are allowed inside a Section only; flag conservatively unless in Section
                if w in ("Variable", "Hypothesis"):
                    pre = "\n".join(code.split("\n")[:n])
                    if len(re.findall(r"^\s*Section\s", pre, re.M)) > len(re.findall(r"^\s*End\s", pre, re.M)):
                        continue
                bad.append((f, n, line.strip()))
    return bad


def coq_eval(name, text, timeout=600):
    """compile a scratch file coq/_run/<name>.v that may import the project; returns (rc, out, err)"""
    os.makedirs(RUN, exist_ok=True)
    p = os.path.join(RUN, name + ".v")
    open(p, "w").write(text)
    rc, out, err = sh(["coqc", "-Q", ".", "PGV", "-w", "-all", os.path.join("_run", name + ".v")],
                      cwd=COQ, timeout=timeout)
    for ext in (".vo", ".vok", ".vos", ".glob"):
        q = os.path.join(RUN, name + ext)
        if os.path.exists(q):
            os.remove(q)
    aux = os.path.join(RUN, "." + name + ".aux")
    if os.path.exists(aux):
        os.remove(aux)
    return rc, out, err


def closure_hash(prop_vfile):
    h = hashlib.sha1()
    for f in coq_deps_of(prop_vfile):
        h.update(f.encode()); h.update(open(os.path.join(COQ, f), "rb").read())
    return h.hexdigest()


def print_assumptions(prop_vfile):
    """returns dict theorem -> list of axioms ([] = closed under the global context), or None on failure.
    The result is cached in _build/ keyed by the content hash of the closure's sources (the .vo files were
    just rebuilt from exactly those sources)."""
    key = closure_hash(prop_vfile)
    cp = os.path.join(BUILD, "assume_cache", os.path.basename(prop_vfile)[:-2] + ".json")
    if os.path.exists(cp):
        try:
            c = json.load(open(cp))
            if c.get("key") == key:
                return c["res"], c["raw"]
        except Exception:
            pass
    res, raw = _print_assumptions(prop_vfile)
    if res is not None:
        os.makedirs(os.path.dirname(cp), exist_ok=True)
        json.dump({"key": key, "res": res, "raw": raw[-4000:]}, open(cp, "w"))
    return res, raw


def _print_assumptions(prop_vfile):
    names = theorem_names(prop_vfile)
    mod = "PGV." + prop_vfile[:-2].replace("/", ".")
    body = "From PGV Require Import %s.\n" % prop_vfile[:-2].replace("/", ".")
    for n in names:
        body += 'Goal True. idtac "@@THM %s". Abort.\nPrint Assumptions %s.%s.\n' % (n, mod, n)
    rc, out, err = coq_eval("assume_" + os.path.basename(prop_vfile)[:-2], body)
    if rc != 0:
        return None, out + err
    res, cur = {}, None
    for line in out.split("\n"):
        m = re.match(r"@@THM (\S+)", line)
        if m:
            cur = m.group(1); res[cur] = None; continue
        if cur is None:
            continue
        if "Closed under the global context" in line:
            res[cur] = []
        elif line.startswith("Axioms:"):
            res[cur] = []
        elif res.get(cur) is not None and re.match(r"^\S+\s*:", line):
            res[cur].append(line.split(":")[0].strip())
        elif res.get(cur) is None and re.match(r"^\S+\s*:", line):
            res[cur] = [line.split(":")[0].strip()]
    return res, out


# ---------------------------------------------------------------- Go harness

def harness_dir():
    """the harness module; when VERIF_REPO points elsewhere, a copy whose replace directives point there"""
    if REPO == "/repo":
        return HARNESS
    d = os.path.join(BUILD, "harness" + _TAG)
    if os.path.exists(d):
        shutil.rmtree(d)
    shutil.copytree(HARNESS, d)
    gm = open(os.path.join(d, "go.mod")).read().replace("=> /repo/", "=> " + REPO + "/")
    open(os.path.join(d, "go.mod"), "w").write(gm)
    return d


def go_build(cmd_name, timeout=1200):
    os.makedirs(BIN, exist_ok=True)
    gosum = os.path.join(HARNESS, "go.sum")
    if not os.path.exists(gosum):
        make_gosum()
    rc, out, err = sh(["go", "build", "-tags", "verif", "-o", os.path.join(BIN, cmd_name), "./cmd/" + cmd_name],
                      cwd=harness_dir(), env=GOENV, timeout=timeout)
    return rc == 0, out + err


def make_gosum():
    lines = set()
    for root in [os.path.join(REPO, "distsys")] + \
            [os.path.join(REPO, "systems", d) for d in sorted(os.listdir(os.path.join(REPO, "systems")))] + [REPO]:
        for fn in ("go.sum", "go.work.sum"):
            p = os.path.join(root, fn)
            if os.path.isfile(p):
                lines.update(l for l in open(p).read().split("\n") if l.strip())
    open(os.path.join(HARNESS, "go.sum"), "w").write("\n".join(sorted(lines)) + "\n")


def run_jsonl(cmd_name, cases, timeout=600, args=(), env=None):
    """feed JSON cases (one per line) to a harness binary; returns list of JSON results, stderr"""
    inp = "".join(json.dumps(c) + "\n" for c in cases)
    e = dict(os.environ)
    if env:
        e.update(env)
    rc, out, err = sh([os.path.join(BIN, cmd_name)] + list(args), input=inp, timeout=timeout, env=e)
    res = []
    for line in out.split("\n"):
        line = line.strip()
        if line.startswith("{"):
            try:
                res.append(json.loads(line))
            except Exception:
                pass
    return rc, res, err


# ---------------------------------------------------------------- Coq term printing

def coq_str(s):
    return '"' + s.replace('"', '""') + '"%string'


def coq_N(n):
    return "%d%%N" % n


def coq_Z(n):
    return "(%d)%%Z" % n


def coq_nat(n):
    return "%d%%nat" % n


def coq_list(xs):
    return "[" + "; ".join(xs) + "]"


def coq_bool(b):
    return "true" if b else "false"


def parse_nat_list(out, name):
    """parse `name = [1; 2] : list nat` from Coq output"""
    m = re.search(re.escape(name) + r"\s*=\s*(\[.*?\]|nil)\s*:\s*list", out, re.S)
    if not m:
        return None
    body = m.group(1)
    if body == "nil":
        return []
    body = body.strip()[1:-1].strip()
    if not body:
        return []
    return [int(re.sub(r"%\w+", "", x).strip()) for x in body.split(";")]


# ---------------------------------------------------------------- findings / evidence / report

def known_findings(prop):
    """known_findings/<prop>.json : {"known": [{property, signature, what, ...}], "fixed": [...]}; never written at run time"""
    p = os.path.join(VERIF, "known_findings", prop + ".json")
    if not os.path.exists(p):
        return [], []
    d = json.load(open(p))
    return ([f for f in d.get("known", []) if f["property"] == prop],
            [f for f in d.get("fixed", []) if f["property"] == prop])


class Ctx:
    def __init__(self, prop, tier, seed):
        self.prop, self.tier, self.seed = prop, tier, seed
        self.rng = random.Random(seed)
        self.evaluations = 0
        self.distinct = set()          # canonical texts of non-trivial cases
        self.samples = []
        self.extra = {}                # extra coverage keys
        self.breaks = []               # broken tie: dicts {what, detail, case}
        self.failures = []             # property failures on the implementation: dicts {signature, what, case, obs}
        self.notes = []

    def add_case(self, canon, nontrivial):
        self.evaluations += 1
        if nontrivial:
            self.distinct.add(hashlib.sha1(canon.encode()).hexdigest())


def write_replay(prop, kind, payload):
    d = os.path.join(VERIF, "replays" if REPO == "/repo" else "_build/replays" + _TAG, prop)
    os.makedirs(d, exist_ok=True)
    txt = json.dumps(payload, indent=1, sort_keys=True, default=str)
    h = hashlib.sha1(txt.encode()).hexdigest()[:12]
    p = os.path.join(d, "%s_%s.json" % (kind, h))
    open(p, "w").write(txt)
    return p


def write_evidence(prop, tier, seed, level, coverage, assumptions, wall, violations):
    evdir = os.path.join(VERIF, "evidence") if REPO == "/repo" else os.path.join(BUILD, "evidence" + _TAG)
    os.makedirs(evdir, exist_ok=True)
    ev = {"property_id": prop, "tier": tier, "seed": seed, "level": level, "coverage": coverage,
          "assumptions": assumptions, "wall_s": round(wall, 2), "violations": violations}
    open(os.path.join(evdir, prop + ".json"), "w").write(json.dumps(ev, indent=1, default=str) + "\n")
