"""C11 helpers: harness trace -> Coq term for the correspondence check, implementation-side oracle, generators."""
import json
import vlib

CS = {"inUninterruptedCriticalSection": 0, "acceptedNewValueInCriticalSection": 1, "notInCriticalSection": 2,
      "inPreCommit": 3, "hasPreCommitted": 4, "failedPreCommit": 5}
RT = {"PreCommit": "RPre", "Commit": "RCommit", "Abort": "RAbort"}


def z(v):
    return "(%d)%%Z" % (v if v is not None else 0)


def snap_coq(s):
    st = "[" + "; ".join("(%d, %s)" % (a, z(b)) for a, b in s["stimes"]) + "]"
    accset = s["accFrom"] >= 0
    return "(%s, %s, %d, %d, %s, %s, %d, %d, %s, %s, %d, %s)" % (
        z(s["val"]), z(s["old"]), s["ver"], CS[s["cs"]], "true" if s["tpc"] == "acceptedPreCommit" else "false",
        "true" if accset else "false", max(s["accFrom"], 0), s["accVer"], z(s["accVal"]), z(s["accTime"]),
        s["attempts"], st)


def xreq(r):
    return "XReq %s %d %s %s" % (RT[r["type"]], r["ver"], z(r["val"]), z(r["time"]))


def finish_events(i, obs):
    """model events that follow a consumed reply/timeout, from what the harness saw next"""
    then = obs.get("then")
    if then == "pre_ok":
        return ["EPreFinish %d 0" % i], "XNoReq"
    if then == "rollback":
        return ["EPreFinish %d %s" % (i, z(obs["req"]["time"]))], xreq(obs["req"])
    if then in ("pre_err", "abort_done"):
        return ["EAbortFinish %d" % i], "XNoReq"
    if then == "commit_done":
        return ["ECommitFinish %d" % i], "XNoReq"
    return [], "XNoReq"


def step_coq(st):
    """one harness step -> (events, expect) Coq text, or None to stop (panic / unknown)"""
    ev, obs = st["ev"], st["obs"]
    k = ev[0]
    if k == "init":
        return [], "XNone"
    if "panic" in obs or "error" in obs:
        return None
    if k == "R":
        return ["ERead %d" % ev[1]], "XRead %s %s" % ("false" if obs["err"] else "true", z(obs.get("v")))
    if k == "W":
        return ["EWrite %d %s" % (ev[1], z(ev[2]))], "XRead %s 0" % ("false" if obs["err"] else "true")
    if k == "P":
        if obs["then"] == "sent":
            return ["EPreCall %d" % ev[1], "EPreWake %d %s" % (ev[1], z(obs["req"]["time"]))], xreq(obs["req"])
        return ["EPreCall %d" % ev[1], "EPreWake %d 0" % ev[1]], "XNoReq"
    if k == "D":
        r = obs["reply"]
        return ["EDeliver %d %d %d" % (ev[1], ev[2], ev[3])], "XReply %s %d %s" % ("true" if r["acc"] else "false", r["ver"], z(r["val"]))
    if k == "Y":
        fe, x = finish_events(ev[1], obs)
        return ["EReply %d %d %d %d" % (ev[1], ev[2], ev[3], ev[4])] + fe, x
    if k == "T":
        fe, x = finish_events(ev[1], obs)
        return ["ETimeout %d %d %d" % (ev[1], ev[2], ev[3])] + fe, x
    if k == "C":
        if obs["then"] == "sent":
            return ["ECommit %d %s" % (ev[1], z(obs["req"]["time"]))], xreq(obs["req"])
        return None
    if k == "A":
        if obs["then"] == "sent":
            return ["EAbort %d %s" % (ev[1], z(obs["req"]["time"]))], xreq(obs["req"])
        return ["EAbort %d 0" % ev[1]], "XNoReq"
    return None


def real_steps(res):
    return [s for s in res.get("steps", []) if "skipped" not in s["obs"] and s["ev"][0] != "E"]


def compress_times(res):
    """order-preserving renaming of the observed UnixNano timestamps to 1..K (the model only compares them);
    keeps the Coq terms small. 0 stays 0 (unset)."""
    ts = set()
    for st in res.get("steps", []):
        r = st["obs"].get("req")
        if r:
            ts.add(r["time"])
        for s in st.get("snaps") or []:
            ts.add(s["accTime"])
            for _, t in s["stimes"]:
                ts.add(t)
    ts.discard(0)
    rank = {t: i + 1 for i, t in enumerate(sorted(ts))}
    rank[0] = 0
    out = json.loads(json.dumps(res))
    for st in out.get("steps", []):
        r = st["obs"].get("req")
        if r:
            r["time"] = rank[r["time"]]
        for s in st.get("snaps") or []:
            s["accTime"] = rank[s["accTime"]]
            s["stimes"] = [[f, rank[t]] for f, t in s["stimes"]]
    return out


def case_coq(case, res, rules):
    """(config, n, init, trace) as Coq text; the number of harness steps covered"""
    res = compress_times(res)
    hs = []
    prev = None
    for st in real_steps(res):
        sc = step_coq(st)
        if sc is None:
            break
        evs, x = sc
        changed = [(j, s) for j, s in enumerate(st["snaps"]) if prev is None or prev[j] != s]
        prev = st["snaps"]
        hs.append("([%s], %s, [%s])" % ("; ".join(evs), x, "; ".join("(%d, %s)" % (j, snap_coq(s)) for j, s in changed)))
    tr = "Rpc" if case["transport"] == "gob" else "Local"
    return "(mkCfg %s %s, %d, %s, [%s])" % (rules, tr, case["n"], z(case.get("init", 0)), ";\n   ".join(hs)), len(hs)


# ---------------------------------------------------------------- implementation-side oracle

def oracle(case, res):
    """checks the property statement directly on what the real code did; returns [(signature, what)]"""
    fails = []
    tr = case["transport"]
    if res.get("err"):
        fails.append(("hang-%s" % tr, res["err"]))
    steps = real_steps(res)
    n = case["n"]
    init = case.get("init", 0)
    prev = None
    decided = {0: init}            # version -> value first seen installed
    commits = {}                   # version -> (from, value) of Commit requests
    commit_order = []              # (version, from) in sending order
    section = {}                   # node -> {"ver": version at first read, "val": value read first (before own writes)}
    reqs = {}                      # (from, q) -> request
    for idx, st in enumerate(steps):
        ev, obs, snaps = st["ev"], st["obs"], st["snaps"]
        if "panic" in obs:
            fails.append(("panic-%s-%s" % (ev[0], tr), "step %d %s panicked: %s" % (idx, ev, obs["panic"][:120])))
        if "req" in obs:
            r = obs["req"]
            reqs[(r["from"], r["q"])] = r
        # 1. versions only grow; 2. agreement per version
        for j, s in enumerate(snaps):
            if prev is not None:
                if s["ver"] < prev[j]["ver"]:
                    fails.append(("version-decreased-%s" % tr, "node %d version %d -> %d at step %d" % (j, prev[j]["ver"], s["ver"], idx)))
                if s["ver"] == prev[j]["ver"] and s["old"] != prev[j]["old"]:
                    fails.append(("committed-value-changed-%s" % tr, "node %d changed its committed value at version %d without a new version (step %d)" % (j, s["ver"], idx)))
            if prev is None or s["ver"] != prev[j]["ver"]:
                k = s["ver"]
                if k in decided and decided[k] != s["old"]:
                    fails.append(("agreement-%s" % tr, "version %d installed with values %s and %s (node %d, step %d)" % (k, decided[k], s["old"], j, idx)))
                decided.setdefault(k, s["old"])
        # 3. one winner per version; 4. stale read aborts
        if ev[0] == "R" and not obs["err"]:
            i = ev[1]
            if i not in section:
                section[i] = {"ver": (prev or snaps)[i]["ver"], "val": obs["v"], "wrote": False}
        if ev[0] == "W" and not obs["err"]:
            i = ev[1]
            section.setdefault(i, {"ver": (prev or snaps)[i]["ver"], "val": None, "wrote": True})
            section[i]["wrote"] = True
        if ev[0] == "A" and obs.get("then") in ("done",):
            section.pop(ev[1], None)
        if obs.get("then") in ("abort_done", "commit_done"):
            section.pop(ev[1], None)
        if ev[0] == "C" and obs.get("then") == "sent":
            i = ev[1]
            r = obs["req"]
            k = r["ver"]
            if k in commits and (commits[k][0] != i or commits[k][1] != r["val"]):
                fails.append(("two-winners-%s" % tr, "version %d committed by node %d (%s) and node %d (%s)" % (k, commits[k][0], commits[k][1], i, r["val"])))
            commits.setdefault(k, (i, r["val"]))
            sec = section.get(i)
            if sec is not None:
                newer = [(kk, f) for (kk, f) in commit_order if kk > sec["ver"] and f != i]
                if newer or k != sec["ver"] + 1:
                    fails.append(("stale-section-commits-%s" % tr, "node %d read at version %d and commits version %d although %s was committed meanwhile" % (i, sec["ver"], k, newer)))
                if sec["val"] is not None and sec["ver"] in decided and decided[sec["ver"]] != sec["val"]:
                    fails.append(("read-not-committed-value-%s" % tr, "node %d read %s at version %d whose value is %s" % (i, sec["val"], sec["ver"], decided[sec["ver"]])))
            commit_order.append((k, i))
        # 5. release: an Abort created after the accepted pre-commit, same proposer and version, must release it
        if ev[0] == "D" and prev is not None:
            m = reqs.get((ev[1], ev[2]))
            j = ev[3]
            if m is not None and m["type"] == "Abort":
                b, a = prev[j], snaps[j]
                if (b["tpc"] == "acceptedPreCommit" and b["accFrom"] == m["from"] and b["accVer"] == m["ver"]
                        and b["accTime"] < m["time"] and b["ver"] + 1 == m["ver"]
                        and not any(t > m["time"] for f, t in b["stimes"] if f == m["from"])
                        and a["tpc"] == "acceptedPreCommit"):
                    fails.append(("abort-not-released-%s" % tr, "node %d keeps the pre-commit of node %d (version %d) after that node's Abort (step %d)" % (j, m["from"], m["ver"], idx)))
        prev = snaps
    # 6. progress after the faults stop
    for st in res.get("steps", []):
        if st["ev"][0] == "E" and not st["obs"].get("committed") and not res.get("err"):
            fails.append(("no-progress-%s" % tr, "all replicas reachable, no faults, writers took %d turns each: nobody committed" % st["obs"].get("rounds", 0)))
    # de-duplicate by signature
    out, seen = [], set()
    for sig, what in fails:
        if sig not in seen:
            seen.add(sig)
            out.append((sig, what))
    return out


def project(res):
    """transport-independent view of a run: events, replies, outcomes, node states without timestamps"""
    out = []
    for st in real_steps(res):
        o = {k: v for k, v in st["obs"].items() if k not in ("req",)}
        if "req" in st["obs"]:
            r = st["obs"]["req"]
            o["req"] = (r["from"], r["q"], r["type"], r["ver"], r["val"])
        sn = [(s["val"], s["old"], s["ver"], s["cs"], s["tpc"], s["accFrom"] if s["accFrom"] >= 0 else -1,
               s["accVer"], s["accVal"], s["attempts"], sorted(set(f for f, _ in s["stimes"]))) for s in st["snaps"]]
        out.append((json.dumps(st["ev"]), json.dumps(o, sort_keys=True), json.dumps(sn)))
    for st in res.get("steps", []):
        if st["ev"][0] == "E":
            out.append(("E", json.dumps(st["obs"], sort_keys=True), ""))
    return out


def contention(res):
    """number of distinct proposers that sent a pre-commit, number of commits, faults used"""
    props, commits, dup, tmo = set(), 0, 0, 0
    seen = set()
    for st in real_steps(res):
        ev, obs = st["ev"], st["obs"]
        if ev[0] == "P" and obs.get("then") == "sent":
            props.add(ev[1])
        if obs.get("then") == "commit_done":
            commits += 1
        if ev[0] == "D":
            key = (ev[1], ev[2], ev[3])
            if key in seen:
                dup += 1
            seen.add(key)
        if ev[0] == "T":
            tmo += 1
    return len(props), commits, dup, tmo
