"""Scripted scenarios for C08/C09 built adaptively against the live harness (positions of messages are looked up in the
observed queues), returned as fixed event lists for the corpus."""
import c08_raft as R


class Script:
    def __init__(self, h, params):
        self.h, self.params = h, params
        self.pm = R.pick_map(h, params["n"])
        self.w = h.new(params)
        self.events, self.picks = [], []

    def do(self, ev, expect="commit"):
        pick = self.pm.get(ev[2], 0) if ev[0] == "EClientSnd" else 0
        oev, outcome, out = R.do_event(self.h, self.w, ev, pickidx=pick)
        self.events.append(list(ev[:2]) + [list(ev[2])] + list(ev[3:]) if ev[0] == "EClientLoop" else list(ev))
        self.picks.append(pick)
        if expect and outcome != expect:
            raise RuntimeError("scenario: %r gave %s (%s)" % (ev, outcome, out.get("err")))
        return out

    def deliver(self, i, pred=lambda m: True, handle=True, br=0):
        """server i reads the first deliverable message satisfying pred and handles it"""
        for k in self.w.deliverable(i):
            if pred(self.w.queue(i)[k]):
                self.do(("EServerLoop", i, k))
                if handle:
                    self.do(("EHandleMsg", i, br, True))
                return
        raise RuntimeError("scenario: no deliverable message for %d: %r" % (i, self.w.queue(i)))

    def drain(self, i, pred=lambda m: True):
        while any(pred(self.w.queue(i)[k]) for k in self.w.deliverable(i)):
            self.deliver(i, pred)

    def timeout(self, i, drop=()):
        n = self.params["n"]
        self.do(("ERVTimeout", i, True, 0))
        for j in range(1, n + 1):
            self.do(("ERVSend", i, 1 if j in drop else 0, True))
        self.do(("ERVSend", i, 0, True))

    def elect(self, i, voters):
        """i times out, the voters answer, i becomes leader"""
        n = self.params["n"]
        self.timeout(i, drop=[j for j in range(1, n + 1) if j != i and j not in voters])
        for j in voters:
            self.deliver(j, lambda m: m["mtype"] == "rvq" and m["msource"] == i)
        for j in voters:
            self.deliver(i, lambda m: m["mtype"] == "rvp" and m["msource"] == j)
        self.do(("EBecomeLeader", i, 0))

    def append_entries(self, i, to):
        """leader i sends AppendEntries to the servers in `to` only"""
        n = self.params["n"]
        ch = 0 if len(self.w.g["appendEntriesCh"][i]) > 0 else 1
        self.do(("EAELoop", i, ch))
        for j in range(1, n + 1):
            self.do(("EAESend", i, 0 if j in to else 1, True))
        self.do(("EAESend", i, 0, True))

    def client_request(self, c, req, srv):
        self.do(("EClientLoop", c, req))
        self.do(("EClientSnd", c, srv, 0, True))

    def check(self, cond, detail=None):
        """an expectation about the shape of the scenario on the unchanged tree (tolerant scripts ignore it)"""
        if not cond:
            raise AssertionError("scenario shape: %r" % (detail,))

    def case(self, name, what, expect=None):
        c = {"name": name, "what": what, "params": self.params, "events": self.events, "picks": self.picks}
        if expect:
            c["expect"] = expect
        return c


def old_term_entry(h, mk=None, over=None):
    """leader of term 3 holds an entry of term 2 replicated on a quorum: it must NOT be committed by counting replicas
    (raftkvs.tla AdvanceCommitIndex: log[i][maxAgreeIndex].term = currentTerm[i])"""
    p = {"n": 3, "nc": 1, "buf": 10, "fifo": True, "explorefail": True, "crashers": [], "keys": 1, "vals": 2}
    s = (mk or Script)(h, dict(p, **(over or {})))
    s.elect(1, [2])
    s.client_request(19, ("put", 1, 1), 1)
    s.deliver(1, lambda m: m["mtype"] == "cpq")
    s.append_entries(1, [2])
    s.drain(2, lambda m: m["mtype"] == "apq")
    # server 2 takes over in term 3 with the vote of server 1 (its log is as up to date)
    s.elect(2, [1])
    s.append_entries(2, [1, 3])
    s.drain(1, lambda m: m["mtype"] == "apq" and m["mterm"] == 3)
    s.drain(3, lambda m: m["mtype"] == "apq" and m["mterm"] == 3)
    s.drain(2, lambda m: m["mtype"] == "app" and m["mterm"] == 3)
    s.check(s.w.g["matchIndex"][2][1] == 1, s.w.g["matchIndex"])
    s.do(("EAdvance", 2))
    s.do(("EApply", 2))
    s.check(s.w.g["commitIndex"][2] == 0, s.w.g["commitIndex"])
    return s.case("old_term_entry", "an entry of term 2 replicated on a quorum by the leader of term 3 is not committed by counting replicas")


def bag_reorder(h, mk=None, over=None):
    """ONLY for cfg_fifo = false (the spec's bag): an older AppendEntries (heartbeat) delivered after a newer one removes an
    acknowledged, committed entry; the next leader lacks it"""
    p = {"n": 3, "nc": 1, "buf": 10, "fifo": False, "explorefail": True, "crashers": [], "keys": 1, "vals": 2}
    s = (mk or Script)(h, dict(p, **(over or {})))
    s.elect(1, [2])
    s.append_entries(1, [2])                      # heartbeat prev=0 entries=<<>> stays in flight
    s.client_request(19, ("put", 1, 1), 1)
    s.deliver(1, lambda m: m["mtype"] == "cpq")
    s.append_entries(1, [2])                      # prev=0 entries=<<e>>
    s.deliver(2, lambda m: m["mtype"] == "apq" and len(m["mentries"]) == 1)
    s.drain(1, lambda m: m["mtype"] == "app")
    s.do(("EAdvance", 1)); s.do(("EApply", 1))     # committed at the leader
    s.deliver(2, lambda m: m["mtype"] == "apq" and len(m["mentries"]) == 0)   # the old heartbeat truncates the log
    s.elect(2, [3])                               # server 2 becomes leader of term 3 without the committed entry
    return s.case("bag_reorder", "bag delivery: an old heartbeat truncates a committed entry; leader of term 3 lacks it",
                  expect={"bag_violation": True})


def figure8(h, mk=None, over=None):
    """Raft Figure 8 with three servers: S1 (term 2) and S3 (term 3) each append an unreplicated entry at index 1; S1 is re-elected
    (term 4) and replicates its term-2 entry to S2: it is on a quorum but must NOT be committed by counting replicas. S3 is then elected
    (term 5, its last entry has the higher term), overwrites index 1 on S2 and commits its own entries. If the term-2 entry had been
    committed, StateMachineSafety / LeaderCompleteness fail here."""
    p = {"n": 3, "nc": 2, "buf": 10, "fifo": True, "explorefail": True, "crashers": [], "keys": 2, "vals": 2}
    s = (mk or Script)(h, dict(p, **(over or {})))
    apq_from = lambda j: (lambda m: m["mtype"] == "apq" and m["msource"] == j)
    s.elect(1, [2])
    s.client_request(19, ("put", 1, 1), 1)
    s.deliver(1, lambda m: m["mtype"] == "cpq")                       # e2 @1 at S1 only
    s.timeout(3, drop=[1, 2])                                           # S3: term 2, nobody hears
    s.timeout(3)                                                        # S3: term 3, asks S1 and S2
    s.deliver(2, lambda m: m["mtype"] == "rvq" and m["msource"] == 3 and m["mterm"] == 3)
    s.drain(3, lambda m: m["mtype"] == "rvp")
    s.do(("EBecomeLeader", 3, 0))                                       # S3 leader of term 3
    s.client_request(20, ("put", 1, 2), 3)
    s.deliver(3, lambda m: m["mtype"] == "cpq")                       # e3 @1 at S3 only
    s.deliver(1, lambda m: m["mtype"] == "rvq" and m["msource"] == 3 and m["mterm"] == 3)   # S1 learns term 3, steps down, refuses; keeps e2
    s.check(s.w.g["state"][1] == "follower" and len(s.w.g["log"][1]) == 1 and s.w.g["log"][1][0]["term"] == 2)
    # S1 re-elected in term 4 by S2; S3 hears the request, steps down and refuses
    s.timeout(1)
    s.deliver(2, lambda m: m["mtype"] == "rvq" and m["msource"] == 1 and m["mterm"] == 4)
    s.deliver(3, lambda m: m["mtype"] == "rvq" and m["msource"] == 1 and m["mterm"] == 4)
    s.drain(1, lambda m: m["mtype"] == "rvp")
    s.do(("EBecomeLeader", 1, 0))
    s.check(s.w.g["state"][1] == "leader" and s.w.g["currentTerm"][1] == 4 and s.w.g["state"][3] == "follower")
    for _ in range(2):                                                  # reject (prev=1), then accept prev=0 entries=<<e2>>
        s.append_entries(1, [2])
        s.drain(2, apq_from(1))
        s.drain(1, lambda m: m["mtype"] == "app")
    s.check(s.w.g["matchIndex"][1][2] == 1, s.w.g["matchIndex"])
    s.do(("EAdvance", 1)); s.do(("EApply", 1))                          # e2 is on {S1,S2} but has term 2 <> 4: must not be committed
    s.check(s.w.g["commitIndex"][1] == 0 and s.w.g["log"][2][0]["term"] == 2)
    # S3 (last entry of term 3) is elected in term 5 by S2 and overwrites index 1 there
    s.timeout(3, drop=[1])
    s.deliver(2, lambda m: m["mtype"] == "rvq" and m["msource"] == 3 and m["mterm"] == 5)
    s.drain(3, lambda m: m["mtype"] == "rvp")
    s.do(("EBecomeLeader", 3, 0))
    s.check(s.w.g["state"][3] == "leader" and s.w.g["currentTerm"][3] == 5)
    for _ in range(2):
        s.append_entries(3, [2])
        s.drain(2, apq_from(3))
        s.drain(3, lambda m: m["mtype"] == "app")
    s.do(("EClientTimeout", 20, False, 0, True)); s.do(("EClientSnd", 20, 3, 0, True))   # a term-5 entry at index 2
    s.deliver(3, lambda m: m["mtype"] == "cpq")
    s.append_entries(3, [2])
    s.drain(2, apq_from(3))
    s.drain(3, lambda m: m["mtype"] == "app")
    s.do(("EAdvance", 3)); s.do(("EApply", 3)); s.do(("EApply", 3))
    s.check(s.w.g["commitIndex"][3] == 2, s.w.g["commitIndex"])
    return s.case("figure8", "Raft Figure 8: an old-term entry on a quorum is not committed by counting replicas; a later leader overwrites it")


def deposed_leader(h, mk=None, over=None):
    """a deposed leader holding an unreplicated entry at index 1 rejoins as follower: AppendEntries of the new leader (which has
    committed its own entry at index 1) must replace the conflicting entry before it is acknowledged/applied"""
    p = {"n": 3, "nc": 2, "buf": 10, "fifo": True, "explorefail": True, "crashers": [], "keys": 2, "vals": 2}
    s = (mk or Script)(h, dict(p, **(over or {})))
    s.elect(1, [2])
    s.client_request(19, ("put", 1, 1), 1)
    s.deliver(1, lambda m: m["mtype"] == "cpq")                       # e2 @1 at S1 only
    s.timeout(3, drop=[1, 2])                                           # S3: term 2, nobody hears
    s.elect(3, [2])                                                     # term 3 without S1
    s.client_request(20, ("put", 1, 2), 3)
    s.deliver(3, lambda m: m["mtype"] == "cpq")                       # e3 @1 at S3
    s.append_entries(3, [2])
    s.drain(2, lambda m: m["mtype"] == "apq" and m["msource"] == 3)
    s.drain(3, lambda m: m["mtype"] == "app")
    s.do(("EAdvance", 3)); s.do(("EApply", 3))                          # e3 committed on {S3,S2}
    s.check(s.w.g["commitIndex"][3] == 1)
    s.append_entries(3, [1, 2])                                         # prev = 0, entries = <<e3>>, commit = 1 reaches the deposed leader
    s.drain(1, lambda m: m["mtype"] == "apq" and m["msource"] == 3)
    s.drain(2, lambda m: m["mtype"] == "apq" and m["msource"] == 3)
    s.drain(3, lambda m: m["mtype"] == "app")
    s.check(s.w.g["commitIndex"][1] == 1 and s.w.g["log"][1] == s.w.g["log"][3], (s.w.g["commitIndex"], s.w.g["log"]))
    return s.case("deposed_leader", "a deposed leader's conflicting unreplicated entry is replaced when it rejoins as follower")


def split_vote(h, mk=None, over=None):
    """two candidates of the same term: S1 (candidate, has voted for itself) must refuse S2; S3 grants only the first request.
    If S1 granted, S1 {1,3} and S2 {2,1} would both be leader of term 2."""
    p = {"n": 3, "nc": 1, "buf": 10, "fifo": True, "explorefail": True, "crashers": [], "keys": 1, "vals": 2}
    s = (mk or Script)(h, dict(p, **(over or {})))
    s.timeout(1)
    s.timeout(2)
    s.deliver(3, lambda m: m["mtype"] == "rvq" and m["msource"] == 1)     # S3 votes for S1
    s.deliver(1, lambda m: m["mtype"] == "rvq" and m["msource"] == 2)     # S1 is a candidate of term 2: must refuse S2
    s.drain(1, lambda m: m["mtype"] == "rvp")
    s.drain(2, lambda m: m["mtype"] == "rvp")
    s.do(("EBecomeLeader", 1, 0))
    s.do(("EBecomeLeader", 2, 0), expect=None)                               # aborts: S2 holds only its own vote
    s.deliver(3, lambda m: m["mtype"] == "rvq" and m["msource"] == 2)     # S3 has voted already: refuses
    s.deliver(2, lambda m: m["mtype"] == "rvq" and m["msource"] == 1)
    s.drain(2, lambda m: m["mtype"] == "rvp")
    s.do(("EBecomeLeader", 2, 1), expect=None)
    s.check(s.w.g["state"][1] == "leader" and s.w.g["state"][2] != "leader")
    return s.case("split_vote", "two candidates of one term: a candidate refuses the other's request (it voted for itself)")


def commit_regress(h, mk=None, over=None):
    """leader change where the new leader knows of fewer committed entries than a follower: S1 commits index 1 and its heartbeat
    (leaderCommit 1) reaches S2 only; S1 crashes; S3 (holds the entry, commitIndex 0) is elected by S2 and its first AppendEntries
    (leaderCommit 0) is accepted by S2: commitIndex[2] must stay 1 (Max({commitIndex, m.mcommitIndex}); theorem commit_monotone)"""
    p = {"n": 3, "nc": 1, "buf": 10, "fifo": True, "explorefail": True, "crashers": [1], "keys": 1, "vals": 2}
    s = (mk or Script)(h, dict(p, **(over or {})))
    s.elect(1, [2, 3])
    s.client_request(19, ("put", 1, 1), 1)
    s.deliver(1, lambda m: m["mtype"] == "cpq")
    s.append_entries(1, [2, 3])
    s.drain(2, lambda m: m["mtype"] == "apq")
    s.drain(3, lambda m: m["mtype"] == "apq")
    s.drain(1, lambda m: m["mtype"] == "app")
    s.do(("EAdvance", 1)); s.do(("EApply", 1)); s.do(("EApply", 1))
    s.check(s.w.g["commitIndex"][1] == 1, s.w.g["commitIndex"])
    s.append_entries(1, [2])                                            # heartbeat with leaderCommit 1 reaches S2 only
    s.drain(2, lambda m: m["mtype"] == "apq")
    s.check(s.w.g["commitIndex"][2] == 1 and s.w.g["commitIndex"][3] == 0, s.w.g["commitIndex"])
    s.do(("ECrash", 1)); s.do(("EFdUpdate", 1))
    s.timeout(3, drop=[1])
    s.deliver(2, lambda m: m["mtype"] == "rvq" and m["msource"] == 3)
    s.drain(3, lambda m: m["mtype"] == "rvp")
    s.do(("EBecomeLeader", 3, 0))
    s.check(s.w.g["state"][3] == "leader" and s.w.g["commitIndex"][3] == 0)
    s.append_entries(3, [2])                                            # prev = 1, entries = <<>>, leaderCommit = 0
    s.drain(2, lambda m: m["mtype"] == "apq" and m["msource"] == 3)
    s.check(s.w.g["commitIndex"][2] == 1, s.w.g["commitIndex"])
    s.drain(3, lambda m: m["mtype"] == "app")
    s.do(("EAdvance", 3)); s.do(("EApply", 3))                          # entry of term 2: not committed by the leader of term 3 yet
    return s.case("commit_regress", "a new leader advertising a lower leaderCommit than the follower's commitIndex: the follower's commitIndex does not move back")


def even_split(h, mk=None, over=None):
    """4 servers split in two halves, both halves hold an election in the same term: 2 of 4 votes are NOT a quorum
    (IsQuorum(S) == Cardinality(S) * 2 > NumServers), so neither candidate may become leader; the halves then heal and S1 is elected by 3."""
    p = {"n": 4, "nc": 1, "buf": 10, "fifo": True, "explorefail": True, "crashers": [], "keys": 1, "vals": 2}
    s = (mk or Script)(h, dict(p, **(over or {})))
    s.timeout(1, drop=[3, 4])
    s.timeout(3, drop=[1, 2])
    s.deliver(2, lambda m: m["mtype"] == "rvq" and m["msource"] == 1)
    s.deliver(4, lambda m: m["mtype"] == "rvq" and m["msource"] == 3)
    s.drain(1, lambda m: m["mtype"] == "rvp")
    s.drain(3, lambda m: m["mtype"] == "rvp")
    s.do(("EBecomeLeader", 1, 0), expect=None)                          # aborts: votesGranted = {1,2}
    s.do(("EBecomeLeader", 3, 0), expect=None)
    s.do(("EBecomeLeader", 1, 1), expect=None)
    s.check(s.w.g["state"][1] == "candidate" and s.w.g["state"][3] == "candidate", s.w.g["state"])
    # an entry on exactly half of the servers is not committed either: S1 elected by {1,2,4} in term 3, replicates to S2 only
    s.timeout(1, drop=[3])
    s.deliver(2, lambda m: m["mtype"] == "rvq" and m["msource"] == 1 and m["mterm"] == 3)
    s.deliver(4, lambda m: m["mtype"] == "rvq" and m["msource"] == 1 and m["mterm"] == 3)
    s.drain(1, lambda m: m["mtype"] == "rvp")
    s.do(("EBecomeLeader", 1, 0))
    s.check(s.w.g["state"][1] == "leader")
    s.client_request(25, ("put", 1, 1), 1)
    s.deliver(1, lambda m: m["mtype"] == "cpq")
    s.append_entries(1, [2])
    s.drain(2, lambda m: m["mtype"] == "apq" and m["msource"] == 1)
    s.drain(1, lambda m: m["mtype"] == "app")
    s.do(("EAdvance", 1)); s.do(("EApply", 1))
    s.check(s.w.g["commitIndex"][1] == 0, s.w.g["commitIndex"])
    s.append_entries(1, [2, 4])
    s.drain(4, lambda m: m["mtype"] == "apq" and m["msource"] == 1)
    s.drain(2, lambda m: m["mtype"] == "apq" and m["msource"] == 1)
    s.drain(1, lambda m: m["mtype"] == "app")
    s.do(("EAdvance", 1)); s.do(("EApply", 1)); s.do(("EApply", 1))
    s.check(s.w.g["commitIndex"][1] == 1, s.w.g["commitIndex"])
    return s.case("even_split", "4 servers: exactly half of the votes / replicas is not a quorum (no leader, no commit)")


def stepdown_midfanout(h, mk=None, over=None):
    """label boundary between AServer and AServerAppendEntries of ONE server: S1 (leader of term 2, deaf so far) is in the middle of its
    AppendEntries fan-out (idx = 3) when its AServer handles S2's RequestVote request of term 3 and steps down (currentTerm := 3). The loop
    condition of appendEntriesLoop re-checks state[srvId] = Leader, so the remaining iteration must NOT send: otherwise S3 (follower of
    term 3 that has applied the entry S2 committed in term 3) gets an AppendEntries request stamped with term 3 from a server that never
    won it, and replaces the committed entry by S1's uncommitted one."""
    p = {"n": 3, "nc": 2, "buf": 10, "fifo": True, "explorefail": True, "crashers": [], "keys": 1, "vals": 2}
    s = (mk or Script)(h, dict(p, **(over or {})))
    s.elect(1, [2])
    s.client_request(19, ("put", 1, 1), 1)
    s.deliver(1, lambda m: m["mtype"] == "cpq")                       # e2 @1 at S1 only
    s.timeout(2)                                                        # S2: term 3; the request to S1 stays in S1's queue
    s.deliver(3, lambda m: m["mtype"] == "rvq" and m["msource"] == 2)
    s.drain(2, lambda m: m["mtype"] == "rvp")
    s.do(("EBecomeLeader", 2, 0))
    s.client_request(20, ("put", 1, 2), 2)
    s.deliver(2, lambda m: m["mtype"] == "cpq")                       # e3 @1 at S2
    for _ in range(2):                                                  # replicate to S3, commit, tell S3
        s.append_entries(2, [3])
        s.drain(3, lambda m: m["mtype"] == "apq" and m["msource"] == 2)
        s.drain(2, lambda m: m["mtype"] == "app")
        s.do(("EAdvance", 2)); s.do(("EApply", 2))
    s.check(s.w.g["commitIndex"][3] == 1 and s.w.g["state"][1] == "leader" and s.w.g["currentTerm"][1] == 2, s.w.g["commitIndex"])
    # S1 starts its fan-out: idx = 1 (itself), idx = 2 (sent to S2, term 2)
    ch = 0 if len(s.w.g["appendEntriesCh"][1]) > 0 else 1
    s.do(("EAELoop", 1, ch))
    s.do(("EAESend", 1, 0, True))
    s.do(("EAESend", 1, 0, True))
    s.deliver(1, lambda m: m["mtype"] == "rvq" and m["msource"] == 2)  # S1's AServer steps down: term 3, follower
    s.check(s.w.g["state"][1] == "follower" and s.w.g["currentTerm"][1] == 3, s.w.g["state"])
    s.do(("EAESend", 1, 0, True))                                       # idx = 3: the loop must exit without sending
    s.check(not any(m["mtype"] == "apq" and m["msource"] == 1 for m in s.w.queue(3)), s.w.queue(3))
    s.do(("EServerLoop", 3, 0), expect=None)                            # (nothing to read on the unchanged tree)
    s.do(("EHandleMsg", 3, 0, True), expect=None)
    s.check(s.w.g["log"][3] == s.w.g["log"][2])
    return s.case("stepdown_midfanout", "a leader that steps down between two iterations of its AppendEntries fan-out stops sending (state re-checked at the label boundary)")


def divergent_vote(h, mk=None, over=None):
    """up-to-date rule with divergent logs: S1 (deposed leader of term 2) holds two uncommitted entries of term 2; S2 (term 3) has committed
    one entry of term 3 on {S2,S3}. S1 stands for term 4 and asks S3: its log is LONGER but ends in an OLDER term, so S3 must refuse
    (logOK == mlastLogTerm > LastTerm(log) \\/ (mlastLogTerm = LastTerm(log) /\\ mlastLogIndex >= Len(log)))."""
    p = {"n": 3, "nc": 3, "buf": 10, "fifo": True, "explorefail": True, "crashers": [], "keys": 1, "vals": 2}
    s = (mk or Script)(h, dict(p, **(over or {})))
    s.elect(1, [2])
    s.client_request(19, ("put", 1, 1), 1)
    s.client_request(20, ("put", 1, 2), 1)
    s.drain(1, lambda m: m["mtype"] == "cpq")                         # two entries of term 2 at S1 only
    s.timeout(2)                                                        # the request to S1 stays in S1's queue for now
    s.deliver(3, lambda m: m["mtype"] == "rvq" and m["msource"] == 2)
    s.drain(2, lambda m: m["mtype"] == "rvp")
    s.do(("EBecomeLeader", 2, 0))                                       # S2 leader of term 3
    s.client_request(21, ("put", 1, 1), 2)
    s.deliver(2, lambda m: m["mtype"] == "cpq")
    for _ in range(2):
        s.append_entries(2, [3])
        s.drain(3, lambda m: m["mtype"] == "apq" and m["msource"] == 2)
        s.drain(2, lambda m: m["mtype"] == "app")
        s.do(("EAdvance", 2)); s.do(("EApply", 2))
    s.check(s.w.g["commitIndex"][3] == 1 and len(s.w.g["log"][1]) == 2 and s.w.g["currentTerm"][1] == 2, s.w.g["commitIndex"])
    s.deliver(1, lambda m: m["mtype"] == "rvq" and m["msource"] == 2)  # S1 learns term 3, steps down, refuses (its log ends in term 2 > 0)
    s.drain(2, lambda m: m["mtype"] == "rvp")
    s.check(s.w.g["state"][1] == "follower" and s.w.g["currentTerm"][1] == 3 and len(s.w.g["log"][1]) == 2, s.w.g["state"])
    s.timeout(1, drop=[2])                                              # term 4: asks S3 (lastLogTerm 2, lastLogIndex 2)
    s.deliver(3, lambda m: m["mtype"] == "rvq" and m["msource"] == 1 and m["mterm"] == 4)
    s.drain(1, lambda m: m["mtype"] == "rvp")
    s.do(("EBecomeLeader", 1, 0), expect=None)                          # must abort: S3 refused
    s.check(s.w.g["state"][1] == "candidate", s.w.g["state"])
    for _ in range(3):                                                  # if S1 were leader it would now overwrite S3's applied entry
        s.do(("EAELoop", 1, 0), expect=None)
        for _j in range(4):
            s.do(("EAESend", 1, 0, True), expect=None)
        s.do(("EServerLoop", 3, 0), expect=None); s.do(("EHandleMsg", 3, 0, True), expect=None)
        s.do(("EServerLoop", 1, 0), expect=None); s.do(("EHandleMsg", 1, 0, True), expect=None)
    s.check(s.w.g["log"][3] == s.w.g["log"][2])
    return s.case("divergent_vote", "a candidate whose log is longer but ends in an older term is refused by a voter holding a committed entry of a newer term")


def stale_matchindex(h, mk=None, over=None):
    """the same server is leader twice (5 servers): S1 (term 2) replicates an entry to S2 (matchIndex[1][2] = 1); S4 is elected in term 3
    with an empty log and its AppendEntries truncate S1 and S2; S1 is re-elected in term 4 (AServerBecomeLeader resets matchIndex to 0)
    and replicates a new entry at index 1 to S5 only: {S1,S5} is not a quorum, the entry must NOT be committed / acknowledged. With a
    stale matchIndex[1][2] it is, and after the minority {S1,S5} crashes the next leader lacks it."""
    p = {"n": 5, "nc": 2, "buf": 10, "fifo": True, "explorefail": True, "crashers": [1, 5], "keys": 1, "vals": 2}
    s = (mk or Script)(h, dict(p, **(over or {})))
    c1 = 31
    s.elect(1, [2, 3])
    s.client_request(c1, ("put", 1, 1), 1)
    s.deliver(1, lambda m: m["mtype"] == "cpq")
    s.append_entries(1, [2])
    s.drain(2, lambda m: m["mtype"] == "apq")
    s.drain(1, lambda m: m["mtype"] == "app")
    s.check(s.w.g["matchIndex"][1][2] == 1, s.w.g["matchIndex"])
    s.timeout(4, drop=[1, 2, 3, 5])                                     # S4: term 2, nobody hears
    s.timeout(4)                                                        # S4: term 3, asks everybody
    for j in (3, 5, 1, 2):
        s.deliver(j, lambda m: m["mtype"] == "rvq" and m["msource"] == 4 and m["mterm"] == 3)
    s.drain(4, lambda m: m["mtype"] == "rvp")
    s.do(("EBecomeLeader", 4, 0))
    s.check(s.w.g["state"][4] == "leader" and s.w.g["state"][1] == "follower" and len(s.w.g["log"][1]) == 1, s.w.g["state"])
    s.append_entries(4, [1, 2])                                         # prev = 0, entries = <<>>: S1 and S2 drop the entry of term 2
    s.drain(1, lambda m: m["mtype"] == "apq" and m["msource"] == 4)
    s.drain(2, lambda m: m["mtype"] == "apq" and m["msource"] == 4)
    s.drain(4, lambda m: m["mtype"] == "app")
    s.check(all(len(s.w.g["log"][i]) == 0 for i in range(1, 6)), s.w.g["log"])
    s.timeout(1, drop=[4, 5])                                           # S1 re-elected in term 4 by S2 and S3
    s.deliver(2, lambda m: m["mtype"] == "rvq" and m["msource"] == 1 and m["mterm"] == 4)
    s.deliver(3, lambda m: m["mtype"] == "rvq" and m["msource"] == 1 and m["mterm"] == 4)
    s.drain(1, lambda m: m["mtype"] == "rvp")
    s.do(("EBecomeLeader", 1, 0))
    s.check(s.w.g["state"][1] == "leader" and s.w.g["currentTerm"][1] == 4 and s.w.g["matchIndex"][1][2] == 0, s.w.g["matchIndex"])
    s.do(("EClientTimeout", c1, False, 0, True)); s.do(("EClientSnd", c1, 1, 0, True))   # the client re-sends its Put
    s.deliver(1, lambda m: m["mtype"] == "cpq")
    s.append_entries(1, [5])
    s.drain(5, lambda m: m["mtype"] == "apq" and m["msource"] == 1)
    s.drain(1, lambda m: m["mtype"] == "app")
    s.do(("EAdvance", 1)); s.do(("EApply", 1), expect=None); s.do(("EApply", 1), expect=None)
    s.check(s.w.g["commitIndex"][1] == 0, s.w.g["commitIndex"])
    s.do(("EClientRcv", c1, 0), expect=None)                            # nothing to receive: the Put is on 2 of 5 servers
    s.do(("ECrash", 1)); s.do(("EFdUpdate", 1)); s.do(("ECrash", 5)); s.do(("EFdUpdate", 5))
    s.timeout(2, drop=[1, 5])
    s.deliver(3, lambda m: m["mtype"] == "rvq" and m["msource"] == 2 and m["mterm"] == 5)
    s.deliver(4, lambda m: m["mtype"] == "rvq" and m["msource"] == 2 and m["mterm"] == 5)
    s.drain(2, lambda m: m["mtype"] == "rvp")
    s.do(("EBecomeLeader", 2, 0))
    s.check(s.w.g["state"][2] == "leader")
    return s.case("stale_matchindex", "a re-elected leader starts from matchIndex = 0: an entry on 2 of 5 servers is not committed")


def overwrite_same_key(h, mk=None, over=None):
    """the same key is written twice with different values; the leader applies entry by entry (applyLoop), the followers through
    ApplyLog / ApplyLogEntry when they learn the commit index: equal commit index => equal stores (the later Put wins everywhere)"""
    p = {"n": 3, "nc": 2, "buf": 10, "fifo": True, "explorefail": True, "crashers": [1], "keys": 1, "vals": 2}
    s = (mk or Script)(h, dict(p, **(over or {})))
    s.elect(1, [2, 3])
    for val in (1, 2):
        s.client_request(19, ("put", 1, val), 1)
        s.deliver(1, lambda m: m["mtype"] == "cpq")
        s.append_entries(1, [2, 3])
        s.drain(2, lambda m: m["mtype"] == "apq")
        s.drain(3, lambda m: m["mtype"] == "apq")
        s.drain(1, lambda m: m["mtype"] == "app")
        s.do(("EAdvance", 1)); s.do(("EApply", 1)); s.do(("EApply", 1))
        s.do(("EClientRcv", 19, 0))
    s.append_entries(1, [2, 3])                                         # followers learn commit index 2 and apply both entries
    s.drain(2, lambda m: m["mtype"] == "apq")
    s.drain(3, lambda m: m["mtype"] == "apq")
    s.drain(1, lambda m: m["mtype"] == "app")
    s.check(s.w.g["commitIndex"][2] == 2 and s.w.g["sm"][2] == s.w.g["sm"][1], s.w.g["sm"])
    return s.case("overwrite_same_key", "put(k,v1) then put(k,v2): leader (applyLoop) and followers (ApplyLog) end with the same store")
