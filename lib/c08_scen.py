"""Scripted scenarios for C08/C09 built adaptively against the live harness (positions of messages are looked up in the
observed queues), returned as fixed event lists for the corpus."""
import c08_raft as R


class Script:
    def __init__(self, h, params):
        self.h, self.params = h, params
        self.pm = R.pick_map(h, params["n"])
        self.w = h.new(params)
        self.events, self.picks = [], []

    def do(self, ev, expect="commit"):
        pick = self.pm.get(ev[2], 0) if ev[0] == "EClientSnd" else 0
        oev, outcome, out = R.do_event(self.h, self.w, ev, pickidx=pick)
        self.events.append(list(ev[:2]) + [list(ev[2])] + list(ev[3:]) if ev[0] == "EClientLoop" else list(ev))
        self.picks.append(pick)
        if expect and outcome != expect:
            raise RuntimeError("scenario: %r gave %s (%s)" % (ev, outcome, out.get("err")))
        return out

    def deliver(self, i, pred=lambda m: True, handle=True, br=0):
        """server i reads the first deliverable message satisfying pred and handles it"""
        for k in self.w.deliverable(i):
            if pred(self.w.queue(i)[k]):
                self.do(("EServerLoop", i, k))
                if handle:
                    self.do(("EHandleMsg", i, br, True))
                return
        raise RuntimeError("scenario: no deliverable message for %d: %r" % (i, self.w.queue(i)))

    def drain(self, i, pred=lambda m: True):
        while any(pred(self.w.queue(i)[k]) for k in self.w.deliverable(i)):
            self.deliver(i, pred)

    def timeout(self, i, drop=()):
        n = self.params["n"]
        self.do(("ERVTimeout", i, True, 0))
        for j in range(1, n + 1):
            self.do(("ERVSend", i, 1 if j in drop else 0, True))
        self.do(("ERVSend", i, 0, True))

    def elect(self, i, voters):
        """i times out, the voters answer, i becomes leader"""
        n = self.params["n"]
        self.timeout(i, drop=[j for j in range(1, n + 1) if j != i and j not in voters])
        for j in voters:
            self.deliver(j, lambda m: m["mtype"] == "rvq" and m["msource"] == i)
        for j in voters:
            self.deliver(i, lambda m: m["mtype"] == "rvp" and m["msource"] == j)
        self.do(("EBecomeLeader", i, 0))

    def append_entries(self, i, to):
        """leader i sends AppendEntries to the servers in `to` only"""
        n = self.params["n"]
        ch = 0 if len(self.w.g["appendEntriesCh"][i]) > 0 else 1
        self.do(("EAELoop", i, ch))
        for j in range(1, n + 1):
            self.do(("EAESend", i, 0 if j in to else 1, True))
        self.do(("EAESend", i, 0, True))

    def client_request(self, c, req, srv):
        self.do(("EClientLoop", c, req))
        self.do(("EClientSnd", c, srv, 0, True))

    def case(self, name, what, expect=None):
        c = {"name": name, "what": what, "params": self.params, "events": self.events, "picks": self.picks}
        if expect:
            c["expect"] = expect
        return c


def old_term_entry(h):
    """leader of term 3 holds an entry of term 2 replicated on a quorum: it must NOT be committed by counting replicas
    (raftkvs.tla AdvanceCommitIndex: log[i][maxAgreeIndex].term = currentTerm[i])"""
    p = {"n": 3, "nc": 1, "buf": 10, "fifo": True, "explorefail": True, "crashers": [], "keys": 1, "vals": 2}
    s = Script(h, p)
    s.elect(1, [2])
    s.client_request(19, ("put", 1, 1), 1)
    s.deliver(1, lambda m: m["mtype"] == "cpq")
    s.append_entries(1, [2])
    s.drain(2, lambda m: m["mtype"] == "apq")
    # server 2 takes over in term 3 with the vote of server 1 (its log is as up to date)
    s.elect(2, [1])
    s.append_entries(2, [1, 3])
    s.drain(1, lambda m: m["mtype"] == "apq" and m["mterm"] == 3)
    s.drain(3, lambda m: m["mtype"] == "apq" and m["mterm"] == 3)
    s.drain(2, lambda m: m["mtype"] == "app" and m["mterm"] == 3)
    assert s.w.g["matchIndex"][2][1] == 1, s.w.g["matchIndex"]
    s.do(("EAdvance", 2))
    s.do(("EApply", 2))
    assert s.w.g["commitIndex"][2] == 0, s.w.g["commitIndex"]
    return s.case("old_term_entry", "an entry of term 2 replicated on a quorum by the leader of term 3 is not committed by counting replicas")


def bag_reorder(h):
    """ONLY for cfg_fifo = false (the spec's bag): an older AppendEntries (heartbeat) delivered after a newer one removes an
    acknowledged, committed entry; the next leader lacks it"""
    p = {"n": 3, "nc": 1, "buf": 10, "fifo": False, "explorefail": True, "crashers": [], "keys": 1, "vals": 2}
    s = Script(h, p)
    s.elect(1, [2])
    s.append_entries(1, [2])                      # heartbeat prev=0 entries=<<>> stays in flight
    s.client_request(19, ("put", 1, 1), 1)
    s.deliver(1, lambda m: m["mtype"] == "cpq")
    s.append_entries(1, [2])                      # prev=0 entries=<<e>>
    s.deliver(2, lambda m: m["mtype"] == "apq" and len(m["mentries"]) == 1)
    s.drain(1, lambda m: m["mtype"] == "app")
    s.do(("EAdvance", 1)); s.do(("EApply", 1))     # committed at the leader
    s.deliver(2, lambda m: m["mtype"] == "apq" and len(m["mentries"]) == 0)   # the old heartbeat truncates the log
    s.elect(2, [3])                               # server 2 becomes leader of term 3 without the committed entry
    return s.case("bag_reorder", "bag delivery: an old heartbeat truncates a committed entry; leader of term 3 lacks it",
                  expect={"bag_violation": True})
