"""C02 — the corpus schedules of C08 (raftkvs scenarios), C14 (pbkvs) and C16 (proxy, replicatedkv, loadbalancer) as a second
Go-side safety net: each schedule is run on the REAL generated archetypes (harness/cmd/c02s, cmd/c16); on every observed
pre-state (a) the regenerated Go model must predict the observed attempt (as in real_go_steplib) and (b) run o symex_go of the
Go body is compared with the direct interpreter of coq/C02/Direct.v for every candidate choice vector.
The corpus files and lib/c08_raft.py belong to other properties and are only read; a file that cannot be used is reported in
`skipped`, never an error of C02."""
import glob, json, os, re
import vlib
import c02_gen as G


def _consts(sysd, over):
    """the first constant set of the system with the given CONSTANTs replaced (Coq terms)"""
    out = []
    for k, v in sysd["constants"]:
        out.append((k, over.get(k, v)))
    return out


def _cfg_consts(sysd, cfg):
    """harness cfg ints -> Coq constants (booleans where the system's constant is a boolean)"""
    over = {}
    for k, v in sysd["constants"]:
        if k in cfg:
            over[k] = ("VBool true" if cfg[k] else "VBool false") if v.startswith("VBool") else "VNum %d" % cfg[k]
    return _consts(sysd, over)


class _World:
    """what lib/c08_raft.choices_of consults: the parameters and a client's local `leader`"""
    def __init__(self, params, locs):
        self.p, self.n, self._l = params, params["n"], locs
    def loc(self, pr, name, dflt):
        v = self._l.get(pr, {}).get(name, dflt)
        return v if isinstance(v, int) else dflt


def _iterate(mk_sched, run, max_pass=12):
    """schedules whose choice vectors depend on the state before each step (label, a local): recompute them from the
    previous pass's observations until they no longer change"""
    res, sched = None, None
    for _ in range(max_pass):
        new = mk_sched(res)
        if new == sched:
            break
        sched = new
        res = run(sched)
        if res is None:
            return None, None
    return sched, res


def _track(res, upto):
    """(pc per proc, locals per proc) before step `upto` of a harness result"""
    pcs = dict(res["pcs0"])
    locs = {}
    for so in res["steps"][:upto]:
        if so.get("outcome") == "commit":
            pcs[so["proc"]] = so.get("pc") or pcs.get(so["proc"])
            locs.setdefault(so["proc"], {}).update(so.get("locals") or {})
    return pcs, locs


def items(systems):
    """-> [(source file, system name, harness cfg, Coq constants, schedule maker)], [skipped (file, why)]"""
    by = {s["name"]: s for s in systems}
    out, skipped = [], []
    root = os.path.join(vlib.ROOT, "corpus") if hasattr(vlib, "ROOT") else os.path.join(os.path.dirname(os.path.dirname(os.path.abspath(__file__))), "corpus")
    for f in sorted(glob.glob(os.path.join(root, "C16", "*.json"))):
        try:
            d = json.load(open(f))
        except Exception as e:
            skipped.append((f, "unreadable: %s" % e)); continue
        nm = d.get("system")
        if nm not in ("proxy", "replicatedkv", "loadbalancer", "shcounter") or nm not in by or not d.get("sched"):
            skipped.append((f, "system %s has no real-Go set-up tied to the C02 translation" % nm)); continue
        cfg = dict(G._const_cfg(by[nm], 0)); cfg.update({k: v for k, v in d.get("cfg", {}).items() if isinstance(v, int)})
        out.append((f, nm, cfg, _cfg_consts(by[nm], cfg), (lambda sched: (lambda res: sched))(d["sched"])))
    for f in sorted(glob.glob(os.path.join(root, "C14", "*.json"))):
        try:
            d = json.load(open(f))
        except Exception as e:
            skipped.append((f, "unreadable: %s" % e)); continue
        if "steps" not in d or "pbkvs" not in by:
            skipped.append((f, "no explicit schedule")); continue
        cfg = {"NUM_REPLICAS": d["nr"], "NUM_CLIENTS": d["nc"], "EXPLORE_FAIL": 1 if d.get("ef") else 0, "DEBUG": 0}

        def mk(res, steps=d["steps"]):
            sched = []
            for j, (p, alt, fail) in enumerate(steps):
                name = "p%d" % p
                if res is None or j > len(res["steps"]):
                    sched.append([name, [alt, fail]]); continue
                pcs, locs = _track(res, j)
                lbl = (pcs.get(name) or "").split(".")[-1]
                if lbl == "replicaLoop":
                    ks = [fail]
                elif lbl in ("sndSyncReqLoop", "sndReplicaReqLoop"):
                    ks = [fail] if locs.get(name, {}).get("AReplica.idx") == p else [alt, fail]
                elif lbl == "rcvReplicaRespLoop":
                    ks = [alt, fail]
                else:
                    ks = [alt]
                sched.append([name, ks])
            return sched
        out.append((f, "pbkvs", cfg, _cfg_consts(by["pbkvs"], cfg), mk))
    try:
        import c08_raft as R
    except Exception as e:
        R = None
        skipped.append(("corpus/C08", "lib/c08_raft.py not importable: %s" % e))
    for f in sorted(glob.glob(os.path.join(root, "C08", "*.json"))) if R and "raftkvs" in by else []:
        try:
            d = json.load(open(f))
            P = d["params"]
            cfg = dict(G._const_cfg(by["raftkvs"], 0))
            cfg.update({"NumServers": P["n"], "NumClients": P["nc"], "BufferSize": P["buf"], "ExploreFail": 1 if P["explorefail"] else 0,
                        "MaxNodeFail": len(P.get("crashers") or []), "Keys": P["keys"], "Vals": P["vals"]})
            if (P.get("crashers") or []) != list(range(1, len(P.get("crashers") or []) + 1)):
                skipped.append((f, "crashers %r are not servers 1..k" % P.get("crashers"))); continue
            strs = ["k%d" % i for i in range(1, P["keys"] + 1)] + ["v%d" % i for i in range(1, P["vals"] + 1)]
            over = {"AllStrings": "VSet (set_of_list [%s])" % "; ".join('VStr "%s"' % x for x in strs)}
            consts = _consts(by["raftkvs"], dict({k: v for k, v in _cfg_consts(by["raftkvs"], cfg)}, **over))

            def mk(res, evs=d["events"], P=P):
                sched = []
                for j, ev in enumerate(evs):
                    ev = tuple(tuple(x) if isinstance(x, list) else x for x in ev)
                    locs = _track(res, j)[1] if res is not None and j <= len(res["steps"]) else {}
                    sched.append([R.proc_of(ev, P["n"]), [int(x) for x in R.choices_of(ev, _World(P, locs))]])
                return sched
            out.append((f, "raftkvs", cfg, consts, mk))
        except Exception as e:
            skipped.append((f, "not usable: %s" % e))
    return out, skipped


def run(systems, infos, log, only=None):
    """-> summary dict, [break dicts]"""
    its, skipped = items(systems)
    tot = {"schedules": 0, "attempts": 0, "committed": 0, "model_vs_real_mismatches": 0, "direct_agree": 0,
           "direct_agree_up_to_eager_error": 0, "direct_disagree": 0, "per_file": {}, "skipped": [[os.path.basename(f), w] for f, w in skipped]}
    breaks = []
    by = {s["name"]: (s, i) for s, i in zip(systems, infos)}
    for f, nm, cfg, consts, mk in its:
        if only and nm not in only:
            continue
        sysd, info = by[nm]
        if info["errors"]:
            continue
        rs = G.REAL_SYSTEMS[nm]
        def runh(sched):
            rc, res, err = vlib.run_jsonl(rs["bin"], [{"id": 0, "system": nm, "cfg": cfg, "sched": sched}], timeout=300)
            return res[0] if rc == 0 and res and not res[0].get("err") else None
        sched, res = _iterate(mk, runh)
        if sched is None:
            tot["skipped"].append([os.path.basename(f), "the harness did not run this schedule"]); continue
        d = {}
        n, ncommit, mm, err = G.real_go_steplib(info, sysd, 0, 0, 0, None, log, cases=[{"id": 0, "system": nm, "cfg": cfg, "sched": sched}],
                                                consts=consts, cfg=cfg, direct=d)
        tot["schedules"] += 1
        tot["attempts"] += n
        tot["committed"] += ncommit
        tot["model_vs_real_mismatches"] += len(mm)
        tot["direct_agree"] += d.get("agree", 0)
        tot["direct_agree_up_to_eager_error"] += d.get("agree_up_to_eager_error", 0)
        tot["direct_disagree"] += len(d.get("disagree", []))
        tot["per_file"][os.path.basename(f)] = {"system": nm, "attempts": n, "committed": ncommit, "mismatches": len(mm),
                                                "direct_agree": d.get("agree", 0), "direct_disagree": len(d.get("disagree", [])), "error": err}
        if err:
            breaks.append({"what": "C02 %s: corpus schedule %s could not be compared: %s" % (nm, os.path.basename(f), err[:200]), "detail": err})
        for m in mm[:1]:
            breaks.append({"what": "C02 %s: on corpus schedule %s the regenerated Go model of %s.%s does not predict what the real generated Go did" % (
                nm, os.path.basename(f), m.get("process"), m.get("label")), "case": m, "impl": m.get("real"), "model": m.get("gomodel")})
        for m in d.get("disagree", [])[:1]:
            breaks.append({"what": "C02 %s: on corpus schedule %s run o symex_go and the direct interpreter disagree on %s.%s" % (
                nm, os.path.basename(f), m.get("process"), m.get("label")), "case": m, "impl": m.get("direct"), "model": m.get("symbolic")})
    return tot, breaks
