#!/usr/bin/env python3
"""Off-line generator of the seed corpus corpus/C02/seeds_<sys>.json.gz (search oracle of C02, nothing trusted).

Coverage-guided random walks of the regenerated TLA+ model: a state is kept when an attempt from it exercises a new item
= (label, decision-tree node, truth vector of the atoms of the node's condition). Every seed carries the schedule of
attempts from Init that reaches it, the constant set it belongs to and the hash of the TLA+ translation it was computed
with (props/c02.py ignores seeds of a different translation).

usage: python3 lib/c02_seedgen.py SYSTEM [--minutes 10] [--walks 24] [--steps 150] [--seed 1]
"""
import argparse, gzip, json, os, random, re, sys, time

sys.path.insert(0, os.path.dirname(os.path.abspath(__file__)))
sys.path.insert(0, os.path.dirname(os.path.dirname(os.path.abspath(__file__))))
import vlib
import c02_gen as G


SUFFIX = ""


def seeds_path(name):
    if SUFFIX:      # parallel generator instances write to scratch files that `--merge` folds into the corpus
        return os.path.join(vlib.BUILD, "c02seeds", "seeds_%s%s.json.gz" % (name, SUFFIX))
    return os.path.join(vlib.VERIF, "corpus", "C02", "seeds_%s.json.gz" % name)


def load(name):
    p = seeds_path(name)
    if os.path.exists(p):
        return json.load(gzip.open(p, "rt"))
    return {"system": name, "tla_hash": None, "known": {}, "seeds": []}


def save(name, db):
    os.makedirs(os.path.dirname(seeds_path(name)), exist_ok=True)
    tmp = seeds_path(name) + ".tmp"
    with gzip.open(tmp, "wt") as f:
        json.dump(db, f)
    os.replace(tmp, seeds_path(name))


def tla_hash(info):
    return G.seeds_hash(info)


def main():
    ap = argparse.ArgumentParser()
    ap.add_argument("system")
    ap.add_argument("--minutes", type=float, default=10)
    ap.add_argument("--walks", type=int, default=24)
    ap.add_argument("--steps", type=int, default=150)
    ap.add_argument("--seed", type=int, default=1)
    ap.add_argument("--suffix", default="")
    ap.add_argument("--adaptive", action="store_true", help="adaptive process scheduling (coq/C02/Gen2.v)")
    ap.add_argument("--merge", action="store_true", help="fold the scratch databases of parallel instances into the corpus file")
    a = ap.parse_args()
    global SUFFIX
    if a.merge:
        import glob
        db = load(a.system)
        for f in sorted(glob.glob(os.path.join(vlib.BUILD, "c02seeds", "seeds_%s_*.json.gz" % a.system))):
            o = json.load(gzip.open(f, "rt"))
            if o.get("tla_hash") != db.get("tla_hash"):
                print("skip (other translation/constants):", f)
                continue
            for sd in o["seeds"]:
                known = set(db["known"].setdefault(str(sd["cset"]), []))
                fresh = [k for k in sd["keys"] if k not in known]
                if fresh:
                    db["seeds"].append(sd)
                    db["known"][str(sd["cset"])] += fresh
            print("merged", f, "->", len(db["seeds"]), "seeds")
        save(a.system, db)
        return
    SUFFIX = a.suffix
    sysd = [s for s in G.SYSTEMS if s["name"] == a.system][0]
    log = []
    err = G.build_base([sysd["name"]], log)
    assert not err, err
    info = G.gen_system(sysd)
    assert not info["errors"], info["errors"]
    G.check_system(info, log)
    e = G.ensure_walkdefs(info, log)
    assert not e, e
    ncs = 1 + len(sysd.get("alt_constants", []))
    db = load(a.system)
    h = tla_hash(info)
    if db.get("tla_hash") != h:
        db = {"system": a.system, "tla_hash": h, "known": {}, "seeds": []}
    rng = random.Random(a.seed + len(db["seeds"]))
    t_end = time.time() + a.minutes * 60
    it = 0
    while time.time() < t_end:
        it += 1
        e = G.ensure_walkdefs(info, log)     # Walk.v may have been recompiled meanwhile
        assert not e, e
        cs = it % ncs
        known = [int(k) for k in db["known"].get(str(cs), [])]
        pool = [s for s in db["seeds"] if s["cset"] == cs]
        jobs = []
        for w in range(a.walks):
            rnd = [rng.randrange(1000) for _ in range(8 + 6 * a.steps)]
            if pool and rng.random() < 0.75:
                # prefer recent and deep seeds
                k = int(len(pool) * (1 - rng.random() ** 2)) if rng.random() < 0.6 else rng.randrange(len(pool))
                parent = pool[min(k, len(pool) - 1)]
                jobs.append((parent, rnd))
            else:
                jobs.append((None, rnd))
        body = ["From PGV Require Import C02.Lang C02.Sem C02.Show C02.Walk C02.Gen2 %s.%s_walkdefs.\n"
                "From Coq Require Import NArith FSets.FSetPositive.\nOpen Scope string_scope.\nOpen Scope Z_scope.\n" % (G.GEN_NAME, a.system)]
        body.append("Definition known := Eval vm_compute in fold_right (fun k s => PositiveSet.add (pos_of_key k) s) PositiveSet.empty [%s]%%N.\n"
                    % "; ".join(str(k) for k in known))
        for i, (parent, rnd) in enumerate(jobs):
            if parent is not None:
                body.append("Definition start%d : gstate := %s.\n" % (i, parent["state"]))
        jl = ";\n ".join("(%s, map N.to_nat [%s]%%N)" % ("Some start%d" % i if p is not None else "None",
                                                          "; ".join(str(x) for x in rnd)) for i, (p, rnd) in enumerate(jobs))
        body.append("Definition R := Eval vm_compute in " + ("cwalks2" if a.adaptive else "cwalks") + " %d (%s_W %d) (all_labels (%s_W %d)) known [%s] [].\nPrint R.\n"
                    % (a.steps, a.system, cs, a.system, cs, jl))
        rc, out, err = G.coq_scratch("C02_seedgen_%s_%d" % (a.system, os.getpid()), "".join(body), timeout=3000)
        if rc != 0:
            print("coq failed:", (out + err)[-1500:])
            break
        flat = re.sub(r"\s+", " ", out).replace('""', '"')
        reports = flat.split("#@#ENDWALK")[:-1]
        new = 0
        for (parent, rnd), rep in zip(jobs, reports):
            tr = rep.split("#@#TRACE", 1)[1].split("#@#FINAL")[0].strip() if "#@#TRACE" in rep else ""
            sched = [x.strip() for x in tr.split(",") if x.strip()]
            base = parent["sched"] if parent else []
            for sd in rep.split("#@#SEED")[1:]:
                sd = sd.split("#@#END")[0]
                d = {}
                for part in sd.split("#@#"):
                    if "=" in part:
                        k, v = part.split("=", 1)
                        d[k.strip()] = v.strip()
                keys = [int(k) for k in d["keys"].split(",") if k]
                # the Coq string literal of a string value inside the state had its quotes un-doubled above: re-double them
                state = re.sub(r'VStr "((?:[^"\\]|\\.)*)"', lambda m: 'VStr "%s"' % m.group(1), d["state"])
                db["seeds"].append({"label": d["label"], "self": d["self"], "cset": cs, "keys": keys, "state": state,
                                    "sched": base + [x for x in sched[:int(d["attempt"])] if not x.startswith("~")],
                                    "init_rnd": (parent["init_rnd"] if parent else rnd[:8])})
                db["known"].setdefault(str(cs), [])
                db["known"][str(cs)] += keys
                new += 1
        print("iteration %d cset %d: %d new seeds (total %d, items %d) %.0fs left" % (
            it, cs, new, len(db["seeds"]), sum(len(v) for v in db["known"].values()), t_end - time.time()), flush=True)
        save(a.system, db)
    per = {}
    for s in db["seeds"]:
        per[s["label"]] = per.get(s["label"], 0) + 1
    print(json.dumps(per, indent=1))


if __name__ == "__main__":
    main()
