"""C16 / shopcart (ANodeBench + AWORSet): generation, implementation-side oracle, projection for coq/C16/Shopcart.v."""
import json
import vlib
from c16_common import *

NAME = "shopcart"
COQ_MODULE = "C16.Shopcart"
NPC = {"ANodeBench.nodeBenchLoop": "NLoop", "ANodeBench.add": "NAdd", "ANodeBench.waitAdd": "NWait", "ANodeBench.Done": "NDone"}


def gen(rng):
    n = rng.choice([1, 2, 2, 3, 3])
    rounds = rng.choice([1, 2, 2, 3]) if n < 3 else rng.choice([1, 2])
    cfg = {"NumNodes": n, "BenchNumRounds": rounds, "NumElems": n * rounds}
    if rng.random() < 0.65:
        return {"system": NAME, "kind": "auto", "cfg": cfg, "auto": {"seed": rng.getrandbits(60) | 1, "steps": 14 * n * rounds + 10}}
    sched = []
    for _ in range(rng.randint(6 * n, 14 * n * rounds + 8)):
        if rng.random() < 0.45:
            sched.append(["merge", [rng.getrandbits(30), rng.getrandbits(30)]])
        else:
            sched.append(["n%d" % rng.randint(1, n), []])
    return {"system": NAME, "kind": "blind", "cfg": cfg, "sched": sched}


def analyse(case, res):
    cfg = case["cfg"]
    n, rounds, ne = cfg["NumNodes"], cfg["BenchNumRounds"], cfg["NumElems"]
    fails, breaks, steps = [], [], []
    out = {"fails": fails, "breaks": breaks, "coq": None, "nontrivial": False,
           "explicit": {"system": NAME, "kind": case.get("kind", "corpus"), "cfg": cfg, "sched": explicit_sched(res)}}
    if res.get("err"):
        breaks.append("harness error: " + res["err"])
        return out
    pcs = PCs(res["pcs0"])
    rnd = {p: 0 for p in range(1, n + 1)}
    pre = res["init"]
    last_o = None
    merges = 0
    prev_add = None
    try:
        for i, ob in enumerate(res["steps"]):
            f, br = generic_failures(i, ob)
            fails += f; breaks += br
            if br:
                break
            proc, oc = ob["proc"], ob["outcome"]
            post = ob["state"]
            if proc != "merge":
                pcs.update(ob)
                if oc == "commit" and "ANodeBench.r" in ob["locals"]:
                    rnd[int(proc[1:])] = nat(ob["locals"]["ANodeBench.r"])
            crdt = fn_dict(post["crdt"])
            cc = fn_dict(post["c"])
            add, rem, know = [], [], []
            for a in range(1, n + 1):
                rec = fn_dict(crdt[a])
                am, rm = fn_dict(rec["addMap"]), fn_dict(rec["remMap"])
                add.append([[nat(fn_dict(am[e])[k]) for k in range(1, n + 1)] for e in range(ne)])
                rem.append([[nat(fn_dict(rm[e])[k]) for k in range(1, n + 1)] for e in range(ne)])
                ks = set()
                for el in cc[a]["s"]:
                    t = tup(el)
                    if len(t) != 2 or t[0] != 1 or not (is_nat(t[1]) and t[1] < ne):
                        raise Unencodable(json.dumps(el))
                    ks.add(t[1])
                know.append([e in ks for e in range(ne)])
            # oracle: StrongConvergence / QueryOK (equal knowledge => equal state => equal query), monotone
            query = lambda a: [e for e in range(ne) if not all(add[a][e][k] <= rem[a][e][k] for k in range(n))]
            for a in range(n):
                for b in range(a + 1, n):
                    if know[a] == know[b] and (add[a] != add[b] or rem[a] != rem[b]):
                        fails.append(("shopcart-strong-convergence", "step %d: c[%d] = c[%d] but crdt states differ" % (i, a + 1, b + 1)))
                    if know[a] == know[b] and query(a) != query(b):
                        fails.append(("shopcart-query-differs", "step %d: c[%d] = c[%d] but queries are %s and %s" % (i, a + 1, b + 1, query(a), query(b))))
            if prev_add is not None:
                for a in range(n):
                    for e in range(ne):
                        for k in range(n):
                            if add[a][e][k] < prev_add[a][e][k]:
                                fails.append(("shopcart-counter-decreased", "step %d: crdt[%d].addMap[%d][%d] went from %d to %d" % (i, a + 1, e, k + 1, prev_add[a][e][k], add[a][e][k])))
            prev_add = add
            if oc != "commit" and post != pre:
                fails.append(("abort-changed-state", "step %d: %s attempt of %s changed the spec state" % (i, oc, proc)))
            if proc == "merge":
                pk = ob["picks"]
                ev = "(EMerge %d %s)" % (nat(pk[0]), "None" if len(pk) < 2 else "(Some %d)" % nat(pk[1]))
                if oc == "commit":
                    merges += 1
            else:
                ev = "(ENode %d)" % int(proc[1:])
            ov = post["out"]
            if ov is None:
                outs = "None"
            else:
                d = fn_dict(ov)
                outs = "(Some (%d, %d))" % (nat(d["node"]), nat(d["event"]))
            l3 = lambda rows: vlib.coq_list([vlib.coq_list([coq_nats(v) for v in r]) for r in rows])
            o = "(mkObs %s %s %s %s %s %s)" % (l3(add), l3(rem),
                                               vlib.coq_list([vlib.coq_list([vlib.coq_bool(x) for x in r]) for r in know]),
                                               outs, coq_nats([rnd[p] for p in range(1, n + 1)]),
                                               vlib.coq_list([NPC[pcs.pc["n%d" % q]] for q in range(1, n + 1)]))
            same = oc != "commit" and post == pre and steps and last_o == o
            steps.append("(%s,(%d,%s))" % (ev, OUT[oc], "None" if same else "Some " + o))
            last_o = o
            pre = post
            if oc.startswith("error"):
                break
    except (Unencodable, KeyError, IndexError) as e:
        breaks.append("observation outside the typed model's universe: %r" % (e,))
    out["coq"] = "(mkCfg %d %d %d, [%s])" % (n, rounds, ne, ";\n  ".join(steps))
    out["nontrivial"] = n >= 2 and merges >= 2
    return out
