"""C16 / loadbalancer: generation, implementation-side oracle, projection for coq/C16/LoadBalancer.v."""
import json
import vlib
from c16_common import *

NAME = "loadbalancer"
COQ_MODULE = "C16.LoadBalancer"
LPC = {"ALoadBalancer.main": "LMain", "ALoadBalancer.rcvMsg": "LRcv", "ALoadBalancer.sendServer": "LSend"}
SPC = {"AServer.serverLoop": "SLoop", "AServer.rcvReq": "SRcv", "AServer.sendPage": "SSend"}
CPC = {"AClient.clientLoop": "CLoop", "AClient.clientRequest": "CReq", "AClient.clientReceive": "CRcv"}
WEB_PAGE, GET_PAGE = 99, 1


def gen(rng):
    ns = rng.choice([1, 2, 2, 3])
    nc = rng.choice([1, 2, 2, 3])
    b = rng.choice([1, 1, 2, 3])
    cfg = {"NUM_SERVERS": ns, "NUM_CLIENTS": nc, "BUFFER_SIZE": b}
    if rng.random() < 0.75:
        return {"system": NAME, "kind": "auto", "cfg": cfg, "auto": {"seed": rng.getrandbits(60) | 1, "steps": 40 + 12 * (ns + nc)}}
    procs = ["lb"] + ["s%d" % j for j in range(1, ns + 1)] + ["c%d" % c for c in range(ns + 1, ns + nc + 1)]
    sched = [[rng.choice(procs), []] for _ in range(rng.randint(20, 40 + 12 * (ns + nc)))]
    return {"system": NAME, "kind": "blind", "cfg": cfg, "sched": sched}


def msg_of(x):
    if x == WEB_PAGE and not isinstance(x, bool):
        return "Page"
    if isinstance(x, dict) and "f" in x:
        d = fn_dict(x)
        if set(d) == {"message_type", "client_id", "path"}:
            return "(Req %d %d %d)" % (nat(d["message_type"]), nat(d["client_id"]), nat(d["path"]))
        if set(d) == {"message_id", "client_id", "path"}:
            return "(Fwd %d %d %d)" % (nat(d["message_id"]), nat(d["client_id"]), nat(d["path"]))
    raise Unencodable(json.dumps(x))


def omsg(x):
    return "None" if x is None else "(Some %s)" % msg_of(x)


def analyse(case, res):
    ns, nc, b = case["cfg"]["NUM_SERVERS"], case["cfg"]["NUM_CLIENTS"], case["cfg"]["BUFFER_SIZE"]
    fails, breaks, steps = [], [], []
    out = {"fails": fails, "breaks": breaks, "coq": None, "nontrivial": False,
           "explicit": {"system": NAME, "kind": case.get("kind", "corpus"), "cfg": case["cfg"], "sched": explicit_sched(res)}}
    if res.get("err"):
        breaks.append("harness error: " + res["err"])
        return out
    pcs = PCs(res["pcs0"])
    loc = {}            # per proc tracked locals
    pre = res["init"]
    last_o = None
    # implementation-side bookkeeping: requests issued / pages sent / pages received per client
    issued = {c: 0 for c in range(ns + 1, ns + nc + 1)}
    answered = {c: [] for c in issued}      # server that answered the k-th request of c
    received = {c: 0 for c in issued}
    servers_used = set()
    try:
        for i, ob in enumerate(res["steps"]):
            f, br = generic_failures(i, ob)
            fails += f; breaks += br
            if br:
                break
            proc, label, oc = ob["proc"], ob["label"], ob["outcome"]
            p = 0 if proc == "lb" else int(proc[1:])
            post = ob["state"]
            if oc == "commit":
                loc[proc] = dict(ob["locals"])
                for el in ob["elems"]:
                    if label == "AClient.clientRequest" and el["kind"] == "w" and el["name"] == "AClient.mailboxes":
                        if issued[p] != received[p]:
                            fails.append(("loadbalancer-request-while-outstanding", "step %d: client %d issues a request while one is outstanding" % (i, p)))
                        issued[p] += 1
                    if label == "AServer.sendPage" and el["kind"] == "w" and el["name"] == "AServer.mailboxes":
                        c = el["idx"][0]
                        servers_used.add(p)
                        if c not in issued:
                            fails.append(("loadbalancer-page-to-non-client", "step %d: server %d sends a page to %s" % (i, p, c)))
                        else:
                            answered[c].append(p)
                            if len(answered[c]) > issued[c]:
                                fails.append(("loadbalancer-answered-twice", "step %d: client %d issued %d requests but servers %s answered" % (i, c, issued[c], answered[c])))
                    if label == "AClient.clientReceive" and el["kind"] == "r" and el["name"] == "AClient.mailboxes":
                        received[p] += 1
                        if received[p] > len(answered[p]):
                            fails.append(("loadbalancer-unanswered-receive", "step %d: client %d received %d pages but only %d were sent to it" % (i, p, received[p], len(answered[p]))))
                        if el["val"] != WEB_PAGE:
                            fails.append(("loadbalancer-wrong-page", "step %d: client %d received %s" % (i, p, json.dumps(el["val"]))))
            pcs.update(ob)
            net = fn_dict(post["network"])
            qs = [tup(net[n]) for n in range(ns + nc + 1)]
            for n, q in enumerate(qs):
                if len(q) > b:
                    fails.append(("loadbalancer-buffer-overflow", "step %d: network[%d] holds %d messages, BUFFER_SIZE = %d (BuffersOk)" % (i, n, len(q), b)))
            if oc != "commit" and post != pre:
                fails.append(("abort-changed-state", "step %d: %s attempt of %s changed the spec state" % (i, oc, proc)))
            lb = loc.get("lb", {})
            outv = post["out"]
            o = "(mkObs %s %s %s %d %s %s %s %s %s %s)" % (
                vlib.coq_list([vlib.coq_list([msg_of(m) for m in q]) for q in qs]),
                "None" if (outv == 0 and not isinstance(outv, bool)) else omsg(outv),
                omsg(lb.get("ALoadBalancer.msg")), nat(lb.get("ALoadBalancer.next", 0)), LPC[pcs.pc["lb"]],
                vlib.coq_list([omsg(loc.get("s%d" % j, {}).get("AServer.msg")) for j in range(1, ns + 1)]),
                vlib.coq_list([SPC[pcs.pc["s%d" % j]] for j in range(1, ns + 1)]),
                vlib.coq_list([omsg(loc.get("c%d" % c, {}).get("AClient.req")) for c in range(ns + 1, ns + nc + 1)]),
                vlib.coq_list([omsg(loc.get("c%d" % c, {}).get("AClient.resp")) for c in range(ns + 1, ns + nc + 1)]),
                vlib.coq_list([CPC[pcs.pc["c%d" % c]] for c in range(ns + 1, ns + nc + 1)]))
            same = oc != "commit" and post == pre and steps and last_o == o
            steps.append("(%d,(%d,%s))" % (p, OUT[oc], "None" if same else "Some " + o))
            last_o = o
            pre = post
            if oc.startswith("error"):
                break
    except (Unencodable, KeyError) as e:
        breaks.append("observation outside the typed model's universe: %r" % (e,))
    out["coq"] = "(%d, %d, %d, [%s])" % (ns, nc, b, ";\n  ".join(steps))
    out["nontrivial"] = sum(received.values()) >= 2 and (len(servers_used) >= min(2, ns))
    return out
