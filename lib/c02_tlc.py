"""C02: validation of the TLA+-side translator (tools/tla2coq, coq/C02/Lang.v eval, Sem.v symex_tla) against TLC.

TLC (tla2tools.jar) explores the SHIPPED spec file with the constants of its shipped .cfg (or the constants named in
TLC_SYSTEMS when no cfg is shipped / the shipped space is unbounded): either the complete state graph
(-dump dot,actionlabels) or simulation traces (-simulate file=...). The states are parsed here and compared in Coq
(coq/C02/TLC.v, vm_compute): for a graph, the model's successor set of a state must EQUAL TLC's (both inclusions, so a
step the model takes and TLC's next-state relation rejects is reported as well); for a trace, every consecutive pair
must be a step of the model. TLC results are cached by content hash of (spec, cfg, mode)."""
import hashlib, json, os, re, shutil, subprocess
import vlib
import c02_gen as G

JAR = "/opt/veriftools/tla/tla2tools.jar"

# mode "graph": complete state graph; "sim": simulation traces. consts: TLC cfg text of the CONSTANT section and the same
# constants as Coq values for the model (the shipped cfg's values where one is shipped; see notes/C02.md)
def _spec_src(sysd):
    """the file TLC is run on: the shipped .tla, or (gotests pairs, as for tools/tla2coq) the .expectpcal translated by the stock pcal"""
    return os.path.join(vlib.REPO, sysd["pcal"] if sysd.get("pcal") else sysd["tla"])


def _prepare(sysd, d):
    """copy the spec (and its sibling modules) into d under its module name; gotests pairs: translate with the stock pcal. -> module name"""
    tla = os.path.join(vlib.REPO, sysd["tla"])
    src = _spec_src(sysd)
    mod = re.search(r"-{4,}\s*MODULE\s+(\w+)", open(src, "rb").read().decode(errors="replace")).group(1)
    shutil.copy(src, os.path.join(d, mod + ".tla"))
    if sysd.get("pcal"):
        rc, out, err = vlib.sh(["java", "-XX:+UseParallelGC", "-cp", JAR, "pcal.trans", "-nocfg", mod + ".tla"], cwd=d, timeout=300)
        if rc != 0:
            raise ParseError("pcal translator failed: " + (out + err)[-400:])
    for f in os.listdir(os.path.dirname(tla)):
        if f.endswith(".tla") and f != os.path.basename(tla) and not os.path.exists(os.path.join(d, f)):
            shutil.copy(os.path.join(os.path.dirname(tla), f), os.path.join(d, f))
    return mod


def expand_states(sysd, cfg_consts, states, mc_defs=None):
    """TLC's complete successor sets of the given states (TLC's own state text): one model-checking run whose initial
    states are exactly those states and whose exploration stops after two levels (CONSTRAINT TLCGet("level") < 3: states failing a CONSTRAINT are left out of the graph, so the successors must still satisfy it).
    -> (nodes, init ids, edges) as parse_dot, or error"""
    src = open(_spec_src(sysd), "rb").read()
    key = G.sha(src, cfg_consts, "expand-level3", "\n".join(states), mc_defs or "")
    d = _cache_dir(key)
    if not os.path.exists(os.path.join(d, "done")):
        shutil.rmtree(d, ignore_errors=True)
        os.makedirs(d)
        mod = _prepare(sysd, d)
        if mc_defs:
            open(os.path.join(d, "MC.tla"), "w").write("---- MODULE MC ----\nEXTENDS %s\n%s\n====\n" % (mod, mc_defs))
        body = "---- MODULE Expand ----\nEXTENDS %s\nInitS ==\n%s\nOneStep == TLCGet(\"level\") < 3\n====\n" % (
            "MC" if mc_defs else mod, "\n".join("  \\/ (%s)" % st.strip().replace("\n", "\n      ") for st in states))
        open(os.path.join(d, "Expand.tla"), "w").write(body)
        open(os.path.join(d, "mc.cfg"), "w").write("CONSTANT defaultInitValue = defaultInitValue\n" + cfg_consts + "\nINIT InitS\nNEXT Next\nCONSTRAINT OneStep\n")
        cmd = ["java", "-XX:+UseParallelGC", "-Xmx4g", "-cp", JAR, "tlc2.TLC", "-deadlock", "-workers", "2", "-config", "mc.cfg",
               "-dump", "dot,actionlabels", "graph.dot", "Expand.tla"]
        rc, out, err = vlib.sh(cmd, cwd=d, timeout=600)
        if rc != 0 or not os.path.exists(os.path.join(d, "graph.dot")):
            shutil.rmtree(d, ignore_errors=True)
            return None, "TLC one-step expansion failed: " + (out + err)[-800:]
        open(os.path.join(d, "done"), "w").write("ok")
    return parse_dot(os.path.join(d, "graph.dot")), None


def _c(**kw):
    """constants given once: TLC cfg text and Coq values"""
    cfg, consts = [], []
    for k, v in kw.items():
        if isinstance(v, bool):
            cfg.append("CONSTANT %s = %s" % (k, "TRUE" if v else "FALSE")); consts.append((k, "VBool true" if v else "VBool false"))
        elif isinstance(v, int):
            cfg.append("CONSTANT %s = %d" % (k, v)); consts.append((k, "VNum (%d)" % v))
        elif isinstance(v, (set, frozenset, list)):
            xs = sorted(v)
            cfg.append("CONSTANT %s = {%s}" % (k, ", ".join(json.dumps(x) if isinstance(x, str) else str(x) for x in xs)))
            consts.append((k, "VSet (set_of_list [%s])" % "; ".join(("VStr " + json.dumps(x)) if isinstance(x, str) else "VNum (%d)" % x for x in xs)))
        else:
            raise ValueError(k)
    return {"cfg": "\n".join(cfg), "consts": consts}


def _nested():
    """NestedCRDTImpl with one node, two operations, a grow-only counter: the operator-valued CONSTANTs are substituted by
    operators of a root module MC for TLC and given as finite tables to the Coq model (lib/c02_gen.py _nested_consts)"""
    cs = dict(G._nested_consts([1], 2))
    cs["EMPTY_CELL"] = 'VStr "@EMPTY_CELL"'      # a TLC model value (TLC refuses to compare a record with a string)
    names = ["READ_REQ", "WRITE_REQ", "ABORT_REQ", "PRECOMMIT_REQ", "COMMIT_REQ", "READ_ACK", "WRITE_ACK", "ABORT_ACK", "PRECOMMIT_ACK", "COMMIT_ACK"]
    cfg = ["CONSTANT BUFFER_SIZE = 2", "CONSTANT ZERO_VALUE = 0", "CONSTANT NUM_OPS = 2", "CONSTANT NODE_IDS = {1}", "CONSTANT EMPTY_CELL = EMPTY_CELL"]
    cfg += ["CONSTANT %s = %d" % (n, i + 1) for i, n in enumerate(names)]
    cfg += ["CONSTANT COMBINE_FN <- McMax", "CONSTANT UPDATE_FN <- McUpd", "CONSTANT VIEW_FN <- McView"]
    return {"cfg": "\n".join(cfg), "consts": list(cs.items()),
            "mc_defs": "McMax(a, b) == IF a > b THEN a ELSE b\nMcUpd(s, st, v) == st + v\nMcView(st) == st"}


TLC_SYSTEMS = {
    # shipped constants (systems/<s>/<s>.cfg); graph = complete state graph
    "locksvc": dict(_c(NumClients=5), mode="graph", shipped="systems/locksvc/locksvc.cfg"),
    "dqueue": dict(_c(BUFFER_SIZE=3, NUM_CONSUMERS=3, PRODUCER=0), mode="graph", shipped="systems/dqueue/dqueue.cfg"),
    "pbkvs": dict(_c(NUM_REPLICAS=3, NUM_CLIENTS=2, DEBUG=False, EXPLORE_FAIL=True), mode="sim", shipped="systems/pbkvs/pbkvs.cfg (without its CONSTRAINT)"),
    "raftkvs": dict(_c(ExploreFail=True, Debug=False, NumServers=3, NumClients=1, BufferSize=3, MaxTerm=3, MaxCommitIndex=2, MaxNodeFail=1,
                       LogConcat=2, LogPop=1, LeaderTimeoutReset=True, NumRequests=1, AllStrings=["s1", "s2", "s3"]),
                    mode="sim", shipped="systems/raftkvs/raftkvs.cfg (without its CONSTRAINT)"),
    # no cfg shipped (or the shipped one does not evaluate): small constants chosen here
    "loadbalancer": dict(_c(BUFFER_SIZE=1, NUM_CLIENTS=1, NUM_SERVERS=2, LoadBalancerId=0, GET_PAGE=1, WEB_PAGE=99), mode="graph"),
    "shcounter": dict(_c(NUM_NODES=3), mode="graph"),
    "gcounter": dict(_c(NUM_NODES=2, BENCH_NUM_ROUNDS=1), mode="graph"),
    "shopcart": dict(_c(NumNodes=2, BenchNumRounds=1, ElemSet=[0, 1, 2, 3]), mode="graph",
                     note="the shipped shopcart.cfg (ElemSet <- BenchElemSet, a set of pairs) makes TLC fail on the shipped spec: add() indexes addMap with the integer GetVal(self, r)"),
    "nestedcrdtimpl": dict(_nested(), mode="graph"),
    "proxy": dict(_c(NUM_SERVERS=2, NUM_CLIENTS=1, EXPLORE_FAIL=True, CLIENT_RUN=True), mode="sim"),
    "replicatedkv": dict(_c(BUFFER_SIZE=1, NUM_REPLICAS=1, NUM_CLIENTS=1, DISCONNECT_MSG=1, GET_MSG=2, PUT_MSG=3, NULL_MSG=4, GET_RESPONSE=5,
                            PUT_RESPONSE=6, NULL=0, GET_KEY=10, PUT_KEY=11, PUT_VALUE=12), mode="sim"),
    # *.gotests pairs: TLC runs on the stock-pcal translation of the .expectpcal, the file tools/tla2coq translates
    # (hello is left out: its only CONSTANT is an operator and it has one trivial label)
    "IndexingLocals": dict(_c(), mode="graph"),
    # its final assertion is false on some paths by design (TLC's full exploration stops there): short traces only
    "NonDetExploration": dict(_c(), mode="sim", depth=18),
    "bug2_124": dict(_c(NUM_NODES=2, BUFFER_SIZE=2), mode="sim"),
    "PBFail4_bug125": dict(_c(BUFFER_SIZE=2, NUM_REPLICAS=2, NUM_CLIENTS=1, EXPLORE_FAIL=True), mode="sim"),
    "bug_167": dict(_c(NUM_REPLICAS=2, NUM_PUT_CLIENTS=1, NUM_GET_CLIENTS=1, EXPLORE_FAIL=True, GET_CLIENT_RUN=True, PUT_CLIENT_RUN=True), mode="sim"),
}


class ParseError(Exception):
    pass


# ---------------------------------------------------------------- TLC value syntax -> Coq term

_tok = re.compile(r'\s*(<<|>>|\|->|:>|@@|\.\.|"(?:[^"\\]|\\.)*"|-?\d+|[A-Za-z_][A-Za-z_0-9]*|[\[\]{}(),])')


def tokens(s):
    out, i = [], 0
    s = s.strip()
    while i < len(s):
        m = _tok.match(s, i)
        if not m:
            raise ParseError("cannot tokenise %r" % s[i:i + 40])
        out.append(m.group(1))
        i = m.end()
    return out


class P:
    def __init__(self, toks):
        self.t, self.i = toks, 0

    def peek(self):
        return self.t[self.i] if self.i < len(self.t) else None

    def eat(self, x=None):
        tk = self.peek()
        if tk is None or (x is not None and tk != x):
            raise ParseError("expected %r, found %r" % (x, tk))
        self.i += 1
        return tk

    def value(self):
        v = self.atom()
        if self.peek() == "..":           # interval a..b
            self.eat()
            hi = self.atom()
            lo_, hi_ = int(v[1]), int(hi[1])
            return ("set", [("num", str(k)) for k in range(lo_, hi_ + 1)])
        return v

    def atom(self):
        tk = self.eat()
        if tk == "<<":
            xs = []
            while self.peek() != ">>":
                xs.append(self.value())
                if self.peek() == ",":
                    self.eat()
            self.eat(">>")
            return ("tup", xs)
        if tk == "{":
            xs = []
            while self.peek() != "}":
                xs.append(self.value())
                if self.peek() == ",":
                    self.eat()
            self.eat("}")
            return ("set", xs)
        if tk == "[":
            kv = []
            while self.peek() != "]":
                f = self.eat()
                self.eat("|->")
                kv.append((("str", f), self.value()))
                if self.peek() == ",":
                    self.eat()
            self.eat("]")
            return ("fun", kv)
        if tk == "(":
            first = self.value()
            if self.peek() == ":>":
                kv = []
                k = first
                while True:
                    self.eat(":>")
                    kv.append((k, self.value()))
                    if self.peek() == "@@":
                        self.eat()
                        k = self.value()
                    else:
                        break
                self.eat(")")
                return ("fun", kv)
            self.eat(")")
            return first
        if tk.startswith('"'):
            return ("str", json.loads(tk))
        if re.match(r"-?\d+$", tk):
            return ("num", tk)
        if tk == "TRUE":
            return ("bool", True)
        if tk == "FALSE":
            return ("bool", False)
        if tk == "defaultInitValue":
            return ("default",)
        if re.match(r"[A-Za-z_]", tk):
            return ("str", "@" + tk)      # a model value
        raise ParseError("unexpected token %r" % tk)


def to_coq(v):
    k = v[0]
    if k == "num":
        return "VNum (%s)" % v[1]
    if k == "str":
        return "VStr " + vlib.coq_str(v[1]).replace("%string", "")
    if k == "bool":
        return "VBool true" if v[1] else "VBool false"
    if k == "default":
        return "VDefault"
    if k == "tup":
        return "VTup [" + "; ".join(to_coq(x) for x in v[1]) + "]"
    if k == "set":
        return "VSet (set_of_list [" + "; ".join(to_coq(x) for x in v[1]) + "])"
    if k == "fun":
        return "mkfun [" + "; ".join("(%s, %s)" % (to_coq(a), to_coq(b)) for a, b in v[1]) + "]"
    raise ParseError("value kind " + k)


def scratch_vars(name):
    """the TLA+-only temporaries of old translations declared in Bind_<sys>.v: projected away on both sides"""
    txt = open(os.path.join(vlib.COQ, "C02", "Bind_%s.v" % name)).read()
    m = re.search(r"Definition %s_scratch : list string :=(.*?)\]\." % re.escape(name), txt, re.S)
    return set(re.findall(r'"([^"]+)"', m.group(1))) if m else set()


import threading
_tl = threading.local()      # per-thread: the scratch variables of the system at hand (systems are checked concurrently)


def _drop():
    return getattr(_tl, "drop", set())


def parse_state(text):
    """'/\\ x = v /\\ y = w' (TLC state print) -> Coq gstate term"""
    text = text.strip()
    parts = re.split(r"(?:^|\n)\s*/\\ ", "\n" + text)
    out = []
    for p in parts:
        p = p.strip()
        if not p:
            continue
        name, val = p.split("=", 1)
        if name.strip() in _drop():
            continue
        pr = P(tokens(val))
        v = pr.value()
        if pr.peek() is not None:
            raise ParseError("trailing tokens in value of %s" % name)
        out.append('("%s", %s)' % (name.strip(), to_coq(v)))
    return "[" + "; ".join(out) + "]"


# ---------------------------------------------------------------- running TLC

def _cache_dir(key):
    d = os.path.join(G.CACHE, "tlc_" + key)
    return d


def run_tlc(sysd, cfg_consts, mode, sim_num=30, sim_depth=60, seed=1, mc_defs=None):
    """-> directory with graph.dot (mode graph) or trace files sim_* (mode sim); cached by content.
    mc_defs: definitions put in a root module MC that EXTENDS the spec (operators substituted for operator-valued CONSTANTs)"""
    src = open(_spec_src(sysd), "rb").read()
    key = G.sha(src, cfg_consts, mode, str(sim_num), str(sim_depth), str(seed), mc_defs or "")
    d = _cache_dir(key)
    if os.path.exists(os.path.join(d, "done")):
        return d, None
    shutil.rmtree(d, ignore_errors=True)
    os.makedirs(d)
    try:
        mod = _prepare(sysd, d)
    except ParseError as pe:
        shutil.rmtree(d, ignore_errors=True)
        return d, str(pe)
    open(os.path.join(d, "mc.cfg"), "w").write("CONSTANT defaultInitValue = defaultInitValue\n" + cfg_consts + "\nINIT Init\nNEXT Next\n")
    cmd = ["java", "-XX:+UseParallelGC", "-Xmx4g", "-cp", JAR, "tlc2.TLC", "-deadlock", "-workers", "4", "-config", "mc.cfg"]
    if mode == "graph":
        cmd += ["-dump", "dot,actionlabels", "graph.dot"]
    else:
        cmd += ["-simulate", "file=sim,num=%d" % sim_num, "-depth", str(sim_depth), "-seed", str(seed)]
    if mc_defs:
        open(os.path.join(d, "MC.tla"), "w").write("---- MODULE MC ----\nEXTENDS %s\n%s\n====\n" % (mod, mc_defs))
    cmd += ["MC.tla" if mc_defs else mod + ".tla"]
    rc, out, err = vlib.sh(cmd, cwd=d, timeout=(240 if mode == "graph" else 900))
    if rc == 124 or ("Error:" in out and "Deadlock" not in out) or (mode == "graph" and not os.path.exists(os.path.join(d, "graph.dot"))):
        shutil.rmtree(d, ignore_errors=True)      # never keep a partial (possibly huge) dump
        return d, "TLC failed%s: %s" % (" (time limit: state space too large for graph mode)" if rc == 124 else "", (out + err)[-800:])
    open(os.path.join(d, "tlc.out"), "w").write(out + err)
    open(os.path.join(d, "done"), "w").write("ok")
    return d, None


def parse_dot(path):
    """-> (nodes: id -> state text, initial ids, edges: src -> [(dst, action label)])"""
    nodes, init, edges = {}, [], {}
    node_re = re.compile(r'^(-?\d+) \[label="((?:[^"\\]|\\.)*)"(.*)$')
    edge_re = re.compile(r'^(-?\d+) -> (-?\d+) \[label="((?:[^"\\]|\\.)*)"')
    for line in open(path):
        m = edge_re.match(line)
        if m:
            edges.setdefault(m.group(1), []).append((m.group(2), m.group(3)))
            continue
        m = node_re.match(line)
        if m:
            txt = m.group(2).replace("\\n", "\n").replace('\\"', '"').replace("\\\\", "\\")
            nodes[m.group(1)] = txt
            if "style = filled" in m.group(3):
                init.append(m.group(1))
    return nodes, init, edges


def parse_trace_file(path):
    """TLC -simulate file=...: a module-like text with STATE_k == /\\ ... blocks -> list of state texts"""
    txt = open(path).read()
    blocks = re.split(r"\nSTATE_\d+ ==\s*\n", "\n" + txt)
    out = []
    for b in blocks[1:]:
        b = b.split("\n\n")[0]
        out.append(b)
    return out


# ---------------------------------------------------------------- comparison in Coq

def _head(info, consts):
    name = info["name"]
    return ("From PGV Require Import C02.Lang C02.Sem C02.Show C02.Walk C02.TLC %s.%s_walkdefs.\nOpen Scope string_scope.\nOpen Scope Z_scope.\n"
            "Definition W : wsys := mkW (w_dgo (%s_W 0)) (w_dtla (%s_W 0)) [%s] (filter (fun x => negb (mem (fst x) [%s])) (w_init (%s_W 0))) (w_procs (%s_W 0)).\n"
            % (G.GEN_NAME, name, name, name, "; ".join('("%s", %s)' % c for c in consts), "; ".join('"%s"' % v for v in sorted(_drop())), name, name))


def _ensure(info, log):
    e = G.ensure_walkdefs(info, log)
    if e:
        return e
    with vlib.CoqLock():
        if G.stale("C02/TLC.v", G.BASE_DEPS[:2] + ["C02/Show.v", "C02/Walk.v"]):
            rc, o, er = G.coqc("C02/TLC.v")
            if rc != 0:
                return "C02/TLC.v does not compile: " + (o + er)[-400:]
    return None


def _diffs(out):
    flat = re.sub(r"\s+", " ", out).replace('""', '"')
    res = []
    for mm in flat.split("#@#TLCDIFF")[1:]:
        mm = mm.split("#@#END")[0]
        d = {"head": mm.split("#@#")[0].strip()}
        for part in mm.split("#@#")[1:]:
            if "=" in part:
                k, v = part.split("=", 1)
                d[k.strip()] = v.strip()
        res.append(d)
    return res


def check_graph(info, sysd, spec, rng, max_states, log):
    """-> dict(states_in_graph, states_checked, edges_checked, diffs=[...], error)"""
    e = _ensure(info, log)
    if e:
        return {"error": e}
    _tl.drop = scratch_vars(info["name"])
    d, err = run_tlc(sysd, spec["cfg"], "graph", mc_defs=spec.get("mc_defs"))
    if err:
        return {"error": err}
    nodes, init, edges = parse_dot(os.path.join(d, "graph.dot"))
    ids = sorted(nodes)
    pick = ids if len(ids) <= max_states else sorted(set(init) | set(rng.sample(ids, max_states)))
    res = {"states_in_graph": len(nodes), "states_checked": len(pick), "edges_checked": 0, "diffs": [], "error": None,
           "mode": "complete state graph (TLC -dump dot,actionlabels)", "constants": spec["cfg"].replace("\n", "; ")}
    terms = {}

    def term(i):
        if i not in terms:
            terms[i] = parse_state(nodes[i])
        return terms[i]

    try:
        rows = []
        needed = []
        for i in pick:
            succ = sorted({dst for dst, _ in edges.get(i, [])})
            res["edges_checked"] += len(edges.get(i, []))
            needed += [i] + succ
            rows.append((i, succ))
        needed = sorted(set(needed) | set(init))
        names = {i: "s%d" % k for k, i in enumerate(needed)}
        outs = ""
        for s0 in range(0, len(rows), 250):
            part = rows[s0:s0 + 250]
            used = sorted({i for i, succ in part} | {j for _, succ in part for j in succ} | (set(init) if s0 == 0 else set()))
            body = [_head(info, spec["consts"])]
            body += ["Definition %s : gstate := %s.\n" % (names[i], term(i)) for i in used]
            checks = ['check_state W "%s" %s [%s]' % (i, names[i], "; ".join(names[j] for j in succ)) for i, succ in part]
            if s0 == 0:
                checks.insert(0, "check_init W [%s]" % "; ".join(names[i] for i in init if i in names) if all(i in names for i in init) else '""')
            body.append("Definition R := Eval vm_compute in filter (fun s => negb (String.eqb s \"\")) [%s].\nPrint R.\n" % ";\n ".join(checks))
            rc, out, er = G.coq_scratch("C02_tlc_%s_%d" % (info["name"], os.getpid()), "".join(body), timeout=2400)
            if rc != 0:
                res["error"] = "comparison with TLC did not evaluate: " + (out + er)[-600:]
                return res
            outs += out
        res["diffs"] = _diffs(outs)
    except ParseError as pe:
        res["error"] = "TLC output not understood: %s" % pe
    return res


def check_sim(info, sysd, spec, n_traces, depth, seed, max_steps, log, n_expand=20):
    e = _ensure(info, log)
    if e:
        return {"error": e}
    _tl.drop = scratch_vars(info["name"])
    depth = spec.get("depth", depth)
    d, err = run_tlc(sysd, spec["cfg"], "sim", n_traces, depth, seed, mc_defs=spec.get("mc_defs"))
    if err:
        return {"error": err}
    files = sorted(f for f in os.listdir(d) if f.startswith("sim_"))
    res = {"traces": len(files), "steps_checked": 0, "diffs": [], "error": None,
           "mode": "simulation traces (TLC -simulate num=%d -depth %d)" % (n_traces, depth), "constants": spec["cfg"].replace("\n", "; ")}
    try:
        body = [_head(info, spec["consts"])]
        checks = []
        k = 0
        for f in files:
            sts = parse_trace_file(os.path.join(d, f))
            prev = None
            for j, st in enumerate(sts):
                if res["steps_checked"] >= max_steps:
                    break
                body.append("Definition t%d : gstate := %s.\n" % (k, parse_state(st)))
                if prev is not None:
                    checks.append('check_step W "%s:%d" t%d t%d' % (f, j, prev, k))
                    res["steps_checked"] += 1
                else:
                    checks.append('check_init_mem W "%s" t%d' % (f, k))
                    res["initial_states_checked"] = res.get("initial_states_checked", 0) + 1
                prev = k
                k += 1
        outs = ""
        for s0 in range(0, len(checks), 200):
            b = "".join(body) + "Definition R := Eval vm_compute in filter (fun s => negb (String.eqb s \"\")) [%s].\nPrint R.\n" % ";\n ".join(checks[s0:s0 + 200])
            rc, out, er = G.coq_scratch("C02_tlcs_%s_%d" % (info["name"], os.getpid()), b, timeout=2400)
            if rc != 0:
                res["error"] = "comparison with TLC did not evaluate: " + (out + er)[-600:]
                return res
            outs += out
        res["diffs"] = _diffs(outs)
        # the other inclusion on a sample of the visited states: TLC's COMPLETE successor sets (one-step expansion)
        allst = []
        for f in files:
            allst += parse_trace_file(os.path.join(d, f))
        uniq = sorted(set(allst))
        import random as _r
        sample = _r.Random(seed).sample(uniq, min(n_expand, len(uniq)))
        res["states_expanded"] = 0
        if sample:
            g, e2 = expand_states(sysd, spec["cfg"], sample, spec.get("mc_defs"))
            if e2:
                res["error"] = e2
                return res
            nodes, init, edges = g
            ids = sorted(set(init) | {dst for i in init for dst, _ in edges.get(i, [])})
            names = {i: "x%d" % k for k, i in enumerate(ids)}
            b2 = [_head(info, spec["consts"])] + ["Definition %s : gstate := %s.\n" % (names[i], parse_state(nodes[i])) for i in ids]
            checks = ['check_state W "%s" %s [%s]' % (i, names[i], "; ".join(names[j] for j in sorted({dst for dst, _ in edges.get(i, [])}))) for i in init]
            b2.append("Definition R := Eval vm_compute in filter (fun s => negb (String.eqb s \"\")) [%s].\nPrint R.\n" % ";\n ".join(checks))
            rc, out, er = G.coq_scratch("C02_tlcx_%s_%d" % (info["name"], os.getpid()), "".join(b2), timeout=2400)
            if rc != 0:
                res["error"] = "comparison with TLC (expansion) did not evaluate: " + (out + er)[-600:]
                return res
            res["states_expanded"] = len(init)
            res["successors_compared"] = sum(len(edges.get(i, [])) for i in init)
            res["diffs"] += _diffs(out)
    except ParseError as pe:
        res["error"] = "TLC output not understood: %s" % pe
    return res
