"""C16 / replicatedkv: generation, implementation-side oracle (assertions / type errors / crashes), projection for
coq/C16/Rkv.v (all five archetypes: AReplica, Get, Put, Disconnect, ClockUpdate; 28 labels)."""
import json
import vlib
from c16_common import *

NAME = "replicatedkv"
COQ_MODULE = "C16.Rkv"
RPC = {"replicaLoop": "RLoop", "receiveClientRequest": "RRecv", "clientDisconnected": "RDisc", "replicaGetRequest": "RGetReq",
       "replicaPutRequest": "RPutReq", "replicaNullRequest": "RNullReq", "findStableRequestsLoop": "RFindStable",
       "findMinClock": "RMinClock", "findMinClient": "RMinClient", "addStableMessage": "RAddStable",
       "respondPendingRequestsLoop": "RRespond", "respondStableGet": "RRespGet", "respondStablePut": "RRespPut"}
GPC = {"getLoop": "GLoop", "getRequest": "GRequest", "getReply": "GReply", "getCheckSpin": "GSpin", "Done": "GDone"}
PPC = {"putLoop": "PLoop", "putRequest": "PRequest", "putBroadcast": "PBroadcast", "putResponse": "PResponse",
       "putComplete": "PComplete", "putCheckSpin": "PSpin", "Done": "PDone"}
DPC = {"sendDisconnectRequest": "DSend", "disconnectBroadcast": "DBroadcast", "Done": "DDone"}
UPC = {"clockUpdateLoop": "ULoop", "nullBroadcast": "UBroadcast", "nullCheckSpin": "USpin", "Done": "UDone"}
KEYS = {"getkey": 0, "putkey": 1}
PUT_VALUE = 7


def gen(rng):
    cfg = {"NUM_REPLICAS": rng.choice([1, 2, 2, 3]), "NUM_CLIENTS": rng.choice([1, 1, 2]), "BUFFER_SIZE": rng.choice([1, 2, 3]),
           "WITH_DISCONNECT": 1 if rng.random() < 0.5 else 0}
    return {"system": NAME, "kind": "auto", "cfg": cfg, "auto": {"seed": rng.getrandbits(60) | 1, "steps": 260}}


def val_of(x):
    """a stored value: NULL -> None, PUT_VALUE -> 7"""
    if x == "NULL":
        return None
    if x == "putvalue":
        return PUT_VALUE
    raise Unencodable(json.dumps(x))


def oopt(v):
    return "None" if v is None else "(Some %d)" % v


def msg_of(x):
    d = fn_dict(x)
    op = d.get("op")
    if op == 2 and set(d) == {"op", "key", "client", "timestamp", "reply_to"}:
        return "(MGet %d %d %d %d)" % (KEYS[d["key"]], nat(d["client"]), nat(d["timestamp"]), nat(d["reply_to"]))
    if op == 3 and set(d) == {"op", "key", "value", "client", "timestamp", "reply_to"}:
        return "(MPut %d %d %d %d %d)" % (KEYS[d["key"]], val_of(d["value"]), nat(d["client"]), nat(d["timestamp"]), nat(d["reply_to"]))
    if op == 1 and set(d) == {"op", "client"}:
        return "(MDisc %d)" % nat(d["client"])
    if op == 4 and set(d) == {"op", "client", "timestamp"}:
        return "(MNull %d %d)" % (nat(d["client"]), nat(d["timestamp"]))
    raise Unencodable(json.dumps(x))


def resp_of(x):
    d = fn_dict(x)
    if d.get("type") == 5 and set(d) == {"type", "result"}:
        return "(RGet %s)" % oopt(val_of(d["result"]))
    if d.get("type") == 6 and set(d) == {"type", "result"} and d["result"] is None:
        return "RPut"
    raise Unencodable(json.dumps(x))


def resolve_fn(x, default):
    """a function-valued local as tracked by steplib: whole value, unknown (None), or {"partial": overrides}"""
    if x is None:
        return dict(default)
    if isinstance(x, dict) and "partial" in x:
        d = dict(default)
        for idx, v in x["partial"]:
            if len(idx) != 1:
                raise Unencodable(json.dumps(x))
            d[idx[0]] = v
        return d
    return fn_dict(x)


def opt(f, x):
    return "None" if x is None else "(Some %s)" % f(x)


def natset(x):
    if not (isinstance(x, dict) and "s" in x):
        raise Unencodable(json.dumps(x))
    return [nat(e) for e in x["s"]]


def analyse(case, res):
    cfg = case["cfg"]
    nr, nc = cfg["NUM_REPLICAS"], cfg["NUM_CLIENTS"]
    clients = list(range(nr, nr + nc))
    fails, breaks, steps = [], [], []
    out = {"fails": fails, "breaks": breaks, "coq": None, "nontrivial": False,
           "explicit": {"system": NAME, "kind": case.get("kind", "corpus"), "cfg": cfg, "sched": explicit_sched(res)}}
    if res.get("err"):
        breaks.append("harness error: " + res["err"])
        return out
    pcs = PCs(res["pcs0"])
    loc = {}
    pre = res["init"]
    last_o = None
    responses = 0
    disconnects = 0

    def pcname(proc):
        return pcs.pc[proc].split(".", 1)[1]

    def L(proc, arch, name):
        return loc.get(proc, {}).get(arch + "." + name)
    at = -1
    try:
        for i, ob in enumerate(res["steps"]):
            at = i
            f, br = generic_failures(i, ob)
            fails += f; breaks += br
            if br:
                break
            proc, label, oc = ob["proc"], ob["label"], ob["outcome"]
            post = ob["state"]
            prev_loc = loc.get(proc, {})
            if oc == "commit":
                loc[proc] = dict(ob["locals"])
                if label in ("Get.getReply", "Put.putComplete"):
                    responses += 1
                if label == "Disconnect.sendDisconnectRequest":
                    disconnects += 1
            pcs.update(ob)
            if oc != "commit" and post != pre:
                fails.append(("abort-changed-state", "step %d: %s attempt of %s changed the spec state" % (i, oc, proc)))
            # event
            kind, num = proc[:3], int(proc[3:])
            if kind == "rep":
                pick = None
                if oc == "commit" and label in ("AReplica.findMinClock", "AReplica.findMinClient"):
                    name = "AReplica.clientsIter" if label.endswith("Clock") else "AReplica.pendingClients"
                    before, after = prev_loc.get(name), loc[proc].get(name)
                    if before is not None and after is not None:
                        diff = set(natset(before)) - set(natset(after))
                        if len(diff) == 1:
                            pick = diff.pop()
                ev = "(ERep %d %s)" % (num, oopt(pick))
            elif kind == "get":
                dst = None
                for acc in ob.get("accesses") or []:
                    if acc["kind"] == "w" and acc["var"] == "replicasNetwork":
                        dst = nat(acc["idx"][0])
                ev = "(EGet %d %s)" % (nr + num, oopt(dst))
            elif kind == "put":
                ev = "(EPut %d)" % (nr + nc + num)
            elif kind == "dis":
                ev = "(EDisc %d)" % (nr + 2 * nc + num)
            else:
                ev = "(EClk %d)" % (nr + 3 * nc + num)
            # projection
            rn, cb, ck = fn_dict(post["replicasNetwork"]), fn_dict(post["clientMailboxes"]), fn_dict(post["clocks"])
            robs = []
            for r in range(nr):
                p = "rep%d" % r
                A = lambda name: L(p, "AReplica", name)
                lv = A("liveClients")
                pr = A("pendingRequests")
                cc = A("currentClocks")
                prd = resolve_fn(pr, {c: {"t": []} for c in clients})
                ccd = resolve_fn(cc, {c: 0 for c in clients})
                kvd = fn_dict(post["kv%d" % r])
                v = A("val")
                has_val = "AReplica.val" in loc.get(p, {})
                robs.append("(mkRO %s %s %s %s %s %s %s %s %s %s %s %s %s %s %s %s %s %s %s)" % (
                    coq_nats(natset(lv) if lv is not None else clients),
                    vlib.coq_list([vlib.coq_list([msg_of(m) for m in tup(prd[c])]) if c in prd else "[]" for c in clients]),
                    vlib.coq_list([msg_of(m) for m in tup(A("stableMessages"))]) if A("stableMessages") is not None else "[]",
                    opt(lambda x: str(nat(x)), A("i")), opt(msg_of, A("firstPending")), opt(lambda x: str(nat(x)), A("timestamp")),
                    opt(lambda x: str(nat(x)), A("nextClient")), opt(lambda x: str(nat(x)), A("lowestPending")),
                    opt(lambda x: vlib.coq_bool(bool(x)), A("chooseMessage")),
                    coq_nats([ccd.get(c, 0) for c in clients]),
                    opt(lambda x: str(nat(x)), A("minClock")), opt(lambda x: vlib.coq_bool(bool(x)), A("continue")),
                    opt(lambda x: coq_nats(natset(x)), A("pendingClients")), opt(lambda x: coq_nats(natset(x)), A("clientsIter")),
                    opt(msg_of, A("msg")), opt(lambda x: str(KEYS[x]), A("key")),
                    ("(Some %s)" % oopt(val_of(v))) if has_val else "None",
                    vlib.coq_list([oopt(val_of(kvd["getkey"])), oopt(val_of(kvd["putkey"]))]),
                    RPC[pcname(p)]))
            gets, puts, discs, clks = [], [], [], []
            for k in range(nc):
                p = "get%d" % k
                c = L(p, "Get", "continue")
                gets.append("(mkG %s %s %s %s)" % (vlib.coq_bool(True if c is None else bool(c)), opt(msg_of, L(p, "Get", "getReq")),
                                                   opt(resp_of, L(p, "Get", "getResp")), GPC[pcname(p)]))
                p = "put%d" % k
                c = L(p, "Put", "continue")
                puts.append("(mkP %s %s %s %s %s %s)" % (vlib.coq_bool(True if c is None else bool(c)), opt(lambda x: str(nat(x)), L(p, "Put", "i")),
                                                         opt(lambda x: str(nat(x)), L(p, "Put", "j")), opt(msg_of, L(p, "Put", "putReq")),
                                                         opt(resp_of, L(p, "Put", "putResp")), PPC[pcname(p)]))
                p = "dis%d" % k
                if p in pcs.pc:
                    discs.append("(mkD %s %s %s)" % (opt(msg_of, L(p, "Disconnect", "msg")), opt(lambda x: str(nat(x)), L(p, "Disconnect", "j")), DPC[pcname(p)]))
                else:
                    discs.append("(mkD None None DSend)")
                p = "clk%d" % k
                c = L(p, "ClockUpdate", "continue")
                clks.append("(mkU %s %s %s %s)" % (vlib.coq_bool(True if c is None else bool(c)), opt(lambda x: str(nat(x)), L(p, "ClockUpdate", "j")),
                                                   opt(msg_of, L(p, "ClockUpdate", "msg")), UPC[pcname(p)]))
            ov = post["out"]
            outs = "OInit" if (ov == 0 and not isinstance(ov, bool)) else "OPutResp" if ov == 6 else "(ORes %s)" % oopt(val_of(ov))
            o = "(mkObs %s %s %s %s %s %s %s %s %s)" % (
                vlib.coq_list([vlib.coq_list([msg_of(m) for m in tup(rn[r])]) for r in range(nr)]),
                vlib.coq_list([vlib.coq_list([resp_of(m) for m in tup(cb[c])]) for c in range(nr, nr + 4 * nc)]),
                vlib.coq_list(["None" if ck[c] == -1 else "(Some %d)" % nat(ck[c]) for c in clients]),
                outs, vlib.coq_list(robs), vlib.coq_list(gets), vlib.coq_list(puts), vlib.coq_list(discs), vlib.coq_list(clks))
            same = oc != "commit" and post == pre and steps and last_o == o
            steps.append("(%s,(%d,%s))" % (ev, OUT[oc], "None" if same else "Some " + o))
            last_o = o
            pre = post
            if oc.startswith("error"):
                break
    except (Unencodable, KeyError, IndexError, TypeError, ValueError) as e:
        breaks.append("observation outside the typed model's universe (label or value unknown to coq/C16/Rkv.v): %r" % (e,))
        # the tie is broken from here on; the property's oracle (no failed assertion, no TLA+ type error, no crash) needs no model:
        # keep judging the rest of the walk
        for j in range(at + 1, len(res["steps"])):
            f, br = generic_failures(j, res["steps"][j])
            fails += f
    out["coq"] = "(mkCfg %d %d %d true, [%s])" % (nr, nc, cfg["BUFFER_SIZE"], ";\n  ".join(steps))
    out["nontrivial"] = responses >= 1
    out["stats"] = {"client_operations_completed": responses, "disconnects": disconnects}
    return out
