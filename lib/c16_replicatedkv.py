"""C16 / replicatedkv: assertion-freedom walks only (no Coq model, no theorem): the five generated archetypes
(AReplica, Get, Put, Disconnect, ClockUpdate) run under the step harness over spec state; the oracle flags failed
assertions, TLA+ type errors, crashes, and aborted attempts that changed the spec state."""
from c16_common import *

NAME = "replicatedkv"
COQ_MODULE = None


def gen(rng):
    cfg = {"NUM_REPLICAS": rng.choice([1, 2, 2, 3]), "NUM_CLIENTS": rng.choice([1, 1, 2]), "BUFFER_SIZE": rng.choice([1, 2, 3]),
           "WITH_DISCONNECT": 1 if rng.random() < 0.4 else 0}
    return {"system": NAME, "kind": "auto", "cfg": cfg, "auto": {"seed": rng.getrandbits(60) | 1, "steps": 350}}


def analyse(case, res):
    fails, breaks = [], []
    out = {"fails": fails, "breaks": breaks, "coq": None, "nontrivial": False,
           "explicit": {"system": NAME, "kind": case.get("kind", "corpus"), "cfg": case["cfg"], "sched": explicit_sched(res)}}
    if res.get("err"):
        breaks.append("harness error: " + res["err"])
        return out
    pre = res["init"]
    responses = 0
    for i, ob in enumerate(res["steps"]):
        f, br = generic_failures(i, ob)
        fails += f; breaks += br
        if br:
            break
        if ob["outcome"] != "commit" and ob["state"] != pre:
            fails.append(("abort-changed-state", "step %d: %s attempt of %s changed the spec state" % (i, ob["outcome"], ob["proc"])))
        if ob["outcome"] == "commit" and ob["label"] in ("Get.getReply", "Put.putComplete"):
            responses += 1
        pre = ob["state"]
        if ob["outcome"].startswith("error"):
            break
    out["nontrivial"] = responses >= 1
    out["stats"] = {"client_operations_completed": responses}
    return out
