"""C16 / proxy: generation, implementation-side oracle (ProxyOK under the perfect FD), projection for coq/C16/Proxy.v."""
import json
import vlib
from c16_common import *

NAME = "proxy"
COQ_MODULE = "C16.Proxy"
PPC = {"AProxy.proxyLoop": "PLoop", "AProxy.serversLoop": "PServers", "AProxy.proxyRcvMsg": "PRcv", "AProxy.sendMsgToClient": "PSend"}
SPC = {"AServer.serverLoop": "SLoop", "AServer.serverRcvMsg": "SRcv", "AServer.serverSendMsg": "SSend", "AServer.failLabel": "SFail", "AServer.Done": "SDone"}
CPC = {"AClient.clientLoop": "CLoop", "AClient.clientRcvResp": "CRcv", "AClient.Done": "CDone"}
FAIL = 100


def gen(rng):
    ns = rng.choice([1, 2, 2, 3])
    nc = rng.choice([1, 1, 2])
    cfg = {"NUM_SERVERS": ns, "NUM_CLIENTS": nc, "EXPLORE_FAIL": 1 if rng.random() < 0.8 else 0, "CLIENT_RUN": 1 if rng.random() < 0.9 else 0}
    if rng.random() < 0.75:
        return {"system": NAME, "kind": "auto", "cfg": cfg, "auto": {"seed": rng.getrandbits(60) | 1, "steps": 60 + 25 * (ns + nc)}}
    procs = ["proxy"] + ["s%d" % j for j in range(1, ns + 1)] + ["c%d" % c for c in range(ns + 1, ns + nc + 1)]
    sched = []
    for _ in range(rng.randint(30, 60 + 25 * (ns + nc))):
        p = "proxy" if rng.random() < 0.4 else rng.choice(procs[1:])
        # failures are rare so that requests get through
        sched.append([p, [1 if rng.random() < (0.12 if p != "proxy" else 0.3) else 0]])
    return {"system": NAME, "kind": "blind", "cfg": cfg, "sched": sched}


def msg_of(x):
    d = fn_dict(x)
    if set(d) != {"from", "to", "body", "id", "typ"}:
        raise Unencodable(json.dumps(x))
    return "(mkMsg %d %d %d %d %d)" % (nat(d["from"]), nat(d["to"]), nat(d["body"]), nat(d["id"]), nat(d["typ"]))


def omsg(x):
    return "None" if x is None else "(Some %s)" % msg_of(x)


def analyse(case, res):
    cfg = case["cfg"]
    ns, nc = cfg["NUM_SERVERS"], cfg["NUM_CLIENTS"]
    P = ns + nc + 1
    fails, breaks, steps = [], [], []
    out = {"fails": fails, "breaks": breaks, "coq": None, "nontrivial": False,
           "explicit": {"system": NAME, "kind": case.get("kind", "corpus"), "cfg": cfg, "sched": explicit_sched(res)}}
    if res.get("err"):
        breaks.append("harness error: " + res["err"])
        return out
    pcs = PCs(res["pcs0"])
    loc = {}
    pre = res["init"]
    last_o = None
    failed_servers, answered, fail_reports = set(), 0, 0
    try:
        for i, ob in enumerate(res["steps"]):
            f, br = generic_failures(i, ob)
            fails += f; breaks += br
            if br:
                break
            proc, label, oc = ob["proc"], ob["label"], ob["outcome"]
            p = P if proc == "proxy" else int(proc[1:])
            branch = ob["choices"][0]["index"] if ob["choices"] else 0
            post = ob["state"]
            if oc == "commit":
                loc[proc] = dict(ob["locals"])
            pcs.update(ob)
            srv_pcs = {j: pcs.pc["s%d" % j] for j in range(1, ns + 1)}
            all_failed = all(v in ("AServer.failLabel", "AServer.Done") for v in srv_pcs.values())
            for j, v in srv_pcs.items():
                if v in ("AServer.failLabel", "AServer.Done"):
                    failed_servers.add(j)
            # implementation-side oracle: ProxyOK (perfect failure detector)
            pl = loc.get("proxy", {})
            presp = pl.get("AProxy.proxyResp")
            if pcs.pc["proxy"] == "AProxy.sendMsgToClient" and presp is not None and fn_dict(presp).get("body") == FAIL and not all_failed:
                fails.append(("proxy-reports-failure-with-live-backend", "step %d: proxy at sendMsgToClient with body FAIL while servers are at %s (ProxyOK)" % (i, srv_pcs)))
            if oc == "commit" and label == "AProxy.sendMsgToClient":
                for el in ob["elems"]:
                    if el["kind"] == "w" and el["name"] == "AProxy.net":
                        answered += 1
                        if fn_dict(el["val"]).get("body") == FAIL:
                            fail_reports += 1
                            if not all_failed:
                                fails.append(("proxy-reports-failure-with-live-backend", "step %d: proxy sent FAIL to client %s while servers are at %s" % (i, fn_dict(el["val"]).get("to"), srv_pcs)))
            if oc != "commit" and post != pre:
                fails.append(("abort-changed-state", "step %d: %s attempt of %s changed the spec state" % (i, oc, proc)))
            # projection
            net = {}
            for k, v in post["network"]["f"]:
                kk = tup(k)
                net[(kk[0], kk[1])] = fn_dict(v)
            queues = [[[msg_of(m) for m in tup(net[(n, t)]["queue"])] for t in range(1, 5)] for n in range(1, P + 1)]
            enabled = [[bool(net[(n, t)]["enabled"]) for t in range(1, 5)] for n in range(1, P + 1)]
            fdv = fn_dict(post["fd"])
            inp = fn_dict(post["input"])
            outv = post["output"]
            sl = lambda j, name: loc.get("s%d" % j, {}).get(name)
            cl = lambda c, name: loc.get("c%d" % c, {}).get(name)
            idx = pl.get("AProxy.idx")
            o = "(mkObs %s %s %s %s %s %s %s %s %s %s %s %s %s %s %s %s %s %s)" % (
                vlib.coq_list([vlib.coq_list([vlib.coq_list(q) for q in row]) for row in queues]),
                vlib.coq_list([vlib.coq_list([vlib.coq_bool(b) for b in row]) for row in enabled]),
                vlib.coq_list([vlib.coq_bool(bool(fdv[n])) for n in range(1, P + 1)]),
                "None" if (isinstance(outv, dict) and outv.get("t") == []) else omsg(outv),
                omsg(pl.get("AProxy.msg")), omsg(pl.get("AProxy.proxyMsg")),
                "None" if idx is None else "(Some %d)" % nat(idx),
                omsg(pl.get("AProxy.resp")), omsg(presp), PPC[pcs.pc["proxy"]],
                vlib.coq_list([omsg(sl(j, "AServer.msg")) for j in range(1, ns + 1)]),
                vlib.coq_list([omsg(sl(j, "AServer.resp")) for j in range(1, ns + 1)]),
                vlib.coq_list([SPC[srv_pcs[j]] for j in range(1, ns + 1)]),
                vlib.coq_list([omsg(cl(c, "AClient.req")) for c in range(ns + 1, ns + nc + 1)]),
                vlib.coq_list([omsg(cl(c, "AClient.resp")) for c in range(ns + 1, ns + nc + 1)]),
                coq_nats([cl(c, "AClient.reqId") or 0 for c in range(ns + 1, ns + nc + 1)]),
                coq_nats([inp[c] for c in range(ns + 1, ns + nc + 1)]),
                vlib.coq_list([CPC[pcs.pc["c%d" % c]] for c in range(ns + 1, ns + nc + 1)]))
            same = oc != "commit" and post == pre and steps and last_o == o
            steps.append("((%d,%d),(%d,%s))" % (p, branch, OUT[oc], "None" if same else "Some " + o))
            last_o = o
            pre = post
            if oc.startswith("error"):
                break
    except (Unencodable, KeyError, IndexError) as e:
        breaks.append("observation outside the typed model's universe: %r" % (e,))
    out["coq"] = "(mkCfg %d %d %s %s, [%s])" % (ns, nc, vlib.coq_bool(cfg["EXPLORE_FAIL"] != 0), vlib.coq_bool(cfg["CLIENT_RUN"] != 0), ";\n  ".join(steps))
    out["nontrivial"] = answered >= 1 and (len(failed_servers) >= 1 or answered >= 2)
    out["stats"] = {"answered": answered, "fail_reports": fail_reports, "failed_servers": len(failed_servers)}
    return out
